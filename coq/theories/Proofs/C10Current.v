(* Proofs/C10Current.v -- C10 on the tables of the CURRENT implementation
   (gen/Tables.v, regenerated on every run): the per-run obligation
   [product_ok (e_proto_tbl the_env) K0] decided by computation, its consequences,
   replays of the known findings (one payload per family of K0, and one per entry
   of K0), and ordinary payloads identified as published. *)
From Coq Require Import Lia.
From MS Require Import Smack Proto Spec.AppView Spec.RefSig Spec.C10 Spec.C10Known Spec.PendingBound Instance
  Proofs.Tactics Proofs.SmackSeg Proofs.C10Sound Proofs.C10Seg Proofs.PendingBound Proofs.C10Dispatch.

Definition cur_tbl : smack := e_proto_tbl the_env.

(* ---- the per-run obligations ---- *)
Lemma cur_smack_ok : smack_ok cur_tbl = true.
Proof. vm_compute. reflexivity. Qed.
Lemma cur_product_ok : product_ok cur_tbl K0 = true.
Proof. vm_cast_no_check (eq_refl true). Qed.
Lemma cur_product_ok_lax : product_ok_lax cur_tbl K0 = true.
Proof. vm_cast_no_check (eq_refl true). Qed.
Lemma cur_pre : tbl_pre cur_tbl = true.
Proof. vm_compute. reflexivity. Qed.

Lemma cur_pre_parts : sm_rows cur_tbl <= TWO24 /\ 0 < sm_rows cur_tbl /\ 0 < sm_match_limit cur_tbl.
Proof.
  pose proof cur_pre as H. unfold tbl_pre in H. rewrite !andb_true_iff in H.
  destruct H as [[H1 H2] H3]. apply N.leb_le in H1. apply N.ltb_lt in H2. apply N.ltb_lt in H3. tauto.
Qed.

(* the bounded prefix buffer of proto::repl loses nothing: a stream whose first
   PENDING_MAX + 1 bytes complete no signature never completes one (the tight value on
   the current table is 28) *)
Lemma cur_ident_bound : ident_bound_ok cur_tbl 65 = true.
Proof. vm_compute. reflexivity. Qed.
Lemma cur_ident_bound_28 : ident_bound_ok cur_tbl 28 = true /\ ident_bound_ok cur_tbl 27 = false.
Proof. vm_compute. split; reflexivity. Qed.

Theorem current_ident_within s a i : bytes_ok (s ++ a) = true ->
  tcp_first_id the_env s = None -> tcp_first_id the_env (s ++ a) = Some i ->
  (length s < 28)%nat /\ lenN s <= PENDING_MAX.
Proof.
  intros Hb Hs Hsa. destruct cur_pre_parts as (Hsz & H0 & H1).
  rewrite tcp_first_id_tbl_eq in Hs, Hsa.
  pose proof (ident_within cur_tbl 28 cur_smack_ok Hsz H0 H1 (proj1 cur_ident_bound_28) s a i Hb Hs Hsa) as H.
  split; [exact H|]. unfold PENDING_MAX, lenN. lia.
Qed.
Theorem current_unidentified_forever s a : bytes_ok (s ++ a) = true -> (28 <= length s)%nat ->
  tcp_first_id the_env s = None -> tcp_first_id the_env (s ++ a) = None.
Proof.
  intros Hb Hl Hs. destruct cur_pre_parts as (Hsz & H0 & H1).
  rewrite tcp_first_id_tbl_eq in *.
  exact (ident_bound cur_tbl 28 cur_smack_ok Hsz H0 H1 (proj1 cur_ident_bound_28) s a Hl Hb Hs).
Qed.

(* ---- identification = reference, outside the known class, for strings of every length ---- *)
Theorem current_ident s : bytes_ok s = true -> D0 K0 s = false ->
  udp_id the_env s = ref_udp s /\ tcp_first_id the_env s = ref_tcp s.
Proof.
  intros Hs Hd. rewrite udp_id_tbl_eq, tcp_first_id_tbl_eq.
  exact (product_sound cur_tbl K0 cur_smack_ok cur_product_ok s Hs Hd).
Qed.
Theorem current_ident_tcp s : bytes_ok s = true -> D0_tcp K0 s = false ->
  tcp_first_id the_env s = ref_tcp s.
Proof.
  intros Hs Hd. rewrite tcp_first_id_tbl_eq.
  exact (product_sound_tcp cur_tbl K0 cur_smack_ok cur_product_ok s Hs Hd).
Qed.

(* the refined class: a payload whose first known point is a dead point is in the
   class only if the reference identifies something (the table identifies nothing) *)
Theorem current_ident_refined s : bytes_ok s = true ->
  (D0x_udp K0 s = false -> udp_id the_env s = ref_udp s) /\
  (D0x_tcp K0 s = false -> tcp_first_id the_env s = ref_tcp s).
Proof.
  intros Hs. rewrite udp_id_tbl_eq, tcp_first_id_tbl_eq.
  exact (product_sound_refined cur_tbl K0 cur_smack_ok cur_product_ok s Hs).
Qed.
(* at a dead point the table identifies nothing *)
Theorem current_dead_point (udp : bool) s s1 x : bytes_ok s = true ->
  d0_first K0 udp r_init s = Some (s1, x) -> x < 256 -> k_dead_at K0 s1 = true ->
  tcp_first_id the_env s = None /\ udp_id the_env s = None.
Proof.
  intros Hs Hf Hx Hd. rewrite udp_id_tbl_eq, tcp_first_id_tbl_eq.
  exact (product_dead_sound cur_tbl K0 cur_smack_ok cur_product_ok udp s s1 x Hs Hf Hx Hd).
Qed.

(* the known class is closed under extension over TCP, hence a prefix of a stream outside it is outside it *)
Lemma d0_run_prefix K a b : forall st, d0_run K false st (a ++ b) = false -> d0_run K false st a = false.
Proof.
  induction a as [|x a IH]; intros st H; cbn [d0_run app] in *; [reflexivity|].
  apply orb_false_iff in H. destruct H as [H1 H2]. rewrite H1. cbn [orb].
  destruct (rsig_step st x); [apply IH; exact H2 | reflexivity].
Qed.

(* ---- consequences for proto::repl ---- *)
(* no signature completed: never a signature-dispatched responder *)
Theorem current_no_signature_udp clk ci p : bytes_ok p = true -> D0x_udp K0 p = false ->
  ref_udp p = None -> proto_repl_udp the_env clk ci p = udp_fallback ci p.
Proof.
  intros Hp Hd Hr. apply dispatch_udp_none. rewrite (proj1 (current_ident_refined p Hp) Hd). exact Hr.
Qed.
Theorem current_no_signature_tcp clk ci p : bytes_ok p = true -> D0x_tcp K0 p = false ->
  ref_tcp p = None ->
  exists st, proto_repl_tcp the_env clk ci tcb_new p =
             Ok (ci, {| t_smack := st; t_proto := PROTO_NONE; t_pstate := None;
                        t_pending := if lenN p <=? PENDING_MAX then p else [] |}, None).
Proof.
  intros Hp Hd Hr. apply dispatch_tcp_none. rewrite (proj2 (current_ident_refined p Hp) Hd). exact Hr.
Qed.
(* a signature completed: the responder of that protocol *)
Theorem current_signature_udp clk ci p id : bytes_ok p = true -> D0x_udp K0 p = false ->
  ref_udp p = Some id -> proto_repl_udp the_env clk ci p = udp_via the_env clk ci id p.
Proof.
  intros Hp Hd Hr. apply dispatch_udp_some. rewrite (proj1 (current_ident_refined p Hp) Hd). exact Hr.
Qed.
Theorem current_signature_tcp clk ci p id : bytes_ok p = true -> D0x_tcp K0 p = false ->
  ref_tcp p = Some id ->
  exists st, proto_repl_tcp the_env clk ci tcb_new p =
    (let tc1 := {| t_smack := st; t_proto := id; t_pstate := None; t_pending := [] |} in
     do r <- dispatch the_env clk ci id (Some tc1) p;
     let '(ci', t', out) := r in Ok (ci', match t' with Some x => x | None => tc1 end, out)).
Proof.
  intros Hp Hd Hr. apply dispatch_tcp_some. rewrite (proj2 (current_ident_refined p Hp) Hd). exact Hr.
Qed.

(* over TCP, however the leading bytes are cut: the segments before the one in
   which the reference completes a signature are not answered (the control block keeps
   them), and that segment is dispatched under the reference's id, the handler being
   given the whole stream so far *)
Theorem current_segmentation clk ci segs a id :
  bytes_ok (concat segs ++ a) = true -> D0_tcp K0 (concat segs ++ a) = false ->
  ref_tcp (concat segs) = None -> ref_tcp (concat segs ++ a) = Some id ->
  exists st1 st',
    let tc0 := {| t_smack := st1; t_proto := PROTO_NONE; t_pstate := None; t_pending := concat segs |} in
    tcp_feed the_env clk ci tcb_new segs = Ok (ci, tc0, repeat None (length segs)) /\
    proto_repl_tcp the_env clk ci tc0 a =
      (let tc1 := {| t_smack := st'; t_proto := id; t_pstate := None; t_pending := [] |} in
       do r <- dispatch the_env clk ci id (Some tc1) (concat segs ++ a);
       let '(ci', t', out) := r in Ok (ci', match t' with Some x => x | None => tc1 end, out)).
Proof.
  intros Hb Hd Hn Hs.
  destruct cur_pre_parts as (Hsz & H0 & H1).
  assert (Hb1 : bytes_ok (concat segs) = true).
  { unfold bytes_ok in *. rewrite forallb_app in Hb. apply andb_true_iff in Hb. exact (proj1 Hb). }
  pose proof (d0_run_prefix K0 (concat segs) a r_init Hd) as Hd1.
  assert (Hn' : tcp_first_id the_env (concat segs) = None) by (rewrite (current_ident_tcp _ Hb1 Hd1); exact Hn).
  assert (Hs' : tcp_first_id the_env (concat segs ++ a) = Some id) by (rewrite (current_ident_tcp _ Hb Hd); exact Hs).
  apply (tcp_feed_first_id the_env clk ci cur_smack_ok Hsz segs a id H0 H1).
  - exact (proj2 (current_ident_within _ _ _ Hb Hn' Hs')).
  - rewrite <- tcp_first_id_tbl_eq. exact Hn'.
  - rewrite <- tcp_first_id_tbl_eq. exact Hs'.
Qed.

(* ---- every raw disagreement of the current table lies in the known class,
   and every entry of K0 is needed ---- *)
Lemma cur_known_covers : known_covers cur_tbl K0 = true.
Proof. vm_cast_no_check (eq_refl true). Qed.
Lemma cur_no_new_disagreement : disagreements_k cur_tbl K0 = [].
Proof. vm_cast_no_check (eq_refl (@nil (bytes * option N * option N))). Qed.
Lemma cur_k0_needed : k0_needed cur_tbl = true.
Proof. vm_compute. reflexivity. Qed.

(* ---- replays of the known findings: payloads in D0 on which the current table
   and the published signature set differ ---- *)
(* portmap GETPORT call, xid [x0 x1 x2 x3] (40 + 16 bytes) *)
Definition rpc_call (xid : bytes) : bytes :=
  xid ++ [0;0;0;0; 0;0;0;2; 0;1;134;160; 0;0;0;2; 0;0;0;3; 0;0;0;0; 0;0;0;0; 0;0;0;0; 0;0;0;0;
          0;1;134;163; 0;0;0;3; 0;0;0;6; 0;0;0;0].
Definition rpc_record (xid : bytes) : bytes := [128; 0; 0; 56] ++ rpc_call xid.
Definition txid12 : bytes := [1; 2; 3; 4; 5; 6; 7; 8; 9; 10; 11; 12].

(* (i) RPC/UDP call whose xid starts with 'G' *)
Definition W_shadow_udp : bytes := rpc_call [71; 0; 0; 1].
(* (i') RPC/TCP record whose mark starts like "PO" (a 0x504f.... fragment header) *)
Definition W_shadow_tcp : bytes := [80; 79; 0; 56] ++ rpc_call [18; 52; 86; 120].
(* (ii) RPC/TCP record whose xid starts with 00 *)
Definition W_rpc_tcp_xid0 : bytes := rpc_record [0; 18; 52; 86].
(* (iii) STUN binding request with the magic cookie and one empty attribute (length 4) *)
Definition W_stun_len4 : bytes := [0; 1; 0; 4; 33; 18; 164; 66] ++ txid12 ++ [128; 34; 0; 0].
(* (iii') STUN binding request with the magic cookie, no attribute, 20 bytes: identified over
   UDP only because it also fits the end-anchored RFC 3489 layout; over TCP never *)
Definition W_stun_cookie20 : bytes := [0; 1; 0; 0; 33; 18; 164; 66] ++ txid12.
(* (iii'') ... with an 8-byte attribute that is not CHANGE-REQUEST *)
Definition W_stun_len8 : bytes := [0; 1; 0; 8; 33; 18; 164; 66] ++ txid12 ++ [128; 34; 0; 4; 97; 98; 99; 100].
(* (iv) the first 23 bytes of an RPC/UDP call, the first 27 bytes of an RPC/TCP record *)
Definition W_end_udp23 : bytes := firstn 23 (rpc_call [18; 52; 86; 120]).
Definition W_end_tcp27 : bytes := firstn 27 (rpc_record [18; 52; 86; 120]).
(* (v) a 28-byte datagram that is both an RPC/TCP call prefix and the RFC 3489
   CHANGE-REQUEST layout: the reference completes RPC_TCP at byte 28, the table says STUN at END *)
Definition W_tie : bytes := [0;1;0;8; 0;0;0;0; 0;0;0;0; 0;0;0;0; 0;1;134;0; 0;3;0;4; 0;0;0;0].

Theorem known_witnesses :
  (* (i) *)   (D0 K0 W_shadow_udp = true /\ udp_id the_env W_shadow_udp = None /\ ref_udp W_shadow_udp = Some ID_RPC_UDP) /\
  (* (i') *)  (D0_tcp K0 W_shadow_tcp = true /\ tcp_first_id the_env W_shadow_tcp = None /\ ref_tcp W_shadow_tcp = Some ID_RPC_TCP) /\
  (* (ii) *)  (D0_tcp K0 W_rpc_tcp_xid0 = true /\ tcp_first_id the_env W_rpc_tcp_xid0 = None /\ ref_tcp W_rpc_tcp_xid0 = Some ID_RPC_TCP) /\
  (* (iii) *) (D0 K0 W_stun_len4 = true /\ udp_id the_env W_stun_len4 = None /\ ref_udp W_stun_len4 = Some ID_STUN) /\
              (D0_tcp K0 W_stun_cookie20 = true /\ tcp_first_id the_env W_stun_cookie20 = None /\
               ref_tcp W_stun_cookie20 = Some ID_STUN /\ udp_id the_env W_stun_cookie20 = Some ID_STUN) /\
              (D0 K0 W_stun_len8 = true /\ udp_id the_env W_stun_len8 = None /\ ref_udp W_stun_len8 = Some ID_STUN) /\
  (* (iv) *)  (D0 K0 W_end_udp23 = true /\ udp_id the_env W_end_udp23 = Some ID_RPC_UDP /\ ref_udp W_end_udp23 = None) /\
              (D0 K0 W_end_tcp27 = true /\ udp_id the_env W_end_tcp27 = Some ID_RPC_TCP /\ ref_udp W_end_tcp27 = None) /\
  (* (v) *)   (D0 K0 W_tie = true /\ udp_id the_env W_tie = Some ID_STUN /\ ref_udp W_tie = Some ID_RPC_TCP).
Proof. vm_compute. repeat split; reflexivity. Qed.

(* ---- ordinary payloads: outside the (refined) class, identified as published.
   E_ssh15 and E_dns pass a dead point (an RPC signature is still live there) but the
   reference identifies nothing: they are outside the refined class. ---- *)
Definition E_http_get : bytes := [71;69;84;32;47;32;72;84;84;80;47;49;46;48;13;10;13;10].       (* GET / HTTP/1.0 *)
Definition E_http_post : bytes := [80;79;83;84;32;47;120;32;72;84;84;80;47;49;46;49;13;10].    (* POST /x HTTP/1.1 *)
Definition E_http_options : bytes := [79;80;84;73;79;78;83;32;47].                              (* OPTIONS / *)
Definition E_http_lower : bytes := [103;101;116;32;47;32].                                      (* get /  : case-sensitive *)
Definition E_http_star : bytes := [79;80;84;73;79;78;83;32;42].                                 (* OPTIONS * : not a signature *)
Definition E_ssh2 : bytes := [83;83;72;45;50;46;48;45;79;112;101;110;83;83;72;13;10].          (* SSH-2.0-OpenSSH *)
Definition E_ssh199 : bytes := [83;83;72;45;49;46;57;57;45;120;13;10].                          (* SSH-1.99-x *)
Definition E_ssh15 : bytes := [83;83;72;45;49;46;53;45;120;13;10].                              (* SSH-1.5-x : not a signature *)
Definition E_ghost : bytes := [71;104;48;115;116;22;0;0;0].
Definition E_stun_cookie_long : bytes := [0;1;1;0;33;18;164;66] ++ txid12.   (* cookie request, length 0x0100 *)
Definition E_stun_3489 : bytes := [0;1;0;0] ++ [9;9;9;9] ++ txid12.           (* RFC 3489, no attribute, 20 bytes *)
Definition E_stun_3489_21 : bytes := E_stun_3489 ++ [0].                      (* one byte too long *)
Definition E_stun_3489_change : bytes := [0;1;0;8] ++ [9;9;9;9] ++ txid12 ++ [0;3;0;4;0;0;0;6].
Definition E_rpc_udp : bytes := rpc_call [18; 52; 86; 120].
Definition E_rpc_tcp : bytes := rpc_record [18; 52; 86; 120].
Definition E_smb1 : bytes := [0;0;0;47;255;83;77;66;114;0;0;0;0].
Definition E_smb2 : bytes := [0;0;0;102;254;83;77;66;64;0;0;0].
Definition E_dns : bytes := [18;52;1;0;0;1;0;0;0;0;0;0;1;97;0;0;1;0;1].
Definition E_garbage : bytes := [222;173;190;239;1;2;3;4;5;6;7;8;9;10].

(* (payload, expected over UDP, expected as first TCP segment) *)
Definition examples : list (bytes * option N * option N) := [
  (E_http_get, Some ID_HTTP, Some ID_HTTP); (E_http_post, Some ID_HTTP, Some ID_HTTP);
  (E_http_options, Some ID_HTTP, Some ID_HTTP); (E_http_lower, None, None); (E_http_star, None, None);
  (E_ssh2, Some ID_SSH, Some ID_SSH); (E_ssh199, Some ID_SSH, Some ID_SSH); (E_ssh15, None, None);
  (E_ghost, Some ID_GHOST, Some ID_GHOST);
  (E_stun_cookie_long, Some ID_STUN, Some ID_STUN);
  (E_stun_3489, Some ID_STUN, None); (E_stun_3489_21, None, None);
  (E_stun_3489_change, Some ID_STUN, None);
  (E_rpc_udp, Some ID_RPC_UDP, Some ID_RPC_UDP); (E_rpc_tcp, Some ID_RPC_TCP, Some ID_RPC_TCP);
  (E_smb1, Some ID_SMB1, Some ID_SMB1); (E_smb2, Some ID_SMB2, Some ID_SMB2);
  (E_dns, None, None); (E_garbage, None, None); ([], None, None)
].
Definition example_ok (e : bytes * option N * option N) : bool :=
  let '(p, u, t) := e in
  bytes_ok p && negb (D0x_udp K0 p) && negb (D0x_tcp K0 p) &&
  oN_eqb (ref_udp p) u && oN_eqb (ref_tcp p) t &&
  oN_eqb (udp_id the_env p) u && oN_eqb (tcp_first_id the_env p) t &&
  oN_eqb (ref_udp_decl p) u && oN_eqb (ref_tcp_decl p) t.
Theorem examples_ok : forallb example_ok examples = true.
Proof. vm_compute. reflexivity. Qed.

(* the segmentation theorem is not vacuous: "GET / HTTP/1.0" cut as "G" | "ET" | " / HTTP/1.0..." *)
Example segmentation_nonvacuous :
  let segs := [[71]; [69; 84]] in let a := skipn 3 E_http_get in
  bytes_ok (concat segs ++ a) = true /\ D0_tcp K0 (concat segs ++ a) = false /\
  ref_tcp (concat segs) = None /\ ref_tcp (concat segs ++ a) = Some ID_HTTP /\
  fst (fst (ident_segs cur_tbl BASE_STATE 0 (segs ++ [a]))) = Some PROTO_HTTP /\
  snd (ident_segs cur_tbl BASE_STATE 0 (segs ++ [a])) = 5%nat.
Proof. vm_compute. repeat split; reflexivity. Qed.
