(* Proofs/ClockIndepApp.v -- the application layer and the transport responders under two
   clocks: same verdict, same client record, same control block / table, same events; the
   payloads are equal or related by [pay_rel] (the 401 page with two Date values, an SMB
   negotiate response with two FILETIME values). *)
From MS Require Import Proofs.Tactics Smb Proto L4 Proofs.SmbLen Proofs.ClockIndepSmb Spec.ClockIndep.
Open Scope N_scope.

(* ====================================================================== *)
(* relating two executions                                                 *)
(* ====================================================================== *)
Definition res_rel {A} (R : A -> A -> Prop) (x y : res A) : Prop :=
  match x, y with
  | Ok a, Ok b => R a b
  | Panic s, Panic s' => s = s'
  | _, _ => False
  end.

Lemma res_rel_refl {A} (R : A -> A -> Prop) x : (forall a, R a a) -> res_rel R x x.
Proof. intros H. destruct x; cbn; auto. Qed.

Lemma res_rel_eq {A} (R : A -> A -> Prop) x y : (forall a, R a a) -> x = y -> res_rel R x y.
Proof. intros H ->. apply res_rel_refl, H. Qed.

Lemma res_rel_bind {A B} (R : A -> A -> Prop) (R' : B -> B -> Prop) x y f g :
  res_rel R x y -> (forall a b, R a b -> res_rel R' (f a) (g b)) ->
  res_rel R' (bind x f) (bind y g).
Proof. intros H Hf. destruct x, y; cbn in *; try contradiction; auto. Qed.

Lemma res_rel_mono {A} (R R' : A -> A -> Prop) x y :
  (forall a b, R a b -> R' a b) -> res_rel R x y -> res_rel R' x y.
Proof. intros H. destruct x, y; cbn; auto. Qed.

(* ====================================================================== *)
(* payloads                                                                *)
(* ====================================================================== *)
Inductive pay_rel (E : env) (clk clk' : clock) : bytes -> bytes -> Prop :=
| pr_http :
    pay_rel E clk clk' (http_response (e_http_pre E) (e_http_post E) (clk_date clk))
                       (http_response (e_http_pre E) (e_http_post E) (clk_date clk'))
| pr_smb1 A B :
    length A = 60%nat -> firstn 14 A = firstn 4 A ++ K1 -> u8_at 0 A = 0 ->
    pay_rel E clk clk' (A ++ le64 (clk_filetime clk) ++ B) (A ++ le64 (clk_filetime clk') ++ B)
| pr_smb2 A B :
    length A = 108%nat -> firstn 24 A = firstn 4 A ++ K2 -> u8_at 0 A = 0 ->
    pay_rel E clk clk' (A ++ (le64 (clk_filetime clk) ++ le64 (clk_filetime clk)) ++ B)
                       (A ++ (le64 (clk_filetime clk') ++ le64 (clk_filetime clk')) ++ B).

Definition out_rel (E : env) (clk clk' : clock) (o o' : option bytes) : Prop :=
  o = o' \/ exists d d', o = Some d /\ o' = Some d' /\ pay_rel E clk clk' d d'.

Lemma out_rel_refl E clk clk' o : out_rel E clk clk' o o.
Proof. left. reflexivity. Qed.

(* lengths *)
Lemma pay_rel_len E clk clk' d d' :
  pay_rel E clk clk' d d' -> length (clk_date clk) = length (clk_date clk') -> length d = length d'.
Proof.
  intros H Hl. destruct H as [|A B _ _ _|A B _ _ _].
  - unfold http_response. rewrite !app_length, Hl. reflexivity.
  - rewrite !app_length. reflexivity.
  - rewrite !app_length. reflexivity.
Qed.

(* the u16 conversion of the IPv4 UDP path *)
Lemma pay_rel_fits E clk clk' d d' :
  pay_rel E clk clk' d d' -> clocks_compat E clk clk' = true ->
  (65535 <? 8 + lenN d) = (65535 <? 8 + lenN d').
Proof.
  intros H Hc. unfold clocks_compat in Hc. apply orb_true_iff in Hc. destruct Hc as [Hc|Hc].
  - apply Nat.eqb_eq in Hc. unfold lenN. rewrite (pay_rel_len _ _ _ _ _ H Hc). reflexivity.
  - destruct H as [|A B _ _ _|A B _ _ _].
    + apply andb_true_iff in Hc. destruct Hc as [H1 H2]. unfold clock_ok in H1, H2.
      unfold http_response. rewrite !lenN_app. apply N.leb_le in H1, H2.
      transitivity false; [|symmetry]; apply N.ltb_ge; lia.
    + unfold lenN. rewrite !app_length. reflexivity.
    + unfold lenN. rewrite !app_length. reflexivity.
Qed.

(* ====================================================================== *)
(* dispatch                                                                *)
(* ====================================================================== *)
Definition disp_rel (E : env) (clk clk' : clock) (a b : cinfo * option tcb * option bytes) : Prop :=
  fst (fst a) = fst (fst b) /\ snd (fst a) = snd (fst b) /\ out_rel E clk clk' (snd a) (snd b).

Lemma disp_rel_refl E clk clk' a : disp_rel E clk clk' a a.
Proof. repeat split. apply out_rel_refl. Qed.

Lemma http_repl_clk tbl pre post d d' h data :
  match http_repl tbl pre post d h data, http_repl tbl pre post d' h data with
  | Ok (h1, o1), Ok (h2, o2) =>
    h1 = h2 /\ (o1 = o2 \/ (o1 = Some (http_response pre post d) /\ o2 = Some (http_response pre post d')))
  | Panic s1, Panic s2 => s1 = s2
  | _, _ => False
  end.
Proof.
  unfold http_repl. destruct (http_parse tbl h data) as [s'|e]; cbn [bind]; [|reflexivity].
  destruct (h_state s' =? HTTP_CONTENT); split; auto.
Qed.

Lemma dispatch_clk E clk clk' ci id t data :
  res_rel (disp_rel E clk clk') (dispatch E clk ci id t data) (dispatch E clk' ci id t data).
Proof.
  unfold dispatch.
  destruct (id =? PROTO_HTTP).
  { destruct t as [tc|].
    - destruct (match t_pstate tc with None => _ | Some _ => _ end) as [h|s]; [|reflexivity].
      pose proof (http_repl_clk (e_http_tbl E) (e_http_pre E) (e_http_post E) (clk_date clk) (clk_date clk') h data) as H.
      destruct (http_repl _ _ _ (clk_date clk) h data) as [[h1 o1]|s1];
        destruct (http_repl _ _ _ (clk_date clk') h data) as [[h2 o2]|s2]; cbn [bind res_rel]; try exact H.
      destruct H as [-> H]. repeat split. cbn [snd].
      destruct H as [-> | [-> ->]]; [left; reflexivity|]. right. eexists _, _. repeat split. apply pr_http.
    - pose proof (http_repl_clk (e_http_tbl E) (e_http_pre E) (e_http_post E) (clk_date clk) (clk_date clk') http_new data) as H.
      destruct (http_repl _ _ _ (clk_date clk) http_new data) as [[h1 o1]|s1];
        destruct (http_repl _ _ _ (clk_date clk') http_new data) as [[h2 o2]|s2]; cbn [bind res_rel]; try exact H.
      destruct H as [-> H]. repeat split. cbn [snd].
      destruct H as [-> | [-> ->]]; [left; reflexivity|]. right. eexists _, _. repeat split. apply pr_http. }
  destruct (id =? PROTO_STUN); [apply res_rel_refl, disp_rel_refl|].
  destruct (id =? PROTO_SSH); [apply res_rel_refl, disp_rel_refl|].
  destruct (id =? PROTO_GHOST); [apply res_rel_refl, disp_rel_refl|].
  destruct (id =? PROTO_RPC_TCP); [apply res_rel_refl, disp_rel_refl|].
  destruct (id =? PROTO_RPC_UDP); [apply res_rel_refl, disp_rel_refl|].
  destruct (id =? PROTO_SMB1).
  { destruct (smb1_repl_clk (e_smb_neg E) (e_smb_chal E) (clk_filetime clk) (clk_filetime clk') data)
      as [-> | (A & B & HA & HK & H0 & -> & ->)]; [apply res_rel_refl, disp_rel_refl|].
    cbn [bind res_rel]. repeat split. cbn [snd]. right. eexists _, _. repeat split. apply pr_smb1; assumption. }
  destruct (id =? PROTO_SMB2).
  { destruct (smb2_repl_clk (e_smb_neg E) (e_smb_chal E) (clk_filetime clk) (clk_filetime clk') data)
      as [-> | (A & B & HA & HK & H0 & -> & ->)]; [apply res_rel_refl, disp_rel_refl|].
    cbn [bind res_rel]. repeat split. cbn [snd]. right. eexists _, _. repeat split. apply pr_smb2; assumption. }
  apply res_rel_refl, disp_rel_refl.
Qed.

(* ====================================================================== *)
(* proto::repl                                                             *)
(* ====================================================================== *)
Definition ptcp_rel (E : env) (clk clk' : clock) (a b : cinfo * tcb * option bytes) : Prop :=
  fst (fst a) = fst (fst b) /\ snd (fst a) = snd (fst b) /\ out_rel E clk clk' (snd a) (snd b).

Lemma proto_repl_tcp_clk E clk clk' ci tc data :
  res_rel (ptcp_rel E clk clk') (proto_repl_tcp E clk ci tc data) (proto_repl_tcp E clk' ci tc data).
Proof.
  unfold proto_repl_tcp. destruct (tcp_identify E tc data) as [tc1 data1].
  apply (res_rel_bind (disp_rel E clk clk')); [apply dispatch_clk|].
  intros [[c1 t1] o1] [[c2 t2] o2] (H1 & H2 & H3). cbn [fst snd] in *. subst c2 t2.
  cbn [res_rel]. repeat split. exact H3.
Qed.

Definition pudp_rel (E : env) (clk clk' : clock) (a b : cinfo * option bytes) : Prop :=
  fst a = fst b /\ out_rel E clk clk' (snd a) (snd b).

Lemma proto_repl_udp_clk E clk clk' ci data :
  res_rel (pudp_rel E clk clk') (proto_repl_udp E clk ci data) (proto_repl_udp E clk' ci data).
Proof.
  unfold proto_repl_udp. destruct (search_next (e_proto_tbl E) BASE_STATE data) as [[id st] n].
  destruct (match id with Some i => Some i | None => fst (search_next_end (e_proto_tbl E) st) end) as [i|].
  - apply (res_rel_bind (disp_rel E clk clk')); [apply dispatch_clk|].
    intros [[c1 t1] o1] [[c2 t2] o2] (H1 & H2 & H3). cbn [fst snd] in *. subst c2.
    cbn [res_rel]. split; [reflexivity | exact H3].
  - apply res_rel_refl. intros a. split; [reflexivity | apply out_rel_refl].
Qed.

(* ====================================================================== *)
(* transport                                                               *)
(* ====================================================================== *)
(* a TCP segment / a UDP datagram (checksum field still zero) around related payloads *)
Definition seg_rel (E : env) (clk clk' : clock) (o o' : option bytes) : Prop :=
  o = o' \/
  exists sp dp s a d d', pay_rel E clk clk' d d' /\
    o = Some (tcp_header sp dp s a (ACK + PSH) ++ d) /\ o' = Some (tcp_header sp dp s a (ACK + PSH) ++ d').

Definition udp_dgram (sp dp : N) (d : bytes) : bytes :=
  be16 sp ++ be16 dp ++ be16 (8 + lenN d) ++ [0; 0] ++ d.

Definition dg_rel (E : env) (clk clk' : clock) (o o' : option bytes) : Prop :=
  o = o' \/
  exists sp dp d d', pay_rel E clk clk' d d' /\ o = Some (udp_dgram sp dp d) /\ o' = Some (udp_dgram sp dp d').

Definition tcp_rel (E : env) (clk clk' : clock) (a b : table * cinfo * option bytes * list event) : Prop :=
  fst (fst (fst a)) = fst (fst (fst b)) /\ snd (fst (fst a)) = snd (fst (fst b)) /\
  snd a = snd b /\ seg_rel E clk clk' (snd (fst a)) (snd (fst b)).

Lemma tcp_rel_refl E clk clk' a : tcp_rel E clk clk' a a.
Proof. repeat split. left. reflexivity. Qed.

Lemma tcp_repl_clk E cfg clk clk' tb ci0 p :
  res_rel (tcp_rel E clk clk') (tcp_repl E cfg clk tb ci0 p) (tcp_repl E cfg clk' tb ci0 p).
Proof.
  unfold tcp_repl. cbv zeta.
  destruct (tcp_class (tcp_flags p)); [|apply res_rel_refl, tcp_rel_refl ..].
  destruct (cookie_ci _ _ _) as [ck|]; [|reflexivity].
  destruct (negb (tbl_mem ck tb) && negb (ck =? _)); [apply res_rel_refl, tcp_rel_refl|].
  apply (res_rel_bind (ptcp_rel E clk clk')); [apply proto_repl_tcp_clk|].
  intros [[c1 t1] o1] [[c2 t2] o2] (H1 & H2 & H3). cbn [fst snd] in *. subst c2 t2.
  destruct H3 as [-> | (d & d' & -> & -> & Hp)]; [apply res_rel_refl, tcp_rel_refl|].
  destruct (ci_port_dst c1) as [sp|]; [|reflexivity].
  destruct (ci_port_src c1) as [dp|]; [|reflexivity].
  cbn [res_rel]. repeat split. cbn [fst snd]. right. eexists _, _, _, _, d, d'. repeat split. exact Hp.
Qed.

Definition udp_rel (E : env) (clk clk' : clock) (a b : cinfo * option bytes * list event) : Prop :=
  fst (fst a) = fst (fst b) /\ snd a = snd b /\ dg_rel E clk clk' (snd (fst a)) (snd (fst b)).

Lemma udp_rel_refl E clk clk' a : udp_rel E clk clk' a a.
Proof. repeat split. left. reflexivity. Qed.

Lemma udp_repl_clk E cfg clk clk' ci0 p :
  res_rel (udp_rel E clk clk') (udp_repl E cfg clk ci0 p) (udp_repl E cfg clk' ci0 p).
Proof.
  unfold udp_repl. cbv zeta.
  apply (res_rel_bind (pudp_rel E clk clk')); [apply proto_repl_udp_clk|].
  intros [c1 o1] [c2 o2] (H1 & H3). cbn [fst snd] in *. subst c2.
  destruct H3 as [-> | (d & d' & -> & -> & Hp)]; [apply res_rel_refl, udp_rel_refl|].
  destruct (ci_port_dst c1) as [sp|]; [|reflexivity].
  destruct (ci_port_src c1) as [dp|]; [|reflexivity].
  cbn [res_rel]. repeat split. cbn [fst snd]. right. exists sp, dp, d, d'. repeat split. exact Hp.
Qed.
