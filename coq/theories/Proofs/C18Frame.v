(* Proofs/C18Frame.v -- lift of C18 from the application layer (proto::repl) to
   whole frames: the frame-level monitors ok_C18_udp / ok_C18_tcp of Spec/C18.v
   hold for everything reply() emits (UDP: every datagram in scope; TCP: the first
   accepted data segment of a flow, state level and history level). *)
From MS Require Import Proofs.Tactics Proofs.DecLemmas Proofs.Pipeline Proofs.Factor Proofs.ViewLemmas
     Proofs.C06 Proofs.TcpState Proofs.C09 Proofs.C07 Proofs.C18
     L2 Spec.View Spec.RefDec Spec.TcpRef Spec.AppView Spec.C09 Spec.History Spec.C18 Spec.EnvOk.

(* ---- UDP ---- *)
Lemma dec_wrap_udp cfg f v sp dp len pl :
  cfg_ok cfg = true -> view cfg f = Some v -> v_proto v = 17 ->
  exists e i u,
    dec_frame_udp (wrap_ip cfg f v (v_dst v) 64
                           (seal_udp v (be16 sp ++ be16 dp ++ be16 len ++ [0; 0] ++ pl))) = Some (e, i, u) /\
    du_payload u = pl.
Proof.
  intros Hcfg Hv Hp.
  destruct (view_sizes _ _ _ Hv) as (Hm & Hsz).
  pose proof (cfg_ok_mac _ Hcfg) as Hmac.
  unfold wrap_ip, seal_udp, dec_frame_udp, dec_frame_ip. rewrite Hp.
  destruct (v_v4 v).
  - destruct Hsz as [Hs Hd].
    rewrite dec_eth_frame by (assumption || lia).
    unfold dec_ip. cbn [de_type de_payload]. change (2048 =? 2048) with true. cbv iota.
    rewrite dec_ipv4_packet by (assumption || lia).
    cbn [di_proto di_payload]. change (17 =? 17) with true. cbv iota.
    rewrite dec_udp_datagram. eexists _, _, _. split; reflexivity.
  - destruct Hsz as [Hs Hd].
    rewrite dec_eth_frame by (assumption || lia).
    unfold dec_ip. cbn [de_type de_payload]. change (34525 =? 2048) with false.
    change (34525 =? 34525) with true. cbv iota.
    rewrite dec_ipv6_packet by (assumption || lia).
    cbn [di_proto di_payload]. change (17 =? 17) with true. cbv iota.
    rewrite dec_udp_datagram. eexists _, _, _. split; reflexivity.
Qed.

Lemma view_udp_view cfg f v :
  view_udp cfg f = Some v -> view cfg f = Some v /\ v_proto v = 17 /\ (length (v_l4 v) <? 8)%nat = false.
Proof.
  unfold view_udp. destruct (view cfg f) as [v'|]; [|discriminate].
  destruct ((v_proto v' =? 17) && _) eqn:H; [|discriminate].
  intros X; inversion X; subst. apply andb_true_iff in H. destruct H as [H1 H2].
  repeat split; lia.
Qed.

(* what the UDP responder hands to the IP layer, in terms of proto::repl *)
Lemma udp_repl_app E cfg clk ci0 p ci' out evs :
  udp_repl E cfg clk ci0 p = Ok (ci', out, evs) ->
  exists ci o,
    proto_repl_udp E clk ci (skipn 8 p) = Ok (ci', o) /\
    match o with
    | None => out = None
    | Some d => exists sp dp, out = Some (be16 sp ++ be16 dp ++ be16 (8 + lenN d) ++ [0; 0] ++ d)
    end.
Proof.
  unfold udp_repl. cbv zeta.
  destruct (proto_repl_udp E clk _ (skipn 8 p)) as [[ci1 o]|s] eqn:Hp; cbn [bind]; [|discriminate].
  destruct o as [d|].
  - destruct (ci_port_dst ci1) as [sp|]; [|discriminate].
    destruct (ci_port_src ci1) as [dp|]; [|discriminate].
    intros H. inversion H; subst. eexists _, _. split; [exact Hp|]. exists sp, dp. reflexivity.
  - intros H. inversion H; subst. eexists _, _. split; [exact Hp | reflexivity].
Qed.

Theorem frame_udp E cfg clk tb f tb' r evs :
  cfg_ok cfg = true -> env_ok E = true -> c18_ident_ok E = true ->
  reply E cfg clk tb f = Ok (tb', r, evs) ->
  ok_C18_udp cfg f r = true.
Proof.
  intros Hcfg HE HI Hr. unfold ok_C18_udp, ok_app_udp, udp_req.
  destruct (view_udp cfg f) as [v|] eqn:Hvu; [|reflexivity].
  destruct (view_udp_view _ _ _ Hvu) as (Hv & Hp & Hl).
  apply reply_factor_ok in Hr. unfold reply_spec in Hr.
  destruct (view_inv _ _ _ Hv) as (Hlen & Hauth & Hcase).
  rewrite Hlen, Hauth in Hr. cbn [negb] in Hr.
  assert (Hety : (u16_at 12 f =? 2054) = false).
  { destruct Hcase as [(-> & _) | (-> & _)]; reflexivity. }
  rewrite Hety, Hv in Hr. unfold l3_reply in Hr. rewrite Hp, Hl in Hr.
  change (17 =? 1) with false in Hr. change (17 =? 6) with false in Hr.
  change (17 =? 58) with false in Hr. change (17 =? 17) with true in Hr.
  assert (Hcore : match udp_repl E cfg clk (l3_ci f v) (v_l4 v) with
                  | Ok (_, Some x, _) => r = Some (wrap_ip cfg f v (v_dst v) 64 (seal_udp v x))
                  | Ok (_, None, _) => r = None
                  | Panic _ => False
                  end).
  { destruct (v_v4 v);
      (destruct (udp_repl E cfg clk (l3_ci f v) (v_l4 v)) as [[[ci' [x|]] evs']|s]; [| |discriminate]);
      try (destruct (65535 <? lenN x); [discriminate|]);
      inversion Hr; reflexivity. }
  destruct (udp_repl E cfg clk (l3_ci f v) (v_l4 v)) as [[[ci' out] evs']|s] eqn:Hu; [|destruct Hcore].
  destruct (udp_repl_app _ _ _ _ _ _ _ _ Hu) as (ci & o & Hpr & Ho).
  pose proof (app_monitor_udp E clk ci (ctx_of false v) (skipn 8 (v_l4 v)) ci' o HE HI Hpr) as Hmon.
  destruct o as [d|].
  - destruct Ho as (sp & dp & ->). subst r. unfold udp_resp.
    destruct (dec_wrap_udp cfg f v sp dp (8 + lenN d) d Hcfg Hv Hp) as (e & i & u & -> & Hpl).
    rewrite Hpl. exact Hmon.
  - subst out. subst r. exact Hmon.
Qed.

(* ---- TCP: first data segment of a flow ---- *)
Lemma tbl_mem_find k tb : tbl_mem k tb = false -> tbl_find k tb = None.
Proof. unfold tbl_mem. destruct (tbl_find k tb); [discriminate | reflexivity]. Qed.

Lemma tcp_repl_first E cfg clk tb f v tb' ci' out evs :
  bytes_ok (v_l4 v) = true ->
  tcp_class (tcp_flags (v_l4 v)) = TData ->
  tbl_mem (flow_cookie cfg (flow_of v)) tb = false ->
  presents_cookie cfg v = true ->
  tcp_repl E cfg clk tb (l3_ci f v) (v_l4 v) = Ok (tb', ci', out, evs) ->
  exists ci1 ci2 tc' o sp dp,
    proto_repl_tcp E clk ci1 tcb_new (tcp_payload (v_l4 v)) = Ok (ci2, tc', o) /\
    out = Some (tcp_header sp dp (u32_at 8 (v_l4 v))
                           (wrap32 (u32_at 4 (v_l4 v) + lenN (tcp_payload (v_l4 v))))
                           (match o with Some _ => ACK + PSH | None => ACK end)
                ++ match o with Some d => d | None => [] end).
Proof.
  intros Hok Hc. unfold tcp_repl. rewrite Hc. rewrite cookie_ci_l3.
  cbv zeta. unfold presents_cookie, flow_cookie, flow_of. cbn [fl_src fl_dst fl_sport fl_dport].
  set (ck := cookie (c_key0 cfg) (c_key1 cfg) (v_src v) (v_dst v) (u16_at 0 (v_l4 v)) (u16_at 2 (v_l4 v))).
  rewrite (ackno_presents (u32_at 8 (v_l4 v)) ck (u32_at_lt _ _ Hok) (cookie_lt _ _ _ _ _ _)).
  intros Hmem Hpres. rewrite Hmem, Hpres. cbn [negb andb]. rewrite (tbl_mem_find _ _ Hmem).
  destruct (proto_repl_tcp _ _ _ _ _) as [[[ci2 tc'] o]|s] eqn:Hp; cbn [bind]; [|discriminate].
  destruct o as [d|];
    (destruct (ci_port_dst ci2) as [sp|]; [|discriminate];
     destruct (ci_port_src ci2) as [dp|]; [|discriminate]);
    intros H; inversion H; subst; eexists _, _, _, _, sp, dp; (split; [exact Hp | reflexivity]).
Qed.

Theorem frame_tcp_first_state E cfg clk tb f tb' r evs v :
  cfg_ok cfg = true -> env_ok E = true -> c18_ident_ok E = true -> bytes_ok f = true ->
  view_tcp cfg f = Some v ->
  is_data (tcp_flags (v_l4 v)) = true ->
  tbl_mem (flow_cookie cfg (flow_of v)) tb = false ->
  presents_cookie cfg v = true ->
  reply E cfg clk tb f = Ok (tb', r, evs) ->
  exists o, tcp_resp r = Some o /\ app_ok_C18 (ctx_of true v) (tcp_payload (v_l4 v)) o = true.
Proof.
  intros Hcfg HE HI Hf Hvt Hd Hmem Hpres Hr.
  destruct (view_tcp_view _ _ _ Hvt) as [Hv Hp].
  pose proof (view_l4_ok _ _ _ Hf Hv) as Hok.
  pose proof (reply_tcp E cfg clk tb f v Hvt) as Hfac. rewrite Hr in Hfac. cbn [strip] in Hfac.
  pose proof (tcp_flags_lt _ Hok) as Hfl.
  apply (is_data_class _ Hfl) in Hd.
  destruct (tcp_repl E cfg clk tb (l3_ci f v) (v_l4 v)) as [[[[tb2 ci2] out] evs2]|s] eqn:Ht; [|discriminate].
  destruct (tcp_repl_first _ _ _ _ _ _ _ _ _ _ Hok Hd Hmem Hpres Ht)
    as (ci1 & ci3 & tc' & o & sp & dp & Hpr & ->).
  apply ok_pair_inj in Hfac. destruct Hfac as [_ ->].
  pose proof (app_monitor_tcp_first E clk ci1 (ctx_of true v) _ ci3 tc' o HE HI Hpr) as Hmon.
  unfold tcp_resp.
  assert (Hfl' : (match o with Some _ => ACK + PSH | None => ACK end) < 512)
    by (destruct o; unfold ACK, PSH; lia).
  match goal with |- context [tcp_header ?a ?b ?c ?d ?e ++ ?pl] =>
    destruct (dec_wrap_tcp cfg f v 64 a b c d e pl Hcfg Hv Hp Hfl' ltac:(lia)) as (e' & i & Hdec & _)
  end.
  rewrite Hdec. cbn [dt_payload]. destruct o as [d|].
  - pose proof (proto_repl_tcp_nonempty _ _ _ _ _ _ _ _ HE Hpr) as Hne.
    destruct d as [|b d]; [congruence|]. eexists. split; [reflexivity | exact Hmon].
  - eexists. split; [reflexivity | exact Hmon].
Qed.

(* history level: "first accepted data segment of its flow" decided by the
   reference connection model keyed by the 4-tuple (no cookie collision: C08) *)
Theorem frame_tcp_first_history E cfg h clk tb f tb' r evs :
  cfg_ok cfg = true -> env_ok E = true -> c18_ident_ok E = true ->
  Forall (fun x => bytes_ok x = true) (frames h) -> bytes_ok f = true ->
  run E cfg [] h = Ok tb ->
  (forall v, view_tcp cfg f = Some v -> no_collision cfg (flow_of v :: ref_run cfg (frames h))) ->
  reply E cfg clk tb f = Ok (tb', r, evs) ->
  ok_C18_tcp cfg (ref_run cfg (frames h)) f r = true.
Proof.
  intros Hcfg HE HI Hall Hf Hrun Hnc Hr. unfold ok_C18_tcp, ok_app_tcp_first, tcp_first_req.
  destruct (view_tcp cfg f) as [v|] eqn:Hvt; [|reflexivity].
  destruct (is_data (tcp_flags (v_l4 v))) eqn:Hd; cbn [andb]; [|reflexivity].
  destruct (ref_mem (flow_of v) (ref_run cfg (frames h))) eqn:Hm; cbn [negb andb]; [reflexivity|].
  destruct (presents_cookie cfg v) eqn:Hpres; [|reflexivity].
  assert (Hmem : tbl_mem (flow_cookie cfg (flow_of v)) tb = false).
  { destruct (tbl_mem (flow_cookie cfg (flow_of v)) tb) eqn:Ht; [|reflexivity].
    apply tbl_mem_In in Ht. rewrite (table_keys E cfg h tb Hall Hrun) in Ht.
    unfold ref_keys in Ht. apply in_map_iff in Ht. destruct Ht as (x & Hx & Hin).
    assert (x = flow_of v) as ->.
    { apply (Hnc v eq_refl); [right; exact Hin | left; reflexivity | exact Hx]. }
    apply ref_mem_In in Hin. congruence. }
  destruct (frame_tcp_first_state E cfg clk tb f tb' r evs v Hcfg HE HI Hf Hvt Hd Hmem Hpres Hr)
    as (o & -> & Hmon).
  exact Hmon.
Qed.
