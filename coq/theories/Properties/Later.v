(* Properties/Later.v -- LATER data segments of a TCP flow that is bound to the STUN, SSH or
   Gh0st responder (C15 / C18 beyond the first data segment).  Statements only; proofs in
   Proofs/Later.v, examples in Proofs/LaterExamples.v; the judgements and monitors are
   Spec/Later.v, built from the reference decoders / grammar of Spec/RefStun.v, Spec/C15.v and
   Spec/C18.v.

   proto::repl identifies a flow once; on a control block whose [t_proto] is set it does not
   run the matcher, does not touch the matcher state or the pending buffer, and calls the
   handler the flow is bound to with the segment's bytes.  None of the theorems below has a
   hypothesis about the protocol matcher: the known class [stun_shadowed] (identification)
   does not occur.  In all three cases the control block -- and with it the whole
   connection table -- is left exactly as it was, so every statement applies again to the
   next segment ([Later_*_stream], [Later_*_flow]). *)
From MS Require Import Stun Ssh Ghost Proto L2 Spec.C11uFrame Spec.View Spec.RefDec Spec.TcpRef Spec.RefStun
     Spec.AppView Spec.History Spec.EnvOk Spec.C15 Spec.C18 Spec.Later Instance
     Proofs.LiftTcp Proofs.C15Proto Proofs.C15Examples Proofs.FrameBuild Proofs.Later Proofs.LaterExamples.

(* ================================================================== *)
(* 1. proto::repl                                                      *)
(* ================================================================== *)
(* a bound block: no identification, the handler of [t_proto tc] gets the segment as it is *)
Theorem Later_bound_dispatch :
  forall E clk ci tc p,
    t_proto tc <> PROTO_NONE ->
    proto_repl_tcp E clk ci tc p =
    (do r <- dispatch E clk ci (t_proto tc) (Some tc) p;
     let '(ci', t', out) := r in Ok (ci', match t' with Some x => x | None => tc end, out)).
Proof. exact proto_repl_tcp_bound. Qed.

(* what is returned for ANY block bound to the responder (whatever its matcher state, parser
   state and pending bytes): the responder's client information and payload, and the SAME block *)
Theorem Later_stun_repl :
  forall E clk ci tc p,
    t_proto tc = PROTO_STUN ->
    proto_repl_tcp E clk ci tc p = Ok (fst (stun_repl ci p), tc, snd (stun_repl ci p)).
Proof. exact later_stun_repl. Qed.

Theorem Later_ssh_repl :
  forall E clk ci tc p,
    t_proto tc = PROTO_SSH ->
    proto_repl_tcp E clk ci tc p = Ok (ci, tc, if ssh_ref p then Some (e_ssh_banner E) else None).
Proof. exact later_ssh_repl. Qed.

(* the Gh0st handler does not look at the segment: EVERY segment of the flow is answered with
   the frame, whether or not it starts with the magic *)
Theorem Later_ghost_repl :
  forall E clk ci tc p,
    t_proto tc = PROTO_GHOST ->
    proto_repl_tcp E clk ci tc p = Ok (ci, tc, Some (e_ghost E)).
Proof. exact later_ghost_repl. Qed.

(* any number of later segments (each with its clock reading and the client information the
   transport layer builds for it): the block never changes; per segment, the client information
   handed back and the payload are the responder's on that segment alone *)
Theorem Later_stun_stream :
  forall E tc segs,
    t_proto tc = PROTO_STUN ->
    later_stream (proto_repl_tcp E) tc segs = Ok (tc, map (fun x => stun_repl (seg_ci x) (seg_data x)) segs).
Proof. exact later_stun_stream. Qed.

Theorem Later_ssh_stream :
  forall E tc segs,
    t_proto tc = PROTO_SSH ->
    later_stream (proto_repl_tcp E) tc segs =
      Ok (tc, map (fun x => (seg_ci x, if ssh_ref (seg_data x) then Some (e_ssh_banner E) else None)) segs).
Proof. exact later_ssh_stream. Qed.

Theorem Later_ghost_stream :
  forall E tc segs,
    t_proto tc = PROTO_GHOST ->
    later_stream (proto_repl_tcp E) tc segs = Ok (tc, map (fun x => (seg_ci x, Some (e_ghost E))) segs).
Proof. exact later_ghost_stream. Qed.

(* ---- against the specification ---- *)
(* STUN: the segment is judged by the reference decoder alone.  A well-formed Binding Request
   (with or without magic cookie, any length, any attributes, whatever follows it) is answered
   with the message that reads back as the expected response, and the client information handed
   back differs at most in the destination port = the expected source port of the reply
   ((dport + 1) mod 2^16 iff change-port is requested); any other class / method: no payload,
   client information untouched.  The later-segment judgement implies both forms (strict /
   class excluded) of the C15 monitor. *)
Theorem Later_stun_proto :
  forall E clk ctx ci tc p,
    t_proto tc = PROTO_STUN -> bytes_ok p = true -> c15_ctx_ok ctx ->
    ci_ip_src ci = Some (ctx_src_ip ctx) -> ci_port_src ci = Some (a_sport ctx) ->
    ci_port_dst ci = Some (a_dport ctx) ->
    exists ci' o,
      proto_repl_tcp E clk ci tc p = Ok (ci', tc, o) /\
      app_ok_C15_later ctx p o = true /\
      app_ok_C15_strict ctx p o = true /\ app_ok_C15 ctx p o = true /\
      ci_same_except_dport ci ci' /\
      (forall m, dec_stun_req p = Some m ->
         if is_binding_request m
         then o = Some (stun_response (sm_tid m) (ctx_src_ip ctx) (a_sport ctx)) /\
              dec_stun_resp (stun_response (sm_tid m) (ctx_src_ip ctx) (a_sport ctx)) =
                Some (expected_response (sm_tid m) (ctx_src_ip ctx) (a_sport ctx)) /\
              ci_port_dst ci' = Some (expected_reply_sport ctx m)
         else o = None /\ ci' = ci) /\
      (o = None -> ci' = ci).
Proof. exact later_stun_proto. Qed.

Theorem Later_stun_judgement_implies_C15 :
  forall strict ctx p o, app_ok_C15_later ctx p o = true -> app_ok_C15_gen strict ctx p o = true.
Proof. exact app_ok_C15_later_gen. Qed.

(* SSH: every segment is judged on its own bytes by the reference grammar ([ssh_ref] <->
   [ssh_ident]: Properties/C18.v): the server identification iff the segment is a complete
   identification string; the client information is handed back as it was *)
Theorem Later_ssh_proto :
  forall E clk ctx ci tc p,
    env_ok E = true -> t_proto tc = PROTO_SSH ->
    exists o,
      proto_repl_tcp E clk ci tc p = Ok (ci, tc, o) /\
      o = (if ssh_ref p then Some S_SERVER_ID else None) /\
      app_ok_C18_later_ssh ctx p o = true.
Proof. exact later_ssh_proto. Qed.

(* Gh0st: every segment -- in particular every one that starts with the magic -- is answered
   with the well-formed frame *)
Theorem Later_ghost_proto :
  forall E clk ctx ci tc p,
    env_ok E = true -> t_proto tc = PROTO_GHOST ->
    proto_repl_tcp E clk ci tc p = Ok (ci, tc, Some (e_ghost E)) /\
    ghost_wf (e_ghost E) = true /\
    app_ok_C18_later_ghost ctx p (Some (e_ghost E)) = true.
Proof. exact later_ghost_proto. Qed.

(* ================================================================== *)
(* 2. frames, through reply()                                          *)
(* ================================================================== *)
(* a data segment of a flow whose block [tc] is in the table with t_proto = STUN: the emitted
   frame satisfies the monitor (payload clause and ports clause), the table is unchanged, and,
   spelled out for a well-formed STUN message: a Binding Request is answered with PSH|ACK, the
   expected response, from the contacted port or the next one; anything else with a bare ACK
   from the contacted port *)
Theorem Later_stun_frame :
  forall E cfg clk tb tc f tb' r evs v,
    cfg_ok cfg = true -> bytes_ok f = true ->
    view_tcp cfg f = Some v ->
    is_data (tcp_flags (v_l4 v)) = true ->
    tbl_find (flow_cookie cfg (flow_of v)) tb = Some tc ->
    t_proto tc = PROTO_STUN ->
    reply E cfg clk tb f = Ok (tb', r, evs) ->
    ok_C15_tcp_later cfg f r = true /\ tb' = tb /\
    (forall m, dec_stun_req (tcp_payload (v_l4 v)) = Some m ->
       exists rf e i t,
         r = Some rf /\ dec_frame_tcp rf = Some (e, i, t) /\
         dt_dport t = a_sport (ctx_of true v) /\
         dt_seq t = u32_at 8 (v_l4 v) /\
         dt_ack t = wrap32 (u32_at 4 (v_l4 v) + lenN (tcp_payload (v_l4 v))) /\
         if is_binding_request m
         then dt_payload t = stun_response (sm_tid m) (ctx_src_ip (ctx_of true v)) (a_sport (ctx_of true v)) /\
              dec_stun_resp (dt_payload t) =
                Some (expected_response (sm_tid m) (ctx_src_ip (ctx_of true v)) (a_sport (ctx_of true v))) /\
              dt_flags t = ACK + PSH /\
              dt_sport t = expected_reply_sport (ctx_of true v) m
         else dt_payload t = [] /\ dt_flags t = ACK /\ dt_sport t = a_dport (ctx_of true v)).
Proof. exact later_stun_frame. Qed.

Theorem Later_ssh_frame :
  forall E cfg clk tb tc f tb' r evs v,
    cfg_ok cfg = true -> env_ok E = true -> bytes_ok f = true ->
    view_tcp cfg f = Some v ->
    is_data (tcp_flags (v_l4 v)) = true ->
    tbl_find (flow_cookie cfg (flow_of v)) tb = Some tc ->
    t_proto tc = PROTO_SSH ->
    reply E cfg clk tb f = Ok (tb', r, evs) ->
    ok_C18_tcp_later_ssh cfg f r = true /\ tb' = tb /\
    tcp_resp r = Some (if ssh_ref (tcp_payload (v_l4 v)) then Some S_SERVER_ID else None) /\
    exists rf e i t,
      r = Some rf /\ dec_frame_tcp rf = Some (e, i, t) /\
      dt_payload t = (if ssh_ref (tcp_payload (v_l4 v)) then S_SERVER_ID else []) /\
      dt_flags t = (if ssh_ref (tcp_payload (v_l4 v)) then ACK + PSH else ACK) /\
      dt_sport t = a_dport (ctx_of true v) /\ dt_dport t = a_sport (ctx_of true v) /\
      dt_seq t = u32_at 8 (v_l4 v) /\
      dt_ack t = wrap32 (u32_at 4 (v_l4 v) + lenN (tcp_payload (v_l4 v))).
Proof. exact later_ssh_frame. Qed.

Theorem Later_ghost_frame :
  forall E cfg clk tb tc f tb' r evs v,
    cfg_ok cfg = true -> env_ok E = true -> bytes_ok f = true ->
    view_tcp cfg f = Some v ->
    is_data (tcp_flags (v_l4 v)) = true ->
    tbl_find (flow_cookie cfg (flow_of v)) tb = Some tc ->
    t_proto tc = PROTO_GHOST ->
    reply E cfg clk tb f = Ok (tb', r, evs) ->
    ok_C18_tcp_later_ghost cfg f r = true /\ tb' = tb /\
    exists rf e i t,
      r = Some rf /\ dec_frame_tcp rf = Some (e, i, t) /\
      dt_payload t = e_ghost E /\ ghost_wf (dt_payload t) = true /\
      dt_flags t = ACK + PSH /\
      dt_sport t = a_dport (ctx_of true v) /\ dt_dport t = a_sport (ctx_of true v) /\
      dt_seq t = u32_at 8 (v_l4 v) /\
      dt_ack t = wrap32 (u32_at 4 (v_l4 v) + lenN (tcp_payload (v_l4 v))).
Proof. exact later_ghost_frame. Qed.

(* any number of data segments of the flow (cookie [ck]) handed to reply() one after the other,
   each with its own clock reading: every emitted frame satisfies the monitor, the table at the
   end is the table at the start *)
Theorem Later_stun_flow :
  forall E cfg ck tc fs tb tb' rs,
    cfg_ok cfg = true -> t_proto tc = PROTO_STUN ->
    tbl_find ck tb = Some tc ->
    Forall (fun cf : clock * bytes => later_frame cfg ck (snd cf)) fs ->
    flow_run E cfg tb fs = Ok (tb', rs) ->
    tb' = tb /\ Forall2 (fun (cf : clock * bytes) r => ok_C15_tcp_later cfg (snd cf) r = true) fs rs.
Proof. exact later_stun_flow. Qed.

Theorem Later_ssh_flow :
  forall E cfg ck tc fs tb tb' rs,
    cfg_ok cfg = true -> env_ok E = true -> t_proto tc = PROTO_SSH ->
    tbl_find ck tb = Some tc ->
    Forall (fun cf : clock * bytes => later_frame cfg ck (snd cf)) fs ->
    flow_run E cfg tb fs = Ok (tb', rs) ->
    tb' = tb /\ Forall2 (fun (cf : clock * bytes) r => ok_C18_tcp_later_ssh cfg (snd cf) r = true) fs rs.
Proof. exact later_ssh_flow. Qed.

Theorem Later_ghost_flow :
  forall E cfg ck tc fs tb tb' rs,
    cfg_ok cfg = true -> env_ok E = true -> t_proto tc = PROTO_GHOST ->
    tbl_find ck tb = Some tc ->
    Forall (fun cf : clock * bytes => later_frame cfg ck (snd cf)) fs ->
    flow_run E cfg tb fs = Ok (tb', rs) ->
    tb' = tb /\ Forall2 (fun (cf : clock * bytes) r => ok_C18_tcp_later_ghost cfg (snd cf) r = true) fs rs.
Proof. exact later_ghost_flow. Qed.

(* with the data of the current implementation no hypothesis about the constants is left *)
Theorem Later_current_ssh_flow :
  forall cfg ck tc fs tb tb' rs,
    cfg_ok cfg = true -> t_proto tc = PROTO_SSH ->
    tbl_find ck tb = Some tc ->
    Forall (fun cf : clock * bytes => later_frame cfg ck (snd cf)) fs ->
    flow_run the_env cfg tb fs = Ok (tb', rs) ->
    tb' = tb /\ Forall2 (fun (cf : clock * bytes) r => ok_C18_tcp_later_ssh cfg (snd cf) r = true) fs rs.
Proof.
  exact (fun cfg ck tc fs tb tb' rs Hc => later_ssh_flow the_env cfg ck tc fs tb tb' rs Hc the_env_ok_later).
Qed.

Theorem Later_current_ghost_flow :
  forall cfg ck tc fs tb tb' rs,
    cfg_ok cfg = true -> t_proto tc = PROTO_GHOST ->
    tbl_find ck tb = Some tc ->
    Forall (fun cf : clock * bytes => later_frame cfg ck (snd cf)) fs ->
    flow_run the_env cfg tb fs = Ok (tb', rs) ->
    tb' = tb /\ Forall2 (fun (cf : clock * bytes) r => ok_C18_tcp_later_ghost cfg (snd cf) r = true) fs rs.
Proof.
  exact (fun cfg ck tc fs tb tb' rs Hc => later_ghost_flow the_env cfg ck tc fs tb tb' rs Hc the_env_ok_later).
Qed.

(* ================================================================== *)
(* 3. non-vacuity on the current tables (whole flows through reply())  *)
(* ================================================================== *)
(* STUN, TCP/IPv6 65535 -> 3478: SYN; the 288-byte magic-cookie request (identified over TCP);
   then a 20-byte request without cookie, the 28-byte change-port request, a Binding Indication
   (0x0011), a message of type 0x0201 -- none of which is identified as a first segment *)
Theorem Later_stun_example_hyps :
  cfg_ok fx_cfg = true /\
  tcp_first_id the_env (ser_stun x_big) = Some PROTO_STUN /\
  (256 <=? u16_at 2 (ser_stun x_big)) = true /\
  run the_env fx_cfg [] lx_stun_hist = Ok lx_stun_tb /\
  (exists tc, tbl_find lx_stun_ck lx_stun_tb = Some tc /\ t_proto tc = PROTO_STUN) /\
  Forall (later_frame fx_cfg lx_stun_ck) lx_stun_later /\
  map (tcp_first_id the_env) [lx_req20; ser_stun x_change; lx_ind; lx_0201] = [None; None; None; None].
Proof. exact ex_later_stun_hyps. Qed.

(* answer from 3478 / answer from 3479 / silence / silence *)
Theorem Later_stun_example_flow :
  dec_stun_req lx_req20 = Some (x_req x_tid16 []) /\
  dec_stun_req (ser_stun x_change) = Some x_change /\
  dec_stun_req lx_ind = Some x_indication /\
  dec_stun_req lx_0201 =
    Some {| sm_class := CLASS_REQUEST; sm_method := 129; sm_tid := x_tid16; sm_attrs := [] |} /\
  flow_run the_env fx_cfg lx_stun_tb (map (pair fx_clk) lx_stun_later) =
    Ok (lx_stun_tb, map (lx_reply lx_stun_tb) lx_stun_later) /\
  map (fun f => lx_seg (lx_reply lx_stun_tb f)) lx_stun_later =
    [Some (3478, 65535, ACK + PSH, lx_stun_answer); Some (3479, 65535, ACK + PSH, lx_stun_answer);
     Some (3478, 65535, ACK, []); Some (3478, 65535, ACK, [])] /\
  forallb (fun f => ok_C15_tcp_later fx_cfg f (lx_reply lx_stun_tb f)) lx_stun_later = true.
Proof. exact ex_later_stun_flow. Qed.

Theorem Later_stun_example_monitor_refuses :
  ok_C15_tcp_later fx_cfg (lx_stun_f lx_req20) (lx_reply lx_stun_tb (lx_stun_f lx_ind)) = false /\
  ok_C15_tcp_later fx_cfg (lx_stun_f lx_ind) (lx_reply lx_stun_tb (lx_stun_f lx_req20)) = false /\
  ok_C15_tcp_later fx_cfg (lx_stun_f lx_0201) (lx_reply lx_stun_tb (lx_stun_f lx_req20)) = false /\
  ok_C15_tcp_later fx_cfg (lx_stun_f (ser_stun x_change)) (lx_reply lx_stun_tb (lx_stun_f lx_req20)) = false /\
  ok_C15_tcp_later fx_cfg (lx_stun_f lx_req20) None = false.
Proof. exact ex_later_stun_monitor_refuses. Qed.

(* SSH, TCP/IPv4 40000 -> 22: SYN; "SSH-2.0-x\r\n"; then "SSH-1.99-y z\r\n" (answered),
   "SSH-2.0-noeol", "SSH-2.0a-x\r\n" (not answered); outside the property: "SSH-1.5-q\r\n" is
   answered, "Gh0st\0" is not *)
Theorem Later_ssh_example_hyps :
  env_ok the_env = true /\
  tcp_first_id the_env lx_ssh_first = Some PROTO_SSH /\
  run the_env fx_cfg [] lx_ssh_hist = Ok lx_ssh_tb /\
  (exists tc, tbl_find lx_ssh_ck lx_ssh_tb = Some tc /\ t_proto tc = PROTO_SSH) /\
  Forall (later_frame fx_cfg lx_ssh_ck) lx_ssh_later.
Proof. exact ex_later_ssh_hyps. Qed.

Theorem Later_ssh_example_flow :
  map ssh_ref [lx_ssh_199; lx_ssh_noeol; lx_ssh_badver; lx_ssh_15; lx_gh_on_ssh] =
    [true; false; false; true; false] /\
  flow_run the_env fx_cfg lx_ssh_tb (map (pair fx_clk) lx_ssh_later) =
    Ok (lx_ssh_tb, map (lx_reply lx_ssh_tb) lx_ssh_later) /\
  map (fun f => lx_seg (lx_reply lx_ssh_tb f)) lx_ssh_later =
    [Some (22, 40000, ACK + PSH, S_SERVER_ID); Some (22, 40000, ACK, []); Some (22, 40000, ACK, []);
     Some (22, 40000, ACK + PSH, S_SERVER_ID); Some (22, 40000, ACK, [])] /\
  forallb (fun f => ok_C18_tcp_later_ssh fx_cfg f (lx_reply lx_ssh_tb f)) lx_ssh_later = true /\
  tcp_first_id the_env lx_ssh_15 = None.
Proof. exact ex_later_ssh_flow. Qed.

Theorem Later_ssh_example_monitor_refuses :
  ok_C18_tcp_later_ssh fx_cfg (lx_ssh_f lx_ssh_199) (lx_reply lx_ssh_tb (lx_ssh_f lx_ssh_noeol)) = false /\
  ok_C18_tcp_later_ssh fx_cfg (lx_ssh_f lx_ssh_noeol) (lx_reply lx_ssh_tb (lx_ssh_f lx_ssh_199)) = false /\
  ok_C18_tcp_later_ssh fx_cfg (lx_ssh_f lx_ssh_badver) (lx_reply lx_ssh_tb (lx_ssh_f lx_ssh_199)) = false /\
  ok_C18_tcp_later_ssh fx_cfg (lx_ssh_f lx_ssh_199) None = false.
Proof. exact ex_later_ssh_monitor_refuses. Qed.

(* Gh0st, TCP/IPv4 40001 -> 80: SYN; "Gh0st" + 8 bytes; then another Gh0st payload, "hello", a
   single byte and an empty PSH|ACK segment: all four answered with the frame *)
Theorem Later_ghost_example_hyps :
  tcp_first_id the_env lx_gh_first = Some PROTO_GHOST /\
  run the_env fx_cfg [] lx_gh_hist = Ok lx_gh_tb /\
  (exists tc, tbl_find lx_gh_ck lx_gh_tb = Some tc /\ t_proto tc = PROTO_GHOST) /\
  Forall (later_frame fx_cfg lx_gh_ck) lx_gh_later.
Proof. exact ex_later_ghost_hyps. Qed.

Theorem Later_ghost_example_flow :
  ghost_wf (e_ghost the_env) = true /\
  flow_run the_env fx_cfg lx_gh_tb (map (pair fx_clk) lx_gh_later) =
    Ok (lx_gh_tb, map (lx_reply lx_gh_tb) lx_gh_later) /\
  map (fun f => lx_seg (lx_reply lx_gh_tb f)) lx_gh_later =
    repeat (Some (80, 40001, ACK + PSH, e_ghost the_env)) 4 /\
  forallb (fun f => ok_C18_tcp_later_ghost fx_cfg f (lx_reply lx_gh_tb f)) lx_gh_later = true.
Proof. exact ex_later_ghost_flow. Qed.

Theorem Later_ghost_example_monitor_refuses :
  ok_C18_tcp_later_ghost fx_cfg (lx_gh_f lx_gh_again) (lx_reply lx_ssh_tb (lx_ssh_f lx_ssh_noeol)) = false /\
  ok_C18_tcp_later_ghost fx_cfg (lx_gh_f lx_gh_again) (lx_reply lx_ssh_tb (lx_ssh_f lx_ssh_199)) = false /\
  ok_C18_tcp_later_ghost fx_cfg (lx_gh_f lx_gh_again) None = false.
Proof. exact ex_later_ghost_monitor_refuses. Qed.

Print Assumptions Later_bound_dispatch.
Print Assumptions Later_stun_repl.
Print Assumptions Later_ssh_repl.
Print Assumptions Later_ghost_repl.
Print Assumptions Later_stun_stream.
Print Assumptions Later_ssh_stream.
Print Assumptions Later_ghost_stream.
Print Assumptions Later_stun_proto.
Print Assumptions Later_stun_judgement_implies_C15.
Print Assumptions Later_ssh_proto.
Print Assumptions Later_ghost_proto.
Print Assumptions Later_stun_frame.
Print Assumptions Later_ssh_frame.
Print Assumptions Later_ghost_frame.
Print Assumptions Later_stun_flow.
Print Assumptions Later_ssh_flow.
Print Assumptions Later_ghost_flow.
Print Assumptions Later_current_ssh_flow.
Print Assumptions Later_current_ghost_flow.
Print Assumptions Later_stun_example_hyps.
Print Assumptions Later_stun_example_flow.
Print Assumptions Later_stun_example_monitor_refuses.
Print Assumptions Later_ssh_example_hyps.
Print Assumptions Later_ssh_example_flow.
Print Assumptions Later_ssh_example_monitor_refuses.
Print Assumptions Later_ghost_example_hyps.
Print Assumptions Later_ghost_example_flow.
Print Assumptions Later_ghost_example_monitor_refuses.
