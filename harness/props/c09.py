"""C09 -- unvalidated traffic allocates no connection state."""
import net, gens
from runner import Script, Cfg

ID = "C09"
THEOREMS = ["C09_table_keys", "C09_table_nodup", "C09_size", "C09_non_validating_frame_leaves_table", "ClockIndep.ClockIndep_history_ok"]
MONITORS = ["C09"]
RULE = ("histories mixing SYN floods (all flag words), wrong-ack data, FIN/RST/ACK, UDP/ICMP/ARP noise and a few valid "
        "handshakes over IPv4/IPv6; after every frame the implementation's table size (hook verif_len) is compared "
        "with the model's table and with the specification's count of validated flows; non-trivial = history contains "
        "at least one TCP frame")
TRUSTED = ["Coq 8.16.1 kernel + vm_compute", "extraction (ExtrOcamlBasic) + ocaml/model_run.ml", "harness/*.py",
           "Rust hooks verif_driver.rs / tcb::verif_len", "pnet accessor semantics as modelled",
           "harness/shim/clockshim.c + the dynamic linker's symbol interposition (time-gap variants of the histories; only the "
           "search for time-dependent failures relies on it, the theorems of Properties/ClockIndep.v do not)"]
ASSUMPTIONS = ["the table is a list keyed by the 32-bit cookie (as in the implementation); 'distinct flows' are counted "
               "as distinct cookies, which coincide with distinct 4-tuples except on a cookie collision (C08 known finding)"]


def corpus():
    from props import c07
    return c07.corpus()


def history(rng, key, n):
    fr = []
    flows = []
    for _ in range(n):
        v6 = rng.random() < 0.4
        s, d = gens.addr_pair(v6)
        k = rng.randrange(10)
        sport, dport = rng.randrange(65536), rng.choice([22, 80, 443, rng.randrange(65536)])
        if k <= 2:      # SYN flood, any flags
            fr.append(net.frame_tcp(s, d, sport, dport, rng.getrandbits(32), rng.getrandbits(32), rng.randrange(512) | 2))
        elif k == 3:    # data with wrong ack
            ck = net.cookie(key, s, d, sport, dport)
            wrong = rng.choice([0, ck, (ck + 2) & 0xFFFFFFFF, rng.getrandbits(32)])
            fr.append(net.frame_tcp(s, d, sport, dport, 1, wrong, rng.choice([0x18, 0x19, 0x38, 0x1a]), b"GET / HTTP/1.0\r\n\r\n"))
        elif k == 4:    # valid handshake
            name, p, t, u = rng.choice([x for x in gens.app_seeds() if x[2]])
            fr += gens.handshake(key, s, d, sport, dport, [p])
            flows.append((s, d, sport, dport))
        elif k == 5 and flows:   # more data on a validated flow, arbitrary ack
            s, d, sport, dport = rng.choice(flows)
            fr.append(net.frame_tcp(s, d, sport, dport, 9, rng.getrandbits(32), 0x18, b"more"))
        elif k == 6:    # FIN / RST / ACK / SYN -- on a fresh 4-tuple or on a flow that holds state
            if flows and rng.random() < 0.5:
                s, d, sport, dport = rng.choice(flows)
            ck = net.cookie(key, s, d, sport, dport)
            fr.append(net.frame_tcp(s, d, sport, dport, 5, rng.choice([6, (ck + 1) & 0xFFFFFFFF]),
                                    rng.choice([0x11, 0x04, 0x10, 0x14, 0x01, 0x02, 0x12]), rng.choice([b"", b"", b"payload"])))
        elif k == 7 and flows:   # revalidate an existing flow
            s, d, sport, dport = rng.choice(flows)
            ck = net.cookie(key, s, d, sport, dport)
            fr.append(net.frame_tcp(s, d, sport, dport, 9, (ck + 1) & 0xFFFFFFFF, 0x18, b"again"))
        else:
            fr += gens.l2l3_noise(rng, 1)
    return fr


def generate(tier, rng):
    n_scripts, n = (24, 60) if tier == "quick" else (200, 150)
    for i in range(n_scripts):
        key = rng.choice([(0, 0), (1, 2), (rng.getrandbits(64), rng.getrandbits(64))])
        cfg = rng.choice(gens.cfgs(key=key))
        yield Script(cfg, history(rng, key, n), "mixed-history")
    for key in ((0, 0), (3, 4)):
        yield Script(gens.cfgs(key=key)[0], gens.control_on_established(rng, key), "control-on-established")
    import props.c07 as c07x
    for sc in c07x.generate("quick", rng):
        if sc.tag in ("structured-wrong-acks",):
            yield sc


def nontrivial(script):
    return any((p := net.parse_frame(f)) is not None and p.proto == 6 for f in script.frames)


def project(script, i, o):
    return (o.tsize,)
