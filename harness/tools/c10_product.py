import re,sys,collections,os
COQ=os.path.join(os.path.dirname(os.path.dirname(os.path.dirname(os.path.abspath(__file__)))),'coq')
src=open(os.path.join(COQ,'gen','Tables.v')).read()
m=re.search(r'Definition proto_tbl : smack := \{\|(.*?)\|\}\.',src,re.S)
body=m.group(1)
def num(name): return int(re.search(name+r' := (\d+);',body).group(1))
rows=num('sm_rows'); limit=num('sm_match_limit')
def lst(s): return [int(x) for x in s.split(';') if x.strip()]
c2s=lst(re.search(r'sm_c2s := \[(.*?)\];',body,re.S).group(1))
tr=re.search(r'sm_trans := \[(.*?)\];\s*sm_match',body,re.S).group(1)
trans=[lst(x) for x in re.findall(r'\[(.*?)\]',tr,re.S)]
mt=re.search(r'sm_match := \[(.*)\]',body,re.S).group(1)
match=[lst(x) for x in re.findall(r'\[(.*?)\]',mt,re.S)]
assert len(trans)==rows and len(match)==rows,(len(trans),len(match))
W=None
def lit(s): return [c for c in s]
def pat(bs): return [None if c==0x2a else c for c in bs]
sigs=[]
for v in ["GET","PUT","POST","HEAD","DELETE","CONNECT","OPTIONS","TRACE","PATCH"]:
    sigs.append((v,list((v+" /").encode()),False,1))
sigs.append(("STUN_MAGIC",pat(b"\x00\x01**\x21\x12\xa4\x42"),False,2))
sigs.append(("STUN_EMPTY",pat(b"\x00\x01\x00\x00****************"),True,2))
sigs.append(("STUN_CHANGE",pat(b"\x00\x01\x00\x08****************\x00\x03\x00\x04\x00\x00\x00*"),True,2))
sigs.append(("SSH2",list(b"SSH-2.0"),False,3))
sigs.append(("SSH1",list(b"SSH-1.99"),False,3))
sigs.append(("GHOST",list(b"Gh0st"),False,4))
sigs.append(("RPC_TCP",pat(b"********\x00\x00\x00\x00\x00\x00\x00*\x00\x01\x86*****\x00\x00\x00*"),False,5))
sigs.append(("RPC_UDP",pat(b"****\x00\x00\x00\x00\x00\x00\x00*\x00\x01\x86*****\x00\x00\x00*"),False,6))
sigs.append(("SMB1",pat(b"\x00\x00**\xffSMB"),False,7))
sigs.append(("SMB2",pat(b"\x00\x00**\xfeSMB"),False,8))
END=256
rinit=(0,tuple(range(len(sigs))))
rdead=(0,())
def ref_step(s,b):
    n,live=s
    l2=tuple(i for i in live if n<len(sigs[i][1]) and (sigs[i][1][n] is None or sigs[i][1][n]==b))
    for i in l2:
        if not sigs[i][2] and len(sigs[i][1])==n+1: return ('A',sigs[i][3])
    if not l2: return ('C',rdead)
    return ('C',(n+1,l2))
def ref_end(s):
    n,live=s
    for i in live:
        if sigs[i][2] and len(sigs[i][1])==n: return sigs[i][3]
    return None
def m_step(row,b):
    r=trans[row][c2s[b]]
    if r>=limit: return ('A',match[r][0])
    return ('C',r)
def m_end(row):
    r=trans[row][c2s[257]]
    if r>=limit: return match[r][0]
    return None
# matcher-dead rows: no match reachable by bytes or END
syms=set(c2s[b] for b in range(256))
live_rows=set(r for r in range(rows) if r>=limit)
ch=True
while ch:
    ch=False
    for r in range(rows):
        if r in live_rows: continue
        if any(trans[r][c] in live_rows for c in syms) or trans[r][c2s[257]] in live_rows:
            live_rows.add(r); ch=True
mdead=lambda r: r not in live_rows
def name(s):
    n,live=s
    return "(%d,[%s])"%(n,",".join(sigs[i][0] for i in live))
def explore(K,rule_dead):
    """returns visited dict state->access string, list of disagreements, new cuts"""
    init=(0,rinit)
    vis={init:()}
    q=collections.deque([init])
    dis=[]; cuts=set()
    while q:
        st=q.popleft(); row,rs=st; acc=vis[st]
        for b in range(256):
            if (rs,b) in K: continue
            mv=m_step(row,b); rv=ref_step(rs,b)
            if mv[0]=='A' or rv[0]=='A':
                if mv!=rv: dis.append((acc+(b,),mv,rv,rs,b))
                continue
            nx=(mv[1],rv[1])
            if rule_dead and (mdead(mv[1]) != (rv[1]==rdead)):
                cuts.add((rs,b)); continue
            if nx not in vis:
                vis[nx]=acc+(b,); q.append(nx)
        if (rs,END) in K: continue
        if m_end(row)!=ref_end(rs): dis.append((acc+(END,),m_end(row),ref_end(rs),rs,END))
    return vis,dis,cuts
if __name__=="__main__":
    vis,dis,cuts=explore(set(),False)
    print("raw product states",len(vis),"raw verdict disagreements",len(dis))
    K=set()
    it=0
    while True:
        it+=1
        vis,dis,cuts=explore(K,True)
        new=set(cuts)|set((d[3],d[4]) for d in dis)
        if not new: break
        K|=new
        print("iter",it,"states",len(vis),"new cuts",len(new))
    print("final states",len(vis),"K edges",len(K))
    by=collections.defaultdict(list)
    for rs,b in K: by[rs].append(b)
    print("K ref states",len(by))
    for rs in sorted(by):
        bs=sorted(by[rs])
        if len(bs)>128:
            comp=[b for b in range(257) if b not in bs]
            d="all but "+" ".join("END" if b==256 else "%02x"%b for b in comp)
        else: d=" ".join("END" if b==256 else "%02x"%b for b in bs)
        # pairings
        prs=[st[0] for st in vis if st[1]==rs]
        print(name(rs),"rows",prs,":",d)

# ---------------------------------------------------------------------------
# Notes (proof agent c10): this prototype re-computes, from coq/gen/Tables.v, the
# product of the compiled protocol matcher with the published signature set and
# the cut points K0 committed in coq/theories/Spec/C10Known.v (rule: cut where the
# matcher enters a dead row while a signature is live, or where verdicts differ).
# It is NOT part of the trusted base: Coq re-checks K0 (product_ok) on every run.
