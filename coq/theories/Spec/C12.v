(* Spec/C12.v -- only requests are answered: protocol-marked replies never elicit a reply
   of their own protocol. *)
From MS Require Export Bytes Types Proto L4 Spec.RefDec Spec.View Spec.AppView Spec.C02.

(* ---- messages that layers 2-4 mark as replies: nothing at all comes back ---- *)
Definition l2l4_reply_typed (cfg : config) (f : bytes) : bool :=
  if (length f <? 14)%nat then false
  else if u16_at 12 f =? 2054 then
    (* ARP: every operation other than "request" *)
    (28 <=? length (skipn 14 f))%nat && negb (u16_at 6 (skipn 14 f) =? 1)
  else
    match view cfg f with
    | None => false
    | Some v =>
      let p := v_l4 v in
      if v_v4 v && (v_proto v =? 1) then (4 <=? length p)%nat && (u8_at 0 p =? 0)          (* echo reply *)
      else if negb (v_v4 v) && (v_proto v =? 58) then
        (4 <=? length p)%nat && ((u8_at 0 p =? 129) || (u8_at 0 p =? 136))               (* echo reply, NA *)
      else if v_proto v =? 6 then
        (20 <=? length p)%nat &&
        ((tcp_flags p =? 18) ||                                                            (* SYN|ACK *)
         (testbit (tcp_flags p) 4 && negb (testbit (tcp_flags p) 8 && testbit (tcp_flags p) 16)))  (* RST *)
      else false
    end.

(* ---- application messages that their protocol marks as replies ---- *)
Definition dns_response_typed (p : bytes) : bool := (12 <=? length p)%nat && (128 <=? u8_at 2 p).
(* STUN: class (bits 0x0100 and 0x0010 of the type) other than request, or a method other than binding *)
Definition stun_nonrequest_typed (p : bytes) : bool :=
  (20 <=? length p)%nat &&
  (negb ((N.land (u8_at 0 p) 1) * 2 + (N.land (u8_at 1 p) 16) / 16 =? 0) ||
   negb ((N.land (u8_at 0 p) 62) * 128 + N.land (u8_at 1 p) 239 =? 1)).
(* ONC-RPC reply: message type 1 (datagram layout / record-marked layout) *)
Definition rpc_reply_typed_udp (p : bytes) : bool := (8 <=? length p)%nat && (u32_at 4 p =? 1).
Definition rpc_reply_typed_tcp (p : bytes) : bool := (12 <=? length p)%nat && (u32_at 8 p =? 1).
(* SMB inside a NetBIOS session message: the reply flag *)
Definition smb1_reply_typed (p : bytes) : bool :=
  (14 <=? length p)%nat && bytes_eqb (slice 4 4 p) [255; 83; 77; 66] && testbit (u8_at 13 p) 128.
Definition smb2_reply_typed (p : bytes) : bool :=
  (24 <=? length p)%nat && bytes_eqb (slice 4 4 p) [254; 83; 77; 66] && testbit (u8_at 20 p) 1.

(* ---- what kind of application reply an emitted payload is (by content; used by the
   monitor that judges the implementation's output) ---- *)
Definition is_dns_reply (r : bytes) : bool :=
  (12 <=? length r)%nat && (128 <=? u8_at 2 r) && (u8_at 3 r =? 0) &&
  (u16_at 4 r =? u16_at 6 r) && (u16_at 8 r =? 0) && (u16_at 10 r =? 0).
Definition is_stun_reply (r : bytes) : bool :=
  (24 <=? length r)%nat && (u16_at 0 r =? 257) && (u16_at 2 r + 20 =? lenN r) && (u16_at 20 r =? 1).
Definition is_rpc_reply (r : bytes) : bool :=
  ((24 <=? length r)%nat && (u32_at 4 r =? 1) && (u32_at 8 r =? 0)) ||
  ((28 <=? length r)%nat && (128 <=? u8_at 0 r) && (u32_at 8 r =? 1) && (u32_at 12 r =? 0)).
Definition is_smb_reply (r : bytes) : bool :=
  (8 <=? length r)%nat && (u8_at 0 r =? 0) && bytes_eqb (slice 5 3 r) [83; 77; 66] &&
  ((u8_at 4 r =? 255) || (u8_at 4 r =? 254)).

(* a reply-typed message of protocol X is not answered by X's responder *)
Definition app_ok_C12 (ctx : app_ctx) (p : bytes) (o : option bytes) : bool :=
  match o with
  | None => true
  | Some r =>
    (if dns_response_typed p then negb (is_dns_reply r) else true) &&
    (if stun_nonrequest_typed p && (u8_at 0 p <? 64) then negb (is_stun_reply r) else true) &&
    (if rpc_reply_typed_udp p || rpc_reply_typed_tcp p then negb (is_rpc_reply r) else true) &&
    (if smb1_reply_typed p || smb2_reply_typed p then negb (is_smb_reply r) else true)
  end.

Definition ok_C12 (cfg : config) (f : bytes) (r : option bytes) : bool :=
  (if l2l4_reply_typed cfg f then silent r else true) &&
  ok_app_udp app_ok_C12 cfg f r &&
  (* over TCP: any data segment (validated or not) *)
  match tcp_req cfg f with
  | None => true
  | Some (ctx, p) => match tcp_resp r with Some o => app_ok_C12 ctx p o | None => false end
  end.
