(* Properties/C20.v -- the event log is a faithful, balanced account of every frame. *)
From MS Require Import L2 Log Spec.View Spec.C20 Proofs.FactorEv Proofs.C20 Proofs.LogLemmas.

Theorem C20_event_log_balanced_and_faithful :
  forall E cfg clk tb f tb' r evs,
    cfg_ok cfg = true -> bytes_ok f = true ->
    reply E cfg clk tb f = Ok (tb', r, evs) -> ok_C20 cfg f r evs = true.
Proof. exact reply_events_ok. Qed.

Theorem C20_reply_events_factor :
  forall E cfg clk tb f, reply E cfg clk tb f = reply_ev_spec E cfg clk tb f.
Proof. exact reply_ev_factor. Qed.

Theorem C20_console_line_one_newline :
  forall ts e, nl_free ts = true -> one_line (render_console ts e).
Proof. exact render_console_one_line. Qed.

Theorem C20_logfmt_line_one_newline :
  forall ts e, nl_free ts = true -> one_line (render_logfmt ts e).
Proof. exact render_logfmt_one_line. Qed.

Theorem C20_field_renderers_newline_free : field_renderers_nl_free.
Proof. exact field_renderers_ok. Qed.

Print Assumptions C20_event_log_balanced_and_faithful.
Print Assumptions C20_reply_events_factor.
Print Assumptions C20_console_line_one_newline.
Print Assumptions C20_logfmt_line_one_newline.
Print Assumptions C20_field_renderers_newline_free.
