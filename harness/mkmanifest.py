#!/usr/bin/env python3
"""Writes MANIFEST.json from the table below (kept in one place so it stays valid)."""
import json, os
VERIF = os.path.dirname(os.path.dirname(os.path.abspath(__file__)))

CLAIMED = {
    "C01": dict(
        text=("Coq theorems over the model of reply(), in which every unwrap / expect / panic! / index / checked-arithmetic "
              "site of the Rust data path is an explicit Panic branch: for every environment satisfying env_ok (re-decided "
              "per run on the dumped tables and constants), every configuration whatsoever, every clock, every table "
              "satisfying the invariant (a control block's parser state matches its protocol id; HTTP matcher state in "
              "range) and every frame of at most 4096 octets, reply() returns Ok and re-establishes the invariant; by "
              "induction every history of such frames runs to completion from the empty table. Termination and 'one reply "
              "or silence' are the type of the total function. Per-responder ingredients: HTTP verb-matcher underflow "
              "unreachable (table facts), SMB dissector invariants (9 sites), client-information fields set before use. "
              "Tied to /repo by (a) ~230 000 frames per quick run on the overflow-checking AND the release build under all "
              "logger x level combinations: every other property's stream plus a malformed stream (all truncations, "
              "length-field lies, header-length sweeps, TLV faults, mutations), outcome kind compared with the model; "
              "(b) an inventory of the 70 explicit panic sites reachable from reply() with their disposition, re-scanned "
              "on every run."),
        design="DESIGN.md section 5, C01",
        note=("The closed theorems take env_small (dumped constants shorter than 2048 bytes, re-decided per run) "
              "and a date string of at most 64 bytes, from which the amplification bound (reply <= 7*|request| + 4500 bytes) "
              "discharges the 16-bit UDP length conversion. Not exhibited by the model: memory exhaustion of the ever-growing table, stack, "
              "closed stdout, a clock before 1970, panics inside dependencies on unmodelled paths. Ten panic defects found "
              "this way were repaired in /repo (see known_findings.txt). "
              "The table invariant now also bounds the prefix buffer (at most 64 octets per control block)."),
        technique="Coq invariant + totality theorem over the Panic-explicit model + dev/release outcome correspondence + panic-site inventory"),
    "C02": dict(
        text=("Coq theorems over the model of reply(), for every configuration, connection table and frame: a frame whose "
              "destination MAC is not authorised (independent reading ref_auth, proved equal to the model's test for all "
              "MACs), whose IP source is denied, or whose EtherType / next protocol is unsupported gets no reply and leaves "
              "the table untouched; with a self-IP list every reply's source address, ARP sender address and advertised "
              "neighbour-discovery target is on the list (decided by independent decoders on the emitted frame). Tied to "
              "/repo by differential execution (MAC grid with every single-bit flip, address scopes, all 256 next "
              "protocols, EtherType grid / all 65536 in thorough) and by evaluating the extracted monitor on real output."),
        design="DESIGN.md section 5, C02",
        note="Trusted: Coq kernel/vm_compute, extraction + OCaml driver, harness; correspondence is testing; pnet accessor semantics modelled.",
        technique="Coq theorem (case analysis over the factorised pipeline) + model/implementation correspondence"),
    "C03": dict(
        text=("Coq theorem over the model of reply(): every emitted frame decodes (independent decoders) to Ethernet source "
              "= configured MAC, destination = requester's MAC, same EtherType, same IP version and transport, IP source = "
              "request's destination (ND: the solicited target), IP destination = request's source, ports swapped, except "
              "that a STUN success response to a request carrying a change-port CHANGE-REQUEST (independent STUN reading) "
              "comes from destination port + 1 mod 2^16; no other responder can produce that exception (per-responder "
              "lemmas; constants via env_ok, re-decided per run). At most one reply per frame is the type of reply(). Tied "
              "to /repo by differential execution over all reply kinds, both IP versions, random addresses/MACs/ports."),
        design="DESIGN.md section 5, C03",
        note=("Trusted: Coq kernel/vm_compute, extraction + OCaml driver, harness; correspondence is testing; pnet accessor "
              "semantics modelled. Two genuine defects found while proving it were repaired in /repo (STUN method decoding, "
              "multiple CHANGE-REQUEST attributes). "
              "After the prefix-buffer fix (b2fc7fc) a TCP reply may answer bytes of earlier segments: C03_mirror uses the monitor that reads TCP ports without the request (source port = contacted port, or + 1 under a STUN success response), C03_mirror_strict keeps the exact form for flows without pending bytes."),
        technique="Coq theorem (decode-after-encode laws + per-responder port lemmas) + model/implementation correspondence"),
    "C04": dict(
        text=("Coq theorem over the model of reply(): every emitted frame (of octets, shorter than 64 KiB) passes the "
              "executable well-formedness checker wf_frame built from independent strict decoders and a receiver-style "
              "checksum verifier: IPv4 version 4 / IHL 5, total length = actual, DF only, TTL >= 1, valid header checksum; "
              "IPv6 version 6, payload length = actual, hop limit >= 1 and 255 on neighbour advertisements; TCP data offset "
              "5, valid checksum over the pseudo-header, non-zero window on SYN-ACK; UDP length = actual, checksum zero or "
              "valid over IPv4 and non-zero and valid over IPv6; ICMP/ICMPv6 checksums valid. The Internet-checksum algebra "
              "(fold ≡ mod 65535, inserting the complement makes the sum fold to 0xFFFF, the 0 -> 0xFFFF case of UDP/IPv6) "
              "is proved once. Tied to /repo by differential execution on all length/checksum fields (payload sizes "
              "0..1472, every reply kind, a solver for the UDP/IPv6 zero-checksum case) and by evaluating wf_frame on "
              "the implementation's real frames."),
        design="DESIGN.md section 5, C04",
        note=("Trusted: Coq kernel, extraction + OCaml driver, harness; correspondence is testing; pnet checksum/accessor "
              "semantics modelled. C04_wellformed_unconditional discharges 'emitted frame consists of octets and is shorter than "
              "64 KiB' for received frames <= 4096 octets (amplification bound 7*|request| + 4500, constants < 2048 bytes, "
              "SMB blobs octets: env_small / env_blobs_ok, re-decided per run); for longer received frames the two facts "
              "remain hypotheses of C04_wellformed. "
              "After the prefix-buffer fix the closed theorems take table_pending_ok (every control block holds at most 64 pending octets), which C01 proves along every run (C01_table_invariant_pending)."),
        technique="Coq theorem (checksum algebra + decode-after-encode laws over the factorised pipeline) + model/implementation correspondence"),
    "C05": dict(
        text=("Coq theorem over the model of reply(): an ARP request (op 1) for a handled IPv4 address gets an Ethernet/IPv4 "
              "ARP reply op 2 with sender = (configured MAC, requested address) and target = requester's pair; a code-0 "
              "Neighbour Solicitation (>= 24 bytes) for a handled target gets a Neighbour Advertisement for that target with "
              "S|O set, R clear and one TLLA option = configured MAC; code-0 Echo Requests (v4/v6) get Echo Replies with "
              "identical rest-of-header and data for every length; every other ARP op, ICMP type and non-zero code gets "
              "nothing. Tied to /repo by differential execution: all ARP ops on a grid, all type/code pairs, payload "
              "lengths 0..1472, NS option layouts."),
        design="DESIGN.md section 5, C05",
        note=("Trusted: Coq kernel/vm_compute, extraction + OCaml driver, harness; correspondence is testing. ARP requests "
              "with a non-IPv4 ptype/hlen/plen are outside the positive clause (the code mirrors those fields)."),
        technique="Coq theorem (structured cases over the factorised pipeline) + model/implementation correspondence"),
    "C06": dict(
        text=("Machine-checked theorems (Coq 8.16.1) over a Gallina model of the whole reply pipeline: for every "
              "configuration, connection table and frame, what reply() emits satisfies the executable C06 "
              "specification (SYN|ACK, ack = seq+1 mod 2^32, empty payload, seq = SipHash-2-4 cookie of the 4-tuple, "
              "iff the flags pass the Linux rule; table untouched); the 512 flag words are decided by kernel "
              "computation. The model is tied to /repo by differential execution (extracted model vs hooked "
              "implementation, all 512 flag words x IPv4/IPv6 x table states) and the specification is evaluated "
              "on the implementation's own output."),
        design="DESIGN.md section 5, C06",
        note=("Trusted: Coq kernel and vm_compute; extraction + OCaml driver; the correspondence is testing "
              "(exhaustive on the flag domain, sampled on addresses/ports/seq); pnet accessor semantics are modelled; "
              "cookie sensitivity (2^-32) is statistical and not proved: proved is identity with SipHash-2-4 over an "
              "injective encoding of exactly the five inputs."),
        technique="Coq theorem over executable model + extracted-model/implementation correspondence + finite flag table by vm_compute"),
    "C07": dict(
        text=("Coq theorems over the model of reply(): (state level, unconditional) for every table and frame, a PSH|ACK "
              "segment is answered iff its flow's cookie is in the table or it acknowledges cookie+1, with exactly one "
              "reply carrying ACK (PSH iff application data), seq = peer ack, ack = peer seq + payload length mod 2^32; "
              "FIN|ACK gets FIN|ACK acking seq+1; bare ACK / RST get nothing. (history level) the same with acceptance "
              "decided by the reference connection model keyed by the 4-tuple, for every history, assuming no cookie "
              "collision among the flows involved. Tied to /repo by differential execution of scripted multi-flow "
              "interleavings; the extracted specification monitors the implementation's replies."),
        design="DESIGN.md section 5, C07",
        note=("Trusted: Coq kernel/vm_compute, extraction + OCaml driver, harness; correspondence is testing; pnet accessor "
              "semantics modelled. The history-level theorem carries the hypothesis no_collision (C08 known finding: the "
              "table is keyed by the 32-bit cookie). env_ok (non-empty reply constants, table sanity) is re-proved per run."),
        technique="Coq theorems (state-level + refinement to 4-tuple reference model) + model/implementation correspondence"),
    "C08": dict(
        text=("Coq theorems over the model of reply(): for every history h and TCP frame f, the outcome of f after h equals "
              "its outcome after h restricted to the data segments of f's own flow, provided no data segment of another "
              "flow in h has the same 32-bit SYN cookie (boolean class predicate collision_free, extracted and used by the "
              "check); for every frame that is not a TCP segment in scope the outcome does not depend on the table at all. "
              "Inside the collision class the property is refuted by a kernel-computed witness (known finding). Tied to "
              "/repo metamorphically: the implementation answers each probe after the full and after the restricted "
              "history (restriction computed by the extracted specification) and the two replies are compared, and "
              "model and implementation are compared on both."),
        design="DESIGN.md section 5, C08",
        note=("Trusted: Coq kernel/vm_compute, extraction + OCaml driver, harness; correspondence is testing; pnet accessor "
              "semantics modelled. Known finding (collision class) listed in known_findings.txt; 'accepted data segments' "
              "is widened to 'data segments of the same flow' (rejected ones do not change state: C09)."),
        technique="Coq locality/refinement theorem over histories + refutation witness for the known class + metamorphic model/implementation correspondence"),
    "C09": dict(
        text=("Coq theorems by induction over arbitrary frame histories: the key set of the connection table equals the set "
              "of cookies of flows that sent a PSH|ACK acknowledging cookie+1, keys are duplicate-free, the table size "
              "equals the specification's count, frames that do not validate a flow never add a key and frames that are "
              "not accepted data segments leave the table syntactically unchanged. Tied to /repo by comparing the "
              "implementation's table size (hook verif_len) after every frame of mixed histories with the model and "
              "with the specification's expected size."),
        design="DESIGN.md section 5, C09",
        note=("Trusted: Coq kernel, extraction + OCaml driver, harness, hook tcb::verif_len; correspondence is testing. "
              "'Distinct flows' are counted as distinct cookies (they differ from 4-tuples only on a SipHash collision, C08)."),
        technique="Coq invariant by induction over histories + table-size correspondence through a hook"),
    "C11": dict(
        text=("Coq theorems over proto::repl for TCP flows, for ANY list of segments (no hypothesis on where the cuts fall): "
              "while a flow is unidentified its control block holds exactly the one-shot matcher state and the bytes "
              "received so far (C10_segmentation_tcb_new, C10_segmentation_pending); on the current table a signature "
              "completes within the first 28 bytes of a stream or never (C10_identified_early / _unidentified_forever, a "
              "per-run kernel computation with a soundness proof for every table), so the 64-byte buffer never overflows "
              "before identification; C11_stream_join: if the concatenation of the first segments is unidentified and the "
              "next segment identifies the flow, the exchange is 'bare ACKs, then exactly the exchange in which those bytes "
              "arrived in one segment'. With the per-flow parser theorems (HTTP parse = per-byte fold, parse over a ++ b = "
              "parse a then b; RPC fold) this gives, for HTTP and ONC-RPC and every segmentation: the segments before the "
              "one containing the completing byte get bare ACKs, that segment carries the reply, and the reply is the one "
              "the unsegmented stream gets (C11_rpc_stream in the uniform form tcp_stream = rpc_stream_ref; "
              "C11_http_stream / C11_http_stream_segmentation in decomposition form, and Properties/C11uniform.v in the uniform form "
              "tcp_stream = http_stream_ref with http_stream_ref defined from the stream alone; cut invariance for two arbitrary "
              "segmentations of one stream, HTTP and RPC: the reply sits in the segment holding offset complete_at s, a function "
              "of s only; frame level: for n data segments of a flow fed through reply(), the emitted frames carry exactly those "
              "payloads with ACK / PSH|ACK flags -- C11_tcp_later_lift is the generic lift for later segments). Tied to /repo by sending request "
              "streams of all shapes, including malformed ones that must never be answered, junk-prefixed requests and "
              "RPC calls with arguments, under every 1-cut and 2-cut segmentation (exhaustive up to 80 bytes) and sampled "
              "k-cuts through real handshakes, compared with the model segment by segment and with the one-segment run."),
        design="DESIGN.md sections 5 (C11) and 10.11",
        note=("Trusted: Coq kernel/vm_compute, extraction + OCaml driver, harness; correspondence is testing. The former known "
              "finding short_first_segment (first segment ends inside the signature: request lost) was REPAIRED in /repo "
              "(fix b2fc7fc: bounded prefix buffer) and model, proofs and check follow; its witnesses are ordinary corpus "
              "cases now. The invariance holds up to and including the FIRST reply of a flow: what follows an answered request in "
              "the same segment is dropped by the responders (a pipelined second request is answered only if it starts a "
              "segment: C11_http_pipelined_cut_dependent, C11_rpc_pipelined_cut_dependent) -- outside 'a request delivered "
              "in several segments', recorded as an observation. The transport framing (seq/ack of each segment) is C07."),
        technique="Coq theorems (matcher segmentation + prefix buffer invariant + fold/append laws of the incremental parsers, lifted to flows for every segmentation) + exhaustive 1-/2-cut model/implementation correspondence"),
    "C12": dict(
        text=("Coq theorems over the model: frames that layers 2-4 mark as replies (ARP ops other than request, ICMP/ICMPv6 "
              "echo replies, neighbour advertisements, TCP SYN|ACK and RST words -- decided for all 512 flag words) get no "
              "reply and leave the table untouched; a DNS message with QR=1 is never answered by the DNS responder and "
              "whatever answers it is not a DNS response; STUN indications / responses / other methods get no STUN "
              "response; every DNS / STUN / RPC reply the responder emits is itself reply-typed. The reflection-chain "
              "clause (at most two replies) is NOT proved: it is monitored on the implementation (bounce of every reply "
              "up to 4 hops, for generated reply-typed messages and for the responder's own replies), together with the "
              "extracted monitor ok_C12 (a reply-typed message of protocol X is not answered by an X reply). "
              "Frame level (Properties/C12frame.v): for every frame of at most 4096 octets, whatever reply() emits satisfies the monitor ok_C12x (layers 2-4 replies silent; for every datagram and every TCP data segment, a DNS- / STUN- / RPC- / SMB-reply-typed payload is never answered with a reply of that protocol -- own-responder silence for RPC message type 1 incl. across segment cuts and for the SMB reply flag, plus shape lemmas for every other responder's output); part B: if a reply-typed message is answered at all, the answering responder is another protocol's (C12id_*, for every frame); part C (Properties/C12chain.v): on the current tables, for every reply-typed datagram of the property's list and every octet-valued client context, the reflection chain has at most two replies (C12_chain_bound_current; also stated on three consecutive frame exchanges with arbitrary addressing, C12_chain_frames); the proof runs the dumped table over byte-predicate shapes of every emitted payload with a proved-sound abstract interpreter, and shows that a reply-typed start is never handed to the HTTP, SSH or Gh0st responders; the two families of chains of length exactly two are exhibited."),
        design="DESIGN.md section 5, C12",
        note=("Partial: chain clause monitored, not proved; SMB reply flag is C17's negative clause, RPC reply message type "
              "rests on identification (C10) and on the message-type test added by fix c541e3c. Two defects found by this "
              "check were repaired (per-flow parser never reset; RPC REPLY messages answered on an RPC flow). "
              "Observations outside the property: SSH banners and Gh0st frames are valid requests as well as replies, and "
              "a FIN|ACK is answered with a FIN|ACK, so two responders can bounce those for ever. "
              "The first monitor ok_C12 (Spec/C12.v) demanded more than the text (content classifiers too coarse for byte strings that are both an RPC reply and a STUN request, both RPC layouts applied on both transports, clauses applied to continuation segments): C12_spec_monitor_refuted has the three witnesses; the check uses the corrected ok_C12x (Spec/C12x.v). The chain bound is proved for UDP (the SSH banner and the Gh0st frame, which are requests as well as replies and bounce for ever, are outside the property's list and provably unreachable from a listed start); over TCP the first-segment cases are proved, later segments are covered by the stateless clauses. Cross-layout / cross-dialect claims need a table hypothesis. "
              "After the prefix-buffer fix C12x_frame is stated for flows without pending bytes (the stateless clauses judge a segment on its own bytes); proto_repl_tcp_C12_joined states them for the joined stream of any flow."),
        technique="Coq theorems (finite flag table + per-responder lemmas on the context-free cores) + extracted monitor + reflection-chain monitor on the implementation"),
    "C13": dict(
        text=("Coq theorems over the model of the HTTP responder and of proto::repl, for the tables and the 401 template "
              "dumped from the implementation on every run: (grammar) an independent reference grammar Lstrict (nine "
              "methods, SP, target starting with '/', SP, HTTP/digit+.digit+, CRLF or LF, name:value lines, empty line) is "
              "given declaratively and as a boolean recogniser, proved equivalent, prefix-unique and contained in a "
              "second recogniser Lrelaxed that lists every leniency; (language) from a fresh parser state a payload is "
              "answered iff it has a complete Lrelaxed prefix, hence every Lstrict request followed by any bytes is "
              "answered and unknown methods, malformed request/header lines (incl. CR/LF in the target, empty version "
              "numbers) and unterminated requests are not; the answer is pre ++ date ++ post, which is well-formed "
              "(HTTP/1.1 401, WWW-Authenticate, Content-Length = bytes after the empty line) for every date without LF; "
              "(dispatch) the same through proto_repl_udp and through proto_repl_tcp on a fresh control block, payloads "
              "starting with one of the nine 'VERB /' signatures are identified as HTTP, and the model satisfies the "
              "extracted payload-level monitor. The verb phase is tied to the compiled HTTP_SMACK table by a product walk "
              "against the method trie decided by vm_compute (clause of env_ok). Tied to /repo by differential execution "
              "of grammar-directed requests, all prefixes and single-byte faults over UDP (v4/v6) and TCP, with logging "
              "off and at warn; the extracted monitors and an independent Python oracle judge the implementation's output. "
              "Frame level (Properties/C13frame.v, via the generic lifts of Proofs/LiftTcp.v): for every frame, whatever reply() emits satisfies ok_C13_udp, and for the first data segment of a flow ok_C13_tcp (state level and history level under no_collision), needing only env_ok and a date string without LF; a complete request behind one of the nine signatures yields exactly the 401 response as the payload of the emitted frame."),
        design="DESIGN.md section 5, C13 (and C11 for the parser-level segmentation theorems in Properties/C11http.v)",
        note=("Trusted: Coq kernel/vm_compute, extraction + OCaml driver, harness incl. its Python oracle, data translator; "
              "the correspondence is testing. Payload-level theorems (bytes_ok payload, identification given or derived "
              "from the 'VERB /' prefix); they are not lifted to whole frames in this property (frame-level monitors "
              "ok_C13_udp / ok_C13_tcp are evaluated on the implementation only). Lower-case methods are accepted by the "
              "responder's own matcher but never dispatched to it (protocol matcher is case-sensitive). The agent's observation that "
              "every later data segment on an answered flow got another 401 was repaired in /repo (fix ab1cb4b: the parser "
              "state is reset after a reply)."),
        technique="Coq theorems (reference grammar + exact parser language + response template facts by vm_compute) + model/implementation correspondence + extracted monitors"),
    "C18": dict(
        text=("Coq theorems over the model of reply(), down to whole frames: the SSH parser model (index loop with `i -= 1` "
              "re-examination) reaches its accepting state exactly on the reference language 'SSH-' (digits|dots)* '-' "
              "arbitrary-bytes CR LF anything, written independently as a declarative grammar and as a boolean scanner and "
              "proved equivalent (a CR not followed by LF is data; the terminator is the first CR LF after the version dash), "
              "for every byte string, with the loop's fuel proved sufficient; a payload identified as SSH is answered with the "
              "dumped banner iff it is in that language and with nothing otherwise; a payload identified as Gh0st is answered "
              "with the dumped frame; lifted through proto::repl, the UDP/TCP responders and the frame builders to the "
              "frame-level monitors: for every configuration, table and frame, what reply() emits for a UDP datagram in scope, "
              "and for the first accepted data segment of a TCP flow (state level unconditionally; history level against the "
              "4-tuple reference model assuming no cookie collision), carries exactly the prescribed application payload. "
              "Per-run obligations decided by kernel computation on the data dumped from the implementation: the banner equals "
              "the literal 'SSH-2.0-1\\r\\n'; the Gh0st frame starts with the magic, its LE32 at offset 5 equals the frame "
              "length, and its body is exactly one zlib stream that a reference RFC 1950/1951 decoder written in Coq "
              "(stored/fixed/dynamic Huffman, Adler-32 verified) inflates to as many bytes as the LE32 at offset 9 declares; "
              "the compiled matcher identifies a byte string as SSH iff it starts with 'SSH-2.0' or 'SSH-1.99' and as Gh0st "
              "iff it starts with 'Gh0st' (closure of a safe-row set + trie walk over all 256 byte values, soundness proved "
              "once). Tied to /repo by differential execution (hooked implementation vs extracted model on the application "
              "payload of every answer, UDP and TCP, IPv4 and IPv6) and by evaluating the extracted monitors and an "
              "independent Python reading (regular expression, zlib.decompress) on the implementation's own output."),
        design="DESIGN.md section 5, C18",
        note=("Trusted: Coq kernel/vm_compute, extraction + OCaml driver, harness, data translator for tables and constants; the "
              "correspondence between Rust control flow and the model is testing (systematic byte sweeps at every parser "
              "position, all terminator variants, CR runs, Gh0st tails 0..1400); pnet accessor semantics modelled. The "
              "reference zlib decoder is validated against Python's zlib on stored/fixed/dynamic streams (Examples by "
              "vm_compute). Multi-segment identification strings are outside the property's wording and not claimed (the SSH "
              "parser keeps no state across segments). The history-level TCP statement carries no_collision (C08 known finding)."),
        technique="Coq language-equivalence theorem for the parser + frame-level lift + per-run kernel-decided constant/table obligations (reference inflate, identification trie walk) + model/implementation correspondence + extracted monitors"),
    "C19": dict(
        text=("Coq theorems over the model's application layer: for every datagram payload, and for every first TCP data "
              "segment, the reply is render(core, context) where the core (silent / constant bytes / STUN transaction id + "
              "shift flag / parsed RPC call / parsed DNS query) is computed by functions with NO address, port or IP-version "
              "argument, and render lets the context enter only through STUN MAPPED-ADDRESS (+ derived lengths), successful "
              "portmapper GETPORT/GETADDR/DUMP results (+ record-mark length) and DNS answer RDLENGTH/RDATA; whether a "
              "payload is answered never depends on the context; HTTP/SSH/Gh0st/SMB replies are identical bytes in every "
              "context; the reply port is the contacted port (+1 only for STUN change-port). Tied to /repo "
              "metamorphically: the implementation answers the same payload over dozens of port pairs x IPv4/IPv6 x "
              "address pairs and the independently masked replies must coincide; each reply is also compared with the model."),
        design="DESIGN.md section 5, C19",
        note=("Trusted: Coq kernel, extraction + OCaml driver, harness incl. the Python masks; correspondence is testing. "
              "Wall-clock fields (HTTP Date, SMB FILETIME) are inputs of the model (clock record) and masked in comparisons. "
              "Later TCP segments of a flow are covered through the per-flow parser state by C08/C11, not here."),
        technique="Coq factorisation theorem (context-free core + explicit rendering) + metamorphic model/implementation correspondence"),
    "C20": dict(
        text=("Coq theorems over the model of reply(), which returns the event list handed to the loggers: for every "
              "configuration, table and frame, the events satisfy the executable specification ok_C20 -- one recv and later "
              "one terminal event (send/drop) per layer reached, nested from Ethernet inwards, where the layers reached are "
              "computed independently from the frame (authorised MAC, EtherType, minimum header sizes, IP layer accepting "
              "the packet); the Ethernet terminal is 'send' iff a frame is emitted and all layers log the same fate; every "
              "printed MAC / IP / port / EtherType / next protocol / type / code / flags / seq / ack is the frame's (for "
              "'send' events the emitted reply's, read back by the strict reply decoders; the local port is the reply's "
              "source port). Proved through an event-carrying factorisation of reply() over the stack's view. The abstract "
              "console / logfmt renderers (Log.v) are proved to emit exactly one newline, at the end of each line, for every "
              "event. Tied to /repo by running the REAL loggers: every line between two frame markers is parsed strictly "
              "(column count / key order), compared with the model's events, judged by the extracted monitor, and "
              "re-rendered byte-for-byte by the extracted renderers."),
        design="DESIGN.md section 5, C20",
        note=("Trusted: Coq kernel/vm_compute, extraction + OCaml driver, harness (strict line parsers with a self-test on "
              "damaged lines; the monitor is mutation-tested on corrupted logs), driver frame markers; correspondence is "
              "testing (one script per drop reason, both formats, four configurations, sweeps of all EtherType names, 256 "
              "protocols, 256 ICMP types, 512 TCP flag words, every truncation length). Rust's Display/Debug of MacAddr, "
              "IpAddr, integers and pnet's name tables are modelled in Log.v/Text.v (validated by the byte-for-byte "
              "re-rendering, not proved). Values without a pnet name print as 'unknown' and are compared as one class. "
              "Frames on which reply() panics are out of scope (C01). Timestamps are not part of the property."),
        technique="Coq theorem via event-carrying factorisation + rendering lemma + real-logger correspondence with strict parsers"),
    "C16": dict(
        text=("Coq theorems over the model of the ONC-RPC responder and of proto::repl: for every well-formed call record "
              "(all xids, programs, versions, procedures, credential and verifier bodies of any length, padded per XDR) "
              "serialised by an independent reference encoder (RFC 5531/4506), followed by arbitrary bytes, over UDP and "
              "behind a record mark over TCP, for every contacted address (4 or 16 octets) and port: the byte-at-a-time "
              "parser ends in End with the call's fields exactly at offset 40+|cred| and not before; the reply, read back "
              "by an independent strict XDR reader (alignment, zero padding, booleans, whole message consumed), is the "
              "accepted reply with the same XID and a null verifier that the property's precedence order prescribes "
              "(PROG_MISMATCH(2,4) / void success / GETPORT port / GETADDR universal address / DUMP list of three mappings "
              "with netid tcp|tcp6 by IP version / PROC_UNAVAIL / PROG_UNAVAIL); over TCP it is framed by a last-fragment "
              "record mark whose length is the reply's; message types other than CALL and truncated calls get nothing; the "
              "statements hold at proto::repl under the hypothesis that the matcher identified the payload; no accumulator "
              "overflow and no read_string underflow is reachable from a fresh parser. Tied to /repo by differential "
              "execution (all 256 programs, versions, procedures, credential/verifier lengths incl. unpadded ones, both "
              "transports and IP versions, IPv6 text corner cases) and by evaluating the extracted monitor on the "
              "implementation's replies. "
              "Frame level (Properties/C16frame.v): every emitted frame satisfies ok_C16_udp / ok_C16_tcp (first data segment; state and history level) under the explicit hypothesis rpc_ident_ok (in-scope, not-shadowed calls are identified), which C10's product theorem discharges on the current table (recipe C16_ident_from_C10); unconditional for identified frames. "
              "On the current implementation without identification hypothesis (Properties/Current.v): C16_current_ident (rpc_ident_ok the_env, from C10's theorem and a proof about the reference automaton that in-scope, not-shadowed calls are outside C10's class and complete the RPC signature), C16_current_frame_udp / _tcp_first / _tcp_first_state for every frame, and exactness of the class: on in-scope calls rpc_shadowed holds iff the call is not identified (C16_class_exact)."),
        design="DESIGN.md section 5, C16",
        note=("Trusted: Coq kernel/vm_compute, extraction + OCaml driver, harness; correspondence is testing. Identification "
              "is a hypothesis of the theorems: in-scope calls that the compiled matcher does not identify (first byte "
              "G P H D C O T S 0x00 over UDP, XID starting with 0x00 over TCP) are the known class rpc_shadowed (C10 "
              "finding), decided by an extracted predicate and refuted by a kernel-computed witness. The address text shared "
              "by model and specification is tied to independent readers by proved round trips: IPv4 (C16_uaddr4_roundtrip) "
              "and, for all 16-octet addresses, IPv6 (Properties/C16ip6.v: an RFC 4291 reader written without looking at the "
              "printer reads back what render_ipv6 prints, whichever zero run is compressed, incl. the IPv4-mapped form; "
              "render_ipv6 is injective). Fixed finding: PROC_UNAVAIL was sent as 5 (SYSTEM_ERR)."),
        technique="Coq theorems (parser correctness, encoder/decoder round trip, dispatch) + extracted monitor on implementation output + model/implementation correspondence"),
    "C10": dict(
        text=("Coq theorems by reflection, for payloads of EVERY length: the published signature set is written by hand as a "
              "deterministic reference automaton (Spec/RefSig.v: 19 signatures, '*' = any byte, begin anchors, two "
              "end-anchored layouts; proved equal to the direct reading 'the shortest completed prefix decides'); a "
              "checker for a finite certificate of the product of the compiled matcher -- the table DUMPED FROM THE "
              "IMPLEMENTATION ON EVERY RUN -- with that automaton is proved sound: if it accepts, then for every byte "
              "string outside the committed known class D0 the matcher's one-shot identification (search_next + "
              "search_next_end, UDP) and its stream identification (TCP) equal the reference. The per-run obligation "
              "product_ok the_table K0 is re-decided by the kernel (vm_compute, ~2 s) whenever the dump changes, so a "
              "changed pattern, anchor flag, wildcard fix-up or table cell breaks a proof obligation; the extracted "
              "function disagreements_k then yields the concrete strings, which are replayed on the real matcher. Further "
              "theorems: identification over any list of TCP segments equals identification over the concatenation (same "
              "id, state and stream offset; the control block holds exactly the one-shot state while undecided); "
              "proto::repl dispatches to the responder of the identified protocol, and to the DNS fallback only -- never a "
              "signature-dispatched responder -- when nothing is identified; identification takes no address or port. "
              "K0 (92 points of the reference automaton, four families) is shown sufficient (all 773 raw disagreement "
              "points lie inside) and necessary entry by entry, with kernel-computed witnesses. Tied to /repo by the table "
              "dump, by ~30 000 (thorough: 150 000) calls of the real matcher per run on one access string per product "
              "state x next byte / END compared with the extracted model and with an independent Python reading of the "
              "published list, by segmentation trials with carried state, and at frame level by sending every access "
              "string and complete requests of every protocol over UDP and TCP (ports, IP versions, cuts of the prefix) "
              "and classifying the responder that answered."),
        design="DESIGN.md sections 5 (C10) and 10.7",
        note=("Trusted: Coq kernel/vm_compute (the product check runs in the kernel), extraction + OCaml driver, harness incl. "
              "sigs.py, the hooks that dump the table and call the real matcher, the data translator. The exploration that "
              "produces the certificate and the Python script that generated K0 are untrusted (only the checker is proved). "
              "Known finding wildcard_shadowing = K0: RPC calls whose first bytes start like another signature, RPC/TCP "
              "records whose XID starts with 00, STUN magic-cookie requests with a zero length high byte outside the two "
              "end-anchored layouts, and the END column redirected by the fix-up; the strict checker also requires the "
              "matcher to be dead at the dead points, a lax variant (monotone in K0) is proved too. Which complete requests "
              "a responder answers is C13/C15/C16/C17/C18; over TCP the handler sees only the segment in which "
              "identification completed (C11 known finding)."),
        technique="Coq reflection: proved-sound product check of the dumped matcher table against a reference signature automaton (kernel-computed per run) + segmentation/dispatch theorems + real-matcher and frame-level correspondence"),
    "C14": dict(
        text=("Coq theorems over the DNS responder model and proto::repl / reply(): an independent RFC 1035 codec "
              "(Spec/RefDns.v: structured queries and messages, encoder, complete strict decoder; round trip, soundness, "
              "every strict prefix is 'truncated') and a simulation theorem tying the model's parser to that reference "
              "reader on EVERY input. For every well-formed query (any id, any flag word with QR clear, any number of "
              "questions, every label layout incl. zero bytes inside labels, names up to 255 octets) consisting only of "
              "IN/A questions and every IPv4 destination: the reply decodes completely to the expected response (same id, "
              "QR=1, same opcode and RD, question section echoed byte for byte, one IN/A record per question owned by the "
              "queried name with RDATA = the contacted address, QDCOUNT = ANCOUNT = number of questions, NSCOUNT = ARCOUNT "
              "= 0, nothing left over); a message with a question that is not IN/A, every truncation, and every QR=1 "
              "message is never answered; lifted through proto::repl (under 'no signature completed': udp_id = None) and "
              "through reply() to emitted frames: for every frame, whatever reply() returns satisfies the monitor "
              "ok_C14_udp. Tied to /repo by differential execution (ids with every high byte, flag grid, 0..40 questions, "
              "label layouts, address/port grid, non-IN/A at every position, all truncations, records in other sections, "
              "pointers, polyglots) and by evaluating the extracted monitor and an independent Python DNS reader on the "
              "implementation's replies. "
              "Against the published list (Properties/Current.v): C14_current_frame_udp_ref -- for every frame on the current implementation the monitor ok_C14_udp_ref, which reads 'no signature completed' on the reference signature automaton instead of the compiled table, holds; the two monitors coincide outside C10's refined class (C14_ref_monitor_is_table_monitor), and ordinary IN/A queries -- also those whose id starts like another signature -- are outside it."),
        design="DESIGN.md sections 5 (C14) and 10.7",
        note=("Trusted: Coq kernel/vm_compute, extraction + OCaml driver, harness incl. its Python oracle; correspondence is "
              "testing; pnet accessor semantics modelled. 'Not itself completing another protocol's signature' is the "
              "hypothesis udp_id = None (compiled matcher), related to the published signature list by C10; the Python "
              "oracle uses the published list directly. AA/TC/RA/Z/RCODE and TTLs are not constrained by the text and are "
              "left free. Outside the property, recorded as observations: trailing bytes are ignored, ANCOUNT != 0 is "
              "tolerated, NSCOUNT/ARCOUNT != 0 (EDNS) is never answered, compression pointers in questions are not "
              "followed, over IPv6 the A record has empty RDATA, a 20-byte query with id 1 and flags 0 is answered by STUN. "
              "Fixed finding: a zero byte inside a label ended the name (621c947)."),
        technique="Coq theorems (reference codec round trip + parser simulation on all inputs + frame-level lift) + extracted monitor and Python oracle on implementation output + model/implementation correspondence"),
    "C15": dict(
        text=("Coq theorems over the STUN responder model, proto::repl and reply(): an independent RFC 5389 / RFC 3489 codec "
              "(Spec/RefStun.v: class/method bit layout, TLVs with padding, strict request and response readers; round "
              "trips and soundness). For every well-formed Binding Request (any 128-bit transaction id, any attribute "
              "list incl. unknown types, zero-length and odd-length values with arbitrary padding bytes, trailing bytes), "
              "the reply decodes to a Binding Success Response with the same id, length field = bytes that follow, exactly "
              "one MAPPED-ADDRESS = (IP version, source port, source address); the reply port is (dport+1) mod 2^16 iff "
              "some CHANGE-REQUEST has the change-port flag and all other client information is unchanged; other classes "
              "and methods, and every truncation, get nothing; the exact set of answered payloads is characterised "
              "(C15_answered_iff). Lifted through proto::repl (UDP and first TCP segment, identification as hypothesis) "
              "and for UDP through reply() to the emitted frame's ports. Tied to /repo by differential execution (all "
              "classes x methods, attribute lists of all shapes, malformed TLVs, length lies, truncations, ports incl. "
              "0 / 65535 wrap, both transports and IP versions) and by the extracted monitors and an independent Python "
              "STUN reader on the implementation's replies. "
              "Frame level for TCP as well (Properties/C15frame.v): the first data segment of a flow satisfies ok_C15_tcp incl. the port clause, under an explicit identification hypothesis (stun_ident_ok) that property C10's theorem discharges; no other handler can emit a STUN response to a STUN message (C15_other_handlers_no_stun_response). "
              "On the current implementation without any identification hypothesis (Properties/Current.v): C15_current_ident discharges stun_ident_ok through C10's product theorem for the magic-cookie layout and through a second proved-sound checker run directly on the dumped table for the two end-anchored layouts; C15_current_frame_tcp_first / _state and C15_current_frame_udp (frames of at most 4096 octets, which discharges dns_quiet_at) hold for every frame; the class predicate is exact: on published requests, stun_shadowed holds iff the payload is not identified (C15_class_*_exact)."),
        design="DESIGN.md sections 5 (C15) and 10.7",
        note=("Trusted: Coq kernel/vm_compute, extraction + OCaml driver, harness incl. its Python oracle; correspondence is "
              "testing. Identification is a hypothesis of the theorems: published binding requests that the compiled "
              "matcher does not identify (magic cookie with a zero length high byte, i.e. shorter than 276 bytes, unless "
              "they fit the two end-anchored layouts; always over TCP) are the known class stun_shadowed (C10 finding), "
              "decided by an extracted predicate and refuted by kernel-computed witnesses. The text does not demand silence "
              "on malformed attribute lists: the statement 'every malformed message is ignored' is REFUTED of the model "
              "(stray bytes / a header without value / a missing final padding at the end of the list are tolerated) and "
              "recorded as an observation; proved is the partial form and the exact characterisation. No frame-level TCP "
              "lift (proto level only). Fixed findings: method decoding (5c1d1a4), port shifted once per CHANGE-REQUEST "
              "(656596d), RFC 5389 padding (eaff8f8), panics on malformed attributes (79978bd). "
              "The UDP frame theorem without per-frame identification needs dns_quiet_at (the DNS fallback does not answer a STUN message with bytes that read as a STUN response to it): shown necessary by a 16 918-byte polyglot (C15_udp_without_dns_hypothesis_refuted), impossible within the 4096-byte capture buffer."),
        technique="Coq theorems (reference codec round trips, handler correctness for all attribute lists, exact answered set, UDP frame lift) + extracted monitors and Python oracle on implementation output + model/implementation correspondence"),
    "C17": dict(
        text=("Coq theorems over the SMB responder model (byte-at-a-time dissectors folded over the payload) and proto::repl: "
              "an independent reference codec (Spec/RefSmb.v, from RFC 1002, [MS-CIFS], [MS-SMB], [MS-SMB2]: NetBIOS session "
              "header, SMB1/SMB2 headers, the four request bodies with encoders and readers, the four response readers with "
              "consistency predicates) with round trips and an exact classifier (sound and complete). For every well-formed "
              "request -- all correlation ids, all flag values without the reply bit, every dialect list (duplicates, "
              "unknown entries, any order), every security blob length incl. 0, any trailing bytes, any NetBIOS header bytes "
              "-- the dissector reaches End with exactly the request's fields (per-field combinator lemmas composed), and "
              "the reply decodes by the independent reader to: NetBIOS length = bytes that follow, reply flag set, command "
              "and correlation fields (SMB1 PIDHigh/TID/PIDLow/UID/MID, SMB2 MessageId/AsyncId/SessionId) echoed, SMB1 "
              "negotiate WordCount 17 and ByteCount = 16 + |blob|, SMB1 session setup SecurityBlobLength = |blob| and "
              "ByteCount = blob + strings, SMB2 negotiate buffer offset 0x80 / length = |blob| = bytes remaining, SMB2 "
              "session setup offset 0x48, the blob being the one dumped from the implementation; SMB1 DialectIndex points "
              "at an offered dialect (the preferred known one when offered), SMB2 DialectRevision is offered and is the "
              "server's first preference among the offered ones, no reply when none is supported or none is offered; "
              "messages with the reply flag and all other commands (all 256 SMB1 bytes, all 65536 SMB2 words) get nothing. "
              "Lifted through proto::repl (UDP and first TCP segment, identification as hypothesis). Tied to /repo by "
              "differential execution (ids, flags, dialect lists, blob lengths 0..512, all commands, reply flags, "
              "truncations, NetBIOS header bytes; both transports and IP versions) and by the extracted monitors and an "
              "independent Python reader (incl. DER length of the blob present) on the implementation's replies. "
              "Frame level on the current implementation (Properties/Current.v): a classified request has the NetBIOS/SMB head 00 00 a b ff|fe 'S' 'M' 'B', lies outside C10's class and is identified as SMB1/SMB2 (C17_classified_head, C17_classified_identified); C17_frame_udp, C17_frame_tcp_first(_state) -- for every frame, whatever reply() emits satisfies ok_C17_udp / ok_C17_tcp -- with no identification hypothesis."),
        design="DESIGN.md sections 5 (C17) and 10.7",
        note=("Trusted: Coq kernel/vm_compute, extraction + OCaml driver, harness incl. its Python oracle, data translator "
              "(the two security blobs; blob_ok -- octets, shorter than 65000 bytes -- is re-decided per run); correspondence "
              "is testing. Proto level only (no frame-level lift yet); identification and 'identified payloads carry the "
              "magic' are C10's subject. The request must arrive in one datagram / first segment (fresh dissector per "
              "call). Scope of the reference: SMB1 negotiate with WordCount 0 / buffer format 2, SMB1 session setup in "
              "the extended-security form (WordCount 12), SMB2 negotiate with DialectCount >= 1. Wall-clock FILETIME fields "
              "are unconstrained. Observations outside the text: SMB2 picks the LOWEST offered revision; a negotiate "
              "offering only 0x0311 gets NegotiateContextCount 1 with offset 0; status 0 instead of MORE_PROCESSING_REQUIRED. "
              "Fixed findings: duplicate dialects / bytes after the dialect list (9bdd5f3), empty security blob never "
              "answered (5dca3e9). "
              "(The 'proto level only' remark above is superseded by the frame-level theorems of Properties/Current.v.)"),
        technique="Coq theorems (reference codec round trips, per-field dissector lemmas composed into parse theorems, reply decode by an independent reader, silence clauses over finite command domains) + extracted monitors and Python oracle on implementation output + model/implementation correspondence"),
}

ALL = ["C%02d" % i for i in range(1, 21)]
PENDING_REASON = "not claimed: see DESIGN.md section 10"


def main():
    checks = []
    for pid in ALL:
        if pid in CLAIMED:
            c = CLAIMED[pid]
            checks.append({
                "property_id": pid,
                "quick_cmd": "./check %s --quick" % pid,
                "thorough_cmd": "./check %s --thorough" % pid,
                "evidence_file": "/verif/evidence/%s.json" % pid,
                "replay_cmd_template": "./check %s --quick --replay {path}" % pid,
                "engine": "coq-model",
                "level_claimed": {"category": "proof", "text": c["text"], "design_ref": c["design"]},
                "level_note": c["note"],
                "technique": c["technique"],
            })
    m = {
        "version": 1,
        "setup_cmd": "./setup.sh",
        "hooks": {
            "guard": "cargo feature `verif`",
            "enable": "cargo build --offline --features verif --target-dir /verif/.cache/target (MASSCANNED_VERIF=1 selects the line-protocol driver at run time)",
            "baseline_off_cmd": "cd /repo && cargo test --workspace --no-fail-fast --offline",
            "source_commits": ["verif hooks: cargo feature 'verif' with line-protocol driver, table dump, TCB table accessors",
                               "verif hooks: dump the SMB security blobs with the tables (feature 'verif')",
                               "verif hook: ADV <seconds> driver command (advances the clocks through the harness' preloaded clock shim)",
                               "verif hook: RESET also resets the clock shim's offset"],
            "add_only": True,
        },
        "engines": [{
            "name": "coq-model", "path": "/verif/coq",
            "serves_properties": sorted(CLAIMED),
            "kind_free_text": ("hand-written Gallina model of masscanned's reply() pipeline with theorems per property; "
                               "tables/constants regenerated from /repo on every run; extracted to OCaml and compared with "
                               "the hooked implementation (harness/*.py)"),
        }],
        "checks": checks,
        "not_applicable": [{"property_id": p, "reason": PENDING_REASON} for p in ALL if p not in CLAIMED],
        "notes": "All checks are `./check <id> --quick|--thorough` (harness/check.py); known findings in known_findings.txt.",
    }
    with open(os.path.join(VERIF, "MANIFEST.json"), "w") as f:
        json.dump(m, f, indent=1)


if __name__ == "__main__":
    main()
