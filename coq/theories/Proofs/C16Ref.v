(* Proofs/C16Ref.v -- the C16 monitors of Spec/C16ref.v (universal addresses READ with
   the independent readers instead of compared with the model's printer):
   (a) on well-formed contexts the old monitor implies the new one (from the round trip
       [uaddr_ok_render], Proofs/C16Ip6.v);
   (b) hence the proto-level and the frame-level theorems carry over;
   (c) closed evaluations: alternative correct spellings accepted, wrong address / port /
       netid / number of entries rejected; [ctx_ok] alone would not suffice for (a). *)
From Coq Require Import List NArith Bool Lia.
From MS Require Import Bytes Types Rpc Proto L2 Spec.View Spec.TcpRef Spec.AppView Spec.History
  Spec.RefXdr Spec.C16 Spec.RefIp6Text Spec.C16ref Instance
  Proofs.Tactics Proofs.C06 Proofs.TcpState Proofs.C07 Proofs.Lift Proofs.LiftTcp Proofs.C16Reply Proofs.C16Ip6 Proofs.C16Examples
  Proofs.C16Ip6Examples Proofs.FrameBuild Proofs.C16Frame Proofs.GlueC16.
Import ListNotations.
Local Open Scope N_scope.

(* ---------------------------------------------------------------------- *)
(* (a) the old monitor implies the new one                                  *)
(* ---------------------------------------------------------------------- *)
Lemma ctx_wf_inv ctx : ctx_wf ctx = true -> ip_ok (ctx_dst_ip ctx) = true /\ a_dport ctx < 65536.
Proof. unfold ctx_wf. intros H. apply andb_true_iff in H. destruct H as [H1 H2]. split; [exact H1 | lia]. Qed.

Lemma ctx_wf_ctx_ok ctx : ctx_wf ctx = true -> ctx_ok ctx.
Proof.
  intros H. destruct (ctx_wf_inv _ H) as [Hip Hp]. split; [|exact Hp].
  unfold ctx_dst_ip in Hip. destruct (a_v4 ctx); cbn [ip_ok] in Hip;
    apply andb_true_iff in Hip; destruct Hip as [Hl _]; apply Nat.eqb_eq in Hl; lia.
Qed.

Lemma frame_ctx_wf tcp ctx : frame_ctx_ok tcp ctx -> ctx_wf ctx = true.
Proof.
  intros (_ & _ & Hl & _ & Hb & _ & Hp). unfold ctx_wf, ctx_dst_ip.
  apply andb_true_iff. split; [|lia].
  destruct (a_v4 ctx); cbn [ip_ok]; rewrite Hl, Hb; reflexivity.
Qed.

Lemma rpcb_eqb_ok_ref ip port vs e :
  ip_ok ip = true -> port < 65536 ->
  rpcb_eqb e (PMAP_PROG, vs, netid_of ip, uaddr_text ip port, OWNER) = true ->
  rpcb_ok_ref ip port vs e = true.
Proof.
  intros Hip Hp. destruct e as [[[[pg v] ni] ad] ow]. unfold rpcb_eqb, rpcb_ok_ref.
  intros H. repeat (apply andb_true_iff in H; destruct H as [H ?]).
  match goal with Had : bytes_eqb ad _ = true |- _ => apply bytes_eqb_eq in Had; subst ad end.
  rewrite (uaddr_ok_render ip port Hip Hp).
  repeat (apply andb_true_iff; split); try assumption; reflexivity.
Qed.

Lemma body_eqb_ok_ref ip port c b :
  ip_ok ip = true -> port < 65536 ->
  body_eqb b (expected_body ip port c) = true -> body_ok_ref ip port c b = true.
Proof.
  intros Hip Hp. unfold expected_body, body_ok_ref.
  destruct ((rc_vers c <? 2) || (4 <? rc_vers c)).
  { destruct b; cbn [body_eqb]; try discriminate. intros H; exact H. }
  destruct (rc_proc c =? 0).
  { destruct b as [[| | | |]| | | | |]; cbn [body_eqb result_eqb]; try discriminate. reflexivity. }
  destruct (rc_prog c =? PMAP_PROG).
  2:{ destruct b; cbn [body_eqb]; try discriminate. reflexivity. }
  destruct (rc_proc c =? 3).
  { destruct (rc_vers c =? 2);
      destruct b as [[|q|s|l|l]| | | | |]; cbn [body_eqb result_eqb negb andb]; try discriminate.
    - intros H; exact H.
    - intros H. apply bytes_eqb_eq in H. subst s. apply uaddr_ok_render; assumption. }
  destruct (rc_proc c =? 4).
  2:{ destruct b; cbn [body_eqb]; try discriminate. reflexivity. }
  destruct (rc_vers c =? 2);
    destruct b as [[|q|s|l|l]| | | | |]; cbn [body_eqb result_eqb negb andb]; try discriminate.
  - intros H; exact H.
  - unfold dump3, dump3_ok_ref.
    destruct l as [|e2 [|e3 [|e4 [|e5 l]]]]; cbn [list_eqb]; try discriminate;
      try (intros H; repeat (apply andb_true_iff in H; destruct H as [? H]); discriminate).
    intros H. apply andb_true_iff in H. destruct H as [H2 H]. apply andb_true_iff in H. destruct H as [H3 H].
    apply andb_true_iff in H. destruct H as [H4 _].
    rewrite (rpcb_eqb_ok_ref ip port 2 e2 Hip Hp H2), (rpcb_eqb_ok_ref ip port 3 e3 Hip Hp H3),
      (rpcb_eqb_ok_ref ip port 4 e4 Hip Hp H4). reflexivity.
Qed.

Lemma reply_eqb_ok_ref ctx c rep :
  ctx_wf ctx = true -> reply_eqb rep (expected_reply ctx c) = true -> reply_ok_ref ctx c rep = true.
Proof.
  intros Hwf. destruct (ctx_wf_inv _ Hwf) as [Hip Hp].
  unfold reply_eqb, reply_ok_ref, expected_reply, expected_reply_at.
  cbn [rp_xid rp_verf_flavor rp_verf rp_body]. intros H.
  apply andb_true_iff in H. destruct H as [H Hb].
  rewrite H. cbn [andb]. apply body_eqb_ok_ref; assumption.
Qed.

Theorem app_ok_C16_ref_implied : C16_ref_implied_stmt.
Proof.
  intros strict ctx p o Hwf. unfold app_ok_C16_gen, app_ok_C16_ref_gen.
  destruct (scope_call (a_tcp ctx) p) as [c|]; [|reflexivity].
  destruct (negb strict && rpc_shadowed (a_tcp ctx) p); [reflexivity|].
  destruct o as [r|]; [|intros H; exact H].
  destruct (if a_tcp ctx then strip_mark r else Some r) as [body|]; [|intros H; exact H].
  destruct (dec_reply (result_kind c) body) as [rep|]; [|intros H; exact H].
  apply reply_eqb_ok_ref, Hwf.
Qed.

(* ... in the form asked for, on the contexts frames produce *)
Theorem app_ok_C16_ref_of_frame strict tcp ctx p o :
  frame_ctx_ok tcp ctx -> app_ok_C16_gen strict ctx p o = true -> app_ok_C16_ref_gen strict ctx p o = true.
Proof. intros Hc. apply app_ok_C16_ref_implied, (frame_ctx_wf tcp), Hc. Qed.

(* what the new monitor accepts for GETADDR / DUMP reads back to the contacted endpoint *)
Theorem body_ok_ref_getaddr ip port c b :
  body_ok_ref ip port c b = true ->
  (rc_vers c =? 3) || (rc_vers c =? 4) = true -> rc_prog c = PMAP_PROG -> rc_proc c = 3 ->
  exists s, b = AccSuccess (ResUaddr s) /\ uaddr_ok ip port s = true.
Proof.
  intros H Hv Hpg Hpc. unfold body_ok_ref in H. rewrite Hpg, Hpc in H.
  replace ((rc_vers c <? 2) || (4 <? rc_vers c)) with false in H by lia.
  change (3 =? 0) with false in H. change (PMAP_PROG =? PMAP_PROG) with true in H.
  change (3 =? 3) with true in H. cbv iota in H.
  destruct b as [[|q|s|l|l]| | | | |]; try discriminate.
  - apply andb_true_iff in H. lia.
  - apply andb_true_iff in H. destruct H as [_ H]. exists s. split; [reflexivity | exact H].
Qed.

Theorem body_ok_ref_dump ip port c b :
  body_ok_ref ip port c b = true ->
  (rc_vers c =? 3) || (rc_vers c =? 4) = true -> rc_prog c = PMAP_PROG -> rc_proc c = 4 ->
  exists a2 a3 a4,
    b = AccSuccess (ResDump3 [(PMAP_PROG, 2, netid_of ip, a2, OWNER); (PMAP_PROG, 3, netid_of ip, a3, OWNER);
                              (PMAP_PROG, 4, netid_of ip, a4, OWNER)]) /\
    uaddr_ok ip port a2 = true /\ uaddr_ok ip port a3 = true /\ uaddr_ok ip port a4 = true.
Proof.
  intros H Hv Hpg Hpc. unfold body_ok_ref in H. rewrite Hpg, Hpc in H.
  replace ((rc_vers c <? 2) || (4 <? rc_vers c)) with false in H by lia.
  change (4 =? 0) with false in H. change (PMAP_PROG =? PMAP_PROG) with true in H.
  change (4 =? 3) with false in H. change (4 =? 4) with true in H. cbv iota in H.
  destruct b as [[|q|s|l|l]| | | | |]; try discriminate.
  - apply andb_true_iff in H. lia.
  - apply andb_true_iff in H. destruct H as [_ H]. unfold dump3_ok_ref in H.
    destruct l as [|[[[[g2 v2] n2] a2] o2] [|[[[[g3 v3] n3] a3] o3] [|[[[[g4 v4] n4] a4] o4] [|e5 l]]]];
      try discriminate.
    unfold rpcb_ok_ref in H.
    repeat match type of H with (_ && _) = true => apply andb_true_iff in H; destruct H as [H ?] end.
    repeat match goal with
           | X : (_ && _) = true |- _ => apply andb_true_iff in X; destruct X as [X ?]
           end.
    repeat match goal with
           | X : bytes_eqb _ _ = true |- _ => apply bytes_eqb_eq in X; subst
           | X : (_ =? _) = true |- _ => apply N.eqb_eq in X; subst
           end.
    exists a2, a3, a4. repeat split; assumption.
Qed.

(* ---------------------------------------------------------------------- *)
(* (b) the proto-level theorems                                             *)
(* ---------------------------------------------------------------------- *)
Theorem C16_proto_udp_ref (E : env) (clk : clock) (cfg : config) (ms md : bytes) (ctx : app_ctx) (p : bytes) :
  a_tcp ctx = false -> bytes_ok p = true -> ctx_wf ctx = true ->
  udp_id E p = Some PROTO_RPC_UDP ->
  exists o, proto_repl_udp E clk (ctx_ci cfg ms md ctx) p = Ok (ctx_ci cfg ms md ctx, o) /\
            app_ok_C16_ref_strict ctx p o = true /\ app_ok_C16_ref ctx p o = true.
Proof.
  intros Htcp Hok Hwf Hid.
  destruct (C16_proto_udp E clk cfg ms md ctx p Htcp Hok (ctx_wf_ctx_ok _ Hwf) Hid) as (o & Hr & Hs & Hn).
  exists o. split; [exact Hr|]. split; apply app_ok_C16_ref_implied; assumption.
Qed.

Theorem C16_proto_tcp_ref (E : env) (clk : clock) (cfg : config) (ms md : bytes) (ctx : app_ctx) (p : bytes) :
  a_tcp ctx = true -> bytes_ok p = true -> ctx_wf ctx = true ->
  tcp_first_id E p = Some PROTO_RPC_TCP ->
  exists tc' o, proto_repl_tcp E clk (ctx_ci cfg ms md ctx) tcb_new p = Ok (ctx_ci cfg ms md ctx, tc', o) /\
                app_ok_C16_ref_strict ctx p o = true /\ app_ok_C16_ref ctx p o = true.
Proof.
  intros Htcp Hok Hwf Hid.
  destruct (C16_proto_tcp E clk cfg ms md ctx p Htcp Hok (ctx_wf_ctx_ok _ Hwf) Hid) as (tc' & o & Hr & Hs & Hn).
  exists tc', o. split; [exact Hr|]. split; apply app_ok_C16_ref_implied; assumption.
Qed.

(* ---------------------------------------------------------------------- *)
(* (b) the frame-level theorems: the wrappers are monotone on frame contexts *)
(* ---------------------------------------------------------------------- *)
Lemma ok_app_udp_mono (P Q : app_ctx -> bytes -> option bytes -> bool) cfg f r :
  bytes_ok f = true ->
  (forall ctx p o, frame_ctx_ok false ctx -> P ctx p o = true -> Q ctx p o = true) ->
  ok_app_udp P cfg f r = true -> ok_app_udp Q cfg f r = true.
Proof.
  intros Hf HPQ. unfold ok_app_udp, udp_req.
  destruct (view_udp cfg f) as [v|] eqn:Hv; [|reflexivity].
  destruct (udp_resp r) as [o|]; [|intros H; exact H].
  apply HPQ. destruct (view_udp_view _ _ _ Hv) as [Hview _]. exact (frame_ctx_of false cfg f v Hf Hview).
Qed.

Lemma ok_app_tcp_first_mono (P Q : app_ctx -> bytes -> option bytes -> bool) cfg st f r :
  bytes_ok f = true ->
  (forall ctx p o, frame_ctx_ok true ctx -> P ctx p o = true -> Q ctx p o = true) ->
  ok_app_tcp_first P cfg st f r = true -> ok_app_tcp_first Q cfg st f r = true.
Proof.
  intros Hf HPQ. unfold ok_app_tcp_first, tcp_first_req.
  destruct (view_tcp cfg f) as [v|] eqn:Hv; [|reflexivity].
  destruct (is_data (tcp_flags (v_l4 v)) && negb (ref_mem (flow_of v) st) && presents_cookie cfg v); [|reflexivity].
  destruct (tcp_resp r) as [o|]; [|intros H; exact H].
  apply HPQ. destruct (view_tcp_view _ _ _ Hv) as [Hview _]. exact (frame_ctx_of true cfg f v Hf Hview).
Qed.

(* the old frame-level monitors imply the new ones, on every frame *)
Theorem ok_C16_udp_ref_implied cfg f r :
  bytes_ok f = true -> ok_C16_udp cfg f r = true -> ok_C16_udp_ref cfg f r = true.
Proof. intros Hf. apply ok_app_udp_mono; [exact Hf|]. intros ctx p o. apply app_ok_C16_ref_of_frame. Qed.
Theorem ok_C16_udp_ref_strict_implied cfg f r :
  bytes_ok f = true -> ok_C16_udp_strict cfg f r = true -> ok_C16_udp_ref_strict cfg f r = true.
Proof. intros Hf. apply ok_app_udp_mono; [exact Hf|]. intros ctx p o. apply app_ok_C16_ref_of_frame. Qed.
Theorem ok_C16_tcp_ref_implied cfg st f r :
  bytes_ok f = true -> ok_C16_tcp cfg st f r = true -> ok_C16_tcp_ref cfg st f r = true.
Proof. intros Hf. apply ok_app_tcp_first_mono; [exact Hf|]. intros ctx p o. apply app_ok_C16_ref_of_frame. Qed.
Theorem ok_C16_tcp_ref_strict_implied cfg st f r :
  bytes_ok f = true -> ok_C16_tcp_strict cfg st f r = true -> ok_C16_tcp_ref_strict cfg st f r = true.
Proof. intros Hf. apply ok_app_tcp_first_mono; [exact Hf|]. intros ctx p o. apply app_ok_C16_ref_of_frame. Qed.

Theorem frame_udp_C16_ref_current cfg clk tb f tb' r evs :
  cfg_ok cfg = true -> bytes_ok f = true ->
  reply the_env cfg clk tb f = Ok (tb', r, evs) ->
  ok_C16_udp_ref cfg f r = true.
Proof.
  intros Hcfg Hf Hr. apply ok_C16_udp_ref_implied; [exact Hf|].
  exact (frame_udp_C16_current cfg clk tb f tb' r evs Hcfg Hf Hr).
Qed.

Theorem frame_tcp_C16_ref_current cfg h clk tb f tb' r evs :
  cfg_ok cfg = true ->
  Forall (fun x => bytes_ok x = true) (frames h) -> bytes_ok f = true ->
  run the_env cfg [] h = Ok tb ->
  (forall v, view_tcp cfg f = Some v -> no_collision cfg (flow_of v :: ref_run cfg (frames h))) ->
  reply the_env cfg clk tb f = Ok (tb', r, evs) ->
  ok_C16_tcp_ref cfg (ref_run cfg (frames h)) f r = true.
Proof.
  intros Hcfg Hall Hf Hrun Hnc Hr. apply ok_C16_tcp_ref_implied; [exact Hf|].
  exact (frame_tcp_C16_current cfg h clk tb f tb' r evs Hcfg Hall Hf Hrun Hnc Hr).
Qed.

Theorem frame_tcp_C16_ref_current_state cfg clk tb f tb' r evs v :
  cfg_ok cfg = true -> bytes_ok f = true ->
  view_tcp cfg f = Some v ->
  is_data (tcp_flags (v_l4 v)) = true ->
  tbl_mem (flow_cookie cfg (flow_of v)) tb = false ->
  presents_cookie cfg v = true ->
  reply the_env cfg clk tb f = Ok (tb', r, evs) ->
  exists o, tcp_resp r = Some o /\ app_ok_C16_ref (ctx_of true v) (tcp_payload (v_l4 v)) o = true.
Proof.
  intros Hcfg Hf Hvt Hd Hmem Hpres Hr.
  destruct (frame_tcp_C16_current_state cfg clk tb f tb' r evs v Hcfg Hf Hvt Hd Hmem Hpres Hr) as (o & Ho & Hok).
  exists o. split; [exact Ho|].
  destruct (view_tcp_view _ _ _ Hvt) as [Hview _].
  exact (app_ok_C16_ref_of_frame false true _ _ _ (frame_ctx_of true cfg f v Hf Hview) Hok).
Qed.

(* ---------------------------------------------------------------------- *)
(* (c) closed evaluations                                                   *)
(* ---------------------------------------------------------------------- *)
(* contacted endpoint ::1 port 111 *)
Definition r_ctx61 (tcp : bool) : app_ctx :=
  {| a_v4 := false; a_tcp := tcp; a_src := x_o2; a_dst := x_o1; a_sport := 40000; a_dport := 111 |}.
Definition r_reply (x : N) (b : accept_body) : bytes :=
  enc_reply {| rp_xid := x; rp_verf_flavor := 0; rp_verf := []; rp_body := b |}.
Definition r_marked (r : bytes) : bytes := record_mark (lenN r) ++ r.
Definition r_xid : N := 2712847316.
Definition r_ua_upper : bytes :=      (* "2001:DB8::1.255.255" *)
  [50; 48; 48; 49; 58; 68; 66; 56; 58; 58; 49; 46; 50; 53; 53; 46; 50; 53; 53].
Definition r_tcp6 : bytes := [116; 99; 112; 54].
Definition r_tcp : bytes := [116; 99; 112].
Definition r_dump (ni : bytes) (a2 a3 a4 : bytes) : accept_body :=
  AccSuccess (ResDump3 [(100000, 2, ni, a2, OWNER); (100000, 3, ni, a3, OWNER); (100000, 4, ni, a4, OWNER)]).
Definition r_ua4 : bytes := [49; 48; 46; 48; 46; 48; 46; 49; 46; 48; 46; 49; 49; 49].   (* "10.0.0.1.0.111" *)
Definition r_ua4_other : bytes := [49; 48; 46; 48; 46; 48; 46; 50; 46; 48; 46; 49; 49; 49].   (* "10.0.0.2.0.111" *)

(* GETADDR (rpcbind v4): correct address in another spelling accepted by the new monitor (and
   not by the old one); wrong address, wrong port, wrong XID, non-empty verifier, GETPORT-style
   result rejected *)
Example ex_ref_getaddr :
  (* "::1.0.111": the printer's spelling, both monitors *)
  app_ok_C16_ref_strict (r_ctx61 false) (ser_call x_getaddr) (Some (r_reply r_xid (AccSuccess (ResUaddr x_ua_1_111)))) = true /\
  app_ok_C16_strict (r_ctx61 false) (ser_call x_getaddr) (Some (r_reply r_xid (AccSuccess (ResUaddr x_ua_1_111)))) = true /\
  (* "0:0:0:0:0:0:0:1.0.111" *)
  app_ok_C16_ref_strict (r_ctx61 false) (ser_call x_getaddr) (Some (r_reply r_xid (AccSuccess (ResUaddr x_ua_1_111_long)))) = true /\
  app_ok_C16_strict (r_ctx61 false) (ser_call x_getaddr) (Some (r_reply r_xid (AccSuccess (ResUaddr x_ua_1_111_long)))) = false /\
  (* "2001:DB8::1.255.255" for 2001:db8::1 port 65535, over TCP behind a record mark *)
  app_ok_C16_ref_strict (x_ctx6 true) (ser_call_tcp x_getaddr)
    (Some (r_marked (r_reply r_xid (AccSuccess (ResUaddr r_ua_upper))))) = true /\
  (* ... and without the record mark *)
  app_ok_C16_ref_strict (x_ctx6 true) (ser_call_tcp x_getaddr) (Some (r_reply r_xid (AccSuccess (ResUaddr r_ua_upper)))) = false /\
  (* wrong address "2001:db8::1.0.111", wrong port "::1.8.1", IPv4 form, leading zero *)
  app_ok_C16_ref_strict (r_ctx61 false) (ser_call x_getaddr) (Some (r_reply r_xid (AccSuccess (ResUaddr x_ua_2_111)))) = false /\
  app_ok_C16_ref_strict (r_ctx61 false) (ser_call x_getaddr) (Some (r_reply r_xid (AccSuccess (ResUaddr x_ua_1_2049)))) = false /\
  app_ok_C16_ref_strict (r_ctx61 false) (ser_call x_getaddr) (Some (r_reply r_xid (AccSuccess (ResUaddr x_ua4)))) = false /\
  app_ok_C16_ref_strict (r_ctx61 false) (ser_call x_getaddr) (Some (r_reply r_xid (AccSuccess (ResUaddr x_ua_lead0)))) = false /\
  (* wrong XID, a verifier that is not AUTH_NONE / empty, another accept_stat, no reply *)
  app_ok_C16_ref_strict (r_ctx61 false) (ser_call x_getaddr) (Some (r_reply (r_xid + 1) (AccSuccess (ResUaddr x_ua_1_111)))) = false /\
  app_ok_C16_ref_strict (r_ctx61 false) (ser_call x_getaddr)
    (Some (enc_reply {| rp_xid := r_xid; rp_verf_flavor := 1; rp_verf := []; rp_body := AccSuccess (ResUaddr x_ua_1_111) |})) = false /\
  app_ok_C16_ref_strict (r_ctx61 false) (ser_call x_getaddr)
    (Some (enc_reply {| rp_xid := r_xid; rp_verf_flavor := 0; rp_verf := [1; 2; 3; 4]; rp_body := AccSuccess (ResUaddr x_ua_1_111) |})) = false /\
  app_ok_C16_ref_strict (r_ctx61 false) (ser_call x_getaddr) (Some (r_reply r_xid AccProcUnavail)) = false /\
  app_ok_C16_ref_strict (r_ctx61 false) (ser_call x_getaddr) None = false.
Proof. vm_compute. repeat split; reflexivity. Qed.

(* DUMP (rpcbind v3): three entries; each address may be spelled differently; wrong netid,
   two / four entries, wrong order of versions, wrong owner, one wrong address rejected *)
Example ex_ref_dump :
  app_ok_C16_ref_strict (x_ctx4 false) (ser_call x_dump) (Some (r_reply r_xid (r_dump r_tcp r_ua4 r_ua4 r_ua4))) = true /\
  app_ok_C16_ref_strict (r_ctx61 false) (ser_call x_dump)
    (Some (r_reply r_xid (r_dump r_tcp6 x_ua_1_111 x_ua_1_111_long x_ua_1_111))) = true /\
  app_ok_C16_strict (r_ctx61 false) (ser_call x_dump)
    (Some (r_reply r_xid (r_dump r_tcp6 x_ua_1_111 x_ua_1_111_long x_ua_1_111))) = false /\
  (* netid "tcp6" over IPv4, "tcp" over IPv6 *)
  app_ok_C16_ref_strict (x_ctx4 false) (ser_call x_dump) (Some (r_reply r_xid (r_dump r_tcp6 r_ua4 r_ua4 r_ua4))) = false /\
  app_ok_C16_ref_strict (r_ctx61 false) (ser_call x_dump)
    (Some (r_reply r_xid (r_dump r_tcp x_ua_1_111 x_ua_1_111 x_ua_1_111))) = false /\
  (* one wrong address; the address of an entry with another port *)
  app_ok_C16_ref_strict (x_ctx4 false) (ser_call x_dump) (Some (r_reply r_xid (r_dump r_tcp r_ua4 r_ua4_other r_ua4))) = false /\
  app_ok_C16_ref_strict (r_ctx61 false) (ser_call x_dump)
    (Some (r_reply r_xid (r_dump r_tcp6 x_ua_1_111 x_ua_1_111 x_ua_1_2049))) = false /\
  (* two entries, four entries, none *)
  app_ok_C16_ref_strict (x_ctx4 false) (ser_call x_dump)
    (Some (r_reply r_xid (AccSuccess (ResDump3 [(100000, 2, r_tcp, r_ua4, OWNER); (100000, 3, r_tcp, r_ua4, OWNER)])))) = false /\
  app_ok_C16_ref_strict (x_ctx4 false) (ser_call x_dump)
    (Some (r_reply r_xid (AccSuccess (ResDump3 [(100000, 2, r_tcp, r_ua4, OWNER); (100000, 3, r_tcp, r_ua4, OWNER);
                                                (100000, 4, r_tcp, r_ua4, OWNER); (100000, 4, r_tcp, r_ua4, OWNER)])))) = false /\
  app_ok_C16_ref_strict (x_ctx4 false) (ser_call x_dump) (Some (r_reply r_xid (AccSuccess (ResDump3 [])))) = false /\
  (* versions 4, 3, 2; another program number; another owner *)
  app_ok_C16_ref_strict (x_ctx4 false) (ser_call x_dump)
    (Some (r_reply r_xid (AccSuccess (ResDump3 [(100000, 4, r_tcp, r_ua4, OWNER); (100000, 3, r_tcp, r_ua4, OWNER);
                                                (100000, 2, r_tcp, r_ua4, OWNER)])))) = false /\
  app_ok_C16_ref_strict (x_ctx4 false) (ser_call x_dump)
    (Some (r_reply r_xid (AccSuccess (ResDump3 [(100000, 2, r_tcp, r_ua4, OWNER); (100003, 3, r_tcp, r_ua4, OWNER);
                                                (100000, 4, r_tcp, r_ua4, OWNER)])))) = false /\
  app_ok_C16_ref_strict (x_ctx4 false) (ser_call x_dump)
    (Some (r_reply r_xid (AccSuccess (ResDump3 [(100000, 2, r_tcp, r_ua4, OWNER); (100000, 3, r_tcp, r_ua4, [114; 111; 111; 116]);
                                                (100000, 4, r_tcp, r_ua4, OWNER)])))) = false.
Proof. vm_compute. repeat split; reflexivity. Qed.

(* the parts that do not involve an address are compared exactly: GETPORT, v2 DUMP *)
Example ex_ref_exact_parts :
  app_ok_C16_ref_strict (x_ctx4 false) (ser_call x_getport) (Some (r_reply r_xid (AccSuccess (ResPort 111)))) = true /\
  app_ok_C16_ref_strict (x_ctx4 false) (ser_call x_getport) (Some (r_reply r_xid (AccSuccess (ResPort 112)))) = false /\
  app_ok_C16_ref_strict (x_ctx6 true) (ser_call_tcp x_dump2)
    (Some (r_marked (r_reply r_xid (AccSuccess (ResDump2 [(100000, 2, 6, 65535); (100000, 3, 6, 65535); (100000, 4, 6, 65535)]))))) = true /\
  app_ok_C16_ref_strict (x_ctx6 true) (ser_call_tcp x_dump2)
    (Some (r_marked (r_reply r_xid (AccSuccess (ResDump2 [(100000, 2, 6, 65535); (100000, 3, 6, 65535)]))))) = false /\
  app_ok_C16_ref_strict (x_ctx6 true) (ser_call_tcp x_dump2)
    (Some (r_marked (r_reply r_xid (AccSuccess (ResDump2 [(100000, 2, 17, 65535); (100000, 3, 6, 65535); (100000, 4, 6, 65535)]))))) = false /\
  app_ok_C16_ref_strict (x_ctx4 false) (ser_call x_vers7) (Some (r_reply r_xid (AccProgMismatch 2 4))) = true /\
  app_ok_C16_ref_strict (x_ctx4 false) (ser_call x_vers7) (Some (r_reply r_xid (AccProgMismatch 2 3))) = false /\
  app_ok_C16_ref_strict (x_ctx4 false) (ser_call x_other) (Some (r_reply r_xid AccProgUnavail)) = true /\
  app_ok_C16_ref_strict (x_ctx4 false) (ser_call x_other) (Some (r_reply r_xid AccSystemErr)) = false.
Proof. vm_compute. repeat split; reflexivity. Qed.

(* the model's output on the current tables satisfies the new monitors (non-vacuity of the
   proto-level theorems: identified, well-formed contexts), and the known class is unchanged *)
Example ex_ref_model :
  ctx_wf (x_ctx4 false) = true /\ ctx_wf (x_ctx6 true) = true /\ ctx_wf (r_ctx61 false) = true /\
  udp_id the_env (ser_call x_dump) = Some PROTO_RPC_UDP /\
  app_ok_C16_ref_strict (x_ctx4 false) (ser_call x_dump) (udp_out (x_ctx4 false) (ser_call x_dump)) = true /\
  app_ok_C16_ref_strict (r_ctx61 false) (ser_call x_dump) (udp_out (r_ctx61 false) (ser_call x_dump)) = true /\
  tcp_first_id the_env (ser_call_tcp x_getaddr) = Some PROTO_RPC_TCP /\
  app_ok_C16_ref_strict (x_ctx6 true) (ser_call_tcp x_getaddr) (tcp_out (x_ctx6 true) (ser_call_tcp x_getaddr)) = true /\
  app_ok_C16_ref_strict (x_ctx4 false) (ser_call x_shadow_udp) None = false /\
  app_ok_C16_ref (x_ctx4 false) (ser_call x_shadow_udp) None = true /\
  app_ok_C16_ref_strict (x_ctx4 true) (ser_call_tcp x_shadow_tcp) None = false /\
  app_ok_C16_ref (x_ctx4 true) (ser_call_tcp x_shadow_tcp) None = true.
Proof. vm_compute. repeat split; reflexivity. Qed.

(* [ctx_ok] (at most 16 octets) does not suffice for the implication: a 3-octet "IPv4"
   address is printed as "10.0.1.0.111", which the old monitor accepts and no reader does.
   Such a context is produced by no frame ([frame_ctx_ok]). *)
Definition r_ctx_bad : app_ctx :=
  {| a_v4 := true; a_tcp := false; a_src := [10; 0; 0; 9]; a_dst := [10; 0; 1]; a_sport := 40000; a_dport := 111 |}.
Example ex_ref_needs_wf :
  exists ctx p o, ctx_ok ctx /\ ctx_wf ctx = false /\
    app_ok_C16_gen true ctx p o = true /\ app_ok_C16_ref_gen true ctx p o = false.
Proof.
  exists r_ctx_bad, (ser_call x_getaddr), (Some (enc_reply (expected_reply r_ctx_bad x_getaddr))).
  split; [split; [cbn; lia | reflexivity]|]. vm_compute. repeat split; reflexivity.
Qed.

(* frame level, on the current tables: GETPORT over UDP / IPv4 and GETADDR (rpcbind v4) over
   TCP / IPv6, replies produced by [reply the_env]; no reply is rejected *)
Example ex_ref_frames :
  cfg_ok fx_cfg = true /\ bytes_ok c16_udp_frame = true /\ bytes_ok c16_tcp_frame = true /\
  ok_C16_udp_ref_strict fx_cfg c16_udp_frame c16_udp_reply = true /\
  ok_C16_udp_ref fx_cfg c16_udp_frame c16_udp_reply = true /\
  ok_C16_udp_ref fx_cfg c16_udp_frame None = false /\
  ok_C16_tcp_ref_strict fx_cfg [] c16_tcp_frame c16_tcp_reply = true /\
  ok_C16_tcp_ref fx_cfg [] c16_tcp_frame c16_tcp_reply = true /\
  ok_C16_tcp_ref fx_cfg [] c16_tcp_frame None = false.
Proof. vm_compute. repeat split; reflexivity. Qed.

(* the headline cases, as quoted in Properties/C16ref.v *)
Example ex_ref_getaddr_short :
  app_ok_C16_ref_strict (r_ctx61 false) (ser_call x_getaddr) (Some (r_reply r_xid (AccSuccess (ResUaddr x_ua_1_111_long)))) = true /\
  app_ok_C16_strict (r_ctx61 false) (ser_call x_getaddr) (Some (r_reply r_xid (AccSuccess (ResUaddr x_ua_1_111_long)))) = false /\
  app_ok_C16_ref_strict (x_ctx6 true) (ser_call_tcp x_getaddr)
    (Some (r_marked (r_reply r_xid (AccSuccess (ResUaddr r_ua_upper))))) = true /\
  app_ok_C16_ref_strict (r_ctx61 false) (ser_call x_getaddr) (Some (r_reply r_xid (AccSuccess (ResUaddr x_ua_2_111)))) = false /\
  app_ok_C16_ref_strict (r_ctx61 false) (ser_call x_getaddr) (Some (r_reply r_xid (AccSuccess (ResUaddr x_ua_1_2049)))) = false.
Proof. vm_compute. repeat split; reflexivity. Qed.
Example ex_ref_dump_short :
  app_ok_C16_ref_strict (r_ctx61 false) (ser_call x_dump)
    (Some (r_reply r_xid (r_dump r_tcp6 x_ua_1_111 x_ua_1_111_long x_ua_1_111))) = true /\
  app_ok_C16_ref_strict (x_ctx4 false) (ser_call x_dump) (Some (r_reply r_xid (r_dump r_tcp6 r_ua4 r_ua4 r_ua4))) = false /\
  app_ok_C16_ref_strict (x_ctx4 false) (ser_call x_dump) (Some (r_reply r_xid (r_dump r_tcp r_ua4 r_ua4_other r_ua4))) = false /\
  app_ok_C16_ref_strict (x_ctx4 false) (ser_call x_dump)
    (Some (r_reply r_xid (AccSuccess (ResDump3 [(100000, 2, r_tcp, r_ua4, OWNER); (100000, 3, r_tcp, r_ua4, OWNER)])))) = false.
Proof. vm_compute. repeat split; reflexivity. Qed.
