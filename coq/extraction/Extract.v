(* Extract.v -- extraction of the executable model to OCaml (ExtrOcamlBasic only:
   bool/option/unit/list/prod/sumbool mapped to OCaml's; N, positive and nat stay
   Coq inductives). *)
From Coq Require Import Extraction ExtrOcamlBasic.
From MS Require Import L2 Spec.C02 Spec.C03 Spec.C04 Spec.C05 Spec.C06 Spec.C07 Spec.C09 Spec.C08 Spec.C12 Spec.C13 Spec.C18 Spec.C20 Spec.C16 Spec.C14 Spec.C15 Spec.C10Known Spec.C17 Spec.C12x Spec.C14ref Spec.C16ref Spec.Later.
Extraction "model.ml" reply siphash24 cookie search_next search_next_end smack_ok
  ok_C02 ok_C03 ok_C04 ok_C05 ok_C06 ok_C07 ref_step ref_keys dedup length
  own_data_of_frame collides_with_frame ok_C12
  ok_C13_udp ok_C13_tcp
  ok_C18_udp ok_C18_tcp ssh_ref ghost_wf zlib_inflate
  ok_C20 render_console render_logfmt
  ok_C16_udp ok_C16_tcp ok_C16_udp_strict ok_C16_tcp_strict c16_class_frame
  ok_C14_udp c14_positive_frame c14_negative_frame
  ok_C15_udp ok_C15_tcp ok_C15_udp_strict ok_C15_tcp_strict c15_class_frame
  ref_udp ref_tcp ref_udp_decl ref_tcp_decl K0 c10_class_payload c10_class_payload_coarse product_ok product_ok_lax
  product_states disagreements_k known_covers k0_needed
  ok_C17_udp ok_C17_tcp
  ok_C12x ok_C12x_tcp ok_C12id_udp ok_C12id_tcp
  ok_C14_udp_ref ok_C14_udp_ref_strict c14_c10_class_frame c14_positive_frame_ref c14_negative_frame_ref
  ok_C16_udp_ref ok_C16_tcp_ref ok_C16_udp_ref_strict ok_C16_tcp_ref_strict
  ok_C15_tcp_later ok_C18_tcp_later_ssh ok_C18_tcp_later_ghost.
