(* Proofs/C11uHttp.v -- the uniform form of the HTTP segmentation theorem:
   tcp_stream E clk ci tcb_new segs = Ok (http_stream_ref E clk segs) for ANY list of segments
   of a stream identified as HTTP. *)
From Coq Require Import Lia.
From MS Require Import Proofs.Tactics Smack Http Proto Spec.C10 Spec.AppView Spec.C11 Spec.EnvOk Spec.C11http Spec.C11u
     Proofs.SmackSeg Proofs.C10Sound Proofs.PendingBound Proofs.HttpLemmas Proofs.HttpFold Proofs.C11 Proofs.C11uQuiet.

Lemma http_401_resp E clk : http_401 E clk = http_resp_of E clk.
Proof. reflexivity. Qed.

Section Uniform.
  Variable E : env.
  Variable clk : clock.
  Hypothesis Hok : smack_ok (e_http_tbl E) = true.
  Hypothesis Htbl : http_tbl_ok (e_http_tbl E) = true.
  Let tbl := e_http_tbl E.

  (* a flow identified as HTTP: the responder, fed with the segments, is the reference
     reading, whenever its state is similar to the per-byte state after the bytes received
     since the last answer *)
  Lemma http_outs_ref : forall segs acc h f,
    http_fold tbl http_new acc = Ok f -> http_sim tbl h f ->
    http_st_ok tbl h -> http_st_ok tbl f -> bytes_ok (concat segs) = true ->
    http_outs E clk h segs = Ok (http_stream_ref_at E clk acc segs).
  Proof.
    induction segs as [|d rest IH]; intros acc h f Hf Hsim Oh Of Hb; [reflexivity|].
    destruct (bytes_ok_concat_cons d rest Hb) as [Hd Hr].
    destruct (parse_sim_cong tbl Hok Htbl d h f Hsim Oh Of Hd) as (s' & q' & P & Q & S' & Os' & Oq').
    destruct (parse_sim_fold tbl Hok Htbl d f Of Hd) as (s1 & s2 & P1 & F2 & S12 & _ & O2).
    rewrite Q in P1. injection P1 as <-.
    assert (Hfold : http_fold tbl http_new (acc ++ d) = Ok s2) by (rewrite (fold_app tbl acc d http_new f Hf); exact F2).
    assert (Hs : http_sim tbl s' s2) by (eapply sim_trans; eassumption).
    cbn [http_outs http_stream_ref_at]. unfold http_repl. fold tbl. rewrite P. cbn [bind].
    unfold http_answered. fold tbl. rewrite Hfold. rewrite <- (sim_answers tbl s' s2 Hs). unfold http_answers.
    destruct (h_state s' =? HTTP_CONTENT); cbn [bind fst snd].
    - rewrite (IH [] http_new http_new eq_refl (sim_refl tbl http_new) (new_st_ok tbl Htbl) (new_st_ok tbl Htbl) Hr).
      reflexivity.
    - rewrite (IH (acc ++ d) s' s2 Hfold Hs Os' O2 Hr). reflexivity.
  Qed.

  Corollary http_outs_new_ref segs : bytes_ok (concat segs) = true ->
    http_outs E clk http_new segs = Ok (http_stream_ref E clk segs).
  Proof.
    intros Hb. apply (http_outs_ref segs [] http_new http_new eq_refl (sim_refl tbl http_new)
                                    (new_st_ok tbl Htbl) (new_st_ok tbl Htbl) Hb).
  Qed.

  (* on the reference side: the segments that end within the first HTTP_QUIET - 1 bytes get
     no payload *)
  Lemma http_stream_ref_skip d rest : forall pre acc,
    (length (acc ++ concat pre) < HTTP_QUIET)%nat ->
    http_stream_ref_at E clk acc (pre ++ d :: rest) =
    quiet (length pre) ++ http_stream_ref_at E clk (acc ++ concat pre) (d :: rest).
  Proof.
    unfold quiet. induction pre as [|x pre IH]; intros acc Hl; cbn [concat app length repeat] in *.
    - rewrite app_nil_r. reflexivity.
    - cbn [http_stream_ref_at].
      rewrite (http_quiet_short (e_http_tbl E) (acc ++ x)) by (rewrite !app_length in *; lia).
      rewrite (IH (acc ++ x)) by (rewrite <- app_assoc; exact Hl). rewrite <- app_assoc. reflexivity.
  Qed.
End Uniform.

(* the unidentified prefix of an HTTP stream is shorter than any answered request *)
Lemma http_uniform_ok_eq E : http_uniform_ok E = sig_bound_ok (e_proto_tbl E) PROTO_HTTP HTTP_QUIET.
Proof. reflexivity. Qed.

Lemma http_ident_early E p a :
  proto_tbl_ok E = true -> http_uniform_ok E = true -> bytes_ok (p ++ a) = true ->
  tcp_first_id E p = None -> tcp_first_id E (p ++ a) = Some PROTO_HTTP -> (length p < HTTP_QUIET)%nat.
Proof.
  intros Ht Hu Hb Hn Hs. destruct (proto_tbl_ok_parts E Ht) as (Hok & Hsz & H0 & H1 & _).
  rewrite http_uniform_ok_eq in Hu.
  pose proof (sig_within (e_proto_tbl E) PROTO_HTTP HTTP_QUIET Hok Hsz H0 H1 Hu p a Hb) as X.
  apply X; [exact Hn|exact Hs].
Qed.

Theorem http_stream_uniform E clk ci segs :
  proto_tbl_ok E = true -> http_uniform_ok E = true ->
  smack_ok (e_http_tbl E) = true -> http_tbl_ok (e_http_tbl E) = true ->
  bytes_ok (concat segs) = true -> tcp_first_id E (concat segs) = Some PROTO_HTTP ->
  tcp_stream E clk ci tcb_new segs = Ok (http_stream_ref E clk segs).
Proof.
  intros Ht Hu Hhok Hhtbl Hb Hs.
  destruct (http_stream_any E clk ci segs Ht Hb Hs) as (pre & d & rest & -> & Hn & Hsd & _ & Hst).
  rewrite Hst. rewrite concat_join in Hb.
  rewrite (http_outs_new_ref E clk Hhok Hhtbl _ Hb). cbn [bind]. f_equal.
  assert (Hq : (length (concat pre) < HTTP_QUIET)%nat).
  { apply (http_ident_early E (concat pre) d Ht Hu); try assumption.
    cbn [concat] in Hb. rewrite bytes_ok_app in Hb. apply andb_true_iff in Hb. exact (proj1 Hb). }
  unfold http_stream_ref. rewrite (http_stream_ref_skip E clk d rest pre []) by (cbn [app]; exact Hq).
  reflexivity.
Qed.

Theorem http_stream_uniform_env E clk ci segs :
  env_ok E = true -> proto_tbl_ok E = true -> http_uniform_ok E = true ->
  bytes_ok (concat segs) = true -> tcp_first_id E (concat segs) = Some PROTO_HTTP ->
  tcp_stream E clk ci tcb_new segs = Ok (http_stream_ref E clk segs).
Proof.
  intros HE. assert (H := HE). unfold env_ok in H.
  repeat (apply andb_true_iff in H; destruct H as [H ?]).
  intros; apply http_stream_uniform; assumption.
Qed.
