(* Proofs/HttpFold.v -- the HTTP parser is a per-byte fold (up to [http_sim]),
   hence independent of how the stream is cut into segments (C11, HTTP half). *)
From Coq Require Import Lia.
From MS Require Import Http Spec.HttpTbl Spec.C11http Proofs.Tactics Proofs.SmackSeg Proofs.HttpLemmas.

Lemma http_tbl_ok_parts (t : smack) : http_tbl_ok t = true ->
  sm_rows t <= TWO24 /\ BASE_STATE < sm_match_limit t /\ sm_match_limit t <= sm_rows t /\
  In UNANCHORED_STATE (dead_rows t) /\ dead_ok t (dead_rows t) = true /\
  existsb null HTTP_VERBS = false /\
  verb_walk 8 t (dead_rows t) BASE_STATE HTTP_VERBS = true.
Proof.
  unfold http_tbl_ok. cbv zeta. rewrite !andb_true_iff, negb_true_iff, memN_In.
  rewrite N.leb_le, N.ltb_lt, N.leb_le. tauto.
Qed.

Lemma dead_ok_row (t : smack) (D : list N) (r : N) :
  dead_ok t D = true -> In r D ->
  r < sm_rows t /\ verb_row t r = false /\ forall b, b < 256 -> In (sm_stepb t r b) D.
Proof.
  intros H Hr. unfold dead_ok in H. rewrite forallb_forall in H. specialize (H r Hr).
  rewrite !andb_true_iff, negb_true_iff, N.ltb_lt in H. destruct H as [[H1 H2] H3].
  repeat split; auto. intros b Hb. rewrite forallb_forall in H3. apply memN_In. apply H3.
  apply all_bytes_In. exact Hb.
Qed.

Lemma http_byte_smack s b : h_smack (http_byte s b) = h_smack s.
Proof.
  unfold http_byte.
  repeat match goal with
         | |- context [if ?c then _ else _] => destruct c
         end; reflexivity.
Qed.
Lemma run_smack s d : h_smack (run s d) = h_smack s.
Proof.
  revert s. induction d as [|b d IH]; intros s; [reflexivity|].
  rewrite run_cons, IH. apply http_byte_smack.
Qed.

Lemma sim_refl tbl s : http_sim tbl s s.
Proof. left. reflexivity. Qed.
Lemma sim_sym tbl s1 s2 : http_sim tbl s1 s2 -> http_sim tbl s2 s1.
Proof. intros [->|[H1 H2]]; [left; reflexivity | right; split; assumption]. Qed.
Lemma sim_trans tbl s1 s2 s3 : http_sim tbl s1 s2 -> http_sim tbl s2 s3 -> http_sim tbl s1 s3.
Proof.
  intros [->|[H1 H2]] [->|[H3 H4]]; try (left; reflexivity); right; split; assumption.
Qed.

Lemma dead_not_answers tbl s : http_dead tbl s = true -> http_answers s = false.
Proof.
  unfold http_dead, http_answers. rewrite orb_true_iff, andb_true_iff, !N.eqb_eq.
  intros [H | [H _]]; rewrite H; reflexivity.
Qed.
Lemma sim_answers tbl s1 s2 : http_sim tbl s1 s2 -> http_answers s1 = http_answers s2.
Proof.
  intros [->|[H1 H2]]; [reflexivity|]. rewrite (dead_not_answers _ _ H1), (dead_not_answers _ _ H2). reflexivity.
Qed.
Lemma sim_answers_eq tbl s1 s2 : http_sim tbl s1 s2 -> http_answers s1 = true -> s1 = s2.
Proof.
  intros [->|[H1 H2]] Ha; [reflexivity|]. rewrite (dead_not_answers _ _ H1) in Ha. discriminate.
Qed.

Section Fold.
  Variable tbl : smack.
  Hypothesis Hok : smack_ok tbl = true.
  Hypothesis Htbl : http_tbl_ok tbl = true.

  Let Hsz : sm_rows tbl <= TWO24 := proj1 (http_tbl_ok_parts tbl Htbl).
  Let D := dead_rows tbl.

  Lemma unanchored_dead : In UNANCHORED_STATE D.
  Proof. exact (proj1 (proj2 (proj2 (proj2 (http_tbl_ok_parts tbl Htbl))))). Qed.
  Lemma D_ok : dead_ok tbl D = true.
  Proof. exact (proj1 (proj2 (proj2 (proj2 (proj2 (http_tbl_ok_parts tbl Htbl)))))). Qed.

  Lemma dead_verb_intro s : h_state s = HTTP_VERB -> In (h_smack s) D -> http_dead tbl s = true.
  Proof.
    intros H1 H2. unfold http_dead. rewrite H1. change (HTTP_VERB =? HTTP_FAIL) with false.
    change (HTTP_VERB =? HTTP_VERB) with true. cbn [orb andb]. apply memN_In. exact H2.
  Qed.
  Lemma dead_fail_intro s : h_state s = HTTP_FAIL -> http_dead tbl s = true.
  Proof. intros H. unfold http_dead. rewrite H. reflexivity. Qed.

  Lemma dead_cases s : http_dead tbl s = true ->
    h_state s = HTTP_FAIL \/ (h_state s = HTTP_VERB /\ In (h_smack s) D).
  Proof.
    unfold http_dead. rewrite orb_true_iff, andb_true_iff, !N.eqb_eq, memN_In. tauto.
  Qed.

  (* ---- a dead state stays dead, never panics ---- *)
  Lemma dead_verb_parse : forall d s,
    h_state s = HTTP_VERB -> In (h_smack s) D -> bytes_ok d = true ->
    exists s', http_parse tbl s d = Ok s' /\ http_dead tbl s' = true /\ http_st_ok tbl s'.
  Proof.
    induction d as [|b r IH]; intros s Hs Hin Hb.
    - exists s. split; [reflexivity|]. split; [apply dead_verb_intro; assumption|].
      exact (proj1 (dead_ok_row tbl D _ D_ok Hin)).
    - destruct (bytes_ok_cons _ _ Hb) as [Hb1 Hb2].
      destruct (dead_ok_row tbl D _ D_ok Hin) as (Hrow & _ & Hstep).
      specialize (Hstep b Hb1). set (row' := sm_stepb tbl (h_smack s) b) in *.
      destruct (dead_ok_row tbl D _ D_ok Hstep) as (Hrow' & Hnv & _).
      destruct (N.lt_ge_cases row' (sm_match_limit tbl)) as [Hlo | Hhi].
      + destruct r as [|c r'].
        * rewrite (http_parse_verb_last tbl Hok Hsz s b Hs Hrow Hlo). fold row'.
          eexists. split; [reflexivity|].
          destruct (row' =? UNANCHORED_STATE).
          -- split; [apply dead_fail_intro; reflexivity | exact Hrow'].
          -- split; [apply dead_verb_intro; [reflexivity | exact Hstep] | exact Hrow'].
        * rewrite (http_parse_verb_more tbl Hok Hsz s b (c :: r') Hs Hrow) by (try discriminate; exact Hlo).
          apply IH; [reflexivity | exact Hstep | exact Hb2].
      + destruct (sm_ids_cases tbl row' Hok Hrow') as [_ Hids]. destruct (Hids Hhi) as (i & Hi).
        rewrite (http_parse_verb_match tbl Hok Hsz s b r i Hs Hrow Hhi Hi). fold row'.
        assert (Hi0 : (i =? 0) = false).
        { unfold verb_row in Hnv. rewrite Hi in Hnv. cbn [existsb] in Hnv. rewrite orb_false_r in Hnv.
          unfold VERB_ID in Hnv. rewrite N.eqb_sym. exact Hnv. }
        rewrite Hi0. apply IH; [reflexivity | exact Hstep | exact Hb2].
  Qed.

  Lemma dead_parse d s :
    http_dead tbl s = true -> http_st_ok tbl s -> bytes_ok d = true ->
    exists s', http_parse tbl s d = Ok s' /\ http_dead tbl s' = true /\ http_st_ok tbl s'.
  Proof.
    intros Hd Hst Hb. destruct (dead_cases s Hd) as [Hf | [Hv Hin]].
    - exists s. rewrite http_parse_post by (split; rewrite Hf; discriminate).
      rewrite run_fail by exact Hf. auto.
    - apply dead_verb_parse; assumption.
  Qed.

  Lemma dead_fold : forall d s,
    http_dead tbl s = true -> http_st_ok tbl s -> bytes_ok d = true ->
    exists s', http_fold tbl s d = Ok s' /\ http_dead tbl s' = true /\ http_st_ok tbl s'.
  Proof.
    induction d as [|b r IH]; intros s Hd Hst Hb.
    - exists s. auto.
    - destruct (bytes_ok_cons _ _ Hb) as [Hb1 Hb2].
      assert (Hb' : bytes_ok [b] = true) by (unfold bytes_ok, byte_ok; cbn [forallb]; rewrite andb_true_r; lia).
      destruct (dead_parse [b] s Hd Hst Hb') as (s1 & H1 & Hd1 & Hst1).
      cbn [http_fold]. unfold http_step. rewrite H1. cbn [bind]. apply IH; assumption.
  Qed.

  (* ---- whole-buffer parse versus byte-at-a-time parse ---- *)
  Definition sim_res (s : http_st) (d : bytes) : Prop :=
    exists s1 s2, http_parse tbl s d = Ok s1 /\ http_fold tbl s d = Ok s2 /\
                  http_sim tbl s1 s2 /\ http_st_ok tbl s1 /\ http_st_ok tbl s2.

  Lemma fold_cons_ok s b r s1 : http_parse tbl s [b] = Ok s1 -> http_fold tbl s (b :: r) = http_fold tbl s1 r.
  Proof. intros H. cbn [http_fold]. unfold http_step. rewrite H. reflexivity. Qed.

  Lemma verb_case b r :
    (forall s, http_st_ok tbl s -> sim_res s r) ->
    bytes_ok (b :: r) = true ->
    forall s, h_state s = HTTP_VERB -> http_st_ok tbl s -> sim_res s (b :: r).
  Proof.
    intros IH Hb s Hs Hst. destruct (bytes_ok_cons _ _ Hb) as [Hb1 Hb2].
    set (row' := sm_stepb tbl (h_smack s) b).
    assert (Hrow' : row' < sm_rows tbl) by (apply sm_next_lt; assumption).
    destruct (N.lt_ge_cases row' (sm_match_limit tbl)) as [Hlo | Hhi].
    - pose proof (http_parse_verb_last tbl Hok Hsz s b Hs Hst Hlo) as H1. fold row' in H1.
      destruct r as [|c r'].
      + eexists _, _. split; [exact H1|]. split; [rewrite (fold_cons_ok _ _ _ _ H1); reflexivity|].
        split; [apply sim_refl|]. split; destruct (row' =? UNANCHORED_STATE); exact Hrow'.
      + unfold sim_res. rewrite (fold_cons_ok _ _ _ _ H1).
        rewrite (http_parse_verb_more tbl Hok Hsz s b (c :: r') Hs Hst) by (try discriminate; exact Hlo).
        fold row'. destruct (row' =? UNANCHORED_STATE) eqn:Eu.
        * apply N.eqb_eq in Eu.
          destruct (dead_verb_parse (c :: r') (verb_adv s b row')) as (s1 & P1 & D1 & O1);
            [reflexivity | cbn [h_smack verb_adv]; rewrite Eu; apply unanchored_dead | exact Hb2 |].
          destruct (dead_fold (c :: r') (set_state (verb_adv s b row') HTTP_FAIL)) as (s2 & P2 & D2 & O2);
            [apply dead_fail_intro; reflexivity | exact Hrow' | exact Hb2 |].
          exists s1, s2. repeat split; auto. right. split; assumption.
        * apply (IH (verb_adv s b row')). exact Hrow'.
    - destruct (sm_ids_cases tbl row' Hok Hrow') as [_ Hids]. destruct (Hids Hhi) as (i & Hi).
      pose proof (http_parse_verb_match tbl Hok Hsz s b [] i Hs Hst Hhi Hi) as H1. fold row' in H1.
      rewrite http_parse_nil in H1.
      unfold sim_res. rewrite (fold_cons_ok _ _ _ _ H1).
      rewrite (http_parse_verb_match tbl Hok Hsz s b r i Hs Hst Hhi Hi). fold row'.
      apply IH. destruct (i =? 0); exact Hrow'.
  Qed.

  Theorem parse_sim_fold : forall d s,
    http_st_ok tbl s -> bytes_ok d = true -> sim_res s d.
  Proof.
    induction d as [|b r IH]; intros s Hst Hb.
    - exists s, s. repeat split; auto. apply sim_refl.
    - destruct (bytes_ok_cons _ _ Hb) as [Hb1 Hb2].
      assert (IH' : forall s, http_st_ok tbl s -> sim_res s r) by (intros; apply IH; assumption).
      destruct (N.eq_dec (h_state s) HTTP_START) as [E0 | E0].
      + (* START: becomes VERB without consuming *)
        unfold sim_res. rewrite (http_parse_start tbl s (b :: r) E0) by discriminate.
        assert (Hf : http_fold tbl s (b :: r) = http_fold tbl (set_state s HTTP_VERB) (b :: r)).
        { cbn [http_fold]. unfold http_step. rewrite (http_parse_start tbl s [b] E0) by discriminate. reflexivity. }
        rewrite Hf. apply (verb_case b r IH' Hb); [reflexivity | exact Hst].
      + destruct (N.eq_dec (h_state s) HTTP_VERB) as [E1 | E1].
        * apply (verb_case b r IH' Hb); assumption.
        * assert (Hp : post_verb s) by (split; assumption).
          assert (Hst' : http_st_ok tbl (http_byte s b)) by (unfold http_st_ok; rewrite http_byte_smack; exact Hst).
          destruct (IH (http_byte s b) Hst' Hb2) as (s1 & s2 & P1 & P2 & Hsim & O1 & O2).
          exists s1, s2. repeat split; auto.
          -- rewrite http_parse_post in * by (try apply http_byte_post; assumption). rewrite run_cons. exact P1.
          -- rewrite (fold_cons_ok s b r (http_byte s b)); [exact P2|].
             rewrite http_parse_post by assumption. reflexivity.
  Qed.

  (* ---- consequences ---- *)
  Lemma fold_app : forall a b s s1,
    http_fold tbl s a = Ok s1 -> http_fold tbl s (a ++ b) = http_fold tbl s1 b.
  Proof.
    induction a as [|x a IH]; intros b s s1 H; cbn [http_fold app] in *.
    - injection H as ->. reflexivity.
    - destruct (http_step tbl s x) as [s'|site]; cbn [bind] in *; [|discriminate]. apply IH. exact H.
  Qed.

  Lemma fold_sim d s s' :
    http_sim tbl s s' -> http_st_ok tbl s -> http_st_ok tbl s' -> bytes_ok d = true ->
    exists r r', http_fold tbl s d = Ok r /\ http_fold tbl s' d = Ok r' /\ http_sim tbl r r' /\
                 http_st_ok tbl r /\ http_st_ok tbl r'.
  Proof.
    intros [<-|[D1 D2]] O1 O2 Hb.
    - destruct (parse_sim_fold d s O1 Hb) as (_ & s2 & _ & P2 & _ & _ & O).
      exists s2, s2. repeat split; auto. apply sim_refl.
    - destruct (dead_fold d s D1 O1 Hb) as (r & P & Dr & Or).
      destruct (dead_fold d s' D2 O2 Hb) as (r' & P' & Dr' & Or').
      exists r, r'. repeat split; auto. right. split; assumption.
  Qed.

  Lemma bytes_ok_app_l a b : bytes_ok (a ++ b) = true -> bytes_ok a = true.
  Proof. rewrite bytes_ok_app, andb_true_iff. tauto. Qed.
  Lemma bytes_ok_app_r a b : bytes_ok (a ++ b) = true -> bytes_ok b = true.
  Proof. rewrite bytes_ok_app, andb_true_iff. tauto. Qed.

  (* any list of segments: the state after the last one is (similar to) the
     byte-at-a-time state after the concatenation *)
  Theorem feed_sim_fold : forall segs s,
    http_st_ok tbl s -> bytes_ok (concat segs) = true ->
    exists s1 s2, http_feed tbl s segs = Ok s1 /\ http_fold tbl s (concat segs) = Ok s2 /\
                  http_sim tbl s1 s2 /\ http_st_ok tbl s1 /\ http_st_ok tbl s2.
  Proof.
    induction segs as [|d segs IH]; intros s Hst Hb.
    - exists s, s. repeat split; auto. apply sim_refl.
    - cbn [concat] in *.
      destruct (parse_sim_fold d s Hst (bytes_ok_app_l _ _ Hb)) as (p1 & f1 & P1 & F1 & S1 & Op1 & Of1).
      destruct (IH p1 Op1 (bytes_ok_app_r _ _ Hb)) as (p2 & f2 & P2 & F2 & S2 & Op2 & Of2).
      destruct (fold_sim (concat segs) p1 f1 S1 Op1 Of1 (bytes_ok_app_r _ _ Hb)) as (r & r' & R & R' & S3 & Or & Or').
      rewrite F2 in R. injection R as <-.
      exists p2, r'. repeat split; auto.
      + cbn [http_feed]. rewrite P1. exact P2.
      + rewrite (fold_app d (concat segs) s f1 F1). exact R'.
      + eapply sim_trans; eassumption.
  Qed.

  Theorem feed_sim_parse segs s :
    http_st_ok tbl s -> bytes_ok (concat segs) = true ->
    exists s1 s2, http_feed tbl s segs = Ok s1 /\ http_parse tbl s (concat segs) = Ok s2 /\
                  http_sim tbl s1 s2 /\ http_answers s1 = http_answers s2 /\
                  (http_answers s2 = true -> s1 = s2).
  Proof.
    intros Hst Hb.
    destruct (feed_sim_fold segs s Hst Hb) as (p & f & P & F & S1 & _ & _).
    destruct (parse_sim_fold (concat segs) s Hst Hb) as (q & f' & Q & F' & S2 & _ & _).
    rewrite F in F'. injection F' as <-.
    assert (S : http_sim tbl p q) by (eapply sim_trans; [exact S1 | apply sim_sym; exact S2]).
    exists p, q. repeat split; auto.
    - apply (sim_answers tbl); exact S.
    - intros Ha. symmetry. apply (sim_answers_eq tbl q p); [apply sim_sym; exact S | exact Ha].
  Qed.

  Theorem parse_app a b s :
    http_st_ok tbl s -> bytes_ok (a ++ b) = true ->
    exists s1 s2 s12, http_parse tbl s a = Ok s1 /\ http_parse tbl s1 b = Ok s2 /\
                      http_parse tbl s (a ++ b) = Ok s12 /\ http_sim tbl s2 s12 /\
                      http_answers s2 = http_answers s12 /\ (http_answers s12 = true -> s2 = s12).
  Proof.
    intros Hst Hb.
    assert (Hb' : bytes_ok (concat [a; b]) = true) by (cbn [concat]; rewrite app_nil_r; exact Hb).
    destruct (feed_sim_parse [a; b] s Hst Hb') as (p & q & P & Q & S & A & E).
    cbn [http_feed concat] in *. rewrite app_nil_r in Q.
    destruct (http_parse tbl s a) as [s1|] eqn:P1; cbn [bind] in P; [|discriminate].
    destruct (http_parse tbl s1 b) as [s2|] eqn:P2; cbn [bind] in P; [|discriminate].
    injection P as Hp. subst p. exists s1, s2, q. repeat split; auto.
  Qed.


  (* similar states are taken to similar states by a parse *)
  Lemma parse_sim_cong d s q :
    http_sim tbl s q -> http_st_ok tbl s -> http_st_ok tbl q -> bytes_ok d = true ->
    exists s' q', http_parse tbl s d = Ok s' /\ http_parse tbl q d = Ok q' /\ http_sim tbl s' q' /\
                  http_st_ok tbl s' /\ http_st_ok tbl q'.
  Proof.
    intros [<-|[D1 D2]] O1 O2 Hb.
    - destruct (parse_sim_fold d s O1 Hb) as (s1 & _ & P & _ & _ & O & _).
      exists s1, s1. repeat split; auto. apply sim_refl.
    - destruct (dead_parse d s D1 O1 Hb) as (s' & P & Ds & Os).
      destruct (dead_parse d q D2 O2 Hb) as (q' & Q & Dq & Oq).
      exists s', q'. repeat split; auto. right. split; assumption.
  Qed.

  Lemma parse_ok_st d s : http_st_ok tbl s -> bytes_ok d = true ->
    exists s', http_parse tbl s d = Ok s' /\ http_st_ok tbl s'.
  Proof. intros O Hb. destruct (parse_sim_fold d s O Hb) as (s1 & _ & P & _ & _ & O1 & _). eauto. Qed.

  (* per segment: the 401 goes out with the k-th segment iff a whole-buffer parse of
     the stream up to the end of that segment, from the initial state, answers *)
  Lemma feed_answers_gen : forall segs acc s0 s q,
    http_st_ok tbl s0 -> http_st_ok tbl s -> http_st_ok tbl q ->
    bytes_ok (acc ++ concat segs) = true ->
    http_parse tbl s0 acc = Ok q -> http_sim tbl s q ->
    exists l, http_feed_answers tbl s segs = Ok l /\
              Forall2 (fun upto a => http_answers_at tbl s0 upto = Ok a) (prefixes_at acc segs) l.
  Proof.
    induction segs as [|d segs IH]; intros acc s0 s q O0 Os Oq Hb Hq Hsim.
    - exists []. split; [reflexivity | constructor].
    - cbn [concat] in Hb. rewrite app_assoc in Hb.
      assert (Hbd : bytes_ok d = true) by (apply bytes_ok_app_l in Hb; apply bytes_ok_app_r in Hb; exact Hb).
      destruct (parse_sim_cong d s q Hsim Os Oq Hbd) as (s' & q' & P & Q & S' & Os' & Oq').
      destruct (parse_app acc d s0 O0 (bytes_ok_app_l _ _ Hb)) as (q1 & q2 & q12 & A1 & A2 & A12 & S12 & _).
      rewrite Hq in A1. injection A1 as <-. rewrite Q in A2. injection A2 as <-.
      assert (O12 : http_st_ok tbl q12).
      { destruct (parse_ok_st (acc ++ d) s0 O0 (bytes_ok_app_l _ _ Hb)) as (x & Hx & Ox). rewrite A12 in Hx.
        injection Hx as <-. exact Ox. }
      assert (Ssq : http_sim tbl s' q12) by (eapply sim_trans; eassumption).
      destruct (IH (acc ++ d) s0 s' q12 O0 Os' O12 Hb A12 Ssq) as (l & F & HF).
      exists (http_answers s' :: l). split.
      + cbn [http_feed_answers]. rewrite P. cbn [bind]. rewrite F. reflexivity.
      + cbn [prefixes_at]. constructor; [|exact HF].
        unfold http_answers_at. rewrite A12. cbn [bind]. f_equal. symmetry. apply (sim_answers tbl). exact Ssq.
  Qed.

  Theorem feed_answers segs s :
    http_st_ok tbl s -> bytes_ok (concat segs) = true ->
    exists l, http_feed_answers tbl s segs = Ok l /\
              Forall2 (fun upto a => http_answers_at tbl s upto = Ok a) (prefixes_at [] segs) l.
  Proof.
    intros O Hb. apply (feed_answers_gen segs [] s s s O O O Hb (http_parse_nil tbl s) (sim_refl tbl s)).
  Qed.

  (* FAIL, CONTENT and dead states are absorbing *)
  Lemma fail_absorbing s d : h_state s = HTTP_FAIL -> http_parse tbl s d = Ok s.
  Proof. intros H. rewrite http_parse_post by (split; rewrite H; discriminate). rewrite run_fail by exact H. reflexivity. Qed.
  Lemma content_absorbing s d : h_state s = HTTP_CONTENT -> http_parse tbl s d = Ok s.
  Proof. intros H. rewrite http_parse_post by (split; rewrite H; discriminate). rewrite run_content by exact H. reflexivity. Qed.


  (* after k segments the reply has been triggered iff the byte-at-a-time parser has
     reached CONTENT within the bytes received so far; and once reached, it stays *)
  Theorem reply_point segs k s :
    http_st_ok tbl s -> bytes_ok (concat segs) = true ->
    exists sk fk, http_feed tbl s (firstn k segs) = Ok sk /\
                  http_fold tbl s (concat (firstn k segs)) = Ok fk /\
                  http_answers sk = http_answers fk /\ (http_answers fk = true -> sk = fk).
  Proof.
    intros Hst Hb.
    assert (Hb' : bytes_ok (concat (firstn k segs)) = true).
    { rewrite <- (firstn_skipn k segs), concat_app in Hb. exact (bytes_ok_app_l _ _ Hb). }
    destruct (feed_sim_fold (firstn k segs) s Hst Hb') as (sk & fk & P & F & S & _ & _).
    exists sk, fk. repeat split; auto.
    - apply (sim_answers tbl). exact S.
    - intros Ha. symmetry. apply (sim_answers_eq tbl fk sk); [apply sim_sym; exact S | exact Ha].
  Qed.

  Lemma fold_content_stays : forall b s, h_state s = HTTP_CONTENT -> http_fold tbl s b = Ok s.
  Proof.
    induction b as [|x b IH]; intros s H; [reflexivity|].
    cbn [http_fold]. unfold http_step. rewrite content_absorbing by exact H. cbn [bind]. apply IH. exact H.
  Qed.
  Theorem fold_answer_monotone a b s s1 :
    http_fold tbl s a = Ok s1 -> http_answers s1 = true -> http_fold tbl s (a ++ b) = Ok s1.
  Proof.
    intros F A. rewrite (fold_app a b s s1 F). apply fold_content_stays.
    unfold http_answers in A. apply N.eqb_eq in A. exact A.
  Qed.

  Lemma new_st_ok : http_st_ok tbl http_new.
  Proof.
    unfold http_st_ok. cbn [h_smack http_new].
    pose proof (http_tbl_ok_parts tbl Htbl) as (H0 & H1 & H2 & H3). lia.
  Qed.
End Fold.
