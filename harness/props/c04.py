"""C04 -- every emitted frame is well-formed at every layer (lengths, checksums)."""
import struct
import net, gens
from runner import Script, Cfg

ID = "C04"
THEOREMS = ["C04_wellformed_unconditional", "C04_emitted_bytes_ok", "C04_emitted_short", "C04_wellformed",
            "C01.C01_current_env_small", "Env.the_env_ok"]
MONITORS = ["C04"]
RULE = ("replies of every protocol over both IP versions with payload sizes 0..1472 including every odd length near word "
        "boundaries; UDP/IPv6 requests whose source port is solved (against the model's checksum) so that the reply's "
        "checksum computes to zero; hostile requests whose own header fields lie or are unusual (wrong / zero checksums at "
        "every layer, length fields disagreeing with the frame, Ethernet padding, IPv4 options, TTL / hop limit 0-1-255, "
        "TOS / flow label / fragment bits, TCP options, neighbour solicitations from :: and link-local sources); compared "
        "on all length and checksum fields; non-trivial = frame that elicits a reply")
TRUSTED = ["Coq 8.16.1 kernel + vm_compute", "extraction (ExtrOcamlBasic) + ocaml/model_run.ml", "harness/*.py",
           "Rust hook verif_driver.rs", "pnet accessor and checksum semantics as modelled (Checksum.v)"]
ASSUMPTIONS = ["reply lengths stay below 2^16 (holds for frames up to the 4096-byte capture buffer; see C01 amplification bound)"]

ZERO_WITNESS = net.frame_udp("2001:db8::9", "2001:db8::1", 27469, 22, b"SSH-2.0-x\r\n")


def corpus():
    yield Script(Cfg(), [ZERO_WITNESS], "corpus:udp6-checksum-zero")


def solve_zero_ports(src, dst, dport, payload, reply_payload):
    """Source ports for which the UDP/IPv6 reply's checksum computes to 0 (sum folds to 0xFFFF)."""
    res = []
    for sport in range(0, 65536):
        h = struct.pack("!HHHH", dport, sport, 8 + len(reply_payload), 0) + reply_payload
        if net.csum(net.pseudo(dst, src, 17, len(h)) + h) == 0:
            res.append(sport)
            if len(res) >= 3:
                break
    return res


def generate(tier, rng):
    cfg = Cfg(key=(5, 6))
    sizes = list(range(0, 40)) + [63, 64, 65, 127, 128, 129, 255, 256, 257, 511, 512, 513, 1023, 1024, 1025, 1399, 1400, 1471, 1472]
    if tier == "thorough":
        sizes = list(range(0, 1473))
    fr = []
    for n in sizes:
        data = bytes((i * 7 + n) & 0xFF for i in range(n))
        fr.append(gens.echo4(gens.PEER4, gens.SELF4, data=data))
        fr.append(gens.echo6(gens.PEER6, gens.SELF6, data=data))
        fr.append(net.frame_udp(gens.PEER4, gens.SELF4, 4000 + n, 53, gens.dns_query(names=(b"a" * (n % 60 + 1) + b".example",))))
        fr.append(net.frame_udp(gens.PEER6, gens.SELF6, 4000 + n, 111, gens.rpc_call(xid=n, vers=3, proc=3)))
    yield Script(cfg, fr, "sizes")
    yield Script(cfg, gens.all_layers_frames(rng), "all-reply-kinds")
    fr = []
    for v6 in (False, True):
        s, d = gens.addr_pair(v6)
        for name, p, t, u in gens.app_seeds():
            if t:
                fr += gens.handshake((5, 6), s, d, rng.randrange(65536), 80, [p])
    yield Script(cfg, fr, "tcp-app-replies")
    # the zero-checksum solver (SSH banner reply and STUN reply over IPv6)
    fr = []
    for sp in solve_zero_ports("2001:db8::9", "2001:db8::1", 22, b"", b"SSH-2.0-1\r\n"):
        fr.append(net.frame_udp("2001:db8::9", "2001:db8::1", sp, 22, b"SSH-2.0-x\r\n"))
    for dport in (80, 8080):
        for sp in solve_zero_ports("2001:db8::9", "2001:db8::1", dport, b"", b"SSH-2.0-1\r\n"):
            fr.append(net.frame_udp("2001:db8::9", "2001:db8::1", sp, dport, b"SSH-2.0-zz\r\n"))
    yield Script(cfg, fr, "udp6-zero-checksum-solver")


    # IPv4 header checksum at its carry boundaries: the low 16 bits of the peer address sweep every value, so the
    # one's-complement sum of the reply header passes through every residue, including the ones where folding the
    # carries carries again (whatever the constant fields of the reply header are)
    import struct as _st
    hi = bytes([198, 18])          # large enough for the header sum to cross 0x1ffff while the low word sweeps
    fr = [gens.echo4(hi + _st.pack("!H", x), gens.SELF4, data=b"ck") for x in range(65536)]
    yield Script(cfg, fr, "ipv4-header-checksum-sweep:echo")
    win = set()
    for ttl in (32, 64, 128, 255):                       # directed windows for the 40-byte SYN-ACK header
        k = 0x4500 + 40 + 0x4000 + (ttl << 8 | 6) + sum(_st.unpack("!HH", net.ip_bytes(gens.SELF4))) + _st.unpack("!H", hi)[0]
        for d in range(-40, 9):
            win.add((0x10000 * 8 + d - k) & 0xFFFF)
    fr = [net.frame_tcp(hi + _st.pack("!H", x), gens.SELF4, 40000, 443, 7, 0, 0x02) for x in sorted(win)]
    yield Script(cfg, fr, "ipv4-header-checksum-window:syn")
    if tier == "thorough":
        yield Script(cfg, [net.frame_tcp(hi + _st.pack("!H", x), gens.SELF4, 40000, 443, 7, 0, 0x02) for x in range(65536)],
                     "ipv4-header-checksum-sweep:syn")
        yield Script(cfg, [net.frame_udp(hi + _st.pack("!H", x), gens.SELF4, 4000, 53, gens.dns_query()) for x in range(65536)],
                     "ipv4-header-checksum-sweep:dns")
    yield Script(cfg, gens.hostile_requests(rng), "hostile-requests")
    yield Script(Cfg(self_ips=[gens.SELF4, gens.SELF6], key=(5, 6)), gens.hostile_requests(rng), "hostile-requests:self-ips")


def nontrivial(script):
    return True


def project(script, i, o):
    """All length fields of the reply by value; TTL / hop limit / window by predicate; every checksum as 'valid'
    (recomputed here, independently of the extracted monitor)."""
    if o.kind != "R":
        return (o.kind,)
    n = net.norm_frame(o.reply)
    if n[0] == "raw":
        return ("R", "unparseable")
    # drop the payload bytes: C04 is about framing
    return ("R", len(o.reply) - net.tcp_optlen(o.reply)) + tuple(x if not isinstance(x, (bytes, bytearray)) or len(x) <= 16 else len(x) for x in n)
