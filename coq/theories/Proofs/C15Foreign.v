(* C15Foreign.v -- "other responders never emit a STUN response": what any handler
   other than the STUN one returns for a payload that reads as a STUN message is
   not a STUN success / error response carrying that message's transaction id.
     HTTP 401 ("H..."), SSH banner ("S..."), Gh0st frame ("G..."): first byte >= 64
     ONC-RPC over TCP: record mark with the last-fragment bit: first byte >= 128
     ONC-RPC over UDP: bytes 4..7 of the reply are 00 00 00 01 (REPLY), bytes 4..7
       of an answered call are 00 00 00 00 (CALL): the transaction ids differ
     SMB (NBT session message): first byte 0: class bit C1 clear
   Needed to state C15 for every frame without assuming how the frame's payload is
   identified (Proofs/C15Frame.v).  The DNS fallback of proto::repl over UDP is NOT
   covered: see C15Frame.v. *)
From MS Require Import Proofs.Tactics Stun Rpc Smb Http Ssh Ghost Proto
     Spec.RefStun Spec.RefHttp Spec.C18 Spec.EnvOk Spec.AppView Spec.C15
     Proofs.C07 Proofs.C16Parse Proofs.C15Model.
Require Import ZifyBool ZifyNat ZifyN.
Ltac Zify.zify_post_hook ::= Z.div_mod_to_equations.

(* ---------- what a STUN response looks like ---------- *)
Lemma stun_response_inv (tid r : bytes) :
  is_stun_response_to tid r = true ->
  (20 <= length r)%nat /\ u16_at 0 r < 16384 /\ (u16_at 0 r / 256) mod 2 = 1 /\
  firstn 16 (skipn 4 r) = tid.
Proof.
  unfold is_stun_response_to, dec_stun_resp, dec_stun_gen.
  destruct (length r <? 20)%nat eqn:Hl; [discriminate|].
  destruct (16384 <=? u16_at 0 r) eqn:Ht; [discriminate|].
  destruct (negb _); [discriminate|].
  destruct (read_attrs _) as [l st]. destruct st; try discriminate.
  cbn [sm_class sm_tid]. intros H. apply andb_true_iff in H. destruct H as [Hc He].
  apply bytes_eqb_eq in He.
  split; [lia|]. split; [lia|]. split; [|exact He].
  unfold type_class, CLASS_SUCCESS, CLASS_ERROR in Hc. lia.
Qed.

Lemma not_resp_head_ge64 (tid : bytes) (a : N) (t : bytes) :
  64 <= a -> is_stun_response_to tid (a :: t) = false.
Proof.
  intros Ha. destruct (is_stun_response_to tid (a :: t)) eqn:H; [|reflexivity].
  apply stun_response_inv in H. destruct H as (_ & Hty & _). unfold u16_at, u8_at in Hty. cbn [nth] in Hty. lia.
Qed.

Lemma not_resp_head_0 (tid : bytes) (b : N) (t : bytes) :
  b < 256 -> is_stun_response_to tid (0 :: b :: t) = false.
Proof.
  intros Hb. destruct (is_stun_response_to tid (0 :: b :: t)) eqn:H; [|reflexivity].
  apply stun_response_inv in H. destruct H as (_ & _ & Hc & _). unfold u16_at, u8_at in Hc. cbn [nth] in Hc. lia.
Qed.

Lemma nth_firstn_lt (n : nat) : forall (i : nat) (l : bytes), (i < n)%nat -> nth i (firstn n l) 0 = nth i l 0.
Proof.
  induction n as [|n IH]; intros i l Hi; [lia|]. destruct l as [|x l]; [destruct i; reflexivity|].
  destruct i as [|i]; [reflexivity|]. cbn [firstn nth]. apply IH. lia.
Qed.

Lemma nth_skipn_add (k : nat) : forall (i : nat) (l : bytes), nth i (skipn k l) 0 = nth (k + i) l 0.
Proof.
  induction k as [|k IH]; intros i l; [reflexivity|]. destruct l as [|x l]; [destruct i; reflexivity|].
  cbn [skipn plus nth]. apply IH.
Qed.

Lemma not_resp_tid (tid r : bytes) (i : nat) :
  (i < 16)%nat -> nth i tid 0 <> nth (4 + i) r 0 -> is_stun_response_to tid r = false.
Proof.
  intros Hi Hne. destruct (is_stun_response_to tid r) eqn:H; [|reflexivity].
  apply stun_response_inv in H. destruct H as (Hl & _ & _ & Ht). exfalso. apply Hne. rewrite <- Ht.
  rewrite (nth_firstn_lt 16 i _ Hi). rewrite nth_skipn_add. reflexivity.
Qed.

(* ---------- the constant replies ---------- *)
Lemma is_prefix_hd (a : N) (s l : bytes) : is_prefix (a :: s) l = true -> exists t, l = a :: t.
Proof. destruct l as [|b t]; [discriminate|]. cbn. intros H. exists t. f_equal. lia. Qed.

Lemma chomp_cr_hd (a : N) (s cur : bytes) : is_prefix (a :: s) (chomp_cr cur) = true -> exists t, cur = a :: t.
Proof.
  destruct cur as [|b [|c t]].
  - discriminate.
  - cbn. destruct (b =? 13); [discriminate|]. cbn. intros H. exists []. f_equal. lia.
  - cbn [chomp_cr]. intros H. apply is_prefix_hd in H. destruct H as [t' H]. inversion H. eexists. reflexivity.
Qed.

(* a byte string on which the response reader leaves the status line starts with "H" *)
Lemma wf_first_line (l : bytes) : forall cur auth cl m auth' cl',
  fold_left wf_step l (WHead true cur auth cl) = WHead false m auth' cl' ->
  exists t, cur ++ l = 72 :: t.
Proof.
  induction l as [|b l IH]; intros cur auth cl m auth' cl'; cbn [fold_left].
  - discriminate.
  - unfold wf_step at 2. destruct (b =? 10) eqn:Hb.
    + destruct (is_prefix RESP_STATUS (chomp_cr cur)) eqn:Hp.
      * intros _. apply chomp_cr_hd in Hp. destruct Hp as [t ->]. eexists. reflexivity.
      * assert (forall l0, fold_left wf_step l0 WBad = WBad) as Hbad by (induction l0; [reflexivity|assumption]).
        rewrite Hbad. discriminate.
    + intros H. apply IH in H. destruct H as [t H]. exists t. rewrite <- H, <- app_assoc. reflexivity.
Qed.

Lemma env_http_head (E : env) : env_ok E = true -> exists t, e_http_pre E = 72 :: t.
Proof.
  unfold env_ok. intros H. repeat (apply andb_true_iff in H; destruct H as [H ?]).
  match goal with X : http_tpl_ok _ _ = true |- _ => rename X into Ht end.
  unfold http_tpl_ok in Ht.
  destruct (fold_left wf_step (e_http_pre E) wf_init) as [[|] cur auth cl| |] eqn:Hf; try discriminate.
  unfold wf_init in Hf. apply wf_first_line in Hf. exact Hf.
Qed.

Lemma env_ssh_head (E : env) : env_ok E = true -> e_ssh_banner E = S_SERVER_ID.
Proof.
  unfold env_ok. intros H. repeat (apply andb_true_iff in H; destruct H as [H ?]).
  match goal with X : bytes_eqb (e_ssh_banner E) _ = true |- _ => apply bytes_eqb_eq in X; exact X end.
Qed.

Lemma env_ghost_head (E : env) : env_ok E = true -> exists t, e_ghost E = 71 :: t.
Proof.
  unfold env_ok. intros H. apply andb_true_iff in H; destruct H as [_ H].
  unfold ghost_wf in H. repeat (apply andb_true_iff in H; destruct H as [H ?]).
  match goal with X : is_prefix S_GHOST _ = true |- _ => unfold S_GHOST in X; apply is_prefix_hd in X; exact X end.
Qed.

(* ---------- ONC-RPC over UDP: message type of an answered call ---------- *)
(* once the header's first two words are read, xid and message type do not change *)
Lemma rpc_byte_keeps (s : rpc_st) (b : N) :
  R_RPCVERS <= r_state s -> R_RPCVERS <= r_state (rpc_byte s b) /\ r_mtype (rpc_byte s b) = r_mtype s.
Proof.
  unfold R_RPCVERS. intros Hs. unfold rpc_byte, rd, upd,
    R_FRAG, R_XID, R_MTYPE, R_RPCVERS, R_PROG, R_PROGVERS, R_PROC, R_CFLAVOR, R_CLEN, R_CREDS, R_VFLAVOR,
    R_VLEN, R_VERIF, R_END.
  repeat match goal with
         | |- context [if ?c then _ else _] => destruct c eqn:?; cbn [r_state r_mtype fst snd]
         end; try (exfalso; lia); try (split; [lia|reflexivity]).
Qed.

Lemma rpc_parse_keeps (l : bytes) : forall s,
  R_RPCVERS <= r_state s -> r_mtype (rpc_parse s l) = r_mtype s.
Proof.
  unfold rpc_parse. induction l as [|b l IH]; intros s Hs; cbn [fold_left]; [reflexivity|].
  destruct (rpc_byte_keeps s b Hs) as [H1 H2]. rewrite (IH _ H1). exact H2.
Qed.

Lemma rpc_udp_answer_mtype (ip : ipaddr) (port : N) (p r : bytes) :
  bytes_ok p = true -> (8 <= length p)%nat ->
  rpc_repl_udp ip port p = Some r ->
  nth 7 p 0 = 0 /\ nth 7 r 0 = 1.
Proof.
  intros Hok Hl. unfold rpc_repl_udp.
  destruct ((r_state _ =? R_END) && (r_mtype _ =? 0)) eqn:Hc; [|discriminate].
  intros H. inversion H; subst r. clear H. split; [|reflexivity].
  apply andb_true_iff in Hc. destruct Hc as [_ Hm].
  destruct p as [|x0 [|x1 [|x2 [|x3 [|m0 [|m1 [|m2 [|m3 rest]]]]]]]]; cbn [length] in Hl; try lia.
  change (rpc_parse (rpc_new R_XID) (x0 :: x1 :: x2 :: x3 :: m0 :: m1 :: m2 :: m3 :: rest))
    with (rpc_parse (mkst R_RPCVERS 0 0 (word x0 x1 x2 x3) 0 0 0 (word m0 m1 m2 m3)) rest) in Hm.
  rewrite rpc_parse_keeps in Hm by (cbn; unfold R_RPCVERS; lia).
  cbn [r_mtype mkst] in Hm. cbn [nth].
  unfold bytes_ok in Hok. cbn [forallb] in Hok.
  repeat (apply andb_true_iff in Hok; destruct Hok as [? Hok]).
  unfold word, acc, wrap32 in Hm. unfold byte_ok in *. clear Hok Hl H H0 H1 H2. lia. Qed.

(* ---------- SMB: the NBT session header ---------- *)
Lemma nbt_run_head T tn tb tr data d :
  nbt_run T tn tb tr data = Ok (Some d) -> exists b t, d = 0 :: b :: t /\ b < 256.
Proof.
  unfold nbt_run. destruct (fold_res _ _ _) as [st|s]; cbn [bind]; [|discriminate].
  unfold nbt_repl. destruct (nb_pay _ st); [|discriminate].
  destruct (tr _); [|discriminate].
  destruct (256 <=? _) eqn:Hhi; [discriminate|].
  intros [= <-]. eexists _, _. split; [reflexivity|]. apply N.leb_gt in Hhi. exact Hhi.
Qed.

(* ---------- every handler but the STUN one ---------- *)
Theorem dispatch_not_stun_resp E clk ci id t p m ci' t' r :
  env_ok E = true -> bytes_ok p = true -> dec_stun_req p = Some m ->
  (id =? PROTO_STUN) = false ->
  dispatch E clk ci id t p = Ok (ci', t', Some r) ->
  is_stun_response_to (sm_tid m) r = false.
Proof.
  intros HE Hok Hdec Hid.
  destruct (env_http_head E HE) as [th Hh]. pose proof (env_ssh_head E HE) as Hs.
  destruct (env_ghost_head E HE) as [tg Hg].
  unfold dispatch.
  destruct (id =? PROTO_HTTP).
  { unfold http_repl, http_response. rewrite Hh.
    destruct t as [tc|].
    - destruct (t_pstate tc) as [[h|rr]|]; try discriminate;
        (destruct (http_parse _ _ _) as [h'|s]; cbn [bind]; [|discriminate];
         destruct (h_state h' =? HTTP_CONTENT); cbn; intros H; inversion H; subst;
         apply not_resp_head_ge64; lia).
    - destruct (http_parse _ _ _) as [h'|s]; cbn [bind]; [|discriminate].
      destruct (h_state h' =? HTTP_CONTENT); cbn; intros H; inversion H; subst.
      apply not_resp_head_ge64; lia. }
  rewrite Hid.
  destruct (id =? PROTO_SSH).
  { unfold ssh_repl. rewrite Hs. destruct (ssh_parse p =? SSH_EOB); intros H; inversion H; subst.
    unfold S_SERVER_ID. apply not_resp_head_ge64; lia. }
  destruct (id =? PROTO_GHOST).
  { unfold ghost_repl. rewrite Hg. intros H; inversion H; subst. apply not_resp_head_ge64; lia. }
  destruct (id =? PROTO_RPC_TCP).
  { destruct (ci_ip_dst ci); [|intros H; inversion H].
    destruct (ci_port_dst ci); [|intros H; inversion H].
    unfold rpc_repl_tcp.
    destruct t as [tc|].
    - destruct (t_pstate tc) as [[h|rr]|]; try discriminate;
        (destruct (r_state _ =? R_END); [destruct (r_mtype _ =? 0)|]; intros H; inversion H; subst;
         apply not_resp_head_ge64; lia).
    - destruct (r_state _ =? R_END); [destruct (r_mtype _ =? 0)|]; cbn; intros H; inversion H; subst.
      apply not_resp_head_ge64; lia. }
  destruct (id =? PROTO_RPC_UDP).
  { destruct (ci_ip_dst ci) as [ip|]; [|intros H; inversion H].
    destruct (ci_port_dst ci) as [port|]; [|intros H; inversion H].
    intros H. assert (rpc_repl_udp ip port p = Some r) as Hr by (inversion H; reflexivity). clear H.
    destruct (dec_req_inv p m Hdec) as (_ & _ & _ & Htid & _ & Hl).
    destruct (rpc_udp_answer_mtype ip port p r Hok ltac:(lia) Hr) as [H7p H7r].
    apply (not_resp_tid _ _ 3); [lia|]. rewrite Htid. unfold slice.
    rewrite (nth_firstn_lt 16 3 _ ltac:(lia)), nth_skipn_add. cbn [plus]. rewrite H7p, H7r. lia. }
  destruct (id =? PROTO_SMB1).
  { destruct (smb1_repl _ _ _ _) as [o|s] eqn:Hs1; cbn [bind]; [|discriminate].
    intros H; inversion H; subst. unfold smb1_repl in Hs1.
    destruct (nbt_run_head _ _ _ _ _ _ Hs1) as (b & tl & -> & Hb). apply not_resp_head_0. exact Hb. }
  destruct (id =? PROTO_SMB2).
  { destruct (smb2_repl _ _ _ _) as [o|s] eqn:Hs2; cbn [bind]; [|discriminate].
    intros H; inversion H; subst. unfold smb2_repl in Hs2.
    destruct (nbt_run_head _ _ _ _ _ _ Hs2) as (b & tl & -> & Hb). apply not_resp_head_0. exact Hb. }
  intros H; inversion H.
Qed.

(* ... and they hand the client information back unchanged *)
Lemma dispatch_ci_same E clk ci id t p ci' t' o :
  (id =? PROTO_STUN) = false ->
  dispatch E clk ci id t p = Ok (ci', t', o) -> ci' = ci.
Proof.
  intros Hid. unfold dispatch. rewrite Hid.
  repeat match goal with
         | |- context [if ?c then _ else _] => destruct c
         | |- context [bind ?e _] => destruct e; cbn [bind]
         | |- context [match ?x with _ => _ end] => destruct x; cbn [bind]
         end; intros H; inversion H; reflexivity.
Qed.
