(* Proofs/C10Ref.v -- facts about the reference automaton alone: ties between
   signatures completed at the same position never matter. *)
From Coq Require Import Lia.
From MS Require Import Smack Proofs.Tactics Proofs.SmackSeg Spec.RefSig Spec.C10 Proofs.C10Sound.

Section Closed.
  Variable R : rset.
  Hypothesis HR : ref_closed R = true.

  Lemma closed_init : mem_r R r_init = true.
  Proof. unfold ref_closed in HR. apply andb_true_iff in HR. exact (proj1 HR). Qed.

  Lemma mem_r_spec s : mem_r R s = true ->
    tie_free_end s = true /\
    forall b, b < 256 -> tie_free_step s b = true /\
                         match rsig_step s b with RAcc _ => True | RCont s' => mem_r R s' = true end.
  Proof.
    intros Hm. destruct s as [n live]. unfold mem_r in Hm. cbn [fst snd] in Hm.
    apply existsb_exists in Hm. destruct Hm as (l' & Hin & He). apply lnat_eqb_eq in He. subst l'.
    unfold ref_closed in HR. apply andb_true_iff in HR. destruct HR as [_ Hall].
    rewrite forallb_forall in Hall.
    destruct (Nat.lt_ge_cases n (length R)) as [Hlt | Hge].
    - specialize (Hall _ (combine_seq_In R [] n Hlt)). cbn [fst snd] in Hall.
      rewrite forallb_forall in Hall. specialize (Hall _ Hin). cbv zeta in Hall.
      apply andb_true_iff in Hall. destruct Hall as [He Hb]. split; [exact He|].
      intros b Hlt256. rewrite forallb_forall in Hb. specialize (Hb b (in_bytes256 b Hlt256)).
      apply andb_true_iff in Hb. destruct Hb as [Hb1 Hb2]. split; [exact Hb1|].
      destruct (rsig_step (n, live) b); [exact Hb2 | exact I].
    - rewrite nth_overflow in Hin by exact Hge. destruct Hin.
  Qed.

  Lemma ties_run_closed p : forall s, mem_r R s = true -> bytes_ok p = true -> ties_run s p = true.
  Proof.
    induction p as [|b r IH]; intros s Hm Hb; cbn [ties_run].
    - exact (proj1 (mem_r_spec s Hm)).
    - cbn [bytes_ok forallb] in Hb. apply andb_true_iff in Hb. destruct Hb as [Hb Hr].
      unfold byte_ok in Hb. apply N.ltb_lt in Hb.
      destruct (proj2 (mem_r_spec s Hm) b Hb) as [H1 H2]. rewrite H1. cbn [andb].
      destruct (rsig_step s b) as [s'|]; [apply IH; assumption | reflexivity].
  Qed.
End Closed.

Lemma ref_states_closed : ref_closed ref_states = true.
Proof. vm_compute. reflexivity. Qed.

Theorem ref_tie_free p : bytes_ok p = true -> ties_run r_init p = true.
Proof.
  intros Hp.
  exact (ties_run_closed ref_states ref_states_closed p r_init (closed_init ref_states ref_states_closed) Hp).
Qed.

(* ---------- the automaton computes the direct reading of the signature list ----------
   [ref_tcp_decl p]: for k = 1, 2, .. |p|, the first k at which some signature without end
   anchor has length k and matches the first k bytes of p decides (first such signature in
   the published order); [ref_udp_decl] then tries the end-anchored signatures of length |p|. *)
Definition okb (x : option N) (b : N) : bool := match x with None => true | Some c => c =? b end.
(* [a] matches the first |a| positions of [pat] *)
Fixpoint pat_pre (pat : list (option N)) (a : bytes) {struct a} : bool :=
  match a, pat with
  | [], _ => true
  | b :: a', x :: pat' => okb x b && pat_pre pat' a'
  | _ :: _, [] => false
  end.

Lemma pat_match_pre pat : forall a q, length pat = length a -> pat_match pat (a ++ q) = pat_pre pat a.
Proof.
  induction pat as [|x pat IH]; intros [|b a] q Hl; cbn [length] in Hl; try discriminate.
  - destruct q; reflexivity.
  - cbn [app pat_match pat_pre]. injection Hl as Hl. rewrite <- (IH a q Hl).
    destruct x as [c|]; reflexivity.
Qed.

Lemma pat_pre_snoc a : forall pat b,
  pat_pre pat (a ++ [b]) =
  pat_pre pat a && match nth_error pat (length a) with Some x => okb x b | None => false end.
Proof.
  induction a as [|y a IH]; intros pat b; cbn [app pat_pre length].
  - destruct pat as [|x pat]; cbn [nth_error pat_pre]; [reflexivity | rewrite andb_true_r; reflexivity].
  - destruct pat as [|x pat]; cbn [nth_error pat_pre]; [reflexivity|].
    rewrite IH, andb_assoc. reflexivity.
Qed.

Lemma pos_ok_okb i n b :
  pos_ok i n b = match nth_error (s_pat (sig_at i)) n with Some x => okb x b | None => false end.
Proof. unfold pos_ok. destruct (nth_error (s_pat (sig_at i)) n) as [[c|]|]; reflexivity. Qed.

Definition alive (a : bytes) (i : nat) : bool := pat_pre (s_pat (sig_at i)) a.
Definition idxs : list nat := seq 0 (length ref_sigs).
Definition live_of (a : bytes) : list nat := filter (alive a) idxs.

Lemma filter_filter {A} (P Q : A -> bool) l :
  filter P (filter Q l) = filter (fun x => Q x && P x) l.
Proof.
  induction l as [|x l IH]; [reflexivity|]. cbn [filter].
  destruct (Q x); cbn [filter andb]; [destruct (P x); rewrite IH; reflexivity | exact IH].
Qed.
Lemma find_filter {A} (P Q : A -> bool) l :
  find P (filter Q l) = find (fun x => Q x && P x) l.
Proof.
  induction l as [|x l IH]; [reflexivity|]. cbn [filter find].
  destruct (Q x); cbn [find andb]; [destruct (P x); [reflexivity | exact IH] | exact IH].
Qed.
Lemma find_map {A B} (f : B -> bool) (g : A -> B) l :
  find f (map g l) = option_map g (find (fun x => f (g x)) l).
Proof.
  induction l as [|x l IH]; [reflexivity|]. cbn [map find].
  destruct (f (g x)); [reflexivity | exact IH].
Qed.
Lemma find_ext {A} (f g : A -> bool) l : (forall x, f x = g x) -> find f l = find g l.
Proof. intros H. induction l as [|x l IH]; [reflexivity|]. cbn [find]. rewrite H, IH. reflexivity. Qed.

Lemma ref_sigs_idx : ref_sigs = map sig_at idxs.
Proof. reflexivity. Qed.

Lemma live_snoc a b : filter (fun i => pos_ok i (length a) b) (live_of a) = live_of (a ++ [b]).
Proof.
  unfold live_of. rewrite filter_filter. apply filter_ext. intros i. unfold alive.
  rewrite pat_pre_snoc, pos_ok_okb. reflexivity.
Qed.

(* the signatures completed after the bytes [a] (|a| = k), among those of [p = a ++ q] *)
Lemma decl_find_at a q k : k = length a ->
  find (sig_completed_at k (a ++ q)) ref_sigs =
  option_map sig_at (find (fun i => completes i k) (live_of a)).
Proof.
  intros Hk. rewrite ref_sigs_idx, find_map. f_equal. unfold live_of. rewrite find_filter.
  apply find_ext. intros i. unfold sig_completed_at, completes, alive.
  destruct (negb (s_end (sig_at i))); cbn [andb]; [|rewrite andb_false_r; reflexivity].
  destruct (length (s_pat (sig_at i)) =? k)%nat eqn:Hl; cbn [andb]; [|rewrite andb_false_r; reflexivity].
  apply Nat.eqb_eq in Hl. rewrite andb_true_r. apply pat_match_pre. lia.
Qed.
Lemma decl_find_end a :
  find (sig_completed_end a) ref_sigs =
  option_map sig_at (find (fun i => completes_end i (length a)) (live_of a)).
Proof.
  rewrite ref_sigs_idx, find_map. f_equal. unfold live_of. rewrite find_filter.
  apply find_ext. intros i. unfold sig_completed_end, completes_end, alive.
  destruct (s_end (sig_at i)); cbn [andb]; [|rewrite andb_false_r; reflexivity].
  destruct (length (s_pat (sig_at i)) =? length a)%nat eqn:Hl; cbn [andb]; [|rewrite andb_false_r; reflexivity].
  apply Nat.eqb_eq in Hl. rewrite andb_true_r. rewrite <- (app_nil_r a) at 1. apply pat_match_pre. exact Hl.
Qed.

Lemma run_decl q : forall a m, (m = length a \/ live_of a = []) ->
  match rsig_run (m, live_of a) q with
  | RAcc id => first_completed (seq (S (length a)) (length q)) (a ++ q) = Some id
  | RCont s' => first_completed (seq (S (length a)) (length q)) (a ++ q) = None /\
                exists m', s' = (m', live_of (a ++ q)) /\ (m' = length (a ++ q) \/ live_of (a ++ q) = [])
  end.
Proof.
  induction q as [|b r IH]; intros a m Hm; cbn [rsig_run length seq first_completed].
  - rewrite app_nil_r. split; [reflexivity|]. exists m. split; [reflexivity | exact Hm].
  - assert (Hlive : filter (fun i => pos_ok i m b) (live_of a) = live_of (a ++ [b])).
    { destruct Hm as [-> | He]; [apply live_snoc|].
      rewrite <- live_snoc, He. reflexivity. }
    assert (Hfind : find (fun i => completes i (S m)) (live_of (a ++ [b])) =
                    find (fun i => completes i (S (length a))) (live_of (a ++ [b]))).
    { destruct Hm as [-> | He]; [reflexivity|].
      rewrite <- live_snoc, He. reflexivity. }
    replace (a ++ b :: r) with ((a ++ [b]) ++ r) by (rewrite <- app_assoc; reflexivity).
    rewrite (decl_find_at (a ++ [b]) r (S (length a))) by (rewrite app_length; cbn; lia).
    unfold rsig_step. rewrite Hlive, Hfind.
    destruct (find (fun i => completes i (S (length a))) (live_of (a ++ [b]))) as [i|]; cbn [option_map].
    + reflexivity.
    + assert (Hlen : length (a ++ [b]) = S (length a)) by (rewrite app_length; cbn; lia).
      destruct (live_of (a ++ [b])) as [|x l] eqn:Hl.
      * pose proof (IH (a ++ [b]) O (or_intror Hl)) as IH'. rewrite Hl, Hlen in IH'. exact IH'.
      * assert (Hm1 : S m = length (a ++ [b])).
        { destruct Hm as [-> | He]; [lia|]. exfalso. rewrite <- live_snoc, He in Hl. discriminate. }
        pose proof (IH (a ++ [b]) (S m) (or_introl Hm1)) as IH'. rewrite Hl, Hlen in IH'. exact IH'.
Qed.

Lemma live_of_nil : live_of [] = snd r_init.
Proof. reflexivity. Qed.

Theorem ref_tcp_is_decl p : ref_tcp p = ref_tcp_decl p.
Proof.
  unfold ref_tcp, ref_tcp_decl.
  pose proof (run_decl p [] O (or_introl eq_refl)) as H. cbn [app length] in H.
  change (rsig_run (O, live_of []) p) with (rsig_run r_init p) in H.
  destruct (rsig_run r_init p) as [s'|id].
  - destruct H as [-> _]. reflexivity.
  - rewrite H. reflexivity.
Qed.

Theorem ref_udp_is_decl p : ref_udp p = ref_udp_decl p.
Proof.
  unfold ref_udp, ref_udp_decl, ref_tcp_decl.
  pose proof (run_decl p [] O (or_introl eq_refl)) as H. cbn [app length] in H.
  change (rsig_run (O, live_of []) p) with (rsig_run r_init p) in H.
  destruct (rsig_run r_init p) as [s'|id].
  - destruct H as [-> (m' & -> & Hm')]. rewrite decl_find_end. unfold rsig_end.
    assert (Hf : find (fun i => completes_end i m') (live_of p) =
                 find (fun i => completes_end i (length p)) (live_of p)).
    { destruct Hm' as [-> | ->]; reflexivity. }
    rewrite Hf. clear Hf.
    destruct (find (fun i => completes_end i (length p)) (live_of p)); reflexivity.
  - rewrite H. reflexivity.
Qed.
