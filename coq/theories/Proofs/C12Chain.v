(* Proofs/C12Chain.v -- the reflection chain (UDP): the peer sends every reply payload back
   to the responder from the same address and port.  On the application layer this is the
   iteration of proto::repl on its own output in a fixed context.

   PROVED (every environment): consecutive replies of a chain are never produced by the same
   context-dependent responder (DNS -> DNS, STUN -> STUN, RPC/UDP -> RPC/UDP are impossible):
   each such reply is reply-typed for its own protocol, and that protocol's responder is
   silent on it.
   COMPUTED on the tables of the current implementation: chains that start from reply-typed
   messages, including one of length exactly 2 (RPC reply = STUN request -> STUN response =
   DNS query -> DNS response -> silence).
   NOT PROVED: the bound "at most 2" for every reply-typed start ([chain_bound_stmt]); it
   needs, for every shape of emitted payload, which signatures of the compiled matcher can
   complete on it (a product walk of the table, as Spec/HttpTbl.v does for the verb table). *)
From MS Require Import Proofs.Tactics Proofs.C19 Proofs.C12 Proofs.C12Own Proofs.C12Frame Proofs.C12Id
     Rpc Dns Stun Proto Spec.AppView Spec.C12 Spec.C12x Spec.C19 Spec.EnvOk.

(* the payloads emitted when each reply is sent back, at most [n] rounds *)
Fixpoint app_chain (E : env) (clk : clock) (ci : cinfo) (n : nat) (p : bytes) : list bytes :=
  match n with
  | O => []
  | S k =>
    match proto_repl_udp E clk ci p with
    | Ok (_, Some r) => r :: app_chain E clk ci k r
    | _ => []
    end
  end.

(* reply-typed datagrams the property lists (DNS QR = 1; STUN non-request below 0x40; RPC REPLY) *)
Definition udp_reply_typed (p : bytes) : bool :=
  dns_response_typed p || (stun_nonrequest_typed p && (u8_at 0 p <? 64)) || rpc_reply_typed_udp p.

Definition chain_bound_stmt (E : env) : Prop :=
  forall clk ci n p, ci_full ci = true -> bytes_ok p = true -> lenN p <= 4096 ->
    udp_reply_typed p = true -> (length (app_chain E clk ci n p) <= 2)%nat.

(* ---------- which responder a core comes from ---------- *)
Lemma of_opt_const o : match of_opt o with CSilent | CConst _ => True | _ => False end.
Proof. destruct o; exact I. Qed.

Lemma udp_core_kind E clk p c :
  udp_core E clk p = Ok c ->
  match c with
  | CDns _ => c = dns_core p
  | CStun _ _ => c = stun_core p
  | CRpc s false => rpc_repl_udp (V4 []) 0 p <> None
  | _ => True
  end.
Proof.
  unfold udp_core. destruct (udp_id E p) as [i|].
  2:{ intros H. inversion H. destruct (dns_core p) eqn:Hc; try exact I; try reflexivity.
      - unfold dns_core in Hc. destruct (dns_parse p); [|discriminate].
        destruct (32768 <=? _); [discriminate|]. destruct (forallb _ _); discriminate.
      - unfold dns_core in Hc. destruct (dns_parse p); [|discriminate].
        destruct (32768 <=? _); [discriminate|]. destruct (forallb _ _); discriminate. }
  unfold dispatch_core.
  destruct (i =? PROTO_HTTP).
  { destruct (http_repl _ _ _ _ http_new p) as [[h' o]|s]; cbn [bind fst snd]; [|discriminate].
    intros H. inversion H. pose proof (of_opt_const o) as X. destruct (of_opt o); try exact I; contradiction. }
  destruct (i =? PROTO_STUN).
  { cbn [bind fst]. intros H. inversion H. destruct (stun_core p) eqn:Hs; try exact I; try reflexivity.
    - exfalso. unfold stun_core in Hs.
      repeat match type of Hs with
             | (if ?b then _ else _) = _ => destruct b
             | match ?x with _ => _ end = _ => destruct x
             end; discriminate.
    - exfalso. unfold stun_core in Hs.
      repeat match type of Hs with
             | (if ?b then _ else _) = _ => destruct b
             | match ?x with _ => _ end = _ => destruct x
             end; discriminate. }
  destruct (i =? PROTO_SSH).
  { cbn [bind fst]. intros H. inversion H. pose proof (of_opt_const (ssh_repl (e_ssh_banner E) p)) as X.
    destruct (of_opt _); try exact I; contradiction. }
  destruct (i =? PROTO_GHOST). { cbn [bind fst]. intros H. inversion H. exact I. }
  destruct (i =? PROTO_RPC_TCP).
  { destruct (r_state _ =? R_END); [destruct (r_mtype _ =? 0)|]; cbn [bind fst]; intros H; inversion H; exact I. }
  destruct (i =? PROTO_RPC_UDP).
  { cbn [bind fst]. intros H. inversion H. unfold rpc_repl_udp.
    destruct (_ && _); [discriminate|exact I]. }
  destruct (i =? PROTO_SMB1).
  { destruct (smb1_repl _ _ _ p) as [o|s]; cbn [bind fst]; [|discriminate]. intros H. inversion H.
    pose proof (of_opt_const o) as X. destruct (of_opt o); try exact I; contradiction. }
  destruct (i =? PROTO_SMB2).
  { destruct (smb2_repl _ _ _ p) as [o|s]; cbn [bind fst]; [|discriminate]. intros H. inversion H.
    pose proof (of_opt_const o) as X. destruct (of_opt o); try exact I; contradiction. }
  cbn [bind fst]. intros H. inversion H. exact I.
Qed.

Definition same_dynamic (c1 c2 : core) : Prop :=
  match c1, c2 with
  | CDns _, CDns _ => True
  | CStun _ _, CStun _ _ => True
  | CRpc _ false, CRpc _ false => True
  | _, _ => False
  end.

(* two consecutive replies of a chain never come from the same context-dependent responder *)
Theorem chain_no_repeat E clk p c1 ci r1 c2 :
  bytes_ok r1 = true ->
  udp_core E clk p = Ok c1 -> render c1 ci = Some r1 ->
  udp_core E clk r1 = Ok c2 -> ~ same_dynamic c1 c2.
Proof.
  intros Hok H1 Hr H2 Hs.
  pose proof (udp_core_kind _ _ _ _ H1) as K1. pose proof (udp_core_kind _ _ _ _ H2) as K2.
  destruct c1 as [| |tid sh|s1 [|]|m1]; destruct c2 as [| |tid2 sh2|s2 [|]|m2]; try contradiction.
  - (* STUN, STUN *)
    pose proof (stun_core_tid _ _ _ (eq_sym K1)) as Ht. cbn [render] in Hr.
    destruct (ci_ip_src ci) as [src|]; [|discriminate]. destruct (ci_port_src ci) as [sp|]; [|discriminate].
    destruct (ci_port_dst ci); [|discriminate]. inversion Hr; subst r1.
    rewrite (stun_nonrequests_unanswered _ (own_stun_reply_typed tid src sp Ht)) in K2. discriminate.
  - (* RPC/UDP, RPC/UDP *)
    cbn [render] in Hr. destruct (ci_ip_dst ci) as [ip|]; [|discriminate].
    destruct (ci_port_dst ci) as [port|]; [|discriminate]. cbn [render_rpc] in Hr. inversion Hr; subst r1.
    apply K2. apply rpc_udp_replies_unanswered; [exact Hok|apply own_rpc_reply_typed].
  - (* DNS, DNS *)
    cbn [render] in Hr. destruct (ci_ip_dst ci) as [ip|]; [|discriminate]. inversion Hr; subst r1.
    pose proof (dns_response_not_dns E clk _ _ (own_dns_reply_typed m1 ip) H2) as X. exact X.
Qed.

(* ---------- computed chains on the current implementation's tables ---------- *)
From MS Require Import Instance Proofs.C12Refute.

Definition x_ci : cinfo :=
  ctx_ci x_cfg [1; 2; 3; 4; 5; 6] (c_mac x_cfg)
         {| a_v4 := true; a_tcp := false; a_src := [10; 0; 0; 9]; a_dst := [10; 0; 0; 1];
            a_sport := 40000; a_dport := 3478 |}.
Definition x_chain (n : nat) (p : bytes) : list bytes := app_chain the_env x_clk x_ci n p.

(* a chain of exactly two replies: a datagram whose message-type word is REPLY and which is a
   classic STUN binding request with CHANGE-REQUEST (transaction id 00000001 00000000
   02 'a' 'b' 00 00 01 00 01) gets a STUN binding success response; that response is a DNS
   message with QDCOUNT = 0 and one well-formed record, which the DNS fallback answers with a
   bare header; the header (QR = 1) is not answered *)
Definition w_two : bytes :=
  [0; 1; 0; 8; 0; 0; 0; 1; 0; 0; 0; 0; 2; 97; 98; 0; 0; 1; 0; 1; 0; 3; 0; 4; 0; 0; 0; 0].
Lemma chain_of_length_two :
  udp_reply_typed w_two = true /\
  x_chain 8 w_two =
    [[1; 1; 0; 12; 0; 0; 0; 1; 0; 0; 0; 0; 2; 97; 98; 0; 0; 1; 0; 1; 0; 1; 0; 8; 0; 1; 156; 64; 10; 0; 0; 9];
     [1; 1; 132; 0; 0; 0; 0; 0; 0; 0; 0; 0]].
Proof. vm_compute. split; reflexivity. Qed.

Lemma chain_of_w1 : udp_reply_typed w1 = true /\ length (x_chain 8 w1) = 1%nat.
Proof. vm_compute. split; reflexivity. Qed.

Lemma chains_of_length_one :
  udp_reply_typed o_dns_rpc = true /\ length (x_chain 8 o_dns_rpc) = 1%nat /\
  udp_reply_typed o_stun_dns = true /\ length (x_chain 8 o_stun_dns) = 1%nat /\
  udp_reply_typed n_dns = true /\ x_chain 8 n_dns = [] /\
  udp_reply_typed n_stun = true /\ x_chain 8 n_stun = [] /\
  udp_reply_typed n_rpc = true /\ x_chain 8 n_rpc = [].
Proof. vm_compute. repeat split; reflexivity. Qed.

(* outside the property's list (level note of the manifest): an SSH identification string
   and a Gh0st frame are requests as well as replies, and bounce for as long as one likes *)
Lemma ssh_and_ghost_bounce_for_ever_observed :
  udp_reply_typed (e_ssh_banner the_env) = false /\ udp_reply_typed (e_ghost the_env) = false /\
  x_chain 8 (e_ssh_banner the_env) = repeat (e_ssh_banner the_env) 8 /\
  x_chain 8 (e_ghost the_env) = repeat (e_ghost the_env) 8.
Proof. vm_compute. repeat split; reflexivity. Qed.
