(* EnvOk.v -- the facts about the implementation's data (compiled automata,
   reply constants) that the theorems rely on. [env_ok] is a boolean, decided by
   kernel computation on the freshly generated data on every run (Instance.v). *)
From MS Require Export Proto Spec.C18 Spec.RefHttp Spec.HttpTbl.

Definition nonempty (b : bytes) : bool := negb (length b =? 0)%nat.

Definition not_stun_head (b : bytes) : bool := (2 <=? length b)%nat && negb (u16_at 0 b =? 257).

Definition env_ok (E : env) : bool :=
  smack_ok (e_proto_tbl E) && smack_ok (e_http_tbl E) &&
  nonempty (e_http_pre E) && nonempty (e_ssh_banner E) && nonempty (e_ghost E) &&
  bytes_ok (e_http_pre E) && bytes_ok (e_http_post E) && bytes_ok (e_ssh_banner E) && bytes_ok (e_ghost E) &&
  (* C03: a constant reply is at least two bytes long and does not begin like a
     STUN binding success response (01 01) *)
  not_stun_head (e_http_pre E) && not_stun_head (e_ssh_banner E) && not_stun_head (e_ghost E) &&
  (* C13 / C11 (HTTP): verb matcher against the method trie, the nine "VERB /"
     signatures in the protocol matcher, the 401 template around the Date value *)
  http_tbl_ok (e_http_tbl E) && proto_http_ok (e_proto_tbl E) PROTO_HTTP &&
  http_tpl_ok (e_http_pre E) (e_http_post E) &&
  (* C18: the SSH server identification and the Gh0st frame *)
  bytes_eqb (e_ssh_banner E) S_SERVER_ID && ghost_wf (e_ghost E).
