(* Spec/C16ref.v -- C16 monitors that do NOT use the model's address printer.

   Spec/C16.v compares the decoded reply with an expected reply whose universal
   address strings are produced by [uaddr_text] = [Text.render_ip] (shared with the
   responder model).  Here the comparison is made on the RECEIVED reply: wherever
   the property prescribes "the universal address of the contacted endpoint"
   (GETADDR of rpcbind v3/v4, the address of each of the three DUMP entries) the
   received string is READ with the independent readers of Spec/RefIp6Text.v
   ([uaddr_ok ip port s]: s parses to exactly the contacted address and port, RFC
   1833 / RFC 5665 universal address over the RFC 4291 text forms), whatever its
   spelling.  Everything else is compared exactly as [expected_body] prescribes:
   accept_stat, PROG_MISMATCH(2,4), void, the port of GETPORT, the three v2
   mappings, and for v3/v4 DUMP exactly three entries, program 100000, versions
   2, 3, 4 in that order, netid "tcp" / "tcp6" by IP version, owner "superuser".
   Same scope ([scope_call]), same known class ([rpc_shadowed]), same record-mark
   handling, same XID / verifier checks as [reply_eqb] against [expected_reply].
   Neither [uaddr_text] nor [render_ip] occurs below.  Definitions only. *)
From MS Require Export Bytes Types Spec.RefXdr Spec.AppView Spec.C16 Spec.RefIp6Text.

(* one rpcb entry of the v3/v4 DUMP: (100000, vers, netid, universal address, "superuser") *)
Definition rpcb_ok_ref (ip : ipaddr) (port : N) (vers : N) (e : rpcb) : bool :=
  let '(pg, vs, ni, ad, ow) := e in
  (pg =? PMAP_PROG) && (vs =? vers) && bytes_eqb ni (netid_of ip) && uaddr_ok ip port ad && bytes_eqb ow OWNER.

(* exactly three entries, versions 2, 3, 4 in that order *)
Definition dump3_ok_ref (ip : ipaddr) (port : N) (l : list rpcb) : bool :=
  match l with
  | [e2; e3; e4] => rpcb_ok_ref ip port 2 e2 && rpcb_ok_ref ip port 3 e3 && rpcb_ok_ref ip port 4 e4
  | _ => false
  end.

(* the received body [b] is the one the property prescribes for the call [c] made to (ip, port);
   same order of precedence as [expected_body] *)
Definition body_ok_ref (ip : ipaddr) (port : N) (c : rpc_call) (b : accept_body) : bool :=
  if (rc_vers c <? 2) || (4 <? rc_vers c) then
    match b with AccProgMismatch lo hi => (lo =? 2) && (hi =? 4) | _ => false end
  else if rc_proc c =? 0 then
    match b with AccSuccess ResVoid => true | _ => false end
  else if rc_prog c =? PMAP_PROG then
    if rc_proc c =? 3 then
      match b with
      | AccSuccess (ResPort q) => (rc_vers c =? 2) && (q =? port)
      | AccSuccess (ResUaddr s) => negb (rc_vers c =? 2) && uaddr_ok ip port s
      | _ => false
      end
    else if rc_proc c =? 4 then
      match b with
      | AccSuccess (ResDump2 l) => (rc_vers c =? 2) && list_eqb mapping_eqb l (dump2 port)
      | AccSuccess (ResDump3 l) => negb (rc_vers c =? 2) && dump3_ok_ref ip port l
      | _ => false
      end
    else match b with AccProcUnavail => true | _ => false end
  else match b with AccProgUnavail => true | _ => false end.

(* same XID, AUTH_NONE verifier with an empty body, the prescribed body *)
Definition reply_ok_ref (ctx : app_ctx) (c : rpc_call) (rep : rpc_reply) : bool :=
  (rp_xid rep =? rc_xid c) && (rp_verf_flavor rep =? 0) && bytes_eqb (rp_verf rep) [] &&
  body_ok_ref (ctx_dst_ip ctx) (a_dport ctx) c (rp_body rep).

(* ---- payload-level monitors ([strict = true]: no exclusion of the known class) ---- *)
Definition app_ok_C16_ref_gen (strict : bool) (ctx : app_ctx) (p : bytes) (o : option bytes) : bool :=
  match scope_call (a_tcp ctx) p with
  | None => true
  | Some c =>
    if negb strict && rpc_shadowed (a_tcp ctx) p then true
    else
      match o with
      | None => false
      | Some r =>
        match (if a_tcp ctx then strip_mark r else Some r) with
        | None => false
        | Some body =>
          match dec_reply (result_kind c) body with
          | Some rep => reply_ok_ref ctx c rep
          | None => false
          end
        end
      end
  end.

Definition app_ok_C16_ref : app_ctx -> bytes -> option bytes -> bool := app_ok_C16_ref_gen false.
Definition app_ok_C16_ref_strict : app_ctx -> bytes -> option bytes -> bool := app_ok_C16_ref_gen true.

(* ---- frame-level monitors ---- *)
Definition ok_C16_udp_ref (cfg : config) (f : bytes) (r : option bytes) : bool :=
  ok_app_udp app_ok_C16_ref cfg f r.
Definition ok_C16_tcp_ref (cfg : config) (st : ref_state) (f : bytes) (r : option bytes) : bool :=
  ok_app_tcp_first app_ok_C16_ref cfg st f r.
Definition ok_C16_udp_ref_strict (cfg : config) (f : bytes) (r : option bytes) : bool :=
  ok_app_udp app_ok_C16_ref_strict cfg f r.
Definition ok_C16_tcp_ref_strict (cfg : config) (st : ref_state) (f : bytes) (r : option bytes) : bool :=
  ok_app_tcp_first app_ok_C16_ref_strict cfg st f r.

(* the contexts on which the old monitor implies this one: the contacted address is a
   well-formed address of its family (4 / 16 octets), the port is a 16-bit number.
   Every frame gives such a context ([frame_ctx_ok], Proofs/LiftTcp.v).  NOTE: the
   hypothesis [ctx_ok] of Properties/C16.v (at most 16 octets) is weaker and does not
   suffice: for a 3-octet "IPv4" address the printer writes a text of five numbers,
   which the old monitor accepts (it compares with the same printer) and no reader
   accepts (Proofs/C16Ref.v: ex_ref_needs_wf). *)
Definition ctx_wf (ctx : app_ctx) : bool :=
  ip_ok (ctx_dst_ip ctx) && (a_dport ctx <? 65536).

(* full statement of the implication (proved: Proofs/C16Ref.v) *)
Definition C16_ref_implied_stmt : Prop :=
  forall strict ctx p o, ctx_wf ctx = true ->
    app_ok_C16_gen strict ctx p o = true -> app_ok_C16_ref_gen strict ctx p o = true.
