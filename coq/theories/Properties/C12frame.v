(* Properties/C12frame.v -- C12 (only requests are answered), frame level.  Statements only;
   proofs in Proofs/C12Shape.v, C12Own.v, C12Frame.v, C12Id.v, C12Refute.v, C12Chain.v.

   - the monitor ok_C12 of Spec/C12.v is REFUTED (C12_spec_monitor_refuted); the corrected
     monitors of Spec/C12x.v hold for every frame (C12x_frame, C12x_tcp_first_state, C12x_tcp_first_history);
   - "no reply at all unless also a valid request of another protocol": C12id theorems;
   - own-responder silence for RPC and SMB (the clauses missing in Properties/C12.v);
   - reflection chain: C12_chain_no_repeat (partial), chain_bound_stmt is NOT proved. *)
From MS Require Import L2 Rpc Smb Proto Spec.View Spec.TcpRef Spec.AppView Spec.History Spec.C09
     Spec.C12 Spec.C12x Spec.C19 Spec.EnvOk
     Proofs.C07 Proofs.C12Own Proofs.C12Frame Proofs.C12Id Proofs.C12Refute Proofs.C12Chain Instance.

(* A. every frame: layers 2-4, every datagram (all clauses), every TCP data segment (the
   clauses that do not depend on where a message starts) of a flow that has no bytes pending
   in the connection table (it is identified, or its first data segment is still to come:
   [flow_not_pending]).  The handler of a flow is given the segment that completes a
   signature joined to the bytes the flow sent before; for that segment the clauses hold of
   the joined bytes (Proofs/C12Frame.v: proto_repl_tcp_C12_joined), not of the segment. *)
Theorem C12x_frame :
  forall E cfg clk tb f tb' r evs,
    env_ok E = true -> cfg_ok cfg = true -> bytes_ok f = true -> (length f <= 4096)%nat ->
    (forall v tc, view_tcp cfg f = Some v ->
       tbl_find (flow_cookie cfg (flow_of v)) tb = Some tc -> t_pending tc = []) ->
    reply E cfg clk tb f = Ok (tb', r, evs) -> ok_C12x cfg f r = true.
Proof. exact C12Frame.C12x_frame. Qed.

(* first accepted data segment of a flow: the record-layout RPC clause as well *)
Theorem C12x_tcp_first_state :
  forall E cfg clk tb f tb' r evs v,
    env_ok E = true -> cfg_ok cfg = true -> bytes_ok f = true ->
    view_tcp cfg f = Some v -> is_data (tcp_flags (v_l4 v)) = true ->
    tbl_mem (flow_cookie cfg (flow_of v)) tb = false ->
    reply E cfg clk tb f = Ok (tb', r, evs) ->
    exists o, tcp_resp r = Some o /\ app_ok_C12x (ctx_of true v) (tcp_payload (v_l4 v)) o = true.
Proof. exact frame_tcp_first_state_C12. Qed.

Theorem C12x_tcp_first_history :
  forall E cfg h clk tb f tb' r evs,
    env_ok E = true -> cfg_ok cfg = true ->
    Forall (fun x => bytes_ok x = true) (frames h) -> bytes_ok f = true ->
    run E cfg [] h = Ok tb ->
    (forall v, view_tcp cfg f = Some v -> no_collision cfg (flow_of v :: ref_run cfg (frames h))) ->
    reply E cfg clk tb f = Ok (tb', r, evs) ->
    ok_C12x_tcp cfg (ref_run cfg (frames h)) f r = true.
Proof. exact frame_tcp_first_history_C12. Qed.

(* the monitor of Spec/C12.v does not hold of the model (witness: Proofs/C12Refute.v, w1) *)
Theorem C12_spec_monitor_refuted :
  exists E cfg clk tb f tb' r evs,
    env_ok E = true /\ cfg_ok cfg = true /\ bytes_ok f = true /\ (length f <= 4096)%nat /\
    reply E cfg clk tb f = Ok (tb', r, evs) /\ ok_C12 cfg f r = false /\ ok_C12x cfg f r = true.
Proof. exact C12Refute.C12_spec_monitor_refuted. Qed.

(* own-responder silence: ONC-RPC message type REPLY (datagram layout; record layout from a
   message boundary; on the byte stream of a flow), SMB1 / SMB2 reply flag *)
Theorem C12_rpc_udp_replies_unanswered :
  forall ip port p, bytes_ok p = true -> rpc_reply_typed_udp p = true -> rpc_repl_udp ip port p = None.
Proof. exact rpc_udp_replies_unanswered. Qed.
Theorem C12_rpc_tcp_replies_unanswered :
  forall s ip port p, r_state s = R_FRAG -> r_cur_len s = 0 ->
    bytes_ok p = true -> rpc_reply_typed_tcp p = true -> snd (rpc_repl_tcp s ip port p) = None.
Proof. exact rpc_tcp_replies_unanswered. Qed.
Theorem C12_rpc_stream_noncall_unanswered :
  forall pre data ip port,
    bytes_ok (pre ++ data) = true -> (12 <= length (pre ++ data))%nat -> u32_at 8 (pre ++ data) <> 0 ->
    snd (rpc_repl_tcp (rpc_parse (rpc_new R_FRAG) pre) ip port data) = None.
Proof. exact rpc_stream_noncall_unanswered. Qed.
Theorem C12_smb1_replies_unanswered :
  forall neg chal ft p o, smb1_reply_typed p = true -> smb1_repl neg chal ft p = Ok o -> o = None.
Proof. exact smb1_replies_unanswered. Qed.
Theorem C12_smb2_replies_unanswered :
  forall neg chal ft p o, smb2_reply_typed p = true -> smb2_repl neg chal ft p = Ok o -> o = None.
Proof. exact smb2_replies_unanswered. Qed.

(* B. a reply-typed message that is answered was handed to another protocol's responder *)
Theorem C12id_udp_other_protocol :
  forall E clk p c ci, bytes_ok p = true -> udp_core E clk p = Ok c ->
    C12_other_protocol_stmt E false p (render c ci).
Proof. exact udp_other_protocol. Qed.
Theorem C12id_tcp_first_other_protocol :
  forall E clk p c ci, bytes_ok p = true -> tcp_first_core E clk p = Ok c ->
    C12_other_protocol_stmt E true p (render c ci).
Proof. exact tcp_first_other_protocol. Qed.
Theorem C12id_frame_udp :
  forall E cfg clk tb f tb' r evs,
    cfg_ok cfg = true -> bytes_ok f = true ->
    reply E cfg clk tb f = Ok (tb', r, evs) -> ok_C12id_udp E cfg f r = true.
Proof. exact frame_udp_C12id. Qed.
Theorem C12id_frame_tcp_first_history :
  forall E cfg h clk tb f tb' r evs,
    env_ok E = true -> cfg_ok cfg = true ->
    Forall (fun x => bytes_ok x = true) (frames h) -> bytes_ok f = true ->
    run E cfg [] h = Ok tb ->
    (forall v, view_tcp cfg f = Some v -> no_collision cfg (flow_of v :: ref_run cfg (frames h))) ->
    reply E cfg clk tb f = Ok (tb', r, evs) ->
    ok_C12id_tcp E cfg (ref_run cfg (frames h)) f r = true.
Proof. exact frame_tcp_first_history_C12id. Qed.

(* C. reflection chain, partial: consecutive replies never come from the same
   context-dependent responder (DNS, STUN, RPC/UDP) *)
Theorem C12_chain_no_repeat_partial :
  forall E clk p c1 ci r1 c2,
    bytes_ok r1 = true -> udp_core E clk p = Ok c1 -> render c1 ci = Some r1 ->
    udp_core E clk r1 = Ok c2 -> ~ same_dynamic c1 c2.
Proof. exact chain_no_repeat. Qed.

(* D. non-vacuity on the current implementation's tables *)
Theorem C12_silent_examples :
  (dns_response_typed n_dns = true /\ x_verdicts [] (x_udp 53 n_dns) = Some (false, true, true)) /\
  (stun_nonrequest_typed n_stun = true /\ x_verdicts [] (x_udp 3478 n_stun) = Some (false, true, true)) /\
  (rpc_reply_typed_udp n_rpc = true /\ x_verdicts [] (x_udp 111 n_rpc) = Some (false, true, true)) /\
  (rpc_reply_typed_tcp n_rpc_tcp = true /\ tcp_resp (match x_run [] (x_tcp 111 1000 n_rpc_tcp) with Some (_, r, _, _) => r | None => None end) = Some None) /\
  (smb1_reply_typed n_smb1 = true /\ tcp_first_id the_env n_smb1 = Some PROTO_SMB1 /\
   tcp_resp (match x_run [] (x_tcp 445 1000 n_smb1) with Some (_, r, _, _) => r | None => None end) = Some None) /\
  (smb2_reply_typed n_smb2 = true /\ tcp_first_id the_env n_smb2 = Some PROTO_SMB2 /\
   tcp_resp (match x_run [] (x_tcp 445 1000 n_smb2) with Some (_, r, _, _) => r | None => None end) = Some None).
Proof. exact silent_examples. Qed.

Theorem C12_answered_by_another_protocol :
  (dns_response_typed o_dns_rpc = true /\ responder_of the_env false o_dns_rpc = PROTO_RPC_UDP /\
   match x_payload_udp (x_udp 111 o_dns_rpc) with
   | Some r => negb (is_dns_reply r) && is_rpc_reply_udp r | None => false end = true) /\
  (stun_nonrequest_typed o_stun_dns = true /\ responder_of the_env false o_stun_dns = PROTO_DNS /\
   match x_payload_udp (x_udp 53 o_stun_dns) with
   | Some r => negb (is_stun_reply r) && is_dns_reply r | None => false end = true) /\
  (rpc_reply_typed_udp w1 = true /\ responder_of the_env false w1 = PROTO_STUN /\
   match x_payload_udp (x_udp 3478 w1) with
   | Some r => negb (is_rpc_reply_udp r) && is_stun_reply r | None => false end = true).
Proof. exact answered_by_another_protocol. Qed.

Theorem C12_chain_of_length_two :
  udp_reply_typed w_two = true /\
  x_chain 8 w_two =
    [[1; 1; 0; 12; 0; 0; 0; 1; 0; 0; 0; 0; 2; 97; 98; 0; 0; 1; 0; 1; 0; 1; 0; 8; 0; 1; 156; 64; 10; 0; 0; 9];
     [1; 1; 132; 0; 0; 0; 0; 0; 0; 0; 0; 0]].
Proof. exact chain_of_length_two. Qed.

Print Assumptions C12x_frame.
Print Assumptions C12x_tcp_first_state.
Print Assumptions C12x_tcp_first_history.
Print Assumptions C12_spec_monitor_refuted.
Print Assumptions C12_rpc_udp_replies_unanswered.
Print Assumptions C12_rpc_tcp_replies_unanswered.
Print Assumptions C12_rpc_stream_noncall_unanswered.
Print Assumptions C12_smb1_replies_unanswered.
Print Assumptions C12_smb2_replies_unanswered.
Print Assumptions C12id_udp_other_protocol.
Print Assumptions C12id_tcp_first_other_protocol.
Print Assumptions C12id_frame_udp.
Print Assumptions C12id_frame_tcp_first_history.
Print Assumptions C12_chain_no_repeat_partial.
Print Assumptions C12_silent_examples.
Print Assumptions C12_answered_by_another_protocol.
Print Assumptions C12_chain_of_length_two.
