(* model_run.ml -- line-protocol driver around the extracted Coq model.
   Usage: model_run <envfile>
   stdin:  CFG ... | RESET | F <hex> [date=<hex>] [ft=<dec>]
   stdout: R <hex> | N | P <site> ; T <n> ; E ... ; END *)
open Model

let rec pos_of_int (i : int) : positive =
  if i = 1 then XH
  else if i land 1 = 1 then XI (pos_of_int (i lsr 1))
  else XO (pos_of_int (i lsr 1))
let n_of_int (i : int) : n = if i = 0 then N0 else Npos (pos_of_int i)
let rec int_of_pos (p : positive) : int =
  match p with XH -> 1 | XO q -> 2 * int_of_pos q | XI q -> 2 * int_of_pos q + 1
let int_of_n (x : n) : int = match x with N0 -> 0 | Npos p -> int_of_pos p

(* arbitrary precision for 64-bit keys / filetimes given as hex or decimal strings *)
let n_of_hex (s : string) : n =
  let acc = ref N0 in
  String.iter (fun c ->
    let d = match c with
      | '0'..'9' -> Char.code c - 48
      | 'a'..'f' -> Char.code c - 87
      | 'A'..'F' -> Char.code c - 55
      | _ -> failwith "bad hex" in
    acc := N.add (N.mul !acc (n_of_int 16)) (n_of_int d)) s;
  !acc
let n_of_dec (s : string) : n =
  let acc = ref N0 in
  String.iter (fun c -> acc := N.add (N.mul !acc (n_of_int 10)) (n_of_int (Char.code c - 48))) s;
  !acc

let bytes_of_hex (s : string) : n list =
  let l = ref [] in
  let i = ref (String.length s - 2) in
  while !i >= 0 do
    l := n_of_int (int_of_string ("0x" ^ String.sub s !i 2)) :: !l;
    i := !i - 2
  done;
  !l
let hex_of_bytes (l : n list) : string =
  let b = Buffer.create 256 in
  List.iter (fun x -> Buffer.add_string b (Printf.sprintf "%02x" (int_of_n x))) l;
  Buffer.contents b

let split_ws s = List.filter (fun x -> x <> "") (String.split_on_char ' ' s)
let kv s = match String.index_opt s '=' with
  | Some i -> (String.sub s 0 i, String.sub s (i + 1) (String.length s - i - 1))
  | None -> (s, "")

(* ---- environment file ---- *)
let ints_of_line (ws : string list) : n list = List.map (fun x -> n_of_int (int_of_string x)) ws

let read_env (path : string) : env =
  let ic = open_in path in
  let tables = Hashtbl.create 4 in
  let consts = Hashtbl.create 8 in
  let cur_name = ref "" and cur_rows = ref 0 and cur_cols = ref 0 and cur_limit = ref 0 in
  let cur_c2s = ref [] and cur_trans = ref [] and cur_match = ref [] in
  (try
     while true do
       let line = input_line ic in
       match split_ws line with
       | "smack" :: rest ->
         List.iter (fun s -> let (k, v) = kv s in
                     match k with
                     | "name" -> cur_name := v
                     | "rows" -> cur_rows := int_of_string v
                     | "row_shift" -> cur_cols := 1 lsl (int_of_string v)
                     | "match_limit" -> cur_limit := int_of_string v
                     | _ -> ()) rest;
         cur_match := []
       | "c2s" :: rest -> cur_c2s := ints_of_line rest
       | "trans" :: rest ->
         let all = Array.of_list (ints_of_line rest) in
         let rows = ref [] in
         for r = !cur_rows - 1 downto 0 do
           rows := Array.to_list (Array.sub all (r * !cur_cols) !cur_cols) :: !rows
         done;
         cur_trans := !rows
       | "match" :: _ :: _ :: ids -> cur_match := ints_of_line ids :: !cur_match
       | "end" :: _ ->
         Hashtbl.replace tables !cur_name
           { sm_rows = n_of_int !cur_rows; sm_match_limit = n_of_int !cur_limit;
             sm_c2s = !cur_c2s; sm_trans = !cur_trans; sm_match = List.rev !cur_match }
       | "const" :: name :: rest ->
         Hashtbl.replace consts name (bytes_of_hex (match rest with h :: _ -> h | [] -> ""))
       | _ -> ()
     done
   with End_of_file -> close_in ic);
  let c name = try Hashtbl.find consts name with Not_found -> [] in
  { e_proto_tbl = Hashtbl.find tables "proto"; e_http_tbl = Hashtbl.find tables "http";
    e_http_pre = c "http_pre"; e_http_post = c "http_post"; e_ssh_banner = c "ssh_banner";
    e_ghost = c "ghost"; e_smb_neg = c "smb_neg"; e_smb_chal = c "smb_chal" }

(* ---- configuration ---- *)
let parse_ip (s : string) : ipaddr =
  (* addresses are given as hex octets: 8 hex digits = IPv4, 32 = IPv6 *)
  let b = bytes_of_hex s in
  if List.length b = 4 then V4 b else V6 b

let parse_ipset (s : string) : ipaddr list option =
  if s = "none" then None
  else Some (List.map parse_ip (List.filter (fun x -> x <> "") (String.split_on_char ',' s)))

let default_cfg = { c_mac = bytes_of_hex "c0ffeec0ffee"; c_self = None; c_deny = None;
                    c_key0 = N0; c_key1 = N0; c_level = N0; c_ovf = true }

let parse_cfg (ws : string list) : config =
  List.fold_left (fun c s ->
    let (k, v) = kv s in
    match k with
    | "mac" -> { c with c_mac = bytes_of_hex v }
    | "self" -> { c with c_self = parse_ipset v }
    | "deny" -> { c with c_deny = parse_ipset v }
    | "key" -> (match String.split_on_char ',' v with
        | [a; b] -> { c with c_key0 = n_of_hex a; c_key1 = n_of_hex b }
        | _ -> c)
    | "level" -> { c with c_level = n_of_int (int_of_string v) }
    | "ovf" -> { c with c_ovf = (v = "1") }
    | _ -> c) default_cfg ws

(* ---- events ---- *)
let layer_name = function
  | LArp -> "arp" | LEth -> "eth" | LIpv4 -> "ipv4" | LIpv6 -> "ipv6"
  | LIcmpv4 -> "icmpv4" | LIcmpv6 -> "icmpv6" | LTcp -> "tcp" | LUdp -> "udp"
let verb_name = function Recv -> "recv" | Send -> "send" | Drop -> "drop"
let opt_hex = function Some b -> hex_of_bytes b | None -> "-"
let opt_ip = function Some (V4 b) -> hex_of_bytes b | Some (V6 b) -> hex_of_bytes b | None -> "-"
let opt_n = function Some x -> string_of_int (int_of_n x) | None -> "-"

let print_event (e : event) =
  let c = e.ev_ci in
  Printf.printf "E %s %s %s %s %s %s %s %s %s |%s\n" (layer_name e.ev_layer) (verb_name e.ev_verb)
    (opt_hex c.ci_mac_src) (opt_hex c.ci_mac_dst) (opt_ip c.ci_ip_src) (opt_ip c.ci_ip_dst)
    (opt_n c.ci_transport) (opt_n c.ci_port_src) (opt_n c.ci_port_dst)
    (String.concat "" (List.map (fun x -> " " ^ string_of_int (int_of_n x)) e.ev_extra))

(* decoding of ev=<events>: the IMPLEMENTATION's log, as parsed by the harness from the real
   logger lines. ';' separates events, ',' fields (layer, verb, mac_src, mac_dst, ip_src, ip_dst,
   transport, port_src, port_dst, extras), '/' the extras, '-' = absent, '.' = no event. *)
let layer_of_name = function
  | "arp" -> LArp | "eth" -> LEth | "ipv4" -> LIpv4 | "ipv6" -> LIpv6
  | "icmpv4" -> LIcmpv4 | "icmpv6" -> LIcmpv6 | "tcp" -> LTcp | "udp" -> LUdp
  | s -> failwith ("bad layer " ^ s)
let verb_of_name = function
  | "recv" -> Recv | "send" -> Send | "drop" -> Drop | s -> failwith ("bad verb " ^ s)
let dec_opt f s = if s = "-" then None else Some (f s)
let decode_event (s : string) : event =
  match String.split_on_char ',' s with
  | [l; v; ms; md; is; id; tr; ps; pd; x] ->
    { ev_layer = layer_of_name l; ev_verb = verb_of_name v;
      ev_ci = { ci_mac_src = dec_opt bytes_of_hex ms; ci_mac_dst = dec_opt bytes_of_hex md;
                ci_ip_src = dec_opt parse_ip is; ci_ip_dst = dec_opt parse_ip id;
                ci_transport = dec_opt n_of_dec tr; ci_port_src = dec_opt n_of_dec ps;
                ci_port_dst = dec_opt n_of_dec pd; ci_cookie = None };
      ev_extra = if x = "-" then [] else List.map n_of_dec (String.split_on_char '/' x) }
  | _ -> failwith "bad event"
let decode_events (s : string) : event list =
  if s = "." then [] else List.map decode_event (String.split_on_char ';' s)

(* monitors: the specifications' executable predicates, evaluated on the
   IMPLEMENTATION's answer (given as impl=<hex>|N on the F line) *)
let monitors : (string * (config -> n list -> n list option -> bool)) list = [
  ("C02", ok_C02);
  ("C03", ok_C03);
  ("C04", (fun _ _ r -> ok_C04 r));
  ("C05", ok_C05);
  ("C06", ok_C06);
  ("C12", ok_C12x);    (* Spec/C12x.v: the corrected monitor (Spec/C12.v ok_C12 over-demands, see C12_spec_monitor_refuted) *)
  ("C16udp", ok_C16_udp);
  ("C16udp_strict", ok_C16_udp_strict);
  ("C13udp", ok_C13_udp);
  ("C18udp", ok_C18_udp);
  ("C15udp", ok_C15_udp);
  ("C15udp_strict", ok_C15_udp_strict);
  ("C17udp", ok_C17_udp);
  ("C15later", ok_C15_tcp_later);             (* later segments of a flow bound to a responder: applied by the harness *)
  ("C18later_ssh", ok_C18_tcp_later_ssh);     (* only to the frames it knows to be such (Spec/Later.v) *)
  ("C18later_ghost", ok_C18_tcp_later_ghost);
  ("C16udp_ref", ok_C16_udp_ref);            (* universal addresses judged by independent readers, not by the printer *)
  ("C16udp_ref_strict", ok_C16_udp_ref_strict);
  ("C14udp_ref", ok_C14_udp_ref);            (* 'no signature completed' read on the published list *)
]

(* monitors that read the implementation's compiled signature table (env) *)
let monitors_env : (string * (env -> config -> n list -> n list option -> bool)) list = [
  ("C14udp", ok_C14_udp);
  ("C12idudp", ok_C12id_udp);
]

let monitors_env_st : (string * (env -> config -> ref_state -> n list -> n list option -> bool)) list = [
  ("C12idtcp", ok_C12id_tcp);
]

(* frame classes: known-finding classes and coverage counters *)
let classes_env : (string * (env -> config -> n list -> bool)) list = [
  ("c16", (fun _ c f -> c16_class_frame c f));
  ("c15", (fun _ c f -> c15_class_frame c f));
  ("c14pos", c14_positive_frame);
  ("c14neg", c14_negative_frame);
]

(* monitors that also need the reference connection state (first data segment of a TCP flow) *)
let monitors_st : (string * (config -> ref_state -> n list -> n list option -> bool)) list = [
  ("C07", ok_C07);
  ("C16tcp", ok_C16_tcp);
  ("C16tcp_strict", ok_C16_tcp_strict);
  ("C13tcp", ok_C13_tcp);
  ("C18tcp", ok_C18_tcp);
  ("C15tcp", ok_C15_tcp);
  ("C15tcp_strict", ok_C15_tcp_strict);
  ("C17tcp", ok_C17_tcp);
  ("C16tcp_ref", ok_C16_tcp_ref);
  ("C16tcp_ref_strict", ok_C16_tcp_ref_strict);
  ("C12tcp", ok_C12x_tcp);
]

let () =
  let env = read_env Sys.argv.(1) in
  let wanted = if Array.length Sys.argv > 2 then String.split_on_char ',' Sys.argv.(2) else [] in
  let cfg = ref default_cfg in
  let tbl : table ref = ref [] in
  let rst : ref_state ref = ref [] in
  (try
     while true do
       let line = input_line stdin in
       (match split_ws line with
        | "CFG" :: rest -> cfg := parse_cfg rest; print_string "OK\n"
        | "RESET" :: _ -> tbl := []; rst := []; print_string "OK\n"
        | "F" :: rest ->
          let (h, opts) = match rest with
            | x :: o when not (String.contains x '=') -> (x, o)
            | o -> ("", o) in
          let date = ref [] and ft = ref N0 and impl = ref None and tsize = ref (-1) and ievs = ref None in
          List.iter (fun s -> let (k, v) = kv s in
                      match k with
                      | "date" -> date := bytes_of_hex v
                      | "ft" -> ft := n_of_dec v
                      | "impl" -> impl := Some (if v = "N" then None else Some (bytes_of_hex v))
                      | "tsize" -> tsize := int_of_string v
                      | "ev" -> ievs := Some (decode_events v)
                      | _ -> ()) opts;
          let clk = { clk_date = !date; clk_filetime = !ft } in
          let frame = bytes_of_hex h in
          (match !impl with
           | Some ir ->
             List.iter (fun (name, m) ->
               if List.mem name wanted then
                 Printf.printf "V %s %d\n" name (if m !cfg frame ir then 1 else 0)) monitors;
             List.iter (fun (name, m) ->
               if List.mem name wanted then
                 Printf.printf "V %s %d\n" name (if m !cfg !rst frame ir then 1 else 0)) monitors_st;
             List.iter (fun (name, m) ->
               if List.mem name wanted then
                 Printf.printf "V %s %d\n" name (if m env !cfg frame ir then 1 else 0)) monitors_env;
             List.iter (fun (name, m) ->
               if List.mem name wanted then
                 Printf.printf "V %s %d\n" name (if m env !cfg !rst frame ir then 1 else 0)) monitors_env_st;
             (match !ievs with
              | Some evs when List.mem "C20" wanted ->
                Printf.printf "V C20 %d\n" (if ok_C20 !cfg frame ir evs then 1 else 0)
              | _ -> ())
           | None -> ());
          (* reference connection state (C07/C08/C09) advances on every frame *)
          rst := ref_step !cfg !rst frame;
          if !tsize >= 0 && List.mem "C09" wanted then begin
            let rec nat_to_int = function O -> 0 | S k -> 1 + nat_to_int k in
            let exp = nat_to_int (length (dedup (ref_keys !cfg !rst))) in
            Printf.printf "V C09 %d\n" (if exp = !tsize then 1 else 0)
          end;
          (match reply env !cfg clk !tbl frame with
           | Ok ((tb', out), evs) ->
             tbl := tb';
             (match out with
              | Some r -> Printf.printf "R %s\n" (hex_of_bytes r)
              | None -> print_string "N\n");
             Printf.printf "T %d\n" (List.length tb');
             List.iter print_event evs
           | Panic site ->
             tbl := [];
             Printf.printf "P %d\nT 0\n" (int_of_n site));
          print_string "END\n"
        | "OWN" :: f :: gs ->
          (* C08: which frames of a history are data segments of the probe's own flow /
             data segments of another flow with the same cookie *)
          let fb = bytes_of_hex f in
          let own = String.concat "" (List.map (fun g -> if own_data_of_frame !cfg fb (bytes_of_hex g) then "1" else "0") gs) in
          let col = String.concat "" (List.map (fun g -> if collides_with_frame !cfg fb (bytes_of_hex g) then "1" else "0") gs) in
          Printf.printf "O %s %s\n" (if own = "" then "-" else own) (if col = "" then "-" else col)
        | "LOG" :: fmt :: ts :: ev :: _ ->
          (* C20: the line Log.v renders for an event, given the timestamp text *)
          let e = decode_event ev in
          let t = bytes_of_hex ts in
          Printf.printf "L %s\n" (hex_of_bytes (if fmt = "console" then render_console t e else render_logfmt t e))
        | "C10STATES" :: _ ->
          (* one access string per reachable product state (matcher row x reference state) *)
          List.iter (fun ((acc, row), _) -> Printf.printf "S %s %d\n" (if acc = [] then "-" else hex_of_bytes acc) (int_of_n row))
            (product_states env.e_proto_tbl);
          print_string "END\n"
        | "C10DIS" :: _ ->
          (* strings OUTSIDE the known class on which the dumped table and the reference disagree
             (last symbol 256 = end of datagram) *)
          let on = function Some i -> string_of_int (int_of_n i) | None -> "none" in
          List.iter (fun ((s, m), r) ->
            Printf.printf "D %s %s %s\n" (String.concat "," (List.map (fun x -> string_of_int (int_of_n x)) s)) (on m) (on r))
            (disagreements_k env.e_proto_tbl k0);
          Printf.printf "OKS %d %d\n" (if product_ok env.e_proto_tbl k0 then 1 else 0)
            (if product_ok_lax env.e_proto_tbl k0 then 1 else 0);
          print_string "END\n"
        | "C10" :: rest ->
          (* reference identification and known-class membership of a payload *)
          let p = bytes_of_hex (match rest with h :: _ -> h | [] -> "") in
          let on = function Some i -> string_of_int (int_of_n i) | None -> "none" in
          Printf.printf "X %s %s %d %d\n" (on (ref_udp p)) (on (ref_tcp p))
            (if c10_class_payload false p then 1 else 0) (if c10_class_payload true p then 1 else 0)
        | "CLS" :: name :: f :: _ ->
          (* is the frame in the named class (known-finding class / coverage class)? *)
          let m = List.assoc name classes_env in
          Printf.printf "K %d\n" (if m env !cfg (bytes_of_hex f) then 1 else 0)
        | "CLS16" :: f :: _ ->
          (* C16: is the frame an in-scope RPC call of the known shadowing class? *)
          Printf.printf "K %d\n" (if c16_class_frame !cfg (bytes_of_hex f) then 1 else 0)
        | "COOKIE" :: k0 :: k1 :: src :: dst :: sp :: dp :: _ ->
          Printf.printf "C %d\n" (int_of_n (cookie (n_of_hex k0) (n_of_hex k1) (bytes_of_hex src)
                                              (bytes_of_hex dst) (n_of_dec sp) (n_of_dec dp)))
        | "M" :: st :: e :: rest ->
          let data = bytes_of_hex (match rest with h :: _ -> h | [] -> "") in
          let ((id, st2), off) = search_next env.e_proto_tbl (n_of_dec st) data in
          let (id, st2) = if e = "1" && id = None then search_next_end env.e_proto_tbl st2 else (id, st2) in
          Printf.printf "M %s %d %d\n" (match id with Some i -> string_of_int (int_of_n i) | None -> "none")
            (int_of_n st2) (let rec nat_to_int = function O -> 0 | S k -> 1 + nat_to_int k in nat_to_int off)
        | _ -> ());
       flush stdout
     done
   with End_of_file -> ())
