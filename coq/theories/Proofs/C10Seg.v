(* Proofs/C10Seg.v -- C10 over TCP: the identification does not depend on how the
   leading bytes are cut into segments.  [proto_repl_tcp] carries the matcher
   state in the control block ([t_smack]) while no signature is completed
   ([t_proto] is reset to PROTO_NONE by the default arm of [dispatch]); feeding
   the segments one by one gives the same id, the same matcher state and the same
   stream offset as one search over the concatenation. *)
From Coq Require Import Lia.
From MS Require Import Smack Proto Proofs.Tactics Proofs.Pending Proofs.SmackSeg Spec.C10.

(* the matcher over a list of segments: the state is carried from one segment to
   the next while nothing is identified; [off] = bytes of the stream consumed *)
Fixpoint ident_segs (t : smack) (st : N) (off : nat) (segs : list bytes) : option N * N * nat :=
  match segs with
  | [] => (None, st, off)
  | a :: r =>
    let '(id, st', n) := search_next t st a in
    match id with
    | Some i => (Some i, st', (off + n)%nat)
    | None => ident_segs t st' (off + length a)%nat r
    end
  end.

Section Seg.
  Variable t : smack.
  Hypothesis Hok : smack_ok t = true.
  Hypothesis Hsz : sm_rows t <= TWO24.

  (* the states the search runs through while nothing is identified *)
  Definition plain (st : N) : Prop := st < sm_rows t /\ st < sm_match_limit t.

  Lemma search_none_plain st a st' n : plain st ->
    search_next t st a = (None, st', n) -> plain st' /\ n = length a.
  Proof.
    intros [Hr Hl] H.
    destruct (search_next_cases t Hok Hsz st a Hr _ _ _ H) as (Hr' & [(_ & Hn & _ & Hc) | (i & ii & Hid & _)]);
      [|discriminate].
    split; [|exact Hn]. split; [exact Hr'|].
    destruct (N.lt_ge_cases st' (sm_match_limit t)) as [Hlo | Hhi]; [exact Hlo|].
    rewrite (sm_count_hi t st' Hok Hr' Hhi) in Hc. discriminate.
  Qed.

  Lemma search_some_inside st a i st' n : plain st ->
    search_next t st a = (Some i, st', n) -> (1 <= n <= length a)%nat.
  Proof.
    intros [Hr Hl] H.
    destruct (search_next_cases t Hok Hsz st a Hr _ _ _ H) as (Hr' & [(Hid & _) | (i' & ii & _ & Hn & Him & Hlim & _)]);
      [discriminate|].
    subst n. pose proof (inner_match_bound t a st 0%nat ii st' Him) as Hb.
    destruct (Nat.eq_dec ii (length a)) as [He | Hne]; [|lia].
    destruct a as [|x a'].
    - cbn [inner_match] in Him. inversion Him; subst. lia.
    - assert (Hne : x :: a' <> []) by discriminate.
      pose proof (inner_match_through t (x :: a') st 0%nat ii st' Him He Hne). lia.
  Qed.

  (* one cut *)
  Theorem search_next_split st a b : plain st ->
    search_next t st (a ++ b) =
    let '(id, st', n) := search_next t st a in
    match id with
    | Some i => (Some i, st', n)
    | None => let '(id2, st2, n2) := search_next t st' b in (id2, st2, (length a + n2)%nat)
    end.
  Proof.
    intros Hp. destruct (search_next t st a) as [[[i|] st'] n] eqn:H.
    - apply (search_next_app_some t Hok Hsz st a b i st' n (proj1 Hp) H).
      apply (search_some_inside st a i st' n Hp H).
    - destruct (search_next_app_none t Hok Hsz st a b st' n (proj1 Hp) H) as (_ & _ & Happ). exact Happ.
  Qed.

  (* any number of cuts *)
  Theorem ident_segs_concat segs : forall st off, plain st ->
    ident_segs t st off segs =
    let '(id, st', n) := search_next t st (concat segs) in (id, st', (off + n)%nat).
  Proof.
    induction segs as [|a r IH]; intros st off Hp; cbn [ident_segs concat].
    - destruct Hp as [Hr Hl]. rewrite search_next_row by lia. cbn [inner_match]. cbv zeta.
      rewrite (sm_count_lo t st Hok Hr Hl). change (0 =? 0) with true. cbv iota.
      rewrite Nat.add_0_r. reflexivity.
    - rewrite (search_next_split st a (concat r) Hp).
      destruct (search_next t st a) as [[[i|] st'] n] eqn:H.
      + reflexivity.
      + destruct (search_none_plain st a st' n Hp H) as [Hp' _].
        rewrite (IH st' _ Hp').
        destruct (search_next t st' (concat r)) as [[id2 st2] n2]. rewrite Nat.add_assoc. reflexivity.
  Qed.

  (* two segmentations of the same byte string are identified alike *)
  Corollary ident_segs_same_stream segs1 segs2 : concat segs1 = concat segs2 ->
    0 < sm_rows t -> 0 < sm_match_limit t ->
    ident_segs t BASE_STATE 0 segs1 = ident_segs t BASE_STATE 0 segs2.
  Proof.
    intros He H0 H1. rewrite !ident_segs_concat by (split; assumption). rewrite He. reflexivity.
  Qed.
End Seg.

(* ---------- the control block ---------- *)
Lemma dispatch_no_match E clk ci tc data :
  dispatch E clk ci NO_MATCH (Some tc) data =
  Ok (ci, Some {| t_smack := t_smack tc; t_proto := PROTO_NONE; t_pstate := t_pstate tc;
                  t_pending := t_pending tc |}, None).
Proof. reflexivity. Qed.

(* the bytes kept after one more unidentified segment / a list of them *)
Definition pending_step (p a : bytes) : bytes :=
  if lenN p + lenN a <=? PENDING_MAX then p ++ a else [].
Fixpoint pending_after (p : bytes) (segs : list bytes) : bytes :=
  match segs with
  | [] => p
  | a :: r => pending_after (pending_step p a) r
  end.

(* as long as the bound is respected, all the bytes received so far are kept *)
Lemma pending_after_small segs : forall p,
  lenN p + lenN (concat segs) <= PENDING_MAX -> pending_after p segs = p ++ concat segs.
Proof.
  induction segs as [|a r IH]; intros p H; cbn [pending_after concat].
  - rewrite app_nil_r. reflexivity.
  - cbn [concat] in H. unfold lenN in H. rewrite app_length in H.
    unfold pending_step. assert ((lenN p + lenN a <=? PENDING_MAX) = true) as -> by (unfold lenN; lia).
    rewrite IH by (unfold lenN; rewrite app_length; lia). rewrite app_assoc. reflexivity.
Qed.

(* no signature completed in this segment: no payload; the matcher state is kept, and so
   is the segment *)
Lemma proto_repl_tcp_unidentified E clk ci tc data st' n :
  t_proto tc = PROTO_NONE ->
  search_next (e_proto_tbl E) (t_smack tc) data = (None, st', n) ->
  proto_repl_tcp E clk ci tc data =
  Ok (ci, {| t_smack := st'; t_proto := PROTO_NONE; t_pstate := t_pstate tc;
             t_pending := pending_step (t_pending tc) data |}, None).
Proof.
  intros Hp H. unfold proto_repl_tcp. rewrite (tcp_identify_none E tc data st' n Hp H).
  cbn [t_proto]. rewrite dispatch_no_match. reflexivity.
Qed.

(* a signature completed in this segment: the bytes kept so far followed by the segment go
   to dispatch under that id *)
Lemma proto_repl_tcp_identified E clk ci tc data i st' n :
  t_proto tc = PROTO_NONE ->
  search_next (e_proto_tbl E) (t_smack tc) data = (Some i, st', n) ->
  proto_repl_tcp E clk ci tc data =
  let tc1 := {| t_smack := st'; t_proto := i; t_pstate := t_pstate tc; t_pending := [] |} in
  do r <- dispatch E clk ci i (Some tc1) (t_pending tc ++ data);
  let '(ci', t', out) := r in Ok (ci', match t' with Some x => x | None => tc1 end, out).
Proof.
  intros Hp H. unfold proto_repl_tcp. rewrite (tcp_identify_some E tc data i st' n Hp H). reflexivity.
Qed.

(* feed a list of segments to proto_repl_tcp; returns the control block and the payloads *)
Fixpoint tcp_feed (E : env) (clk : clock) (ci : cinfo) (tc : tcb) (segs : list bytes)
  : res (cinfo * tcb * list (option bytes)) :=
  match segs with
  | [] => Ok (ci, tc, [])
  | a :: r =>
    do x <- proto_repl_tcp E clk ci tc a;
    let '(ci', tc', out) := x in
    do y <- tcp_feed E clk ci' tc' r;
    let '(ci'', tc'', outs) := y in Ok (ci'', tc'', out :: outs)
  end.

Section Feed.
  Variables (E : env) (clk : clock) (ci : cinfo).
  Let t := e_proto_tbl E.
  Hypothesis Hok : smack_ok t = true.
  Hypothesis Hsz : sm_rows t <= TWO24.

  (* as long as the concatenation completes no signature: nothing is answered, the
     control block holds exactly the matcher state of the one-shot search, and the bytes
     received (all of them while they are at most PENDING_MAX: [pending_after_small]) *)
  Theorem tcp_feed_unidentified segs : forall tc st' n,
    t_proto tc = PROTO_NONE -> plain t (t_smack tc) ->
    search_next t (t_smack tc) (concat segs) = (None, st', n) ->
    tcp_feed E clk ci tc segs =
    Ok (ci, {| t_smack := st'; t_proto := PROTO_NONE; t_pstate := t_pstate tc;
               t_pending := pending_after (t_pending tc) segs |},
        repeat None (length segs)).
  Proof.
    induction segs as [|a r IH]; intros tc st' n Hp Hpl H; cbn [tcp_feed concat length repeat pending_after] in *.
    - destruct Hpl as [Hr Hl]. rewrite search_next_row in H by lia. cbn [inner_match] in H. cbv zeta in H.
      rewrite (sm_count_lo t _ Hok Hr Hl) in H. change (0 =? 0) with true in H. cbv iota in H.
      injection H as <- _. destruct tc as [s p ps pe]. cbn [t_smack t_proto t_pstate t_pending] in *. subst p. reflexivity.
    - rewrite (search_next_split t Hok Hsz _ a (concat r) Hpl) in H.
      destruct (search_next t (t_smack tc) a) as [[[i|] st1] n1] eqn:Ha; [discriminate|].
      fold t in Ha |- *.
      rewrite (proto_repl_tcp_unidentified E clk ci tc a st1 n1 Hp Ha). cbn [bind].
      destruct (search_none_plain t Hok Hsz _ a st1 n1 Hpl Ha) as [Hpl1 _].
      destruct (search_next t st1 (concat r)) as [[id2 st2] n2] eqn:Hr.
      injection H as -> -> _.
      rewrite (IH {| t_smack := st1; t_proto := PROTO_NONE; t_pstate := t_pstate tc;
                     t_pending := pending_step (t_pending tc) a |} st' n2
                  eq_refl Hpl1 Hr).
      reflexivity.
  Qed.

  (* a fresh flow whose first bytes (at most PENDING_MAX of them) complete no signature *)
  Corollary tcp_feed_unidentified_new segs st' n :
    0 < sm_rows t -> 0 < sm_match_limit t ->
    lenN (concat segs) <= PENDING_MAX ->
    search_next t BASE_STATE (concat segs) = (None, st', n) ->
    tcp_feed E clk ci tcb_new segs =
    Ok (ci, {| t_smack := st'; t_proto := PROTO_NONE; t_pstate := None; t_pending := concat segs |},
        repeat None (length segs)).
  Proof.
    intros H0 H1 Hlen H.
    rewrite (tcp_feed_unidentified segs tcb_new st' n eq_refl (conj H0 H1) H).
    cbn [tcb_new t_pstate t_pending]. rewrite pending_after_small by (cbn; exact Hlen). reflexivity.
  Qed.

  (* the segment in which a signature of the stream is completed is dispatched under the
     id the one-shot search over the whole stream gives, whatever the cuts -- and the
     handler is given the whole stream so far *)
  Theorem tcp_feed_identified segs a i st' n :
    0 < sm_rows t -> 0 < sm_match_limit t ->
    lenN (concat segs) <= PENDING_MAX ->
    search_next t BASE_STATE (concat segs ++ a) = (Some i, st', n) ->
    (length (concat segs) < n)%nat ->
    exists st1,
      let tc0 := {| t_smack := st1; t_proto := PROTO_NONE; t_pstate := None; t_pending := concat segs |} in
      tcp_feed E clk ci tcb_new segs = Ok (ci, tc0, repeat None (length segs)) /\
      proto_repl_tcp E clk ci tc0 a =
        (let tc1 := {| t_smack := st'; t_proto := i; t_pstate := None; t_pending := [] |} in
         do r <- dispatch E clk ci i (Some tc1) (concat segs ++ a);
         let '(ci', t', out) := r in Ok (ci', match t' with Some x => x | None => tc1 end, out)).
  Proof.
    intros H0 H1 Hlen H Hn.
    assert (Hpl : plain t BASE_STATE) by (split; assumption).
    rewrite (search_next_split t Hok Hsz BASE_STATE (concat segs) a Hpl) in H.
    destruct (search_next t BASE_STATE (concat segs)) as [[[j|] st1] n1] eqn:Hs.
    - injection H as -> -> ->.
      pose proof (search_some_inside t Hok Hsz _ _ _ _ _ Hpl Hs). lia.
    - exists st1. cbv zeta. split.
      + exact (tcp_feed_unidentified_new segs st1 n1 H0 H1 Hlen Hs).
      + destruct (search_next t st1 a) as [[id2 st2] n2] eqn:Ha. injection H as -> -> _.
        exact (proto_repl_tcp_identified E clk ci
                 {| t_smack := st1; t_proto := PROTO_NONE; t_pstate := None; t_pending := concat segs |}
                 a i st' n2 eq_refl Ha).
  Qed.

  (* the same, in terms of the identification functions *)
  Corollary tcp_feed_first_id segs a i :
    0 < sm_rows t -> 0 < sm_match_limit t ->
    lenN (concat segs) <= PENDING_MAX ->
    tcp_first_id_tbl t (concat segs) = None ->
    tcp_first_id_tbl t (concat segs ++ a) = Some i ->
    exists st1 st',
      let tc0 := {| t_smack := st1; t_proto := PROTO_NONE; t_pstate := None; t_pending := concat segs |} in
      tcp_feed E clk ci tcb_new segs = Ok (ci, tc0, repeat None (length segs)) /\
      proto_repl_tcp E clk ci tc0 a =
        (let tc1 := {| t_smack := st'; t_proto := i; t_pstate := None; t_pending := [] |} in
         do r <- dispatch E clk ci i (Some tc1) (concat segs ++ a);
         let '(ci', t', out) := r in Ok (ci', match t' with Some x => x | None => tc1 end, out)).
  Proof.
    intros H0 H1 Hlen Hn Hs. unfold tcp_first_id_tbl in Hn, Hs.
    assert (Hpl : plain t BASE_STATE) by (split; assumption).
    destruct (search_next t BASE_STATE (concat segs ++ a)) as [[id st'] n] eqn:Hsa. subst id.
    destruct (search_next t BASE_STATE (concat segs)) as [[id1 st1] n1] eqn:Hs1. subst id1.
    destruct (search_none_plain t Hok Hsz _ _ _ _ Hpl Hs1) as [_ Hn1].
    assert (Hlt : (length (concat segs) < n)%nat).
    { rewrite (search_next_split t Hok Hsz BASE_STATE (concat segs) a Hpl), Hs1 in Hsa.
      destruct (search_next t st1 a) as [[id2 st2] n2] eqn:Ha. injection Hsa as -> -> <-.
      destruct (search_none_plain t Hok Hsz _ _ _ _ Hpl Hs1) as [Hpl1 _].
      pose proof (search_some_inside t Hok Hsz _ _ _ _ _ Hpl1 Ha). lia. }
    destruct (tcp_feed_identified segs a i st' n H0 H1 Hlen Hsa Hlt) as (s1 & Hf & Hr).
    exists s1, st'. split; assumption.
  Qed.

  (* whole streams: two segmentations of the same bytes, none of which is identified
     before its last segment, hand their last segments to the same responder id *)
  Corollary tcp_first_id_concat segs :
    0 < sm_rows t -> 0 < sm_match_limit t ->
    fst (fst (ident_segs t BASE_STATE 0 segs)) = tcp_first_id_tbl t (concat segs).
  Proof.
    intros H0 H1. rewrite (ident_segs_concat t Hok Hsz segs BASE_STATE 0%nat) by (split; assumption).
    unfold tcp_first_id_tbl. destruct (search_next t BASE_STATE (concat segs)) as [[id st] n]. reflexivity.
  Qed.
End Feed.
