/* LD_PRELOAD shim for the hooked masscanned driver: every clock the process reads (CLOCK_REALTIME behind
 * SystemTime::now / chrono::Utc::now, CLOCK_MONOTONIC behind Instant::now) is shifted by an offset that the
 * driver's "ADV <seconds>" command advances. It lets a check put hours between two frames of one history
 * without waiting: the properties quantify over all histories, and nothing in them depends on elapsed time. */
#define _GNU_SOURCE
#include <dlfcn.h>
#include <time.h>

static long long offset_s = 0;
static int (*real_clock_gettime)(clockid_t, struct timespec *) = 0;

/* LLONG_MIN: back to the real clocks (the driver does this at every RESET, i.e. between two histories) */
void masscanned_verif_clock_advance(long long secs) {
    if (secs == (-9223372036854775807LL - 1))
        offset_s = 0;
    else
        offset_s += secs;
}

int clock_gettime(clockid_t id, struct timespec *ts) {
    if (!real_clock_gettime)
        real_clock_gettime = (int (*)(clockid_t, struct timespec *))dlsym(RTLD_NEXT, "clock_gettime");
    int r = real_clock_gettime(id, ts);
    if (r == 0 && ts)
        ts->tv_sec += offset_s;
    return r;
}
