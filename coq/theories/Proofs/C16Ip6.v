(* Proofs/C16Ip6.v -- the independent reader of Spec/RefIp6Text.v reads back what
   the model's printer [render_ipv6] (Rust's Display for Ipv6Addr) writes, for ALL
   16-octet addresses; the IPv6 universal address reads back to (address, port);
   consequently the printer is injective, and the strengthened C16 reference
   [uaddr_ok] accepts the model's universal address for every well-formed endpoint.

   Structure of the argument (no enumeration of addresses):
     1. every group value below 65536 is written by [hex_digits] as a non-empty
        text without ':' or '.', which [group_value] reads back (a finite check
        over the 65536 group values, lifted with [forallb_forall]);
     2. splitting a ':'-joined list of such texts gives the list back, and no "::"
        occurs inside or at the end of it;
     3. [zero_run] returns SOME run of zero groups inside the list (invariant of
        the scan) -- which one is irrelevant for the reader: "::" is filled with
        8 - (written groups) zero groups, so the address is recovered whatever
        run the printer chose to compress;
     4. the IPv4-mapped form separately. *)
From MS Require Import Proofs.Tactics Text Spec.C16 Spec.View Spec.RefIp6Text Proofs.C16Text.

(* ================= 1. generic facts on split / join ================= *)
Definition nosep (sep : N) (x : bytes) : bool := forallb (fun b => negb (b =? sep)) x.

Lemma nosep_app (sep : N) (x y : bytes) : nosep sep (x ++ y) = nosep sep x && nosep sep y.
Proof. unfold nosep. apply forallb_app. Qed.

Lemma nosep_cons (sep b : N) (x : bytes) : nosep sep (b :: x) = negb (b =? sep) && nosep sep x.
Proof. reflexivity. Qed.

Lemma split_on_app_gen (sep : N) (x rest cur : bytes) :
  nosep sep x = true -> split_on sep (x ++ sep :: rest) cur = (rev cur ++ x) :: split_on sep rest [].
Proof.
  revert cur. induction x as [|b x IH]; intros cur H.
  - cbn [app split_on]. rewrite N.eqb_refl, app_nil_r. reflexivity.
  - rewrite nosep_cons, andb_true_iff in H. destruct H as [Hb Hx].
    cbn [app split_on]. destruct (b =? sep); [discriminate|].
    rewrite (IH (b :: cur) Hx). cbn [rev]. rewrite <- app_assoc. reflexivity.
Qed.

Lemma split_on_last_gen (sep : N) (x cur : bytes) : nosep sep x = true -> split_on sep x cur = [rev cur ++ x].
Proof.
  revert cur. induction x as [|b x IH]; intros cur H.
  - cbn [split_on]. rewrite app_nil_r. reflexivity.
  - rewrite nosep_cons, andb_true_iff in H. destruct H as [Hb Hx].
    cbn [split_on]. destruct (b =? sep); [discriminate|].
    rewrite (IH (b :: cur) Hx). cbn [rev]. rewrite <- app_assoc. reflexivity.
Qed.

Lemma join_cons2 (sep : N) (f f2 : bytes) (t : list bytes) :
  join sep (f :: f2 :: t) = f ++ sep :: join sep (f2 :: t).
Proof. reflexivity. Qed.

Lemma join_one (sep : N) (f : bytes) : join sep [f] = f.
Proof. reflexivity. Qed.

(* a joined non-empty list starts with its first field *)
Lemma join_cons_app (sep : N) (f : bytes) (t : list bytes) : exists rest, join sep (f :: t) = f ++ rest.
Proof.
  destruct t as [|f2 t].
  - exists []. rewrite join_one, app_nil_r. reflexivity.
  - exists (sep :: join sep (f2 :: t)). apply join_cons2.
Qed.

Lemma split_on_join (sep : N) (fs : list bytes) :
  fs <> [] -> (forall f, In f fs -> nosep sep f = true) -> split_on sep (join sep fs) [] = fs.
Proof.
  induction fs as [|f t IH]; intros Hne Hall; [congruence|].
  assert (Hf : nosep sep f = true) by (apply Hall; left; reflexivity).
  destruct t as [|f2 t].
  - rewrite join_one. rewrite (split_on_last_gen sep f [] Hf). reflexivity.
  - rewrite join_cons2. rewrite (split_on_app_gen sep f _ [] Hf). cbn [rev app].
    f_equal. apply IH; [discriminate|]. intros g Hg. apply Hall. right. exact Hg.
Qed.

Lemma forallb_firstn {A} (p : A -> bool) (n : nat) (l : list A) :
  forallb p l = true -> forallb p (firstn n l) = true.
Proof.
  revert l. induction n as [|n IH]; intros l H; [reflexivity|].
  destruct l as [|x l]; [reflexivity|]. cbn [forallb firstn] in *.
  rewrite andb_true_iff in *. destruct H as [Hx Hl]. split; [exact Hx | apply IH; exact Hl].
Qed.

Lemma forallb_skipn {A} (p : A -> bool) (n : nat) (l : list A) :
  forallb p l = true -> forallb p (skipn n l) = true.
Proof.
  revert l. induction n as [|n IH]; intros l H; [exact H|].
  destruct l as [|x l]; [reflexivity|]. cbn [forallb skipn] in *.
  rewrite andb_true_iff in H. destruct H as [_ Hl]. apply IH; exact Hl.
Qed.

(* ================= 2. one group: all 65536 values ================= *)
Definition is_cons (l : bytes) : bool := match l with [] => false | _ :: _ => true end.

Definition grp_text_ok (n : N) : bool :=
  let t := hex_digits n in
  nosep 58 t && nosep 46 t && is_cons t &&
  match group_value t with Some m => m =? n | None => false end.

Definition bytes256 : list N := map N.of_nat (seq 0 256).
Definition all_groups16 : list N := flat_map (fun hi => map (fun lo => hi * 256 + lo) bytes256) bytes256.

Lemma in_bytes256 (n : N) : n < 256 -> In n bytes256.
Proof. intros H. apply in_map_iff. exists (N.to_nat n). split; [lia|]. apply in_seq. lia. Qed.

Lemma in_all_groups16 (n : N) : n < 65536 -> In n all_groups16.
Proof.
  intros H. apply in_flat_map. exists (n / 256). split; [apply in_bytes256; lia|].
  apply in_map_iff. exists (n mod 256). split; [lia | apply in_bytes256; lia].
Qed.

Lemma grp_text_all : forallb grp_text_ok all_groups16 = true.
Proof. vm_compute. reflexivity. Qed.

Lemma grp_text (n : N) : n < 65536 ->
  nosep 58 (hex_digits n) = true /\ nosep 46 (hex_digits n) = true /\
  (exists c r, hex_digits n = c :: r /\ (c =? 58) = false) /\
  group_value (hex_digits n) = Some n.
Proof.
  intros Hn. pose proof grp_text_all as H. rewrite forallb_forall in H.
  specialize (H n (in_all_groups16 n Hn)). unfold grp_text_ok in H.
  rewrite !andb_true_iff in H. destruct H as [[[H1 H2] H3] H4].
  split; [exact H1|]. split; [exact H2|]. split.
  - destruct (hex_digits n) as [|c r]; [discriminate|]. exists c, r. split; [reflexivity|].
    rewrite nosep_cons, andb_true_iff in H1. destruct H1 as [Hc _]. destruct (c =? 58); [discriminate | reflexivity].
  - destruct (group_value (hex_digits n)) as [m|]; [|discriminate].
    apply N.eqb_eq in H4. subst m. reflexivity.
Qed.

(* the decimal text of an octet has no ':' either (no '.': [octet_text] of C16Text.v) *)
Lemma dec_nocolon_all : forallb (fun n => nosep 58 (dec_digits n)) bytes256 = true.
Proof. vm_compute. reflexivity. Qed.
Lemma dec_nocolon (n : N) : n < 256 -> nosep 58 (dec_digits n) = true.
Proof.
  intros Hn. pose proof dec_nocolon_all as H. rewrite forallb_forall in H. apply H. apply in_bytes256. exact Hn.
Qed.

(* ================= 3. a list of groups, written and read ================= *)
Definition gok (l : list N) : bool := forallb (fun g => g <? 65536) l.

Lemma gok_cons (x : N) (l : list N) : gok (x :: l) = true -> x < 65536 /\ gok l = true.
Proof. unfold gok. cbn [forallb]. rewrite andb_true_iff. intros [H1 H2]. split; [lia | exact H2]. Qed.

Lemma field_groups_cons2 (v4 : bool) (f f2 : bytes) (t : list bytes) :
  field_groups v4 (f :: f2 :: t) =
  match group_value f, field_groups v4 (f2 :: t) with
  | Some g, Some r => Some (g :: r)
  | _, _ => None
  end.
Proof. reflexivity. Qed.

Lemma field_groups_one (v4 : bool) (f : bytes) :
  field_groups v4 [f] =
  if v4 && has_dot f then v4_groups f
  else match group_value f with Some g => Some [g] | None => None end.
Proof. reflexivity. Qed.

Lemma has_dot_nosep (f : bytes) : nosep 46 f = true -> has_dot f = false.
Proof.
  induction f as [|b f IH]; intros H; [reflexivity|].
  rewrite nosep_cons, andb_true_iff in H. destruct H as [Hb Hf].
  unfold has_dot in *. cbn [existsb]. rewrite (IH Hf). destruct (b =? 46); [discriminate | reflexivity].
Qed.

Lemma field_groups_hex (v4 : bool) (l : list N) :
  l <> [] -> gok l = true -> field_groups v4 (map hex_digits l) = Some l.
Proof.
  induction l as [|x t IH]; intros Hne Hok; [congruence|].
  apply gok_cons in Hok. destruct Hok as [Hx Ht].
  destruct (grp_text x Hx) as (_ & Hnd & _ & Hv).
  destruct t as [|y t].
  - cbn [map]. rewrite field_groups_one, (has_dot_nosep _ Hnd), andb_false_r, Hv. reflexivity.
  - change (map hex_digits (x :: y :: t)) with (hex_digits x :: hex_digits y :: map hex_digits t).
    rewrite field_groups_cons2, Hv.
    change (hex_digits y :: map hex_digits t) with (map hex_digits (y :: t)).
    rewrite IH; [reflexivity | discriminate | exact Ht].
Qed.

Lemma hex_fields_nocolon (l : list N) :
  gok l = true -> forall f, In f (map hex_digits l) -> nosep 58 f = true.
Proof.
  intros Hok f Hf. apply in_map_iff in Hf. destruct Hf as (x & <- & Hx).
  unfold gok in Hok. rewrite forallb_forall in Hok. specialize (Hok x Hx).
  apply (grp_text x). lia.
Qed.

(* the joined text of a non-empty list of groups starts with a character that is not ':' *)
Lemma join_hex_head (x : N) (t : list N) :
  x < 65536 -> exists c r, join 58 (map hex_digits (x :: t)) = c :: r /\ (c =? 58) = false.
Proof.
  intros Hx. destruct (grp_text x Hx) as (_ & _ & (c & r & Eh & Hc) & _).
  cbn [map]. destruct (join_cons_app 58 (hex_digits x) (map hex_digits t)) as (rest & Er).
  exists c, (r ++ rest). rewrite Er, Eh. split; [reflexivity | exact Hc].
Qed.

Lemma text_groups_join (v4 : bool) (l : list N) :
  gok l = true -> text_groups v4 (join 58 (map hex_digits l)) = Some l.
Proof.
  intros Hok. destruct l as [|x t]; [reflexivity|].
  pose proof Hok as Hok'. apply gok_cons in Hok'. destruct Hok' as [Hx _].
  destruct (join_hex_head x t Hx) as (c & r & Ej & _).
  unfold text_groups. rewrite Ej. rewrite <- Ej.
  rewrite split_on_join; [| cbn [map]; discriminate | apply hex_fields_nocolon; exact Hok].
  apply field_groups_hex; [discriminate | exact Hok].
Qed.

(* ================= 4. where the first "::" is ================= *)
Lemma find_dcolon_unfold (a : N) (s' : bytes) :
  find_dcolon (a :: s') =
  match s' with
  | [] => None
  | b :: t =>
    if (a =? 58) && (b =? 58) then Some ([], t)
    else match find_dcolon s' with Some (l, r) => Some (a :: l, r) | None => None end
  end.
Proof. reflexivity. Qed.

Definition fd_shift (x : bytes) (r : option (bytes * bytes)) : option (bytes * bytes) :=
  match r with Some (l, r) => Some (x ++ l, r) | None => None end.

Lemma fd_shift_nil (r : option (bytes * bytes)) : fd_shift [] r = r.
Proof. destruct r as [[l r]|]; reflexivity. Qed.

Lemma fd_nocolon (x Y : bytes) : nosep 58 x = true -> find_dcolon (x ++ Y) = fd_shift x (find_dcolon Y).
Proof.
  induction x as [|a x IH]; intros H.
  - cbn [app]. rewrite fd_shift_nil. reflexivity.
  - rewrite nosep_cons, andb_true_iff in H. destruct H as [Ha Hx].
    cbn [app]. rewrite find_dcolon_unfold. destruct (x ++ Y) as [|b t] eqn:E.
    + apply app_eq_nil in E. destruct E as [-> ->]. reflexivity.
    + destruct (a =? 58); [discriminate|]. cbn [andb]. rewrite <- E in *. rewrite (IH Hx).
      destruct (find_dcolon Y) as [[l r]|]; reflexivity.
Qed.

Lemma fd_colon_c (c : N) (Y : bytes) : (c =? 58) = false ->
  find_dcolon (58 :: c :: Y) = fd_shift [58] (find_dcolon (c :: Y)).
Proof.
  intros Hc. rewrite find_dcolon_unfold, Hc, andb_false_r.
  destruct (find_dcolon (c :: Y)) as [[l r]|]; reflexivity.
Qed.

Lemma fd_dcolon (R : bytes) : find_dcolon (58 :: 58 :: R) = Some ([], R).
Proof. rewrite find_dcolon_unfold, N.eqb_refl. reflexivity. Qed.

(* no "::" inside a joined list of groups, and none across its end *)
Lemma fd_join (L : list N) (Y : bytes) :
  gok L = true ->
  find_dcolon (join 58 (map hex_digits L) ++ Y) = fd_shift (join 58 (map hex_digits L)) (find_dcolon Y).
Proof.
  induction L as [|x t IH]; intros Hok.
  - cbn [map join app]. rewrite fd_shift_nil. reflexivity.
  - apply gok_cons in Hok. destruct Hok as [Hx Ht].
    destruct (grp_text x Hx) as (Hnc & _ & _ & _).
    destruct t as [|y t].
    + cbn [map]. rewrite join_one. apply fd_nocolon. exact Hnc.
    + change (map hex_digits (x :: y :: t)) with (hex_digits x :: hex_digits y :: map hex_digits t).
      rewrite join_cons2.
      change (hex_digits y :: map hex_digits t) with (map hex_digits (y :: t)).
      specialize (IH Ht).
      pose proof Ht as Ht'. apply gok_cons in Ht'. destruct Ht' as [Hy _].
      destruct (join_hex_head y t Hy) as (c & r & Ej & Hc).
      rewrite Ej in *. rewrite <- app_assoc. cbn [app] in *.
      rewrite (fd_nocolon _ _ Hnc), (fd_colon_c c _ Hc), IH.
      destruct (find_dcolon Y) as [[l r']|]; cbn [fd_shift]; [|reflexivity].
      rewrite <- !app_assoc. reflexivity.
Qed.

Lemma fd_join_none (L : list N) : gok L = true -> find_dcolon (join 58 (map hex_digits L)) = None.
Proof.
  intros Hok. pose proof (fd_join L [] Hok) as H. rewrite app_nil_r in H. rewrite H. reflexivity.
Qed.

(* ================= 5. what [zero_run] returns ================= *)
(* [n] zero groups at position [s] of [full] *)
Definition zeros_at (full : list N) (s n : nat) : Prop :=
  (s + n <= length full)%nat /\ forall i, (s <= i < s + n)%nat -> nth i full 1 = 0.

Lemma skipn_cons_inv (full : list N) : forall (i : nat) (x : N) (t : list N),
  skipn i full = x :: t -> t = skipn (S i) full /\ nth i full 1 = x /\ (i < length full)%nat.
Proof.
  induction full as [|y full IH]; intros i x t H.
  - destruct i; discriminate.
  - destruct i as [|i].
    + cbn [skipn] in H. injection H as -> ->. cbn [skipn nth length]. repeat split. lia.
    + cbn [skipn] in H. destruct (IH i x t H) as (H1 & H2 & H3).
      cbn [nth length]. split; [exact H1|]. split; [exact H2 | lia].
Qed.

Lemma zero_run_inv (full : list N) : forall (l : list N) (idx cs cl bs bl : nat),
  l = skipn idx full ->
  (cl = 0 \/ cs + cl = idx)%nat ->
  (forall i, (cs <= i < cs + cl)%nat -> nth i full 1 = 0) ->
  zeros_at full bs bl ->
  zeros_at full (fst (zero_run l idx cs cl bs bl)) (snd (zero_run l idx cs cl bs bl)).
Proof.
  induction l as [|x t IH]; intros idx cs cl bs bl Hl Hcur Hcz Hb.
  - cbn [zero_run fst snd]. exact Hb.
  - symmetry in Hl. destruct (skipn_cons_inv full idx x t Hl) as (Ht & Hx & Hlt).
    cbn [zero_run]. destruct (x =? 0) eqn:Ex.
    + apply N.eqb_eq in Ex. rewrite Ex in Hx.
      set (cs' := if (cl =? 0)%nat then idx else cs).
      assert (Hcs' : (cs' + S cl = S idx)%nat).
      { unfold cs'. destruct (cl =? 0)%nat eqn:E0; lia. }
      assert (Hcz' : forall i, (cs' <= i < cs' + S cl)%nat -> nth i full 1 = 0).
      { intros i Hi. destruct (Nat.eq_dec i idx) as [->|Hne]; [exact Hx|].
        apply Hcz. unfold cs' in *. destruct (cl =? 0)%nat eqn:E0; lia. }
      destruct (bl <? S cl)%nat.
      * apply IH; [exact Ht | right; exact Hcs' | exact Hcz' |].
        split; [lia | exact Hcz'].
      * apply IH; [exact Ht | right; exact Hcs' | exact Hcz' | exact Hb].
    + apply IH; [exact Ht | left; reflexivity | intros i Hi; lia | exact Hb].
Qed.

Lemma zero_run_zeros (segs : list N) :
  zeros_at segs (fst (zero_run segs 0 0 0 0 0)) (snd (zero_run segs 0 0 0 0 0)).
Proof.
  apply zero_run_inv; [reflexivity | left; reflexivity | intros i Hi; lia |].
  split; [lia | intros i Hi; lia].
Qed.

Lemma zeros_prefix : forall (n : nat) (l : list N),
  (n <= length l)%nat -> (forall i, (i < n)%nat -> nth i l 1 = 0) -> l = repeat 0 n ++ skipn n l.
Proof.
  induction n as [|n IH]; intros l Hlen Hz; [reflexivity|].
  destruct l as [|x l]; [cbn [length] in Hlen; lia|].
  cbn [repeat skipn app]. f_equal.
  - apply (Hz 0%nat). lia.
  - apply IH; [cbn [length] in Hlen; lia|]. intros i Hi. apply (Hz (S i)). lia.
Qed.

Lemma zeros_at_split : forall (s n : nat) (full : list N),
  zeros_at full s n -> full = firstn s full ++ repeat 0 n ++ skipn (s + n) full.
Proof.
  induction s as [|s IH]; intros n full [Hlen Hz].
  - cbn [firstn app Nat.add]. apply zeros_prefix; [lia|]. intros i Hi. apply Hz. lia.
  - destruct full as [|x full]; [cbn [length] in Hlen; lia|].
    cbn [firstn skipn app Nat.add]. f_equal. apply IH. split.
    + cbn [length] in Hlen. lia.
    + intros i Hi. apply (Hz (S i)). lia.
Qed.

(* ================= 6. the general (not IPv4-mapped) form ================= *)
Definition render_groups (segs : list N) : bytes :=
  let '(zs, zl) := zero_run segs 0 0 0 0 0 in
  if (1 <? zl)%nat then
    join COLON (map hex_digits (firstn zs segs)) ++ [COLON; COLON] ++
    join COLON (map hex_digits (skipn (zs + zl) segs))
  else join COLON (map hex_digits segs).

Definition mapped_cond (segs : list N) : bool :=
  forallb (fun x => x =? 0) (firstn 5 segs) && (nth 5 segs 0 =? 65535).

Lemma render_ipv6_eq (o : bytes) :
  render_ipv6 o =
  if mapped_cond (segments o)
  then [COLON; COLON; 102; 102; 102; 102; COLON] ++ render_ipv4 (skipn 12 o)
  else render_groups (segments o).
Proof. reflexivity. Qed.

(* the reader accepts the compression of ANY run of one or more zero groups (RFC 4291),
   not only the one the printer chooses *)
Lemma parse_any_compression (segs : list N) (s n : nat) :
  length segs = 8%nat -> gok segs = true -> zeros_at segs s n -> (1 <= n)%nat ->
  parse_ip6_groups (join 58 (map hex_digits (firstn s segs)) ++ [58; 58] ++
                    join 58 (map hex_digits (skipn (s + n) segs))) = Some segs.
Proof.
  intros Hlen Hok Hz Hn. pose proof Hz as [Hzlen _].
  assert (HokL : gok (firstn s segs) = true) by (apply forallb_firstn; exact Hok).
  assert (HokR : gok (skipn (s + n) segs) = true) by (apply forallb_skipn; exact Hok).
  unfold parse_ip6_groups. rewrite (fd_join _ _ HokL). cbn [app]. rewrite fd_dcolon.
  cbn [fd_shift]. rewrite app_nil_r.
  rewrite (text_groups_join false _ HokL), (text_groups_join true _ HokR).
  rewrite firstn_length, skipn_length, Hlen.
  replace (Nat.min s 8 + (8 - (s + n)) <? 8)%nat with true by lia.
  replace (8 - (Nat.min s 8 + (8 - (s + n))))%nat with n by lia.
  f_equal. symmetry. apply zeros_at_split. exact Hz.
Qed.

Lemma parse_render_groups (segs : list N) :
  length segs = 8%nat -> gok segs = true -> parse_ip6_groups (render_groups segs) = Some segs.
Proof.
  intros Hlen Hok. unfold render_groups. pose proof (zero_run_zeros segs) as Hz.
  destruct (zero_run segs 0 0 0 0 0) as [zs zl]. cbn [fst snd] in Hz. unfold COLON.
  destruct (1 <? zl)%nat eqn:Ezl.
  - apply parse_any_compression; [exact Hlen | exact Hok | exact Hz | lia].
  - unfold parse_ip6_groups. rewrite (fd_join_none _ Hok), (text_groups_join true _ Hok), Hlen.
    reflexivity.
Qed.

(* ================= 7. the IPv4-mapped form ================= *)
Lemma has_dot_mid (x y : bytes) : has_dot (x ++ 46 :: y) = true.
Proof.
  unfold has_dot. rewrite existsb_app. cbn [existsb]. rewrite N.eqb_refl, orb_true_r. reflexivity.
Qed.

Lemma v4_groups_render (a b c d : N) :
  a < 256 -> b < 256 -> c < 256 -> d < 256 ->
  v4_groups (render_ipv4 [a; b; c; d]) = Some [a * 256 + b; c * 256 + d].
Proof.
  intros Ha Hb Hc Hd.
  destruct (octet_text a Ha) as [Na Va]. destruct (octet_text b Hb) as [Nb Vb].
  destruct (octet_text c Hc) as [Nc Vc]. destruct (octet_text d Hd) as [Nd Vd].
  unfold v4_groups, render_ipv4. cbn [map join]. unfold DOT.
  rewrite (split_on_app _ _ [] Na), (split_on_app _ _ [] Nb), (split_on_app _ _ [] Nc), (split_on_last _ [] Nd).
  cbn [rev app map]. rewrite Va, Vb, Vc, Vd.
  replace (a <? 256) with true by lia. replace (b <? 256) with true by lia.
  replace (c <? 256) with true by lia. replace (d <? 256) with true by lia.
  reflexivity.
Qed.

Lemma render_ipv4_nocolon (a b c d : N) :
  a < 256 -> b < 256 -> c < 256 -> d < 256 -> nosep 58 (render_ipv4 [a; b; c; d]) = true.
Proof.
  intros Ha Hb Hc Hd. unfold render_ipv4. cbn [map join]. unfold DOT.
  rewrite !nosep_app, !nosep_cons, !nosep_app, !nosep_cons, !nosep_app, !nosep_cons.
  rewrite (dec_nocolon a Ha), (dec_nocolon b Hb), (dec_nocolon c Hc), (dec_nocolon d Hd).
  reflexivity.
Qed.

Lemma parse_mapped_groups (a b c d : N) :
  a < 256 -> b < 256 -> c < 256 -> d < 256 ->
  parse_ip6_groups ([58; 58; 102; 102; 102; 102; 58] ++ render_ipv4 [a; b; c; d]) =
  Some [0; 0; 0; 0; 0; 65535; a * 256 + b; c * 256 + d].
Proof.
  intros Ha Hb Hc Hd. unfold parse_ip6_groups. cbn [app]. rewrite fd_dcolon.
  cbn [text_groups].
  change (102 :: 102 :: 102 :: 102 :: 58 :: render_ipv4 [a; b; c; d])
    with ([102; 102; 102; 102] ++ 58 :: render_ipv4 [a; b; c; d]).
  rewrite (split_on_app_gen 58 [102; 102; 102; 102] _ [] eq_refl).
  rewrite (split_on_last_gen 58 _ [] (render_ipv4_nocolon a b c d Ha Hb Hc Hd)).
  cbn [rev app]. rewrite field_groups_cons2, field_groups_one.
  assert (Hd4 : has_dot (render_ipv4 [a; b; c; d]) = true).
  { unfold render_ipv4. cbn [map join]. unfold DOT. apply has_dot_mid. }
  rewrite Hd4, (v4_groups_render a b c d Ha Hb Hc Hd).
  reflexivity.
Qed.

(* ================= 8. the round trip, all addresses ================= *)
Lemma len16' (l : bytes) : length l = 16%nat ->
  exists a0 a1 a2 a3 a4 a5 a6 a7 a8 a9 a10 a11 a12 a13 a14 a15,
    l = [a0; a1; a2; a3; a4; a5; a6; a7; a8; a9; a10; a11; a12; a13; a14; a15].
Proof. exact (len16 l). Qed.

Theorem parse_ip6_render (o : bytes) :
  length o = 16%nat -> bytes_ok o = true -> parse_ip6_text (render_ipv6 o) = Some o.
Proof.
  intros Hlen Hok.
  destruct (len16' o Hlen) as (a0 & a1 & a2 & a3 & a4 & a5 & a6 & a7 & a8 & a9 & a10 & a11 & a12 & a13 & a14 & a15 & ->).
  clear Hlen. unfold bytes_ok, byte_ok in Hok. cbn [forallb] in Hok.
  rewrite !andb_true_iff in Hok.
  destruct Hok as (H0 & H1 & H2 & H3 & H4 & H5 & H6 & H7 & H8 & H9 & H10 & H11 & H12 & H13 & H14 & H15 & _).
  rewrite render_ipv6_eq. cbn [segments]. unfold parse_ip6_text.
  destruct (mapped_cond _) eqn:Em.
  - unfold mapped_cond in Em. cbn [firstn forallb nth] in Em. rewrite !andb_true_iff in Em.
    destruct Em as [(E0 & E1 & E2 & E3 & E4 & _) E5].
    assert (a0 = 0) by lia. assert (a1 = 0) by lia. assert (a2 = 0) by lia. assert (a3 = 0) by lia.
    assert (a4 = 0) by lia. assert (a5 = 0) by lia. assert (a6 = 0) by lia. assert (a7 = 0) by lia.
    assert (a8 = 0) by lia. assert (a9 = 0) by lia. assert (a10 = 255) by lia. assert (a11 = 255) by lia.
    subst. cbn [skipn]. unfold COLON.
    rewrite (parse_mapped_groups a12 a13 a14 a15) by lia.
    cbn [flat_map group_octets app].
    replace ((a12 * 256 + a13) / 256) with a12 by lia. replace ((a12 * 256 + a13) mod 256) with a13 by lia.
    replace ((a14 * 256 + a15) / 256) with a14 by lia. replace ((a14 * 256 + a15) mod 256) with a15 by lia.
    reflexivity.
  - rewrite parse_render_groups.
    + cbn [flat_map group_octets app].
      replace ((a0 * 256 + a1) / 256) with a0 by lia. replace ((a0 * 256 + a1) mod 256) with a1 by lia.
      replace ((a2 * 256 + a3) / 256) with a2 by lia. replace ((a2 * 256 + a3) mod 256) with a3 by lia.
      replace ((a4 * 256 + a5) / 256) with a4 by lia. replace ((a4 * 256 + a5) mod 256) with a5 by lia.
      replace ((a6 * 256 + a7) / 256) with a6 by lia. replace ((a6 * 256 + a7) mod 256) with a7 by lia.
      replace ((a8 * 256 + a9) / 256) with a8 by lia. replace ((a8 * 256 + a9) mod 256) with a9 by lia.
      replace ((a10 * 256 + a11) / 256) with a10 by lia. replace ((a10 * 256 + a11) mod 256) with a11 by lia.
      replace ((a12 * 256 + a13) / 256) with a12 by lia. replace ((a12 * 256 + a13) mod 256) with a13 by lia.
      replace ((a14 * 256 + a15) / 256) with a14 by lia. replace ((a14 * 256 + a15) mod 256) with a15 by lia.
      reflexivity.
    + reflexivity.
    + unfold gok. cbn [forallb]. rewrite !andb_true_iff. repeat split; lia.
Qed.

(* the printer never writes the same text for two addresses *)
Theorem render_ipv6_injective (o1 o2 : bytes) :
  length o1 = 16%nat -> bytes_ok o1 = true -> length o2 = 16%nat -> bytes_ok o2 = true ->
  render_ipv6 o1 = render_ipv6 o2 -> o1 = o2.
Proof.
  intros L1 K1 L2 K2 E. pose proof (parse_ip6_render o1 L1 K1) as P1.
  rewrite E, (parse_ip6_render o2 L2 K2) in P1. injection P1 as ->. reflexivity.
Qed.

(* ================= 9. the universal address ================= *)
Lemma split_last_dot_none (x : bytes) : nosep 46 x = true -> split_last_dot x = None.
Proof.
  induction x as [|b x IH]; intros H; [reflexivity|].
  rewrite nosep_cons, andb_true_iff in H. destruct H as [Hb Hx].
  cbn [split_last_dot]. rewrite (IH Hx). destruct (b =? 46); [discriminate | reflexivity].
Qed.

Lemma split_last_dot_app (h x : bytes) : nosep 46 x = true -> split_last_dot (h ++ 46 :: x) = Some (h, x).
Proof.
  intros Hx. induction h as [|b h IH].
  - cbn [app split_last_dot]. rewrite (split_last_dot_none x Hx), N.eqb_refl. reflexivity.
  - cbn [app split_last_dot]. rewrite IH. reflexivity.
Qed.

Theorem parse_uaddr6_render (o : bytes) (port : N) :
  length o = 16%nat -> bytes_ok o = true -> port < 65536 ->
  parse_uaddr6 (uaddr_text (V6 o) port) = Some (o, port).
Proof.
  intros Hlen Hok Hp.
  assert (Hh : port / 256 < 256) by lia. assert (Hl : port mod 256 < 256) by lia.
  destruct (octet_text _ Hh) as [Nh Vh]. destruct (octet_text _ Hl) as [Nl Vl].
  unfold parse_uaddr6, uaddr_text. cbn [render_ip].
  replace (render_ipv6 o ++ [46] ++ dec_digits (port / 256) ++ [46] ++ dec_digits (port mod 256))
    with ((render_ipv6 o ++ 46 :: dec_digits (port / 256)) ++ 46 :: dec_digits (port mod 256))
    by (rewrite <- app_assoc; reflexivity).
  rewrite (split_last_dot_app _ _ Nl), (split_last_dot_app _ _ Nh).
  rewrite (parse_ip6_render o Hlen Hok), Vh, Vl.
  replace (port / 256 <? 256) with true by lia. replace (port mod 256 <? 256) with true by lia.
  cbn [andb]. f_equal. f_equal. lia.
Qed.

(* ================= 10. the strengthened reference accepts the model's text ================= *)
Lemma beqb_refl (a : bytes) : bytes_eqb a a = true.
Proof. induction a as [|x a IH]; [reflexivity|]. cbn [bytes_eqb]. rewrite N.eqb_refl, IH. reflexivity. Qed.

Theorem uaddr_ok_render (ip : ipaddr) (port : N) :
  ip_ok ip = true -> port < 65536 -> uaddr_ok ip port (uaddr_text ip port) = true.
Proof.
  intros Hip Hp. destruct ip as [o|o]; cbn [ip_ok] in Hip; rewrite andb_true_iff in Hip;
    destruct Hip as [Hlen Hok]; apply Nat.eqb_eq in Hlen; unfold uaddr_ok.
  - destruct (len4 o Hlen) as (a & b & c & d & ->).
    unfold bytes_ok, byte_ok in Hok. cbn [forallb] in Hok. rewrite !andb_true_iff in Hok.
    destruct Hok as (Ha & Hb & Hc & Hd & _).
    rewrite (parse_uaddr4_render a b c d port) by lia.
    rewrite beqb_refl, N.eqb_refl. reflexivity.
  - rewrite (parse_uaddr6_render o port Hlen Hok Hp), beqb_refl, N.eqb_refl. reflexivity.
Qed.

(* [uaddr_ok] determines the text's meaning: what it accepts reads back to the endpoint *)
Lemma beqb_eq (a b : bytes) : bytes_eqb a b = true -> a = b.
Proof.
  revert b. induction a as [|x a IH]; intros [|y b] H; cbn [bytes_eqb] in H; try discriminate; [reflexivity|].
  rewrite andb_true_iff in H. destruct H as [Hx Hab]. apply N.eqb_eq in Hx. subst y. f_equal. apply IH. exact Hab.
Qed.

Theorem uaddr_ok_sound (ip : ipaddr) (port : N) (s : bytes) :
  uaddr_ok ip port s = true ->
  match ip with
  | V4 o => parse_uaddr4 s = Some (o, port)
  | V6 o => parse_uaddr6 s = Some (o, port)
  end.
Proof.
  unfold uaddr_ok. destruct ip as [o|o].
  - destruct (parse_uaddr4 s) as [[o' p']|]; [|discriminate]. rewrite andb_true_iff. intros [H1 H2].
    apply beqb_eq in H1. apply N.eqb_eq in H2. subst. reflexivity.
  - destruct (parse_uaddr6 s) as [[o' p']|]; [|discriminate]. rewrite andb_true_iff. intros [H1 H2].
    apply beqb_eq in H1. apply N.eqb_eq in H2. subst. reflexivity.
Qed.

(* ================= 11. what the readers return is well formed ================= *)
Lemma hex_value_lt (b d : N) : hex_value b = Some d -> d < 16.
Proof.
  unfold hex_value. intros H.
  destruct ((48 <=? b) && (b <=? 57)) eqn:E1; [injection H as <-; lia|].
  destruct ((97 <=? b) && (b <=? 102)) eqn:E2; [injection H as <-; lia|].
  destruct ((65 <=? b) && (b <=? 70)) eqn:E3; [injection H as <-; lia | discriminate].
Qed.

Lemma group_value_lt (l : bytes) (v : N) : group_value l = Some v -> v < 65536.
Proof.
  intros H. destruct l as [|a [|b [|c [|d [|e l]]]]]; cbn [group_value length Nat.leb hex_acc] in H; try discriminate.
  all: repeat match type of H with
       | context [hex_value ?x] =>
         let E := fresh "E" in destruct (hex_value x) eqn:E; [apply hex_value_lt in E | discriminate]
       end.
  all: injection H as <-; lia.
Qed.

Lemma v4_groups_ok (f : bytes) (gs : list N) : v4_groups f = Some gs -> gok gs = true.
Proof.
  unfold v4_groups. intros H.
  destruct (map dec_value (split_on 46 f [])) as [|[a|] [|[b|] [|[c|] [|[d|] [|x l]]]]]; try discriminate.
  destruct ((a <? 256) && (b <? 256) && (c <? 256) && (d <? 256)) eqn:E; [|discriminate].
  injection H as <-. unfold gok. cbn [forallb]. lia.
Qed.

Lemma gok_cons_intro (x : N) (l : list N) : x < 65536 -> gok l = true -> gok (x :: l) = true.
Proof. intros Hx Hl. unfold gok in *. cbn [forallb]. rewrite Hl. lia. Qed.

Lemma field_groups_ok (v4 : bool) (fs : list bytes) : forall gs, field_groups v4 fs = Some gs -> gok gs = true.
Proof.
  induction fs as [|f t IH]; intros gs H.
  - injection H as <-. reflexivity.
  - destruct t as [|f2 t].
    + rewrite field_groups_one in H. destruct (v4 && has_dot f).
      * apply (v4_groups_ok f). exact H.
      * destruct (group_value f) as [g|] eqn:Eg; [|discriminate]. injection H as <-.
        apply gok_cons_intro; [apply (group_value_lt f); exact Eg | reflexivity].
    + rewrite field_groups_cons2 in H.
      destruct (group_value f) as [g|] eqn:Eg; [|discriminate].
      destruct (field_groups v4 (f2 :: t)) as [r|] eqn:Er; [|discriminate].
      injection H as <-. apply gok_cons_intro; [apply (group_value_lt f); exact Eg | apply IH; reflexivity].
Qed.

Lemma text_groups_ok (v4 : bool) (t : bytes) (gs : list N) : text_groups v4 t = Some gs -> gok gs = true.
Proof.
  unfold text_groups. destruct t as [|b t]; intros H.
  - injection H as <-. reflexivity.
  - apply (field_groups_ok v4 _ _ H).
Qed.

Lemma gok_repeat0 (n : nat) : gok (repeat 0 n) = true.
Proof. induction n as [|n IH]; [reflexivity|]. cbn [repeat]. apply gok_cons_intro; [lia | exact IH]. Qed.

Lemma parse_ip6_groups_ok (s : bytes) (gs : list N) :
  parse_ip6_groups s = Some gs -> length gs = 8%nat /\ gok gs = true.
Proof.
  unfold parse_ip6_groups. intros H. destruct (find_dcolon s) as [[l r]|].
  - destruct (text_groups false l) as [gl|] eqn:El; [|discriminate].
    destruct (text_groups true r) as [gr|] eqn:Er; [|discriminate].
    destruct (length gl + length gr <? 8)%nat eqn:E; [|discriminate].
    remember (8 - (length gl + length gr))%nat as k eqn:Ek.
    injection H as <-. split.
    + rewrite !app_length, repeat_length. lia.
    + unfold gok. rewrite !forallb_app. fold (gok gl) (gok gr) (gok (repeat 0 k)).
      rewrite (text_groups_ok _ _ _ El), (text_groups_ok _ _ _ Er), gok_repeat0. reflexivity.
  - destruct (text_groups true s) as [g|] eqn:Eg; [|discriminate].
    destruct (length g =? 8)%nat eqn:E; [|discriminate].
    injection H as <-. split; [apply Nat.eqb_eq; exact E | apply (text_groups_ok _ _ _ Eg)].
Qed.

Lemma group_octets_ok (gs : list N) :
  gok gs = true ->
  length (flat_map group_octets gs) = (2 * length gs)%nat /\ bytes_ok (flat_map group_octets gs) = true.
Proof.
  induction gs as [|g gs IH]; intros H; [split; reflexivity|].
  apply gok_cons in H. destruct H as [Hg Hgs]. destruct (IH Hgs) as [IH1 IH2].
  cbn [flat_map group_octets app length]. split; [lia|].
  unfold bytes_ok in *. cbn [forallb]. rewrite IH2. unfold byte_ok. lia.
Qed.

Theorem parse_ip6_text_wf (s o : bytes) :
  parse_ip6_text s = Some o -> length o = 16%nat /\ bytes_ok o = true.
Proof.
  unfold parse_ip6_text. destruct (parse_ip6_groups s) as [gs|] eqn:E; [|discriminate].
  intros H. injection H as <-. destruct (parse_ip6_groups_ok s gs E) as [Hl Hk].
  destruct (group_octets_ok gs Hk) as [H1 H2]. split; [lia | exact H2].
Qed.

Theorem parse_uaddr6_wf (s o : bytes) (p : N) :
  parse_uaddr6 s = Some (o, p) -> length o = 16%nat /\ bytes_ok o = true /\ p < 65536.
Proof.
  unfold parse_uaddr6. intros H.
  destruct (split_last_dot s) as [[s1 lo]|]; [|discriminate].
  destruct (split_last_dot s1) as [[host hi]|]; [|discriminate].
  destruct (parse_ip6_text host) as [o'|] eqn:Eo; [|discriminate].
  destruct (dec_value hi) as [h|]; [|discriminate].
  destruct (dec_value lo) as [l|]; [|discriminate].
  destruct ((h <? 256) && (l <? 256)) eqn:E; [|discriminate].
  injection H as <- <-. destruct (parse_ip6_text_wf host o' Eo) as [H1 H2].
  split; [exact H1|]. split; [exact H2 | lia].
Qed.

Theorem uaddr_ok_wf (ip : ipaddr) (port : N) (s : bytes) :
  uaddr_ok ip port s = true -> ip_ok ip = true /\ port < 65536.
Proof.
  intros H. pose proof (uaddr_ok_sound ip port s H) as P. destruct ip as [o|o]; cbn [ip_ok].
  - unfold parse_uaddr4 in P.
    destruct (map dec_value (split_on 46 s [])) as [|[a|] [|[b|] [|[c|] [|[d|] [|[h|] [|[l|] [|x r]]]]]]]; try discriminate.
    destruct ((a <? 256) && (b <? 256) && (c <? 256) && (d <? 256) && (h <? 256) && (l <? 256)) eqn:E; [|discriminate].
    injection P as <- <-. unfold bytes_ok, byte_ok. cbn [length Nat.eqb forallb]. split; lia.
  - destruct (parse_uaddr6_wf s o port P) as (H1 & H2 & H3). rewrite H1, H2. split; [reflexivity | exact H3].
Qed.
