(* C15Model.v -- the STUN responder (Stun.v [stun_repl]) against the reference codec:
   a complete description of what it does with ARBITRARY bytes in terms of the reference
   reading of the payload ([stun_diag_of]), then the theorems of the property: well-formed
   binding requests are answered as expected (and the reply port moves exactly on change-port),
   other classes / methods and the detected malformations are ignored, and the malformations
   that are NOT detected are listed with witnesses. *)
From MS Require Import Proofs.Tactics Stun Spec.View Spec.RefStun Spec.AppView Spec.C15
     Proofs.C15Ref Proofs.C15Walk.

(* ---------- the two type bytes ---------- *)
Definition byte_vals : list N := map N.of_nat (seq 0 256).
Lemma byte_vals_in (b : N) : b < 256 -> In b byte_vals.
Proof.
  intros H. unfold byte_vals. apply in_map_iff. exists (N.to_nat b). split; [lia|]. apply in_seq. lia.
Qed.

Definition land_row (b : N) : bool :=
  (N.land b 1 =? b mod 2) && (N.land b 62 =? ((b / 2) mod 32) * 2) &&
  (N.land b 16 / 16 =? (b / 16) mod 2) && (N.land b 239 =? (b / 32) * 32 + b mod 16).
Lemma land_rows : forallb land_row byte_vals = true.
Proof. vm_compute. reflexivity. Qed.

Lemma land_byte (b : N) : b < 256 ->
  N.land b 1 = b mod 2 /\ N.land b 62 = ((b / 2) mod 32) * 2 /\
  N.land b 16 / 16 = (b / 16) mod 2 /\ N.land b 239 = (b / 32) * 32 + b mod 16.
Proof.
  intros H. pose proof land_rows as R. rewrite forallb_forall in R.
  specialize (R b (byte_vals_in b H)). unfold land_row in R.
  repeat (apply andb_true_iff in R; destruct R as [R ?]). repeat split; lia.
Qed.

Lemma type_bytes (d0 d1 : N) : d0 < 256 -> d1 < 256 ->
  (64 <=? d0) = (16384 <=? d0 * 256 + d1) /\
  N.land d0 1 * 2 + N.land d1 16 / 16 = type_class (d0 * 256 + d1) /\
  (d0 < 64 -> (N.land d0 62 * 128 + N.land d1 239 =? 1) = (type_method (d0 * 256 + d1) =? 1)).
Proof.
  intros H0 H1.
  destruct (land_byte d0 H0) as (A1 & A2 & _ & _). destruct (land_byte d1 H1) as (_ & _ & B3 & B4).
  rewrite A1, A2, B3, B4. unfold type_class, type_method.
  split; [lia|]. split.
  - assert ((d0 * 256 + d1) / 256 = d0) as -> by lia.
    assert ((d0 * 256 + d1) / 16 mod 2 = d1 / 16 mod 2) as -> by lia. reflexivity.
  - intros H64.
    assert ((d0 * 256 + d1) / 512 = d0 / 2) as -> by lia.
    assert ((d0 * 256 + d1) / 32 mod 8 = d1 / 32) as -> by lia.
    assert ((d0 * 256 + d1) mod 16 = d1 mod 16) as -> by lia.
    assert ((d0 / 2) mod 32 = d0 / 2) as -> by lia.
    assert (d1 / 32 < 8) as Hb by lia. assert (d1 mod 16 < 16) as Hc by lia.
    generalize dependent (d0 / 2). generalize dependent (d1 / 32). generalize dependent (d1 mod 16).
    intros. lia.
Qed.

(* ---------- the reference walk does not depend on spare fuel ---------- *)
Lemma walk_fuel (f1 : nat) : forall (f2 : nat) (v : bytes),
  (length v <= f1)%nat -> (length v <= f2)%nat -> walk_attrs f1 v = walk_attrs f2 v.
Proof.
  induction f1 as [|f1 IH]; intros f2 v H1 H2.
  { destruct v; [|cbn [length] in H1; lia]. rewrite !walk_nil. reflexivity. }
  destruct v as [|x v0]; [rewrite !walk_nil; reflexivity|].
  destruct f2 as [|f2]; [cbn [length] in H2; lia|].
  set (v := x :: v0) in *. assert (v <> []) as Hne by discriminate.
  rewrite !(walk_unfold _ v Hne). cbv zeta.
  destruct (length v <? 4)%nat eqn:H4; [reflexivity|].
  destruct (length (skipn 4 v) <? N.to_nat (u16_at 2 v))%nat; [reflexivity|].
  destruct (negb _); [reflexivity|].
  destruct (length (skipn 4 v) <? pad4n (N.to_nat (u16_at 2 v)))%nat; [reflexivity|].
  rewrite (IH f2); [reflexivity| |]; rewrite !skipn_length; lia.
Qed.

(* ---------- the responder on arbitrary bytes ---------- *)
Definition model_answer (ci : cinfo) (p : bytes) (chg : bool) : cinfo * option bytes :=
  match ci_ip_src ci, ci_port_src ci, ci_port_dst ci with
  | Some src, Some sport, Some dport =>
    (if chg then ci_set_port_dst ci (wrap16 (dport + 1)) else ci,
     Some (stun_response (slice 4 16 p) src sport))
  | _, _, _ => (ci, None)
  end.

Definition region_of (p : bytes) : bytes := firstn (N.to_nat (u16_at 2 p)) (skipn 20 p).

Theorem stun_repl_by_diag (ci : cinfo) (p : bytes) :
  u8_at 0 p < 256 -> u8_at 1 p < 256 ->
  stun_repl ci p =
    match stun_diag_of p with
    | DAttrs st =>
      if tlv_tolerated st && (type_class (u16_at 0 p) =? 0) && (type_method (u16_at 0 p) =? 1)
      then model_answer ci p (existsb attr_change_port (fst (read_attrs (region_of p))))
      else (ci, None)
    | _ => (ci, None)
    end.
Proof.
  intros H0 H1. unfold stun_repl, stun_diag_of. fold (region_of p).
  destruct (length p <? 20)%nat eqn:Hlen; [reflexivity|].
  destruct (type_bytes _ _ H0 H1) as (E64 & Ecls & Emeth).
  change (u16_at 0 p) with (u8_at 0 p * 256 + u8_at 1 p). rewrite <- E64.
  destruct (64 <=? u8_at 0 p) eqn:H64; [reflexivity|].
  assert ((lenN p <? 20 + u16_at 2 p) = (length p <? 20 + N.to_nat (u16_at 2 p))%nat) as ->.
  { unfold lenN. lia. }
  destruct (length p <? 20 + N.to_nat (u16_at 2 p))%nat eqn:Hfit; [reflexivity|].
  change (slice 20 (N.to_nat (u16_at 2 p)) p) with (region_of p).
  assert (length (region_of p) <= length p)%nat as Hrl.
  { unfold region_of. rewrite firstn_length, skipn_length. lia. }
  rewrite walkers_agree by exact Hrl.
  rewrite (walk_fuel (length p) (length (region_of p)) (region_of p) Hrl (Nat.le_refl _)).
  fold (read_attrs (region_of p)). unfold answer_of.
  destruct (read_attrs (region_of p)) as [l st]. cbn [fst snd orb].
  destruct (tlv_tolerated st); cbn [andb]; [|reflexivity].
  rewrite Ecls. destruct (type_class (u8_at 0 p * 256 + u8_at 1 p) =? 0); cbn [negb andb]; [|reflexivity].
  rewrite (Emeth ltac:(lia)).
  destruct (type_method (u8_at 0 p * 256 + u8_at 1 p) =? 1); cbn [negb]; [|reflexivity].
  unfold model_answer.
  destruct (ci_ip_src ci); [|reflexivity]. destruct (ci_port_src ci); [|reflexivity].
  destruct (ci_port_dst ci); reflexivity.
Qed.

(* ---------- the reference reader in terms of the diagnosis ---------- *)
Lemma dec_req_by_diag (p : bytes) :
  dec_stun_req p =
    match stun_diag_of p with
    | DAttrs TlvDone =>
      Some {| sm_class := type_class (u16_at 0 p); sm_method := type_method (u16_at 0 p);
              sm_tid := firstn 16 (skipn 4 p); sm_attrs := fst (read_attrs (region_of p)) |}
    | _ => None
    end.
Proof.
  unfold dec_stun_req, dec_stun_gen, stun_diag_of. fold (region_of p).
  destruct (length p <? 20)%nat; [reflexivity|].
  destruct (16384 <=? u16_at 0 p); [reflexivity|].
  destruct (length p <? 20 + N.to_nat (u16_at 2 p))%nat; [reflexivity|].
  destruct (read_attrs (region_of p)) as [l st]. cbn [fst snd]. destruct st; reflexivity.
Qed.

Lemma dec_req_inv (p : bytes) (m : stun_msg) : dec_stun_req p = Some m ->
  stun_diag_of p = DAttrs TlvDone /\
  sm_class m = type_class (u16_at 0 p) /\ sm_method m = type_method (u16_at 0 p) /\
  sm_tid m = slice 4 16 p /\ sm_attrs m = fst (read_attrs (region_of p)) /\ (20 <= length p)%nat.
Proof.
  rewrite dec_req_by_diag. intros H.
  assert (20 <= length p)%nat as Hl.
  { unfold stun_diag_of in H. destruct (length p <? 20)%nat eqn:E; [discriminate|lia]. }
  destruct (stun_diag_of p) as [| | |st]; try discriminate.
  destruct st; try discriminate. inversion H; subst m. cbn. repeat split; try reflexivity. exact Hl.
Qed.

(* ---------- the response the responder builds is the expected message ---------- *)
Lemma stun_response_is_ser (tid : bytes) (src : ipaddr) (sport : N) :
  ip_ok src = true -> stun_response tid src sport = ser_stun (expected_response tid src sport).
Proof.
  unfold ip_ok. destruct src as [o|o]; intros H; apply andb_true_iff in H; destruct H as [Hl _];
    apply Nat.eqb_eq in Hl; explode_lists; reflexivity.
Qed.

Lemma bytes_ok_cons (x : N) (l : bytes) : bytes_ok (x :: l) = (x <? 256) && bytes_ok l.
Proof. reflexivity. Qed.

Lemma expected_response_wf (tid : bytes) (src : ipaddr) (sport : N) :
  length tid = 16%nat -> bytes_ok tid = true -> ip_ok src = true ->
  stun_wf (expected_response tid src sport) = true.
Proof.
  intros Hl Hb Hip. unfold stun_wf, expected_response.
  cbn [sm_class sm_method sm_tid sm_attrs]. rewrite Hl, Hb.
  change (CLASS_SUCCESS <? 4) with true. change (METHOD_BINDING <? 4096) with true.
  change (16 =? 16)%nat with true. cbn [andb].
  unfold ip_ok in Hip.
  destruct src as [o|o]; apply andb_true_iff in Hip; destruct Hip as [Hol Hob];
    apply Nat.eqb_eq in Hol; explode_lists;
    unfold bytes_ok in Hob; cbn [forallb] in Hob; unfold byte_ok in Hob;
    repeat (apply andb_true_iff in Hob; destruct Hob as [? Hob]);
    unfold ip_family, enc_mapped, be16; cbn [ip_is_v4 ip_octets app forallb];
    unfold attr_wf; cbn [fst snd];
    rewrite !bytes_ok_cons;
    repeat match goal with H : (?x <? 256) = true |- _ => rewrite H; clear H end;
    assert ((sport / 256 mod 256 <? 256) = true) as -> by lia;
    assert ((sport mod 256 <? 256) = true) as -> by lia;
    reflexivity.
Qed.

Lemma dec_mapped_enc (src : ipaddr) (sport : N) : ip_ok src = true -> sport < 65536 ->
  dec_mapped (enc_mapped (ip_family src) sport (ip_octets src)) = Some (ip_family src, sport, ip_octets src).
Proof.
  intros Hip Hs. unfold ip_ok in Hip.
  destruct src as [o|o]; apply andb_true_iff in Hip; destruct Hip as [Hol _]; apply Nat.eqb_eq in Hol;
    unfold dec_mapped, enc_mapped, ip_family, be16; cbn [ip_is_v4 ip_octets app]; rewrite Hol;
    change (0 =? 0) with true; cbn [andb];
    [change (FAMILY_IPV4 =? FAMILY_IPV4) with true; change (4 =? 4)%nat with true
    |change (FAMILY_IPV6 =? FAMILY_IPV4) with false; change (FAMILY_IPV6 =? FAMILY_IPV6) with true;
     change (16 =? 16)%nat with true];
    cbn [andb orb]; repeat f_equal; lia.
Qed.

Lemma stun_response_length_field (tid : bytes) (src : ipaddr) (sport : N) :
  length tid = 16%nat -> ip_ok src = true ->
  u16_at 2 (stun_response tid src sport) + 20 = lenN (stun_response tid src sport).
Proof.
  intros Hl Hip. unfold ip_ok in Hip.
  destruct src as [o|o]; apply andb_true_iff in Hip; destruct Hip as [Hol _]; apply Nat.eqb_eq in Hol;
    explode_lists; reflexivity.
Qed.

Theorem stun_response_decodes (tid : bytes) (src : ipaddr) (sport : N) :
  length tid = 16%nat -> bytes_ok tid = true -> ip_ok src = true ->
  dec_stun_resp (stun_response tid src sport) = Some (expected_response tid src sport).
Proof.
  intros Hl Hb Hip. rewrite stun_response_is_ser by exact Hip.
  apply dec_stun_resp_ser, expected_response_wf; assumption.
Qed.
