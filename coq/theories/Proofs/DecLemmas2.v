(* Proofs/DecLemmas2.v -- decode-after-encode laws for every kind of reply:
   the generic IP wrapper, ICMP, UDP, ARP (the TCP analogue is dec_wrap_tcp in
   ViewLemmas.v). *)
From MS Require Import Proofs.Tactics Proofs.DecLemmas Proofs.Pipeline Proofs.Factor Proofs.ViewLemmas
     L2 Spec.View Spec.RefDec.

(* ---- small facts about a view ---- *)
Lemma view_proto_lt cfg f v : bytes_ok f = true -> view cfg f = Some v -> v_proto v < 256.
Proof.
  intros Hf Hv. destruct (view_inv _ _ _ Hv) as (_ & _ & [H4 | H6]).
  - destruct H4 as (_ & _ & _ & _ & _ & -> & _). apply u8_at_lt, bytes_ok_skipn, Hf.
  - destruct H6 as (_ & _ & _ & _ & _ & -> & _). apply u8_at_lt, bytes_ok_skipn, Hf.
Qed.

Lemma view_ety cfg f v : view cfg f = Some v -> u16_at 12 f = (if v_v4 v then 2048 else 34525).
Proof.
  intros Hv. destruct (view_inv _ _ _ Hv) as (_ & _ & [H4 | H6]).
  - destruct H4 as (-> & _ & -> & _). reflexivity.
  - destruct H6 as (-> & _ & -> & _). reflexivity.
Qed.

(* ---- the IP wrapper ---- *)
Lemma dec_wrap_ip cfg f v rsrc hlim l4 :
  cfg_ok cfg = true -> view cfg f = Some v -> v_proto v < 256 -> hlim < 256 ->
  length rsrc = (if v_v4 v then 4 else 16)%nat ->
  exists e i,
    dec_eth (wrap_ip cfg f v rsrc hlim l4) = Some e /\ dec_ip e = Some i /\
    de_dst e = slice 6 6 f /\ de_src e = c_mac cfg /\
    de_type e = (if v_v4 v then 2048 else 34525) /\
    di_v4 i = v_v4 v /\ di_src i = rsrc /\ di_dst i = v_src v /\
    di_proto i = v_proto v /\ di_payload i = l4.
Proof.
  intros Hcfg Hv Hp Hh Hr.
  destruct (view_sizes _ _ _ Hv) as (Hm & Hsz).
  pose proof (cfg_ok_mac _ Hcfg) as Hmac.
  unfold wrap_ip.
  destruct (v_v4 v).
  - destruct Hsz as [Hs Hd].
    rewrite dec_eth_frame by (assumption || lia).
    eexists _, _. split; [reflexivity|].
    unfold dec_ip. cbn [de_type de_payload]. change (2048 =? 2048) with true. cbv iota.
    rewrite dec_ipv4_packet by (assumption || lia).
    split; [reflexivity|]. cbn. repeat split; reflexivity.
  - destruct Hsz as [Hs Hd].
    rewrite dec_eth_frame by (assumption || lia).
    eexists _, _. split; [reflexivity|].
    unfold dec_ip. cbn [de_type de_payload]. change (34525 =? 2048) with false.
    change (34525 =? 34525) with true. cbv iota.
    rewrite dec_ipv6_packet by (assumption || lia).
    split; [reflexivity|]. cbn. repeat split; reflexivity.
Qed.

Lemma dec_frame_ip_of (fr : bytes) e i :
  dec_eth fr = Some e -> dec_ip e = Some i -> dec_frame_ip fr = Some (e, i).
Proof. intros He Hi. unfold dec_frame_ip. rewrite He, Hi. reflexivity. Qed.

(* ---- ICMP ---- *)
Lemma dec_icmp_sealed (r : bytes) (c : N) :
  (4 <= length r)%nat ->
  dec_icmp (set_cksum 2 r c) =
  Some {| dc_type := u8_at 0 r; dc_code := u8_at 1 r; dc_cksum := c mod 65536; dc_rest := skipn 4 r |}.
Proof.
  intros Hl. destruct r as [|r0 [|r1 [|r2 [|r3 r]]]]; cbn [length] in Hl; try lia.
  unfold dec_icmp, set_cksum, be16, u16_at, u8_at. list_cbn.
  f_equal. f_equal. lia.
Qed.

Lemma set_cksum_u8_0 (off : nat) (r : bytes) (c : N) :
  (1 <= off)%nat -> (off <= length r)%nat -> u8_at 0 (set_cksum off r c) = u8_at 0 r.
Proof.
  intros H1 H2. unfold set_cksum, u8_at.
  destruct off as [|off]; [lia|]. destruct r as [|r0 r]; [cbn in H2; lia|]. reflexivity.
Qed.

(* a wrapped ICMP reply *)
Lemma dec_wrap_icmp cfg f v rsrc hlim r c :
  cfg_ok cfg = true -> view cfg f = Some v -> hlim < 256 ->
  length rsrc = (if v_v4 v then 4 else 16)%nat ->
  (v_v4 v = true /\ v_proto v = 1 \/ v_v4 v = false /\ v_proto v = 58) ->
  (4 <= length r)%nat ->
  exists e i,
    dec_frame_icmp (wrap_ip cfg f v rsrc hlim (set_cksum 2 r c)) =
    Some (e, i, {| dc_type := u8_at 0 r; dc_code := u8_at 1 r; dc_cksum := c mod 65536;
                   dc_rest := skipn 4 r |}) /\
    di_v4 i = v_v4 v.
Proof.
  intros Hcfg Hv Hh Hr Hk Hl.
  assert (v_proto v < 256) as Hp by (destruct Hk as [[_ ->]|[_ ->]]; lia).
  destruct (dec_wrap_ip cfg f v rsrc hlim (set_cksum 2 r c) Hcfg Hv Hp Hh Hr)
    as (e & i & He & Hi & _ & _ & _ & Hv4 & _ & _ & Hpr & Hpl).
  exists e, i. unfold dec_frame_icmp. rewrite (dec_frame_ip_of _ _ _ He Hi).
  rewrite Hv4, Hpr, Hpl.
  assert ((v_v4 v && (v_proto v =? 1) || negb (v_v4 v) && (v_proto v =? 58)) = true) as ->
      by (destruct Hk as [[-> ->]|[-> ->]]; reflexivity).
  rewrite dec_icmp_sealed by exact Hl. split; reflexivity.
Qed.

(* ---- UDP ---- *)
Lemma dec_wrap_udp cfg f v hlim sp dp len pl :
  cfg_ok cfg = true -> view cfg f = Some v -> v_proto v = 17 -> hlim < 256 ->
  exists e i,
    dec_eth (wrap_ip cfg f v (v_dst v) hlim (seal_udp v (be16 sp ++ be16 dp ++ be16 len ++ [0; 0] ++ pl)))
      = Some e /\ dec_ip e = Some i /\
    de_dst e = slice 6 6 f /\ de_src e = c_mac cfg /\
    de_type e = (if v_v4 v then 2048 else 34525) /\
    di_v4 i = v_v4 v /\ di_src i = v_dst v /\ di_dst i = v_src v /\ di_proto i = 17 /\
    exists ck,
      dec_udp (di_payload i) =
      Some {| du_sport := sp mod 65536; du_dport := dp mod 65536; du_len := len mod 65536;
              du_cksum := ck; du_payload := pl |}.
Proof.
  intros Hcfg Hv Hp Hh.
  assert (length (v_dst v) = (if v_v4 v then 4 else 16)%nat) as Hr.
  { destruct (view_sizes _ _ _ Hv) as (_ & Hsz). destruct (v_v4 v); apply Hsz. }
  assert (v_proto v < 256) as Hp' by lia.
  match goal with |- context [wrap_ip cfg f v (v_dst v) hlim ?x] =>
    destruct (dec_wrap_ip cfg f v (v_dst v) hlim x Hcfg Hv Hp' Hh Hr)
      as (e & i & He & Hi & H1 & H2 & H3 & H4 & H5 & H6 & H7 & H8)
  end.
  exists e, i. rewrite Hp in H7.
  repeat (split; [assumption|]).
  rewrite H8. unfold seal_udp. rewrite dec_udp_datagram. eexists. reflexivity.
Qed.

(* ---- ARP ---- *)
Lemma dec_arp_reply (mac tpa sha spa mid rest : bytes) :
  length mid = 4%nat -> length mac = 6%nat -> length tpa = 4%nat -> length sha = 6%nat ->
  length spa = 4%nat ->
  dec_arp ([0; 1] ++ mid ++ [0; 2] ++ mac ++ tpa ++ sha ++ spa ++ rest) =
  Some {| da_htype := 1; da_ptype := u16_at 0 mid; da_hlen := u8_at 2 mid; da_plen := u8_at 3 mid;
          da_op := 2; da_sha := mac; da_spa := tpa; da_tha := sha; da_tpa := spa |}.
Proof.
  intros H1 H2 H3 H4 H5. explode_lists.
  unfold dec_arp, u16_at, u8_at. list_cbn. reflexivity.
Qed.
