(* Proofs/C13.v -- HTTP: complete requests get a well-formed 401, anything else silence. *)
From Coq Require Import Lia.
From MS Require Import Http Proto Spec.RefHttp Spec.HttpTbl Spec.EnvOk Spec.AppView Spec.C11http Spec.C13
  Proofs.Tactics Proofs.Pending Proofs.SmackSeg Proofs.HttpLemmas Proofs.HttpFold Proofs.HttpGrammar Proofs.HttpParse.

(* ---------- the facts of env_ok used here ---------- *)
Lemma env_ok_http (E : env) : env_ok E = true ->
  smack_ok (e_proto_tbl E) = true /\ smack_ok (e_http_tbl E) = true /\
  http_tbl_ok (e_http_tbl E) = true /\ proto_http_ok (e_proto_tbl E) PROTO_HTTP = true /\
  http_tpl_ok (e_http_pre E) (e_http_post E) = true.
Proof. unfold env_ok. rewrite !andb_true_iff. tauto. Qed.

(* ---------- response well-formedness, for every date ---------- *)
Lemma wf_fold_nolf : forall d f cur a c,
  no_lf d = true -> fold_left wf_step d (WHead f cur a c) = WHead f (cur ++ d) a c.
Proof.
  induction d as [|b d IH]; intros f cur a c H; cbn [fold_left].
  - rewrite app_nil_r. reflexivity.
  - unfold no_lf in H. cbn [forallb] in H. rewrite andb_true_iff, negb_true_iff in H. destruct H as [Hb Hd].
    cbn [wf_step]. rewrite Hb. rewrite IH by exact Hd. rewrite <- app_assoc. reflexivity.
Qed.

Lemma response_wf pre post date :
  http_tpl_ok pre post = true -> no_lf date = true -> http_resp_wf (pre ++ date ++ post) = true.
Proof.
  intros Ht Hd. unfold http_resp_wf. rewrite !fold_left_app. unfold http_tpl_ok in Ht.
  destruct (fold_left wf_step pre wf_init) as [first cur auth cl| |]; try discriminate.
  destruct first; [discriminate|].
  rewrite !andb_true_iff, !negb_true_iff in Ht. destruct Ht as [[[Hlen HW] HC] Hpost].
  destruct post as [|b post']; [discriminate|]. rewrite andb_true_iff in Hpost. destruct Hpost as [Hb Hfin].
  apply N.eqb_eq in Hb. subst b.
  rewrite wf_fold_nolf by exact Hd. cbn [fold_left].
  destruct cur as [|h [|y cur']]; cbn [length] in Hlen; try (exfalso; apply Nat.leb_le in Hlen; lia).
  cbn [hd] in HW, HC.
  assert (Hstep : wf_step (WHead false ((h :: y :: cur') ++ date) auth cl) 10 = WHead false [] auth cl).
  { cbn [wf_step app]. change (10 =? 10) with true. cbv iota.
    change (chomp_cr (h :: y :: cur' ++ date)) with (h :: chomp_cr (y :: cur' ++ date)).
    cbn [null]. unfold parse_clen, RESP_AUTH, RESP_CLEN. cbn [is_prefix].
    rewrite (N.eqb_sym 87 h), HW, (N.eqb_sym 67 h), HC. cbn [andb]. rewrite orb_false_r.
    destruct cl; reflexivity. }
  rewrite Hstep. exact Hfin.
Qed.

(* ---------- the responder on a fresh state ---------- *)
Section Resp.
  Variable E : env.
  Hypothesis HE : env_ok E = true.
  Let Hok : smack_ok (e_http_tbl E) = true := proj1 (proj2 (env_ok_http E HE)).
  Let Htbl : http_tbl_ok (e_http_tbl E) = true := proj1 (proj2 (proj2 (env_ok_http E HE))).

  Lemma repl_language clk p :
    bytes_ok p = true ->
    exists h', http_repl (e_http_tbl E) (e_http_pre E) (e_http_post E) (clk_date clk) http_new p =
               Ok (h', if is_some (rl_request p) then Some (http_resp E clk) else None).
  Proof.
    intros Hb. destruct (http_new_language (e_http_tbl E) Hok Htbl p Hb) as (s' & P & A).
    unfold http_repl. rewrite P. cbn [bind]. unfold http_answers in A. rewrite A.
    destruct (is_some (rl_request p)); eexists; reflexivity.
  Qed.

  Lemma repl_complete clk s t :
    Lstrict s -> bytes_ok (s ++ t) = true ->
    exists h', http_repl (e_http_tbl E) (e_http_pre E) (e_http_post E) (clk_date clk) http_new (s ++ t) =
               Ok (h', Some (http_resp E clk)).
  Proof.
    intros Hs Hb. destruct (repl_language clk (s ++ t) Hb) as (h' & H). exists h'. rewrite H.
    rewrite (rl_request_of_rs _ _ (rs_request_complete s t Hs)). reflexivity.
  Qed.

  Lemma repl_sound clk p h' r :
    bytes_ok p = true ->
    http_repl (e_http_tbl E) (e_http_pre E) (e_http_post E) (clk_date clk) http_new p = Ok (h', Some r) ->
    (exists n, http_relaxed_prefix p = Some n) /\ r = http_resp E clk.
  Proof.
    intros Hb H. destruct (repl_language clk p Hb) as (h2 & H2). rewrite H2 in H.
    unfold http_relaxed_prefix. destruct (rl_request p) as [rest|]; cbn [is_some] in H; [|discriminate].
    injection H as _ <-. split; [eauto | reflexivity].
  Qed.

  (* ---------- through the dispatcher ---------- *)
  Lemma dispatch_udp clk ci p :
    bytes_ok p = true ->
    dispatch E clk ci PROTO_HTTP None p =
    Ok (ci, None, if is_some (rl_request p) then Some (http_resp E clk) else None).
  Proof.
    intros Hb. unfold dispatch. change (PROTO_HTTP =? PROTO_HTTP) with true. cbv iota.
    destruct (repl_language clk p Hb) as (h' & ->). reflexivity.
  Qed.

  Lemma udp_stmt clk ci p :
    bytes_ok p = true -> udp_id E p = Some PROTO_HTTP ->
    proto_repl_udp E clk ci p = Ok (ci, if is_some (rl_request p) then Some (http_resp E clk) else None).
  Proof.
    intros Hb Hid. unfold proto_repl_udp. unfold udp_id in Hid.
    destruct (search_next (e_proto_tbl E) BASE_STATE p) as [[id st] n].
    rewrite Hid. rewrite (dispatch_udp clk ci p Hb). reflexivity.
  Qed.

  Lemma tcp_stmt clk ci p :
    bytes_ok p = true -> tcp_first_id E p = Some PROTO_HTTP ->
    exists tc', proto_repl_tcp E clk ci tcb_new p =
                Ok (ci, tc', if is_some (rl_request p) then Some (http_resp E clk) else None) /\
                t_proto tc' = PROTO_HTTP.
  Proof.
    intros Hb Hid. rewrite proto_repl_tcp_first. unfold tcp_first_id in Hid.
    destruct (search_next (e_proto_tbl E) BASE_STATE p) as [[id st] n]. subst id. cbv zeta.
    cbn [id_of t_proto]. unfold dispatch. change (PROTO_HTTP =? PROTO_HTTP) with true. cbv iota.
    cbn [t_pstate t_smack t_proto].
    destruct (repl_language clk p Hb) as (h' & ->). cbn [bind].
    eexists. split; reflexivity.
  Qed.

  (* ---------- the nine signatures are identified as HTTP ---------- *)
  Lemma identified p :
    has_http_sig p = true -> udp_id E p = Some PROTO_HTTP /\ tcp_first_id E p = Some PROTO_HTTP.
  Proof.
    intros Hsig. pose proof (env_ok_http E HE) as (Hpok & _ & _ & Hph & _).
    unfold proto_http_ok in Hph. rewrite !andb_true_iff, N.leb_le, N.ltb_lt in Hph.
    destruct Hph as [[Hsz Hbase] Hall].
    unfold has_http_sig in Hsig. rewrite existsb_exists in Hsig. destruct Hsig as (sg & Hin & Hpre).
    rewrite forallb_forall in Hall. specialize (Hall sg Hin).
    destruct (search_next (e_proto_tbl E) BASE_STATE sg) as [[[i|] st] n] eqn:Hs; [|discriminate].
    rewrite andb_true_iff, N.eqb_eq, Nat.eqb_eq in Hall. destruct Hall as [-> ->].
    rewrite (is_prefix_split _ _ Hpre).
    pose proof (search_next_app_some (e_proto_tbl E) Hpok Hsz BASE_STATE sg (skipn (length sg) p)
                  PROTO_HTTP st (length sg) Hbase Hs (Nat.le_refl _)) as Happ.
    unfold udp_id, tcp_first_id. rewrite Happ. split; reflexivity.
  Qed.

  (* ---------- the model satisfies the monitor ---------- *)
  Lemma monitor_core clk p :
    no_lf (clk_date clk) = true ->
    app_ok_C13_body p (if is_some (rl_request p) then Some (http_resp E clk) else None) = true.
  Proof.
    intros Hd. unfold app_ok_C13_body.
    assert (Hwf : http_resp_wf (http_resp E clk) = true).
    { apply response_wf; [exact (proj2 (proj2 (proj2 (proj2 (env_ok_http E HE))))) | exact Hd]. }
    destruct (http_complete_prefix p) as [n|] eqn:Ec.
    - apply relaxed_of_strict_prefix in Ec. unfold http_relaxed_prefix in Ec.
      destruct (rl_request p); [exact Hwf | discriminate].
    - unfold http_relaxed_prefix. destruct (rl_request p); cbn [is_some]; [exact Hwf | reflexivity].
  Qed.

  Lemma monitor_udp clk ci ctx p ci' o :
    bytes_ok p = true -> no_lf (clk_date clk) = true ->
    proto_repl_udp E clk ci p = Ok (ci', o) -> app_ok_C13 ctx p o = true.
  Proof.
    intros Hb Hd H. unfold app_ok_C13. destruct (has_http_sig p) eqn:Hsig; [|reflexivity].
    destruct (identified p Hsig) as [Hid _]. rewrite (udp_stmt clk ci p Hb Hid) in H.
    injection H as _ <-. apply monitor_core. exact Hd.
  Qed.

  Lemma monitor_tcp clk ci ctx p ci' tc' o :
    bytes_ok p = true -> no_lf (clk_date clk) = true ->
    proto_repl_tcp E clk ci tcb_new p = Ok (ci', tc', o) -> app_ok_C13 ctx p o = true.
  Proof.
    intros Hb Hd H. unfold app_ok_C13. destruct (has_http_sig p) eqn:Hsig; [|reflexivity].
    destruct (identified p Hsig) as [_ Hid]. destruct (tcp_stmt clk ci p Hb Hid) as (tc2 & H2 & _).
    rewrite H2 in H. injection H as _ _ <-. apply monitor_core. exact Hd.
  Qed.
End Resp.

(* ---------- the statements of Spec/C13.v ---------- *)
Theorem response_wf_stmt : C13_response_wf_stmt.
Proof.
  intros E date HE Hd. apply response_wf; [|exact Hd].
  exact (proj2 (proj2 (proj2 (proj2 (env_ok_http E HE))))).
Qed.
Theorem language_stmt : C13_language_stmt.
Proof. intros E clk p HE Hb. apply repl_language; assumption. Qed.
Theorem complete_stmt : C13_complete_stmt.
Proof. intros E clk s t HE Hs Hb. apply repl_complete; assumption. Qed.
Theorem sound_stmt : C13_sound_stmt.
Proof. intros E clk p h' r HE Hb H. eapply repl_sound; eassumption. Qed.
Theorem udp_dispatch_stmt : C13_udp_stmt.
Proof. intros E clk ci p HE Hb Hid. apply udp_stmt; assumption. Qed.
Theorem tcp_dispatch_stmt : C13_tcp_stmt.
Proof. intros E clk ci p HE Hb Hid. apply tcp_stmt; assumption. Qed.
Theorem identified_stmt : C13_identified_stmt.
Proof. intros E p HE Hs. apply identified; assumption. Qed.
Theorem monitor_udp_stmt : C13_monitor_udp_stmt.
Proof. intros E clk ci ctx p ci' o HE Hb Hd H. eapply monitor_udp; eassumption. Qed.
Theorem monitor_tcp_stmt : C13_monitor_tcp_stmt.
Proof. intros E clk ci ctx p ci' tc' o HE Hb Hd H. eapply monitor_tcp; eassumption. Qed.

(* ---------- non-vacuity: the grammar and the leniencies on concrete requests ---------- *)
(* "GET /a?b=%20 HTTP/1.1\r\nHost: x\r\nAccept: */*\r\n\r\n" *)
Definition ex_get2 : bytes :=
  [71;69;84;32;47;97;63;98;61;37;50;48;32;72;84;84;80;47;49;46;49;13;10;
   72;111;115;116;58;32;120;13;10;65;99;99;101;112;116;58;32;42;47;42;13;10;13;10].
(* "POST /\xff HTTP/10.0\n\n" followed by a body *)
Definition ex_lf : bytes := [80;79;83;84;32;47;255;32;72;84;84;80;47;49;48;46;48;10;10].
(* "GET /a\nb HTTP/1.1\r\n\r\n",  "GET / HTTP/.\r\n\r\n",  "GET / HTTP/1.\r\n\r\n" *)
Definition ex_lf_target : bytes := [71;69;84;32;47;97;10;98;32;72;84;84;80;47;49;46;49;13;10;13;10].
Definition ex_nover : bytes := [71;69;84;32;47;32;72;84;84;80;47;46;13;10;13;10].
Definition ex_nominor : bytes := [71;69;84;32;47;32;72;84;84;80;47;49;46;13;10;13;10].
(* lenient only: "get / HTTP/1.\r1\r\r\n:x:\ry\n\r\r\n" *)
Definition ex_lenient : bytes :=
  [103;101;116;32;47;32;72;84;84;80;47;49;46;13;49;13;13;10;58;120;58;13;121;10;13;13;10].

Example ex_get2_strict : http_complete_prefix ex_get2 = Some 47%nat.
Proof. vm_compute. reflexivity. Qed.
Example ex_get2_in_Lstrict : Lstrict ex_get2.
Proof.
  assert (H : http_complete_prefix ex_get2 = Some (length ex_get2)) by (vm_compute; reflexivity).
  apply http_complete_prefix_iff in H. destruct H as (p & t & E & Hp & Hl).
  assert (t = []).
  { assert (Hlen : length ex_get2 = length (p ++ t)) by (rewrite E; reflexivity).
    rewrite app_length, Hl in Hlen. destruct t; [reflexivity | cbn [length] in Hlen; lia]. }
  subst t. rewrite app_nil_r in E. rewrite E. exact Hp.
Qed.
Example ex_lf_strict_with_body : http_complete_prefix (ex_lf ++ [1; 2; 3]) = Some 19%nat.
Proof. vm_compute. reflexivity. Qed.
Example ex_lf_target_rejected : http_relaxed_prefix ex_lf_target = None.
Proof. vm_compute. reflexivity. Qed.
Example ex_nover_rejected : http_relaxed_prefix ex_nover = None /\ http_relaxed_prefix ex_nominor = None.
Proof. split; vm_compute; reflexivity. Qed.
Example ex_lenient_only : http_complete_prefix ex_lenient = None /\ http_relaxed_prefix ex_lenient = Some 27%nat.
Proof. split; vm_compute; reflexivity. Qed.
