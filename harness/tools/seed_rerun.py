#!/usr/bin/env python3
"""seed_rerun.py [names...] -- re-evaluates the seeded changes kept under /verif/seeded against the CURRENT checks:
applies each patch to /repo (skipping those that no longer apply to the current HEAD), runs the checks recorded in
its meta.json as having caught it, reverts, and writes the outcome into meta.json["rerun"]."""
import sys, os, json, subprocess, glob, time

def sh(cmd, cwd=None, timeout=3600):
    p = subprocess.run(cmd, shell=True, cwd=cwd, stdout=subprocess.PIPE, stderr=subprocess.STDOUT, text=True, timeout=timeout)
    return p.returncode, p.stdout

def main():
    names = sys.argv[1:] or sorted(os.path.basename(os.path.dirname(p)) for p in glob.glob("/verif/seeded/*/meta.json"))
    head = sh("git -C /repo rev-parse --short HEAD")[1].strip()
    for name in names:
        only = None
        if ":" in name:                      # name:C01,C02 -> run exactly these checks
            name, only = name.split(":")
            only = only.split(",")
        d = os.path.join("/verif/seeded", name)
        meta = json.load(open(os.path.join(d, "meta.json")))
        rc, o = sh("git -C /repo status --short"); assert o.strip() == "", "repo not clean"
        rc, o = sh("git -C /repo apply --check %s/patch.diff" % d)
        if rc != 0:
            meta["rerun"] = {"head": head, "applies": False}
            json.dump(meta, open(os.path.join(d, "meta.json"), "w"), indent=1)
            print(name, "does not apply to", head)
            continue
        sh("git -C /repo apply %s/patch.diff" % d)
        res = {}
        try:
            for c in (only or meta.get("caught_by") or [meta.get("property")]):
                t0 = time.time()
                rc, o = sh("./check %s --quick" % c, cwd="/verif")
                res[c] = {"exit": rc, "wall_s": round(time.time() - t0, 1),
                          "lines": [l[:200] for l in o.splitlines() if l.startswith(("VIOLATION", "OK "))][:3]}
        finally:
            sh("git -C /repo checkout -- .")
        meta["rerun"] = {"head": head, "applies": True, "checks": res, "caught_by": [c for c, v in res.items() if v["exit"] != 0]}
        json.dump(meta, open(os.path.join(d, "meta.json"), "w"), indent=1)
        print(name, "caught by", meta["rerun"]["caught_by"], "of", list(res))
    sh("python3 harness/build.py", cwd="/verif")
    print("RERUN-DONE")

main()
