(* Proofs/C11uClock.v -- one clock reading per segment.  The control block after a segment does
   not depend on the clock (only reply contents do); hence a statement that holds of
   [tcp_stream] for EVERY constant clock transfers to [tcp_stream_c], segment by segment. *)
From Coq Require Import Lia.
From MS Require Import Proofs.Tactics Smack Http Proto L2 Spec.View Spec.TcpRef Spec.AppView Spec.C11 Spec.C11http
     Spec.C11u Spec.C11uFrame Proofs.C11 Proofs.C11uHttp Proofs.C11uCut Proofs.C11uFrame.

Lemma dispatch_tcb_clk E clk clk' ci id tc data c1 t1 o1 c2 t2 o2 :
  dispatch E clk ci id (Some tc) data = Ok (c1, t1, o1) ->
  dispatch E clk' ci id (Some tc) data = Ok (c2, t2, o2) -> c1 = c2 /\ t1 = t2.
Proof.
  unfold dispatch.
  destruct (id =? PROTO_HTTP).
  { destruct (match t_pstate tc with None => _ | Some _ => _ end) as [h|s]; [|discriminate].
    unfold http_repl. destruct (http_parse (e_http_tbl E) h data) as [s'|e]; cbn [bind]; [|discriminate].
    destruct (h_state s' =? HTTP_CONTENT); intros H1 H2; inversion H1; inversion H2; subst; split; reflexivity. }
  destruct (id =? PROTO_STUN).
  { destruct (stun_repl ci data). intros H1 H2; inversion H1; inversion H2; subst; split; reflexivity. }
  destruct (id =? PROTO_SSH); [intros H1 H2; inversion H1; inversion H2; subst; split; reflexivity|].
  destruct (id =? PROTO_GHOST); [intros H1 H2; inversion H1; inversion H2; subst; split; reflexivity|].
  destruct (id =? PROTO_RPC_TCP).
  { destruct (ci_ip_dst ci); [|intros H1 H2; inversion H1; inversion H2; subst; split; reflexivity].
    destruct (ci_port_dst ci); [|intros H1 H2; inversion H1; inversion H2; subst; split; reflexivity].
    destruct (match t_pstate tc with None => _ | Some _ => _ end) as [r0|s]; [|discriminate].
    destruct (rpc_repl_tcp r0 _ _ data). intros H1 H2; inversion H1; inversion H2; subst; split; reflexivity. }
  destruct (id =? PROTO_RPC_UDP).
  { destruct (ci_ip_dst ci); [|intros H1 H2; inversion H1; inversion H2; subst; split; reflexivity].
    destruct (ci_port_dst ci); intros H1 H2; inversion H1; inversion H2; subst; split; reflexivity. }
  destruct (id =? PROTO_SMB1).
  { destruct (smb1_repl _ _ (clk_filetime clk) data); cbn [bind]; [|discriminate].
    destruct (smb1_repl _ _ (clk_filetime clk') data); cbn [bind]; [|discriminate].
    intros H1 H2; inversion H1; inversion H2; subst; split; reflexivity. }
  destruct (id =? PROTO_SMB2).
  { destruct (smb2_repl _ _ (clk_filetime clk) data); cbn [bind]; [|discriminate].
    destruct (smb2_repl _ _ (clk_filetime clk') data); cbn [bind]; [|discriminate].
    intros H1 H2; inversion H1; inversion H2; subst; split; reflexivity. }
  intros H1 H2; inversion H1; inversion H2; subst; split; reflexivity.
Qed.

Lemma proto_repl_tcp_tcb_clk E clk clk' ci tc data c1 t1 o1 c2 t2 o2 :
  proto_repl_tcp E clk ci tc data = Ok (c1, t1, o1) ->
  proto_repl_tcp E clk' ci tc data = Ok (c2, t2, o2) -> t1 = t2.
Proof.
  unfold proto_repl_tcp. destruct (tcp_identify E tc data) as [tc1 data1].
  destruct (dispatch E clk ci (t_proto tc1) (Some tc1) data1) as [[[a1 b1] x1]|s] eqn:D1; cbn [bind]; [|discriminate].
  destruct (dispatch E clk' ci (t_proto tc1) (Some tc1) data1) as [[[a2 b2] x2]|s] eqn:D2; cbn [bind]; [|discriminate].
  destruct (dispatch_tcb_clk _ _ _ _ _ _ _ _ _ _ _ _ _ D1 D2) as [-> ->].
  intros H1 H2. inversion H1. inversion H2. reflexivity.
Qed.

(* what [tcp_stream_c] returns, given what [tcp_stream] returns for every constant clock *)
Fixpoint diag (F : clock -> list (option bytes)) (segs : list (clock * bytes)) : list (option bytes) :=
  match segs with
  | [] => []
  | (clk, _) :: rest => hd None (F clk) :: diag (fun c => tl (F c)) rest
  end.

Theorem tcp_stream_c_diag E ci : forall segs tc F,
  (forall clk, tcp_stream E clk ci tc (map snd segs) = Ok (F clk)) ->
  tcp_stream_c E ci tc segs = Ok (diag F segs).
Proof.
  induction segs as [|[clk0 s] rest IH]; intros tc F H; [reflexivity|].
  cbn [map snd tcp_stream] in H. cbn [tcp_stream_c diag].
  pose proof (H clk0) as H0.
  destruct (proto_repl_tcp E clk0 ci tc s) as [[[c0 tc0] o0]|e] eqn:P0; cbn [bind] in H0; [|discriminate].
  cbn [bind].
  assert (Hrest : forall clk, tcp_stream E clk ci tc0 (map snd rest) = Ok (tl (F clk))).
  { intros clk. pose proof (H clk) as Hc.
    destruct (proto_repl_tcp E clk ci tc s) as [[[c1 tc1] o1]|e] eqn:P1; cbn [bind] in Hc; [|discriminate].
    rewrite (proto_repl_tcp_tcb_clk _ _ _ _ _ _ _ _ _ _ _ _ P0 P1).
    destruct (tcp_stream E clk ci tc1 (map snd rest)) as [l|e]; cbn [bind] in Hc; [|discriminate].
    injection Hc as <-. reflexivity. }
  rewrite (IH tc0 (fun c => tl (F c)) Hrest). cbn [bind].
  destruct (tcp_stream E clk0 ci tc0 (map snd rest)) as [l|e]; cbn [bind] in H0; [|discriminate].
  injection H0 as <-. reflexivity.
Qed.

Lemma diag_http_ref E : forall segs acc,
  diag (fun clk => http_stream_ref_at E clk acc (map snd segs)) segs = http_stream_ref_c_at E acc segs.
Proof.
  induction segs as [|[clk s] rest IH]; intros acc; [reflexivity|].
  cbn [map snd diag http_stream_ref_at http_stream_ref_c_at].
  destruct (http_answered (e_http_tbl E) (acc ++ s)); cbn [hd tl]; f_equal.
  - rewrite <- (IH []). reflexivity.
  - rewrite <- (IH (acc ++ s)). reflexivity.
Qed.

(* the uniform equation with a clock reading per segment *)
Theorem http_stream_uniform_c E ci segs :
  proto_tbl_ok E = true -> http_uniform_ok E = true ->
  smack_ok (e_http_tbl E) = true -> http_tbl_ok (e_http_tbl E) = true ->
  bytes_ok (concat (map snd segs)) = true -> tcp_first_id E (concat (map snd segs)) = Some PROTO_HTTP ->
  tcp_stream_c E ci tcb_new segs = Ok (http_stream_ref_c E segs).
Proof.
  intros Ht Hu Hhok Hhtbl Hb Hid.
  rewrite (tcp_stream_c_diag E ci segs tcb_new (fun clk => http_stream_ref E clk (map snd segs))).
  - unfold http_stream_ref, http_stream_ref_c. rewrite diag_http_ref. reflexivity.
  - intros clk. apply http_stream_uniform; assumption.
Qed.

(* ... and at frame level: every frame with the clock reading of its arrival *)
Theorem http_frames_uniform_c E cfg ci ck fs tb tb' rs :
  cfg_ok cfg = true -> proto_tbl_ok E = true -> http_uniform_ok E = true ->
  smack_ok (e_http_tbl E) = true -> http_tbl_ok (e_http_tbl E) = true ->
  Forall (fun cf : clock * bytes => flow_frame cfg ci ck (snd cf)) fs ->
  tbl_mem ck tb = false ->
  match fs with cf :: _ => exists v, view_tcp cfg (snd cf) = Some v /\ presents_cookie cfg v = true | [] => True end ->
  let segs := map (fun cf : clock * bytes => (fst cf, frame_payload cfg (snd cf))) fs in
  tcp_first_id E (concat (map snd segs)) = Some PROTO_HTTP ->
  flow_run E cfg tb fs = Ok (tb', rs) ->
  frames_carry cfg (map snd fs) (http_stream_ref_c E segs) rs.
Proof.
  intros Hcfg Ht Hu Hhok Hhtbl Hall Hmem Hfirst segs Hid Hrun.
  assert (Hacc : match fs with cf :: _ => flow_accepts cfg ck tb (snd cf) | [] => True end).
  { destruct fs as [|cf t]; [exact I|]. right. exact Hfirst. }
  destruct (flow_lift E cfg ci ck Hcfg fs tb tb' rs Hall Hacc Hrun) as (outs & Hs & Hc).
  fold segs in Hs.
  assert (Hnew : flow_tcb ck tb = tcb_new) by (unfold flow_tcb; rewrite (LiftTcp.tbl_mem_find _ _ Hmem); reflexivity).
  rewrite Hnew in Hs.
  assert (Hb : bytes_ok (concat (map snd segs)) = true).
  { unfold segs. rewrite map_map. cbn [snd]. rewrite <- (map_map snd (frame_payload cfg)).
    apply (payloads_ok cfg ci ck). apply Forall_forall. intros f Hin. apply in_map_iff in Hin.
    destruct Hin as (cf & <- & Hin). rewrite Forall_forall in Hall. exact (Hall cf Hin). }
  rewrite (http_stream_uniform_c E ci segs Ht Hu Hhok Hhtbl Hb Hid) in Hs. injection Hs as <-. exact Hc.
Qed.
