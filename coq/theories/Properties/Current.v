(* Properties/Current.v -- the frame-level theorems of C14-C17 on the CURRENT implementation
   ([the_env]: the data dumped from the code on every run) with the identification
   hypotheses CLOSED by C10's product check (Properties/C10.v: outside the known class the
   compiled matcher identifies what the published signature set identifies).

   For every received frame (no bound on lengths other than the one stated), every
   configuration and connection table: what reply() emits satisfies the frame-level
   monitors of Spec/C14ref.v, Spec/C15.v, Spec/C16.v, Spec/C17.v.  Nothing is assumed of
   the compiled matcher: what is used of it is [product_ok (e_proto_tbl the_env) K0]
   (decided by computation on every run) and, for the two end-anchored STUN layouts that
   lie inside C10's class, two direct checks of the compiled matcher ([tbl_chk], also
   decided by computation).  The facts that connect the properties' scopes with the
   published signatures (a call in scope completes the RPC signature and meets no known
   point, ...) are facts about the REFERENCE only (Spec/RefSig.v, Spec/C10Known.v),
   decided by [ref_chk] (Proofs/GluePat.v).
   Statements only; proofs in Proofs/Glue*.v. *)
From MS Require Import Smack Rpc Stun Smb Dns Proto L2 Spec.View Spec.RefDec Spec.TcpRef Spec.AppView Spec.History
  Spec.RefSig Spec.C10 Spec.C10Known Spec.RefXdr Spec.RefStun Spec.RefSmb Spec.RefDns
  Spec.C14 Spec.C14ref Spec.C15 Spec.C16 Spec.C17 Instance
  Proofs.TcpState Proofs.C07 Proofs.LiftTcp Proofs.FrameBuild Proofs.C10Current
  Proofs.C14Examples Proofs.C15Examples Proofs.C15Frame Proofs.C15FrameExamples Proofs.C16Examples Proofs.C16Frame
  Proofs.C17Mon Proofs.C17Examples
  Proofs.GluePat Proofs.GlueC16 Proofs.GlueC15 Proofs.GlueC17 Proofs.GlueC14 Proofs.GlueExamples Proofs.GlueExact Proofs.GlueExactStun.

(* ====================================================================== *)
(*   the checkers behind the discharge (generic: any table, any known set)  *)
(* ====================================================================== *)
(* every payload whose leading bytes are in the classes of [pat] ([exact]: whose bytes are
   exactly [pat] long and in its classes) is outside the class D0 K and is identified as
   [id] by the published signature set *)
Theorem Glue_ref_chk_sound :
  forall K id exact pat, ref_chk K id exact pat [r_init] = true ->
  forall p, bytes_ok p = true -> pmatch exact pat p = true ->
    D0_udp K p = false /\ D0_tcp K p = false /\ ref_udp p = Some id /\ (exact = false -> ref_tcp p = Some id).
Proof. exact ref_chk_init. Qed.
(* the same run through a compiled matcher *)
Theorem Glue_tbl_chk_sound :
  forall t id exact pat,
  smack_ok t = true -> tbl_pre t = true -> tbl_chk t id exact pat [BASE_STATE] = true ->
  forall p, bytes_ok p = true -> pmatch exact pat p = true ->
    udp_id_tbl t p = Some id /\ (exact = false -> tcp_first_id_tbl t p = Some id).
Proof. exact tbl_chk_init. Qed.

(* ====================================================================== *)
(*                                C16                                     *)
(* ====================================================================== *)
(* the relation between C16's class and C10's class: a call in scope that is not
   [rpc_shadowed] is outside C10's class (the coarse one, D0; a fortiori the refined one)
   and completes the ONC-RPC signature of its transport in the published set *)
Theorem C16_class_covers_C10_class :
  forall tcp p, bytes_ok p = true -> c16_demands false tcp p = true ->
    c10_class_payload_coarse tcp p = false /\
    (if tcp then ref_tcp p else ref_udp p) = Some (c16_proto tcp).
Proof. exact rpc_shadowed_covers_c10_class. Qed.

(* the identification hypothesis of Properties/C16frame.v, closed *)
Theorem C16_current_ident : forall tcp, rpc_ident_ok the_env false tcp.
Proof. exact rpc_ident_current. Qed.

(* the converse: a call in scope INSIDE [rpc_shadowed] is identified by nothing; so, on calls
   in scope, [rpc_shadowed] is exactly the set the compiled matcher does not identify as
   ONC-RPC: the class predicate of the C16 check is neither too narrow nor too coarse *)
Theorem C16_class_unidentified :
  forall tcp p c, bytes_ok p = true -> scope_call tcp p = Some c -> rpc_shadowed tcp p = true ->
    c16_id the_env tcp p = None.
Proof. exact rpc_shadowed_unidentified. Qed.
Theorem C16_class_exact :
  forall tcp p c, bytes_ok p = true -> scope_call tcp p = Some c ->
    (rpc_shadowed tcp p = true <-> c16_id the_env tcp p <> Some (c16_proto tcp)).
Proof. exact rpc_shadowed_exact. Qed.

Theorem C16_current_frame_udp :
  forall cfg clk tb f tb' r evs,
    cfg_ok cfg = true -> bytes_ok f = true ->
    reply the_env cfg clk tb f = Ok (tb', r, evs) ->
    ok_C16_udp cfg f r = true.
Proof. exact frame_udp_C16_current. Qed.

Theorem C16_current_frame_tcp_first :
  forall cfg h clk tb f tb' r evs,
    cfg_ok cfg = true ->
    Forall (fun x => bytes_ok x = true) (frames h) -> bytes_ok f = true ->
    run the_env cfg [] h = Ok tb ->
    (forall v, view_tcp cfg f = Some v -> no_collision cfg (flow_of v :: ref_run cfg (frames h))) ->
    reply the_env cfg clk tb f = Ok (tb', r, evs) ->
    ok_C16_tcp cfg (ref_run cfg (frames h)) f r = true.
Proof. exact frame_tcp_C16_current. Qed.

Theorem C16_current_frame_tcp_first_state :
  forall cfg clk tb f tb' r evs v,
    cfg_ok cfg = true -> bytes_ok f = true ->
    view_tcp cfg f = Some v ->
    is_data (tcp_flags (v_l4 v)) = true ->
    tbl_mem (flow_cookie cfg (flow_of v)) tb = false ->
    presents_cookie cfg v = true ->
    reply the_env cfg clk tb f = Ok (tb', r, evs) ->
    exists o, tcp_resp r = Some o /\ app_ok_C16 (ctx_of true v) (tcp_payload (v_l4 v)) o = true.
Proof. exact frame_tcp_C16_current_state. Qed.

Theorem C16_current_examples :
  (c16_demands false false c16_udp_payload = true /\ pmatch false pat_rpc_udp c16_udp_payload = true /\
   D0 K0 c16_udp_payload = false /\ ref_udp c16_udp_payload = Some ID_RPC_UDP /\
   udp_id the_env c16_udp_payload = Some PROTO_RPC_UDP /\
   gx_is_ok c16_udp_frame = true /\ ok_C16_udp fx_cfg c16_udp_frame (gx_reply c16_udp_frame) = true /\
   ok_C16_udp fx_cfg c16_udp_frame None = false) /\
  (c16_demands false true c16_tcp_payload = true /\ pmatch false pat_rpc_tcp c16_tcp_payload = true /\
   D0_tcp K0 c16_tcp_payload = false /\ ref_tcp c16_tcp_payload = Some ID_RPC_TCP /\
   tcp_first_id the_env c16_tcp_payload = Some PROTO_RPC_TCP /\
   gx_is_ok c16_tcp_frame = true /\ ok_C16_tcp fx_cfg [] c16_tcp_frame (gx_reply c16_tcp_frame) = true /\
   ok_C16_tcp fx_cfg [] c16_tcp_frame None = false).
Proof. exact ex_glue_C16. Qed.

(* ====================================================================== *)
(*                                C15                                     *)
(* ====================================================================== *)
(* every payload covered by the published STUN signatures and outside [stun_shadowed] is
   identified as STUN by the compiled matcher (TCP: first segment; UDP: datagram) *)
Theorem C15_current_published_identified :
  forall tcp p, bytes_ok p = true -> stun_published tcp p && negb (stun_shadowed tcp p) = true ->
    c15_id the_env tcp p = Some PROTO_STUN.
Proof. exact stun_published_identified. Qed.

(* the part of it that C10 gives: the magic-cookie layout with a non-zero high length byte is
   outside C10's class and is STUN in the published set *)
Theorem C15_magic_outside_C10_class :
  forall p, bytes_ok p = true -> sig_magic p = true -> (nth 2 p 1 =? 0) = false ->
    c10_class_payload_coarse false p = false /\ c10_class_payload_coarse true p = false /\
    ref_udp p = Some ID_STUN /\ ref_tcp p = Some ID_STUN /\
    udp_id the_env p = Some PROTO_STUN /\ tcp_first_id the_env p = Some PROTO_STUN.
Proof. exact magic_identified. Qed.

(* the part C10 cannot give: the two end-anchored layouts, every datagram of them (the
   reference check fails on them: they meet known points of K0) *)
Theorem C15_end_anchored_identified :
  (forall p, bytes_ok p = true -> sig_empty p = true -> udp_id the_env p = Some PROTO_STUN) /\
  (forall p, bytes_ok p = true -> sig_change p = true -> udp_id the_env p = Some PROTO_STUN) /\
  ref_chk K0 ID_STUN true pat_stun_empty [r_init] = false /\
  ref_chk K0 ID_STUN true pat_stun_change [r_init] = false.
Proof. exact (conj empty_identified (conj change_identified (conj chk_stun_empty_ref_fails chk_stun_change_ref_fails))). Qed.

(* witnesses of the difference between C15's class and C10's class: binding requests covered
   by the published signatures, outside [stun_shadowed], inside C10's (refined) class, answered
   as STUN *)
Theorem C15_class_mismatch_witnesses :
  (is_binding_req W_stun_cookie20 = true /\ sig_empty W_stun_cookie20 = true /\
   stun_published false W_stun_cookie20 = true /\ stun_shadowed false W_stun_cookie20 = false /\
   c10_class_payload false W_stun_cookie20 = true /\
   ref_udp W_stun_cookie20 = Some ID_STUN /\ udp_id the_env W_stun_cookie20 = Some PROTO_STUN /\
   pmatch true pat_stun_empty W_stun_cookie20 = true /\
   ok_C15_udp fx_cfg gx_stun_cookie20_frame (gx_reply gx_stun_cookie20_frame) = true /\
   ok_C15_udp_strict fx_cfg gx_stun_cookie20_frame (gx_reply gx_stun_cookie20_frame) = true /\
   ok_C15_udp fx_cfg gx_stun_cookie20_frame None = false) /\
  (is_binding_req W_tie = true /\ sig_change W_tie = true /\
   stun_published false W_tie = true /\ stun_shadowed false W_tie = false /\
   c10_class_payload false W_tie = true /\
   ref_udp W_tie = Some ID_RPC_TCP /\ udp_id the_env W_tie = Some PROTO_STUN /\
   pmatch true pat_stun_change W_tie = true /\
   ok_C15_udp fx_cfg gx_stun_tie_frame (gx_reply gx_stun_tie_frame) = true /\
   ok_C15_udp_strict fx_cfg gx_stun_tie_frame (gx_reply gx_stun_tie_frame) = true /\
   ok_C15_udp fx_cfg gx_stun_tie_frame None = false).
Proof. exact ex_glue_C15_class_mismatch. Qed.

(* over TCP the class is exact: a payload covered by the published signature is in
   [stun_shadowed] iff the compiled matcher does not identify it as STUN (then: as nothing) *)
Theorem C15_class_tcp_unidentified :
  forall p, bytes_ok p = true -> stun_shadowed true p = true -> tcp_first_id the_env p = None.
Proof. exact stun_shadowed_tcp_unidentified. Qed.
Theorem C15_class_tcp_exact :
  forall p, bytes_ok p = true -> stun_published true p = true ->
    (stun_shadowed true p = true <-> tcp_first_id the_env p <> Some PROTO_STUN).
Proof. exact stun_shadowed_tcp_exact. Qed.

(* ... and over UDP: a datagram inside [stun_shadowed false] is identified by nothing *)
Theorem C15_class_udp_unidentified :
  forall p, bytes_ok p = true -> stun_shadowed false p = true -> udp_id the_env p = None.
Proof. exact stun_shadowed_udp_unidentified. Qed.
Theorem C15_class_udp_exact :
  forall p, bytes_ok p = true -> stun_published false p = true ->
    (stun_shadowed false p = true <-> udp_id the_env p <> Some PROTO_STUN).
Proof. exact stun_shadowed_udp_exact. Qed.

(* the identification hypothesis of Properties/C15frame.v, closed *)
Theorem C15_current_ident : forall tcp, stun_ident_ok the_env false tcp.
Proof. exact stun_ident_current. Qed.

(* the DNS hypothesis of C15_frame_udp_at, from a bound on the length of the datagram *)
Theorem C15_dns_quiet_short :
  forall ctx p, (length (a_dst ctx) <= 16)%nat -> (length p <= 4096)%nat -> dns_quiet_at ctx p.
Proof. exact dns_quiet_short. Qed.

Theorem C15_current_frame_tcp_first :
  forall cfg h clk tb f tb' r evs,
    cfg_ok cfg = true ->
    Forall (fun x => bytes_ok x = true) (frames h) -> bytes_ok f = true ->
    run the_env cfg [] h = Ok tb ->
    (forall v, view_tcp cfg f = Some v -> no_collision cfg (flow_of v :: ref_run cfg (frames h))) ->
    reply the_env cfg clk tb f = Ok (tb', r, evs) ->
    ok_C15_tcp cfg (ref_run cfg (frames h)) f r = true.
Proof. exact frame_tcp_C15_current. Qed.

Theorem C15_current_frame_tcp_first_state :
  forall cfg clk tb f tb' r evs v,
    cfg_ok cfg = true -> bytes_ok f = true ->
    view_tcp cfg f = Some v ->
    is_data (tcp_flags (v_l4 v)) = true ->
    tbl_mem (flow_cookie cfg (flow_of v)) tb = false ->
    presents_cookie cfg v = true ->
    reply the_env cfg clk tb f = Ok (tb', r, evs) ->
    exists o, tcp_resp r = Some o /\ app_ok_C15 (ctx_of true v) (tcp_payload (v_l4 v)) o = true.
Proof. exact frame_tcp_C15_current_state. Qed.

(* UDP: the only hypothesis left is the length of the received frame *)
Theorem C15_current_frame_udp :
  forall cfg clk tb f tb' r evs,
    cfg_ok cfg = true -> bytes_ok f = true -> (length f <= 4096)%nat ->
    reply the_env cfg clk tb f = Ok (tb', r, evs) ->
    ok_C15_udp cfg f r = true.
Proof. exact frame_udp_C15_current. Qed.

Theorem C15_current_examples :
  ((stun_published false (ser_stun x_big) = true /\ stun_shadowed false (ser_stun x_big) = false /\
    pmatch false pat_stun_magic (ser_stun x_big) = true /\ D0 K0 (ser_stun x_big) = false /\
    ref_udp (ser_stun x_big) = Some ID_STUN /\ udp_id the_env (ser_stun x_big) = Some PROTO_STUN /\
    (length gx_stun_udp_frame <=? 4096)%nat = true /\ gx_is_ok gx_stun_udp_frame = true /\
    ok_C15_udp fx_cfg gx_stun_udp_frame (gx_reply gx_stun_udp_frame) = true /\
    ok_C15_udp fx_cfg gx_stun_udp_frame None = false) /\
   (gx_is_ok c15_udp_frame = true /\ (length c15_udp_frame <=? 4096)%nat = true /\
    ok_C15_udp fx_cfg c15_udp_frame (gx_reply c15_udp_frame) = true /\ ok_C15_udp fx_cfg c15_udp_frame None = false)) /\
  (stun_published true (ser_stun x_big) = true /\ stun_shadowed true (ser_stun x_big) = false /\
   D0_tcp K0 (ser_stun x_big) = false /\ ref_tcp (ser_stun x_big) = Some ID_STUN /\
   gx_is_ok c15_tcp_frame = true /\
   ok_C15_tcp fx_cfg [] c15_tcp_frame (gx_reply c15_tcp_frame) = true /\ ok_C15_tcp fx_cfg [] c15_tcp_frame None = false).
Proof. exact (conj ex_glue_C15_udp ex_glue_C15_tcp). Qed.

(* ====================================================================== *)
(*                                C17                                     *)
(* ====================================================================== *)
(* a payload the monitor classifies begins 00 00 * * ff|fe 'S' 'M' 'B' (NetBIOS type 0, flags 0):
   the monitor demands nothing for a payload the published SMB signatures do not cover *)
Theorem C17_classified_head :
  forall p rq, classify p = Some rq ->
    exists a b m q, p = [0; 0; a; b; m; 83; 77; 66] ++ q /\
                    ((m = 255 /\ rq_smb1 rq = true) \/ (m = 254 /\ rq_smb2 rq = true)).
Proof. exact classify_head. Qed.

(* ... is outside C10's class and is identified as SMB1 / SMB2, by the published set and by
   the compiled matcher, over UDP and on a first TCP segment *)
Theorem C17_classified_identified :
  forall p rq, bytes_ok p = true -> classify p = Some rq ->
    c10_class_payload_coarse false p = false /\ c10_class_payload_coarse true p = false /\
    ((nth 4 p 0 = 255 /\ ref_udp p = Some ID_SMB1 /\ ref_tcp p = Some ID_SMB1 /\
      udp_id the_env p = Some PROTO_SMB1 /\ tcp_first_id the_env p = Some PROTO_SMB1) \/
     (nth 4 p 0 = 254 /\ ref_udp p = Some ID_SMB2 /\ ref_tcp p = Some ID_SMB2 /\
      udp_id the_env p = Some PROTO_SMB2 /\ tcp_first_id the_env p = Some PROTO_SMB2)).
Proof. exact classified_identified. Qed.

Theorem C17_frame_udp :
  forall cfg clk tb f tb' r evs,
    cfg_ok cfg = true -> bytes_ok f = true ->
    reply the_env cfg clk tb f = Ok (tb', r, evs) ->
    ok_C17_udp cfg f r = true.
Proof. exact frame_udp_C17. Qed.

Theorem C17_frame_tcp_first :
  forall cfg h clk tb f tb' r evs,
    cfg_ok cfg = true ->
    Forall (fun x => bytes_ok x = true) (frames h) -> bytes_ok f = true ->
    run the_env cfg [] h = Ok tb ->
    (forall v, view_tcp cfg f = Some v -> no_collision cfg (flow_of v :: ref_run cfg (frames h))) ->
    reply the_env cfg clk tb f = Ok (tb', r, evs) ->
    ok_C17_tcp cfg (ref_run cfg (frames h)) f r = true.
Proof. exact frame_tcp_C17_history. Qed.

(* any reference state that agrees with the connection table on the flow of the frame *)
Theorem C17_frame_tcp_first_agree :
  forall cfg st clk tb f tb' r evs,
    cfg_ok cfg = true -> bytes_ok f = true -> st_agrees cfg st tb f ->
    reply the_env cfg clk tb f = Ok (tb', r, evs) ->
    ok_C17_tcp cfg st f r = true.
Proof. exact frame_tcp_C17_agree. Qed.

Theorem C17_frame_tcp_first_state :
  forall cfg clk tb f tb' r evs v,
    cfg_ok cfg = true -> bytes_ok f = true ->
    view_tcp cfg f = Some v ->
    is_data (tcp_flags (v_l4 v)) = true ->
    tbl_mem (flow_cookie cfg (flow_of v)) tb = false ->
    presents_cookie cfg v = true ->
    reply the_env cfg clk tb f = Ok (tb', r, evs) ->
    exists o, tcp_resp r = Some o /\ app_ok_C17 (ctx_of true v) (tcp_payload (v_l4 v)) o = true.
Proof. exact frame_tcp_C17_state. Qed.

Theorem C17_frame_examples :
  (udp_req fx_cfg gx_smb_udp_frame = Some (fx_ctx true false 40000 445, x_smb1_req_negotiate) /\
   classified x_smb1_req_negotiate = true /\ pmatch false (pat_smb 255) x_smb1_req_negotiate = true /\
   D0 K0 x_smb1_req_negotiate = false /\ ref_udp x_smb1_req_negotiate = Some ID_SMB1 /\
   gx_is_ok gx_smb_udp_frame = true /\
   (match gx_reply gx_smb_udp_frame with Some _ => true | None => false end) = true /\
   ok_C17_udp fx_cfg gx_smb_udp_frame (gx_reply gx_smb_udp_frame) = true /\
   ok_C17_udp fx_cfg gx_smb_udp_frame None = false) /\
  (run the_env fx_cfg [] gx_smb_tcp_hist = Ok [] /\ ref_run fx_cfg (frames gx_smb_tcp_hist) = [] /\
   tcp_first_req fx_cfg [] gx_smb_tcp_frame = Some (fx_ctx false true 50000 445, x_smb2_req_session_setup) /\
   classified x_smb2_req_session_setup = true /\ pmatch false (pat_smb 254) x_smb2_req_session_setup = true /\
   D0_tcp K0 x_smb2_req_session_setup = false /\ ref_tcp x_smb2_req_session_setup = Some ID_SMB2 /\
   gx_is_ok gx_smb_tcp_frame = true /\
   ok_C17_tcp fx_cfg [] gx_smb_tcp_frame (gx_reply gx_smb_tcp_frame) = true /\
   ok_C17_tcp fx_cfg [] gx_smb_tcp_frame None = false).
Proof. exact ex_glue_C17. Qed.

(* ====================================================================== *)
(*                  C14 against the published list                        *)
(* ====================================================================== *)
(* outside C10's refined class the monitor on the published list IS the monitor on the
   compiled table *)
Theorem C14_ref_monitor_is_table_monitor :
  forall ctx p o, bytes_ok p = true -> c10_class_payload false p = false ->
    app_ok_C14_ref_strict ctx p o = app_ok_C14 the_env ctx p o /\
    app_ok_C14_ref ctx p o = app_ok_C14 the_env ctx p o.
Proof. exact app_ok_C14_ref_eq. Qed.

(* every frame: the monitor against the published list (C10's class excluded inside it) *)
Theorem C14_current_frame_udp_ref :
  forall cfg clk tb f tb' r evs,
    cfg_ok cfg = true -> bytes_ok f = true ->
    reply the_env cfg clk tb f = Ok (tb', r, evs) ->
    ok_C14_udp_ref cfg f r = true.
Proof. exact frame_udp_C14_ref. Qed.

(* ... and as worded, for every frame whose datagram is outside C10's class *)
Theorem C14_current_frame_udp_ref_strict :
  forall cfg clk tb f tb' r evs,
    cfg_ok cfg = true -> bytes_ok f = true ->
    c14_c10_class_frame cfg f = false ->
    reply the_env cfg clk tb f = Ok (tb', r, evs) ->
    ok_C14_udp_ref_strict cfg f r = true.
Proof. exact frame_udp_C14_ref_strict. Qed.

(* the DNS examples: in scope, no published signature, outside the REFINED class; all but one
   inside the COARSE class D0 (QDCOUNT = 1 meets the dead point of K0_rpc at byte 5) *)
Theorem C14_ref_examples :
  (forallb dns_example_ok [x_www; x_three; x_zero; x_zbyte; x_root; x_l63; x_max] = true /\
   (map (fun q => c10_class_payload_coarse false (ser_query q)) [x_www; x_three; x_zero; x_zbyte; x_root; x_l63; x_max]
    = [true; true; false; true; true; true; true])) /\
  (x_run_ref (ser_query x_www) = Some (true, true, true, false, false) /\
   x_run_ref (ser_query x_three) = Some (true, true, true, false, false) /\
   x_run_ref (ser_query x_txt) = Some (true, true, false, true, true) /\
   x_run_ref (firstn 20 (ser_query x_www)) = Some (true, true, false, true, true) /\
   x_run_ref (ser_query x_stun) = Some (true, true, false, false, true)) /\
  (c10_class_payload false W_end_udp23 = true /\ ref_udp W_end_udp23 = None /\
   udp_id the_env W_end_udp23 = Some PROTO_RPC_UDP /\
   c14_c10_class_frame C16Examples.x_cfg (C14Examples.x_frame W_end_udp23) = true).
Proof. exact (conj ex_dns_examples_outside_class (conj ex_frames_ref ex_c10_class_datagram)). Qed.

Print Assumptions Glue_ref_chk_sound.
Print Assumptions Glue_tbl_chk_sound.
Print Assumptions C16_class_covers_C10_class.
Print Assumptions C16_current_ident.
Print Assumptions C16_class_unidentified.
Print Assumptions C16_class_exact.
Print Assumptions C16_current_frame_udp.
Print Assumptions C16_current_frame_tcp_first.
Print Assumptions C16_current_frame_tcp_first_state.
Print Assumptions C16_current_examples.
Print Assumptions C15_current_published_identified.
Print Assumptions C15_magic_outside_C10_class.
Print Assumptions C15_end_anchored_identified.
Print Assumptions C15_class_mismatch_witnesses.
Print Assumptions C15_class_tcp_unidentified.
Print Assumptions C15_class_tcp_exact.
Print Assumptions C15_class_udp_unidentified.
Print Assumptions C15_class_udp_exact.
Print Assumptions C15_current_ident.
Print Assumptions C15_dns_quiet_short.
Print Assumptions C15_current_frame_tcp_first.
Print Assumptions C15_current_frame_tcp_first_state.
Print Assumptions C15_current_frame_udp.
Print Assumptions C15_current_examples.
Print Assumptions C17_classified_head.
Print Assumptions C17_classified_identified.
Print Assumptions C17_frame_udp.
Print Assumptions C17_frame_tcp_first.
Print Assumptions C17_frame_tcp_first_agree.
Print Assumptions C17_frame_tcp_first_state.
Print Assumptions C17_frame_examples.
Print Assumptions C14_ref_monitor_is_table_monitor.
Print Assumptions C14_current_frame_udp_ref.
Print Assumptions C14_current_frame_udp_ref_strict.
Print Assumptions C14_ref_examples.
