(* Cookie.v -- src/synackcookie/mod.rs: SYN cookie = low 32 bits of SipHash-2-4
   over the flow's addresses and ports. *)
From MS Require Export Bytes Types SipHash.

(* bytes fed to the hasher: write_u32 / write_u128 of the big-endian integer value
   (little-endian memory order = reversed octets), then write_u16 of each port *)
Definition cookie_msg (src dst : bytes) (sport dport : N) : bytes :=
  rev src ++ rev dst ++ le16 sport ++ le16 dport.

Definition cookie (k0 k1 : N) (src dst : bytes) (sport dport : N) : N :=
  (siphash24 k0 k1 (cookie_msg src dst sport dport)) mod 4294967296.

(* synackcookie::generate on a client-information record *)
Definition cookie_ci (k0 k1 : N) (ci : cinfo) : option N :=
  match ci_port_src ci, ci_port_dst ci, ci_ip_src ci, ci_ip_dst ci with
  | Some sp, Some dp, Some (V6 s), Some (V6 d) => Some (cookie k0 k1 s d sp dp)
  | Some sp, Some dp, Some (V4 s), Some (V4 d) => Some (cookie k0 k1 s d sp dp)
  | _, _, _, _ => None
  end.
