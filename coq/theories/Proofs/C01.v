(* Proofs/C01.v -- no Panic branch of the model is reachable. *)
From MS Require Import Proofs.Tactics Proofs.Pending Proofs.SmbSafe Proofs.HttpFold Proofs.HttpParse Proofs.C13
     Proofs.Pipeline Proofs.Factor Proofs.C06 Proofs.ViewLemmas
     L2 Spec.View Spec.History Spec.EnvOk Spec.C11http Spec.C01.

(* ---------- the application layer ---------- *)
Lemma http_repl_ok E clk h p :
  env_ok E = true -> http_st_ok (e_http_tbl E) h -> bytes_ok p = true ->
  exists h' o, http_repl (e_http_tbl E) (e_http_pre E) (e_http_post E) (clk_date clk) h p = Ok (h', o) /\
               http_st_ok (e_http_tbl E) h'.
Proof.
  intros HE Hst Hp. destruct (env_ok_http E HE) as (_ & Hok & Htbl & _).
  destruct (parse_sim_fold (e_http_tbl E) Hok Htbl p h Hst Hp) as (s1 & s2 & P & _ & _ & Hs1 & _).
  unfold http_repl. rewrite P. cbn [bind].
  destruct (h_state s1 =? HTTP_CONTENT); eexists _, _; (split; [reflexivity|]).
  - apply new_st_ok. exact Htbl.
  - exact Hs1.
Qed.

(* what dispatch may do to the client information: only STUN touches it, and only the
   destination port *)
Lemma stun_repl_ports ci p ci' o :
  stun_repl ci p = (ci', o) ->
  ci_port_src ci' = ci_port_src ci /\ ci_ip_src ci' = ci_ip_src ci /\ ci_ip_dst ci' = ci_ip_dst ci /\
  (forall d, ci_port_dst ci = Some d -> exists d', ci_port_dst ci' = Some d').
Proof.
  assert (forall c : cinfo, (c, @None bytes) = (ci', o) ->
            ci_port_src ci' = ci_port_src c /\ ci_ip_src ci' = ci_ip_src c /\ ci_ip_dst ci' = ci_ip_dst c /\
            (forall d, ci_port_dst c = Some d -> exists d', ci_port_dst ci' = Some d')) as Hsame.
  { intros c H. inversion H; subst. repeat split; eauto. }
  unfold stun_repl.
  destruct (length p <? 20)%nat; [apply Hsame|].
  destruct (64 <=? u8_at 0 p); [apply Hsame|].
  destruct (lenN p <? 20 + u16_at 2 p); [apply Hsame|].
  destruct (stun_attrs _ _ false) as [chg|]; [|apply Hsame].
  destruct (negb (_ =? 0)); [apply Hsame|].
  destruct (negb (_ =? 1)); [apply Hsame|].
  destruct (ci_ip_src ci) as [src|] eqn:A; [|rewrite <- A; apply Hsame].
  destruct (ci_port_src ci) as [sp|] eqn:B; [|rewrite <- A, <- B; apply Hsame].
  destruct (ci_port_dst ci) as [dp|] eqn:C; [|rewrite <- A, <- B; intros H; inversion H; subst; repeat split; intros; discriminate].
  intros H. inversion H; subst. destruct chg; cbn; rewrite ?A, ?B, ?C; repeat split; eauto.
Qed.

Definition ports_kept (ci ci' : cinfo) : Prop :=
  ci_port_src ci' = ci_port_src ci /\
  (forall d, ci_port_dst ci = Some d -> exists d', ci_port_dst ci' = Some d').

Lemma ports_kept_refl ci : ports_kept ci ci.
Proof. split; [reflexivity|eauto]. Qed.

Definition opt_tcb_ok (E : env) (t : option tcb) : Prop :=
  match t with Some tc => tcb_state_ok E tc | None => True end.

Lemma dispatch_ok E clk ci t p id :
  env_ok E = true -> bytes_ok p = true ->
  opt_tcb_ok E t ->
  (* a control block is always dispatched under its own protocol id *)
  (match t with Some tc => id = t_proto tc | None => True end) ->
  exists ci' t' o, dispatch E clk ci id t p = Ok (ci', t', o) /\ ports_kept ci ci' /\
                   match t, t' with
                   | Some _, Some tc' => tcb_state_ok E tc'
                   | None, None => True
                   | _, _ => False
                   end.
Proof.
  intros HE Hp Ht Hid. destruct (env_ok_http E HE) as (_ & Hok & Htbl & _).
  unfold dispatch.
  destruct (id =? PROTO_HTTP) eqn:E1.
  { apply N.eqb_eq in E1. destruct t as [tc|].
    - cbn [opt_tcb_ok] in Ht. unfold tcb_state_ok in Ht.
      destruct (t_pstate tc) as [[h|r]|] eqn:Hps.
      + destruct Ht as [Hpr Hst].
        destruct (http_repl_ok E clk h p HE Hst Hp) as (h' & o & -> & Hst'). cbn [bind].
        eexists _, _, _. split; [reflexivity|]. split; [apply ports_kept_refl|].
        unfold tcb_state_ok. cbn [t_pstate t_proto]. split; assumption.
      + exfalso. rewrite Ht in Hid. subst id. discriminate.
      + destruct (http_repl_ok E clk http_new p HE (new_st_ok _ Htbl) Hp) as (h' & o & -> & Hst'). cbn [bind].
        eexists _, _, _. split; [reflexivity|]. split; [apply ports_kept_refl|].
        unfold tcb_state_ok. cbn [t_pstate t_proto]. split; [congruence|assumption].
    - destruct (http_repl_ok E clk http_new p HE (new_st_ok _ Htbl) Hp) as (h' & o & -> & Hst'). cbn [bind].
      eexists _, _, _. split; [reflexivity|]. split; [apply ports_kept_refl|exact I]. }
  destruct (id =? PROTO_STUN) eqn:E2.
  { destruct (stun_repl ci p) as [ci2 o] eqn:Hs. destruct (stun_repl_ports _ _ _ _ Hs) as (A & _ & _ & B).
    eexists _, _, _. split; [reflexivity|]. split; [split; assumption|]. destruct t; [exact Ht|exact I]. }
  destruct (id =? PROTO_SSH).
  { eexists _, _, _. split; [reflexivity|]. split; [apply ports_kept_refl|]. destruct t; [exact Ht|exact I]. }
  destruct (id =? PROTO_GHOST).
  { eexists _, _, _. split; [reflexivity|]. split; [apply ports_kept_refl|]. destruct t; [exact Ht|exact I]. }
  destruct (id =? PROTO_RPC_TCP) eqn:E5.
  { apply N.eqb_eq in E5.
    destruct (ci_ip_dst ci) as [ip|];
      [|eexists _, _, _; split; [reflexivity|]; split; [apply ports_kept_refl|]; destruct t; [exact Ht|exact I]].
    destruct (ci_port_dst ci) as [port|];
      [|eexists _, _, _; split; [reflexivity|]; split; [apply ports_kept_refl|]; destruct t; [exact Ht|exact I]].
    destruct t as [tc|].
    - cbn [opt_tcb_ok] in Ht. unfold tcb_state_ok in Ht.
      destruct (t_pstate tc) as [[h|r]|] eqn:Hps.
      + exfalso. destruct Ht as [Hpr _]. rewrite Hpr in Hid. subst id. discriminate.
      + destruct (rpc_repl_tcp r ip port p) as [r' o].
        eexists _, _, _. split; [reflexivity|]. split; [apply ports_kept_refl|].
        unfold tcb_state_ok. cbn [t_pstate t_proto]. exact Ht.
      + destruct (rpc_repl_tcp (rpc_new R_FRAG) ip port p) as [r' o].
        eexists _, _, _. split; [reflexivity|]. split; [apply ports_kept_refl|].
        unfold tcb_state_ok. cbn [t_pstate t_proto]. congruence.
    - eexists _, _, _. split; [reflexivity|]. split; [apply ports_kept_refl|exact I]. }
  destruct (id =? PROTO_RPC_UDP).
  { destruct (ci_ip_dst ci) as [ip|];
      [|eexists _, _, _; split; [reflexivity|]; split; [apply ports_kept_refl|]; destruct t; [exact Ht|exact I]].
    destruct (ci_port_dst ci) as [port|];
      eexists _, _, _; (split; [reflexivity|]); (split; [apply ports_kept_refl|]); destruct t; try exact Ht; exact I. }
  destruct (id =? PROTO_SMB1).
  { destruct (smb1_no_panic (e_smb_neg E) (e_smb_chal E) (clk_filetime clk) p Hp) as (o & ->). cbn [bind].
    eexists _, _, _. split; [reflexivity|]. split; [apply ports_kept_refl|]. destruct t; [exact Ht|exact I]. }
  destruct (id =? PROTO_SMB2).
  { destruct (smb2_no_panic (e_smb_neg E) (e_smb_chal E) (clk_filetime clk) p Hp) as (o & ->). cbn [bind].
    eexists _, _, _. split; [reflexivity|]. split; [apply ports_kept_refl|]. destruct t; [exact Ht|exact I]. }
  eexists _, _, _. split; [reflexivity|]. split; [apply ports_kept_refl|].
  destruct t as [tc|]; [|exact I].
  (* the protocol id is reset; a control block with a parser state is never dispatched here *)
  cbn [opt_tcb_ok] in Ht. unfold tcb_state_ok in *. cbn [t_pstate t_proto].
  destruct (t_pstate tc) as [[h|r]|]; [| |exact I].
  - exfalso. destruct Ht as [Hpr _]. rewrite Hpr in Hid. subst id. discriminate.
  - exfalso. rewrite Ht in Hid. subst id. rewrite N.eqb_refl in E5. discriminate.
Qed.

Lemma proto_repl_tcp_ok E clk ci tc p :
  env_ok E = true -> bytes_ok p = true -> tcb_ok E tc ->
  exists ci' tc' o, proto_repl_tcp E clk ci tc p = Ok (ci', tc', o) /\ ports_kept ci ci' /\ tcb_ok E tc'.
Proof.
  intros HE Hp [Ht Hpe].
  pose proof (proto_repl_tcp_pending E clk ci tc p) as Hpend.
  unfold proto_repl_tcp in *.
  pose proof (tcp_identify_data_ok E tc p (proj1 Hpe) Hp) as Hd1.
  assert (tcb_state_ok E (fst (tcp_identify E tc p))) as Ht1.
  { unfold tcp_identify. destruct (t_proto tc =? PROTO_NONE) eqn:En; [|exact Ht].
    apply N.eqb_eq in En.
    assert (t_pstate tc = None) as Hn.
    { unfold tcb_state_ok in Ht. destruct (t_pstate tc) as [[h|r]|]; [| |reflexivity].
      - destruct Ht as [Hpr _]. rewrite Hpr in En. discriminate.
      - rewrite Ht in En. discriminate. }
    destruct (search_next _ _ _) as [[[i|] st] n]; unfold tcb_state_ok; cbn [fst t_pstate]; rewrite Hn; exact I. }
  destruct (tcp_identify E tc p) as [tc1 data1]. cbn [fst snd] in *.
  destruct (dispatch_ok E clk ci (Some tc1) data1 (t_proto tc1) HE Hd1 Ht1 eq_refl) as (ci' & t' & o & Hdis & Hk & Hm).
  rewrite Hdis in *. cbn [bind] in *. destruct t' as [tc'|]; [|contradiction].
  eexists _, _, _. split; [reflexivity|]. split; [assumption|]. split; [assumption|].
  exact (Hpend _ _ _ Hpe Hp eq_refl).
Qed.

Lemma proto_repl_udp_ok E clk ci p :
  env_ok E = true -> bytes_ok p = true ->
  exists ci' o, proto_repl_udp E clk ci p = Ok (ci', o) /\ ports_kept ci ci'.
Proof.
  intros HE Hp. unfold proto_repl_udp.
  destruct (search_next _ _ _) as [[id st] n].
  match goal with |- context [match ?x with Some i => _ | None => _ end] => destruct x as [i|] end.
  - destruct (dispatch_ok E clk ci None p i HE Hp I I) as (ci' & t' & o & -> & Hk & _). cbn [bind].
    eexists _, _. split; [reflexivity|exact Hk].
  - destruct (dns_repl _ _); eexists _, _; (split; [reflexivity|apply ports_kept_refl]).
Qed.

(* ---------- transport layer ---------- *)
From MS Require Import Proofs.C08.

Lemma tcb_new_ok E : tcb_ok E tcb_new.
Proof. split; [exact I|exact pending_ok_new]. Qed.

Lemma table_ok_set E k tc tb : table_ok E tb -> tcb_ok E tc -> table_ok E (tbl_set k tc tb).
Proof.
  intros Ht Hc k' tc' Hf. destruct (N.eq_dec k' k) as [->|Hne].
  - rewrite find_set_same in Hf. inversion Hf; subst. exact Hc.
  - rewrite find_set_other in Hf by exact Hne. eapply Ht; eassumption.
Qed.

Lemma l3_ci_ports f v sp dp :
  ci_port_src (ci_set_ports (l3_ci f v) sp dp) = Some sp /\
  ci_port_dst (ci_set_ports (l3_ci f v) sp dp) = Some dp.
Proof. split; reflexivity. Qed.

Lemma tcp_payload_ok p : bytes_ok p = true -> bytes_ok (tcp_payload p) = true.
Proof.
  intros H. unfold tcp_payload. destruct (_ <=? _)%nat; [reflexivity|]. apply bytes_ok_skipn, H.
Qed.

Lemma tcp_repl_ok E cfg clk tb f v :
  env_ok E = true -> table_ok E tb -> bytes_ok (v_l4 v) = true ->
  exists tb' ci' out evs, tcp_repl E cfg clk tb (l3_ci f v) (v_l4 v) = Ok (tb', ci', out, evs) /\ table_ok E tb'.
Proof.
  intros HE Htb Hp. unfold tcp_repl. rewrite cookie_ci_l3.
  set (p := v_l4 v). set (ci := ci_set_ports (l3_ci f v) (u16_at 0 p) (u16_at 2 p)).
  destruct (tcp_class (tcp_flags p)).
  - (* data *)
    set (ck := cookie _ _ _ _ _ _).
    destruct (negb (tbl_mem ck tb) && negb (ck =? _)); [eexists _, _, _, _; split; [reflexivity|exact Htb]|].
    set (tc := match tbl_find ck tb with Some t => t | None => tcb_new end).
    assert (tcb_ok E tc) as Htc.
    { unfold tc. destruct (tbl_find ck tb) eqn:Hf; [eapply Htb; exact Hf|apply tcb_new_ok]. }
    destruct (proto_repl_tcp_ok E clk (ci_set_cookie ci ck) tc (tcp_payload p) HE (tcp_payload_ok _ Hp) Htc)
      as (ci2 & tc' & o & -> & [Hps Hpd] & Htc'). cbn [bind].
    assert (ci_port_src ci2 = Some (u16_at 0 p)) as Hs by (rewrite Hps; reflexivity).
    destruct (Hpd (u16_at 2 p) eq_refl) as (d' & Hd).
    destruct o as [d|]; rewrite Hd, Hs; eexists _, _, _, _; (split; [reflexivity|]);
      apply table_ok_set; assumption.
  - eexists _, _, _, _; split; [reflexivity|exact Htb].
  - eexists _, _, _, _; split; [reflexivity|exact Htb].
  - cbn. eexists _, _, _, _; split; [reflexivity|exact Htb].
  - cbn. eexists _, _, _, _; split; [reflexivity|exact Htb].
  - eexists _, _, _, _; split; [reflexivity|exact Htb].
Qed.

Lemma udp_repl_ok E cfg clk f v :
  env_ok E = true -> bytes_ok (v_l4 v) = true ->
  exists ci' out evs, udp_repl E cfg clk (l3_ci f v) (v_l4 v) = Ok (ci', out, evs) /\
    forall r, out = Some r -> exists d ci1,
      proto_repl_udp E clk (ci_set_ports (l3_ci f v) (u16_at 0 (v_l4 v)) (u16_at 2 (v_l4 v))) (skipn 8 (v_l4 v)) = Ok (ci1, Some d) /\
      lenN r = 8 + lenN d.
Proof.
  intros HE Hp. unfold udp_repl.
  destruct (proto_repl_udp_ok E clk (ci_set_ports (l3_ci f v) (u16_at 0 (v_l4 v)) (u16_at 2 (v_l4 v)))
              (skipn 8 (v_l4 v)) HE (bytes_ok_skipn _ _ Hp)) as (ci1 & o & Hr & [Hps Hpd]).
  rewrite Hr. cbn [bind].
  destruct o as [d|].
  - destruct (Hpd _ eq_refl) as (d' & Hd). rewrite Hd, Hps. cbn [ci_set_ports ci_port_src].
    eexists _, _, _. split; [reflexivity|]. intros r H. inversion H; subst.
    exists d, ci1. split; [reflexivity|]. unfold lenN, be16. cbn [app length]. lia.
  - eexists _, _, _. split; [reflexivity|]. intros r H. discriminate.
Qed.

(* ---------- the whole pipeline ---------- *)
Lemma view_l4_len cfg f v : view cfg f = Some v -> (length (v_l4 v) <= length f)%nat.
Proof.
  intros Hv. destruct (view_inv _ _ _ Hv) as (_ & _ & [H4 | H6]).
  - destruct H4 as (_ & _ & _ & _ & _ & _ & -> & _). unfold ipv4_payload.
    destruct (_ <=? _)%nat; [cbn; lia|]. rewrite firstn_length, !skipn_length. lia.
  - destruct H6 as (_ & _ & _ & _ & _ & _ & -> & _). unfold ipv6_payload.
    destruct (_ <=? _)%nat; [cbn; lia|]. rewrite firstn_length, !skipn_length. lia.
Qed.

Lemma view_ci_addrs_ok cfg f v sp dp :
  bytes_ok f = true -> view cfg f = Some v -> ci_addrs_ok (ci_set_ports (l3_ci f v) sp dp).
Proof.
  intros Hf Hv. destruct (view_sizes _ _ _ Hv) as (_ & Hsz).
  assert (bytes_ok (v_src v) = true /\ bytes_ok (v_dst v) = true) as [Bs Bd].
  { destruct (view_inv _ _ _ Hv) as (_ & _ & [H4 | H6]).
    - destruct H4 as (_ & _ & _ & -> & -> & _). split; apply bytes_ok_slice, bytes_ok_skipn, Hf.
    - destruct H6 as (_ & _ & _ & -> & -> & _). split; apply bytes_ok_slice, bytes_ok_skipn, Hf. }
  unfold ci_addrs_ok, l3_ci. cbn [ci_set_ports ci_set_transport ci_set_ip ci_ip_src ci_ip_dst].
  revert Hsz. destruct (v_v4 v); intros [Hs Hd]; cbn [addr_octets ip_octets]; repeat split; try assumption; lia.
Qed.

Theorem reply_ok E cfg clk tb f :
  env_ok E = true -> udp_replies_short E clk -> table_ok E tb -> frame_ok f ->
  exists tb' r evs, reply E cfg clk tb f = Ok (tb', r, evs) /\ table_ok E tb'.
Proof.
  intros HE Hshort Htb [Hf Hlen].
  assert (exists tb' r, reply_spec E cfg clk tb f = Ok (tb', r) /\ table_ok E tb') as (tb' & r & Hs & Ht').
  { unfold reply_spec.
    destruct (length f <? 14)%nat; [eexists _, _; split; [reflexivity|exact Htb]|].
    destruct (negb _); [eexists _, _; split; [reflexivity|exact Htb]|].
    destruct (u16_at 12 f =? 2054).
    { destruct (_ <? 28)%nat; [eexists _, _; split; [reflexivity|exact Htb]|].
      destruct (arp_repl cfg _) as [[x|] e]; eexists _, _; (split; [reflexivity|exact Htb]). }
    destruct (view cfg f) as [v|] eqn:Hv; [|eexists _, _; split; [reflexivity|exact Htb]].
    pose proof (view_l4_ok _ _ _ Hf Hv) as Hp. pose proof (view_l4_len _ _ _ Hv) as Hl.
    unfold l3_reply.
    destruct (v_v4 v).
    - destruct (v_proto v =? 1).
      { destruct (_ <? 4)%nat; [eexists _, _; split; [reflexivity|exact Htb]|].
        destruct (icmpv4_repl _ _) as [[x|] e]; eexists _, _; (split; [reflexivity|exact Htb]). }
      destruct (v_proto v =? 6).
      { destruct (_ <? 20)%nat; [eexists _, _; split; [reflexivity|exact Htb]|].
        destruct (tcp_repl_ok E cfg clk tb f v HE Htb Hp) as (tb2 & ci' & out & evs & -> & Ht2).
        destruct out; eexists _, _; (split; [reflexivity|exact Ht2]). }
      destruct (v_proto v =? 17); [|eexists _, _; split; [reflexivity|exact Htb]].
      destruct (_ <? 8)%nat; [eexists _, _; split; [reflexivity|exact Htb]|].
      destruct (udp_repl_ok E cfg clk f v HE Hp) as (ci' & out & evs & -> & Hout).
      destruct out as [x|]; [|eexists _, _; split; [reflexivity|exact Htb]].
      destruct (Hout x eq_refl) as (d & ci1 & Hpr & Hlx).
      assert (lenN d + 8 <= 65535) as Hb.
      { apply (Hshort (ci_set_ports (l3_ci f v) (u16_at 0 (v_l4 v)) (u16_at 2 (v_l4 v))) (skipn 8 (v_l4 v)) ci1 d).
        - apply (view_ci_addrs_ok cfg f v _ _ Hf Hv).
        - rewrite skipn_length. lia.
        - apply bytes_ok_skipn. exact Hp.
        - exact Hpr. }
      assert ((65535 <? lenN x) = false) as -> by lia.
      eexists _, _; split; [reflexivity|exact Htb].
    - destruct (v_proto v =? 58).
      { destruct (_ <? 4)%nat; [eexists _, _; split; [reflexivity|exact Htb]|].
        destruct (icmpv6_repl _ _ _) as [[[x|] t] e]; eexists _, _; (split; [reflexivity|exact Htb]). }
      destruct (v_proto v =? 6).
      { destruct (_ <? 20)%nat; [eexists _, _; split; [reflexivity|exact Htb]|].
        destruct (tcp_repl_ok E cfg clk tb f v HE Htb Hp) as (tb2 & ci' & out & evs & -> & Ht2).
        destruct out; eexists _, _; (split; [reflexivity|exact Ht2]). }
      destruct (v_proto v =? 17); [|eexists _, _; split; [reflexivity|exact Htb]].
      destruct (_ <? 8)%nat; [eexists _, _; split; [reflexivity|exact Htb]|].
      destruct (udp_repl_ok E cfg clk f v HE Hp) as (ci' & out & evs & -> & _).
      destruct out; eexists _, _; (split; [reflexivity|exact Htb]). }
  rewrite <- reply_factor in Hs.
  destruct (reply E cfg clk tb f) as [[[a b] c]|s]; cbn [strip] in Hs; [|discriminate].
  apply ok_pair_inj in Hs. destruct Hs as [-> ->]. eexists _, _, _. split; [reflexivity|exact Ht'].
Qed.

Lemma table_ok_nil E : table_ok E [].
Proof. intros k tc H. discriminate. Qed.

(* every history of admissible frames runs to completion, from the empty table *)
Theorem run_ok E cfg :
  env_ok E = true ->
  forall h tb, table_ok E tb ->
    Forall (fun cf => frame_ok (snd cf) /\ udp_replies_short E (fst cf)) h ->
    exists tb', run E cfg tb h = Ok tb' /\ table_ok E tb'.
Proof.
  intros HE. induction h as [|[clk f] h IH]; intros tb Htb Hall.
  - exists tb. split; [reflexivity|exact Htb].
  - inversion Hall as [|? ? [Hf Hs] Hall']; subst. cbn [fst snd] in *.
    destruct (reply_ok E cfg clk tb f HE Hs Htb Hf) as (tb1 & r & evs & Hr & Ht1).
    cbn [run]. rewrite Hr. apply IH; assumption.
Qed.

(* ---------- discharge of the length hypothesis (amplification bound) ---------- *)
From MS Require Import Proofs.ReplyBytes.

Theorem udp_replies_short_holds E clk :
  env_small E = true -> (length (clk_date clk) <= 64)%nat -> udp_replies_short E clk.
Proof.
  intros HE Hclk ci p ci' d Hci Hlen Hp Hr.
  destruct (proto_repl_udp_src _ _ _ _ _ _ Hr) as [_ Hsrc].
  assert (ci_ok ci) as Hci' by exact Hci.
  pose proof (payload_src_len E clk ci p (Some d) HE Hclk Hci' Hp Hsrc) as Hl.
  cbn [pl_len] in Hl. unfold APP_MAX in Hl. unfold lenN. lia.
Qed.

Theorem reply_ok_closed E cfg clk tb f :
  env_ok E = true -> env_small E = true -> (length (clk_date clk) <= 64)%nat ->
  table_ok E tb -> frame_ok f ->
  exists tb' r evs, reply E cfg clk tb f = Ok (tb', r, evs) /\ table_ok E tb'.
Proof.
  intros HE HS Hc. apply reply_ok; [exact HE|apply udp_replies_short_holds; assumption].
Qed.

Theorem run_ok_closed E cfg :
  env_ok E = true -> env_small E = true ->
  forall h, Forall (fun cf => frame_ok (snd cf) /\ (length (clk_date (fst cf)) <= 64)%nat) h ->
    exists tb', run E cfg [] h = Ok tb' /\ table_ok E tb'.
Proof.
  intros HE HS h Hall. apply run_ok; [exact HE|apply table_ok_nil|].
  eapply Forall_impl; [|exact Hall]. intros [clk f] [Hf Hc]. cbn [fst snd] in *.
  split; [exact Hf|apply udp_replies_short_holds; assumption].
Qed.

(* the invariant contains the one the well-formedness results (C04) are stated under *)
Lemma table_ok_pending E tb : table_ok E tb -> table_pending_ok tb.
Proof. intros H k tc Hf. exact (proj2 (H k tc Hf)). Qed.
