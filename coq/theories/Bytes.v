(* Bytes.v -- byte strings as lists of N, big/little endian codecs, slicing.
   Model file: definitions only (proofs live in Proofs*.v). *)
From Coq Require Export List NArith Bool Arith.
Export ListNotations.
Open Scope N_scope.

Definition byte := N.
Definition bytes := list N.

Definition byte_ok (b : N) : bool := b <? 256.
Definition bytes_ok (l : bytes) : bool := forallb byte_ok l.

Definition lenN (l : bytes) : N := N.of_nat (length l).

(* big endian encoders; callers pass values already in range, the encoders
   truncate like Rust's `as u16` / `as u32` *)
Definition be16 (x : N) : bytes := [(x / 256) mod 256; x mod 256].
Definition be32 (x : N) : bytes :=
  [(x / 16777216) mod 256; (x / 65536) mod 256; (x / 256) mod 256; x mod 256].
Definition le16 (x : N) : bytes := [x mod 256; (x / 256) mod 256].
Definition le32 (x : N) : bytes :=
  [x mod 256; (x / 256) mod 256; (x / 65536) mod 256; (x / 16777216) mod 256].

Fixpoint dec_be_aux (acc : N) (l : bytes) : N :=
  match l with
  | [] => acc
  | b :: t => dec_be_aux (acc * 256 + b) t
  end.
Definition dec_be (l : bytes) : N := dec_be_aux 0 l.
Definition dec_le (l : bytes) : N := dec_be (rev l).

Definition be64 (x : N) : bytes := be32 (x / 4294967296) ++ be32 (x mod 4294967296).
Definition le64 (x : N) : bytes := le32 (x mod 4294967296) ++ le32 (x / 4294967296).

Definition slice (off len : nat) (l : bytes) : bytes := firstn len (skipn off l).
Definition u8_at (i : nat) (l : bytes) : N := nth i l 0.
Definition u16_at (i : nat) (l : bytes) : N := u8_at i l * 256 + u8_at (S i) l.
Definition u32_at (i : nat) (l : bytes) : N := u16_at i l * 65536 + u16_at (S (S i)) l.

Fixpoint bytes_eqb (a b : bytes) : bool :=
  match a, b with
  | [], [] => true
  | x :: a', y :: b' => (x =? y) && bytes_eqb a' b'
  | _, _ => false
  end.

Definition zeros (n : nat) : bytes := repeat 0 n.

Fixpoint is_prefix (p l : bytes) : bool :=
  match p, l with
  | [], _ => true
  | x :: p', y :: l' => (x =? y) && is_prefix p' l'
  | _ :: _, [] => false
  end.

(* Rust's wrapping arithmetic on u16 / u32 *)
Definition wrap16 (x : N) : N := x mod 65536.
Definition wrap32 (x : N) : N := x mod 4294967296.
Definition wrap64 (x : N) : N := x mod 18446744073709551616.

Definition testbit (x mask : N) : bool := negb (N.land x mask =? 0).

Definition is_digit (b : N) : bool := (48 <=? b) && (b <=? 57).
