(* Spec/C05.v -- ARP, neighbour discovery and echo are answered correctly, and only those. *)
From MS Require Export Bytes Types Spec.RefDec Spec.View Spec.C02.

Definition handled (cfg : config) (a : ipaddr) : bool :=
  match c_self cfg with None => true | Some l => ip_in a l end.

(* ARP: frame accepted at layer 2, EtherType ARP, at least 28 bytes *)
Definition ok_arp (cfg : config) (f : bytes) (r : option bytes) : bool :=
  match dec_arp (skipn 14 f) with
  | None => silent r
  | Some q =>
    if (da_op q =? 1) && handled cfg (V4 (da_tpa q)) then
      (* the positive clause speaks about Ethernet/IPv4 requests *)
      match r with
      | None => false
      | Some rf =>
        match dec_frame_arp rf with
        | None => false
        | Some (_, a) =>
          (da_op a =? 2) && (da_htype a =? 1) &&
          (if (da_ptype q =? 2048) && (da_hlen q =? 6) && (da_plen q =? 4)
           then (da_ptype a =? 2048) && (da_hlen a =? 6) && (da_plen a =? 4) else true) &&
          bytes_eqb (da_sha a) (c_mac cfg) && bytes_eqb (da_spa a) (da_tpa q) &&
          bytes_eqb (da_tha a) (da_sha q) && bytes_eqb (da_tpa a) (da_spa q)
        end
      end
    else silent r
  end.

Definition ok_icmp4 (cfg : config) (v : l4view) (r : option bytes) : bool :=
  let p := v_l4 v in
  if (length p <? 4)%nat then silent r
  else if (u8_at 0 p =? 8) && (u8_at 1 p =? 0) then
    match r with
    | None => false
    | Some rf =>
      match dec_frame_icmp rf with
      | None => false
      | Some (_, i, c) => di_v4 i && (dc_type c =? 0) && (dc_code c =? 0) && bytes_eqb (dc_rest c) (skipn 4 p)
      end
    end
  else silent r.

Definition ok_icmp6 (cfg : config) (v : l4view) (r : option bytes) : bool :=
  let p := v_l4 v in
  if (length p <? 4)%nat then silent r
  else if negb (u8_at 1 p =? 0) then silent r
  else if u8_at 0 p =? 128 then
    if handled cfg (V6 (v_dst v)) then
      match r with
      | None => false
      | Some rf =>
        match dec_frame_icmp rf with
        | None => false
        | Some (_, i, c) =>
          negb (di_v4 i) && (dc_type c =? 129) && (dc_code c =? 0) && bytes_eqb (dc_rest c) (skipn 4 p)
        end
      end
    else silent r
  else if u8_at 0 p =? 135 then
    if (24 <=? length p)%nat && handled cfg (V6 (firstn 16 (skipn 8 p))) then
      match r with
      | None => false
      | Some rf =>
        match dec_frame_icmp rf with
        | None => false
        | Some (_, i, c) =>
          negb (di_v4 i) && (dc_type c =? 136) && (dc_code c =? 0) &&
          (* flags: Solicited and Override set (the property says nothing about the Router flag or the reserved bits) *)
          (N.land (u8_at 0 (dc_rest c)) 96 =? 96) &&
          bytes_eqb (firstn 16 (skipn 4 (dc_rest c))) (firstn 16 (skipn 8 p)) &&
          (* exactly one option: Target Link-Layer Address = configured MAC *)
          bytes_eqb (skipn 20 (dc_rest c)) ([2; 1] ++ c_mac cfg)
        end
      end
    else silent r
  else silent r.

Definition ok_C05 (cfg : config) (f : bytes) (r : option bytes) : bool :=
  if (length f <? 14)%nat then true
  else if negb (ref_auth cfg (firstn 6 f)) then true
  else if u16_at 12 f =? 2054 then ok_arp cfg f r
  else
    match view cfg f with
    | None => true
    | Some v =>
      if v_v4 v && (v_proto v =? 1) then ok_icmp4 cfg v r
      else if negb (v_v4 v) && (v_proto v =? 58) then ok_icmp6 cfg v r
      else true
    end.
