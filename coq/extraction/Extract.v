(* Extract.v -- extraction of the executable model to OCaml (ExtrOcamlBasic only:
   bool/option/unit/list/prod/sumbool mapped to OCaml's; N, positive and nat stay
   Coq inductives). *)
From Coq Require Import Extraction ExtrOcamlBasic.
From MS Require Import L2 Spec.C06.
Extraction "model.ml" reply siphash24 cookie search_next search_next_end smack_ok
  ok_C06.
