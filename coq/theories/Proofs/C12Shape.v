(* Proofs/C12Shape.v -- what kind of reply (Spec/C12.v, Spec/C12x.v classifiers) each
   payload the application layer can emit is: every responder's output is classified as a
   reply of at most its own protocol / layout / dialect.  Shape facts only; no request is
   involved. *)
From MS Require Import Proofs.Tactics Proofs.ReplyBytes Proofs.SmbSafe Proofs.SmbLen Proofs.C18
     Smb Rpc Dns Stun Proto Spec.C12 Spec.C12x Spec.C19 Spec.C18 Spec.RefHttp Spec.EnvOk.

(* the six classes *)
Record classes := { k_dns : bool; k_stun : bool; k_rpcu : bool; k_rpct : bool; k_smb1 : bool; k_smb2 : bool }.
Definition classify (r : bytes) : classes :=
  {| k_dns := is_dns_reply r; k_stun := is_stun_reply r; k_rpcu := is_rpc_reply_udp r;
     k_rpct := is_rpc_reply_tcp r; k_smb1 := is_smb1_reply r; k_smb2 := is_smb2_reply r |}.

Definition no_class (r : bytes) : Prop :=
  is_dns_reply r = false /\ is_stun_reply r = false /\ is_rpc_reply_udp r = false /\
  is_rpc_reply_tcp r = false /\ is_smb1_reply r = false /\ is_smb2_reply r = false.

Lemma is_prefix_split (a r : bytes) : is_prefix a r = true -> r = a ++ skipn (length a) r.
Proof.
  revert r. induction a as [|x a IH]; intros r H; [reflexivity|].
  destruct r as [|y r]; [discriminate|]. cbn [is_prefix] in H. apply andb_true_iff in H.
  destruct H as [Hx Ha]. apply N.eqb_eq in Hx. subst y. cbn [length skipn app]. f_equal. apply IH, Ha.
Qed.

Ltac kill_len :=
  repeat match goal with
         | |- context [(?n <=? length ?l)%nat] => destruct (n <=? length l)%nat
         end.

(* a conjunction one of whose members is false by computation or arithmetic *)
Ltac and_false :=
  lazymatch goal with
  | |- (?a && ?b) = false =>
      apply andb_false_iff; first [right; solve [reflexivity | lia] | left; and_false]
  | |- _ = false => solve [reflexivity | lia]
  end.
Ltac cls_false := kill_len; cbn [andb]; first [reflexivity | and_false].

(* ---------- the constant replies ---------- *)
Lemma ssh_banner_no_class : no_class S_SERVER_ID.
Proof. repeat split; vm_compute; reflexivity. Qed.

Lemma ghost_no_class g : is_prefix S_GHOST g = true -> no_class g.
Proof.
  intros H. rewrite (is_prefix_split _ _ H). set (t := skipn _ g). clearbody t. clear H.
  unfold S_GHOST. cbn [app].
  unfold no_class, is_dns_reply, is_stun_reply, is_rpc_reply_udp, is_rpc_reply_tcp, is_smb1_reply, is_smb2_reply,
    u32_at, u16_at, u8_at, slice. cbn [nth skipn firstn bytes_eqb].
  repeat split; cls_false.
Qed.

Lemma http_status_no_class r : is_prefix RESP_STATUS r = true -> no_class r.
Proof.
  intros H. rewrite (is_prefix_split _ _ H). set (t := skipn _ r). clearbody t. clear H.
  unfold RESP_STATUS. cbn [app].
  unfold no_class, is_dns_reply, is_stun_reply, is_rpc_reply_udp, is_rpc_reply_tcp, is_smb1_reply, is_smb2_reply,
    u32_at, u16_at, u8_at, slice. cbn [nth skipn firstn bytes_eqb].
  repeat split; cls_false.
Qed.

(* the template begins with the status line: from the template check of env_ok *)
Lemma chomp_cr_prefix (a l : bytes) : is_prefix a (chomp_cr l) = true -> is_prefix a l = true.
Proof.
  revert a. induction l as [|b l IH]; intros a H; [exact H|].
  destruct a as [|x a]; [reflexivity|].
  destruct l as [|c l].
  - cbn [chomp_cr] in H. destruct (b =? 13); [discriminate|]. exact H.
  - change (chomp_cr (b :: c :: l)) with (b :: chomp_cr (c :: l)) in H.
    cbn [is_prefix] in *. apply andb_true_iff in H. destruct H as [H1 H2].
    rewrite H1. cbn [andb]. apply IH, H2.
Qed.

Lemma is_prefix_app_r (a l t : bytes) : is_prefix a l = true -> is_prefix a (l ++ t) = true.
Proof.
  revert l. induction a as [|x a IH]; intros l H; [reflexivity|].
  destruct l as [|y l]; [discriminate|]. cbn [is_prefix app] in *.
  apply andb_true_iff in H. destruct H as [H1 H2]. rewrite H1. cbn [andb]. apply IH, H2.
Qed.

Lemma wf_bad_fold l : fold_left wf_step l WBad = WBad.
Proof. induction l as [|b l IH]; [reflexivity|exact IH]. Qed.

Lemma wf_first_line : forall l cur a c cur' a' c',
  fold_left wf_step l (WHead true cur a c) = WHead false cur' a' c' ->
  is_prefix RESP_STATUS (cur ++ l) = true.
Proof.
  induction l as [|b l IH]; intros cur a c cur' a' c' H; [discriminate|].
  cbn [fold_left wf_step] in H.
  destruct (b =? 10).
  - destruct (is_prefix RESP_STATUS (chomp_cr cur)) eqn:Hp.
    + apply is_prefix_app_r. apply chomp_cr_prefix, Hp.
    + rewrite wf_bad_fold in H. discriminate.
  - apply IH in H. rewrite <- app_assoc in H. exact H.
Qed.

Lemma http_tpl_status pre post : http_tpl_ok pre post = true -> is_prefix RESP_STATUS pre = true.
Proof.
  unfold http_tpl_ok. destruct (fold_left wf_step pre wf_init) as [first cur auth cl| |] eqn:Hf; try discriminate.
  destruct first; [discriminate|]. intros _. exact (wf_first_line _ _ _ _ _ _ _ Hf).
Qed.

Lemma env_ok_tpl E : env_ok E = true -> http_tpl_ok (e_http_pre E) (e_http_post E) = true.
Proof. unfold env_ok. intros H. repeat (apply andb_true_iff in H; destruct H as [H ?]). assumption. Qed.

Lemma http_no_class E date : env_ok E = true -> no_class (e_http_pre E ++ date ++ e_http_post E).
Proof.
  intros HE. apply http_status_no_class. apply is_prefix_app_r.
  apply (http_tpl_status _ _ (env_ok_tpl E HE)).
Qed.

(* ---------- STUN binding success: a STUN reply and nothing else ---------- *)
Lemma stun_only tid src sport : length tid = 16%nat ->
  let r := stun_response tid src sport in
  is_dns_reply r = false /\ is_rpc_reply_udp r = false /\ is_rpc_reply_tcp r = false /\
  is_smb1_reply r = false /\ is_smb2_reply r = false.
Proof.
  intros H. explode_lists. cbv zeta.
  unfold stun_response, be16. cbn [app].
  unfold is_dns_reply, is_rpc_reply_udp, is_rpc_reply_tcp, is_smb1_reply, is_smb2_reply,
    u32_at, u16_at, u8_at, slice. cbn [nth skipn firstn bytes_eqb].
  destruct (ip_is_v4 src); repeat split; cls_false.
Qed.

(* ---------- RPC ---------- *)
Lemma rpc_build_shape s ip port :
  exists x0 x1 x2 x3 a t,
    rpc_build s ip port = [x0; x1; x2; x3; 0; 0; 0; 1; 0; 0; 0; 0; 0; 0; 0; 0; 0; 0; 0; 0; 0; 0; 0; a] ++ t /\ a <= 5.
Proof.
  unfold rpc_build, be32. cbn [app].
  destruct ((r_progvers s <? 2) || (4 <? r_progvers s)).
  { eexists _, _, _, _, 2, _. split; [reflexivity|lia]. }
  destruct (r_proc s =? 0).
  { eexists _, _, _, _, 0, []. split; [reflexivity|lia]. }
  destruct (r_prog s =? 100000).
  - unfold rpc_portmap. destruct (r_proc s =? 3).
    { eexists _, _, _, _, 0, _. split; [reflexivity|lia]. }
    destruct (r_proc s =? 4).
    { eexists _, _, _, _, 0, _. split; [reflexivity|lia]. }
    eexists _, _, _, _, 3, []. split; [reflexivity|lia].
  - eexists _, _, _, _, 1, []. split; [reflexivity|lia].
Qed.

Lemma rpc_udp_only s ip port :
  let r := rpc_build s ip port in
  is_dns_reply r = false /\ is_stun_reply r = false /\ is_rpc_reply_tcp r = false /\
  is_smb1_reply r = false /\ is_smb2_reply r = false.
Proof.
  cbv zeta. destruct (rpc_build_shape s ip port) as (x0 & x1 & x2 & x3 & a & t & -> & Ha).
  cbn [app].
  unfold is_dns_reply, is_stun_reply, is_rpc_reply_tcp, is_smb1_reply, is_smb2_reply,
    u32_at, u16_at, u8_at, slice. cbn [nth skipn firstn bytes_eqb].
  repeat split; cls_false.
Qed.

Lemma rpc_tcp_only s ip port :
  let r := render_rpc s true ip port in
  is_dns_reply r = false /\ is_stun_reply r = false /\ is_rpc_reply_udp r = false /\
  is_smb1_reply r = false /\ is_smb2_reply r = false.
Proof.
  cbv zeta. unfold render_rpc.
  destruct (rpc_build_shape s ip port) as (x0 & x1 & x2 & x3 & a & t & -> & Ha).
  set (len := lenN _). clearbody len. cbn [app].
  unfold is_dns_reply, is_stun_reply, is_rpc_reply_udp, is_smb1_reply, is_smb2_reply,
    u32_at, u16_at, u8_at, slice. cbn [nth skipn firstn bytes_eqb].
  repeat split; cls_false.
Qed.

(* ---------- DNS ---------- *)
Lemma dns_only m ip :
  let r := render_dns m ip in
  lenN r < 32788 ->
  is_stun_reply r = false /\ is_rpc_reply_udp r = false /\ is_rpc_reply_tcp r = false /\
  is_smb1_reply r = false /\ is_smb2_reply r = false.
Proof.
  cbv zeta. unfold render_dns, dns_header_reply, be16.
  set (n := N.of_nat (length (d_qd m))). set (fl := 128 + _ + _ + _).
  assert (Hfl : 128 <= fl) by (subst fl; lia).
  set (t := concat _ ++ concat _). clearbody n fl t. cbn [app]. intros Hlen.
  unfold is_stun_reply, is_rpc_reply_udp, is_rpc_reply_tcp, is_smb1_reply, is_smb2_reply,
    u32_at, u16_at, u8_at, slice. cbn [nth skipn firstn bytes_eqb].
  repeat split.
  - apply andb_false_iff. left. apply andb_false_iff. right. lia.
  - cls_false.
  - cls_false.
  - destruct ((n / 256) mod 256 =? 255) eqn:A; destruct ((n / 256) mod 256 =? 77) eqn:B;
      rewrite ?andb_false_r, ?andb_false_l; cbn [andb]; rewrite ?andb_false_r; try reflexivity. lia.
  - destruct ((n / 256) mod 256 =? 254) eqn:A; destruct ((n / 256) mod 256 =? 77) eqn:B;
      rewrite ?andb_false_r, ?andb_false_l; cbn [andb]; rewrite ?andb_false_r; try reflexivity. lia.
Qed.

Lemma dns_reply_length p m ip :
  dns_parse p = Some m -> (length (ip_octets ip) <= 16)%nat -> lenN p <= 5000 ->
  lenN (render_dns m ip) < 32788.
Proof.
  intros Hm Hip Hl. destruct (dns_parse_ok _ _ Hm) as (_ & A2 & A3).
  pose proof (answers_len ip (d_qd m) Hip) as Ha.
  unfold lenN in *. unfold render_dns. rewrite !app_length, ser_questions_len, (proj2 (dns_header_reply_ok m)). lia.
Qed.

(* ---------- SMB ---------- *)
Lemma smb1_only neg chal ft data r :
  smb1_repl neg chal ft data = Ok (Some r) ->
  is_dns_reply r = false /\ is_stun_reply r = false /\ is_rpc_reply_udp r = false /\
  is_rpc_reply_tcp r = false /\ is_smb2_reply r = false.
Proof.
  unfold smb1_repl, nbt_run. destruct (fold_res _ data _) as [s|q]; cbn [bind]; [|discriminate].
  intros H. apply nbt_repl_some in H. destruct H as (p & r0 & _ & Er & ->).
  unfold hdr1_repl in Er. destruct (h1_pay p) as [pp|]; [|discriminate].
  destruct (pay1_repl neg chal ft pp) as [body|]; [|discriminate].
  apply some_inj in Er. subst r0.
  set (hi := N.land _ 255). set (sz := N.land _ 65535). clearbody hi sz.
  unfold SMB1_MAGIC, be16, le32, le16, zeros. cbn [app repeat].
  unfold is_dns_reply, is_stun_reply, is_rpc_reply_udp, is_rpc_reply_tcp, is_smb2_reply,
    u32_at, u16_at, u8_at, slice. cbn [nth skipn firstn bytes_eqb].
  repeat split; cls_false.
Qed.

Lemma smb2_only neg chal ft data r :
  smb2_repl neg chal ft data = Ok (Some r) ->
  is_dns_reply r = false /\ is_stun_reply r = false /\ is_rpc_reply_udp r = false /\
  is_rpc_reply_tcp r = false /\ is_smb1_reply r = false.
Proof.
  unfold smb2_repl, nbt_run. destruct (fold_res _ data _) as [s|q]; cbn [bind]; [|discriminate].
  intros H. apply nbt_repl_some in H. destruct H as (p & r0 & _ & Er & ->).
  unfold hdr2_repl in Er. destruct (h2_pay p) as [pp|]; [|discriminate].
  destruct (pay2_repl neg chal ft pp) as [body|]; [|discriminate].
  apply some_inj in Er. subst r0.
  set (hi := N.land _ 255). set (sz := N.land _ 65535). clearbody hi sz.
  unfold SMB2_MAGIC, be16, le64, le32, le16, zeros. cbn [app repeat].
  unfold is_dns_reply, is_stun_reply, is_rpc_reply_udp, is_rpc_reply_tcp, is_smb1_reply,
    u32_at, u16_at, u8_at, slice. cbn [nth skipn firstn bytes_eqb].
  repeat split; cls_false.
Qed.
