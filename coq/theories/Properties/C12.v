(* Properties/C12.v -- only requests are answered: protocol-marked replies never elicit a reply.
   Pins statements only; proofs in Proofs/C12.v. The reflection-chain clause of the property
   (at most two replies in total) is NOT proved in general: what is proved are the ingredients
   (reply-typed messages of layers 2-4 get nothing; DNS responses / STUN non-requests are never
   answered by their own responder; every DNS / STUN / RPC reply the responder emits is itself
   reply-typed), the chain itself is monitored on the implementation by the check. *)
From MS Require Import L2 Spec.View Spec.AppView Spec.C12 Spec.C19 Proofs.C12.

(* ARP replies (every op but 1), ICMP echo replies, ICMPv6 echo replies and neighbour
   advertisements, TCP SYN|ACK and RST segments: no reply at all, table untouched. *)
Theorem C12_l2l4_replies_unanswered :
  forall E cfg clk tb f tb' r evs,
    bytes_ok f = true -> l2l4_reply_typed cfg f = true ->
    reply E cfg clk tb f = Ok (tb', r, evs) -> r = None /\ tb' = tb.
Proof. exact l2l4_replies_unanswered. Qed.

(* A DNS message with QR = 1 is never answered by the DNS responder ... *)
Theorem C12_dns_responses_unanswered :
  forall p, dns_response_typed p = true -> dns_core p = CSilent.
Proof. exact dns_responses_unanswered. Qed.

(* ... and whatever does answer such a datagram is not a DNS response. *)
Theorem C12_dns_response_not_dns :
  forall E clk p c, dns_response_typed p = true -> udp_core E clk p = Ok c -> not_dns c.
Proof. exact dns_response_not_dns. Qed.

(* STUN indications, success / error responses and other methods get no STUN response. *)
Theorem C12_stun_nonrequests_unanswered :
  forall p, stun_nonrequest_typed p = true -> stun_core p = CSilent.
Proof. exact stun_nonrequests_unanswered. Qed.

(* The responder's own DNS / STUN / RPC replies are reply-typed for their protocol, so that
   bouncing them back can never be answered by the same responder again. *)
Theorem C12_own_dns_reply_typed : forall m ip, dns_response_typed (render_dns m ip) = true.
Proof. exact own_dns_reply_typed. Qed.
Theorem C12_own_stun_reply_typed :
  forall tid src sport, length tid = 16%nat -> stun_nonrequest_typed (stun_response tid src sport) = true.
Proof. exact own_stun_reply_typed. Qed.
Theorem C12_own_rpc_reply_typed : forall s ip port, rpc_reply_typed_udp (rpc_build s ip port) = true.
Proof. exact own_rpc_reply_typed. Qed.

Print Assumptions C12_l2l4_replies_unanswered.
Print Assumptions C12_dns_responses_unanswered.
Print Assumptions C12_dns_response_not_dns.
Print Assumptions C12_stun_nonrequests_unanswered.
Print Assumptions C12_own_dns_reply_typed.
Print Assumptions C12_own_stun_reply_typed.
Print Assumptions C12_own_rpc_reply_typed.
