(* RefStun.v -- reference STUN codec. Written from RFC 5389 (section 6: message
   header, message type = class + method; section 15: attributes are TLVs padded
   to a multiple of 4 bytes, the padding is not counted in the attribute length),
   RFC 3489 (section 11: the same header without a magic cookie: bytes 4..20 are a
   128-bit transaction id; 11.2.1 MAPPED-ADDRESS, 11.2.4 CHANGE-REQUEST) and
   RFC 5780 (section 7.2: CHANGE-REQUEST flags). NOT written from
   src/proto/stun.rs: a structured message with its serialisation, a strict
   reader for requests, a strict reader for responses. Shares only Bytes.v with
   the responder model. Definitions only ([nat] is used for lengths / fuel only).

   Decisions (each follows the RFCs; where the RFCs leave a choice it is said):
   * the transaction id is the 16 bytes at offset 4 (RFC 3489 reading; under
     RFC 5389 its first four bytes are the magic cookie);
   * a message is well formed when the two top bits of the type are zero, the
     length field does not exceed the bytes that follow the header, and the
     attributes TILE the declared length exactly, each value padded to a multiple
     of four bytes (padding bytes are arbitrary: RFC 5389 "may be any value");
   * the two attribute types the property speaks about have a fixed layout, which
     is checked: MAPPED-ADDRESS holds a family (1: 8-byte value, 2: 20-byte value)
     and CHANGE-REQUEST a 32-bit flag word. Values LONGER than the fixed layout
     are accepted and the extra bytes ignored (receiver tolerance; the same reading
     as Spec/C03.v [stun_has_change_port]); shorter values, and families other than
     1 / 2, make the message malformed. All other types carry opaque values;
   * REQUESTS: bytes after 20 + length are ignored (the datagram may be longer
     than the message: this is what the implementation does, and RFC 5389 only
     constrains the length field). RESPONSES are read strictly: the length field
     must equal the number of bytes that follow the header. *)
From MS Require Export Bytes.

(* ---- message type (RFC 5389 section 6, figure 3) ----
      0                 1
      2  3  4 5 6 7 8 9 0 1 2 3 4 5
     +--+--+-+-+-+-+-+-+-+-+-+-+-+-+
     |M |M |M|M|M|C|M|M|M|C|M|M|M|M|
     |11|10|9|8|7|1|6|5|4|0|3|2|1|0|
     +--+--+-+-+-+-+-+-+-+-+-+-+-+-+   (preceded by two zero bits) *)
Definition CLASS_REQUEST : N := 0.
Definition CLASS_INDICATION : N := 1.
Definition CLASS_SUCCESS : N := 2.
Definition CLASS_ERROR : N := 3.
Definition METHOD_BINDING : N := 1.
Definition ATTR_MAPPED_ADDRESS : N := 1.
Definition ATTR_CHANGE_REQUEST : N := 3.
Definition FAMILY_IPV4 : N := 1.
Definition FAMILY_IPV6 : N := 2.

Definition stun_type (cls meth : N) : N :=
  (meth / 128) * 512 + (cls / 2) * 256 + ((meth / 16) mod 8) * 32 + (cls mod 2) * 16 + meth mod 16.
Definition type_class (ty : N) : N := ((ty / 256) mod 2) * 2 + (ty / 16) mod 2.
Definition type_method (ty : N) : N := (ty / 512) * 128 + ((ty / 32) mod 8) * 16 + ty mod 16.

(* ---- structured messages ---- *)
Definition attr := (N * bytes)%type.          (* type, value (unpadded) *)

Record stun_msg := {
  sm_class : N;            (* 0..3 *)
  sm_method : N;           (* 12 bits *)
  sm_tid : bytes;          (* 16 bytes: offset 4..20 of the message *)
  sm_attrs : list attr
}.

(* value length rounded up to a multiple of 4 *)
Definition pad4n (n : nat) : nat := ((n + 3) / 4 * 4)%nat.

Definition ser_attr (a : attr) : bytes :=
  be16 (fst a) ++ be16 (lenN (snd a)) ++ snd a ++ zeros (pad4n (length (snd a)) - length (snd a)).
Definition ser_attrs (l : list attr) : bytes := flat_map ser_attr l.

(* header: type, length of the (padded) attributes, transaction id *)
Definition ser_stun (m : stun_msg) : bytes :=
  be16 (stun_type (sm_class m) (sm_method m)) ++ be16 (lenN (ser_attrs (sm_attrs m))) ++
  sm_tid m ++ ser_attrs (sm_attrs m).

(* ---- attribute values with a fixed layout ---- *)
(* MAPPED-ADDRESS: reserved, family, port (2), address (4 / 16) *)
Definition mapped_value_ok (v : bytes) : bool :=
  let fam := nth 1 v 0 in
  ((fam =? FAMILY_IPV4) && (8 <=? length v)%nat) || ((fam =? FAMILY_IPV6) && (20 <=? length v)%nat).
(* CHANGE-REQUEST: a 32-bit flag word *)
Definition change_value_ok (v : bytes) : bool := (4 <=? length v)%nat.

Definition attr_value_ok (t : N) (v : bytes) : bool :=
  if t =? ATTR_MAPPED_ADDRESS then mapped_value_ok v
  else if t =? ATTR_CHANGE_REQUEST then change_value_ok v
  else true.

Definition attr_wf (a : attr) : bool :=
  (fst a <? 65536) && (lenN (snd a) <? 65536) && bytes_ok (snd a) && attr_value_ok (fst a) (snd a).

Definition stun_wf (m : stun_msg) : bool :=
  (sm_class m <? 4) && (sm_method m <? 4096) && (length (sm_tid m) =? 16)%nat && bytes_ok (sm_tid m) &&
  forallb attr_wf (sm_attrs m) && (lenN (ser_attrs (sm_attrs m)) <? 65536).

(* ---- reading the attribute region ----
   The walk reports WHERE a malformed region stops being well formed, so that the
   malformed-input theorems can say exactly which malformations are ignored:
   [TlvDone]       the attributes tile the region;
   [TlvStray]      1..3 bytes are left where an attribute header should start;
   [TlvHeaderOnly] exactly 4 bytes are left: an attribute header whose (non-empty
                   or fixed-layout) value is missing;
   [TlvOverrun]    an attribute's value runs past the end of the region;
   [TlvBadValue]   a MAPPED-ADDRESS / CHANGE-REQUEST value that does not fit its layout;
   [TlvUnpadded]   the last attribute's value is complete but its padding is not. *)
Inductive tlv_status := TlvDone | TlvStray | TlvHeaderOnly | TlvOverrun | TlvBadValue | TlvUnpadded.

Fixpoint walk_attrs (fuel : nat) (v : bytes) : list attr * tlv_status :=
  match v with
  | [] => ([], TlvDone)
  | _ :: _ =>
    match fuel with
    | O => ([], TlvStray)                              (* not reached: fuel = length of the region *)
    | S fuel' =>
      if (length v <? 4)%nat then ([], TlvStray)
      else
        let t := u16_at 0 v in
        let l := N.to_nat (u16_at 2 v) in
        let body := skipn 4 v in
        if (length body <? l)%nat then ([], if (length v =? 4)%nat then TlvHeaderOnly else TlvOverrun)
        else
          let val := firstn l body in
          if negb (attr_value_ok t val) then ([], if (length v =? 4)%nat then TlvHeaderOnly else TlvBadValue)
          else if (length body <? pad4n l)%nat then ([(t, val)], TlvUnpadded)
          else
            let '(rest, st) := walk_attrs fuel' (skipn (pad4n l) body) in
            ((t, val) :: rest, st)
    end
  end.

Definition read_attrs (region : bytes) : list attr * tlv_status := walk_attrs (length region) region.

(* ---- messages ---- *)
(* [exact = true]: nothing may follow the declared length *)
Definition dec_stun_gen (exact : bool) (p : bytes) : option stun_msg :=
  if (length p <? 20)%nat then None
  else
    let ty := u16_at 0 p in
    let len := N.to_nat (u16_at 2 p) in
    if 16384 <=? ty then None                        (* the two top bits are zero *)
    else if (if exact then negb (length p =? 20 + len)%nat else (length p <? 20 + len)%nat) then None
    else
      match read_attrs (firstn len (skipn 20 p)) with
      | (l, TlvDone) =>
        Some {| sm_class := type_class ty; sm_method := type_method ty;
                sm_tid := firstn 16 (skipn 4 p); sm_attrs := l |}
      | _ => None
      end.

Definition dec_stun_req (p : bytes) : option stun_msg := dec_stun_gen false p.
Definition dec_stun_resp (p : bytes) : option stun_msg := dec_stun_gen true p.

(* why a payload is not a well-formed request (for the malformed-input theorems) *)
Inductive stun_diag :=
  | DShort                 (* fewer than 20 bytes *)
  | DTopBits               (* one of the two top bits of the type is set *)
  | DLength                (* the length field exceeds the bytes that follow the header *)
  | DAttrs (s : tlv_status)   (* header fine; outcome of the attribute walk ([TlvDone]: well formed) *).

Definition stun_diag_of (p : bytes) : stun_diag :=
  if (length p <? 20)%nat then DShort
  else if 16384 <=? u16_at 0 p then DTopBits
  else if (length p <? 20 + N.to_nat (u16_at 2 p))%nat then DLength
  else DAttrs (snd (read_attrs (firstn (N.to_nat (u16_at 2 p)) (skipn 20 p)))).

(* ---- MAPPED-ADDRESS as a response carries it: strict layout (RFC 5389 15.1:
   8 reserved bits set to 0, family, port, 32 or 128 bits of address) ---- *)
Definition dec_mapped (v : bytes) : option (N * N * bytes) :=      (* family, port, address *)
  match v with
  | rsv :: fam :: ph :: pl :: addr =>
    if (rsv =? 0) &&
       (((fam =? FAMILY_IPV4) && (length addr =? 4)%nat) || ((fam =? FAMILY_IPV6) && (length addr =? 16)%nat))
    then Some (fam, ph * 256 + pl, addr) else None
  | _ => None
  end.

Definition enc_mapped (fam port : N) (addr : bytes) : bytes := [0; fam] ++ be16 port ++ addr.

(* ---- CHANGE-REQUEST (RFC 3489 11.2.4 / RFC 5780 7.2): flag word, bit 0x04 =
   change IP, bit 0x02 = change port (both in the last byte of the word) ---- *)
Definition attr_change_port (a : attr) : bool :=
  (fst a =? ATTR_CHANGE_REQUEST) && (4 <=? length (snd a))%nat && testbit (nth 3 (snd a) 0) 2.

Definition change_port_requested (m : stun_msg) : bool := existsb attr_change_port (sm_attrs m).
