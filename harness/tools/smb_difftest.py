#!/usr/bin/env python3
"""Differential test: Gallina model of the SMB responder (coq/theories/Smb.v)
against the real Rust code (masscanned built with --features verif).

  python3 /tmp/agent_smb/difftest.py [--jobs N] [--keep] [--seed S]

For every generated payload P:
  impl : P is sent as the payload of a UDP datagram (10.0.0.9:40000 -> 10.0.0.1:445)
         through the line-protocol driver; result = reply payload / no reply / panic.
  model: (a) if P starts with the protocol matcher's pattern 00 00 ** ** ff|fe 'SMB',
             smb1_repl / smb2_repl neg_blob chal_blob filetime P          ("direct")
         (b) always: proto_repl_udp (tables of gen/Tables.v, blobs of SmbTestConsts.v)
             i.e. matcher + dispatch + responder                             ("proto")
         evaluated with vm_compute in sharded .v files.
  clock: filetime is read back from the implementation's reply at the offsets
         documented in Smb.v (60 for an SMB1 negotiate response, 108 for an SMB2
         negotiate response); 0 when the implementation did not reply.  It is also
         checked to be a whole number of seconds within 120 s of this host's clock.
Every disagreement is printed (payload hex, impl result, model result); exit status 1
if there is any.
"""
import os, sys, struct, random, subprocess, re, time, argparse, shutil
from concurrent.futures import ThreadPoolExecutor

sys.path.insert(0, "/verif/harness")
import net  # frame builder / parser of the existing harness

ROOT = os.path.dirname(os.path.abspath(__file__))
sys.path.insert(0, ROOT)
import smbconsts

COQ = os.environ.get("DIFFTEST_COQ", os.path.join(ROOT, "coq"))   # DIFFTEST_COQ: test another copy (mutants)
DRIVER = os.path.join(ROOT, "target", "debug", "masscanned")
WORK = os.environ.get("DIFFTEST_WORK", os.path.join(ROOT, "difftest_work"))
SHARD = 300

C = smbconsts.constants()
NEG_BLOB = C["SECURITY_BLOB_NEG_PROTO"]
CHAL_BLOB = C["SECURITY_BLOB_CHALLENGE"]
REQS = {
    "smb1_neg": C["SMB1_REQ_NEGOTIATE"],
    "smb1_setup": C["SMB1_REQ_SESSION_SETUP"],
    "smb2_neg": C["SMB2_REQ_NEGOTIATE"],
    "smb2_setup": C["SMB2_REQ_SESSION_SETUP"],
}

# ----------------------------------------------------------------------------
# request builders (every length / count field can be overridden to lie)
# ----------------------------------------------------------------------------
def le16(x): return struct.pack("<H", x & 0xFFFF)
def le32(x): return struct.pack("<I", x & 0xFFFFFFFF)
def le64(x): return struct.pack("<Q", x & 0xFFFFFFFFFFFFFFFF)


def nbt(payload, length=None, typ=0, flags=0):
    if length is None:
        length = len(payload)
    return bytes([typ, flags]) + struct.pack(">H", length & 0xFFFF) + payload


def smb1_hdr(cmd, status=0, flags=0x18, flags2=0xc843, pid_high=0, sig=b"\0" * 8, reserved=0,
             tid=0, pid_low=0xfffe, uid=0, mid=0, magic=b"\xffSMB"):
    return (magic + bytes([cmd]) + le32(status) + bytes([flags]) + le16(flags2) + le16(pid_high) +
            sig + le16(reserved) + le16(tid) + le16(pid_low) + le16(uid) + le16(mid))


def smb1_neg_body(dialects, wc=0, bc=None, fmt=2, raw=None, trailer=b""):
    data = raw if raw is not None else b"".join(bytes([fmt]) + d + b"\0" for d in dialects)
    if bc is None:
        bc = len(data)
    return bytes([wc]) + le16(bc) + data + trailer


def smb1_setup_body(blob, wc=12, andx_cmd=0xff, andx_res=0, andx_off=0, max_buf=0xffff, max_mpx=2,
                    vc=1, sess_key=0, sec_len=None, reserved=0, caps=0x8000c054, bc=None,
                    tail=b"\0U\0n\0i\0x\0\0\0S\0a\0m\0b\0a\0\0\0"):
    if sec_len is None:
        sec_len = len(blob)
    if bc is None:
        bc = len(blob) + len(tail)
    return (bytes([wc, andx_cmd, andx_res]) + le16(andx_off) + le16(max_buf) + le16(max_mpx) + le16(vc) +
            le32(sess_key) + le16(sec_len) + le32(reserved) + le32(caps) + le16(bc) + blob + tail)


def smb2_hdr(cmd, ssize=64, credit_charge=0, status=0, credits=31, flags=0, next_cmd=0, mid=0,
             aid=0, sid=0, sig=b"\0" * 16, magic=b"\xfeSMB"):
    return (magic + le16(ssize) + le16(credit_charge) + le32(status) + le16(cmd) + le16(credits) +
            le32(flags) + le32(next_cmd) + le64(mid) + le64(aid) + le64(sid) + sig)


def smb2_neg_body(dialects, ssize=36, count=None, secmode=1, reserved=0, caps=0x7f, guid=None,
                  negctx=b"\x78\0\0\0\x03\0\0\0", trailer=b""):
    if count is None:
        count = len(dialects)
    if guid is None:
        guid = bytes(range(0xa0, 0xb0))
    return (le16(ssize) + le16(count) + le16(secmode) + le16(reserved) + le32(caps) + guid + negctx +
            b"".join(le16(d) for d in dialects) + trailer)


def smb2_setup_body(blob, ssize=25, flags=0, secmode=1, caps=1, channel=0, sec_off=0x58, sec_len=None,
                    prev=0, trailer=b""):
    if sec_len is None:
        sec_len = len(blob)
    return (le16(ssize) + bytes([flags, secmode]) + le32(caps) + le32(channel) + le16(sec_off) +
            le16(sec_len) + le64(prev) + blob + trailer)


D_NTLM = b"NT LM 0.12"
D_ANY = b"SMB 2.???"
D_202 = b"SMB 2.002"
D_OTHER = [b"PC NETWORK PROGRAM 1.0", b"LANMAN1.0", b"Windows for Workgroups 3.1a", b"LM1.2X002",
           b"LANMAN2.1", b"NT LANMAN 1.0", b"", b"nt lm 0.12", b"NT LM 0.12 ", b" NT LM 0.12", b"NT LM 0.1",
           b"SMB 2.??", b"SMB 2.0022", b"\xff\xfe", b"NT LM 0.12\xc3\xa9", b"\x80", b"SMB 3.1.1"]
SMB2_KNOWN = [0x0202, 0x0210, 0x02ff, 0x0300, 0x0302, 0x0310, 0x0311]
SMB2_UNKNOWN = [0x0000, 0x0001, 0x0201, 0x0203, 0x0211, 0x0222, 0x0224, 0x0301, 0x0312, 0x0402, 0xffff, 0x0202 << 8 & 0xffff]


def gen_cases(seed):
    rnd = random.Random(seed)
    cases = []  # (category, payload)

    def add(cat, p):
        cases.append((cat, bytes(p)))

    def rblob(n):
        return bytes(rnd.randrange(256) for _ in range(n))

    def rhdr1(cmd, **kw):
        f = dict(status=rnd.choice([0, 0, rnd.getrandbits(32)]), flags=rnd.choice([0x18, 0x08, 0, rnd.randrange(128)]),
                 flags2=rnd.getrandbits(16), pid_high=rnd.getrandbits(16), sig=rblob(8), reserved=rnd.choice([0, rnd.getrandbits(16)]),
                 tid=rnd.getrandbits(16), pid_low=rnd.getrandbits(16), uid=rnd.getrandbits(16), mid=rnd.getrandbits(16))
        f.update(kw)
        return smb1_hdr(cmd, **f)

    def rhdr2(cmd, **kw):
        f = dict(credit_charge=rnd.choice([0, 1, rnd.getrandbits(16)]), status=rnd.choice([0, rnd.getrandbits(32)]),
                 credits=rnd.getrandbits(16), flags=rnd.choice([0, 0, 0, rnd.getrandbits(32) & ~1]),
                 next_cmd=rnd.choice([0, rnd.getrandbits(32)]), mid=rnd.getrandbits(64), aid=rnd.getrandbits(64),
                 sid=rnd.getrandbits(64), sig=rblob(16))
        f.update(kw)
        return smb2_hdr(cmd, **f)

    # ---- A: the four unit-test requests and every truncation ----------------
    for name, req in REQS.items():
        add("const", req)
        for n in range(len(req)):
            add("trunc", req[:n])
    # ---- B: single-byte mutations -------------------------------------------
    for name, req in REQS.items():
        for i in range(len(req)):
            for v in (0x00, 0xff, (req[i] + 1) & 0xff):
                m = bytearray(req)
                m[i] = v
                add("mutate", m)
    # ---- C1: SMB1 negotiate from field values --------------------------------
    dl_sets = [
        [], [D_NTLM], [D_ANY], [D_202], [D_202, D_ANY], [D_ANY, D_202], [D_202, D_ANY, D_NTLM],
        [D_NTLM, D_NTLM], [D_OTHER[0], D_NTLM, D_NTLM, D_ANY], [D_ANY, D_ANY, D_202, D_202],
        [D_OTHER[0]], D_OTHER[:6], D_OTHER, D_OTHER + [D_202], D_OTHER + [D_ANY, D_NTLM], [b""], [b"", b""],
        [b"", D_NTLM], [D_OTHER[7]], [D_OTHER[8], D_OTHER[9], D_OTHER[10]], [b"x" * 300, D_NTLM],
        [D_OTHER[5]] * 40 + [D_NTLM], [D_NTLM] * 200,
    ]
    for dl in dl_sets:
        add("smb1_neg", nbt(rhdr1(0x72) + smb1_neg_body(dl)))
        add("smb1_neg", nbt(smb1_hdr(0x72) + smb1_neg_body(dl, fmt=rnd.randrange(256))))
    for _ in range(120):
        k = rnd.randrange(0, 9)
        dl = [rnd.choice([D_NTLM, D_ANY, D_202] + D_OTHER) for _ in range(k)]
        add("smb1_neg", nbt(rhdr1(0x72) + smb1_neg_body(dl, wc=rnd.choice([0, 0, rnd.randrange(256)]))))
    for fl in range(0, 256, 1):  # every Flags value, incl. the reply flag 0x80
        add("smb1_flags", nbt(rhdr1(0x72, flags=fl) + smb1_neg_body([D_OTHER[1], D_NTLM])))
    for fl in (0x00, 0x18, 0x80, 0x98, 0xff, 0x7f):
        add("smb1_flags", nbt(rhdr1(0x73, flags=fl) + smb1_setup_body(rblob(16))))
    # ---- C2: SMB1 session setup, blob lengths 0..512 --------------------------
    for n in list(range(0, 66)) + [100, 127, 128, 129, 200, 254, 255, 256, 257, 258, 300, 400, 510, 511, 512]:
        add("smb1_setup", nbt(rhdr1(0x73) + smb1_setup_body(rblob(n))))
    for _ in range(60):
        n = rnd.randrange(0, 513)
        add("smb1_setup", nbt(rhdr1(0x73) + smb1_setup_body(
            rblob(n), wc=rnd.choice([12, 13, 0, rnd.randrange(256)]), andx_cmd=rnd.randrange(256),
            andx_res=rnd.randrange(256), andx_off=rnd.getrandbits(16), max_buf=rnd.getrandbits(16),
            max_mpx=rnd.getrandbits(16), vc=rnd.getrandbits(16), sess_key=rnd.getrandbits(32),
            reserved=rnd.getrandbits(32), caps=rnd.getrandbits(32), tail=rblob(rnd.randrange(0, 40)))))
    # ---- C3: SMB2 negotiate from field values ---------------------------------
    d2_sets = [
        [], [0x0202], [0x0210], [0x02ff], [0x0300], [0x0302], [0x0310], [0x0311], SMB2_KNOWN, SMB2_KNOWN[::-1],
        [0x0311, 0x0202], [0x0202, 0x0311], [0x0202, 0x0202], [0x0202, 0x0202, 0x0210], [0x0210, 0x0202, 0x0202],
        [0x0222], [0x0222, 0x0224], SMB2_UNKNOWN, SMB2_UNKNOWN + [0x0300], [0x0300] + SMB2_UNKNOWN,
        [0x0202, 0x0210, 0x0222, 0x0224, 0x0300, 0x0302, 0x0310, 0x0311], [0x0311] * 8, list(range(0x0300, 0x0340)),
        [0x0000], [0x0000, 0x0000], [0x0311, 0x0000],
    ]
    for dl in d2_sets:
        add("smb2_neg", nbt(rhdr2(0) + smb2_neg_body(dl)))
        add("smb2_neg", nbt(smb2_hdr(0) + smb2_neg_body(dl, guid=rblob(16), trailer=rblob(rnd.randrange(0, 30)))))
    for _ in range(120):
        k = rnd.randrange(0, 10)
        dl = [rnd.choice(SMB2_KNOWN + SMB2_UNKNOWN) for _ in range(k)]
        add("smb2_neg", nbt(rhdr2(0) + smb2_neg_body(
            dl, ssize=rnd.choice([36, 36, rnd.getrandbits(16)]), secmode=rnd.getrandbits(16),
            reserved=rnd.getrandbits(16), caps=rnd.getrandbits(32), guid=rblob(16), negctx=rblob(8),
            trailer=rblob(rnd.choice([0, 0, 4, 40])))))
    for fl in list(range(0, 64)) + [0x80000000, 0x80000001, 0xffffffff, 0xfffffffe, 0x100, 0x101, 0x10000, 0x10001]:
        add("smb2_flags", nbt(rhdr2(0, flags=fl) + smb2_neg_body([0x0202, 0x0210])))
        add("smb2_flags", nbt(rhdr2(1, flags=fl) + smb2_setup_body(rblob(9))))
    # ---- C4: SMB2 session setup, blob lengths 0..512 ---------------------------
    for n in list(range(0, 66)) + [100, 127, 128, 129, 200, 254, 255, 256, 257, 258, 300, 400, 510, 511, 512]:
        add("smb2_setup", nbt(rhdr2(1) + smb2_setup_body(rblob(n))))
    for _ in range(60):
        n = rnd.randrange(0, 513)
        add("smb2_setup", nbt(rhdr2(1) + smb2_setup_body(
            rblob(n), ssize=rnd.choice([25, rnd.getrandbits(16)]), flags=rnd.randrange(256), secmode=rnd.randrange(256),
            caps=rnd.getrandbits(32), channel=rnd.getrandbits(32), sec_off=rnd.choice([0x58, rnd.getrandbits(16)]),
            prev=rnd.getrandbits(64), trailer=rblob(rnd.choice([0, 0, 3, 50])))))
    # ---- D: commands 0..255 ------------------------------------------------------
    for cmd in range(256):
        add("smb1_cmd", nbt(rhdr1(cmd) + smb1_neg_body([D_OTHER[5], D_NTLM])))
        add("smb1_cmd", nbt(rhdr1(cmd) + smb1_setup_body(rblob(7))))
        add("smb2_cmd", nbt(rhdr2(cmd) + smb2_neg_body([0x0210, 0x0300])))
        add("smb2_cmd", nbt(rhdr2(cmd) + smb2_setup_body(rblob(7))))
    for cmd in (0x100, 0x101, 0x8000, 0x8001, 0xff00, 0xff01, 0xffff, 0x0200):  # 16-bit SMB2 command
        add("smb2_cmd", nbt(rhdr2(cmd) + smb2_neg_body([0x0210, 0x0300])))
        add("smb2_cmd", nbt(rhdr2(cmd) + smb2_setup_body(rblob(7))))
    # ---- E: length-field lies ----------------------------------------------------
    for name, req in REQS.items():
        body = req[4:]
        for ln in (0, 1, 4, len(body) - 1, len(body), len(body) + 1, 2 * len(body), 0x7fff, 0x8000, 0xffff):
            add("lie_nbt", nbt(body, length=ln))
        for typ, fl in ((0x81, 0), (0x85, 0), (0, 1), (0, 0xff), (0xff, 0xff)):
            add("lie_nbt", nbt(body, typ=typ, flags=fl))  # first two bytes != 0: not the SMB pattern
        add("lie_nbt", req + req)          # two messages in one segment
        add("lie_nbt", req + rblob(40))    # trailing junk
    dl = [D_OTHER[5], D_NTLM, D_202, D_ANY]
    true_bc = sum(len(d) + 2 for d in dl)
    for wc in range(0, 256, 5):
        add("lie_wc", nbt(smb1_hdr(0x72) + smb1_neg_body(dl, wc=wc)))
        add("lie_wc", nbt(smb1_hdr(0x73) + smb1_setup_body(rblob(12), wc=wc)))
    for bc in list(range(0, true_bc + 6)) + [0x100, 0x1000, 0x8000, 0xffff, true_bc + 256, true_bc + 65536 - 1]:
        add("lie_bc", nbt(smb1_hdr(0x72) + smb1_neg_body(dl, bc=bc)))
    for bc in (0, 1, 5, 11, 12, 13, 14, 15, 16, 26, 27, 28, 0xffff):
        # ByteCount that ends inside / at the end of later data, and data that continues past it
        add("lie_bc", nbt(smb1_hdr(0x72) + smb1_neg_body(dl, bc=bc, trailer=b"\x02NT LM 0.12\0")))
        add("lie_bc", nbt(smb1_hdr(0x72) + smb1_neg_body([D_NTLM], bc=bc, trailer=rblob(30) + b"\0" * 4)))
    for raw in (b"", b"\0", b"\0\0", b"\0\0\0\0", b"\x02", b"\x02\0", b"\x02\0\x02\0", b"NT LM 0.12\0", b"\x02NT LM 0.12",
                b"\x02NT LM 0.12\0\0", b"\x02NT LM 0.12\0\0\0", b"\0NT LM 0.12\0", b"\x02\x02NT LM 0.12\0",
                b"\x02A\0\0NT LM 0.12\0", b"\x02A\0\0\0NT LM 0.12\0"):
        for bc in (None, 0, len(raw) + 1, max(len(raw) - 1, 0)):
            add("lie_bc", nbt(smb1_hdr(0x72) + smb1_neg_body([], raw=raw, bc=bc)))
    for n in (0, 1, 2, 10, 74, 300):
        blob = rblob(n)
        for sl in sorted({0, 1, 2, max(n - 1, 0), n, n + 1, n + 2, n + 21, n + 22, n + 23, 2 * n + 22, 0x100, 0x101, 0xffff}):
            add("lie_seclen", nbt(smb1_hdr(0x73) + smb1_setup_body(blob, sec_len=sl)))
            add("lie_seclen", nbt(smb2_hdr(1) + smb2_setup_body(blob, sec_len=sl)))
            add("lie_seclen", nbt(smb2_hdr(1) + smb2_setup_body(blob, sec_len=sl, trailer=rblob(8))))
        for bc in (0, 1, n, n + 21, n + 23, 0xffff):
            add("lie_bc", nbt(smb1_hdr(0x73) + smb1_setup_body(blob, bc=bc)))
        for off in (0, 1, 0x48, 0x57, 0x58, 0x59, 0x60, 0x100, 0xffff):
            add("lie_secoff", nbt(smb2_hdr(1) + smb2_setup_body(blob, sec_off=off, trailer=rblob(16))))
    for ss in (0, 1, 24, 25, 35, 36, 37, 64, 65, 0xffff):
        add("lie_ssize", nbt(smb2_hdr(0, ssize=ss) + smb2_neg_body([0x0202, 0x0300])))
        add("lie_ssize", nbt(smb2_hdr(0) + smb2_neg_body([0x0202, 0x0300], ssize=ss)))
        add("lie_ssize", nbt(smb2_hdr(1, ssize=ss) + smb2_setup_body(rblob(20))))
        add("lie_ssize", nbt(smb2_hdr(1) + smb2_setup_body(rblob(20), ssize=ss)))
    for dl2 in ([0x0202, 0x0210, 0x0300], [0x0202, 0x0202, 0x0300], [0x0222, 0x0224, 0x0226], [0x0311], [],
                [0x0300, 0x0300, 0x0300, 0x0300], [0x0222, 0x0300, 0x0222, 0x0202]):
        for cnt in (0, 1, 2, 3, 4, 5, 0x100, 0x101, 0x102, 0x103, 0xffff):
            add("lie_dcount", nbt(smb2_hdr(0) + smb2_neg_body(dl2, count=cnt)))
            add("lie_dcount", nbt(smb2_hdr(0) + smb2_neg_body(dl2, count=cnt, trailer=b"\x02\x02\x10\x02\x00\x03\x02")))
            add("lie_dcount", nbt(smb2_hdr(0) + smb2_neg_body(dl2, count=cnt, trailer=b"\x00\x00\x01\x00\x26\x00\x00\x00")))
    # ---- F: random junk after the 8-byte magic --------------------------------------
    for i in range(600):
        magic = b"\x00\x00" + rblob(2) + rnd.choice([b"\xffSMB", b"\xfeSMB"])
        kind = i % 4
        if kind == 0:
            junk = rblob(rnd.randrange(0, 300))
        elif kind == 1:  # mostly zero bytes (small values steer the state machines further)
            junk = bytes(rnd.choice([0, 0, 0, 1, 2, rnd.randrange(256)]) for _ in range(rnd.randrange(0, 200)))
        elif kind == 2:  # valid header (request, known command) then junk
            if magic[4] == 0xff:
                junk = smb1_hdr(rnd.choice([0x72, 0x73]), flags=rnd.choice([0, 0x18]))[4:] + bytes(
                    rnd.choice([0, 0, 1, 2, 3, rnd.randrange(256)]) for _ in range(rnd.randrange(0, 120)))
            else:
                junk = smb2_hdr(rnd.choice([0, 1]))[4:] + bytes(
                    rnd.choice([0, 0, 1, 2, 3, rnd.randrange(256)]) for _ in range(rnd.randrange(0, 160)))
        else:  # valid header + body prefix with small counts, then junk
            if magic[4] == 0xff:
                if rnd.random() < 0.5:
                    junk = smb1_hdr(0x72)[4:] + bytes([rnd.randrange(4)]) + le16(rnd.randrange(0, 24)) + bytes(
                        rnd.choice([0, 0, 2, 65, 66]) for _ in range(rnd.randrange(0, 40)))
                else:
                    junk = smb1_hdr(0x73)[4:] + smb1_setup_body(b"", sec_len=rnd.randrange(0, 20), tail=rblob(rnd.randrange(0, 30)))
            else:
                if rnd.random() < 0.5:
                    junk = smb2_hdr(0)[4:] + le16(36) + le16(rnd.randrange(0, 5)) + rblob(30) + bytes(
                        rnd.choice([0, 2, 3, 0x10, 0x11, 0x02]) for _ in range(rnd.randrange(0, 24)))
                else:
                    junk = smb2_hdr(1)[4:] + smb2_setup_body(b"", sec_len=rnd.randrange(0, 20), trailer=rblob(rnd.randrange(0, 30)))
        add("junk", magic + junk)
    return cases


# ----------------------------------------------------------------------------
# implementation side
# ----------------------------------------------------------------------------
SRC_IP, DST_IP, SPORT, DPORT = "10.0.0.9", "10.0.0.1", 40000, 445


def run_impl(payloads):
    script = "CFG mac=c0ffeec0ffee self=none deny=none key=0,0 logger=none level=5\n"
    for p in payloads:
        script += "F " + net.frame_udp(SRC_IP, DST_IP, SPORT, DPORT, p).hex() + "\n"
    out = subprocess.run([DRIVER], input=script, stdout=subprocess.PIPE, stderr=subprocess.DEVNULL,
                         env=dict(os.environ, MASSCANNED_VERIF="1"), text=True, timeout=1200).stdout
    res, cur = [], None
    seen_ok = False
    for line in out.splitlines():
        if not seen_ok:
            if line.startswith("@@OK"):
                seen_ok = True   # the CFG answer
            continue
        if line.startswith("@@R "):
            f = net.parse_frame(bytes.fromhex(line[4:]))
            assert f is not None and f.proto == 17 and f.app is not None, "reply is not UDP: " + line
            assert (f.sport, f.dport) == (DPORT, SPORT), "unexpected reply ports"
            cur = ("R", f.app)
        elif line.startswith("@@N"):
            cur = ("N",)
        elif line.startswith("@@P"):
            cur = ("P", line[4:])
        elif line.startswith("@@END"):
            assert cur is not None, "frame without a verdict"
            res.append(cur)
            cur = None
    assert len(res) == len(payloads), "driver answered %d of %d frames" % (len(res), len(payloads))
    return res


def clock_of(impl):
    """FILETIME read back from the implementation's reply (offsets documented in Smb.v)."""
    if impl[0] != "R":
        return 0
    r = impl[1]
    if len(r) >= 68 and r[4:8] == b"\xffSMB" and r[8] == 0x72:
        return struct.unpack("<Q", r[60:68])[0]
    if len(r) >= 124 and r[4:8] == b"\xfeSMB" and r[16:18] == b"\x00\x00":
        return struct.unpack("<Q", r[108:116])[0]
    return 0


# ----------------------------------------------------------------------------
# model side
# ----------------------------------------------------------------------------
def coq_list(b):
    return "[" + ";".join(str(x) for x in b) + "]"


def which(p):
    if len(p) >= 8 and p[0] == 0 and p[1] == 0 and p[5:8] == b"SMB":
        if p[4] == 0xff:
            return 1
        if p[4] == 0xfe:
            return 2
    return 0


PRELUDE = """From MS Require Import Bytes Res Types Smb SmbTestConsts Proto.
From MSgen Require Tables.
Open Scope N_scope.
Definition E : env := {| e_proto_tbl := Tables.proto_tbl; e_http_tbl := Tables.http_tbl; e_http_pre := [];
  e_http_post := []; e_ssh_banner := []; e_ghost := []; e_smb1_blob := neg_blob; e_smb2_blob := chal_blob |}.
Definition CI : cinfo := ci_set_ports (ci_set_transport (ci_set_ip (ci_set_mac ci_empty [10;11;12;13;14;15] [192;255;238;192;255;238])
  (V4 [10;0;0;9]) (V4 [10;0;0;1])) 17) 40000 445.
Definition proto (ft : N) (d : bytes) : res (option bytes) :=
  match proto_repl_udp E {| clk_date := []; clk_filetime := ft |} CI d with
  | Ok (ci, r) => Ok r
  | Panic s => Panic s
  end.
"""


def write_shard(idx, items):
    """items: list of (case id, payload, filetime)"""
    path = os.path.join(WORK, "cases_%03d.v" % idx)
    with open(path, "w") as f:
        f.write(PRELUDE)
        for cid, p, ft in items:
            w = which(p)
            if w:
                f.write("Eval vm_compute in (%d, 0, smb%d_repl neg_blob chal_blob %d %s).\n" % (cid, w, ft, coq_list(p)))
            f.write("Eval vm_compute in (%d, 1, proto %d %s).\n" % (cid, ft, coq_list(p)))
    return path


ENTRY = re.compile(r"=\s*\((\d+),\s*(\d+),\s*(Ok None|Ok \(Some \[([0-9;\s]*)\]\)|Panic (\d+))\)\s*:")


def run_shard(path):
    p = subprocess.run(["coqc", "-Q", os.path.join(COQ, "theories"), "MS", "-Q", os.path.join(COQ, "gen"), "MSgen",
                        "-Q", WORK, "DT", path], stdout=subprocess.PIPE, stderr=subprocess.PIPE, text=True, timeout=3600)
    if p.returncode != 0:
        raise RuntimeError("coqc failed on %s:\n%s" % (path, p.stderr[-3000:]))
    res = []
    for m in ENTRY.finditer(re.sub(r"\s+", " ", p.stdout)):
        cid, mode = int(m.group(1)), int(m.group(2))
        if m.group(3) == "Ok None":
            v = ("N",)
        elif m.group(3).startswith("Panic"):
            v = ("P", int(m.group(5)))
        else:
            body = m.group(4).strip()
            v = ("R", bytes(int(x) for x in body.split(";")) if body else b"")
        res.append((cid, mode, v))
    return res


def agree(impl, model):
    if impl[0] != model[0]:
        return False
    if impl[0] == "R":
        return impl[1] == model[1]
    return True   # N/N, or P/P (any site)


def show(v):
    if v[0] == "R":
        return "REPLY " + v[1].hex()
    if v[0] == "N":
        return "NO-REPLY"
    return "PANIC " + str(v[1])


def main():
    ap = argparse.ArgumentParser()
    ap.add_argument("--jobs", type=int, default=8)
    ap.add_argument("--seed", type=int, default=20261001)
    ap.add_argument("--keep", action="store_true", help="keep the generated .v files")
    a = ap.parse_args()

    smbconsts.write_coq(os.path.join(COQ, "theories", "SmbTestConsts.v"))
    subprocess.run("cd %s && coq_makefile -f _CoqProject -o Makefile >/dev/null && timeout 3000 make -j8 theories/Proto.vo "
                   "theories/SmbTestConsts.vo gen/Tables.vo >/dev/null" % COQ, shell=True, check=True)

    raw = gen_cases(a.seed)
    seen, cases = set(), []
    for cat, p in raw:            # exact duplicates add nothing
        if p not in seen:
            seen.add(p)
            cases.append((cat, p))
    print("cases: %d (%d generated, duplicates removed)" % (len(cases), len(raw)))

    t0 = time.time()
    impl = run_impl([p for _, p in cases])
    now_ft = (11644473600 + int(time.time())) * 10**7
    print("implementation: done in %.1fs" % (time.time() - t0))
    clocks = [clock_of(r) for r in impl]
    bad_clock = [c for c in clocks if c and (c % 10**7 != 0 or abs(c - now_ft) > 120 * 10**7)]
    if bad_clock:
        print("CLOCK: %d replies carry a FILETIME that is not (11644473600+now)*10^7 within 120 s, e.g. %d" % (len(bad_clock), bad_clock[0]))

    shutil.rmtree(WORK, ignore_errors=True)
    os.makedirs(WORK)
    shards = []
    for k in range(0, len(cases), SHARD):
        items = [(i, cases[i][1], clocks[i]) for i in range(k, min(k + SHARD, len(cases)))]
        shards.append(write_shard(len(shards), items))
    t0 = time.time()
    with ThreadPoolExecutor(max_workers=a.jobs) as ex:
        results = list(ex.map(run_shard, shards))
    print("model: %d shards evaluated in %.1fs" % (len(shards), time.time() - t0))

    direct, proto = {}, {}
    for rs in results:
        for cid, mode, v in rs:
            (direct if mode == 0 else proto)[cid] = v
    missing = [i for i in range(len(cases)) if i not in proto or (which(cases[i][1]) and i not in direct)]
    assert not missing, "model results missing for cases %s" % missing[:10]

    dis = 0
    out_count = {}
    cat_count = {}
    panics = {}
    for i, (cat, p) in enumerate(cases):
        out_count[impl[i][0]] = out_count.get(impl[i][0], 0) + 1
        cc = cat_count.setdefault(cat, {"R": 0, "N": 0, "P": 0})
        cc[impl[i][0]] += 1
        if impl[i][0] == "P":
            key = impl[i][1]
            if key not in panics or len(p) < len(panics[key]):
                panics[key] = p
        for mode, tab in (("direct", direct), ("proto", proto)):
            if i in tab and not agree(impl[i], tab[i]):
                dis += 1
                print("DISAGREE [%s/%s] payload=%s\n   impl : %s\n   model: %s" % (cat, mode, p.hex(), show(impl[i]), show(tab[i])))
    print("outcomes (implementation): reply=%d no-reply=%d panic=%d" % (out_count.get("R", 0), out_count.get("N", 0), out_count.get("P", 0)))
    print("direct smb*_repl comparisons: %d; proto_repl_udp comparisons: %d" % (len(direct), len(proto)))
    for cat in sorted(cat_count):
        c = cat_count[cat]
        print("  %-12s reply=%-5d no-reply=%-5d panic=%d" % (cat, c["R"], c["N"], c["P"]))
    for msg, p in panics.items():
        print("PANIC in implementation: %s\n   shortest payload: %s" % (msg, p.hex()))
    print("disagreements: %d" % dis)
    if not a.keep:
        shutil.rmtree(WORK, ignore_errors=True)
    return 1 if dis else 0


if __name__ == "__main__":
    sys.exit(main())
