(* Proofs/ClockIndepNorm.v -- Date values of different lengths: the frames emitted under two
   clocks are equal once normalised ([norm_frame]: Date value cut out, length-dependent fields
   and checksums zeroed). *)
From MS Require Import Proofs.Tactics Smb Proto L4 L2 Spec.View Proofs.Pipeline Proofs.ViewLemmas
     Proofs.ChecksumLemmas Proofs.C04 Proofs.FactorEv Proofs.ClockIndepSmb Proofs.ClockIndepApp
     Proofs.ClockIndepMask Proofs.ClockIndep Spec.ClockIndep.
Open Scope N_scope.

(* ---- HTTP ---- *)
Lemma hcut_app st a b : hcut st (a ++ b) = hcut st a ++ hcut (fst (hrun st a)) b.
Proof.
  revert st. induction a as [|x a IH]; intros st; [reflexivity|].
  cbn [app hcut hrun]. destruct (hstep st x) as [st1 c] eqn:Es. cbn [fst]. rewrite IH.
  destruct (hrun st1 a) as [st2 out]. cbn [fst].
  destruct (is_value_byte st x); reflexivity.
Qed.

Lemma hcut_value d :
  forallb (fun b => negb (b =? 13) && negb (b =? 10)) d = true -> hcut HValue d = [].
Proof.
  induction d as [|x d IH]; intros H; [reflexivity|].
  cbn [forallb] in H. apply andb_true_iff in H. destruct H as [Hx Hd].
  apply andb_true_iff in Hx. destruct Hx as [H13 H10]. apply negb_true_iff in H13, H10.
  cbn [hcut hstep is_value_byte]. rewrite H10, H13. cbn [negb andb fst]. apply IH, Hd.
Qed.

Lemma hcut_response pre post d d' :
  hstate_eqb (fst (hrun (HName 0) pre)) HValue = true ->
  forallb (fun b => negb (b =? 13) && negb (b =? 10)) d = true ->
  forallb (fun b => negb (b =? 13) && negb (b =? 10)) d' = true ->
  hcut (HName 0) (http_response pre post d) = hcut (HName 0) (http_response pre post d').
Proof.
  intros Hp Hd Hd'. apply hstate_eqb_value in Hp. unfold http_response.
  rewrite !hcut_app, Hp, (hcut_value d Hd), (hcut_value d' Hd'), (hrun_value d Hd), (hrun_value d' Hd').
  reflexivity.
Qed.

Theorem pay_rel_cut E clk clk' d d' :
  http_tpl_ok E = true -> date_clean clk = true -> date_clean clk' = true ->
  pay_rel E clk clk' d d' -> cut_payload d = cut_payload d'.
Proof.
  intros Ht Hc Hc' H. unfold http_tpl_ok in Ht. apply andb_true_iff in Ht. destruct Ht as [Hpre Hst].
  destruct H as [|A B HA HK H0|A B HA HK H0].
  - unfold cut_payload.
    assert (forall x, is_prefix HTTP_MAGIC (http_response (e_http_pre E) (e_http_post E) x) = true) as Hp.
    { intros x. unfold http_response. apply is_prefix_app. exact Hpre. }
    rewrite !Hp. apply hcut_response; assumption.
  - destruct (nbt_head A 10 K1 ltac:(lia) eq_refl HK H0) as (a1 & a2 & a3 & R & ->).
    unfold cut_payload.
    change (is_prefix HTTP_MAGIC (([0; a1; a2; a3] ++ K1 ++ R) ++ le64 (clk_filetime clk) ++ B)) with false.
    change (is_prefix HTTP_MAGIC (([0; a1; a2; a3] ++ K1 ++ R) ++ le64 (clk_filetime clk') ++ B)) with false.
    change (is_smb1_neg_resp (([0; a1; a2; a3] ++ K1 ++ R) ++ le64 (clk_filetime clk) ++ B)) with true.
    change (is_smb1_neg_resp (([0; a1; a2; a3] ++ K1 ++ R) ++ le64 (clk_filetime clk') ++ B)) with true.
    cbv iota.
    change 60%nat with (60 + 0)%nat. rewrite <- HA.
    change 8%nat with (length (le64 (clk_filetime clk))) at 1.
    change 8%nat with (length (le64 (clk_filetime clk'))) at 1.
    rewrite Nat.add_0_r, !zero_at_app. reflexivity.
  - destruct (nbt_head A 20 K2 ltac:(lia) eq_refl HK H0) as (a1 & a2 & a3 & R & ->).
    unfold cut_payload.
    set (F := le64 (clk_filetime clk) ++ le64 (clk_filetime clk)).
    set (F' := le64 (clk_filetime clk') ++ le64 (clk_filetime clk')).
    change (is_prefix HTTP_MAGIC (([0; a1; a2; a3] ++ K2 ++ R) ++ F ++ B)) with false.
    change (is_prefix HTTP_MAGIC (([0; a1; a2; a3] ++ K2 ++ R) ++ F' ++ B)) with false.
    change (is_smb1_neg_resp (([0; a1; a2; a3] ++ K2 ++ R) ++ F ++ B)) with false.
    change (is_smb1_neg_resp (([0; a1; a2; a3] ++ K2 ++ R) ++ F' ++ B)) with false.
    change (is_smb2_neg_resp (([0; a1; a2; a3] ++ K2 ++ R) ++ F ++ B)) with true.
    change (is_smb2_neg_resp (([0; a1; a2; a3] ++ K2 ++ R) ++ F' ++ B)) with true.
    cbv iota.
    change 108%nat with (108 + 0)%nat. rewrite <- HA.
    change 16%nat with (length F) at 1.
    change 16%nat with (length F') at 1.
    rewrite Nat.add_0_r, !zero_at_app. reflexivity.
Qed.

(* ---- transport ---- *)
Lemma norm_l4_tcp (H T16 c2 u2 d : bytes) :
  length T16 = 16%nat -> length c2 = 2%nat -> length u2 = 2%nat ->
  (N.to_nat (u8_at 12 T16 / 16) * 4 = 20)%nat ->
  norm_l4 6 (length H) (H ++ T16 ++ c2 ++ u2 ++ d) = H ++ T16 ++ [0; 0] ++ u2 ++ cut_payload d.
Proof.
  intros HT Hc Hu Hdo. unfold norm_l4. change (6 =? 6) with true. cbv iota.
  rewrite u8_at_app_r, u8_at_app_l by lia. rewrite Hdo.
  destruct (firstn_skipn_at H (T16 ++ c2 ++ u2) 20 d) as [Hf Hs].
  { rewrite !app_length, HT, Hc, Hu. reflexivity. }
  rewrite <- !app_assoc in Hf, Hs. rewrite Hf, Hs.
  replace (length H + 16)%nat with (length (H ++ T16)) by (rewrite app_length, HT; reflexivity).
  rewrite <- Hc. rewrite (app_assoc H T16), zero_at_app.
  destruct (len2 _ Hc) as (x & y & ->). cbn [map].
  rewrite <- !app_assoc. reflexivity.
Qed.

Lemma norm_l4_udp (H U4 l2 c2 d : bytes) :
  length U4 = 4%nat -> length l2 = 2%nat -> length c2 = 2%nat ->
  norm_l4 17 (length H) (H ++ U4 ++ l2 ++ c2 ++ d) = H ++ U4 ++ [0; 0; 0; 0] ++ cut_payload d.
Proof.
  intros HU Hl Hc. unfold norm_l4. change (17 =? 6) with false. change (17 =? 17) with true. cbv iota.
  destruct (firstn_skipn_at H (U4 ++ l2 ++ c2) 8 d) as [Hf Hs].
  { rewrite !app_length, HU, Hl, Hc. reflexivity. }
  rewrite <- !app_assoc in Hf, Hs. rewrite Hf, Hs.
  destruct (len2 _ Hl) as (x & y & ->). destruct (len2 _ Hc) as (z & w & ->).
  pose proof (zero_at_app (H ++ U4) [x; y; z; w] []) as Z.
  rewrite app_length, HU in Z. cbn [length map] in Z. rewrite !app_nil_r in Z.
  rewrite <- !app_assoc in Z. cbn [app] in Z |- *. rewrite Z.
  rewrite <- !app_assoc. reflexivity.
Qed.

(* ---- IP / Ethernet: the normalised prefix does not depend on the length ---- *)
Section Wrap.
  Variables (cfg : config) (f : bytes) (v : l4view).
  Hypothesis Hmac : length (c_mac cfg) = 6%nat.
  Hypothesis Hv : view cfg f = Some v.

  (* the prefix with its length-dependent fields zeroed *)
  Definition prefix0 (hlim : N) : bytes :=
    if v_v4 v then zero_at 16 2 (zero_at 24 2 (ip_prefix cfg f v (v_dst v) hlim 0))
    else zero_at 18 2 (ip_prefix cfg f v (v_dst v) hlim 0).

  Lemma norm_frame_wrap hlim n l4 :
    norm_frame (ip_prefix cfg f v (v_dst v) hlim n ++ l4) =
    norm_l4 (v_proto v) (length (prefix0 hlim)) (prefix0 hlim ++ l4).
  Proof.
    destruct (view_sizes _ _ _ Hv) as (Hm & Hsz).
    unfold norm_frame, prefix0, ip_prefix.
    destruct (len6 _ Hm) as (s0 & s1 & s2 & s3 & s4 & s5 & ->).
    destruct (len6 _ Hmac) as (m0 & m1 & m2 & m3 & m4 & m5 & ->).
    destruct (v_v4 v).
    - destruct Hsz as [Hs Hd].
      destruct (len4 _ Hs) as (a0 & a1 & a2 & a3 & ->). destruct (len4 _ Hd) as (b0 & b1 & b2 & b3 & ->).
      reflexivity.
    - destruct Hsz as [Hs Hd].
      destruct (len16 _ Hs) as (a0 & a1 & a2 & a3 & a4 & a5 & a6 & a7 & a8 & a9 & a10 & a11 & a12 & a13 & a14 & a15 & ->).
      destruct (len16 _ Hd) as (b0 & b1 & b2 & b3 & b4 & b5 & b6 & b7 & b8 & b9 & b10 & b11 & b12 & b13 & b14 & b15 & ->).
      reflexivity.
  Qed.
End Wrap.

Lemma seal_udp_shape' v sp dp d :
  exists c, seal_udp v (udp_dgram sp dp d) =
            (be16 sp ++ be16 dp) ++ be16 (8 + lenN d) ++ be16 c ++ d.
Proof. eexists. reflexivity. Qed.

Section Frames.
  Variables (E : env) (clk clk' : clock) (cfg : config) (f : bytes) (v : l4view).
  Hypothesis Hmac : length (c_mac cfg) = 6%nat.
  Hypothesis Hv : view cfg f = Some v.
  Hypothesis Htpl : http_tpl_ok E = true.
  Hypothesis Hc : date_clean clk = true.
  Hypothesis Hc' : date_clean clk' = true.

  Lemma wrap_tcp_norm sp dp s a d d' :
    v_proto v = 6 -> pay_rel E clk clk' d d' ->
    norm_frame (wrap_ip cfg f v (v_dst v) 64 (seal_tcp v (tcp_header sp dp s a (ACK + PSH) ++ d))) =
    norm_frame (wrap_ip cfg f v (v_dst v) 64 (seal_tcp v (tcp_header sp dp s a (ACK + PSH) ++ d'))).
  Proof.
    intros Hp Hr. pose proof (pay_rel_cut _ _ _ _ _ Htpl Hc Hc' Hr) as Hm.
    destruct (seal_tcp_shape v sp dp s a (ACK + PSH) d) as (c & ->).
    destruct (seal_tcp_shape v sp dp s a (ACK + PSH) d') as (c' & ->).
    rewrite !(wrap_ip_split cfg f v Hv), !(norm_frame_wrap cfg f v Hmac Hv), Hp.
    rewrite !norm_l4_tcp by reflexivity. rewrite Hm. reflexivity.
  Qed.

  Lemma wrap_udp_norm sp dp d d' :
    v_proto v = 17 -> pay_rel E clk clk' d d' ->
    norm_frame (wrap_ip cfg f v (v_dst v) 64 (seal_udp v (udp_dgram sp dp d))) =
    norm_frame (wrap_ip cfg f v (v_dst v) 64 (seal_udp v (udp_dgram sp dp d'))).
  Proof.
    intros Hp Hr. pose proof (pay_rel_cut _ _ _ _ _ Htpl Hc Hc' Hr) as Hm.
    destruct (seal_udp_shape' v sp dp d) as (c & ->).
    destruct (seal_udp_shape' v sp dp d') as (c' & ->).
    rewrite !(wrap_ip_split cfg f v Hv), !(norm_frame_wrap cfg f v Hmac Hv), Hp.
    rewrite !norm_l4_udp by reflexivity. rewrite Hm. reflexivity.
  Qed.
End Frames.

Theorem reply_clock_frame_norm : clock_frame_norm_stmt.
Proof.
  intros E cfg clk clk' tb f tb1 r1 ev1 tb2 r2 ev2 Hmac Ht Hc Hc' Hk R1 R2.
  pose proof (reply_clk E cfg clk clk' tb f Hk) as H. rewrite R1, R2 in H. cbn [res_rel] in H.
  destruct H as (_ & _ & H). cbn [fst snd] in H.
  destruct H as [-> | (v & o & o' & Hv & H & -> & ->)].
  - destruct r2; auto.
  - destruct H as [-> | (d & d' & Hr & [(sp & dp & s & a & Hp & -> & ->) | (sp & dp & Hp & -> & ->)])].
    + destruct (wrap_of cfg f v o'); auto.
    + cbn [wrap_of]. exact (wrap_tcp_norm E clk clk' cfg f v Hmac Hv Ht Hc Hc' sp dp s a d d' Hp Hr).
    + cbn [wrap_of]. exact (wrap_udp_norm E clk clk' cfg f v Hmac Hv Ht Hc Hc' sp dp d d' Hp Hr).
Qed.
