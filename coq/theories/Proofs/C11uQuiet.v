(* Proofs/C11uQuiet.v -- the two halves of "not identified yet = the parser has not answered":
   (1) for EVERY verb table, the per-byte HTTP parser started in [http_new] does not reach
       CONTENT within fewer than 11 bytes (a rank argument on the parser states);
   (2) soundness of the per-table check [sig_bound_ok] of Spec/C11u.v: a stream whose first L
       bytes complete no signature is never identified as [id]. *)
From Coq Require Import Lia.
From MS Require Import Proofs.Tactics Smack Http Proto Spec.C10 Spec.AppView Spec.C11 Spec.C11http Spec.C11u
     Proofs.SmackSeg Proofs.C10Sound Proofs.PendingBound Proofs.HttpLemmas.

(* ---------- (1) the parser needs 11 bytes ---------- *)
(* a lower bound of the number of bytes a state needs to reach CONTENT *)
Definition http_rank (st : N) : nat :=
  if st =? HTTP_CONTENT then 0
  else if st =? HTTP_FIELD_START then 1
  else if st =? HTTP_VMIN then 2
  else if st =? HTTP_VMAJ then 3
  else if st =? HTTP_SLASH then 4
  else if st =? 7 then 5
  else if st =? 6 then 6
  else if st =? 5 then 7
  else if st =? HTTP_H then 8
  else if st =? HTTP_URI then 9
  else if st =? HTTP_SPACE then 10
  else if st =? HTTP_VERB then 11
  else if st =? HTTP_START then 11
  else if st =? HTTP_FIELD_VALUE then 2
  else if st =? HTTP_FIELD_NAME then 3
  else 100.

Ltac rk := cbn [h_state set_state set_state_bis];
  first [lia | match goal with E : h_state _ = _ |- _ => rewrite ?E end; vm_compute; lia].

Lemma http_byte_rank s b : (http_rank (h_state s) <= S (http_rank (h_state (http_byte s b))))%nat.
Proof.
  unfold http_byte.
  destruct (h_state s =? HTTP_SPACE) eqn:E2.
  { apply N.eqb_eq in E2. destruct (b =? 32); rk. }
  destruct (h_state s =? HTTP_URI) eqn:E3.
  { apply N.eqb_eq in E3. clear E2. destruct (b =? 32); [rk|].
    destruct ((b =? 13) || (b =? 10)); rk. }
  destruct ((HTTP_H <=? h_state s) && (h_state s <=? HTTP_SLASH)) eqn:EH.
  { apply andb_true_iff in EH. destruct EH as [Ha Hb]. apply N.leb_le in Ha, Hb.
    unfold HTTP_H, HTTP_SLASH in *. clear E2 E3.
    assert (h_state s = 4 \/ h_state s = 5 \/ h_state s = 6 \/ h_state s = 7 \/ h_state s = 8) as Hc by lia.
    destruct (b =? _); cbn [h_state set_state];
      destruct Hc as [Hc | [Hc | [Hc | [Hc | Hc]]]]; rewrite Hc; vm_compute; lia. }
  destruct (h_state s =? HTTP_VMAJ) eqn:E9.
  { apply N.eqb_eq in E9. clear E2 E3 EH.
    destruct (b =? 46); [destruct (h_bis s =? 0); rk|].
    destruct (is_digit b); rk. }
  destruct (h_state s =? HTTP_VMIN) eqn:E10.
  { apply N.eqb_eq in E10. clear E2 E3 EH E9.
    destruct (b =? 13); [lia|].
    destruct (b =? 10); [destruct (h_bis s =? 0); rk|].
    destruct (is_digit b); rk. }
  destruct (h_state s =? HTTP_FIELD_START) eqn:E32.
  { apply N.eqb_eq in E32. clear E2 E3 EH E9 E10.
    destruct (b =? 13); [lia|]. destruct (b =? 10); rk. }
  destruct (h_state s =? HTTP_FIELD_NAME) eqn:E33.
  { apply N.eqb_eq in E33. clear E2 E3 EH E9 E10 E32.
    destruct ((b =? 13) || (b =? 10)); [rk|].
    destruct (b =? 58); rk. }
  destruct (h_state s =? HTTP_FIELD_VALUE) eqn:E34.
  { apply N.eqb_eq in E34. clear E2 E3 EH E9 E10 E32 E33.
    destruct (b =? 13); [lia|]. destruct (b =? 10); rk. }
  lia.
Qed.

Lemma skipn_S_single {A} (k : nat) (b : A) : skipn (S k) [b] = [].
Proof. cbn [skipn]. destruct k; reflexivity. Qed.

(* one byte in state VERB leaves the parser in VERB, SPACE or FAIL -- whatever the table *)
Lemma verb_step_states tbl s d s' n :
  h_state s = HTTP_VERB -> http_verb_step tbl s d = (s', n) ->
  h_state s' = HTTP_VERB \/ h_state s' = HTTP_SPACE \/ h_state s' = HTTP_FAIL.
Proof.
  intros Hs H. unfold http_verb_step in H.
  destruct (search_next tbl (h_smack s) d) as [[id sm] k].
  destruct id as [[|p]|].
  - injection H as <- _. cbn. auto.
  - injection H as <- _. cbn [h_state]. auto.
  - destruct (sm =? UNANCHORED_STATE); injection H as <- _; cbn [h_state set_state]; auto.
Qed.

Lemma http_step_verb_rank tbl s b s' :
  h_state s = HTTP_VERB -> http_step tbl s b = Ok s' -> (10 <= http_rank (h_state s'))%nat.
Proof.
  intros Hs H. unfold http_step, http_parse in H. cbn [length] in H. rewrite http_loop_S in H.
  rewrite Hs in H. change (HTTP_VERB =? HTTP_START) with false in H.
  change (HTTP_VERB =? HTTP_VERB) with true in H. cbv iota in H.
  destruct (http_verb_step tbl s [b]) as [s1 n] eqn:Hv.
  destruct n as [|k]; [discriminate|].
  rewrite skipn_S_single in H. cbn [http_loop] in H. injection H as <-.
  destruct (verb_step_states _ _ _ _ _ Hs Hv) as [-> | [-> | ->]]; vm_compute; lia.
Qed.

Lemma http_step_rank tbl s b s' :
  http_step tbl s b = Ok s' -> (http_rank (h_state s) <= S (http_rank (h_state s')))%nat.
Proof.
  intros H.
  destruct (N.eq_dec (h_state s) HTTP_START) as [E0|E0].
  { unfold http_step in H. rewrite (http_parse_start tbl s [b] E0) in H by discriminate.
    pose proof (http_step_verb_rank tbl (set_state s HTTP_VERB) b s' eq_refl H) as Hr.
    rewrite E0. change (http_rank HTTP_START) with 11%nat. lia. }
  destruct (N.eq_dec (h_state s) HTTP_VERB) as [E1|E1].
  { pose proof (http_step_verb_rank tbl s b s' E1 H) as Hr. rewrite E1. change (http_rank HTTP_VERB) with 11%nat. lia. }
  unfold http_step in H. rewrite http_parse_post in H by (split; assumption).
  injection H as <-. change (run s [b]) with (http_byte s b). apply http_byte_rank.
Qed.

Lemma http_fold_rank tbl : forall p s s',
  http_fold tbl s p = Ok s' -> (http_rank (h_state s) <= length p + http_rank (h_state s'))%nat.
Proof.
  induction p as [|b p IH]; intros s s' H; cbn [http_fold length] in *.
  - injection H as <-. lia.
  - destruct (http_step tbl s b) as [s1|e] eqn:Hs; cbn [bind] in H; [|discriminate].
    pose proof (http_step_rank _ _ _ _ Hs). pose proof (IH _ _ H). lia.
Qed.

(* the per-byte parser cannot answer a stream of fewer than 11 bytes *)
Theorem http_quiet_short tbl p : (length p < HTTP_QUIET)%nat -> http_answered tbl p = false.
Proof.
  intros Hl. unfold http_answered. destruct (http_fold tbl http_new p) as [h|e] eqn:Hf; [|reflexivity].
  pose proof (http_fold_rank tbl p http_new h Hf) as Hr. change (http_rank (h_state http_new)) with 11%nat in Hr.
  unfold http_answers. destruct (h_state h =? HTTP_CONTENT) eqn:Ec; [|reflexivity].
  apply N.eqb_eq in Ec. rewrite Ec in Hr. change (http_rank HTTP_CONTENT) with 0%nat in Hr.
  unfold HTTP_QUIET in Hl. lia.
Qed.

(* ---------- (2) soundness of [sig_bound_ok] ---------- *)
Section Late.
  Variables (t : smack) (id : N) (L : nat).
  Hypothesis Hchk : sig_bound_ok t id L = true.

  Let C := late_close (N.to_nat (sm_rows t)) t (byte_cols t) (layer_c t (byte_cols t) L).

  Lemma late_layer_in r : In r (layer t L) -> In r C.
  Proof.
    intros Hr. unfold sig_bound_ok in Hchk. cbv zeta in Hchk. apply andb_true_iff in Hchk.
    destruct Hchk as [H1 _]. rewrite forallb_forall in H1. apply memN_In. apply H1. exact Hr.
  Qed.

  Lemma late_step r c : In r C -> In c (byte_cols t) ->
    if sm_next t r c <? sm_match_limit t then In (sm_next t r c) C
    else hd 0 (sm_ids t (sm_next t r c)) <> id.
  Proof.
    intros Hr Hc. unfold sig_bound_ok in Hchk. cbv zeta in Hchk. apply andb_true_iff in Hchk.
    destruct Hchk as [_ H2]. unfold no_late_id_c in H2. rewrite forallb_forall in H2.
    specialize (H2 r Hr). rewrite forallb_forall in H2. specialize (H2 c Hc). cbv zeta in H2.
    destruct (sm_next t r c <? sm_match_limit t).
    - apply memN_In. exact H2.
    - apply negb_true_iff, N.eqb_neq in H2. exact H2.
  Qed.

  Lemma late_layers j : incl (layer t (L + j)) C.
  Proof.
    induction j as [|j IH].
    - rewrite Nat.add_0_r. intros r. apply late_layer_in.
    - replace (L + S j)%nat with (S (L + j)) by lia. unfold layer at 1. cbn [layer_c].
      intros x Hx. apply next_layer_In in Hx. destruct Hx as (r & c & Hr & Hc & -> & Hl).
      pose proof (late_step r c (IH r Hr) Hc) as H. apply N.ltb_lt in Hl. rewrite Hl in H. exact H.
  Qed.

  Lemma late_m_run a : forall r, bytes_ok a = true -> In r C -> m_run t r a <> MAcc id.
  Proof.
    induction a as [|b a IH]; intros r Hb Hr; cbn [m_run]; [discriminate|].
    destruct (bytes_ok_cons_inv _ _ Hb) as [Hb1 Hb2].
    pose proof (late_step r _ Hr (sym_in_cols t b Hb1)) as H.
    unfold m_step. destruct (sm_next t r (sm_sym t (N.to_nat b)) <? sm_match_limit t) eqn:Hl.
    - apply N.ltb_lt in Hl. replace (sm_match_limit t <=? _) with false by (symmetry; apply N.leb_gt; exact Hl).
      apply IH; assumption.
    - apply N.ltb_ge in Hl. replace (sm_match_limit t <=? _) with true by (symmetry; apply N.leb_le; exact Hl).
      intros Heq. injection Heq as Heq. contradiction.
  Qed.

  Theorem sig_bound_m_run s a r : (L <= length s)%nat -> bytes_ok (s ++ a) = true ->
    m_run t BASE_STATE s = MCont r -> m_run t BASE_STATE (s ++ a) <> MAcc id.
  Proof.
    intros Hlen Hb Hs. rewrite m_run_app, Hs.
    rewrite bytes_ok_app in Hb. apply andb_true_iff in Hb. destruct Hb as [Hbs Hba].
    apply late_m_run; [exact Hba|].
    pose proof (m_run_layer t s BASE_STATE 0 r Hbs (or_introl eq_refl) Hs) as H. cbn [Nat.add] in H.
    apply (late_layers (length s - L)). replace (L + (length s - L))%nat with (length s) by lia. exact H.
  Qed.
End Late.

(* in terms of the identification over TCP: identified as [id] => within the first L bytes *)
Theorem sig_within t id L : smack_ok t = true -> sm_rows t <= TWO24 ->
  0 < sm_rows t -> 0 < sm_match_limit t -> sig_bound_ok t id L = true ->
  forall s a, bytes_ok (s ++ a) = true ->
    tcp_first_id_tbl t s = None -> tcp_first_id_tbl t (s ++ a) = Some id -> (length s < L)%nat.
Proof.
  intros Hok Hsz H0 H1 Hd s a Hb Hs Hsa.
  destruct (Nat.lt_ge_cases (length s) L) as [Hlt|Hge]; [exact Hlt|exfalso].
  rewrite (tcp_id_m_run t Hok Hsz s H0 H1) in Hs. rewrite (tcp_id_m_run t Hok Hsz (s ++ a) H0 H1) in Hsa.
  destruct (m_run t BASE_STATE s) as [r|i] eqn:Hr; [|discriminate Hs].
  pose proof (sig_bound_m_run t id L Hd s a r Hge Hb Hr) as Hn.
  destruct (m_run t BASE_STATE (s ++ a)) as [r'|i]; [discriminate|]. injection Hsa as ->. contradiction.
Qed.
