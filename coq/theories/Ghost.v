(* Ghost.v -- src/proto/ghost.rs: the reply is one constant frame (produced by
   flate2 in the implementation, dumped into gen/Consts.v on every run). *)
From MS Require Export Bytes.

Definition ghost_repl (frame : bytes) (data : bytes) : option bytes := Some frame.
