(* C14Sim.v -- the model's DNS parser (Dns.v) against the reference reader
   (Spec/RefDns.v), on EVERY input: where the reference reader delivers a value the
   model's parser delivers the corresponding view and stops at the same place;
   where the reference reader runs out of input so does the model's parser. (Where
   the reference reader rejects -- label-length octets >= 64, names over 255
   octets -- nothing is claimed: those inputs are outside the property.) *)
From MS Require Import Proofs.Tactics Dns Spec.RefDns Spec.C14 Proofs.C14Ref.

(* the model's view of reference values: a name is its serialisation *)
Definition mq (x : dquestion) : question := {| q_name := ser_name (qn x); q_type := qt x; q_class := qc x |}.
Definition mview (m : dmsg) : dns_msg := {| d_id := m_id m; d_flags := m_flags m; d_qd := map mq (m_qd m) |}.
Definition qview (q : dquery) : dns_msg := {| d_id := k_id q; d_flags := k_flags q; d_qd := map mq (k_qd q) |}.

(* ---- names ---- *)
Lemma take_qname_short (d : bytes) : forall acc left, lenN d <= left -> take_qname d acc left = None.
Proof.
  induction d as [|b t IH]; intros acc left H; cbn [take_qname].
  - reflexivity.
  - unfold lenN in H. cbn [length] in H.
    destruct (0 <? left) eqn:E; [|lia]. apply IH. unfold lenN. lia.
Qed.

Lemma take_qname_label (a : bytes) : forall d acc, take_qname (a ++ d) acc (lenN a) = take_qname d (rev a ++ acc) 0.
Proof.
  induction a as [|x a IH]; intros d acc.
  - reflexivity.
  - cbn [app take_qname rev]. unfold lenN. cbn [length].
    destruct (0 <? N.of_nat (S (length a))) eqn:E; [|lia].
    replace (N.of_nat (S (length a)) - 1) with (lenN a) by (unfold lenN; lia).
    rewrite IH, <- app_assoc. reflexivity.
Qed.

Lemma take_qname_sim (fuel : nat) : forall budget l acc,
  (forall nm r, dec_name fuel budget l = Done nm r -> take_qname l acc 0 = Some (rev acc ++ ser_name nm, r)) /\
  (dec_name fuel budget l = Short -> take_qname l acc 0 = None).
Proof.
  induction fuel as [|fuel IH]; intros budget l acc; rewrite dec_name_unfold;
    (destruct l as [|n t]; [split; [discriminate|reflexivity]|]);
    cbn [take_qname]; change (0 <? 0) with false; cbv iota;
    (destruct (n =? 0) eqn:E0;
     [split; [intros nm r X; inversion X; subst; assert (n = 0) as -> by lia; cbn [rev ser_name]; reflexivity|discriminate]|]);
    (destruct (64 <=? n) eqn:E64; [split; [discriminate|discriminate]|]);
    (destruct (budget <? n + 2) eqn:Eb; [split; [discriminate|discriminate]|]);
    replace (n <? 64) with true by lia;
    (destruct (lenN t <? n) eqn:El;
     [split; [discriminate|intros _; apply take_qname_short; lia]|]).
  - split; discriminate.
  - assert (length (firstn (N.to_nat n) t) = N.to_nat n) as Hfl.
    { rewrite firstn_length. unfold lenN in El. lia. }
    assert (lenN (firstn (N.to_nat n) t) = n) as HlN by (unfold lenN; rewrite Hfl; lia).
    assert (take_qname t (n :: acc) n =
            take_qname (skipn (N.to_nat n) t) (rev (firstn (N.to_nat n) t) ++ n :: acc) 0) as ->.
    { rewrite <- take_qname_label. rewrite firstn_skipn, HlN. reflexivity. }
    destruct (IH (budget - (n + 1)) (skipn (N.to_nat n) t) (rev (firstn (N.to_nat n) t) ++ n :: acc)) as [ID IS].
    destruct (dec_name fuel (budget - (n + 1)) (skipn (N.to_nat n) t)) as [ls r'| |]; split; try discriminate.
    + intros nm r X; inversion X; subst nm r'; clear X.
      rewrite (ID ls r eq_refl). f_equal. f_equal.
      rewrite rev_app_distr, rev_involutive. cbn [rev ser_name]. rewrite HlN, <- !app_assoc. reflexivity.
    + intros _. apply IS. reflexivity.
Qed.

Lemma take_qname_top (l : bytes) :
  (forall nm r, dec_name_top l = Done nm r -> take_qname l [] 0 = Some (ser_name nm, r)) /\
  (dec_name_top l = Short -> take_qname l [] 0 = None).
Proof. exact (take_qname_sim 128 255 l []). Qed.

(* ---- questions ---- *)
Lemma take_question_sim (l : bytes) :
  (forall q r, dec_question l = Done q r -> take_question l = Some (mq q, r)) /\
  (dec_question l = Short -> take_question l = None).
Proof.
  unfold dec_question, take_question. destruct (take_qname_top l) as [HD HS].
  destruct (dec_name_top l) as [nm r0| |]; [|split; [discriminate|intros _; rewrite HS; reflexivity]|split; discriminate].
  rewrite (HD nm r0 eq_refl).
  destruct r0 as [|t1 [|t2 [|c1 [|c2 rest]]]]; (split; [try discriminate|try discriminate; try reflexivity]).
  intros q r X; inversion X; subst; reflexivity.
Qed.

Lemma take_questions_sim (n : nat) : forall l,
  (forall qs r, dec_many dec_question n l = Done qs r -> take_questions n l = Some (map mq qs, r)) /\
  (dec_many dec_question n l = Short -> take_questions n l = None).
Proof.
  induction n as [|n IH]; intros l; cbn [dec_many take_questions].
  - split; [intros qs r X; inversion X; subst; reflexivity|discriminate].
  - destruct (take_question_sim l) as [HD HS].
    destruct (dec_question l) as [q r0| |]; [|split; [discriminate|intros _; rewrite HS; reflexivity]|split; discriminate].
    rewrite (HD q r0 eq_refl). destruct (IH r0) as [ID IS].
    destruct (dec_many dec_question n r0) as [qs r1| |]; split; try discriminate.
    + intros qs' r X; inversion X; subst. rewrite (ID qs r eq_refl). reflexivity.
    + intros _. rewrite IS; reflexivity.
Qed.

(* ---- resource records: the model only skips them ---- *)
Lemma skip_rr_sim (l : bytes) :
  (forall x r, dec_rr l = Done x r -> skip_rr l = Some r) /\
  (dec_rr l = Short -> skip_rr l = None).
Proof.
  unfold dec_rr, skip_rr. destruct (take_qname_top l) as [HD HS].
  destruct (dec_name_top l) as [nm r0| |]; [|split; [discriminate|intros _; rewrite HS; reflexivity]|split; discriminate].
  rewrite (HD nm r0 eq_refl).
  destruct r0 as [|t1 [|t2 [|c1 [|c2 [|l1 [|l2 [|l3 [|l4 [|n1 [|n2 rest]]]]]]]]]];
    try (split; [discriminate|reflexivity]).
  change (length (t1 :: t2 :: c1 :: c2 :: l1 :: l2 :: l3 :: l4 :: n1 :: n2 :: rest) <? 10)%nat with false.
  change (u16_at 8 (t1 :: t2 :: c1 :: c2 :: l1 :: l2 :: l3 :: l4 :: n1 :: n2 :: rest)) with (n1 * 256 + n2).
  cbn [skipn]. cbv iota.
  destruct (lenN rest <? n1 * 256 + n2); split; try discriminate; try reflexivity.
  intros x r X; inversion X; subst; reflexivity.
Qed.

Lemma skip_rrs_sim (n : nat) : forall l,
  (forall xs r, dec_many dec_rr n l = Done xs r -> skip_rrs n l = Some r) /\
  (dec_many dec_rr n l = Short -> skip_rrs n l = None).
Proof.
  induction n as [|n IH]; intros l; cbn [dec_many skip_rrs].
  - split; [intros xs r X; inversion X; subst; reflexivity|discriminate].
  - destruct (skip_rr_sim l) as [HD HS].
    destruct (dec_rr l) as [x r0| |]; [|split; [discriminate|intros _; rewrite HS; reflexivity]|split; discriminate].
    rewrite (HD x r0 eq_refl). destruct (IH r0) as [ID IS].
    destruct (dec_many dec_rr n r0) as [xs r1| |]; split; try discriminate.
    + intros xs' r X; inversion X; subst. apply (ID xs r eq_refl).
    + intros _. apply IS; reflexivity.
Qed.

Lemma dec_many_length {A} (dec : bytes -> pres A) (n : nat) : forall l al r,
  dec_many dec n l = Done al r -> length al = n.
Proof.
  induction n as [|n IH]; intros l al r; cbn [dec_many].
  - intros X; inversion X; reflexivity.
  - destruct (dec l) as [a r0| |]; try discriminate.
    destruct (dec_many dec n r0) as [al' r1| |] eqn:E; try discriminate.
    intros X; inversion X; subst. cbn [length]. f_equal. eapply IH; eassumption.
Qed.

Lemma dec_many_short_pos {A} (dec : bytes -> pres A) (n : nat) (l : bytes) :
  dec_many dec n l = Short -> n <> 0%nat.
Proof. destruct n; [discriminate|intros _; discriminate]. Qed.

(* ---- messages ---- *)
Lemma dns_parse_sim (p : bytes) :
  (forall m r, dec_msg p = Done m r ->
     dns_parse p = if is_nil (m_ns m) && is_nil (m_ar m) then Some (mview m) else None) /\
  (dec_msg p = Short -> dns_parse p = None).
Proof.
  unfold dec_msg, dns_parse.
  destruct p as [|i1 [|i2 [|f1 [|f2 [|q1 [|q2 [|a1 [|a2 [|n1 [|n2 [|r1 [|r2 body]]]]]]]]]]]];
    try (split; [discriminate|reflexivity]).
  match goal with |- context [(length ?l <? 12)%nat] => change (length l <? 12)%nat with false end.
  cbv iota.
  match goal with |- context [u16_at 4 ?l] =>
    change (u16_at 4 l) with (q1 * 256 + q2); change (u16_at 6 l) with (a1 * 256 + a2);
    change (u16_at 8 l) with (n1 * 256 + n2); change (u16_at 10 l) with (r1 * 256 + r2);
    change (u16_at 0 l) with (i1 * 256 + i2); change (u16_at 2 l) with (f1 * 256 + f2)
  end.
  cbn [skipn].
  destruct (take_questions_sim (N.to_nat (q1 * 256 + q2)) body) as [QD QS].
  destruct (dec_many dec_question _ body) as [qd b1| |];
    [|split; [discriminate|intros _; rewrite QS; reflexivity]|split; discriminate].
  rewrite (QD qd b1 eq_refl).
  destruct (skip_rrs_sim (N.to_nat (a1 * 256 + a2)) b1) as [AD AS].
  destruct (dec_many dec_rr (N.to_nat (a1 * 256 + a2)) b1) as [an b2| |];
    [|split; [discriminate|intros _; rewrite AS; reflexivity]|split; discriminate].
  rewrite (AD an b2 eq_refl).
  destruct (dec_many dec_rr (N.to_nat (n1 * 256 + n2)) b2) as [ns b3| |] eqn:En;
    [|split; [discriminate|intros _; apply dec_many_short_pos in En;
                           replace (n1 * 256 + n2 =? 0) with false by lia; reflexivity]|split; discriminate].
  apply dec_many_length in En.
  destruct (dec_many dec_rr (N.to_nat (r1 * 256 + r2)) b3) as [ar b4| |] eqn:Er;
    [|split; [discriminate|intros _; apply dec_many_short_pos in Er;
                           replace (r1 * 256 + r2 =? 0) with false by lia; rewrite andb_false_r; reflexivity]
     |split; discriminate].
  apply dec_many_length in Er.
  split; [|discriminate].
  intros m r X; inversion X; subst m r; clear X. cbn [m_ns m_ar].
  destruct ns as [|x ns]; destruct ar as [|y ar]; cbn [length is_nil andb] in *.
  - replace (n1 * 256 + n2 =? 0) with true by lia. replace (r1 * 256 + r2 =? 0) with true by lia. reflexivity.
  - replace (r1 * 256 + r2 =? 0) with false by lia. rewrite andb_false_r. reflexivity.
  - replace (n1 * 256 + n2 =? 0) with false by lia. reflexivity.
  - replace (n1 * 256 + n2 =? 0) with false by lia. reflexivity.
Qed.

(* ---- the parser on serialised messages ---- *)
Theorem dns_parse_msg (m : dmsg) (tail : bytes) :
  msg_wf m = true ->
  dns_parse (ser_dns m ++ tail) = if is_nil (m_ns m) && is_nil (m_ar m) then Some (mview m) else None.
Proof. intros H. apply (proj1 (dns_parse_sim _)) with (r := tail). apply dec_msg_ser, H. Qed.

Theorem dns_parse_query_tail (q : dquery) (tail : bytes) :
  query_wf q = true -> dns_parse (ser_query q ++ tail) = Some (qview q).
Proof. intros H. rewrite ser_query_msg, dns_parse_msg by (apply query_msg_wf, H). reflexivity. Qed.

Theorem dns_parse_query (q : dquery) : query_wf q = true -> dns_parse (ser_query q) = Some (qview q).
Proof. intros H. rewrite <- (app_nil_r (ser_query q)). apply dns_parse_query_tail, H. Qed.

Theorem dns_parse_truncated (p : bytes) : dns_truncated p = true -> dns_parse p = None.
Proof.
  unfold dns_truncated. intros H. apply (proj2 (dns_parse_sim p)).
  destruct (dec_msg p); try discriminate. reflexivity.
Qed.
