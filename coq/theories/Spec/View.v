(* View.v -- how the stack sees a received frame: which transport packet (if
   any) it extracts. Written from the property texts (C02: which frames are in
   scope) on top of the pnet slicing rules; used to state the transport- and
   application-level properties on whole frames. *)
From MS Require Export Bytes Types L2.

Definition ip_ok (a : ipaddr) : bool :=
  match a with
  | V4 o => (length o =? 4)%nat && bytes_ok o
  | V6 o => (length o =? 16)%nat && bytes_ok o
  end.

(* well-formed configurations: what the command line can produce *)
Definition cfg_ok (cfg : config) : bool :=
  (length (c_mac cfg) =? 6)%nat && bytes_ok (c_mac cfg) &&
  (match c_self cfg with Some l => forallb ip_ok l | None => true end) &&
  (match c_deny cfg with Some l => forallb ip_ok l | None => true end) &&
  (c_key0 cfg <? 18446744073709551616) && (c_key1 cfg <? 18446744073709551616).

Record l4view := {
  v_v4 : bool;
  v_src : bytes;
  v_dst : bytes;
  v_proto : N;
  v_l4 : bytes
}.

Definition in_scope_ip (cfg : config) (src dst : ipaddr) (icmp6 : bool) : bool :=
  (match c_self cfg with Some l => ip_in dst l || icmp6 | None => true end) &&
  (match c_deny cfg with Some l => negb (ip_in src l) | None => true end).

Definition view (cfg : config) (f : bytes) : option l4view :=
  if (length f <? 14)%nat then None
  else if negb (auth_mac cfg (slice 0 6 f)) then None
  else
    let ety := u16_at 12 f in
    let p := skipn 14 f in
    if ety =? 2048 then
      if (length p <? 20)%nat then None
      else
        let src := slice 12 4 p in
        let dst := slice 16 4 p in
        if in_scope_ip cfg (V4 src) (V4 dst) false
        then Some {| v_v4 := true; v_src := src; v_dst := dst; v_proto := u8_at 9 p; v_l4 := ipv4_payload p |}
        else None
    else if ety =? 34525 then
      if (length p <? 40)%nat then None
      else
        let src := slice 8 16 p in
        let dst := slice 24 16 p in
        if in_scope_ip cfg (V6 src) (V6 dst) (u8_at 6 p =? 58)
        then Some {| v_v4 := false; v_src := src; v_dst := dst; v_proto := u8_at 6 p; v_l4 := ipv6_payload p |}
        else None
    else None.

Definition view_tcp (cfg : config) (f : bytes) : option l4view :=
  match view cfg f with
  | Some v => if (v_proto v =? 6) && (20 <=? length (v_l4 v))%nat then Some v else None
  | None => None
  end.

Definition view_udp (cfg : config) (f : bytes) : option l4view :=
  match view cfg f with
  | Some v => if (v_proto v =? 17) && (8 <=? length (v_l4 v))%nat then Some v else None
  | None => None
  end.
