(* Spec/C11uFrame.v -- frame-level vocabulary for C11: the data segments of ONE TCP flow fed
   to reply() one after the other, and what the emitted frames carry.  Definitions only. *)
From MS Require Export Bytes Types Proto L4 L2 Spec.RefDec Spec.View Spec.TcpRef Spec.AppView Spec.C11 Spec.C11u.

(* the frames of [fs] handed to reply() in order (each with the wall-clock reading of its
   arrival), threading the connection table; returns the final table and the emitted frames *)
Fixpoint flow_run (E : env) (cfg : config) (tb : table) (fs : list (clock * bytes))
  : res (table * list (option bytes)) :=
  match fs with
  | [] => Ok (tb, [])
  | (clk, f) :: t =>
    do x <- reply E cfg clk tb f;
    let '(tb', r, _) := x in
    do y <- flow_run E cfg tb' t;
    Ok (fst y, r :: snd y)
  end.

(* [tcp_stream] (Spec/C11.v) with a clock reading per segment *)
Fixpoint tcp_stream_c (E : env) (ci : cinfo) (tc : tcb) (segs : list (clock * bytes))
  : res (list (option bytes)) :=
  match segs with
  | [] => Ok []
  | (clk, s) :: rest =>
    do r <- proto_repl_tcp E clk ci tc s;
    let '(_, tc', out) := r in
    do outs <- tcp_stream_c E ci tc' rest;
    Ok (out :: outs)
  end.

Definition frame_payload (cfg : config) (f : bytes) : bytes :=
  match view_tcp cfg f with Some v => tcp_payload (v_l4 v) | None => [] end.

(* the control block of the flow with cookie [ck] in table [tb] (fresh if the flow is not there) *)
Definition flow_tcb (ck : N) (tb : table) : tcb :=
  match tbl_find ck tb with Some t => t | None => tcb_new end.

(* [f] is a data segment (PSH and ACK set, in scope) of the flow whose client information is
   [ci] and whose cookie is [ck] *)
Definition flow_frame (cfg : config) (ci : cinfo) (ck : N) (f : bytes) : Prop :=
  bytes_ok f = true /\
  exists v, view_tcp cfg f = Some v /\ is_data (tcp_flags (v_l4 v)) = true /\
            ctx_ci cfg (slice 6 6 f) (slice 0 6 f) (ctx_of true v) = ci /\
            flow_cookie cfg (flow_of v) = ck.

(* the flow is accepted when [f] arrives: it is already in the table, or [f] presents the cookie *)
Definition flow_accepts (cfg : config) (ck : N) (tb : table) (f : bytes) : Prop :=
  tbl_mem ck tb = true \/ exists v, view_tcp cfg f = Some v /\ presents_cookie cfg v = true.

(* the frame [r] emitted for the data segment [f] is a TCP segment that carries the application
   output [out]: payload and PSH|ACK, or no payload and a bare ACK; it acknowledges the bytes
   of [f] *)
Definition frame_carries (cfg : config) (f : bytes) (out : option bytes) (r : option bytes) : Prop :=
  exists v rf e i t,
    view_tcp cfg f = Some v /\ r = Some rf /\ dec_frame_tcp rf = Some (e, i, t) /\
    dt_payload t = match out with Some d => d | None => [] end /\
    dt_flags t = match out with Some _ => ACK + PSH | None => ACK end /\
    dt_seq t = u32_at 8 (v_l4 v) /\
    dt_ack t = wrap32 (u32_at 4 (v_l4 v) + lenN (tcp_payload (v_l4 v))).

Fixpoint frames_carry (cfg : config) (fs : list bytes) (outs rs : list (option bytes)) : Prop :=
  match fs, outs, rs with
  | [], [], [] => True
  | f :: fs', o :: outs', r :: rs' => frame_carries cfg f o r /\ frames_carry cfg fs' outs' rs'
  | _, _, _ => False
  end.

(* the reference reading of an HTTP flow with a clock reading per segment: the Date of a 401
   is the one read when the answering segment arrives *)
Fixpoint http_stream_ref_c_at (E : env) (acc : bytes) (segs : list (clock * bytes)) : list (option bytes) :=
  match segs with
  | [] => []
  | (clk, s) :: rest =>
    if http_answered (e_http_tbl E) (acc ++ s)
    then Some (http_401 E clk) :: http_stream_ref_c_at E [] rest
    else None :: http_stream_ref_c_at E (acc ++ s) rest
  end.
Definition http_stream_ref_c (E : env) (segs : list (clock * bytes)) : list (option bytes) :=
  http_stream_ref_c_at E [] segs.
