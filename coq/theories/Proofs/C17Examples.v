(* C17Examples.v -- non-vacuity of C17 on the data of the current implementation
   ([the_env]): the four captured requests of the repository's own tests
   (src/proto/smb.rs, mod tests) are classified by the reference readers, identified by
   the compiled matcher, answered by the model, and the answers satisfy the strict
   monitor; the facts about the two security blobs hold; the two former witnesses of the
   empty-security-blob defect (repaired in the implementation, commit 5dca3e9) are now
   answered correctly; the SMB 3.1.1 observation. *)
From MS Require Import Smb Proto Spec.RefSmb Spec.C17 Spec.AppView Instance Proofs.C17Lib.
Open Scope N_scope.

Definition x_smb1_req_negotiate : bytes :=
  [0; 0; 0; 84; 255; 83; 77; 66; 114; 0; 0; 0; 0; 24; 67; 200; 0; 0; 0; 0; 0; 0; 0; 0; 0; 0; 0; 0; 0; 0; 254; 255; 0; 0; 0; 0; 0; 49; 0; 2; 78; 84; 32; 76; 65; 78; 77; 65; 78; 32; 49; 46; 48; 0; 2; 78; 84; 32; 76; 77; 32; 48; 46; 49; 50; 0; 2; 83; 77; 66; 32; 50; 46; 48; 48; 50; 0; 2; 83; 77; 66; 32; 50; 46; 63; 63; 63; 0].

Definition x_smb1_req_session_setup : bytes :=
  [0; 0; 0; 156; 255; 83; 77; 66; 115; 0; 0; 0; 0; 24; 67; 200; 0; 0; 0; 0; 0; 0; 0; 0; 0; 0; 0; 0; 0; 0; 137; 84; 0; 0; 1; 0; 12; 255; 0; 0; 0; 255; 255; 2; 0; 1; 0; 0; 0; 0; 0; 74; 0; 0; 0; 0; 0; 84; 192; 0; 128; 97; 0; 96; 72; 6; 6; 43; 6; 1; 5; 5; 2; 160; 62; 48; 60; 160; 14; 48; 12; 6; 10; 43; 6; 1; 4; 1; 130; 55; 2; 2; 10; 162; 42; 4; 40; 78; 84; 76; 77; 83; 83; 80; 0; 1; 0; 0; 0; 21; 130; 8; 98; 0; 0; 0; 0; 40; 0; 0; 0; 0; 0; 0; 0; 40; 0; 0; 0; 6; 1; 0; 0; 0; 0; 0; 15; 0; 85; 0; 110; 0; 105; 0; 120; 0; 0; 0; 83; 0; 97; 0; 109; 0; 98; 0; 97; 0; 0; 0].

Definition x_smb2_req_negotiate : bytes :=
  [0; 0; 0; 208; 254; 83; 77; 66; 64; 0; 0; 0; 0; 0; 0; 0; 0; 0; 31; 0; 0; 0; 0; 0; 0; 0; 0; 0; 0; 0; 0; 0; 0; 0; 0; 0; 0; 0; 0; 0; 0; 0; 0; 0; 0; 0; 0; 0; 0; 0; 0; 0; 0; 0; 0; 0; 0; 0; 0; 0; 0; 0; 0; 0; 0; 0; 0; 0; 36; 0; 8; 0; 1; 0; 0; 0; 127; 0; 0; 0; 13; 114; 51; 151; 34; 99; 143; 65; 159; 224; 186; 119; 81; 135; 114; 98; 120; 0; 0; 0; 3; 0; 0; 0; 2; 2; 16; 2; 34; 2; 36; 2; 0; 3; 2; 3; 16; 3; 17; 3; 0; 0; 0; 0; 1; 0; 38; 0; 0; 0; 0; 0; 1; 0; 32; 0; 1; 0; 213; 90; 137; 135; 62; 128; 205; 2; 194; 171; 8; 163; 244; 148; 182; 65; 5; 17; 86; 238; 69; 25; 112; 25; 237; 23; 118; 218; 155; 8; 153; 86; 0; 0; 2; 0; 6; 0; 0; 0; 0; 0; 2; 0; 2; 0; 1; 0; 0; 0; 5; 0; 16; 0; 0; 0; 0; 0; 49; 0; 48; 0; 46; 0; 49; 0; 46; 0; 49; 0; 46; 0; 49; 0].

Definition x_smb2_req_session_setup : bytes :=
  [0; 0; 0; 162; 254; 83; 77; 66; 64; 0; 0; 0; 0; 0; 0; 0; 1; 0; 0; 32; 0; 0; 0; 0; 0; 0; 0; 0; 1; 0; 0; 0; 0; 0; 0; 0; 0; 0; 0; 0; 0; 0; 0; 0; 0; 0; 0; 0; 0; 0; 0; 0; 0; 0; 0; 0; 0; 0; 0; 0; 0; 0; 0; 0; 0; 0; 0; 0; 25; 0; 0; 1; 1; 0; 0; 0; 0; 0; 0; 0; 88; 0; 74; 0; 0; 0; 0; 0; 0; 0; 0; 0; 96; 72; 6; 6; 43; 6; 1; 5; 5; 2; 160; 62; 48; 60; 160; 14; 48; 12; 6; 10; 43; 6; 1; 4; 1; 130; 55; 2; 2; 10; 162; 42; 4; 40; 78; 84; 76; 77; 83; 83; 80; 0; 1; 0; 0; 0; 21; 130; 8; 98; 0; 0; 0; 0; 40; 0; 0; 0; 0; 0; 0; 0; 40; 0; 0; 0; 6; 1; 0; 0; 0; 0; 0; 15].

(* the former defect witnesses: the captured session setups with the security blob removed *)
Definition x_smb1_setup_empty : bytes :=
  [0; 0; 0; 82; 255; 83; 77; 66; 115; 0; 0; 0; 0; 24; 67; 200; 0; 0; 0; 0; 0; 0; 0; 0; 0; 0; 0; 0; 0; 0; 137; 84; 0; 0; 1; 0; 12; 255; 0; 0; 0; 255; 255; 2; 0; 1; 0; 0; 0; 0; 0; 0; 0; 0; 0; 0; 0; 84; 192; 0; 128; 23; 0; 0; 85; 0; 110; 0; 105; 0; 120; 0; 0; 0; 83; 0; 97; 0; 109; 0; 98; 0; 97; 0; 0; 0].
Definition x_smb2_setup_empty : bytes :=
  [0; 0; 0; 88; 254; 83; 77; 66; 64; 0; 0; 0; 0; 0; 0; 0; 1; 0; 0; 32; 0; 0; 0; 0; 0; 0; 0; 0; 1; 0; 0; 0; 0; 0; 0; 0; 0; 0; 0; 0; 0; 0; 0; 0; 0; 0; 0; 0; 0; 0; 0; 0; 0; 0; 0; 0; 0; 0; 0; 0; 0; 0; 0; 0; 0; 0; 0; 0; 25; 0; 0; 1; 1; 0; 0; 0; 0; 0; 0; 0; 88; 0; 0; 0; 0; 0; 0; 0; 0; 0; 0; 0].
(* an SMB2 negotiate offering only revision 0x0311 *)
Definition x_smb2_neg_311 : bytes :=
  [0; 0; 0; 102; 254; 83; 77; 66; 64; 0; 0; 0; 0; 0; 0; 0; 0; 0; 31; 0; 0; 0; 0; 0; 0; 0; 0; 0; 0; 0; 0; 0; 0; 0; 0; 0; 0; 0; 0; 0; 0; 0; 0; 0; 0; 0; 0; 0; 0; 0; 0; 0; 0; 0; 0; 0; 0; 0; 0; 0; 0; 0; 0; 0; 0; 0; 0; 0; 36; 0; 1; 0; 1; 0; 0; 0; 127; 0; 0; 0; 13; 114; 51; 151; 34; 99; 143; 65; 159; 224; 186; 119; 81; 135; 114; 98; 0; 0; 0; 0; 0; 0; 0; 0; 17; 3].

Definition x_ft : N := 132000000000000000.
Definition x_ctx : app_ctx :=
  {| a_v4 := true; a_tcp := true; a_src := [10; 0; 0; 9]; a_dst := [10; 0; 0; 1]; a_sport := 40000; a_dport := 445 |}.
Definition x_run1 (p : bytes) : option (option bytes) :=
  match smb1_repl (e_smb_neg the_env) (e_smb_chal the_env) x_ft p with Ok o => Some o | Panic _ => None end.
Definition x_run2 (p : bytes) : option (option bytes) :=
  match smb2_repl (e_smb_neg the_env) (e_smb_chal the_env) x_ft p with Ok o => Some o | Panic _ => None end.
Definition x_out (o : option (option bytes)) : option bytes := match o with Some (Some r) => Some r | _ => None end.

Lemma ex_blob_ok : blob_ok (e_smb_neg the_env) (e_smb_chal the_env) = true.
Proof. vm_compute. reflexivity. Qed.

(* the four requests are in the scope of the specification ... *)
Lemma ex_classified :
  (match classify x_smb1_req_negotiate with
   | Some (RqNeg1 h ds) => Some (sh1_pid_low h, sh1_mid h, length ds) | _ => None end) = Some (65534, 0, 4%nat) /\
  (match classify x_smb1_req_session_setup with
   | Some (RqSetup1 h q) => Some (sh1_pid_low h, sh1_mid h, lenN (sq1_blob q), lenN (sq1_strings q)) | _ => None end)
    = Some (21641, 1, 74, 23) /\
  (match classify x_smb2_req_negotiate with
   | Some (RqNeg2 h q) => Some (sh2_message_id h, nq2_dialects q) | _ => None end)
    = Some (0, [514; 528; 546; 548; 768; 770; 784; 785]) /\
  (match classify x_smb2_req_session_setup with
   | Some (RqSetup2 h q) => Some (sh2_message_id h, lenN (sq2_blob q), lenN (sq2_pad q)) | _ => None end)
    = Some (1, 74, 0).
Proof. vm_compute. repeat split. Qed.

(* ... identified by the compiled matcher over both transports ... *)
Lemma ex_identified :
  tcp_first_id the_env x_smb1_req_negotiate = Some PROTO_SMB1 /\
  udp_id the_env x_smb1_req_negotiate = Some PROTO_SMB1 /\
  tcp_first_id the_env x_smb1_req_session_setup = Some PROTO_SMB1 /\
  udp_id the_env x_smb1_req_session_setup = Some PROTO_SMB1 /\
  tcp_first_id the_env x_smb2_req_negotiate = Some PROTO_SMB2 /\
  udp_id the_env x_smb2_req_negotiate = Some PROTO_SMB2 /\
  tcp_first_id the_env x_smb2_req_session_setup = Some PROTO_SMB2 /\
  udp_id the_env x_smb2_req_session_setup = Some PROTO_SMB2.
Proof. vm_compute. repeat split. Qed.

(* ... and answered as the property requires (strict monitor); the decoded answers:
   SMB1 DialectIndex 1 = "NT LM 0.12", ByteCount 336 = 16 + 320; SMB1 session setup
   SecurityBlobLength 159, ByteCount 207; SMB2 DialectRevision 0x0202, offset 128, length
   320; SMB2 session setup offset 72, length 159 *)
Lemma ex_answers :
  app_ok_C17 x_ctx x_smb1_req_negotiate (x_out (x_run1 x_smb1_req_negotiate)) = true /\
  app_ok_C17 x_ctx x_smb1_req_session_setup (x_out (x_run1 x_smb1_req_session_setup)) = true /\
  app_ok_C17 x_ctx x_smb2_req_negotiate (x_out (x_run2 x_smb2_req_negotiate)) = true /\
  app_ok_C17 x_ctx x_smb2_req_session_setup (x_out (x_run2 x_smb2_req_session_setup)) = true /\
  (match x_out (x_run1 x_smb1_req_negotiate) with
   | Some r => match dec_smb1_reply r with
               | Some (_, b) => option_map (fun x => (nr1_dialect_index x, nr1_byte_count x, lenN (nr1_blob x))) (rd_neg1_resp b)
               | None => None end
   | None => None end) = Some (1, 336, 320) /\
  (match x_out (x_run1 x_smb1_req_session_setup) with
   | Some r => match dec_smb1_reply r with
               | Some (_, b) => option_map (fun x => (sr1_blob_length x, sr1_byte_count x, lenN (sr1_blob x))) (rd_setup1_resp b)
               | None => None end
   | None => None end) = Some (159, 207, 159) /\
  (match x_out (x_run2 x_smb2_req_negotiate) with
   | Some r => match dec_smb2_reply r with
               | Some (_, b) => option_map (fun x => (nr2_dialect x, nr2_buffer_offset x, nr2_buffer_length x, lenN (nr2_blob x))) (rd_neg2_resp b)
               | None => None end
   | None => None end) = Some (514, 128, 320, 320) /\
  (match x_out (x_run2 x_smb2_req_session_setup) with
   | Some r => match dec_smb2_reply r with
               | Some (_, b) => option_map (fun x => (sr2_buffer_offset x, sr2_buffer_length x, lenN (sr2_blob x))) (rd_setup2_resp b)
               | None => None end
   | None => None end) = Some (72, 159, 159).
Proof. vm_compute. repeat split. Qed.

(* the monitors are not trivially true: silence, or the answer to another request, is rejected *)
Lemma ex_monitor_rejects :
  app_ok_C17 x_ctx x_smb1_req_negotiate None = false /\
  app_ok_C17 x_ctx x_smb1_req_negotiate (x_out (x_run1 x_smb1_req_session_setup)) = false /\
  app_ok_C17 x_ctx x_smb2_req_negotiate (x_out (x_run2 x_smb2_req_session_setup)) = false /\
  app_ok_C17 x_ctx x_smb2_req_session_setup (x_out (x_run2 x_smb2_req_negotiate)) = false /\
  app_ok_C17 x_ctx x_smb2_req_session_setup None = false.
Proof. vm_compute. repeat split. Qed.

(* Session-Setup with an empty security blob (SecurityBlobLength / SecurityBufferLength 0):
   in scope, identified, and -- since the repair -- answered with the same response as
   any other session setup (the reply carries the implementation's challenge blob) *)
Example ex_empty_blob_answered :
  (match classify x_smb1_setup_empty with
   | Some (RqSetup1 h q) => Some (sh1_mid h, lenN (sq1_blob q), lenN (sq1_strings q)) | _ => None end) = Some (1, 0, 23) /\
  (match classify x_smb2_setup_empty with
   | Some (RqSetup2 h q) => Some (sh2_message_id h, lenN (sq2_blob q)) | _ => None end) = Some (1, 0) /\
  tcp_first_id the_env x_smb1_setup_empty = Some PROTO_SMB1 /\
  tcp_first_id the_env x_smb2_setup_empty = Some PROTO_SMB2 /\
  app_ok_C17 x_ctx x_smb1_setup_empty (x_out (x_run1 x_smb1_setup_empty)) = true /\
  app_ok_C17 x_ctx x_smb2_setup_empty (x_out (x_run2 x_smb2_setup_empty)) = true /\
  app_ok_C17 x_ctx x_smb1_setup_empty None = false /\
  app_ok_C17 x_ctx x_smb2_setup_empty None = false /\
  x_out (x_run1 x_smb1_setup_empty) = x_out (x_run1 x_smb1_req_session_setup) /\
  (match x_out (x_run2 x_smb2_setup_empty) with
   | Some r => match dec_smb2_reply r with
               | Some (_, b) => option_map (fun x => (sr2_buffer_offset x, sr2_buffer_length x, lenN (sr2_blob x))) (rd_setup2_resp b)
               | None => None end
   | None => None end) = Some (72, 159, 159).
Proof. vm_compute. repeat split. Qed.

(* observation (outside the three lengths / offsets the property lists): when only revision
   0x0311 is offered the reply selects it with NegotiateContextCount 1 and
   NegotiateContextOffset 0 although no negotiate context follows the security buffer *)
Lemma ex_smb311_contexts :
  (match x_out (x_run2 x_smb2_neg_311) with
   | Some r => match dec_smb2_reply r with
               | Some (_, b) =>
                 option_map (fun x => (nr2_dialect x, nr2_context_count x, nr2_context_offset x,
                                       nr2_buffer_offset x + nr2_buffer_length x - 128, lenN (nr2_tail x)))
                            (rd_neg2_resp b)
               | None => None end
   | None => None end) = Some (785, 1, 0, 320, 320) /\
  app_ok_C17 x_ctx x_smb2_neg_311 (x_out (x_run2 x_smb2_neg_311)) = true.
Proof. vm_compute. repeat split. Qed.
