(* Proto.v -- src/proto/mod.rs (dispatch) and src/proto/tcb.rs (connection table). *)
From MS Require Export Bytes Res Types Smack Http Ssh Ghost Stun Rpc Dns Smb.
(* the protocol identifiers are the ones of src/proto/mod.rs, read from the source text on every run (gen/SrcConsts.v):
   an internal renumbering is followed by the model, as it is by the dumped matcher tables *)
From MSgen Require SrcConsts.

Definition PROTO_NONE : N := SrcConsts.proto_mod__PROTO_NONE.
Definition PROTO_HTTP : N := SrcConsts.proto_mod__PROTO_HTTP.
Definition PROTO_STUN : N := SrcConsts.proto_mod__PROTO_STUN.
Definition PROTO_SSH : N := SrcConsts.proto_mod__PROTO_SSH.
Definition PROTO_GHOST : N := SrcConsts.proto_mod__PROTO_GHOST.
Definition PROTO_RPC_TCP : N := SrcConsts.proto_mod__PROTO_RPC_TCP.
Definition PROTO_RPC_UDP : N := SrcConsts.proto_mod__PROTO_RPC_UDP.
Definition PROTO_SMB1 : N := SrcConsts.proto_mod__PROTO_SMB1.
Definition PROTO_SMB2 : N := SrcConsts.proto_mod__PROTO_SMB2.
Definition NO_MATCH : N := 18446744073709551615.

(* data that comes from the implementation (regenerated on every run) *)
Record env := {
  e_proto_tbl : smack;
  e_http_tbl : smack;
  e_http_pre : bytes;
  e_http_post : bytes;
  e_ssh_banner : bytes;
  e_ghost : bytes;
  e_smb_neg : bytes;    (* SECURITY_BLOB_NEG_PROTO *)
  e_smb_chal : bytes    (* SECURITY_BLOB_CHALLENGE *)
}.

(* wall-clock inputs *)
Record clock := { clk_date : bytes; clk_filetime : N }.

Inductive pstate := PHttp (h : http_st) | PRpc (r : rpc_st).

(* [t_pending]: the bytes received while the protocol was not identified yet (bounded) *)
Record tcb := { t_smack : N; t_proto : N; t_pstate : option pstate; t_pending : bytes }.
Definition tcb_new : tcb :=
  {| t_smack := BASE_STATE; t_proto := PROTO_NONE; t_pstate := None; t_pending := [] |}.

(* upper bound of the bytes kept per TCP flow while its protocol is unknown *)
Definition PENDING_MAX : N := 64.

Definition table := list (N * tcb).

Fixpoint tbl_find (k : N) (t : table) : option tcb :=
  match t with
  | [] => None
  | (k', v) :: r => if k =? k' then Some v else tbl_find k r
  end.
Fixpoint tbl_set (k : N) (v : tcb) (t : table) : table :=
  match t with
  | [] => [(k, v)]
  | (k', v') :: r => if k =? k' then (k, v) :: r else (k', v') :: tbl_set k v r
  end.
Definition tbl_mem (k : N) (t : table) : bool :=
  match tbl_find k t with Some _ => true | None => false end.

Definition PANIC_HTTP_PSTATE : N := 102.
Definition PANIC_RPC_PSTATE : N := 103.

Definition id_of (o : option N) : N := match o with Some i => i | None => NO_MATCH end.

(* the handlers; [t] = Some for TCP. Returns the updated client info (STUN may
   shift the reply port), the updated control block, and the payload. *)
Definition dispatch (E : env) (clk : clock) (ci : cinfo) (id : N) (t : option tcb) (data : bytes)
  : res (cinfo * option tcb * option bytes) :=
  if id =? PROTO_HTTP then
    match t with
    | Some tc =>
      match (match t_pstate tc with
             | None => Ok http_new
             | Some (PHttp h) => Ok h
             | Some (PRpc _) => Panic PANIC_HTTP_PSTATE
             end) with
      | Panic s => Panic s
      | Ok h =>
        do hr <- http_repl (e_http_tbl E) (e_http_pre E) (e_http_post E) (clk_date clk) h data;
        let '(h', r) := hr in
        Ok (ci, Some {| t_smack := t_smack tc; t_proto := t_proto tc; t_pstate := Some (PHttp h');
                       t_pending := t_pending tc |}, r)
      end
    | None =>
      do hr <- http_repl (e_http_tbl E) (e_http_pre E) (e_http_post E) (clk_date clk) http_new data;
      Ok (ci, None, snd hr)
    end
  else if id =? PROTO_STUN then
    let '(ci', r) := stun_repl ci data in Ok (ci', t, r)
  else if id =? PROTO_SSH then Ok (ci, t, ssh_repl (e_ssh_banner E) data)
  else if id =? PROTO_GHOST then Ok (ci, t, ghost_repl (e_ghost E) data)
  else if id =? PROTO_RPC_TCP then
    match ci_ip_dst ci, ci_port_dst ci with
    | Some ip, Some port =>
      match t with
      | Some tc =>
        match (match t_pstate tc with
               | None => Ok (rpc_new R_FRAG)
               | Some (PRpc r) => Ok r
               | Some (PHttp _) => Panic PANIC_RPC_PSTATE
               end) with
        | Panic s => Panic s
        | Ok r0 =>
          let '(r', out) := rpc_repl_tcp r0 ip port data in
          Ok (ci, Some {| t_smack := t_smack tc; t_proto := t_proto tc; t_pstate := Some (PRpc r');
                       t_pending := t_pending tc |}, out)
        end
      | None => Ok (ci, None, snd (rpc_repl_tcp (rpc_new R_FRAG) ip port data))
      end
    | _, _ => Ok (ci, t, None)
    end
  else if id =? PROTO_RPC_UDP then
    match ci_ip_dst ci, ci_port_dst ci with
    | Some ip, Some port => Ok (ci, t, rpc_repl_udp ip port data)
    | _, _ => Ok (ci, t, None)
    end
  else if id =? PROTO_SMB1 then
    do r <- smb1_repl (e_smb_neg E) (e_smb_chal E) (clk_filetime clk) data; Ok (ci, t, r)
  else if id =? PROTO_SMB2 then
    do r <- smb2_repl (e_smb_neg E) (e_smb_chal E) (clk_filetime clk) data; Ok (ci, t, r)
  else
    Ok (ci, match t with
            | Some tc => Some {| t_smack := t_smack tc; t_proto := PROTO_NONE; t_pstate := t_pstate tc;
                                 t_pending := t_pending tc |}
            | None => None
            end, None).

(* proto::repl over TCP: identification is incremental and sticky.  While nothing is
   identified the bytes received are kept in [t_pending] (at most PENDING_MAX, else the
   buffer is dropped); the segment that completes a signature is handed to the handler
   joined to the kept bytes, so that the handler sees the stream from its first byte.
   [tcp_identify] is the first part of the TCP branch of proto::repl: the updated
   control block and the data the handler is given.  ([search_next] returning [None]
   is the implementation's NO_MATCH.) *)
Definition tcp_identify (E : env) (tc : tcb) (data : bytes) : tcb * bytes :=
  if t_proto tc =? PROTO_NONE then
    let '(id, st, _) := search_next (e_proto_tbl E) (t_smack tc) data in
    match id with
    | None =>
      ({| t_smack := st; t_proto := NO_MATCH; t_pstate := t_pstate tc;
          t_pending := if lenN (t_pending tc) + lenN data <=? PENDING_MAX
                       then t_pending tc ++ data else [] |}, data)
    | Some i =>
      ({| t_smack := st; t_proto := i; t_pstate := t_pstate tc; t_pending := [] |},
       match t_pending tc with
       | [] => data
       | _ :: _ => t_pending tc ++ data
       end)
    end
  else (tc, data).

Definition proto_repl_tcp (E : env) (clk : clock) (ci : cinfo) (tc : tcb) (data : bytes)
  : res (cinfo * tcb * option bytes) :=
  let '(tc1, data1) := tcp_identify E tc data in
  do r <- dispatch E clk ci (t_proto tc1) (Some tc1) data1;
  let '(ci', t', out) := r in
  Ok (ci', match t' with Some x => x | None => tc1 end, out).

(* proto::repl over UDP: one shot, end anchor, DNS fallback *)
Definition proto_repl_udp (E : env) (clk : clock) (ci : cinfo) (data : bytes)
  : res (cinfo * option bytes) :=
  let '(id, st, _) := search_next (e_proto_tbl E) BASE_STATE data in
  let id := match id with Some i => Some i | None => fst (search_next_end (e_proto_tbl E) st) end in
  match id with
  | None =>
    match dns_repl (ci_ip_dst ci) data with
    | Some r => Ok (ci, Some r)
    | None => Ok (ci, None)
    end
  | Some i =>
    do r <- dispatch E clk ci i None data;
    let '(ci', _, out) := r in Ok (ci', out)
  end.
