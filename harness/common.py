"""Shared paths and small helpers for the masscanned verification harness."""
import os, subprocess, sys, hashlib, json, time, fcntl

VERIF = os.path.dirname(os.path.dirname(os.path.abspath(__file__)))
REPO = os.environ.get("VERIF_REPO", "/repo")
CACHE = os.path.join(VERIF, ".cache")
COQ = os.path.join(VERIF, "coq")
GEN = os.path.join(COQ, "gen")
TARGET = os.path.join(CACHE, "target")
DRIVER_DEV = os.path.join(TARGET, "debug", "masscanned")
DRIVER_REL = os.path.join(TARGET, "release", "masscanned")
MODEL_RUN = os.path.join(CACHE, "ocaml", "model_run")
CLOCKSHIM = os.path.join(CACHE, "clockshim.so")
EVIDENCE = os.path.join(VERIF, "evidence")
CORPUS = os.path.join(VERIF, "corpus")
REPLAYS = os.path.join(CACHE, "replays")

ENV = dict(os.environ, CARGO_NET_OFFLINE="true")


def log(*a):
    print(*a, file=sys.stderr, flush=True)


def run(cmd, cwd=None, timeout=3600, env=None, check=True, capture=True):
    p = subprocess.run(cmd, cwd=cwd, timeout=timeout, env=env or ENV,
                       stdout=subprocess.PIPE if capture else None,
                       stderr=subprocess.STDOUT if capture else None,
                       text=True, shell=isinstance(cmd, str))
    if check and p.returncode != 0:
        raise RuntimeError("command failed (%s): %s\n%s" % (p.returncode, cmd, (p.stdout or "")[-4000:]))
    return p


class Lock:
    """Inter-process lock so concurrent checks share one build."""
    def __init__(self, name):
        os.makedirs(CACHE, exist_ok=True)
        self.path = os.path.join(CACHE, name + ".lock")
    def __enter__(self):
        self.f = open(self.path, "w")
        fcntl.flock(self.f, fcntl.LOCK_EX)
        return self
    def __exit__(self, *a):
        fcntl.flock(self.f, fcntl.LOCK_UN)
        self.f.close()


def write_if_changed(path, content):
    try:
        if open(path).read() == content:
            return False
    except FileNotFoundError:
        pass
    os.makedirs(os.path.dirname(path), exist_ok=True)
    with open(path + ".tmp", "w") as f:
        f.write(content)
    os.replace(path + ".tmp", path)
    return True


def repo_tree_hash():
    """Hash of the source files of /repo's working tree that the build depends on."""
    h = hashlib.sha256()
    files = []
    for root, dirs, fs in os.walk(os.path.join(REPO, "src")):
        dirs.sort()
        for f in sorted(fs):
            files.append(os.path.join(root, f))
    files += [os.path.join(REPO, "Cargo.toml"), os.path.join(REPO, "Cargo.lock")]
    for p in files:
        h.update(p.encode())
        with open(p, "rb") as f:
            h.update(f.read())
    return h.hexdigest()
