(* Factor.v -- complete factorisation of reply(): for every frame, what reply()
   returns (table and emitted frame; events dropped) is given by [reply_spec],
   which is phrased over the stack's view of the frame (Spec/View.v) and the
   transport responders of L4.v wrapped in the builders of Pipeline.v. Every
   frame-level theorem (C02-C05, C12, C19 ...) is proved against this form. *)
From MS Require Import Proofs.Tactics Proofs.Pipeline L2 Spec.View.

Definition seal_icmp4 (r : bytes) : bytes := set_cksum 2 r (checksum r).
Definition seal_icmp6 (v : l4view) (rsrc : bytes) (r : bytes) : bytes :=
  set_cksum 2 r (checksum_pseudo (v_src v) rsrc 58 r).

Definition l3_reply (E : env) (cfg : config) (clk : clock) (tb : table) (f : bytes) (v : l4view)
  : res (table * option bytes) :=
  let ci := l3_ci f v in
  let p := v_l4 v in
  if v_v4 v then
    if v_proto v =? 1 then
      if (length p <? 4)%nat then Ok (tb, None)
      else match icmpv4_repl ci p with
           | (Some r, _) => Ok (tb, Some (wrap_ip cfg f v (v_dst v) 64 (seal_icmp4 r)))
           | (None, _) => Ok (tb, None)
           end
    else if v_proto v =? 6 then
      if (length p <? 20)%nat then Ok (tb, None)
      else match tcp_repl E cfg clk tb ci p with
           | Ok (tb', _, Some r, _) => Ok (tb', Some (wrap_ip cfg f v (v_dst v) 64 (seal_tcp v r)))
           | Ok (tb', _, None, _) => Ok (tb', None)
           | Panic s => Panic s
           end
    else if v_proto v =? 17 then
      if (length p <? 8)%nat then Ok (tb, None)
      else match udp_repl E cfg clk ci p with
           | Ok (_, Some r, _) =>
             if 65535 <? lenN r then Panic PANIC_UDP_LEN
             else Ok (tb, Some (wrap_ip cfg f v (v_dst v) 64 (seal_udp v r)))
           | Ok (_, None, _) => Ok (tb, None)
           | Panic s => Panic s
           end
    else Ok (tb, None)
  else
    if v_proto v =? 58 then
      if (length p <? 4)%nat then Ok (tb, None)
      else match icmpv6_repl cfg ci p with
           | (Some r, tgt, _) =>
             let rsrc := match tgt with Some t => t | None => v_dst v end in
             Ok (tb, Some (wrap_ip cfg f v rsrc (if u8_at 0 r =? 136 then 255 else 64)
                                   (seal_icmp6 v rsrc r)))
           | (None, _, _) => Ok (tb, None)
           end
    else if v_proto v =? 6 then
      if (length p <? 20)%nat then Ok (tb, None)
      else match tcp_repl E cfg clk tb ci p with
           | Ok (tb', _, Some r, _) => Ok (tb', Some (wrap_ip cfg f v (v_dst v) 64 (seal_tcp v r)))
           | Ok (tb', _, None, _) => Ok (tb', None)
           | Panic s => Panic s
           end
    else if v_proto v =? 17 then
      if (length p <? 8)%nat then Ok (tb, None)
      else match udp_repl E cfg clk ci p with
           | Ok (_, Some r, _) => Ok (tb, Some (wrap_ip cfg f v (v_dst v) 64 (seal_udp v r)))
           | Ok (_, None, _) => Ok (tb, None)
           | Panic s => Panic s
           end
    else Ok (tb, None).

Definition reply_spec (E : env) (cfg : config) (clk : clock) (tb : table) (f : bytes)
  : res (table * option bytes) :=
  if (length f <? 14)%nat then Ok (tb, None)
  else if negb (auth_mac cfg (slice 0 6 f)) then Ok (tb, None)
  else if u16_at 12 f =? 2054 then
    if (length (skipn 14 f) <? 28)%nat then Ok (tb, None)
    else match arp_repl cfg (skipn 14 f) with
         | (Some r, _) => Ok (tb, Some (eth_frame (slice 6 6 f) (c_mac cfg) 2054 r))
         | (None, _) => Ok (tb, None)
         end
  else match view cfg f with
       | Some v => l3_reply E cfg clk tb f v
       | None => Ok (tb, None)
       end.

Lemma scope_v4_false cfg src dst :
  in_scope_ip cfg (V4 src) (V4 dst) false = false ->
  (match c_self cfg with Some l => negb (ip_in (V4 dst) l) | None => false end) = true \/
  ((match c_self cfg with Some l => negb (ip_in (V4 dst) l) | None => false end) = false /\
   (match c_deny cfg with Some l => ip_in (V4 src) l | None => false end) = true).
Proof.
  unfold in_scope_ip. intros H. apply andb_false_iff in H. destruct H as [H|H].
  - left. destruct (c_self cfg); [|discriminate]. rewrite orb_false_r in H. rewrite H. reflexivity.
  - destruct (match c_self cfg with Some l => negb (ip_in (V4 dst) l) | None => false end);
      [left; reflexivity|right; split; [reflexivity|]].
    destruct (c_deny cfg); [|discriminate]. apply negb_false_iff in H. exact H.
Qed.

Lemma scope_v6_false cfg src dst b :
  in_scope_ip cfg (V6 src) (V6 dst) b = false ->
  (match c_self cfg with Some l => negb (ip_in (V6 dst) l) && negb b | None => false end) = true \/
  ((match c_self cfg with Some l => negb (ip_in (V6 dst) l) && negb b | None => false end) = false /\
   (match c_deny cfg with Some l => ip_in (V6 src) l | None => false end) = true).
Proof.
  unfold in_scope_ip. intros H. apply andb_false_iff in H. destruct H as [H|H].
  - left. destruct (c_self cfg); [|discriminate].
    destruct (ip_in (V6 dst) l); cbn in *; [discriminate|]. rewrite H. reflexivity.
  - destruct (match c_self cfg with Some l => negb (ip_in (V6 dst) l) && negb b | None => false end);
      [left; reflexivity|right; split; [reflexivity|]].
    destruct (c_deny cfg); [|discriminate]. apply negb_false_iff in H. exact H.
Qed.

Theorem reply_factor E cfg clk tb f :
  strip (reply E cfg clk tb f) = reply_spec E cfg clk tb f.
Proof.
  unfold reply, reply_spec, eth_repl.
  destruct (length f <? 14)%nat eqn:Hlen; [reflexivity|].
  destruct (auth_mac cfg (slice 0 6 f)) eqn:Hauth; cbn [negb]; [|reflexivity].
  destruct (u16_at 12 f =? 2054) eqn:Ea.
  { destruct (length (skipn 14 f) <? 28)%nat; [reflexivity|].
    destruct (arp_repl cfg (skipn 14 f)) as [[x|] e]; [|reflexivity].
    cbn [strip]. apply N.eqb_eq in Ea. rewrite Ea. reflexivity. }
  unfold view. rewrite Hlen, Hauth. cbn [negb].
  destruct (u16_at 12 f =? 2048) eqn:E4.
  { destruct (length (skipn 14 f) <? 20)%nat; [reflexivity|].
    unfold ipv4_repl.
    destruct (in_scope_ip cfg (V4 (slice 12 4 (skipn 14 f))) (V4 (slice 16 4 (skipn 14 f))) false) eqn:Hs.
    - destruct (in_scope_v4 _ _ _ Hs) as [-> ->].
      unfold l3_reply, l3_ci, base_ci. cbn [v_v4 v_proto v_l4 v_src v_dst].
      apply N.eqb_eq in E4.
      destruct (u8_at 9 (skipn 14 f) =? 1) eqn:P1.
      { destruct (length (ipv4_payload (skipn 14 f)) <? 4)%nat; [reflexivity|].
        destruct (icmpv4_repl _ _) as [[x|] e]; [|reflexivity].
        cbn [strip]. unfold wrap_ip, seal_icmp4. cbn [v_v4 v_proto v_src v_dst].
        rewrite E4. reflexivity. }
      destruct (u8_at 9 (skipn 14 f) =? 6) eqn:P6.
      { destruct (length (ipv4_payload (skipn 14 f)) <? 20)%nat; [reflexivity|].
        destruct (tcp_repl _ _ _ _ _ _) as [[[[tb' ci'] [r|]] evs]|s]; cbn [bind strip]; try reflexivity.
        unfold wrap_ip, seal_tcp. cbn [v_v4 v_proto v_src v_dst]. rewrite E4. reflexivity. }
      destruct (u8_at 9 (skipn 14 f) =? 17) eqn:P17.
      { destruct (length (ipv4_payload (skipn 14 f)) <? 8)%nat; [reflexivity|].
        destruct (udp_repl _ _ _ _ _) as [[[ci' [r|]] evs]|s]; cbn [bind strip]; try reflexivity.
        destruct (65535 <? lenN r); [reflexivity|].
        cbn [strip]. unfold wrap_ip, seal_udp. cbn [v_v4 v_proto v_src v_dst]. rewrite E4. reflexivity. }
      reflexivity.
    - destruct (scope_v4_false _ _ _ Hs) as [-> | [-> ->]]; reflexivity. }
  destruct (u16_at 12 f =? 34525) eqn:E6; [|reflexivity].
  destruct (length (skipn 14 f) <? 40)%nat; [reflexivity|].
  unfold ipv6_repl.
  destruct (in_scope_ip cfg (V6 (slice 8 16 (skipn 14 f))) (V6 (slice 24 16 (skipn 14 f)))
                        (u8_at 6 (skipn 14 f) =? 58)) eqn:Hs.
  - destruct (in_scope_v6 _ _ _ _ Hs) as [-> ->].
    unfold l3_reply, l3_ci, base_ci. cbn [v_v4 v_proto v_l4 v_src v_dst].
    apply N.eqb_eq in E6.
    destruct (u8_at 6 (skipn 14 f) =? 58) eqn:P1.
    { destruct (length (ipv6_payload (skipn 14 f)) <? 4)%nat; [reflexivity|].
      destruct (icmpv6_repl _ _ _) as [[[x|] tgt] e]; [|reflexivity].
      cbn [strip]. unfold wrap_ip, seal_icmp6. cbn [v_v4 v_proto v_src v_dst].
      rewrite E6. reflexivity. }
    destruct (u8_at 6 (skipn 14 f) =? 6) eqn:P6.
    { destruct (length (ipv6_payload (skipn 14 f)) <? 20)%nat; [reflexivity|].
      destruct (tcp_repl _ _ _ _ _ _) as [[[[tb' ci'] [r|]] evs]|s]; cbn [bind strip]; try reflexivity.
      unfold wrap_ip, seal_tcp. cbn [v_v4 v_proto v_src v_dst]. rewrite E6. reflexivity. }
    destruct (u8_at 6 (skipn 14 f) =? 17) eqn:P17.
    { destruct (length (ipv6_payload (skipn 14 f)) <? 8)%nat; [reflexivity|].
      destruct (udp_repl _ _ _ _ _) as [[[ci' [r|]] evs]|s]; cbn [bind strip]; try reflexivity.
      unfold wrap_ip, seal_udp. cbn [v_v4 v_proto v_src v_dst]. rewrite E6. reflexivity. }
    reflexivity.
  - destruct (scope_v6_false _ _ _ _ Hs) as [-> | [-> ->]]; reflexivity.
Qed.

(* the convenient form: from an execution of reply() to the factorised value *)
Lemma reply_factor_ok E cfg clk tb f tb' r evs :
  reply E cfg clk tb f = Ok (tb', r, evs) -> reply_spec E cfg clk tb f = Ok (tb', r).
Proof. intros H. rewrite <- reply_factor, H. reflexivity. Qed.
