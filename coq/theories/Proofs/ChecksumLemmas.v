(* ChecksumLemmas.v -- algebra of the Internet checksum: folding, insertion of a
   computed checksum into a zeroed field, sums of concatenations, bounds. *)
From MS Require Import Proofs.Tactics Checksum L3.

(* ---------- folding ---------- *)
Lemma fold1_eq (s : N) : fold1 s + 65535 * (s / 65536) = s.
Proof. unfold fold1. lia. Qed.

Lemma fold16_lt (s : N) : s < 281474976710656 -> fold16 s < 65536.
Proof. intros H. unfold fold16, fold1. lia. Qed.

(* fold16 s = s (mod 65535), with the explicit quotient *)
Definition fold_quot (s : N) : N := s / 65536 + fold1 s / 65536 + fold1 (fold1 s) / 65536.

Lemma fold16_eq (s : N) : fold16 s + 65535 * fold_quot s = s.
Proof.
  unfold fold16, fold_quot.
  pose proof (fold1_eq s). pose proof (fold1_eq (fold1 s)). pose proof (fold1_eq (fold1 (fold1 s))).
  lia.
Qed.

Lemma fold16_mod (s : N) : s < 281474976710656 -> fold16 s mod 65535 = s mod 65535.
Proof. intros H. pose proof (fold16_eq s). pose proof (fold16_lt s H). lia. Qed.

Lemma fold16_zero (s : N) : fold16 s = 0 <-> s = 0.
Proof. unfold fold16, fold1. lia. Qed.

Lemma finalize_lt (s : N) : finalize s < 65536.
Proof. unfold finalize. lia. Qed.

(* a positive multiple of 65535 folds to 0xFFFF *)
Lemma verify_multiple (t k : N) :
  t < 281474976710656 -> t = 65535 * k -> 0 < t -> verify_sum t = true.
Proof.
  intros Hb Hk Hpos. unfold verify_sum. apply N.eqb_eq.
  pose proof (fold16_eq t) as He. pose proof (fold16_lt t Hb) as Hl.
  assert (fold16 t <> 0) as Hnz by (rewrite fold16_zero; lia).
  lia.
Qed.

(* inserting the computed checksum makes the receiver's sum fold to 0xFFFF *)
Lemma verify_finalize (s : N) :
  s < 1099511627776 -> verify_sum (s + finalize s) = true.
Proof.
  intros Hb. unfold finalize.
  pose proof (fold16_eq s) as He. pose proof (fold16_lt s ltac:(lia)) as Hl.
  apply (verify_multiple _ (fold_quot s + 1)); lia.
Qed.

(* the UDP/IPv6 special case: a computed 0 is transmitted as 0xFFFF *)
Lemma verify_udp6 (s : N) :
  s < 1099511627776 -> verify_sum (s + udp6_cksum (finalize s)) = true.
Proof.
  intros Hb. unfold udp6_cksum.
  destruct (finalize s =? 0) eqn:Hz.
  - apply N.eqb_eq in Hz. unfold finalize in Hz.
    pose proof (fold16_eq s) as He. pose proof (fold16_lt s ltac:(lia)) as Hl.
    apply (verify_multiple _ (fold_quot s + 2)); lia.
  - apply verify_finalize. exact Hb.
Qed.

Lemma udp6_cksum_lt (c : N) : c < 65536 -> udp6_cksum c < 65536.
Proof. intros H. unfold udp6_cksum. destruct (c =? 0); lia. Qed.

Lemma udp6_cksum_nz (c : N) : udp6_cksum c <> 0.
Proof. unfold udp6_cksum. destruct (c =? 0) eqn:H; lia. Qed.

(* ---------- sum_words ---------- *)
Lemma pair_ind (P : list N -> Prop) :
  P [] -> (forall a, P [a]) -> (forall a b t, P t -> P (a :: b :: t)) -> forall l, P l.
Proof.
  intros H0 H1 H2.
  assert (forall l, P l /\ forall a, P (a :: l)) as H.
  { induction l as [|x l [IH1 IH2]]; split; auto. }
  intros l. apply H.
Qed.

Lemma sum_words_cons2 (a b : N) (t : bytes) : sum_words (a :: b :: t) = a * 256 + b + sum_words t.
Proof. reflexivity. Qed.

Lemma even_length_ind (P : list N -> Prop) :
  P [] -> (forall a b t, Nat.even (length t) = true -> P t -> P (a :: b :: t)) ->
  forall l, Nat.even (length l) = true -> P l.
Proof.
  intros H0 H2 l. induction l as [| a | a b t IH] using pair_ind; intros He.
  - exact H0.
  - discriminate.
  - apply H2; [exact He | apply IH; exact He].
Qed.

Lemma sum_words_app (a b : bytes) :
  Nat.even (length a) = true -> sum_words (a ++ b) = sum_words a + sum_words b.
Proof.
  revert a. apply (even_length_ind (fun a => sum_words (a ++ b) = sum_words a + sum_words b)).
  - cbn [app sum_words]. lia.
  - intros x y t _ IH. cbn [app]. rewrite !sum_words_cons2, IH. lia.
Qed.

Lemma sum_words_le (l : bytes) : bytes_ok l = true -> sum_words l <= 65535 * lenN l.
Proof.
  induction l as [| a | a b t IH] using pair_ind; intros H.
  - cbn. lia.
  - cbn in H. unfold byte_ok in H. cbn [sum_words]. unfold lenN. cbn [length]. lia.
  - cbn [bytes_ok forallb] in H. unfold byte_ok in H at 1 2.
    apply andb_true_iff in H. destruct H as [Ha H]. apply andb_true_iff in H. destruct H as [Hb H].
    specialize (IH H). rewrite sum_words_cons2. unfold lenN in *. cbn [length]. lia.
Qed.

Lemma sum_words_be16 (c : N) : c < 65536 -> sum_words (be16 c) = c.
Proof. intros H. unfold be16. cbn [sum_words]. lia. Qed.

(* ---------- set_cksum on a packet whose checksum field is zero ---------- *)
Lemma firstn_length_app (a b : bytes) : firstn (length a) (a ++ b) = a.
Proof. induction a as [|x a IH]; cbn [length firstn app]; [destruct b; reflexivity | rewrite IH; reflexivity]. Qed.
Lemma skipn_length_app (a b : bytes) : skipn (length a) (a ++ b) = b.
Proof. induction a as [|x a IH]; cbn [length skipn app]; [reflexivity | exact IH]. Qed.

Lemma set_cksum_app (a b : bytes) (x y c : N) :
  set_cksum (length a) (a ++ x :: y :: b) c = a ++ be16 c ++ b.
Proof.
  unfold set_cksum. rewrite firstn_length_app. do 2 f_equal.
  replace (length a + 2)%nat with (length (a ++ [x; y])) by (rewrite app_length; reflexivity).
  replace (a ++ x :: y :: b) with ((a ++ [x; y]) ++ b) by (rewrite <- app_assoc; reflexivity).
  apply skipn_length_app.
Qed.

Lemma set_cksum_length (off : nat) (p : bytes) (c : N) :
  (off + 2 <= length p)%nat -> length (set_cksum off p c) = length p.
Proof.
  intros H. unfold set_cksum, be16. rewrite !app_length, firstn_length, skipn_length. cbn [length]. lia.
Qed.

Lemma sum_words_sealed (a b : bytes) (c : N) :
  Nat.even (length a) = true -> c < 65536 ->
  sum_words (set_cksum (length a) (a ++ [0; 0] ++ b) c) = sum_words (a ++ [0; 0] ++ b) + c.
Proof.
  intros He Hc. cbn [app]. rewrite set_cksum_app.
  rewrite (sum_words_app a (be16 c ++ b)), (sum_words_app a (0 :: 0 :: b)) by exact He.
  rewrite (sum_words_app (be16 c)) by reflexivity. rewrite sum_words_be16 by exact Hc.
  rewrite sum_words_cons2. lia.
Qed.

Lemma bytes_ok_unsealed (a b : bytes) (c : N) :
  bytes_ok (set_cksum (length a) (a ++ [0; 0] ++ b) c) = true -> bytes_ok (a ++ [0; 0] ++ b) = true.
Proof.
  cbn [app]. rewrite set_cksum_app. rewrite !bytes_ok_app. intros H.
  apply andb_true_iff in H. destruct H as [Ha H]. apply andb_true_iff in H. destruct H as [_ Hb].
  rewrite Ha. cbn [andb]. cbn [bytes_ok forallb]. exact Hb.
Qed.

(* The receiver's check on a sealed packet. [base] is the pseudo-header sum (0 for
   IPv4 headers and ICMPv4); [c] is what the sender computed, over the packet
   with a zero checksum field. *)
Lemma verify_sealed (base : N) (a b : bytes) (c : N) :
  let p := a ++ [0; 0] ++ b in
  Nat.even (length a) = true ->
  base + sum_words p < 1099511627776 ->
  c = finalize (base + sum_words p) \/ c = udp6_cksum (finalize (base + sum_words p)) ->
  verify_sum (base + sum_words (set_cksum (length a) p c)) = true.
Proof.
  intros p He Hb Hc.
  assert (c < 65536) as Hlt.
  { destruct Hc as [-> | ->]; [apply finalize_lt | apply udp6_cksum_lt, finalize_lt]. }
  subst p. rewrite sum_words_sealed by assumption. rewrite N.add_assoc.
  destruct Hc as [-> | ->]; [apply verify_finalize | apply verify_udp6]; exact Hb.
Qed.
