(* Spec/C10Known.v -- C10: the committed KNOWN points K0 at which the compiled
   protocol matcher and the published signature set part (see Spec/C10.v).

   Each entry is (reference state, set of symbols): reference state = (number of
   bytes read, live signatures); symbols = bytes ([k_neg]: all bytes BUT the listed
   ones) and/or the end of the datagram.  A payload is in the known class D0 when
   the reference run over it passes through one of these points; everything after
   such a point is unconstrained.  K0 mentions reference states only: it does not
   depend on the table.  It was computed from the table of the current
   implementation by a product exploration with the rule "cut where the matcher
   falls into its dead row while a signature is still live, or where the verdicts
   differ"; that it is SUFFICIENT is what [product_ok the_table K0] checks on every
   run, and that every entry is NEEDED for the current table is
   [k0_needed] below, decided in Proofs/C10Current.v.

   Cause, in src/smack/smack.rs: the compiled automaton is a plain trie over the
   pattern bytes, '*' included as an ordinary byte; [fixup_wildcards] then
   redirects, in the row of a '*' position, only the columns that fall back to the
   unanchored state.  A byte that is the literal continuation of ANOTHER signature
   at that node keeps its own transition, so the walk leaves the wildcard signature
   for good: the matcher follows one trie path, the signature set needs several.

   Families:

   K0_shadow (71 points) -- an ONC-RPC call (patterns 15/16 start with 8 / 4
     wildcards: fragment header and xid) whose leading bytes start like another
     signature and then leave it.  The point is the byte that leaves the literal
     signature(s) while RPC_TCP / RPC_UDP stay live: first byte G P H D C O T S or
     00 followed by a byte that does not continue "GET /", "Gh0st", "PUT /" ...;
     "GE" followed by a byte other than 'T'; ... up to "CONNECT " / "OPTIONS "
     followed by 00.  E.g. the RPC/UDP call with xid 47 00 00 01 ("G...") is not
     identified (the reference says RPC_UDP).  Also 00 00 * * followed by a byte
     other than fe/ff (SMB left, RPC live), and 00 00 * * ff/fe 'S' 'M' left early.
   K0_rpc (4 points) -- RPC_UDP shadows RPC_TCP: after 4 bytes the trie prefers the
     literal 00 of the UDP pattern to the wildcard of the TCP pattern; an RPC/TCP
     record whose xid starts with 00 and is not all zero (bytes 5..7), or is all zero
     (then the walk leaves at byte 13, where UDP wants 01 and TCP 00), is not identified.
   K0_stun (15 points) -- 00 01 00 is a trie node with children 00 (3489 request
     without attribute) and 08 (with CHANGE-REQUEST); the magic-cookie pattern
     00 01 * * 21 12 a4 42 and the RPC patterns are lost there:
     - 00 01 00 x, x not 00/08: magic-cookie requests with such a length (and RPC
       calls with that xid / record mark) are not identified;
     - 00 01 00 00|08 21 12 a4 42: the reference identifies STUN at byte 8, the
       matcher only at the end of a datagram of exactly 20 (28) bytes: a cookie
       request of another total length is not identified, and over TCP never;
     - 00 01 * * followed by bytes that leave the cookie while RPC stays live;
     - after 20 (20..27) bytes of the end-anchored layouts a further byte kills the
       matcher while RPC_TCP (RPC_UDP at 20/21 with byte 00) is still live.
   K0_end (2 points) -- [fixup_wildcards] also redirects the END column: when the
     LAST position of a pattern is a wildcard, the end of the datagram is taken for
     that wildcard: a 23-byte datagram equal to the first 23 bytes of an RPC/UDP
     call is identified as RPC_UDP, a 27-byte one as RPC_TCP (the reference: none). *)
From MS Require Export Spec.RefSig Spec.C10.

Definition K0_shadow : known := [
  ((1%nat, [I_GET; I_GHOST; I_RPC_TCP; I_RPC_UDP]), {| k_end := false; k_neg := true; k_bytes := [69; 104]; k_dead := true |});
  ((1%nat, [I_PUT; I_POST; I_PATCH; I_RPC_TCP; I_RPC_UDP]), {| k_end := false; k_neg := true; k_bytes := [65; 79; 85]; k_dead := true |});
  ((1%nat, [I_HEAD; I_RPC_TCP; I_RPC_UDP]), {| k_end := false; k_neg := true; k_bytes := [69]; k_dead := true |});
  ((1%nat, [I_DELETE; I_RPC_TCP; I_RPC_UDP]), {| k_end := false; k_neg := true; k_bytes := [69]; k_dead := true |});
  ((1%nat, [I_CONNECT; I_RPC_TCP; I_RPC_UDP]), {| k_end := false; k_neg := true; k_bytes := [79]; k_dead := true |});
  ((1%nat, [I_OPTIONS; I_RPC_TCP; I_RPC_UDP]), {| k_end := false; k_neg := true; k_bytes := [80]; k_dead := true |});
  ((1%nat, [I_TRACE; I_RPC_TCP; I_RPC_UDP]), {| k_end := false; k_neg := true; k_bytes := [82]; k_dead := true |});
  ((1%nat, [I_STUN_MAGIC; I_STUN_EMPTY; I_STUN_CHANGE; I_RPC_TCP; I_RPC_UDP; I_SMB1; I_SMB2]), {| k_end := false; k_neg := true; k_bytes := [0; 1]; k_dead := true |});
  ((1%nat, [I_SSH2; I_SSH1; I_RPC_TCP; I_RPC_UDP]), {| k_end := false; k_neg := true; k_bytes := [83]; k_dead := true |});
  ((2%nat, [I_GET; I_RPC_TCP; I_RPC_UDP]), {| k_end := false; k_neg := true; k_bytes := [84]; k_dead := true |});
  ((2%nat, [I_PUT; I_RPC_TCP; I_RPC_UDP]), {| k_end := false; k_neg := true; k_bytes := [84]; k_dead := true |});
  ((2%nat, [I_POST; I_RPC_TCP; I_RPC_UDP]), {| k_end := false; k_neg := true; k_bytes := [83]; k_dead := true |});
  ((2%nat, [I_HEAD; I_RPC_TCP; I_RPC_UDP]), {| k_end := false; k_neg := true; k_bytes := [65]; k_dead := true |});
  ((2%nat, [I_DELETE; I_RPC_TCP; I_RPC_UDP]), {| k_end := false; k_neg := true; k_bytes := [76]; k_dead := true |});
  ((2%nat, [I_CONNECT; I_RPC_TCP; I_RPC_UDP]), {| k_end := false; k_neg := true; k_bytes := [78]; k_dead := true |});
  ((2%nat, [I_OPTIONS; I_RPC_TCP; I_RPC_UDP]), {| k_end := false; k_neg := true; k_bytes := [84]; k_dead := true |});
  ((2%nat, [I_TRACE; I_RPC_TCP; I_RPC_UDP]), {| k_end := false; k_neg := true; k_bytes := [65]; k_dead := true |});
  ((2%nat, [I_PATCH; I_RPC_TCP; I_RPC_UDP]), {| k_end := false; k_neg := true; k_bytes := [84]; k_dead := true |});
  ((2%nat, [I_SSH2; I_SSH1; I_RPC_TCP; I_RPC_UDP]), {| k_end := false; k_neg := true; k_bytes := [72]; k_dead := true |});
  ((2%nat, [I_GHOST; I_RPC_TCP; I_RPC_UDP]), {| k_end := false; k_neg := true; k_bytes := [48]; k_dead := true |});
  ((3%nat, [I_GET; I_RPC_TCP; I_RPC_UDP]), {| k_end := false; k_neg := true; k_bytes := [32]; k_dead := true |});
  ((3%nat, [I_PUT; I_RPC_TCP; I_RPC_UDP]), {| k_end := false; k_neg := true; k_bytes := [32]; k_dead := true |});
  ((3%nat, [I_POST; I_RPC_TCP; I_RPC_UDP]), {| k_end := false; k_neg := true; k_bytes := [84]; k_dead := true |});
  ((3%nat, [I_HEAD; I_RPC_TCP; I_RPC_UDP]), {| k_end := false; k_neg := true; k_bytes := [68]; k_dead := true |});
  ((3%nat, [I_DELETE; I_RPC_TCP; I_RPC_UDP]), {| k_end := false; k_neg := true; k_bytes := [69]; k_dead := true |});
  ((3%nat, [I_CONNECT; I_RPC_TCP; I_RPC_UDP]), {| k_end := false; k_neg := true; k_bytes := [78]; k_dead := true |});
  ((3%nat, [I_OPTIONS; I_RPC_TCP; I_RPC_UDP]), {| k_end := false; k_neg := true; k_bytes := [73]; k_dead := true |});
  ((3%nat, [I_TRACE; I_RPC_TCP; I_RPC_UDP]), {| k_end := false; k_neg := true; k_bytes := [67]; k_dead := true |});
  ((3%nat, [I_PATCH; I_RPC_TCP; I_RPC_UDP]), {| k_end := false; k_neg := true; k_bytes := [67]; k_dead := true |});
  ((3%nat, [I_SSH2; I_SSH1; I_RPC_TCP; I_RPC_UDP]), {| k_end := false; k_neg := true; k_bytes := [45]; k_dead := true |});
  ((3%nat, [I_GHOST; I_RPC_TCP; I_RPC_UDP]), {| k_end := false; k_neg := true; k_bytes := [115]; k_dead := true |});
  ((4%nat, [I_GET; I_RPC_TCP; I_RPC_UDP]), {| k_end := false; k_neg := true; k_bytes := [47]; k_dead := true |});
  ((4%nat, [I_PUT; I_RPC_TCP; I_RPC_UDP]), {| k_end := false; k_neg := true; k_bytes := [47]; k_dead := true |});
  ((4%nat, [I_POST; I_RPC_TCP; I_RPC_UDP]), {| k_end := false; k_neg := true; k_bytes := [32]; k_dead := true |});
  ((4%nat, [I_HEAD; I_RPC_TCP; I_RPC_UDP]), {| k_end := false; k_neg := true; k_bytes := [32]; k_dead := true |});
  ((4%nat, [I_DELETE; I_RPC_TCP; I_RPC_UDP]), {| k_end := false; k_neg := true; k_bytes := [84]; k_dead := true |});
  ((4%nat, [I_CONNECT; I_RPC_TCP; I_RPC_UDP]), {| k_end := false; k_neg := true; k_bytes := [69]; k_dead := true |});
  ((4%nat, [I_OPTIONS; I_RPC_TCP; I_RPC_UDP]), {| k_end := false; k_neg := true; k_bytes := [79]; k_dead := true |});
  ((4%nat, [I_TRACE; I_RPC_TCP; I_RPC_UDP]), {| k_end := false; k_neg := true; k_bytes := [69]; k_dead := true |});
  ((4%nat, [I_PATCH; I_RPC_TCP; I_RPC_UDP]), {| k_end := false; k_neg := true; k_bytes := [72]; k_dead := true |});
  ((4%nat, [I_SSH2; I_SSH1; I_RPC_TCP; I_RPC_UDP]), {| k_end := false; k_neg := true; k_bytes := [49; 50]; k_dead := true |});
  ((4%nat, [I_GHOST; I_RPC_TCP; I_RPC_UDP]), {| k_end := false; k_neg := true; k_bytes := [116]; k_dead := true |});
  ((4%nat, [I_RPC_TCP; I_RPC_UDP; I_SMB1; I_SMB2]), {| k_end := false; k_neg := true; k_bytes := [254; 255]; k_dead := true |});
  ((5%nat, [I_POST; I_RPC_TCP]), {| k_end := false; k_neg := true; k_bytes := [47]; k_dead := true |});
  ((5%nat, [I_HEAD; I_RPC_TCP]), {| k_end := false; k_neg := true; k_bytes := [47]; k_dead := true |});
  ((5%nat, [I_DELETE; I_RPC_TCP]), {| k_end := false; k_neg := true; k_bytes := [69]; k_dead := true |});
  ((5%nat, [I_CONNECT; I_RPC_TCP]), {| k_end := false; k_neg := true; k_bytes := [67]; k_dead := true |});
  ((5%nat, [I_OPTIONS; I_RPC_TCP]), {| k_end := false; k_neg := true; k_bytes := [78]; k_dead := true |});
  ((5%nat, [I_TRACE; I_RPC_TCP]), {| k_end := false; k_neg := true; k_bytes := [32]; k_dead := true |});
  ((5%nat, [I_PATCH; I_RPC_TCP]), {| k_end := false; k_neg := true; k_bytes := [32]; k_dead := true |});
  ((5%nat, [I_SSH2; I_RPC_TCP]), {| k_end := false; k_neg := true; k_bytes := [46]; k_dead := true |});
  ((5%nat, [I_SSH1; I_RPC_TCP]), {| k_end := false; k_neg := true; k_bytes := [46]; k_dead := true |});
  ((5%nat, [I_RPC_TCP; I_SMB1]), {| k_end := false; k_neg := true; k_bytes := [83]; k_dead := true |});
  ((5%nat, [I_RPC_TCP; I_SMB2]), {| k_end := false; k_neg := true; k_bytes := [83]; k_dead := true |});
  ((6%nat, [I_DELETE; I_RPC_TCP]), {| k_end := false; k_neg := true; k_bytes := [32]; k_dead := true |});
  ((6%nat, [I_CONNECT; I_RPC_TCP]), {| k_end := false; k_neg := true; k_bytes := [84]; k_dead := true |});
  ((6%nat, [I_OPTIONS; I_RPC_TCP]), {| k_end := false; k_neg := true; k_bytes := [83]; k_dead := true |});
  ((6%nat, [I_TRACE; I_RPC_TCP]), {| k_end := false; k_neg := true; k_bytes := [47]; k_dead := true |});
  ((6%nat, [I_PATCH; I_RPC_TCP]), {| k_end := false; k_neg := true; k_bytes := [47]; k_dead := true |});
  ((6%nat, [I_SSH2; I_RPC_TCP]), {| k_end := false; k_neg := true; k_bytes := [48]; k_dead := true |});
  ((6%nat, [I_SSH1; I_RPC_TCP]), {| k_end := false; k_neg := true; k_bytes := [57]; k_dead := true |});
  ((6%nat, [I_RPC_TCP; I_SMB1]), {| k_end := false; k_neg := true; k_bytes := [77]; k_dead := true |});
  ((6%nat, [I_RPC_TCP; I_SMB2]), {| k_end := false; k_neg := true; k_bytes := [77]; k_dead := true |});
  ((7%nat, [I_DELETE; I_RPC_TCP]), {| k_end := false; k_neg := true; k_bytes := [47]; k_dead := true |});
  ((7%nat, [I_CONNECT; I_RPC_TCP]), {| k_end := false; k_neg := true; k_bytes := [32]; k_dead := true |});
  ((7%nat, [I_OPTIONS; I_RPC_TCP]), {| k_end := false; k_neg := true; k_bytes := [32]; k_dead := true |});
  ((7%nat, [I_SSH1; I_RPC_TCP]), {| k_end := false; k_neg := true; k_bytes := [57]; k_dead := true |});
  ((7%nat, [I_RPC_TCP; I_SMB1]), {| k_end := false; k_neg := true; k_bytes := [66]; k_dead := true |});
  ((7%nat, [I_RPC_TCP; I_SMB2]), {| k_end := false; k_neg := true; k_bytes := [66]; k_dead := true |});
  ((8%nat, [I_CONNECT; I_RPC_TCP]), {| k_end := false; k_neg := false; k_bytes := [0]; k_dead := true |});
  ((8%nat, [I_OPTIONS; I_RPC_TCP]), {| k_end := false; k_neg := false; k_bytes := [0]; k_dead := true |})
].

Definition K0_rpc : known := [
  ((5%nat, [I_RPC_TCP; I_RPC_UDP]), {| k_end := false; k_neg := true; k_bytes := [0]; k_dead := true |});
  ((6%nat, [I_RPC_TCP; I_RPC_UDP]), {| k_end := false; k_neg := true; k_bytes := [0]; k_dead := true |});
  ((7%nat, [I_RPC_TCP; I_RPC_UDP]), {| k_end := false; k_neg := true; k_bytes := [0]; k_dead := true |});
  ((13%nat, [I_RPC_TCP; I_RPC_UDP]), {| k_end := false; k_neg := false; k_bytes := [0]; k_dead := true |})
].

Definition K0_stun : known := [
  ((3%nat, [I_STUN_MAGIC; I_STUN_EMPTY; I_STUN_CHANGE; I_RPC_TCP; I_RPC_UDP]), {| k_end := false; k_neg := true; k_bytes := [0; 8]; k_dead := true |});
  ((4%nat, [I_STUN_MAGIC; I_RPC_TCP; I_RPC_UDP]), {| k_end := false; k_neg := true; k_bytes := [33]; k_dead := true |});
  ((5%nat, [I_STUN_MAGIC; I_RPC_TCP]), {| k_end := false; k_neg := true; k_bytes := [18]; k_dead := true |});
  ((6%nat, [I_STUN_MAGIC; I_RPC_TCP]), {| k_end := false; k_neg := true; k_bytes := [164]; k_dead := true |});
  ((7%nat, [I_STUN_MAGIC; I_STUN_EMPTY; I_RPC_TCP]), {| k_end := false; k_neg := false; k_bytes := [66]; k_dead := false |});
  ((7%nat, [I_STUN_MAGIC; I_STUN_CHANGE; I_RPC_TCP]), {| k_end := false; k_neg := false; k_bytes := [66]; k_dead := false |});
  ((7%nat, [I_STUN_MAGIC; I_RPC_TCP]), {| k_end := false; k_neg := true; k_bytes := [66]; k_dead := true |});
  ((20%nat, [I_STUN_EMPTY; I_RPC_TCP]), {| k_end := false; k_neg := true; k_bytes := []; k_dead := true |});
  ((20%nat, [I_STUN_EMPTY; I_RPC_UDP]), {| k_end := false; k_neg := false; k_bytes := [0]; k_dead := true |});
  ((20%nat, [I_STUN_CHANGE; I_RPC_TCP]), {| k_end := false; k_neg := true; k_bytes := [0]; k_dead := true |});
  ((21%nat, [I_STUN_CHANGE; I_RPC_TCP]), {| k_end := false; k_neg := true; k_bytes := [3]; k_dead := true |});
  ((21%nat, [I_STUN_CHANGE; I_RPC_UDP]), {| k_end := false; k_neg := false; k_bytes := [0]; k_dead := true |});
  ((22%nat, [I_STUN_CHANGE; I_RPC_TCP]), {| k_end := false; k_neg := true; k_bytes := [0]; k_dead := true |});
  ((23%nat, [I_STUN_CHANGE; I_RPC_TCP]), {| k_end := false; k_neg := true; k_bytes := [4]; k_dead := true |});
  ((27%nat, [I_STUN_CHANGE; I_RPC_TCP]), {| k_end := false; k_neg := true; k_bytes := []; k_dead := false |})
].

Definition K0_end : known := [
  ((23%nat, [I_RPC_UDP]), {| k_end := true; k_neg := false; k_bytes := []; k_dead := false |});
  ((27%nat, [I_RPC_TCP]), {| k_end := true; k_neg := false; k_bytes := []; k_dead := false |})
].

Definition K0 : known := K0_shadow ++ K0_rpc ++ K0_stun ++ K0_end.

(* every point of K0 is needed for the current implementation: one payload per
   entry of K0 (same order) whose reference run meets that entry FIRST, and on
   which the table of the current implementation and the reference differ
   (checked by [k0_needed] on the current table, Proofs/C10Current.v) *)
Definition K0_witnesses : list bytes := [
  [71; 90; 90; 90; 0; 0; 0; 0; 0; 0; 0; 90; 0; 1; 134; 90; 90; 90; 90; 90; 0; 0; 0; 90];
  [80; 90; 90; 90; 0; 0; 0; 0; 0; 0; 0; 90; 0; 1; 134; 90; 90; 90; 90; 90; 0; 0; 0; 90];
  [72; 90; 90; 90; 0; 0; 0; 0; 0; 0; 0; 90; 0; 1; 134; 90; 90; 90; 90; 90; 0; 0; 0; 90];
  [68; 90; 90; 90; 0; 0; 0; 0; 0; 0; 0; 90; 0; 1; 134; 90; 90; 90; 90; 90; 0; 0; 0; 90];
  [67; 90; 90; 90; 0; 0; 0; 0; 0; 0; 0; 90; 0; 1; 134; 90; 90; 90; 90; 90; 0; 0; 0; 90];
  [79; 90; 90; 90; 0; 0; 0; 0; 0; 0; 0; 90; 0; 1; 134; 90; 90; 90; 90; 90; 0; 0; 0; 90];
  [84; 90; 90; 90; 0; 0; 0; 0; 0; 0; 0; 90; 0; 1; 134; 90; 90; 90; 90; 90; 0; 0; 0; 90];
  [0; 90; 90; 90; 0; 0; 0; 0; 0; 0; 0; 90; 0; 1; 134; 90; 90; 90; 90; 90; 0; 0; 0; 90];
  [83; 90; 90; 90; 0; 0; 0; 0; 0; 0; 0; 90; 0; 1; 134; 90; 90; 90; 90; 90; 0; 0; 0; 90];
  [71; 69; 90; 90; 0; 0; 0; 0; 0; 0; 0; 90; 0; 1; 134; 90; 90; 90; 90; 90; 0; 0; 0; 90];
  [80; 85; 90; 90; 0; 0; 0; 0; 0; 0; 0; 90; 0; 1; 134; 90; 90; 90; 90; 90; 0; 0; 0; 90];
  [80; 79; 90; 90; 0; 0; 0; 0; 0; 0; 0; 90; 0; 1; 134; 90; 90; 90; 90; 90; 0; 0; 0; 90];
  [72; 69; 90; 90; 0; 0; 0; 0; 0; 0; 0; 90; 0; 1; 134; 90; 90; 90; 90; 90; 0; 0; 0; 90];
  [68; 69; 90; 90; 0; 0; 0; 0; 0; 0; 0; 90; 0; 1; 134; 90; 90; 90; 90; 90; 0; 0; 0; 90];
  [67; 79; 90; 90; 0; 0; 0; 0; 0; 0; 0; 90; 0; 1; 134; 90; 90; 90; 90; 90; 0; 0; 0; 90];
  [79; 80; 90; 90; 0; 0; 0; 0; 0; 0; 0; 90; 0; 1; 134; 90; 90; 90; 90; 90; 0; 0; 0; 90];
  [84; 82; 90; 90; 0; 0; 0; 0; 0; 0; 0; 90; 0; 1; 134; 90; 90; 90; 90; 90; 0; 0; 0; 90];
  [80; 65; 90; 90; 0; 0; 0; 0; 0; 0; 0; 90; 0; 1; 134; 90; 90; 90; 90; 90; 0; 0; 0; 90];
  [83; 83; 90; 90; 0; 0; 0; 0; 0; 0; 0; 90; 0; 1; 134; 90; 90; 90; 90; 90; 0; 0; 0; 90];
  [71; 104; 90; 90; 0; 0; 0; 0; 0; 0; 0; 90; 0; 1; 134; 90; 90; 90; 90; 90; 0; 0; 0; 90];
  [71; 69; 84; 90; 0; 0; 0; 0; 0; 0; 0; 90; 0; 1; 134; 90; 90; 90; 90; 90; 0; 0; 0; 90];
  [80; 85; 84; 90; 0; 0; 0; 0; 0; 0; 0; 90; 0; 1; 134; 90; 90; 90; 90; 90; 0; 0; 0; 90];
  [80; 79; 83; 90; 0; 0; 0; 0; 0; 0; 0; 90; 0; 1; 134; 90; 90; 90; 90; 90; 0; 0; 0; 90];
  [72; 69; 65; 90; 0; 0; 0; 0; 0; 0; 0; 90; 0; 1; 134; 90; 90; 90; 90; 90; 0; 0; 0; 90];
  [68; 69; 76; 90; 0; 0; 0; 0; 0; 0; 0; 90; 0; 1; 134; 90; 90; 90; 90; 90; 0; 0; 0; 90];
  [67; 79; 78; 90; 0; 0; 0; 0; 0; 0; 0; 90; 0; 1; 134; 90; 90; 90; 90; 90; 0; 0; 0; 90];
  [79; 80; 84; 90; 0; 0; 0; 0; 0; 0; 0; 90; 0; 1; 134; 90; 90; 90; 90; 90; 0; 0; 0; 90];
  [84; 82; 65; 90; 0; 0; 0; 0; 0; 0; 0; 90; 0; 1; 134; 90; 90; 90; 90; 90; 0; 0; 0; 90];
  [80; 65; 84; 90; 0; 0; 0; 0; 0; 0; 0; 90; 0; 1; 134; 90; 90; 90; 90; 90; 0; 0; 0; 90];
  [83; 83; 72; 90; 0; 0; 0; 0; 0; 0; 0; 90; 0; 1; 134; 90; 90; 90; 90; 90; 0; 0; 0; 90];
  [71; 104; 48; 90; 0; 0; 0; 0; 0; 0; 0; 90; 0; 1; 134; 90; 90; 90; 90; 90; 0; 0; 0; 90];
  [71; 69; 84; 32; 90; 90; 90; 90; 0; 0; 0; 0; 0; 0; 0; 90; 0; 1; 134; 90; 90; 90; 90; 90; 0; 0; 0; 90];
  [80; 85; 84; 32; 90; 90; 90; 90; 0; 0; 0; 0; 0; 0; 0; 90; 0; 1; 134; 90; 90; 90; 90; 90; 0; 0; 0; 90];
  [80; 79; 83; 84; 90; 90; 90; 90; 0; 0; 0; 0; 0; 0; 0; 90; 0; 1; 134; 90; 90; 90; 90; 90; 0; 0; 0; 90];
  [72; 69; 65; 68; 90; 90; 90; 90; 0; 0; 0; 0; 0; 0; 0; 90; 0; 1; 134; 90; 90; 90; 90; 90; 0; 0; 0; 90];
  [68; 69; 76; 69; 90; 90; 90; 90; 0; 0; 0; 0; 0; 0; 0; 90; 0; 1; 134; 90; 90; 90; 90; 90; 0; 0; 0; 90];
  [67; 79; 78; 78; 90; 90; 90; 90; 0; 0; 0; 0; 0; 0; 0; 90; 0; 1; 134; 90; 90; 90; 90; 90; 0; 0; 0; 90];
  [79; 80; 84; 73; 90; 90; 90; 90; 0; 0; 0; 0; 0; 0; 0; 90; 0; 1; 134; 90; 90; 90; 90; 90; 0; 0; 0; 90];
  [84; 82; 65; 67; 90; 90; 90; 90; 0; 0; 0; 0; 0; 0; 0; 90; 0; 1; 134; 90; 90; 90; 90; 90; 0; 0; 0; 90];
  [80; 65; 84; 67; 90; 90; 90; 90; 0; 0; 0; 0; 0; 0; 0; 90; 0; 1; 134; 90; 90; 90; 90; 90; 0; 0; 0; 90];
  [83; 83; 72; 45; 90; 90; 90; 90; 0; 0; 0; 0; 0; 0; 0; 90; 0; 1; 134; 90; 90; 90; 90; 90; 0; 0; 0; 90];
  [71; 104; 48; 115; 90; 90; 90; 90; 0; 0; 0; 0; 0; 0; 0; 90; 0; 1; 134; 90; 90; 90; 90; 90; 0; 0; 0; 90];
  [0; 0; 0; 0; 90; 90; 90; 90; 0; 0; 0; 0; 0; 0; 0; 90; 0; 1; 134; 90; 90; 90; 90; 90; 0; 0; 0; 90];
  [80; 79; 83; 84; 32; 90; 90; 90; 0; 0; 0; 0; 0; 0; 0; 90; 0; 1; 134; 90; 90; 90; 90; 90; 0; 0; 0; 90];
  [72; 69; 65; 68; 32; 90; 90; 90; 0; 0; 0; 0; 0; 0; 0; 90; 0; 1; 134; 90; 90; 90; 90; 90; 0; 0; 0; 90];
  [68; 69; 76; 69; 84; 90; 90; 90; 0; 0; 0; 0; 0; 0; 0; 90; 0; 1; 134; 90; 90; 90; 90; 90; 0; 0; 0; 90];
  [67; 79; 78; 78; 69; 90; 90; 90; 0; 0; 0; 0; 0; 0; 0; 90; 0; 1; 134; 90; 90; 90; 90; 90; 0; 0; 0; 90];
  [79; 80; 84; 73; 79; 90; 90; 90; 0; 0; 0; 0; 0; 0; 0; 90; 0; 1; 134; 90; 90; 90; 90; 90; 0; 0; 0; 90];
  [84; 82; 65; 67; 69; 90; 90; 90; 0; 0; 0; 0; 0; 0; 0; 90; 0; 1; 134; 90; 90; 90; 90; 90; 0; 0; 0; 90];
  [80; 65; 84; 67; 72; 90; 90; 90; 0; 0; 0; 0; 0; 0; 0; 90; 0; 1; 134; 90; 90; 90; 90; 90; 0; 0; 0; 90];
  [83; 83; 72; 45; 50; 90; 90; 90; 0; 0; 0; 0; 0; 0; 0; 90; 0; 1; 134; 90; 90; 90; 90; 90; 0; 0; 0; 90];
  [83; 83; 72; 45; 49; 90; 90; 90; 0; 0; 0; 0; 0; 0; 0; 90; 0; 1; 134; 90; 90; 90; 90; 90; 0; 0; 0; 90];
  [0; 0; 0; 0; 255; 90; 90; 90; 0; 0; 0; 0; 0; 0; 0; 90; 0; 1; 134; 90; 90; 90; 90; 90; 0; 0; 0; 90];
  [0; 0; 0; 0; 254; 90; 90; 90; 0; 0; 0; 0; 0; 0; 0; 90; 0; 1; 134; 90; 90; 90; 90; 90; 0; 0; 0; 90];
  [68; 69; 76; 69; 84; 69; 90; 90; 0; 0; 0; 0; 0; 0; 0; 90; 0; 1; 134; 90; 90; 90; 90; 90; 0; 0; 0; 90];
  [67; 79; 78; 78; 69; 67; 90; 90; 0; 0; 0; 0; 0; 0; 0; 90; 0; 1; 134; 90; 90; 90; 90; 90; 0; 0; 0; 90];
  [79; 80; 84; 73; 79; 78; 90; 90; 0; 0; 0; 0; 0; 0; 0; 90; 0; 1; 134; 90; 90; 90; 90; 90; 0; 0; 0; 90];
  [84; 82; 65; 67; 69; 32; 90; 90; 0; 0; 0; 0; 0; 0; 0; 90; 0; 1; 134; 90; 90; 90; 90; 90; 0; 0; 0; 90];
  [80; 65; 84; 67; 72; 32; 90; 90; 0; 0; 0; 0; 0; 0; 0; 90; 0; 1; 134; 90; 90; 90; 90; 90; 0; 0; 0; 90];
  [83; 83; 72; 45; 50; 46; 90; 90; 0; 0; 0; 0; 0; 0; 0; 90; 0; 1; 134; 90; 90; 90; 90; 90; 0; 0; 0; 90];
  [83; 83; 72; 45; 49; 46; 90; 90; 0; 0; 0; 0; 0; 0; 0; 90; 0; 1; 134; 90; 90; 90; 90; 90; 0; 0; 0; 90];
  [0; 0; 0; 0; 255; 83; 90; 90; 0; 0; 0; 0; 0; 0; 0; 90; 0; 1; 134; 90; 90; 90; 90; 90; 0; 0; 0; 90];
  [0; 0; 0; 0; 254; 83; 90; 90; 0; 0; 0; 0; 0; 0; 0; 90; 0; 1; 134; 90; 90; 90; 90; 90; 0; 0; 0; 90];
  [68; 69; 76; 69; 84; 69; 32; 90; 0; 0; 0; 0; 0; 0; 0; 90; 0; 1; 134; 90; 90; 90; 90; 90; 0; 0; 0; 90];
  [67; 79; 78; 78; 69; 67; 84; 90; 0; 0; 0; 0; 0; 0; 0; 90; 0; 1; 134; 90; 90; 90; 90; 90; 0; 0; 0; 90];
  [79; 80; 84; 73; 79; 78; 83; 90; 0; 0; 0; 0; 0; 0; 0; 90; 0; 1; 134; 90; 90; 90; 90; 90; 0; 0; 0; 90];
  [83; 83; 72; 45; 49; 46; 57; 90; 0; 0; 0; 0; 0; 0; 0; 90; 0; 1; 134; 90; 90; 90; 90; 90; 0; 0; 0; 90];
  [0; 0; 0; 0; 255; 83; 77; 90; 0; 0; 0; 0; 0; 0; 0; 90; 0; 1; 134; 90; 90; 90; 90; 90; 0; 0; 0; 90];
  [0; 0; 0; 0; 254; 83; 77; 90; 0; 0; 0; 0; 0; 0; 0; 90; 0; 1; 134; 90; 90; 90; 90; 90; 0; 0; 0; 90];
  [67; 79; 78; 78; 69; 67; 84; 32; 0; 0; 0; 0; 0; 0; 0; 90; 0; 1; 134; 90; 90; 90; 90; 90; 0; 0; 0; 90];
  [79; 80; 84; 73; 79; 78; 83; 32; 0; 0; 0; 0; 0; 0; 0; 90; 0; 1; 134; 90; 90; 90; 90; 90; 0; 0; 0; 90];
  [1; 0; 0; 0; 0; 90; 90; 90; 0; 0; 0; 0; 0; 0; 0; 90; 0; 1; 134; 90; 90; 90; 90; 90; 0; 0; 0; 90];
  [1; 0; 0; 0; 0; 0; 90; 90; 0; 0; 0; 0; 0; 0; 0; 90; 0; 1; 134; 90; 90; 90; 90; 90; 0; 0; 0; 90];
  [1; 0; 0; 0; 0; 0; 0; 90; 0; 0; 0; 0; 0; 0; 0; 90; 0; 1; 134; 90; 90; 90; 90; 90; 0; 0; 0; 90];
  [1; 0; 0; 0; 0; 0; 0; 0; 0; 0; 0; 0; 0; 0; 0; 90; 0; 1; 134; 90; 90; 90; 90; 90; 0; 0; 0; 90];
  [0; 1; 0; 90; 33; 18; 164; 66];
  [0; 1; 1; 0; 90; 90; 90; 90; 0; 0; 0; 0; 0; 0; 0; 90; 0; 1; 134; 90; 90; 90; 90; 90; 0; 0; 0; 90];
  [0; 1; 1; 0; 33; 90; 90; 90; 0; 0; 0; 0; 0; 0; 0; 90; 0; 1; 134; 90; 90; 90; 90; 90; 0; 0; 0; 90];
  [0; 1; 1; 0; 33; 18; 90; 90; 0; 0; 0; 0; 0; 0; 0; 90; 0; 1; 134; 90; 90; 90; 90; 90; 0; 0; 0; 90];
  [0; 1; 0; 0; 33; 18; 164; 66];
  [0; 1; 0; 8; 33; 18; 164; 66];
  [0; 1; 1; 0; 33; 18; 164; 90; 0; 0; 0; 0; 0; 0; 0; 90; 0; 1; 134; 90; 90; 90; 90; 90; 0; 0; 0; 90];
  [0; 1; 0; 0; 0; 0; 0; 0; 0; 0; 0; 0; 0; 0; 0; 0; 0; 1; 134; 0; 90; 90; 90; 90; 0; 0; 0; 90];
  [0; 1; 0; 0; 0; 0; 0; 0; 0; 0; 0; 0; 0; 1; 134; 0; 0; 0; 0; 0; 0; 0; 0; 90];
  [0; 1; 0; 8; 0; 0; 0; 0; 0; 0; 0; 0; 0; 0; 0; 0; 0; 1; 134; 0; 90; 90; 90; 90; 0; 0; 0; 90];
  [0; 1; 0; 8; 0; 0; 0; 0; 0; 0; 0; 0; 0; 0; 0; 0; 0; 1; 134; 0; 0; 90; 90; 90; 0; 0; 0; 90];
  [0; 1; 0; 8; 0; 0; 0; 0; 0; 0; 0; 0; 0; 1; 134; 0; 0; 0; 0; 0; 0; 0; 0; 90];
  [0; 1; 0; 8; 0; 0; 0; 0; 0; 0; 0; 0; 0; 0; 0; 0; 0; 1; 134; 0; 0; 3; 90; 90; 0; 0; 0; 90];
  [0; 1; 0; 8; 0; 0; 0; 0; 0; 0; 0; 0; 0; 0; 0; 0; 0; 1; 134; 0; 0; 3; 0; 90; 0; 0; 0; 90];
  [0; 1; 0; 8; 0; 0; 0; 0; 0; 0; 0; 0; 0; 0; 0; 0; 0; 1; 134; 0; 0; 3; 0; 4; 0; 0; 0; 90];
  [1; 0; 0; 0; 0; 0; 0; 0; 0; 0; 0; 0; 0; 1; 134; 0; 0; 0; 0; 0; 0; 0; 0];
  [1; 0; 0; 0; 1; 0; 0; 0; 0; 0; 0; 0; 0; 0; 0; 0; 0; 1; 134; 0; 0; 0; 0; 0; 0; 0; 0]
].

Definition k0_entry_hit (e : rstate * kset) (w : bytes) : bool :=
  match d0_first K0 true r_init w with
  | Some (s, x) => rs_eqb s (fst e) && (if x =? 256 then k_end (snd e) else kset_mem (snd e) x)
  | None => false
  end.
Definition k0_needed (t : smack) : bool :=
  (length K0 =? length K0_witnesses)%nat &&
  forallb (fun ew : (rstate * kset) * bytes =>
             let '(e, w) := ew in
             bytes_ok w && k0_entry_hit e w &&
             (negb (oN_eqb (udp_id_tbl t w) (ref_udp w)) || negb (oN_eqb (tcp_first_id_tbl t w) (ref_tcp w))))
          (combine K0 K0_witnesses).

(* the known class, on application payloads *)
Definition c10_class_payload (tcp : bool) (p : bytes) : bool :=
  if tcp then D0x_tcp K0 p else D0x_udp K0 p.
(* the coarser class: the reference run passes a known point *)
Definition c10_class_payload_coarse (tcp : bool) (p : bytes) : bool :=
  if tcp then D0_tcp K0 p else D0_udp K0 p.
