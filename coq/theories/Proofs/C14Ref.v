(* C14Ref.v -- the reference DNS codec (Spec/RefDns.v) is coherent: a serialised
   well-formed message reads back (with any bytes after it), every strict prefix
   of it is classified as truncated, and conversely whatever the reader accepts
   is the serialisation of a well-formed message. Nothing of the model here. *)
From MS Require Import Proofs.Tactics Spec.RefDns.

(* ---- small facts ---- *)
Lemma to_nat_lenN (l : bytes) : N.to_nat (lenN l) = length l.
Proof. unfold lenN. apply Nat2N.id. Qed.

Lemma to_nat_cnt {A} (l : list A) : N.to_nat (cnt l) = length l.
Proof. unfold cnt. apply Nat2N.id. Qed.

Lemma firstn_len_app {A} (a b : list A) : firstn (length a) (a ++ b) = a.
Proof. rewrite firstn_app, Nat.sub_diag, firstn_all. cbn. apply app_nil_r. Qed.

Lemma skipn_len_app {A} (a b : list A) : skipn (length a) (a ++ b) = b.
Proof. rewrite skipn_app, Nat.sub_diag, skipn_all. reflexivity. Qed.

Lemma firstn_app_lt {A} (k : nat) (a b : list A) : (k <= length a)%nat -> firstn k (a ++ b) = firstn k a.
Proof.
  intros H. rewrite firstn_app. replace (k - length a)%nat with 0%nat by lia. cbn. apply app_nil_r.
Qed.

Lemma firstn_app_ge {A} (k : nat) (a b : list A) :
  (length a <= k)%nat -> firstn k (a ++ b) = a ++ firstn (k - length a) b.
Proof. intros H. rewrite firstn_app, firstn_all2 by lia. reflexivity. Qed.

Lemma be16_split (x : N) : x < 65536 -> ((x / 256) mod 256) * 256 + x mod 256 = x.
Proof. intros H. lia. Qed.

Lemma be16_pair (a b : N) : a < 256 -> b < 256 -> be16 (a * 256 + b) = [a; b].
Proof. intros Ha Hb. unfold be16. f_equal; [|f_equal]; lia. Qed.

Lemma be32_split (x : N) : x < 4294967296 ->
  ((x / 16777216) mod 256) * 16777216 + ((x / 65536) mod 256) * 65536 + ((x / 256) mod 256) * 256 + x mod 256 = x.
Proof. intros H. lia. Qed.

Lemma be32_quad (a b c d : N) : a < 256 -> b < 256 -> c < 256 -> d < 256 ->
  be32 (a * 16777216 + b * 65536 + c * 256 + d) = [a; b; c; d].
Proof. intros Ha Hb Hc Hd. unfold be32. repeat f_equal; lia. Qed.

Lemma bytes_ok_cons (x : N) (l : bytes) : bytes_ok (x :: l) = true <-> x < 256 /\ bytes_ok l = true.
Proof.
  unfold bytes_ok. cbn [forallb]. unfold byte_ok. rewrite andb_true_iff. split; intros [H1 H2]; split; try assumption; lia.
Qed.

(* ---- names ---- *)
Lemma dec_name_unfold (fuel : nat) (budget : N) (l : bytes) :
  dec_name fuel budget l =
  match l with
  | [] => Short
  | n :: t =>
    if n =? 0 then Done [] t
    else if 64 <=? n then Bad
    else if budget <? n + 2 then Bad
    else if lenN t <? n then Short
    else
      match fuel with
      | O => Bad
      | S fuel' =>
        match dec_name fuel' (budget - (n + 1)) (skipn (N.to_nat n) t) with
        | Done ls r => Done (firstn (N.to_nat n) t :: ls) r
        | Short => Short
        | Bad => Bad
        end
      end
  end.
Proof. destruct fuel; reflexivity. Qed.

Lemma label_wf_inv (l : label) : label_wf l = true -> 1 <= lenN l /\ lenN l <= 63 /\ bytes_ok l = true.
Proof. unfold label_wf. intros H. apply andb_true_iff in H. destruct H as [H H3]. split; [lia|split; [lia|exact H3]]. Qed.

Lemma name_len_pos (nm : dname) : 1 <= name_len nm.
Proof. destruct nm; cbn [name_len]; lia. Qed.

Lemma name_len_labels (nm : dname) :
  forallb label_wf nm = true -> N.of_nat (2 * length nm + 1) <= name_len nm.
Proof.
  induction nm as [|l ls IH]; cbn [forallb name_len length]; intros H.
  - lia.
  - apply andb_true_iff in H. destruct H as [Hl Hls]. apply label_wf_inv in Hl. specialize (IH Hls). lia.
Qed.

Lemma ser_name_length (nm : dname) : N.of_nat (length (ser_name nm)) = name_len nm.
Proof.
  induction nm as [|l ls IH]; cbn [ser_name name_len length].
  - reflexivity.
  - rewrite app_length. unfold lenN. lia.
Qed.

Lemma dec_name_ser (nm : dname) : forall fuel budget tail,
  forallb label_wf nm = true -> name_len nm <= budget -> (length nm <= fuel)%nat ->
  dec_name fuel budget (ser_name nm ++ tail) = Done nm tail.
Proof.
  induction nm as [|l ls IH]; intros fuel budget tail Hwf Hlen Hfuel; rewrite dec_name_unfold.
  - cbn [ser_name app]. reflexivity.
  - cbn [forallb] in Hwf. apply andb_true_iff in Hwf. destruct Hwf as [Hl Hls].
    apply label_wf_inv in Hl. destruct Hl as (H1 & H63 & _).
    cbn [name_len] in Hlen. pose proof (name_len_pos ls) as Hp.
    cbn [ser_name app]. rewrite <- app_assoc.
    destruct (lenN l =? 0) eqn:E0; [lia|].
    destruct (64 <=? lenN l) eqn:E64; [lia|].
    destruct (budget <? lenN l + 2) eqn:Eb; [lia|].
    destruct (lenN (l ++ ser_name ls ++ tail) <? lenN l) eqn:El; [rewrite lenN_app in El; lia|].
    cbn [length] in Hfuel. destruct fuel as [|fuel]; [lia|].
    rewrite to_nat_lenN, skipn_len_app, firstn_len_app.
    rewrite IH by (try assumption; lia). reflexivity.
Qed.

Lemma dec_name_prefix (nm : dname) : forall fuel budget k,
  forallb label_wf nm = true -> name_len nm <= budget -> (length nm <= fuel)%nat ->
  (k < length (ser_name nm))%nat ->
  dec_name fuel budget (firstn k (ser_name nm)) = Short.
Proof.
  induction nm as [|l ls IH]; intros fuel budget k Hwf Hlen Hfuel Hk; rewrite dec_name_unfold.
  - cbn [ser_name length] in Hk. replace k with 0%nat by lia. reflexivity.
  - cbn [forallb] in Hwf. apply andb_true_iff in Hwf. destruct Hwf as [Hl Hls].
    apply label_wf_inv in Hl. destruct Hl as (H1 & H63 & _).
    cbn [name_len] in Hlen. pose proof (name_len_pos ls) as Hp.
    cbn [ser_name] in Hk |- *. destruct k as [|k]; [reflexivity|].
    cbn [firstn]. cbn [length] in Hk. rewrite app_length in Hk.
    destruct (lenN l =? 0) eqn:E0; [lia|].
    destruct (64 <=? lenN l) eqn:E64; [lia|].
    destruct (budget <? lenN l + 2) eqn:Eb; [lia|].
    destruct (Nat.lt_ge_cases k (length l)) as [Hkl | Hkl].
    + rewrite firstn_app_lt by lia.
      destruct (lenN (firstn k l) <? lenN l) eqn:El; [reflexivity|].
      unfold lenN in El. rewrite firstn_length in El. lia.
    + rewrite firstn_app_ge by lia.
      destruct (lenN (l ++ firstn (k - length l) (ser_name ls)) <? lenN l) eqn:El; [rewrite lenN_app in El; lia|].
      cbn [length] in Hfuel. destruct fuel as [|fuel]; [lia|].
      rewrite to_nat_lenN, skipn_len_app.
      rewrite IH by (try assumption; lia). reflexivity.
Qed.

Lemma dec_name_sound (fuel : nat) : forall budget l nm r,
  bytes_ok l = true -> 1 <= budget -> dec_name fuel budget l = Done nm r ->
  l = ser_name nm ++ r /\ forallb label_wf nm = true /\ name_len nm <= budget.
Proof.
  induction fuel as [|fuel IH]; intros budget l nm r Hok Hb; rewrite dec_name_unfold;
    (destruct l as [|n t]; [discriminate|]);
    apply bytes_ok_cons in Hok; destruct Hok as [Hn Ht];
    (destruct (n =? 0) eqn:E0;
     [intros X; inversion X; subst; assert (n = 0) as -> by lia; cbn [ser_name app forallb name_len]; repeat split; lia|]);
    (destruct (64 <=? n) eqn:E64; [discriminate|]);
    (destruct (budget <? n + 2) eqn:Eb; [discriminate|]);
    (destruct (lenN t <? n) eqn:El; [discriminate|]).
  - discriminate.
  - destruct (dec_name fuel (budget - (n + 1)) (skipn (N.to_nat n) t)) as [ls r'| |] eqn:Hrec; try discriminate.
    intros X; inversion X; subst nm r'; clear X.
    apply IH in Hrec; [|apply bytes_ok_skipn; exact Ht|lia].
    destruct Hrec as (Hsk & Hwf & Hlen).
    assert (length (firstn (N.to_nat n) t) = N.to_nat n) as Hfl.
    { rewrite firstn_length. unfold lenN in El. lia. }
    assert (lenN (firstn (N.to_nat n) t) = n) as HlN by (unfold lenN; rewrite Hfl; lia).
    split; [|split].
    + cbn [ser_name app]. rewrite HlN. f_equal. rewrite <- app_assoc, <- Hsk. symmetry. apply firstn_skipn.
    + cbn [forallb]. rewrite Hwf. unfold label_wf. rewrite HlN, (bytes_ok_firstn _ _ Ht).
      replace (1 <=? n) with true by lia. replace (n <=? 63) with true by lia. reflexivity.
    + cbn [name_len]. rewrite HlN. lia.
Qed.

Lemma name_wf_inv (nm : dname) : name_wf nm = true -> forallb label_wf nm = true /\ name_len nm <= 255 /\ (length nm <= 128)%nat.
Proof.
  unfold name_wf. intros H. apply andb_true_iff in H. destruct H as [H1 H2].
  pose proof (name_len_labels nm H1). repeat split; [assumption|lia|lia].
Qed.

Lemma dec_name_top_ser (nm : dname) (tail : bytes) :
  name_wf nm = true -> dec_name_top (ser_name nm ++ tail) = Done nm tail.
Proof. intros H. apply name_wf_inv in H. destruct H as (H1 & H2 & H3). apply dec_name_ser; assumption. Qed.

Lemma dec_name_top_prefix (nm : dname) (k : nat) :
  name_wf nm = true -> (k < length (ser_name nm))%nat -> dec_name_top (firstn k (ser_name nm)) = Short.
Proof. intros H Hk. apply name_wf_inv in H. destruct H as (H1 & H2 & H3). apply dec_name_prefix; assumption. Qed.

Lemma dec_name_top_sound (l : bytes) (nm : dname) (r : bytes) :
  bytes_ok l = true -> dec_name_top l = Done nm r -> l = ser_name nm ++ r /\ name_wf nm = true.
Proof.
  intros Hok H. apply dec_name_sound in H; [|exact Hok|lia]. destruct H as (H1 & H2 & H3).
  split; [exact H1|]. unfold name_wf. rewrite H2. cbn [andb]. lia.
Qed.

(* a prefix of [a ++ b]: either a strict prefix of [a], or [a] and a prefix of [b] *)
Lemma firstn_app_cases {A} (k : nat) (a b : list A) :
  ((k < length a)%nat /\ firstn k (a ++ b) = firstn k a) \/
  ((length a <= k)%nat /\ firstn k (a ++ b) = a ++ firstn (k - length a) b).
Proof.
  destruct (Nat.lt_ge_cases k (length a)) as [H | H].
  - left. split; [exact H|]. apply firstn_app_lt. lia.
  - right. split; [exact H|]. apply firstn_app_ge. exact H.
Qed.

(* ---- questions ---- *)
Lemma question_wf_inv (q : dquestion) : question_wf q = true -> name_wf (qn q) = true /\ qt q < 65536 /\ qc q < 65536.
Proof. unfold question_wf. intros H. apply andb_true_iff in H. destruct H as [H H3]. apply andb_true_iff in H. destruct H as [H1 H2]. repeat split; [assumption|lia|lia]. Qed.

Lemma dec_question_ser (q : dquestion) (tail : bytes) :
  question_wf q = true -> dec_question (ser_dq q ++ tail) = Done q tail.
Proof.
  intros H. apply question_wf_inv in H. destruct H as (Hn & Ht & Hc).
  unfold dec_question, ser_dq. rewrite <- app_assoc, dec_name_top_ser by exact Hn.
  unfold be16. cbn [app]. rewrite !be16_split by assumption. destruct q; reflexivity.
Qed.

Lemma short_list4 (j : nat) (a b c d : N) (A : Type) (f : N -> N -> N -> N -> bytes -> pres A) :
  (j < 4)%nat ->
  match firstn j [a; b; c; d] with
  | t1 :: t2 :: c1 :: c2 :: rest => f t1 t2 c1 c2 rest
  | _ => Short
  end = Short.
Proof. intros H. destruct j as [|[|[|[|j]]]]; try reflexivity. lia. Qed.

Lemma dec_question_prefix (q : dquestion) (k : nat) :
  question_wf q = true -> (k < length (ser_dq q))%nat -> dec_question (firstn k (ser_dq q)) = Short.
Proof.
  intros H Hk. apply question_wf_inv in H. destruct H as (Hn & Ht & Hc).
  unfold dec_question. unfold ser_dq in Hk |- *. rewrite app_length in Hk.
  destruct (firstn_app_cases k (ser_name (qn q)) (be16 (qt q) ++ be16 (qc q))) as [[Hlt ->] | [Hge ->]].
  - rewrite dec_name_top_prefix by assumption. reflexivity.
  - rewrite dec_name_top_ser by exact Hn. unfold be16 in Hk |- *. cbn [app length] in Hk |- *.
    apply short_list4. lia.
Qed.

Lemma dec_question_sound (l : bytes) (q : dquestion) (r : bytes) :
  bytes_ok l = true -> dec_question l = Done q r -> l = ser_dq q ++ r /\ question_wf q = true.
Proof.
  intros Hok. unfold dec_question.
  destruct (dec_name_top l) as [nm r0| |] eqn:Hn; try discriminate.
  apply dec_name_top_sound in Hn; [|exact Hok]. destruct Hn as [-> Hwf].
  rewrite bytes_ok_app in Hok. apply andb_true_iff in Hok. destruct Hok as [_ Hok].
  destruct r0 as [|t1 [|t2 [|c1 [|c2 rest]]]]; try discriminate.
  apply bytes_ok_cons in Hok. destruct Hok as [H1 Hok].
  apply bytes_ok_cons in Hok. destruct Hok as [H2 Hok].
  apply bytes_ok_cons in Hok. destruct Hok as [H3 Hok].
  apply bytes_ok_cons in Hok. destruct Hok as [H4 Hok].
  intros X; inversion X; subst; clear X. split.
  - unfold ser_dq. cbn [qn qt qc]. rewrite !be16_pair by assumption. rewrite <- !app_assoc. reflexivity.
  - unfold question_wf. cbn [qn qt qc]. rewrite Hwf. cbn [andb]. lia.
Qed.

(* ---- resource records ---- *)
Lemma rr_wf_inv (r : drr) : rr_wf r = true ->
  name_wf (ro r) = true /\ rt r < 65536 /\ rc r < 65536 /\ rttl r < 4294967296 /\
  lenN (rdata r) < 65536 /\ bytes_ok (rdata r) = true.
Proof.
  unfold rr_wf. intros H.
  apply andb_true_iff in H. destruct H as [H H6]. apply andb_true_iff in H. destruct H as [H H5].
  apply andb_true_iff in H. destruct H as [H H4]. apply andb_true_iff in H. destruct H as [H H3].
  apply andb_true_iff in H. destruct H as [H1 H2]. repeat split; try assumption; lia.
Qed.

Lemma dec_rr_ser (r : drr) (tail : bytes) : rr_wf r = true -> dec_rr (ser_rr r ++ tail) = Done r tail.
Proof.
  intros H. apply rr_wf_inv in H. destruct H as (Hn & Ht & Hc & Hl & Hd & _).
  unfold dec_rr, ser_rr. rewrite <- app_assoc, dec_name_top_ser by exact Hn.
  unfold be16, be32. cbn [app].
  rewrite !be16_split by assumption. rewrite be32_split by assumption.
  destruct (lenN (rdata r ++ tail) <? lenN (rdata r)) eqn:E; [rewrite lenN_app in E; lia|].
  rewrite to_nat_lenN, firstn_len_app, skipn_len_app. destruct r; reflexivity.
Qed.

Lemma dec_rr_prefix (r : drr) (k : nat) :
  rr_wf r = true -> (k < length (ser_rr r))%nat -> dec_rr (firstn k (ser_rr r)) = Short.
Proof.
  intros H Hk. apply rr_wf_inv in H. destruct H as (Hn & Ht & Hc & Hl & Hd & _).
  unfold dec_rr. unfold ser_rr in Hk |- *. rewrite app_length in Hk.
  match goal with |- context [firstn k (?a ++ ?b)] => destruct (firstn_app_cases k a b) as [[Hlt ->] | [Hge ->]] end.
  - rewrite dec_name_top_prefix by assumption. reflexivity.
  - rewrite dec_name_top_ser by exact Hn.
    unfold be16, be32 in Hk |- *. cbn [app length] in Hk |- *.
    remember (k - length (ser_name (ro r)))%nat as j eqn:Hj.
    do 10 (destruct j as [|j]; [reflexivity|]). cbn [firstn].
    rewrite !be16_split by assumption.
    destruct (lenN (firstn j (rdata r)) <? lenN (rdata r)) eqn:E; [reflexivity|].
    unfold lenN in E. rewrite firstn_length in E. lia.
Qed.

Lemma dec_rr_sound (l : bytes) (x : drr) (r : bytes) :
  bytes_ok l = true -> dec_rr l = Done x r -> l = ser_rr x ++ r /\ rr_wf x = true.
Proof.
  intros Hok. unfold dec_rr.
  destruct (dec_name_top l) as [nm r0| |] eqn:Hn; try discriminate.
  apply dec_name_top_sound in Hn; [|exact Hok]. destruct Hn as [-> Hwf].
  rewrite bytes_ok_app in Hok. apply andb_true_iff in Hok. destruct Hok as [_ Hok].
  destruct r0 as [|t1 [|t2 [|c1 [|c2 [|l1 [|l2 [|l3 [|l4 [|n1 [|n2 rest]]]]]]]]]]; try discriminate.
  repeat match type of Hok with bytes_ok (_ :: _) = true =>
    let H := fresh "Hb" in apply bytes_ok_cons in Hok; destruct Hok as [H Hok] end.
  destruct (lenN rest <? n1 * 256 + n2) eqn:El; [discriminate|].
  intros X; inversion X; subst; clear X.
  assert (length (firstn (N.to_nat (n1 * 256 + n2)) rest) = N.to_nat (n1 * 256 + n2)) as Hfl.
  { rewrite firstn_length. unfold lenN in El. lia. }
  assert (lenN (firstn (N.to_nat (n1 * 256 + n2)) rest) = n1 * 256 + n2) as HlN by (unfold lenN; rewrite Hfl; lia).
  split.
  - unfold ser_rr. cbn [ro rt rc rttl rdata]. rewrite HlN.
    rewrite !be16_pair by assumption. rewrite be32_quad by assumption.
    rewrite <- !app_assoc. cbn [app]. rewrite firstn_skipn. reflexivity.
  - unfold rr_wf. cbn [ro rt rc rttl rdata]. rewrite Hwf, HlN, (bytes_ok_firstn _ _ Hok). cbn [andb]. lia.
Qed.

(* ---- sequences of items ---- *)
Section Many.
  Variables (A : Type) (dec : bytes -> pres A) (ser : A -> bytes) (wf : A -> bool).
  Hypothesis dec_ser : forall a tail, wf a = true -> dec (ser a ++ tail) = Done a tail.
  Hypothesis dec_prefix : forall a k, wf a = true -> (k < length (ser a))%nat -> dec (firstn k (ser a)) = Short.

  Lemma dec_many_ser (al : list A) (tail : bytes) :
    forallb wf al = true -> dec_many dec (length al) (concat (map ser al) ++ tail) = Done al tail.
  Proof.
    induction al as [|a al IH]; cbn [forallb length map concat dec_many]; intros H.
    - reflexivity.
    - apply andb_true_iff in H. destruct H as [Ha Hal].
      rewrite <- app_assoc, dec_ser by exact Ha. rewrite IH by exact Hal. reflexivity.
  Qed.

  (* every prefix of the section followed by [rest] *)
  Lemma dec_many_prefix (al : list A) : forall k rest,
    forallb wf al = true ->
    dec_many dec (length al) (firstn k (concat (map ser al) ++ rest)) =
      if (k <? length (concat (map ser al)))%nat then Short
      else Done al (firstn (k - length (concat (map ser al))) rest).
  Proof.
    induction al as [|a al IH]; cbn [forallb length map concat dec_many]; intros k rest H.
    - cbn [app]. rewrite Nat.sub_0_r. reflexivity.
    - apply andb_true_iff in H. destruct H as [Ha Hal].
      rewrite <- app_assoc, app_length.
      destruct (firstn_app_cases k (ser a) (concat (map ser al) ++ rest)) as [[Hlt ->] | [Hge ->]].
      + rewrite dec_prefix by assumption.
        destruct (k <? length (ser a) + length (concat (map ser al)))%nat eqn:E; [reflexivity|lia].
      + rewrite dec_ser by exact Ha. rewrite IH by exact Hal.
        destruct (k - length (ser a) <? length (concat (map ser al)))%nat eqn:E1;
          destruct (k <? length (ser a) + length (concat (map ser al)))%nat eqn:E2; try lia; try reflexivity.
        rewrite Nat.sub_add_distr. reflexivity.
  Qed.

  Hypothesis dec_sound : forall l a r, bytes_ok l = true -> dec l = Done a r -> l = ser a ++ r /\ wf a = true.

  Lemma dec_many_sound (n : nat) : forall l al r,
    bytes_ok l = true -> dec_many dec n l = Done al r ->
    l = concat (map ser al) ++ r /\ forallb wf al = true /\ length al = n.
  Proof.
    induction n as [|n IH]; cbn [dec_many]; intros l al r Hok H.
    - inversion H; subst. repeat split.
    - destruct (dec l) as [a r0| |] eqn:Ha; try discriminate.
      destruct (dec_many dec n r0) as [al' r'| |] eqn:Hm; try discriminate.
      inversion H; subst al r'; clear H.
      apply dec_sound in Ha; [|exact Hok]. destruct Ha as [-> Hwa].
      rewrite bytes_ok_app in Hok. apply andb_true_iff in Hok. destruct Hok as [_ Hok].
      apply IH in Hm; [|exact Hok]. destruct Hm as (-> & Hwl & Hlen).
      cbn [map concat forallb length]. rewrite Hwa, Hwl, Hlen, <- app_assoc. repeat split.
  Qed.
End Many.

Definition qd_ser := dec_many_ser _ dec_question ser_dq question_wf dec_question_ser.
Definition qd_prefix := dec_many_prefix _ dec_question ser_dq question_wf dec_question_ser dec_question_prefix.
Definition qd_sound := dec_many_sound _ dec_question ser_dq question_wf dec_question_sound.
Definition rr_ser := dec_many_ser _ dec_rr ser_rr rr_wf dec_rr_ser.
Definition rr_prefix := dec_many_prefix _ dec_rr ser_rr rr_wf dec_rr_ser dec_rr_prefix.
Definition rr_sound := dec_many_sound _ dec_rr ser_rr rr_wf dec_rr_sound.

(* ---- messages ---- *)
Lemma msg_wf_inv (m : dmsg) : msg_wf m = true ->
  m_id m < 65536 /\ m_flags m < 65536 /\
  forallb question_wf (m_qd m) = true /\ cnt (m_qd m) < 65536 /\
  forallb rr_wf (m_an m) = true /\ cnt (m_an m) < 65536 /\
  forallb rr_wf (m_ns m) = true /\ cnt (m_ns m) < 65536 /\
  forallb rr_wf (m_ar m) = true /\ cnt (m_ar m) < 65536.
Proof.
  unfold msg_wf. intros H.
  repeat match type of H with (_ && _) = true =>
    let H' := fresh "H" in apply andb_true_iff in H; destruct H as [H H'] end.
  repeat split; try assumption; lia.
Qed.

Lemma ser_dns_norm (m : dmsg) (tail : bytes) :
  ser_dns m ++ tail =
  (m_id m / 256) mod 256 :: m_id m mod 256 :: (m_flags m / 256) mod 256 :: m_flags m mod 256 ::
  (cnt (m_qd m) / 256) mod 256 :: cnt (m_qd m) mod 256 :: (cnt (m_an m) / 256) mod 256 :: cnt (m_an m) mod 256 ::
  (cnt (m_ns m) / 256) mod 256 :: cnt (m_ns m) mod 256 :: (cnt (m_ar m) / 256) mod 256 :: cnt (m_ar m) mod 256 ::
  concat (map ser_dq (m_qd m)) ++ concat (map ser_rr (m_an m)) ++ concat (map ser_rr (m_ns m)) ++
  concat (map ser_rr (m_ar m)) ++ tail.
Proof. unfold ser_dns, ser_header, be16. rewrite <- !app_assoc. reflexivity. Qed.

Lemma dec_msg_ser (m : dmsg) (tail : bytes) : msg_wf m = true -> dec_msg (ser_dns m ++ tail) = Done m tail.
Proof.
  intros H. apply msg_wf_inv in H. destruct H as (Hid & Hfl & Hqd & Hnq & Han & Hna & Hns & Hnn & Har & Hnr).
  rewrite ser_dns_norm. unfold dec_msg.
  rewrite !be16_split by assumption. rewrite !to_nat_cnt.
  rewrite qd_ser by exact Hqd. rewrite rr_ser by exact Han. rewrite rr_ser by exact Hns. rewrite rr_ser by exact Har.
  destruct m; reflexivity.
Qed.

Lemma dec_msg_prefix (m : dmsg) (k : nat) :
  msg_wf m = true -> (k < length (ser_dns m))%nat -> dec_msg (firstn k (ser_dns m)) = Short.
Proof.
  intros H Hk. apply msg_wf_inv in H. destruct H as (Hid & Hfl & Hqd & Hnq & Han & Hna & Hns & Hnn & Har & Hnr).
  rewrite <- (app_nil_r (ser_dns m)) in Hk |- *. rewrite ser_dns_norm in Hk |- *. unfold dec_msg.
  do 12 (destruct k as [|k]; [reflexivity|]). cbn [firstn].
  cbn [length] in Hk. rewrite !app_length in Hk. cbn [length] in Hk.
  rewrite !be16_split by assumption. rewrite !to_nat_cnt.
  rewrite qd_prefix by exact Hqd.
  destruct (k <? length (concat (map ser_dq (m_qd m))))%nat eqn:E1; [reflexivity|].
  rewrite rr_prefix by exact Han.
  destruct (_ <? length (concat (map ser_rr (m_an m))))%nat eqn:E2; [reflexivity|].
  rewrite rr_prefix by exact Hns.
  destruct (_ <? length (concat (map ser_rr (m_ns m))))%nat eqn:E3; [reflexivity|].
  rewrite rr_prefix by exact Har.
  destruct (_ <? length (concat (map ser_rr (m_ar m))))%nat eqn:E4; [reflexivity|].
  lia.
Qed.

Lemma dec_msg_sound (p : bytes) (m : dmsg) (r : bytes) :
  bytes_ok p = true -> dec_msg p = Done m r -> p = ser_dns m ++ r /\ msg_wf m = true.
Proof.
  intros Hok. unfold dec_msg.
  destruct p as [|i1 [|i2 [|f1 [|f2 [|q1 [|q2 [|a1 [|a2 [|n1 [|n2 [|r1 [|r2 body]]]]]]]]]]]]; try discriminate.
  repeat match type of Hok with bytes_ok (_ :: _) = true =>
    let H := fresh "Hb" in apply bytes_ok_cons in Hok; destruct Hok as [H Hok] end.
  destruct (dec_many dec_question _ body) as [qd b1| |] eqn:Eq; try discriminate.
  apply qd_sound in Eq; [|exact Hok]. destruct Eq as (-> & Hqd & Hlq).
  rewrite bytes_ok_app in Hok. apply andb_true_iff in Hok. destruct Hok as [_ Hok].
  destruct (dec_many dec_rr _ b1) as [an b2| |] eqn:Ea; try discriminate.
  apply rr_sound in Ea; [|exact Hok]. destruct Ea as (-> & Han & Hla).
  rewrite bytes_ok_app in Hok. apply andb_true_iff in Hok. destruct Hok as [_ Hok].
  destruct (dec_many dec_rr _ b2) as [ns b3| |] eqn:En; try discriminate.
  apply rr_sound in En; [|exact Hok]. destruct En as (-> & Hns & Hln).
  rewrite bytes_ok_app in Hok. apply andb_true_iff in Hok. destruct Hok as [_ Hok].
  destruct (dec_many dec_rr _ b3) as [ar b4| |] eqn:Er; try discriminate.
  apply rr_sound in Er; [|exact Hok]. destruct Er as (-> & Har & Hlr).
  intros X; inversion X; subst m r; clear X.
  assert (cnt qd = q1 * 256 + q2) as Cq by (unfold cnt; lia).
  assert (cnt an = a1 * 256 + a2) as Ca by (unfold cnt; lia).
  assert (cnt ns = n1 * 256 + n2) as Cn by (unfold cnt; lia).
  assert (cnt ar = r1 * 256 + r2) as Cr by (unfold cnt; lia).
  split.
  - rewrite ser_dns_norm. cbn [m_id m_flags m_qd m_an m_ns m_ar]. rewrite Cq, Ca, Cn, Cr.
    repeat (f_equal; try lia).
  - unfold msg_wf. cbn [m_id m_flags m_qd m_an m_ns m_ar]. rewrite Cq, Ca, Cn, Cr, Hqd, Han, Hns, Har.
    cbn [andb]. lia.
Qed.

Lemma dec_dns_ser (m : dmsg) : msg_wf m = true -> dec_dns (ser_dns m) = Some m.
Proof. intros H. unfold dec_dns. rewrite <- (app_nil_r (ser_dns m)), dec_msg_ser by exact H. reflexivity. Qed.

Lemma dec_dns_sound (p : bytes) (m : dmsg) :
  bytes_ok p = true -> dec_dns p = Some m -> p = ser_dns m /\ msg_wf m = true.
Proof.
  intros Hok. unfold dec_dns. destruct (dec_msg p) as [m' [|x r]| |] eqn:E; try discriminate.
  intros X; inversion X; subst m'. apply dec_msg_sound in E; [|exact Hok].
  rewrite app_nil_r in E. exact E.
Qed.

Lemma dns_truncated_prefix (m : dmsg) (k : nat) :
  msg_wf m = true -> (k < length (ser_dns m))%nat -> dns_truncated (firstn k (ser_dns m)) = true.
Proof. intros H Hk. unfold dns_truncated. rewrite dec_msg_prefix by assumption. reflexivity. Qed.

(* ---- queries ---- *)
Lemma ser_query_msg (q : dquery) : ser_query q = ser_dns (msg_of_query q).
Proof. unfold ser_query, ser_dns, msg_of_query. cbn. rewrite app_nil_r. reflexivity. Qed.

Lemma query_wf_inv (q : dquery) : query_wf q = true ->
  k_id q < 65536 /\ k_flags q < 32768 /\ forallb question_wf (k_qd q) = true /\ cnt (k_qd q) < 65536.
Proof.
  unfold query_wf, QR_BIT. intros H.
  repeat match type of H with (_ && _) = true =>
    let H' := fresh "H" in apply andb_true_iff in H; destruct H as [H H'] end.
  repeat split; try assumption; lia.
Qed.

Lemma query_msg_wf (q : dquery) : query_wf q = true -> msg_wf (msg_of_query q) = true.
Proof.
  intros H. apply query_wf_inv in H. destruct H as (H1 & H2 & H3 & H4).
  unfold msg_wf, msg_of_query. cbn [m_id m_flags m_qd m_an m_ns m_ar forallb]. rewrite H3.
  change (cnt (@nil drr)) with 0. cbn [andb]. lia.
Qed.

Theorem dec_dns_query (q : dquery) : query_wf q = true -> dec_dns (ser_query q) = Some (msg_of_query q).
Proof. intros H. rewrite ser_query_msg. apply dec_dns_ser, query_msg_wf, H. Qed.

Theorem query_prefix_truncated (q : dquery) (k : nat) :
  query_wf q = true -> (k < length (ser_query q))%nat -> dns_truncated (firstn k (ser_query q)) = true.
Proof. intros H Hk. rewrite ser_query_msg in Hk |- *. apply dns_truncated_prefix; [apply query_msg_wf, H|exact Hk]. Qed.
