(* RefDns.v -- reference codec for uncompressed DNS messages (RFC 1035 section 4.1:
   header 4.1.1, question section 4.1.2, resource records 4.1.3 / 3.2.1; names as
   sequences of labels, section 3.1: each label a length octet 1..63 followed by
   that many octets of ANY value, the name ended by the zero-length root label,
   255 octets at most in all, section 2.3.4).
   Written from the RFC and the text of property C14, NOT from src/proto/dns/*.rs
   nor from Dns.v: structured messages with their serialisation and a strict,
   complete reader. The reader is three-valued: [Done] (a value and the bytes that
   follow it), [Short] (the input ended where the format requires more octets:
   the input is a truncated message) or [Bad] (the input violates the format:
   a label-length octet of 64 or more -- compression pointers and the reserved
   label types are not part of an uncompressed message -- or a name longer than
   255 octets). [dec_dns] accepts exactly the complete messages: header, exactly
   QDCOUNT questions, ANCOUNT + NSCOUNT + ARCOUNT records, nothing left over.
   Shares only Bytes.v with the model. Definitions only. *)
From MS Require Export Bytes.

(* ---- structured messages ---- *)
Definition label := bytes.
Definition dname := list label.

Record dquestion := { qn : dname; qt : N; qc : N }.
Record drr := { ro : dname; rt : N; rc : N; rttl : N; rdata : bytes }.
Record dmsg := {
  m_id : N; m_flags : N;
  m_qd : list dquestion; m_an : list drr; m_ns : list drr; m_ar : list drr
}.
(* a query: identifier, flag word, questions; the counts are derived *)
Record dquery := { k_id : N; k_flags : N; k_qd : list dquestion }.

Definition msg_of_query (q : dquery) : dmsg :=
  {| m_id := k_id q; m_flags := k_flags q; m_qd := k_qd q; m_an := []; m_ns := []; m_ar := [] |}.

(* ---- serialisation ---- *)
Fixpoint ser_name (n : dname) : bytes :=
  match n with
  | [] => [0]
  | l :: ls => lenN l :: l ++ ser_name ls
  end.

(* octets the name occupies on the wire *)
Fixpoint name_len (n : dname) : N :=
  match n with
  | [] => 1
  | l :: ls => 1 + lenN l + name_len ls
  end.

Definition ser_dq (q : dquestion) : bytes := ser_name (qn q) ++ be16 (qt q) ++ be16 (qc q).
Definition ser_rr (r : drr) : bytes :=
  ser_name (ro r) ++ be16 (rt r) ++ be16 (rc r) ++ be32 (rttl r) ++ be16 (lenN (rdata r)) ++ rdata r.

Definition cnt {A} (l : list A) : N := N.of_nat (length l).

Definition ser_header (id flags qd an ns ar : N) : bytes :=
  be16 id ++ be16 flags ++ be16 qd ++ be16 an ++ be16 ns ++ be16 ar.

Definition ser_dns (m : dmsg) : bytes :=
  ser_header (m_id m) (m_flags m) (cnt (m_qd m)) (cnt (m_an m)) (cnt (m_ns m)) (cnt (m_ar m)) ++
  concat (map ser_dq (m_qd m)) ++
  concat (map ser_rr (m_an m)) ++ concat (map ser_rr (m_ns m)) ++ concat (map ser_rr (m_ar m)).

(* header with ANCOUNT = NSCOUNT = ARCOUNT = 0, then the questions *)
Definition ser_query (q : dquery) : bytes :=
  ser_header (k_id q) (k_flags q) (cnt (k_qd q)) 0 0 0 ++ concat (map ser_dq (k_qd q)).

(* ---- well-formedness (the ranges the wire format imposes) ---- *)
Definition label_wf (l : label) : bool := (1 <=? lenN l) && (lenN l <=? 63) && bytes_ok l.
Definition name_wf (n : dname) : bool := forallb label_wf n && (name_len n <=? 255).
Definition question_wf (q : dquestion) : bool := name_wf (qn q) && (qt q <? 65536) && (qc q <? 65536).
Definition rr_wf (r : drr) : bool :=
  name_wf (ro r) && (rt r <? 65536) && (rc r <? 65536) && (rttl r <? 4294967296) &&
  (lenN (rdata r) <? 65536) && bytes_ok (rdata r).
Definition msg_wf (m : dmsg) : bool :=
  (m_id m <? 65536) && (m_flags m <? 65536) &&
  forallb question_wf (m_qd m) && (cnt (m_qd m) <? 65536) &&
  forallb rr_wf (m_an m) && (cnt (m_an m) <? 65536) &&
  forallb rr_wf (m_ns m) && (cnt (m_ns m) <? 65536) &&
  forallb rr_wf (m_ar m) && (cnt (m_ar m) <? 65536).

Definition QR_BIT : N := 32768.
(* a query: QR (the top bit of the flag word) clear *)
Definition query_wf (q : dquery) : bool :=
  (k_id q <? 65536) && (k_flags q <? QR_BIT) && forallb question_wf (k_qd q) && (cnt (k_qd q) <? 65536).

(* ---- the reader ---- *)
Inductive pres (A : Type) :=
| Done (a : A) (rest : bytes)
| Short
| Bad.
Arguments Done {A} a rest.
Arguments Short {A}.
Arguments Bad {A}.

(* a name: [budget] = octets the rest of the name may still occupy (255 at the
   start; a label of n octets needs n + 1 and leaves at least 1 for the root);
   [fuel] bounds the number of labels (at most 127 labels of 2 octets fit) *)
Fixpoint dec_name (fuel : nat) (budget : N) (l : bytes) : pres dname :=
  match l with
  | [] => Short
  | n :: t =>
    if n =? 0 then Done [] t
    else if 64 <=? n then Bad
    else if budget <? n + 2 then Bad
    else if lenN t <? n then Short
    else
      match fuel with
      | O => Bad
      | S fuel' =>
        match dec_name fuel' (budget - (n + 1)) (skipn (N.to_nat n) t) with
        | Done ls r => Done (firstn (N.to_nat n) t :: ls) r
        | Short => Short
        | Bad => Bad
        end
      end
  end.

Definition dec_name_top (l : bytes) : pres dname := dec_name 128 255 l.

Definition dec_question (l : bytes) : pres dquestion :=
  match dec_name_top l with
  | Done nm r =>
    match r with
    | t1 :: t2 :: c1 :: c2 :: rest => Done {| qn := nm; qt := t1 * 256 + t2; qc := c1 * 256 + c2 |} rest
    | _ => Short
    end
  | Short => Short
  | Bad => Bad
  end.

Definition dec_rr (l : bytes) : pres drr :=
  match dec_name_top l with
  | Done nm r =>
    match r with
    | t1 :: t2 :: c1 :: c2 :: l1 :: l2 :: l3 :: l4 :: n1 :: n2 :: rest =>
      let n := n1 * 256 + n2 in
      if lenN rest <? n then Short
      else Done {| ro := nm; rt := t1 * 256 + t2; rc := c1 * 256 + c2;
                   rttl := l1 * 16777216 + l2 * 65536 + l3 * 256 + l4;
                   rdata := firstn (N.to_nat n) rest |} (skipn (N.to_nat n) rest)
    | _ => Short
    end
  | Short => Short
  | Bad => Bad
  end.

(* exactly [n] items *)
Fixpoint dec_many {A} (dec : bytes -> pres A) (n : nat) (l : bytes) : pres (list A) :=
  match n with
  | O => Done [] l
  | S n' =>
    match dec l with
    | Done a r =>
      match dec_many dec n' r with
      | Done al r' => Done (a :: al) r'
      | Short => Short
      | Bad => Bad
      end
    | Short => Short
    | Bad => Bad
    end
  end.

(* a message at the head of [p] *)
Definition dec_msg (p : bytes) : pres dmsg :=
  match p with
  | i1 :: i2 :: f1 :: f2 :: q1 :: q2 :: a1 :: a2 :: n1 :: n2 :: r1 :: r2 :: body =>
    match dec_many dec_question (N.to_nat (q1 * 256 + q2)) body with
    | Done qd body =>
      match dec_many dec_rr (N.to_nat (a1 * 256 + a2)) body with
      | Done an body =>
        match dec_many dec_rr (N.to_nat (n1 * 256 + n2)) body with
        | Done ns body =>
          match dec_many dec_rr (N.to_nat (r1 * 256 + r2)) body with
          | Done ar body =>
            Done {| m_id := i1 * 256 + i2; m_flags := f1 * 256 + f2;
                    m_qd := qd; m_an := an; m_ns := ns; m_ar := ar |} body
          | Short => Short | Bad => Bad
          end
        | Short => Short | Bad => Bad
        end
      | Short => Short | Bad => Bad
      end
    | Short => Short | Bad => Bad
    end
  | _ => Short
  end.

(* "parses completely": all section counts match the records present and nothing is left over *)
Definition dec_dns (p : bytes) : option dmsg :=
  match dec_msg p with
  | Done m [] => Some m
  | _ => None
  end.

(* a truncated message: the input ends where the format requires more octets *)
Definition dns_truncated (p : bytes) : bool :=
  match dec_msg p with Short => true | _ => false end.

(* ---- boolean equality (for the monitors) ---- *)
Fixpoint list_eqb2 {A B} (eqb : A -> B -> bool) (a : list A) (b : list B) : bool :=
  match a, b with
  | [], [] => true
  | x :: a', y :: b' => eqb x y && list_eqb2 eqb a' b'
  | _, _ => false
  end.

Definition name_eqb (a b : dname) : bool := list_eqb2 bytes_eqb a b.
Definition question_eqb (a b : dquestion) : bool :=
  name_eqb (qn a) (qn b) && (qt a =? qt b) && (qc a =? qc b).
