(* Proofs/GlueC17.v -- C17 (SMB1/SMB2) as a statement about every received frame, on
   the current implementation: the frame-level monitors ok_C17_udp / ok_C17_tcp of
   Spec/C17.v hold of everything reply() emits, with no identification hypothesis.

   * [classify p = Some rq] (Spec/C17.v) forces the leading bytes 00 00 * * ff|fe 'S' 'M' 'B'
     ([classify_head]: the NetBIOS type is 0 and, the announced length being below 65536,
     the flags byte is 0 as well -- the monitor demands nothing for a payload the
     published signatures do not cover: no false-alarm class);
   * on every payload with such leading bytes the reference passes no point of K0 and
     identifies SMB1 / SMB2 ([chk_smb1], [chk_smb2]: facts about the reference only), so
     that C10's product check gives the identification by the compiled matcher;
   * an identified payload satisfies the monitor (Proofs/C17Mon.v); a payload that is not
     classified satisfies it trivially. *)
From Coq Require Import Lia.
From MS Require Import Proofs.Tactics Smb Proto L2 Spec.View Spec.RefDec Spec.TcpRef Spec.RefSmb Spec.AppView
     Spec.History Spec.EnvOk Spec.C17 Spec.RefSig Spec.C10 Spec.C10Known Instance
     Proofs.Pipeline Proofs.ViewLemmas Proofs.C06 Proofs.TcpState Proofs.C07 Proofs.Lift Proofs.LiftTcp
     Proofs.C10Sound Proofs.C10Dispatch Proofs.C10Current Proofs.C17Mon Proofs.C17Examples Proofs.GluePat Proofs.GlueC15.

Definition pat_smb (magic : N) : list cls :=
  [CLit 0; CLit 0; CAny; CAny; CLit magic; CLit 83; CLit 77; CLit 66].

Lemma chk_smb1 : ref_chk K0 ID_SMB1 false (pat_smb 255) [r_init] = true.
Proof. vm_compute. reflexivity. Qed.
Lemma chk_smb2 : ref_chk K0 ID_SMB2 false (pat_smb 254) [r_init] = true.
Proof. vm_compute. reflexivity. Qed.

(* the leading bytes of a classified payload *)
Lemma classify_head p rq : classify p = Some rq ->
  exists a b m q, p = [0; 0; a; b; m; 83; 77; 66] ++ q /\
                  ((m = 255 /\ rq_smb1 rq = true) \/ (m = 254 /\ rq_smb2 rq = true)).
Proof.
  intros Hc. destruct (classify_sound p rq Hc) as (t & f & a & b & rest & -> & Hs).
  assert (t = 0 /\ f = 0) as [-> ->].
  { unfold classify in Hc. cbn [app rd_nbt] in Hc.
    destruct ((t =? 0) && (f <? 2)) eqn:Htf; [|discriminate Hc].
    apply andb_true_iff in Htf. destruct Htf as [Ht Hf2]. apply N.eqb_eq in Ht. apply N.ltb_lt in Hf2.
    destruct (f * 65536 + a * 256 + b <? 65536) eqn:Hl; cbn [negb] in Hc; [|discriminate Hc].
    apply N.ltb_lt in Hl. split; [exact Ht | lia]. }
  exists a, b.
  destruct rq as [h ds | h q | h | h q | h q | h]; cbn [rq_shape] in Hs;
    repeat match type of Hs with _ /\ _ => destruct Hs as [_ Hs] end; destruct Hs as [x ->];
    unfold ser_smb1_hdr, ser_smb2_hdr, SMB1_PROTOCOL, SMB2_PROTOCOL; cbn [app];
    [exists 255 | exists 255 | exists 255 | exists 254 | exists 254 | exists 254];
    eexists; (split; [reflexivity|]); [left | left | left | right | right | right]; split; reflexivity.
Qed.

Lemma smb_pat m a b q : pmatch false (pat_smb m) ([0; 0; a; b; m; 83; 77; 66] ++ q) = true.
Proof.
  unfold pat_smb. cbn [app pmatch cls_mem]. rewrite !N.eqb_refl. destruct q; reflexivity.
Qed.

(* a classified payload is identified as SMB1 / SMB2 (by the reference, outside C10's
   class, hence by the compiled matcher), over UDP and on a first TCP segment *)
Theorem classified_identified p rq :
  bytes_ok p = true -> classify p = Some rq ->
  c10_class_payload_coarse false p = false /\ c10_class_payload_coarse true p = false /\
  ((nth 4 p 0 = 255 /\ ref_udp p = Some ID_SMB1 /\ ref_tcp p = Some ID_SMB1 /\
    udp_id the_env p = Some PROTO_SMB1 /\ tcp_first_id the_env p = Some PROTO_SMB1) \/
   (nth 4 p 0 = 254 /\ ref_udp p = Some ID_SMB2 /\ ref_tcp p = Some ID_SMB2 /\
    udp_id the_env p = Some PROTO_SMB2 /\ tcp_first_id the_env p = Some PROTO_SMB2)).
Proof.
  intros Hok Hc. destruct (classify_head p rq Hc) as (a & b & m & q & Hp & [[-> _] | [-> _]]).
  - pose proof (smb_pat 255 a b q) as Hm. rewrite <- Hp in Hm.
    destruct (ref_chk_init K0 ID_SMB1 false (pat_smb 255) chk_smb1 p Hok Hm) as (H1 & H2 & H3 & H4).
    specialize (H4 eq_refl). destruct (current_ident p Hok H1) as [Hu Ht].
    split; [exact H1|]. split; [exact H2|]. left. rewrite Hu, Ht.
    split; [rewrite Hp; reflexivity|]. repeat split; assumption.
  - pose proof (smb_pat 254 a b q) as Hm. rewrite <- Hp in Hm.
    destruct (ref_chk_init K0 ID_SMB2 false (pat_smb 254) chk_smb2 p Hok Hm) as (H1 & H2 & H3 & H4).
    specialize (H4 eq_refl). destruct (current_ident p Hok H1) as [Hu Ht].
    split; [exact H1|]. split; [exact H2|]. right. rewrite Hu, Ht.
    split; [rewrite Hp; reflexivity|]. repeat split; assumption.
Qed.

(* ---------- proto::repl on the current tables, any payload ---------- *)
Theorem C17_proto_udp_current clk cfg ms md ctx p ci' o :
  bytes_ok p = true ->
  proto_repl_udp the_env clk (ctx_ci cfg ms md ctx) p = Ok (ci', o) -> app_ok_C17 ctx p o = true.
Proof.
  intros Hok Hpr. destruct (classify p) as [rq|] eqn:Hc.
  - destruct (classified_identified p rq Hok Hc) as (_ & _ & [(Hm & _ & _ & Hu & _) | (Hm & _ & _ & Hu & _)]).
    + destruct (C17_proto_udp_smb1 the_env clk ctx p ex_blob_ok Hok cfg ms md Hu Hm) as (o' & Hpr' & Hmon).
      rewrite Hpr in Hpr'. inversion Hpr'; subst. exact Hmon.
    + destruct (C17_proto_udp_smb2 the_env clk ctx p ex_blob_ok Hok cfg ms md Hu Hm) as (o' & Hpr' & Hmon).
      rewrite Hpr in Hpr'. inversion Hpr'; subst. exact Hmon.
  - unfold app_ok_C17. rewrite Hc. reflexivity.
Qed.

Theorem C17_proto_tcp_current clk cfg ms md ctx p ci' tc' o :
  bytes_ok p = true ->
  proto_repl_tcp the_env clk (ctx_ci cfg ms md ctx) tcb_new p = Ok (ci', tc', o) ->
  app_ok_C17 ctx p (norm_out o) = true.
Proof.
  intros Hok Hpr. rewrite (norm_out_env _ _ _ _ _ _ _ _ the_env_ok_glue Hpr).
  destruct (classify p) as [rq|] eqn:Hc.
  - destruct (classified_identified p rq Hok Hc) as (_ & _ & [(Hm & _ & _ & _ & Ht) | (Hm & _ & _ & _ & Ht)]).
    + destruct (C17_proto_tcp_smb1 the_env clk ctx p ex_blob_ok Hok cfg ms md Ht Hm) as (tc2 & o' & Hpr' & Hmon).
      rewrite Hpr in Hpr'. inversion Hpr'; subst. exact Hmon.
    + destruct (C17_proto_tcp_smb2 the_env clk ctx p ex_blob_ok Hok cfg ms md Ht Hm) as (tc2 & o' & Hpr' & Hmon).
      rewrite Hpr in Hpr'. inversion Hpr'; subst. exact Hmon.
  - unfold app_ok_C17. rewrite Hc. reflexivity.
Qed.

(* ---------- every frame ---------- *)
Theorem frame_udp_C17 cfg clk tb f tb' r evs :
  cfg_ok cfg = true -> bytes_ok f = true ->
  reply the_env cfg clk tb f = Ok (tb', r, evs) ->
  ok_C17_udp cfg f r = true.
Proof.
  intros Hcfg Hf Hr. unfold ok_C17_udp.
  apply (ok_app_udp_lift app_ok_C17 the_env cfg clk tb f tb' r evs Hcfg Hf); [|exact Hr].
  intros ctx p ci' out _ Hp _ Hpr. exact (C17_proto_udp_current clk cfg _ _ ctx p ci' out Hp Hpr).
Qed.

Theorem frame_tcp_C17_agree cfg st clk tb f tb' r evs :
  cfg_ok cfg = true -> bytes_ok f = true -> st_agrees cfg st tb f ->
  reply the_env cfg clk tb f = Ok (tb', r, evs) ->
  ok_C17_tcp cfg st f r = true.
Proof.
  intros Hcfg Hf Hag Hr. unfold ok_C17_tcp.
  apply (ok_app_tcp_first_lift app_ok_C17 the_env cfg st clk tb f tb' r evs Hcfg Hf Hag); [|exact Hr].
  intros ctx p ci' tc' out _ Hp _ Hpr. exact (C17_proto_tcp_current clk cfg _ _ ctx p ci' tc' out Hp Hpr).
Qed.

Theorem frame_tcp_C17_history cfg h clk tb f tb' r evs :
  cfg_ok cfg = true ->
  Forall (fun x => bytes_ok x = true) (frames h) -> bytes_ok f = true ->
  run the_env cfg [] h = Ok tb ->
  (forall v, view_tcp cfg f = Some v -> no_collision cfg (flow_of v :: ref_run cfg (frames h))) ->
  reply the_env cfg clk tb f = Ok (tb', r, evs) ->
  ok_C17_tcp cfg (ref_run cfg (frames h)) f r = true.
Proof.
  intros Hcfg Hall Hf Hrun Hnc Hr.
  apply (frame_tcp_C17_agree cfg _ clk tb f tb' r evs Hcfg Hf); [|exact Hr].
  exact (st_agrees_history the_env cfg h tb f Hall Hrun Hnc).
Qed.

Theorem frame_tcp_C17_state cfg clk tb f tb' r evs v :
  cfg_ok cfg = true -> bytes_ok f = true ->
  view_tcp cfg f = Some v ->
  is_data (tcp_flags (v_l4 v)) = true ->
  tbl_mem (flow_cookie cfg (flow_of v)) tb = false ->
  presents_cookie cfg v = true ->
  reply the_env cfg clk tb f = Ok (tb', r, evs) ->
  exists o, tcp_resp r = Some o /\ app_ok_C17 (ctx_of true v) (tcp_payload (v_l4 v)) o = true.
Proof.
  intros Hcfg Hf Hvt Hd Hmem Hpres Hr.
  apply (ok_app_tcp_first_lift_state app_ok_C17 the_env cfg clk tb f tb' r evs v Hcfg Hf Hvt Hd Hmem Hpres); [|exact Hr].
  intros ci' tc' out Hp _ Hpr. exact (C17_proto_tcp_current clk cfg _ _ _ _ ci' tc' out Hp Hpr).
Qed.
