(* Proofs/ClockIndepMask.v -- the masks of Spec/ClockIndep.v evaluated on what the responder
   emits: payloads related by [pay_rel] have the same masked form; a TCP segment / UDP datagram
   wrapped by the IP and Ethernet builders masks to its headers (checksum zeroed) followed by
   the masked payload. *)
From MS Require Import Proofs.Tactics Smb Proto L4 L2 Spec.View Proofs.Pipeline Proofs.ViewLemmas
     Proofs.ChecksumLemmas Proofs.C04 Proofs.ClockIndepSmb Proofs.ClockIndepApp Spec.ClockIndep.
Open Scope N_scope.

(* ====================================================================== *)
(* lists                                                                   *)
(* ====================================================================== *)
Lemma u8_at_app_l (i : nat) (a b : bytes) : (i < length a)%nat -> u8_at i (a ++ b) = u8_at i a.
Proof. intros H. unfold u8_at. apply app_nth1. exact H. Qed.

Lemma u8_at_app_r (i : nat) (a b : bytes) : u8_at (length a + i) (a ++ b) = u8_at i b.
Proof. unfold u8_at. apply app_nth2_plus. Qed.

Lemma u16_at_app_l (i : nat) (a b : bytes) : (S i < length a)%nat -> u16_at i (a ++ b) = u16_at i a.
Proof. intros H. unfold u16_at. rewrite !u8_at_app_l by lia. reflexivity. Qed.

Lemma firstn_app_l (n : nat) (a b : bytes) : (n <= length a)%nat -> firstn n (a ++ b) = firstn n a.
Proof.
  intros H. rewrite firstn_app. replace (n - length a)%nat with 0%nat by lia.
  cbn [firstn]. apply app_nil_r.
Qed.

Lemma zero_at_app (A F B : bytes) :
  zero_at (length A) (length F) (A ++ F ++ B) = A ++ map (fun _ => 0) F ++ B.
Proof.
  unfold zero_at. rewrite firstn_length_app, skipn_length_app, firstn_length_app.
  replace (length A + length F)%nat with (length (A ++ F)) by apply app_length.
  replace (A ++ F ++ B) with ((A ++ F) ++ B) by (symmetry; apply app_assoc).
  rewrite skipn_length_app. reflexivity.
Qed.

Lemma map_zero_len (F F' : bytes) :
  length F = length F' -> map (fun _ : N => 0) F = map (fun _ : N => 0) F'.
Proof.
  revert F'. induction F as [|x F IH]; intros [|y F'] H; try discriminate; [reflexivity|].
  cbn [map]. f_equal. apply IH. injection H as H. exact H.
Qed.

Lemma is_prefix_app (p a b : bytes) : is_prefix p a = true -> is_prefix p (a ++ b) = true.
Proof.
  revert a. induction p as [|x p IH]; intros a H; [reflexivity|].
  destruct a as [|y a]; [discriminate|]. cbn [is_prefix app] in *.
  apply andb_true_iff in H. destruct H as [-> H]. cbn [andb]. apply IH, H.
Qed.

(* ====================================================================== *)
(* HTTP                                                                    *)
(* ====================================================================== *)
Lemma hrun_app st a b :
  hrun st (a ++ b) =
  (fst (hrun (fst (hrun st a)) b), snd (hrun st a) ++ snd (hrun (fst (hrun st a)) b)).
Proof.
  revert st. induction a as [|x a IH]; intros st.
  - cbn [app hrun fst snd]. destruct (hrun st b). reflexivity.
  - cbn [app hrun]. destruct (hstep st x) as [st1 c]. rewrite IH.
    destruct (hrun st1 a) as [st2 out]. cbn [fst snd]. reflexivity.
Qed.

Lemma hrun_value d :
  forallb (fun b => negb (b =? 13) && negb (b =? 10)) d = true ->
  hrun HValue d = (HValue, map (fun _ => 0) d).
Proof.
  induction d as [|x d IH]; intros H; [reflexivity|].
  cbn [forallb] in H. apply andb_true_iff in H. destruct H as [Hx Hd].
  apply andb_true_iff in Hx. destruct Hx as [H13 H10].
  apply negb_true_iff in H13, H10.
  cbn [hrun hstep]. rewrite H10, H13, (IH Hd). reflexivity.
Qed.

Lemma hstate_eqb_value st : hstate_eqb st HValue = true -> st = HValue.
Proof. destruct st; cbn; intros H; try discriminate; reflexivity. Qed.

Lemma mask_http_response pre post d d' :
  hstate_eqb (fst (hrun (HName 0) pre)) HValue = true ->
  forallb (fun b => negb (b =? 13) && negb (b =? 10)) d = true ->
  forallb (fun b => negb (b =? 13) && negb (b =? 10)) d' = true ->
  length d = length d' ->
  mask_http (http_response pre post d) = mask_http (http_response pre post d').
Proof.
  intros Hp Hd Hd' Hl. apply hstate_eqb_value in Hp.
  unfold mask_http, http_response. rewrite !hrun_app. cbn [fst snd]. rewrite Hp.
  rewrite (hrun_value d Hd), (hrun_value d' Hd'). cbn [fst snd].
  rewrite (map_zero_len d d' Hl). reflexivity.
Qed.

(* ====================================================================== *)
(* payloads                                                                *)
(* ====================================================================== *)
Lemma nbt_head (A : bytes) (k : nat) (K : bytes) :
  (4 + k <= length A)%nat -> length K = k -> firstn (4 + k) A = firstn 4 A ++ K -> u8_at 0 A = 0 ->
  exists a1 a2 a3 R, A = [0; a1; a2; a3] ++ K ++ R.
Proof.
  intros HA HK HF H0.
  assert (H4 : length (firstn 4 A) = 4%nat) by (rewrite firstn_length; lia).
  destruct (len4 _ H4) as (a0 & a1 & a2 & a3 & E4).
  exists a1, a2, a3, (skipn (4 + k) A).
  rewrite <- (firstn_skipn (4 + k) A) at 1. rewrite HF, E4.
  assert (a0 = 0) as ->.
  { rewrite <- H0. rewrite <- (firstn_skipn 4 A). rewrite E4. reflexivity. }
  rewrite <- app_assoc. reflexivity.
Qed.

Theorem pay_rel_mask E clk clk' d d' :
  http_tpl_ok E = true -> date_clean clk = true -> date_clean clk' = true ->
  length (clk_date clk) = length (clk_date clk') ->
  pay_rel E clk clk' d d' -> mask_payload d = mask_payload d'.
Proof.
  intros Ht Hc Hc' Hl H. unfold http_tpl_ok in Ht. apply andb_true_iff in Ht. destruct Ht as [Hpre Hst].
  destruct H as [|A B HA HK H0|A B HA HK H0].
  - unfold mask_payload.
    assert (forall x, is_prefix HTTP_MAGIC (http_response (e_http_pre E) (e_http_post E) x) = true) as Hp.
    { intros x. unfold http_response. apply is_prefix_app. exact Hpre. }
    rewrite !Hp. apply mask_http_response; assumption.
  - destruct (nbt_head A 10 K1 ltac:(lia) eq_refl HK H0) as (a1 & a2 & a3 & R & ->).
    unfold mask_payload.
    change (is_prefix HTTP_MAGIC (([0; a1; a2; a3] ++ K1 ++ R) ++ le64 (clk_filetime clk) ++ B)) with false.
    change (is_prefix HTTP_MAGIC (([0; a1; a2; a3] ++ K1 ++ R) ++ le64 (clk_filetime clk') ++ B)) with false.
    change (is_smb1_neg_resp (([0; a1; a2; a3] ++ K1 ++ R) ++ le64 (clk_filetime clk) ++ B)) with true.
    change (is_smb1_neg_resp (([0; a1; a2; a3] ++ K1 ++ R) ++ le64 (clk_filetime clk') ++ B)) with true.
    cbv iota.
    change 60%nat with (60 + 0)%nat. rewrite <- HA.
    change 8%nat with (length (le64 (clk_filetime clk))) at 1.
    change 8%nat with (length (le64 (clk_filetime clk'))) at 1.
    rewrite Nat.add_0_r, !zero_at_app. reflexivity.
  - destruct (nbt_head A 20 K2 ltac:(lia) eq_refl HK H0) as (a1 & a2 & a3 & R & ->).
    unfold mask_payload.
    set (F := le64 (clk_filetime clk) ++ le64 (clk_filetime clk)).
    set (F' := le64 (clk_filetime clk') ++ le64 (clk_filetime clk')).
    change (is_prefix HTTP_MAGIC (([0; a1; a2; a3] ++ K2 ++ R) ++ F ++ B)) with false.
    change (is_prefix HTTP_MAGIC (([0; a1; a2; a3] ++ K2 ++ R) ++ F' ++ B)) with false.
    change (is_smb1_neg_resp (([0; a1; a2; a3] ++ K2 ++ R) ++ F ++ B)) with false.
    change (is_smb1_neg_resp (([0; a1; a2; a3] ++ K2 ++ R) ++ F' ++ B)) with false.
    change (is_smb2_neg_resp (([0; a1; a2; a3] ++ K2 ++ R) ++ F ++ B)) with true.
    change (is_smb2_neg_resp (([0; a1; a2; a3] ++ K2 ++ R) ++ F' ++ B)) with true.
    cbv iota.
    change 108%nat with (108 + 0)%nat. rewrite <- HA.
    change 16%nat with (length F) at 1.
    change 16%nat with (length F') at 1.
    rewrite Nat.add_0_r, !zero_at_app. reflexivity.
Qed.

(* ====================================================================== *)
(* transport headers                                                       *)
(* ====================================================================== *)
Lemma firstn_skipn_at (H X : bytes) (n : nat) (d : bytes) :
  length X = n ->
  firstn (length H + n) (H ++ X ++ d) = H ++ X /\ skipn (length H + n) (H ++ X ++ d) = d.
Proof.
  intros HX. rewrite app_assoc.
  replace (length H + n)%nat with (length (H ++ X)) by (rewrite app_length, HX; reflexivity).
  split; [apply firstn_length_app | apply skipn_length_app].
Qed.

Lemma mask_l4_tcp (H T16 c2 u2 d : bytes) :
  length T16 = 16%nat -> length c2 = 2%nat -> length u2 = 2%nat ->
  (N.to_nat (u8_at 12 T16 / 16) * 4 = 20)%nat ->
  mask_l4 6 (length H) (H ++ T16 ++ c2 ++ u2 ++ d) =
  H ++ T16 ++ [0; 0] ++ u2 ++ mask_payload d.
Proof.
  intros HT Hc Hu Hdo. unfold mask_l4. change (6 =? 6) with true. cbv iota.
  rewrite u8_at_app_r, u8_at_app_l by lia. rewrite Hdo.
  destruct (firstn_skipn_at H (T16 ++ c2 ++ u2) 20 d) as [Hf Hs].
  { rewrite !app_length, HT, Hc, Hu. reflexivity. }
  rewrite <- !app_assoc in Hf, Hs. rewrite Hf, Hs.
  replace (length H + 16)%nat with (length (H ++ T16)) by (rewrite app_length, HT; reflexivity).
  rewrite <- Hc. rewrite (app_assoc H T16), zero_at_app.
  destruct (len2 _ Hc) as (x & y & ->). cbn [map].
  rewrite <- !app_assoc. reflexivity.
Qed.

Lemma mask_l4_udp (H U6 c2 d : bytes) :
  length U6 = 6%nat -> length c2 = 2%nat ->
  mask_l4 17 (length H) (H ++ U6 ++ c2 ++ d) = H ++ U6 ++ [0; 0] ++ mask_payload d.
Proof.
  intros HU Hc. unfold mask_l4. change (17 =? 6) with false. change (17 =? 17) with true. cbv iota.
  destruct (firstn_skipn_at H (U6 ++ c2) 8 d) as [Hf Hs].
  { rewrite !app_length, HU, Hc. reflexivity. }
  rewrite <- !app_assoc in Hf, Hs. rewrite Hf, Hs.
  replace (length H + 6)%nat with (length (H ++ U6)) by (rewrite app_length, HU; reflexivity).
  rewrite <- Hc. rewrite (app_assoc H U6).
  replace ((H ++ U6) ++ c2) with ((H ++ U6) ++ c2 ++ []) by (rewrite app_nil_r; reflexivity).
  rewrite zero_at_app.
  destruct (len2 _ Hc) as (x & y & ->). cbn [map].
  rewrite <- !app_assoc. reflexivity.
Qed.

(* the sealed transport packets *)
Lemma seal_tcp_shape v sp dp s a fl d :
  exists c, seal_tcp v (tcp_header sp dp s a fl ++ d) =
            firstn 16 (tcp_header sp dp s a fl) ++ be16 c ++ [0; 0] ++ d.
Proof. eexists. reflexivity. Qed.

Lemma seal_udp_shape v sp dp d :
  exists c, seal_udp v (udp_dgram sp dp d) =
            (be16 sp ++ be16 dp ++ be16 (8 + lenN d)) ++ be16 c ++ d.
Proof. eexists. reflexivity. Qed.

(* ====================================================================== *)
(* IP and Ethernet                                                         *)
(* ====================================================================== *)
(* everything that precedes the transport packet in a reply to [f] *)
Definition ip_prefix (cfg : config) (f : bytes) (v : l4view) (rsrc : bytes) (hlim n : N) : bytes :=
  if v_v4 v then
    let hdr := ipv4_header (20 + n) (v_proto v) rsrc (v_src v) in
    eth_frame (slice 6 6 f) (c_mac cfg) 2048 (set_cksum 10 hdr (checksum hdr))
  else
    eth_frame (slice 6 6 f) (c_mac cfg) 34525 (ipv6_header n (v_proto v) hlim rsrc (v_src v)).

Section Wrap.
  Variables (cfg : config) (f : bytes) (v : l4view).
  Hypothesis Hmac : length (c_mac cfg) = 6%nat.
  Hypothesis Hv : view cfg f = Some v.

  Lemma wrap_ip_split hlim l4 :
    wrap_ip cfg f v (v_dst v) hlim l4 = ip_prefix cfg f v (v_dst v) hlim (lenN l4) ++ l4.
  Proof.
    destruct (view_sizes _ _ _ Hv) as (Hm & Hsz). unfold wrap_ip, ip_prefix.
    destruct (v_v4 v).
    - destruct Hsz as [Hs Hd]. cbv zeta.
      set (hdr := ipv4_header (20 + lenN l4) (v_proto v) (v_dst v) (v_src v)).
      assert (Hhl : length hdr = 20%nat) by (apply ipv4_header_length; assumption).
      assert (firstn 20 (hdr ++ l4) = hdr) as -> by (rewrite <- Hhl; apply firstn_length_app).
      unfold hdr at 1. rewrite set_cksum_ipv4. fold hdr.
      unfold eth_frame. rewrite <- !app_assoc. reflexivity.
    - unfold eth_frame. rewrite <- !app_assoc. reflexivity.
  Qed.

  Lemma ip_prefix_length hlim n :
    length (ip_prefix cfg f v (v_dst v) hlim n) = (if v_v4 v then 34 else 54)%nat.
  Proof.
    destruct (view_sizes _ _ _ Hv) as (Hm & Hsz). unfold ip_prefix.
    destruct (v_v4 v); destruct Hsz as [Hs Hd]; rewrite eth_frame_length by assumption.
    - rewrite set_cksum_length; rewrite ipv4_header_length by assumption; lia.
    - rewrite ipv6_header_length by assumption. reflexivity.
  Qed.

  (* the header fields the mask looks at *)
  Lemma mask_frame_prefix hlim n l4 :
    mask_frame (ip_prefix cfg f v (v_dst v) hlim n ++ l4) =
    mask_l4 (v_proto v) (length (ip_prefix cfg f v (v_dst v) hlim n)) (ip_prefix cfg f v (v_dst v) hlim n ++ l4).
  Proof.
    pose proof (ip_prefix_length hlim n) as HL.
    destruct (view_sizes _ _ _ Hv) as (Hm & Hsz).
    unfold mask_frame. rewrite u16_at_app_l by (rewrite HL; destruct (v_v4 v); lia).
    rewrite !(u8_at_app_l _ _ l4) by (rewrite HL; destruct (v_v4 v); lia).
    rewrite HL. clear HL. unfold ip_prefix.
    destruct (len6 _ Hm) as (s0 & s1 & s2 & s3 & s4 & s5 & ->).
    destruct (len6 _ Hmac) as (m0 & m1 & m2 & m3 & m4 & m5 & ->).
    destruct (v_v4 v); reflexivity.
  Qed.
End Wrap.

(* ====================================================================== *)
(* whole frames                                                            *)
(* ====================================================================== *)
Section Frames.
  Variables (E : env) (clk clk' : clock) (cfg : config) (f : bytes) (v : l4view).
  Hypothesis Hmac : length (c_mac cfg) = 6%nat.
  Hypothesis Hv : view cfg f = Some v.
  Hypothesis Htpl : http_tpl_ok E = true.
  Hypothesis Hc : date_clean clk = true.
  Hypothesis Hc' : date_clean clk' = true.
  Hypothesis Hl : length (clk_date clk) = length (clk_date clk').

  Lemma wrap_tcp_masked sp dp s a d d' :
    v_proto v = 6 -> pay_rel E clk clk' d d' ->
    let r := wrap_ip cfg f v (v_dst v) 64 (seal_tcp v (tcp_header sp dp s a (ACK + PSH) ++ d)) in
    let r' := wrap_ip cfg f v (v_dst v) 64 (seal_tcp v (tcp_header sp dp s a (ACK + PSH) ++ d')) in
    length r = length r' /\ mask_frame r = mask_frame r'.
  Proof.
    intros Hp Hr. cbv zeta.
    pose proof (pay_rel_len _ _ _ _ _ Hr Hl) as Hdl.
    pose proof (pay_rel_mask _ _ _ _ _ Htpl Hc Hc' Hl Hr) as Hm.
    destruct (seal_tcp_shape v sp dp s a (ACK + PSH) d) as (c & ->).
    destruct (seal_tcp_shape v sp dp s a (ACK + PSH) d') as (c' & ->).
    rewrite !(wrap_ip_split cfg f v Hv).
    set (T16 := firstn 16 (tcp_header sp dp s a (ACK + PSH))).
    assert (HN : lenN (T16 ++ be16 c ++ [0; 0] ++ d) = lenN (T16 ++ be16 c' ++ [0; 0] ++ d')).
    { unfold lenN. rewrite !app_length, Hdl. reflexivity. }
    rewrite <- HN. set (P := ip_prefix cfg f v (v_dst v) 64 _).
    split.
    - rewrite !app_length, Hdl. reflexivity.
    - unfold P. rewrite !(mask_frame_prefix cfg f v Hmac Hv). fold P. rewrite Hp.
      rewrite !mask_l4_tcp by reflexivity. rewrite Hm. reflexivity.
  Qed.

  Lemma wrap_udp_masked sp dp d d' :
    v_proto v = 17 -> pay_rel E clk clk' d d' ->
    let r := wrap_ip cfg f v (v_dst v) 64 (seal_udp v (udp_dgram sp dp d)) in
    let r' := wrap_ip cfg f v (v_dst v) 64 (seal_udp v (udp_dgram sp dp d')) in
    length r = length r' /\ mask_frame r = mask_frame r'.
  Proof.
    intros Hp Hr. cbv zeta.
    pose proof (pay_rel_len _ _ _ _ _ Hr Hl) as Hdl.
    pose proof (pay_rel_mask _ _ _ _ _ Htpl Hc Hc' Hl Hr) as Hm.
    destruct (seal_udp_shape v sp dp d) as (c & ->).
    destruct (seal_udp_shape v sp dp d') as (c' & ->).
    rewrite !(wrap_ip_split cfg f v Hv).
    assert (HD : lenN d = lenN d') by (unfold lenN; rewrite Hdl; reflexivity).
    rewrite <- HD.
    set (U6 := be16 sp ++ be16 dp ++ be16 (8 + lenN d)).
    assert (HN : lenN (U6 ++ be16 c ++ d) = lenN (U6 ++ be16 c' ++ d')).
    { unfold lenN. rewrite !app_length, Hdl. reflexivity. }
    rewrite <- HN. set (P := ip_prefix cfg f v (v_dst v) 64 _).
    split.
    - rewrite !app_length, Hdl. reflexivity.
    - unfold P. rewrite !(mask_frame_prefix cfg f v Hmac Hv). fold P. rewrite Hp.
      rewrite !mask_l4_udp by reflexivity. rewrite Hm. reflexivity.
  Qed.
End Frames.
