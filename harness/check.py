#!/usr/bin/env python3
"""check <Cxx> --quick|--thorough [--replay <file>]

Decides one property: (1) rebuilds the hooked implementation, the generated data,
the Coq development and the extracted model from /repo's current tree; (2) checks
that the property's theorems are proved (and closed under the global context);
(3) runs the correspondence between model and implementation on the property's
projection and evaluates the property's monitor on the implementation's output;
(4) prints the verdict and writes evidence/<id>.json."""
import sys, os, json, time, random, importlib, re, subprocess, hashlib
sys.path.insert(0, os.path.dirname(os.path.abspath(__file__)))
from common import *
import build, runner, intensify
from runner import Script, Cfg

FORBIDDEN = re.compile(r"\b(Admitted|admit|Axiom|Parameter|Conjecture|bypass_check)\b|Unset Guard|Unset Positivity|Unset Universe|type-in-type|Admit Obligations")
ALLOWED_AXIOMS = set()   # the development is axiom-free; anything listed by Print Assumptions is reported


def load_known():
    res = []
    path = os.path.join(VERIF, "known_findings.txt")
    if os.path.exists(path):
        for line in open(path):
            line = line.strip()
            if line.startswith("finding:"):
                kv = dict(x.split("=", 1) for x in line[len("finding:"):].split() if "=" in x)
                kv["text"] = line
                res.append(kv)
    return res


def grep_forbidden():
    bad = []
    for root, _, fs in os.walk(os.path.join(COQ, "theories")):
        for f in fs:
            if f.endswith(".v"):
                p = os.path.join(root, f)
                txt = re.sub(r"\(\*.*?\*\)", "", open(p).read(), flags=re.S)
                for m in FORBIDDEN.finditer(txt):
                    bad.append("%s: %s" % (os.path.relpath(p, COQ), m.group(0)))
    return bad


def proof_status(pid, theorems):
    """-> (obligations, discharged, problems[list of str], axioms[str])."""
    problems = []
    vo = os.path.join(COQ, "theories", "Properties", pid + ".vo")
    if not os.path.exists(vo) or os.path.getmtime(vo) < os.path.getmtime(vo[:-1]):
        return len(theorems), 0, ["Properties/%s.v does not compile (a proof obligation no longer checks)" % pid], []
    mods = sorted({t.split(".")[0] for t in theorems if "." in t} | {pid})
    for m in mods:
        mvo = os.path.join(COQ, "theories", "Properties", m + ".vo")
        if not os.path.exists(mvo) or os.path.getmtime(mvo) < os.path.getmtime(mvo[:-1]):
            return len(theorems), 0, ["Properties/%s.v does not compile (a proof obligation no longer checks)" % m], []
    src = "".join("From MS Require Properties.%s.\n" % m for m in mods)
    for t in theorems:
        src += "Print Assumptions %s.\n" % (("MS.Properties." + t) if "." in t else ("MS.Properties.%s.%s" % (pid, t)))
    tmp = os.path.join(CACHE, "assume_%s.v" % pid)
    with open(tmp, "w") as f:
        f.write(src)
    p = run(["coqc", "-Q", os.path.join(COQ, "theories"), "MS", "-Q", os.path.join(COQ, "gen"), "MSgen", tmp],
            cwd=CACHE, check=False, timeout=600)
    out = p.stdout
    if p.returncode != 0:
        return len(theorems), 0, ["assumption check failed: " + out[-800:]], []
    closed = out.count("Closed under the global context")
    axioms = [l.strip() for l in out.splitlines() if re.match(r"^\s*[\w.']+\s*:", l)]
    if closed != len(theorems):
        problems.append("axioms reported by Print Assumptions: " + "; ".join(axioms))
    bad = grep_forbidden()
    if bad:
        problems.append("forbidden constructs: " + ", ".join(bad[:10]))
    return len(theorems), closed, problems, axioms


def shrink(prop, script, fails, idx=None, budget=48):
    """Minimisation under an evaluation budget: first the failing frame alone, then the prefix that ends with it,
    then delta debugging (drop halves, quarters, ... single frames) while the failure persists."""
    keep_last = 1 if getattr(prop, "KEEP_LAST", False) else 0
    used = [0]

    def ok(c):
        if used[0] >= budget or not c.frames:
            return False
        used[0] += 1
        return fails(c)

    cur = script
    if idx is not None and 0 <= idx < len(script.frames):
        one = Script(script.cfg, [script.frames[idx]], script.tag)
        if len(script.frames) > 1 and ok(one):
            return one
        pre = Script(script.cfg, script.frames[:idx + 1], script.tag)
        if len(pre.frames) < len(cur.frames) and ok(pre):
            cur = pre
    n = 2
    while len(cur.frames) > 1 and used[0] < budget:
        body = len(cur.frames) - keep_last
        size = max(1, body // n)
        removed = False
        for start in range(0, body, size):
            cand = Script(cur.cfg, cur.frames[:start] + cur.frames[start + size:], cur.tag)
            if cand.frames and len(cand.frames) < len(cur.frames) and ok(cand):
                cur, removed = cand, True
                n = max(n - 1, 2)
                break
        if not removed:
            if size == 1:
                break
            n = min(n * 2, body)
    return cur


def evaluate(prop, scripts, drivers):
    """Run implementation(s) + model; return list of issue dicts and stats."""
    if hasattr(prop, "evaluate_custom"):
        return prop.evaluate_custom(scripts, drivers)
    issues = []
    stats = {"frames": 0, "replies": 0, "silence": 0, "panics": 0, "monitor_evals": 0}
    for dname, driver in drivers:
        io = runner.run_impl(scripts, driver)
        mo = runner.run_model(scripts, io, monitors=prop.MONITORS, ovf=(dname == "dev"))
        for si, s in enumerate(scripts):
            for fi in range(len(s.frames)):
                a, b = io[si][fi], mo[si][fi]
                stats["frames"] += 1
                stats["replies" if a.kind == "R" else "silence" if a.kind == "N" else "panics"] += 1
                for name, v in b.monitors.items():
                    stats["monitor_evals"] += 1
                    if not v and (not hasattr(prop, "monitor_applies") or prop.monitor_applies(name, s, fi)):
                        issues.append({"kind": "monitor", "script": s, "frame": fi, "driver": dname,
                                       "monitor": name, "impl": a.short(), "model": b.short(),
                                       # a monitor that applies to a frame because of what precedes it: keep the history
                                       "noshrink": name in getattr(prop, "NOSHRINK_MONITORS", ())})
                pa, pb = prop.project(s, fi, a), prop.project(s, fi, b)
                if pa != pb:
                    issues.append({"kind": "correspondence", "script": s, "frame": fi, "driver": dname,
                                   "impl": repr(pa), "model": repr(pb)})
            if hasattr(prop, "history_monitor"):
                for msg in prop.history_monitor(s, io[si]):
                    issues.append({"kind": "monitor", "script": s, "frame": msg[0], "driver": dname,
                                   "monitor": prop.ID + "-history", "impl": msg[1], "model": ""})
    return issues, stats


def write_replay(pid, issue, extra=None):
    os.makedirs(REPLAYS, exist_ok=True)
    s = issue.get("script")
    body = {"property": pid, "kind": issue["kind"], "detail": {k: v for k, v in issue.items() if k not in ("script",)}}
    if s is not None:
        body["script"] = s.to_json()
    if extra:
        body.update(extra)
    h = hashlib.sha1(json.dumps(body, sort_keys=True).encode()).hexdigest()[:12]
    path = os.path.join(REPLAYS, "%s_%s.json" % (pid, h))
    with open(path, "w") as f:
        json.dump(body, f, indent=1)
    return path


GAPS = (31, 61, 301, 3601, 90000)


def time_gap_variants(prop, scripts, seed, limit):
    """Copies of a spread of the multi-frame histories with time passing between frames (runner.adv_frame): the
    properties quantify over all histories and none of them mentions elapsed time, so the hooked driver's clocks are
    advanced by up to a day between frames; the model ignores the gap, the implementation must too."""
    if getattr(prop, "NO_GAPS", False):
        return []
    rng = random.Random(seed + 4242)
    multi = [s for s in scripts if isinstance(s, Script) and len(s.frames) >= 2
             and not any(runner.adv_seconds(f) is not None for f in s.frames)]
    if not multi:
        return []
    step = max(1, len(multi) // limit)
    out = []
    for s in multi[rng.randrange(step)::step][:limit]:
        frames = list(s.frames)
        for _ in range(rng.choice((1, 1, 2, 3))):
            frames.insert(rng.randrange(1, len(frames)), runner.adv_frame(rng.choice(GAPS)))
        out.append(Script(s.cfg, frames, (s.tag or "") + "+gaps"))
    return out


def main():
    t0 = time.time()
    args = sys.argv[1:]
    pid = args[0]
    tier = "thorough" if "--thorough" in args else "quick"
    tier = os.environ.get("VERIF_TIER", tier) if os.environ.get("VERIF_TIER") in ("quick", "thorough") else tier
    seed = int(os.environ.get("VERIF_SEED", "1"))
    prop = importlib.import_module("props." + pid.lower())
    replay = args[args.index("--replay") + 1] if "--replay" in args else None

    profiles = ("dev", "release") if (tier == "thorough" or getattr(prop, "NEEDS_RELEASE", False)) else ("dev",)
    ok, msg = build.build(profiles)
    # data generated by the build from the current source (e.g. the protocol numbering sigs.py reads) may have changed
    import sigs
    importlib.reload(sigs)
    prop = importlib.reload(prop)
    drivers = [("dev", DRIVER_DEV)] + ([("release", DRIVER_REL)] if "release" in profiles else [])
    known = [k for k in load_known() if k.get("property") == pid]

    violations = []       # list of (replay path, suffix)
    known_lines = []

    # ---- proof obligations ----
    obligations, discharged, problems, axioms = proof_status(pid, prop.THEOREMS)
    if tier == "thorough" and not problems:
        # independent re-check of the compiled closure
        cmd = ["coqchk", "-silent", "-o", "-Q", os.path.join(COQ, "theories"), "MS", "-Q", os.path.join(COQ, "gen"), "MSgen",
               "MS.Properties." + pid]
        p = run(cmd, cwd=COQ, check=False, timeout=3000)
        if p.returncode < 0 or (p.returncode != 0 and not p.stdout.strip()):
            # killed by a signal / died without a word (seen once on a loaded machine): not a verdict, try again
            log("coqchk exited with %s and no output; retrying once" % p.returncode)
            p = run(cmd, cwd=COQ, check=False, timeout=3000)
        if p.returncode != 0:
            problems.append("coqchk failed (exit %s): %s" % (p.returncode, p.stdout[-500:]))
        else:
            m = re.search(r"Axioms:(.*?)(\n\S|\Z)", p.stdout, re.S)
            if m and "<none>" not in m.group(1):
                problems.append("coqchk reports axioms: " + m.group(1).strip()[:400])

    # ---- correspondence + monitors ----
    rng = random.Random(seed)
    if replay:
        body = json.load(open(replay))
        scripts = [Script.from_json(body["script"])] if "script" in body else []
    else:
        # change-directed intensification: files anchored by this property differ from the validated baseline
        changed = intensify.changed_files() if tier == "quick" else []
        intense = tier == "quick" and intensify.relevant(pid, changed) and not getattr(prop, "NO_INTENSIFY", False)
        if intense:
            log("source files changed with respect to the validated baseline (%s): thorough generators, frame budget %d"
                % (", ".join(changed[:6]), intensify.FRAME_BUDGET))
            # the quick stream in full (intensification only ever ADDS to what a quick run explores), then a
            # budgeted prefix of the thorough stream drawn from an independent generator state
            scripts = list(prop.corpus()) + list(prop.generate(tier, rng)) + \
                list(intensify.capped(prop.generate("thorough", random.Random(seed + 7919))))
        else:
            scripts = list(prop.corpus()) + list(prop.generate(tier, rng))
        scripts += time_gap_variants(prop, scripts, seed, 60 if tier == "quick" else 400)
    issues, stats = evaluate(prop, scripts, drivers) if scripts else ([], {"frames": 0})

    # classify
    mon_issues = [i for i in issues if i["kind"] == "monitor"]
    cor_issues = [i for i in issues if i["kind"] == "correspondence"]
    seen_known = set()
    reported = 0
    for i in mon_issues:
        cls = prop.known_class(i) if hasattr(prop, "known_class") else None
        kf = next((k for k in known if k.get("class") == cls), None) if cls else None
        if kf:
            if cls not in seen_known:
                seen_known.add(cls)
                known_lines.append("KNOWN-FINDING: property=%s %s" % (pid, kf["text"].split(" ", 3)[-1]))
            continue
        if reported < 3:
            def fails(c, i=i):
                iss, _ = evaluate(prop, [c], [d for d in drivers if d[0] == i["driver"]])
                return any(x["kind"] == "monitor" and x["monitor"] == i["monitor"] for x in iss)
            small = i["script"] if i.get("noshrink") else shrink(prop, i["script"], fails, i.get("frame"))
            iss2, _ = evaluate(prop, [small], [d for d in drivers if d[0] == i["driver"]])
            i2 = next((x for x in iss2 if x["kind"] == "monitor"), i)
            violations.append((write_replay(pid, i2), ""))
        reported += 1
    # a class listed as known but no longer failing is only information
    for k in known:
        if k.get("class") not in seen_known and hasattr(prop, "known_witness_active"):
            pass

    broken = []
    if problems:
        broken += problems
    if hasattr(prop, "static_checks"):
        broken += list(prop.static_checks())
    if cor_issues:
        # disagreement inside an open known class is not compared (DESIGN 4)
        cor_issues = [i for i in cor_issues
                      if not (hasattr(prop, "known_class") and prop.known_class(i)
                              and any(k.get("class") == prop.known_class(i) for k in known))]
    if cor_issues:
        broken.append("correspondence: %d disagreement(s) between model and implementation on the projection of %s"
                      % (len(cor_issues), pid))
    if broken and not violations:
        # search: the monitors already ran on every executed case, including the neighbourhood
        # of the disagreeing cases produced by the property's own mutator
        extra_scripts = []
        if cor_issues and hasattr(prop, "neighbourhood"):
            for i in cor_issues[:20]:
                extra_scripts += list(prop.neighbourhood(i["script"], rng))
        if not cor_issues and hasattr(prop, "search"):
            extra_scripts += list(prop.search(rng))
        found = None
        if extra_scripts:
            iss3, _ = evaluate(prop, extra_scripts, drivers)
            found = next((x for x in iss3 if x["kind"] == "monitor"
                          and not (hasattr(prop, "known_class") and prop.known_class(x)
                                   and any(k.get("class") == prop.known_class(x) for k in known))), None)
        if found:
            violations.append((write_replay(pid, found, {"broken": broken}), ""))
        else:
            first = cor_issues[0] if cor_issues else {"kind": "proof"}
            violations.append((write_replay(pid, first, {"broken": broken,
                               "note": "no failing input found; the named obligation(s) no longer check"}),
                               " no-failing-input-found"))

    # ---- evidence ----
    distinct = len({(json.dumps(s.cfg.to_json(), sort_keys=True), tuple(s.frames)) for s in scripts
                    if prop.nontrivial(s)})
    samples = [{"tag": s.tag, "cfg": s.cfg.to_json(), "frames": [f.hex()[:400] for f in s.frames[:6]]}
               for s in scripts[:3]] + [{"theorem": t} for t in prop.THEOREMS]
    ev = {
        "property_id": pid, "tier": tier, "seed": seed, "level": "proof",
        "coverage": {
            "obligations": obligations, "discharged": discharged,
            "checker_cmd": "cd /verif/coq && make && coqc <Print Assumptions for: %s>%s" % (
                ", ".join(prop.THEOREMS), " && coqchk -o MS.Properties.%s" % pid if tier == "thorough" else ""),
            "trusted_base": prop.TRUSTED if hasattr(prop, "TRUSTED") else [],
            "theorems": prop.THEOREMS,
            "axioms_reported": axioms,
            "proof_problems": problems,
            "evaluations": stats.get("frames", 0),
            "distinct_nontrivial": distinct,
            "rule": prop.RULE,
            "samples": samples,
            "correspondence": {"scripts": len(scripts), "drivers": [d[0] for d in drivers], **stats,
                               "disagreements": len(cor_issues), "monitor_failures": len(mon_issues)},
            "traces_validated_against_impl": len(scripts),
            "known_findings_seen": sorted(seen_known),
            "intensified_because_changed": (intensify.changed_files() if (not replay and tier == "quick" and
                                            intensify.relevant(pid, intensify.changed_files())) else []),
        },
        "assumptions": getattr(prop, "ASSUMPTIONS", []),
        "wall_s": round(time.time() - t0, 2),
        "violations": len(violations),
    }
    os.makedirs(EVIDENCE, exist_ok=True)
    with open(os.path.join(EVIDENCE, pid + ".json"), "w") as f:
        json.dump(ev, f, indent=1)

    for l in known_lines:
        print(l)
    seen_v = set()
    violations = [v for v in violations if not (v[0] in seen_v or seen_v.add(v[0]))]
    for path, suffix in violations:
        print("VIOLATION property=%s replay=%s%s" % (pid, path, suffix))
    if not violations:
        print("OK property=%s tier=%s obligations=%d/%d frames=%d wall=%.1fs" % (
            pid, tier, discharged, obligations, stats.get("frames", 0), time.time() - t0))
    sys.exit(1 if violations else 0)


if __name__ == "__main__":
    main()
