(* Pipeline.v -- factorisation of reply(): when the stack's view of a frame is a
   TCP / UDP packet, reply() is the transport responder wrapped in the IP and
   Ethernet builders; when there is no view, there is no reply. *)
From MS Require Import Proofs.Tactics L2 Spec.View.

Definition strip {A B C : Type} (r : res (A * B * C)) : res (A * B) :=
  match r with Ok (a, b, _) => Ok (a, b) | Panic s => Panic s end.

Lemma ok_pair_inj {A B : Type} (a c : A) (b d : B) : @Ok (A * B) (a, b) = Ok (c, d) -> a = c /\ b = d.
Proof. intros H. inversion H. split; reflexivity. Qed.

Definition base_ci (f : bytes) : cinfo := ci_set_mac ci_empty (slice 6 6 f) (slice 0 6 f).

Definition l3_ci (f : bytes) (v : l4view) : cinfo :=
  ci_set_transport
    (ci_set_ip (base_ci f)
               (if v_v4 v then V4 (v_src v) else V6 (v_src v))
               (if v_v4 v then V4 (v_dst v) else V6 (v_dst v)))
    (v_proto v).

(* the frame that carries transport packet [l4] back to the sender of [f] *)
Definition wrap_ip (cfg : config) (f : bytes) (v : l4view) (rsrc : bytes) (hlim : N) (l4 : bytes) : bytes :=
  if v_v4 v then
    let pkt := ipv4_header (20 + lenN l4) (v_proto v) rsrc (v_src v) ++ l4 in
    eth_frame (slice 6 6 f) (c_mac cfg) 2048 (set_cksum 10 pkt (checksum (firstn 20 pkt)))
  else
    eth_frame (slice 6 6 f) (c_mac cfg) 34525
              (ipv6_header (lenN l4) (v_proto v) hlim rsrc (v_src v) ++ l4).

Definition seal_tcp (v : l4view) (r : bytes) : bytes :=
  set_cksum 16 r (checksum_pseudo (v_dst v) (v_src v) 6 r).

Definition seal_udp (v : l4view) (r : bytes) : bytes :=
  set_cksum 6 r (if v_v4 v then checksum_pseudo (v_dst v) (v_src v) 17 r
                 else udp6_cksum (checksum_pseudo (v_dst v) (v_src v) 17 r)).

Lemma in_scope_v4 cfg src dst :
  in_scope_ip cfg (V4 src) (V4 dst) false = true ->
  (match c_self cfg with Some l => negb (ip_in (V4 dst) l) | None => false end) = false /\
  (match c_deny cfg with Some l => ip_in (V4 src) l | None => false end) = false.
Proof.
  unfold in_scope_ip. intros H. apply andb_true_iff in H. destruct H as [H1 H2].
  split.
  - destruct (c_self cfg); [|reflexivity]. rewrite orb_false_r in H1. rewrite H1. reflexivity.
  - destruct (c_deny cfg); [|reflexivity]. apply negb_true_iff in H2. exact H2.
Qed.

Lemma in_scope_v6 cfg src dst b :
  in_scope_ip cfg (V6 src) (V6 dst) b = true ->
  (match c_self cfg with Some l => negb (ip_in (V6 dst) l) && negb b | None => false end) = false /\
  (match c_deny cfg with Some l => ip_in (V6 src) l | None => false end) = false.
Proof.
  unfold in_scope_ip. intros H. apply andb_true_iff in H. destruct H as [H1 H2].
  split.
  - destruct (c_self cfg); [|reflexivity].
    destruct (ip_in (V6 dst) l); cbn in *; [reflexivity|]. rewrite H1. reflexivity.
  - destruct (c_deny cfg); [|reflexivity]. apply negb_true_iff in H2. exact H2.
Qed.

(* decomposition of a successful view *)
Lemma view_inv cfg f v :
  view cfg f = Some v ->
  (length f <? 14)%nat = false /\ auth_mac cfg (slice 0 6 f) = true /\
  ((u16_at 12 f = 2048 /\ (length (skipn 14 f) <? 20)%nat = false /\ v_v4 v = true /\
    v_src v = slice 12 4 (skipn 14 f) /\ v_dst v = slice 16 4 (skipn 14 f) /\
    v_proto v = u8_at 9 (skipn 14 f) /\ v_l4 v = ipv4_payload (skipn 14 f) /\
    in_scope_ip cfg (V4 (v_src v)) (V4 (v_dst v)) false = true) \/
   (u16_at 12 f = 34525 /\ (length (skipn 14 f) <? 40)%nat = false /\ v_v4 v = false /\
    v_src v = slice 8 16 (skipn 14 f) /\ v_dst v = slice 24 16 (skipn 14 f) /\
    v_proto v = u8_at 6 (skipn 14 f) /\ v_l4 v = ipv6_payload (skipn 14 f) /\
    in_scope_ip cfg (V6 (v_src v)) (V6 (v_dst v)) (v_proto v =? 58) = true)).
Proof.
  unfold view. intros H.
  destruct (length f <? 14)%nat; [discriminate|].
  destruct (auth_mac cfg (slice 0 6 f)); cbn [negb] in H; [|discriminate].
  split; [reflexivity|]. split; [reflexivity|].
  destruct (u16_at 12 f =? 2048) eqn:E4.
  - left. destruct (length (skipn 14 f) <? 20)%nat; [discriminate|].
    destruct (in_scope_ip cfg _ _ false) eqn:Es; [|discriminate].
    inversion H; subst v; cbn. repeat split; try reflexivity; try lia. exact Es.
  - destruct (u16_at 12 f =? 34525) eqn:E6; [|discriminate].
    right. destruct (length (skipn 14 f) <? 40)%nat; [discriminate|].
    destruct (in_scope_ip cfg _ _ _) eqn:Es; [|discriminate].
    inversion H; subst v; cbn. repeat split; try reflexivity; try lia. exact Es.
Qed.

(* reply() on a frame whose view is a TCP segment *)
Lemma reply_tcp E cfg clk tb f v :
  view_tcp cfg f = Some v ->
  strip (reply E cfg clk tb f) =
  match tcp_repl E cfg clk tb (l3_ci f v) (v_l4 v) with
  | Ok (tb', _, Some r, _) => Ok (tb', Some (wrap_ip cfg f v (v_dst v) 64 (seal_tcp v r)))
  | Ok (tb', _, None, _) => Ok (tb', None)
  | Panic s => Panic s
  end.
Proof.
  unfold view_tcp. intros H.
  destruct (view cfg f) as [v'|] eqn:Hv; [|discriminate].
  destruct ((v_proto v' =? 6) && (20 <=? length (v_l4 v'))%nat) eqn:Hc; [|discriminate].
  inversion H; subst v'. clear H.
  apply andb_true_iff in Hc. destruct Hc as [Hp Hl].
  apply N.eqb_eq in Hp.
  destruct (view_inv _ _ _ Hv) as (Hlen & Hauth & [H4 | H6]).
  - destruct H4 as (Hety & Hl3 & Hv4 & Hsrc & Hdst & Hproto & Hl4 & Hscope).
    unfold reply, eth_repl. rewrite Hlen, Hauth. cbn [negb].
    rewrite Hety. change (2048 =? 2054) with false. change (2048 =? 2048) with true.
    rewrite Hl3. unfold ipv4_repl.
    rewrite <- Hsrc, <- Hdst, <- Hproto.
    destruct (in_scope_v4 _ _ _ Hscope) as [-> ->].
    rewrite Hp. change (6 =? 1) with false. change (6 =? 6) with true.
    rewrite <- Hl4.
    assert ((length (v_l4 v) <? 20)%nat = false) as -> by lia.
    unfold l3_ci, base_ci, wrap_ip, seal_tcp. rewrite Hv4, Hp.
    destruct (tcp_repl E cfg clk tb _ (v_l4 v)) as [[[[tb' ci'] [r|]] evs]|s]; cbn; reflexivity.
  - destruct H6 as (Hety & Hl3 & Hv4 & Hsrc & Hdst & Hproto & Hl4 & Hscope).
    unfold reply, eth_repl. rewrite Hlen, Hauth. cbn [negb].
    rewrite Hety. change (34525 =? 2054) with false. change (34525 =? 2048) with false.
    change (34525 =? 34525) with true.
    rewrite Hl3. unfold ipv6_repl.
    rewrite <- Hsrc, <- Hdst, <- Hproto.
    destruct (in_scope_v6 _ _ _ _ Hscope) as [-> ->].
    rewrite Hp. change (6 =? 58) with false. change (6 =? 6) with true.
    rewrite <- Hl4.
    assert ((length (v_l4 v) <? 20)%nat = false) as -> by lia.
    unfold l3_ci, base_ci, wrap_ip, seal_tcp. rewrite Hv4, Hp.
    destruct (tcp_repl E cfg clk tb _ (v_l4 v)) as [[[[tb' ci'] [r|]] evs]|s]; cbn; reflexivity.
Qed.
