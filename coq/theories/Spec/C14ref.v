(* Spec/C14ref.v -- C14 (DNS) against the PUBLISHED signature list.

   Spec/C14.v evaluates the clause "not itself completing another protocol's
   signature" on the compiled matcher of the implementation ([udp_id E p = None]):
   the monitor [ok_C14_udp E] then depends on the table dumped from the code.  Here
   the clause is evaluated on the reference of the published signature set
   (Spec/RefSig.v, [ref_udp p = None]); the monitors below depend on no data of the
   implementation.

   The compiled matcher and the published set are known to part on C10's class
   (Spec/C10Known.v).  Decision: the exclusion of that class is part of the MONITOR
   ([ok_C14_udp_ref]: inside [c10_class_payload false p] nothing is demanded), so that
   the theorem holds of every frame without side condition and the runner needs no
   second predicate; [ok_C14_udp_ref_strict] is the property as worded against the
   published list (no exclusion), and [c14_c10_class_frame] the class predicate on
   frames, to attribute a failure of the strict monitor to C10's class.
   The REFINED class is used: a datagram whose reference run first meets a dead point
   of K0 is in the class only if the published set identifies it -- an in-scope DNS
   query whose ID starts like another signature (e.g. 'G', 0x47) is in the coarse
   class D0 but not in the refined one (Proofs/GlueC14.v, examples).
   Definitions only. *)
From MS Require Export Bytes Types Spec.AppView Spec.RefSig Spec.C10 Spec.C10Known Spec.C14.

(* [strict = false]: C10's class excluded *)
Definition app_ok_C14_ref_gen (strict : bool) (ctx : app_ctx) (p : bytes) (o : option bytes) : bool :=
  if negb strict && c10_class_payload false p then true
  else
    match ref_udp p with
    | Some _ => true
    | None => app_ok_C14_core ctx p o
    end.

Definition app_ok_C14_ref : app_ctx -> bytes -> option bytes -> bool := app_ok_C14_ref_gen false.
Definition app_ok_C14_ref_strict : app_ctx -> bytes -> option bytes -> bool := app_ok_C14_ref_gen true.

Definition ok_C14_udp_ref (cfg : config) (f : bytes) (r : option bytes) : bool :=
  ok_app_udp app_ok_C14_ref cfg f r.
Definition ok_C14_udp_ref_strict (cfg : config) (f : bytes) (r : option bytes) : bool :=
  ok_app_udp app_ok_C14_ref_strict cfg f r.

(* the frame carries a datagram of C10's (refined) class *)
Definition c14_c10_class_frame (cfg : config) (f : bytes) : bool :=
  match udp_req cfg f with
  | Some (_, p) => c10_class_payload false p
  | None => false
  end.

(* coverage counters, independent of the compiled table *)
Definition c14_positive_frame_ref (cfg : config) (f : bytes) : bool :=
  match udp_req cfg f with
  | Some (ctx, p) =>
    a_v4 ctx && negb (a_tcp ctx) && negb (c10_class_payload false p) &&
    match ref_udp p with
    | Some _ => false
    | None => match classify p with InScope _ => true | _ => false end
    end
  | None => false
  end.
Definition c14_negative_frame_ref (cfg : config) (f : bytes) : bool :=
  match udp_req cfg f with
  | Some (ctx, p) =>
    a_v4 ctx && negb (a_tcp ctx) && negb (c10_class_payload false p) &&
    match ref_udp p with
    | Some _ => false
    | None => match classify p with NotInA | Truncated => true | _ => false end
    end
  | None => false
  end.
