"""Data translator: dump of the compiled smack automata -> coq/gen/Tables.v and
a plain-text copy for the OCaml model runner. Pure formatting, no interpretation."""
import os, subprocess
from common import *


def dump_tables(driver):
    p = subprocess.run([driver], input="DUMP\n", stdout=subprocess.PIPE, stderr=subprocess.DEVNULL,
                       env=dict(os.environ, MASSCANNED_VERIF="1"), text=True, timeout=120)
    out = p.stdout
    if "@@END" not in out:
        raise RuntimeError("table dump failed")
    tables = []
    cur = None
    for line in out.splitlines():
        w = line.split()
        if not w:
            continue
        if w[0] == "smack":
            cur = dict(kv.split("=", 1) for kv in w[1:])
            cur["match"] = {}
        elif w[0] == "c2s":
            cur["c2s"] = [int(x) for x in w[1:]]
        elif w[0] == "trans":
            cur["trans"] = [int(x) for x in w[1:]]
        elif w[0] == "match":
            r, cnt = int(w[1]), int(w[2])
            ids = [int(x) for x in w[3:]]
            if cnt != len(ids):
                raise RuntimeError("m_count differs from m_ids length at row %d" % r)
            cur["match"][r] = ids
        elif w[0] == "end":
            tables.append(cur)
            cur = None
    return tables


def coq_list(xs):
    return "[" + "; ".join(str(x) for x in xs) + "]"


def table_to_coq(name, t):
    rows = int(t["rows"])
    cols = 1 << int(t["row_shift"])
    tr = t["trans"]
    assert len(tr) == rows * cols
    nsym = int(t["symbol_count"]) + 1
    lines = ["Definition %s : smack := {|" % name,
             "  sm_rows := %d;" % rows,
             "  sm_match_limit := %s;" % t["match_limit"],
             "  sm_c2s := %s;" % coq_list(t["c2s"]),
             "  sm_trans := ["]
    body = []
    for r in range(rows):
        body.append("    " + coq_list(tr[r * cols:(r + 1) * cols]))
    lines.append(";\n".join(body))
    lines.append("  ];")
    lines.append("  sm_match := [")
    lines.append(";\n".join("    " + coq_list(t["match"].get(r, [])) for r in range(rows)))
    lines.append("  ]")
    lines.append("|}.")
    return "\n".join(lines) + "\n"


def generate(driver):
    tables = dump_tables(driver)
    by = {t["name"]: t for t in tables}
    src = "(* GENERATED from the implementation's compiled automata on every run; do not edit. *)\n"
    src += "From MS Require Import Smack.\nOpen Scope N_scope.\n\n"
    src += table_to_coq("proto_tbl", by["proto"]) + "\n" + table_to_coq("http_tbl", by["http"])
    changed = write_if_changed(os.path.join(GEN, "Tables.v"), src)
    return by, changed


if __name__ == "__main__":
    by, ch = generate(DRIVER_DEV)
    print("tables:", {k: (v["rows"], v["row_shift"], v["match_limit"]) for k, v in by.items()}, "changed" if ch else "unchanged")
