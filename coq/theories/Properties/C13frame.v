(* Properties/C13frame.v -- C13 (HTTP) as a theorem about received and emitted Ethernet
   frames: the frame-level monitors ok_C13_udp / ok_C13_tcp of Spec/C13.v hold of
   everything reply() emits.  No identification hypothesis: [env_ok] (decided on the
   current data, Properties/Env.v) gives it.  Proofs: Proofs/LiftTcp.v (generic lift),
   Proofs/C13Frame.v. *)
From MS Require Import Http Proto L2 Spec.View Spec.RefDec Spec.TcpRef Spec.AppView Spec.History
  Spec.RefHttp Spec.EnvOk Spec.C13 Instance
  Proofs.TcpState Proofs.C07 Proofs.C13 Proofs.LiftTcp Proofs.FrameBuild Proofs.C13Frame.

(* every frame: whatever is emitted for a UDP datagram in scope satisfies the monitor *)
Theorem C13_frame_udp :
  forall E cfg clk tb f tb' r evs,
    cfg_ok cfg = true -> env_ok E = true -> bytes_ok f = true -> no_lf (clk_date clk) = true ->
    reply E cfg clk tb f = Ok (tb', r, evs) ->
    ok_C13_udp cfg f r = true.
Proof. exact frame_udp_C13. Qed.

(* TCP, state level: a data segment whose flow's cookie is not a key of the table and which
   presents the cookie (the first accepted data segment of the flow) *)
Theorem C13_frame_tcp_first_state :
  forall E cfg clk tb f tb' r evs v,
    cfg_ok cfg = true -> env_ok E = true -> bytes_ok f = true -> no_lf (clk_date clk) = true ->
    view_tcp cfg f = Some v ->
    is_data (tcp_flags (v_l4 v)) = true ->
    tbl_mem (flow_cookie cfg (flow_of v)) tb = false ->
    presents_cookie cfg v = true ->
    reply E cfg clk tb f = Ok (tb', r, evs) ->
    exists o, tcp_resp r = Some o /\ app_ok_C13 (ctx_of true v) (tcp_payload (v_l4 v)) o = true.
Proof. exact frame_tcp_C13_state. Qed.

(* TCP, history level: after any history of frames (all processed without panic), with the
   reference connection state keyed by the 4-tuple, provided the frame's flow does not
   collide (same cookie) with a validated flow *)
Theorem C13_frame_tcp_first_history :
  forall E cfg h clk tb f tb' r evs,
    cfg_ok cfg = true -> env_ok E = true ->
    Forall (fun x => bytes_ok x = true) (frames h) -> bytes_ok f = true -> no_lf (clk_date clk) = true ->
    run E cfg [] h = Ok tb ->
    (forall v, view_tcp cfg f = Some v -> no_collision cfg (flow_of v :: ref_run cfg (frames h))) ->
    reply E cfg clk tb f = Ok (tb', r, evs) ->
    ok_C13_tcp cfg (ref_run cfg (frames h)) f r = true.
Proof. exact frame_tcp_C13_history. Qed.

(* spelled out on complete requests: the emitted frame carries the well-formed 401 *)
Theorem C13_frame_tcp_answered :
  forall E cfg h clk tb f tb' r evs ctx p n,
    cfg_ok cfg = true -> env_ok E = true ->
    Forall (fun x => bytes_ok x = true) (frames h) -> bytes_ok f = true -> no_lf (clk_date clk) = true ->
    run E cfg [] h = Ok tb ->
    (forall v, view_tcp cfg f = Some v -> no_collision cfg (flow_of v :: ref_run cfg (frames h))) ->
    tcp_first_req cfg (ref_run cfg (frames h)) f = Some (ctx, p) ->
    has_http_sig p = true -> http_complete_prefix p = Some n ->
    reply E cfg clk tb f = Ok (tb', r, evs) ->
    tcp_resp r = Some (Some (http_resp E clk)) /\ http_resp_wf (http_resp E clk) = true.
Proof. exact frame_tcp_C13_answered. Qed.
Theorem C13_frame_udp_answered :
  forall E cfg clk tb f tb' r evs ctx p n,
    cfg_ok cfg = true -> env_ok E = true -> bytes_ok f = true -> no_lf (clk_date clk) = true ->
    udp_req cfg f = Some (ctx, p) ->
    has_http_sig p = true -> http_complete_prefix p = Some n ->
    reply E cfg clk tb f = Ok (tb', r, evs) ->
    udp_resp r = Some (Some (http_resp E clk)) /\ http_resp_wf (http_resp E clk) = true.
Proof. exact frame_udp_C13_answered. Qed.

(* non-vacuity on the current data: a GET in the first data segment of an IPv4 flow (after
   the client's SYN), and in an IPv6 UDP datagram *)
Theorem C13_frame_examples :
  (cfg_ok fx_cfg = true /\ bytes_ok c13_tcp_frame = true /\ no_lf (clk_date fx_clk) = true /\
   Forall (fun x => bytes_ok x = true) (frames c13_tcp_hist) /\
   run the_env fx_cfg [] c13_tcp_hist = Ok [] /\ ref_run fx_cfg (frames c13_tcp_hist) = [] /\
   tcp_first_req fx_cfg [] c13_tcp_frame = Some (fx_ctx true true 40000 80, ex_get2) /\
   has_http_sig ex_get2 = true /\ http_complete_prefix ex_get2 = Some 47%nat /\
   (exists tb' evs, reply the_env fx_cfg fx_clk [] c13_tcp_frame = Ok (tb', c13_tcp_reply, evs)) /\
   tcp_resp c13_tcp_reply = Some (Some (http_resp the_env fx_clk)) /\
   ok_C13_tcp fx_cfg [] c13_tcp_frame c13_tcp_reply = true) /\
  (bytes_ok c13_udp_frame = true /\
   udp_req fx_cfg c13_udp_frame = Some (fx_ctx false false 40000 8080, ex_get2) /\
   (exists tb' evs, reply the_env fx_cfg fx_clk [] c13_udp_frame = Ok (tb', c13_udp_reply, evs)) /\
   udp_resp c13_udp_reply = Some (Some (http_resp the_env fx_clk)) /\
   ok_C13_udp fx_cfg c13_udp_frame c13_udp_reply = true).
Proof. exact (conj ex_C13_tcp_frame ex_C13_udp_frame). Qed.

Print Assumptions C13_frame_udp.
Print Assumptions C13_frame_tcp_first_state.
Print Assumptions C13_frame_tcp_first_history.
Print Assumptions C13_frame_tcp_answered.
Print Assumptions C13_frame_udp_answered.
Print Assumptions C13_frame_examples.
