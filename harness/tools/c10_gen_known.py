from c10_product import *
K=set(); typ={}
while True:
    vis,dis,cuts=explore(K,True)
    new=set(cuts)|set((d[3],d[4]) for d in dis)
    for c in cuts: typ.setdefault(c,"cut")
    for d in dis: typ[(d[3],d[4])]="verdict"
    if not new: break
    K|=new
by=collections.defaultdict(list)
for rs,b in K: by[rs].append(b)
IN=["I_GET","I_PUT","I_POST","I_HEAD","I_DELETE","I_CONNECT","I_OPTIONS","I_TRACE","I_PATCH","I_STUN_MAGIC","I_STUN_EMPTY","I_STUN_CHANGE","I_SSH2","I_SSH1","I_GHOST","I_RPC_TCP","I_RPC_UDP","I_SMB1","I_SMB2"]
def fam(rs,bs):
    n,live=rs
    names=[sigs[i][0] for i in live]
    if bs==[END]: return 'end'
    if set(names)<= {"RPC_TCP","RPC_UDP"}: return 'rpc'
    if any(x.startswith("STUN") for x in names) and n>=3: return 'stun'
    return 'shadow'
fams=collections.defaultdict(list)
for rs in sorted(by):
    bs=sorted(by[rs]); fams[fam(rs,bs)].append((rs,bs))
def entry(rs,bs):
    n,live=rs
    e = END in bs
    bb=[b for b in bs if b!=END]
    if len(bb)>128:
        neg=True; l=[b for b in range(256) if b not in bb]
    else: neg=False; l=bb
    return "  ((%d%%nat, [%s]), {| k_end := %s; k_neg := %s; k_bytes := [%s]; k_dead := %s |})"%(n,"; ".join(IN[i] for i in live),"true" if e else "false","true" if neg else "false","; ".join(str(x) for x in l),"true" if all(typ.get((rs,b))=="cut" for b in bb) and bb else "false")
out=[]
for f in ['shadow','rpc','stun','end']:
    out.append("Definition K0_%s : known := [\n%s\n]."%(f,";\n".join(entry(rs,bs) for rs,bs in fams[f])))
    print(f,len(fams[f]))
open('k0_body.v','w').write("\n\n".join(out)+"\n")
print(len(vis))
