(* C16Frame.v -- C16 (ONC-RPC / portmapper) as a statement about every received
   frame: the frame-level monitors ok_C16_udp / ok_C16_tcp of Spec/C16.v hold of
   everything reply() emits, WITHOUT assuming how the frame's payload is identified.
   The monitor demands the expected reply for every call in scope (outside the known
   class [rpc_shadowed], for the non-strict form); the responder is reached only
   through the compiled matcher, so what is needed is

     [rpc_ident_at E strict tcp p] -- "if the payload p is a call in scope (and, for
     the non-strict monitor, outside [rpc_shadowed]) then the compiled matcher
     identifies it as ONC-RPC (PROTO_RPC_UDP in a datagram, PROTO_RPC_TCP on the
     first data segment of a flow)".

   This is property C10 restricted to the two RPC signatures.  It is left as an
   explicit, named hypothesis -- pointwise in the general theorems, [rpc_ident_ok E
   strict tcp] (for all payloads) in the corollaries -- to be discharged for
   [the_env] by C10's product check: see [rpc_ident_ok_of_ref] at the end.
   Generic lift: Proofs/LiftTcp.v; application layer: Proofs/C16Reply.v. *)
From MS Require Import Proofs.Tactics Rpc Proto L2 Spec.View Spec.RefDec Spec.TcpRef Spec.RefXdr Spec.AppView
     Spec.History Spec.C16 Instance
     Proofs.Pipeline Proofs.ViewLemmas Proofs.C06 Proofs.TcpState Proofs.C07 Proofs.Lift Proofs.LiftTcp
     Proofs.C16Reply Proofs.C16Examples Proofs.FrameBuild.

(* ---------- the identification hypothesis (C10) ---------- *)
Definition c16_id (E : env) (tcp : bool) (p : bytes) : option N :=
  if tcp then tcp_first_id E p else udp_id E p.
Definition c16_proto (tcp : bool) : N := if tcp then PROTO_RPC_TCP else PROTO_RPC_UDP.

(* the payloads on which the monitor demands an answer *)
Definition c16_demands (strict tcp : bool) (p : bytes) : bool :=
  match scope_call tcp p with
  | Some _ => negb (negb strict && rpc_shadowed tcp p)
  | None => false
  end.

Definition rpc_ident_at (E : env) (strict tcp : bool) (p : bytes) : Prop :=
  c16_demands strict tcp p = true -> c16_id E tcp p = Some (c16_proto tcp).

Definition rpc_ident_ok (E : env) (strict tcp : bool) : Prop :=
  forall p, bytes_ok p = true -> rpc_ident_at E strict tcp p.

Lemma rpc_ident_at_identified E strict tcp p :
  c16_id E tcp p = Some (c16_proto tcp) -> rpc_ident_at E strict tcp p.
Proof. intros H _. exact H. Qed.

(* how C10 discharges it: from any reference identification [ref] that agrees with the
   compiled matcher outside a known-disagreement language D0 (C10_current), it suffices
   that D0 contains no demanded payload and that [ref] identifies demanded payloads --
   two facts about the REFERENCE signature set, no longer about the compiled tables *)
Lemma rpc_ident_ok_of_ref (E : env) (strict tcp : bool) (ref : bytes -> option N) (D0 : bytes -> bool) :
  (forall p, D0 p = false -> c16_id E tcp p = ref p) ->
  (forall p, bytes_ok p = true -> c16_demands strict tcp p = true ->
             D0 p = false /\ ref p = Some (c16_proto tcp)) ->
  rpc_ident_ok E strict tcp.
Proof.
  intros Hc10 Href p Hp Hd. destruct (Href p Hp Hd) as [H0 Hr]. rewrite (Hc10 p H0). exact Hr.
Qed.

(* ---------- what every frame provides ---------- *)
Lemma frame_ctx_c16 tcp ctx : frame_ctx_ok tcp ctx -> ctx_ok ctx.
Proof.
  intros (_ & _ & Hd & _ & _ & _ & Hdp). unfold ctx_ok. split; [|exact Hdp].
  rewrite Hd. destruct (a_v4 ctx); lia.
Qed.

(* ---------- proto::repl, any identification ---------- *)
Lemma app_ok_C16_gen_of_strict strict ctx p o :
  app_ok_C16_gen true ctx p o = true -> app_ok_C16_gen strict ctx p o = true.
Proof.
  unfold app_ok_C16_gen. destruct (scope_call (a_tcp ctx) p); [|reflexivity].
  cbn [negb andb]. destruct (negb strict && rpc_shadowed (a_tcp ctx) p); [reflexivity|]. exact (fun H => H).
Qed.

Lemma app_ok_C16_gen_undemanded strict ctx p o :
  c16_demands strict (a_tcp ctx) p = false -> app_ok_C16_gen strict ctx p o = true.
Proof.
  unfold c16_demands, app_ok_C16_gen. destruct (scope_call (a_tcp ctx) p); [|reflexivity].
  destruct (negb strict && rpc_shadowed (a_tcp ctx) p); [reflexivity|discriminate].
Qed.

Theorem C16_proto_udp_any E clk cfg ms md strict ctx p ci' o :
  a_tcp ctx = false -> bytes_ok p = true -> ctx_ok ctx ->
  rpc_ident_at E strict false p ->
  proto_repl_udp E clk (ctx_ci cfg ms md ctx) p = Ok (ci', o) ->
  app_ok_C16_gen strict ctx p o = true.
Proof.
  intros Htcp Hok Hctx Hident Hpr.
  destruct (c16_demands strict false p) eqn:Hd.
  - specialize (Hident Hd). cbn [c16_id c16_proto] in Hident.
    destruct (C16_proto_udp E clk cfg ms md ctx p Htcp Hok Hctx Hident) as (o' & Hpr' & Hs & _).
    rewrite Hpr in Hpr'. inversion Hpr'; subst o'. apply app_ok_C16_gen_of_strict. exact Hs.
  - apply app_ok_C16_gen_undemanded. rewrite Htcp. exact Hd.
Qed.

(* over TCP the emitted segment carries [norm_out o]: an empty answer would be no answer *)
Lemma app_ok_C16_strict_norm ctx p o :
  a_tcp ctx = true -> app_ok_C16_gen true ctx p o = true -> app_ok_C16_gen true ctx p (norm_out o) = true.
Proof.
  intros Htcp. destruct o as [[|b d]|]; try exact (fun H => H).
  unfold app_ok_C16_gen, norm_out. rewrite Htcp. destruct (scope_call true p); [|reflexivity].
  cbn. discriminate.
Qed.

Theorem C16_proto_tcp_any E clk cfg ms md strict ctx p ci' tc' o :
  a_tcp ctx = true -> bytes_ok p = true -> ctx_ok ctx ->
  rpc_ident_at E strict true p ->
  proto_repl_tcp E clk (ctx_ci cfg ms md ctx) tcb_new p = Ok (ci', tc', o) ->
  app_ok_C16_gen strict ctx p (norm_out o) = true.
Proof.
  intros Htcp Hok Hctx Hident Hpr.
  destruct (c16_demands strict true p) eqn:Hd.
  - specialize (Hident Hd). cbn [c16_id c16_proto] in Hident.
    destruct (C16_proto_tcp E clk cfg ms md ctx p Htcp Hok Hctx Hident) as (tc2 & o' & Hpr' & Hs & _).
    rewrite Hpr in Hpr'. inversion Hpr'; subst tc2 o'. apply app_ok_C16_gen_of_strict.
    apply app_ok_C16_strict_norm; assumption.
  - apply app_ok_C16_gen_undemanded. rewrite Htcp. exact Hd.
Qed.

(* ---------- whole frames ---------- *)
Theorem frame_udp_C16_gen E cfg clk tb f tb' r evs strict :
  cfg_ok cfg = true -> bytes_ok f = true ->
  (forall ctx p, udp_req cfg f = Some (ctx, p) -> rpc_ident_at E strict false p) ->
  reply E cfg clk tb f = Ok (tb', r, evs) ->
  ok_app_udp (app_ok_C16_gen strict) cfg f r = true.
Proof.
  intros Hcfg Hf Hident Hr.
  apply (ok_app_udp_lift (app_ok_C16_gen strict) E cfg clk tb f tb' r evs Hcfg Hf); [|exact Hr].
  intros ctx p ci' out Hreq Hp Hctx Hpr.
  apply (C16_proto_udp_any E clk cfg (slice 6 6 f) (slice 0 6 f) strict ctx p ci' out); try assumption.
  - apply Hctx.
  - exact (frame_ctx_c16 false ctx Hctx).
  - exact (Hident ctx p Hreq).
Qed.

Theorem frame_tcp_C16_gen_agree E cfg st clk tb f tb' r evs strict :
  cfg_ok cfg = true -> bytes_ok f = true ->
  st_agrees cfg st tb f ->
  (forall ctx p, tcp_first_req cfg st f = Some (ctx, p) -> rpc_ident_at E strict true p) ->
  reply E cfg clk tb f = Ok (tb', r, evs) ->
  ok_app_tcp_first (app_ok_C16_gen strict) cfg st f r = true.
Proof.
  intros Hcfg Hf Hag Hident Hr.
  apply (ok_app_tcp_first_lift (app_ok_C16_gen strict) E cfg st clk tb f tb' r evs Hcfg Hf Hag); [|exact Hr].
  intros ctx p ci' tc' out Hreq Hp Hctx Hpr.
  apply (C16_proto_tcp_any E clk cfg (slice 6 6 f) (slice 0 6 f) strict ctx p ci' tc' out); try assumption.
  - apply Hctx.
  - exact (frame_ctx_c16 true ctx Hctx).
  - exact (Hident ctx p Hreq).
Qed.

Theorem frame_tcp_C16_gen_history E cfg h clk tb f tb' r evs strict :
  cfg_ok cfg = true ->
  Forall (fun x => bytes_ok x = true) (frames h) -> bytes_ok f = true ->
  run E cfg [] h = Ok tb ->
  (forall v, view_tcp cfg f = Some v -> no_collision cfg (flow_of v :: ref_run cfg (frames h))) ->
  (forall ctx p, tcp_first_req cfg (ref_run cfg (frames h)) f = Some (ctx, p) -> rpc_ident_at E strict true p) ->
  reply E cfg clk tb f = Ok (tb', r, evs) ->
  ok_app_tcp_first (app_ok_C16_gen strict) cfg (ref_run cfg (frames h)) f r = true.
Proof.
  intros Hcfg Hall Hf Hrun Hnc Hident Hr.
  apply (frame_tcp_C16_gen_agree E cfg _ clk tb f tb' r evs strict Hcfg Hf); try assumption.
  exact (st_agrees_history E cfg h tb f Hall Hrun Hnc).
Qed.

Theorem frame_tcp_C16_gen_state E cfg clk tb f tb' r evs v strict :
  cfg_ok cfg = true -> bytes_ok f = true ->
  view_tcp cfg f = Some v ->
  is_data (tcp_flags (v_l4 v)) = true ->
  tbl_mem (flow_cookie cfg (flow_of v)) tb = false ->
  presents_cookie cfg v = true ->
  rpc_ident_at E strict true (tcp_payload (v_l4 v)) ->
  reply E cfg clk tb f = Ok (tb', r, evs) ->
  exists o, tcp_resp r = Some o /\ app_ok_C16_gen strict (ctx_of true v) (tcp_payload (v_l4 v)) o = true.
Proof.
  intros Hcfg Hf Hvt Hd Hmem Hpres Hident Hr.
  apply (ok_app_tcp_first_lift_state (app_ok_C16_gen strict) E cfg clk tb f tb' r evs v Hcfg Hf Hvt Hd Hmem Hpres);
    [|exact Hr].
  intros ci' tc' out Hp Hctx Hpr.
  apply (C16_proto_tcp_any E clk cfg (slice 6 6 f) (slice 0 6 f) strict (ctx_of true v) _ ci' tc' out); try assumption.
  - reflexivity.
  - exact (frame_ctx_c16 true _ Hctx).
Qed.

(* ---- the monitors of Spec/C16.v, for every frame, under [rpc_ident_ok] ---- *)
Lemma tcp_first_req_payload_ok cfg st f ctx p :
  bytes_ok f = true -> tcp_first_req cfg st f = Some (ctx, p) -> bytes_ok p = true.
Proof.
  intros Hf Hreq. destruct (tcp_first_req_inv _ _ _ _ _ Hreq) as (v & Hvt & _ & -> & _).
  destruct (view_tcp_view _ _ _ Hvt) as [Hv _].
  pose proof (view_l4_ok _ _ _ Hf Hv) as Hok. unfold tcp_payload.
  destruct (_ <=? _)%nat; [reflexivity|apply bytes_ok_skipn, Hok].
Qed.

Lemma udp_req_payload_ok cfg f ctx p :
  bytes_ok f = true -> udp_req cfg f = Some (ctx, p) -> bytes_ok p = true.
Proof.
  intros Hf Hreq. unfold udp_req in Hreq. destruct (view_udp cfg f) as [v|] eqn:Hvu; [|discriminate].
  assert (p = skipn 8 (v_l4 v)) as -> by (inversion Hreq; reflexivity).
  destruct (view_udp_view _ _ _ Hvu) as (Hv & _). apply bytes_ok_skipn, (view_l4_ok _ _ _ Hf Hv).
Qed.

Corollary frame_udp_C16 E cfg clk tb f tb' r evs :
  cfg_ok cfg = true -> bytes_ok f = true -> rpc_ident_ok E false false ->
  reply E cfg clk tb f = Ok (tb', r, evs) ->
  ok_C16_udp cfg f r = true.
Proof.
  intros Hcfg Hf HI Hr. unfold ok_C16_udp, app_ok_C16.
  apply (frame_udp_C16_gen E cfg clk tb f tb' r evs false Hcfg Hf); [|exact Hr].
  intros ctx p Hreq. apply HI. exact (udp_req_payload_ok cfg f ctx p Hf Hreq).
Qed.

Corollary frame_tcp_C16 E cfg h clk tb f tb' r evs :
  cfg_ok cfg = true -> rpc_ident_ok E false true ->
  Forall (fun x => bytes_ok x = true) (frames h) -> bytes_ok f = true ->
  run E cfg [] h = Ok tb ->
  (forall v, view_tcp cfg f = Some v -> no_collision cfg (flow_of v :: ref_run cfg (frames h))) ->
  reply E cfg clk tb f = Ok (tb', r, evs) ->
  ok_C16_tcp cfg (ref_run cfg (frames h)) f r = true.
Proof.
  intros Hcfg HI Hall Hf Hrun Hnc Hr. unfold ok_C16_tcp, app_ok_C16.
  apply (frame_tcp_C16_gen_history E cfg h clk tb f tb' r evs false Hcfg Hall Hf Hrun Hnc); [|exact Hr].
  intros ctx p Hreq. apply HI. exact (tcp_first_req_payload_ok cfg _ f ctx p Hf Hreq).
Qed.

(* ---- frames whose payload IS identified as ONC-RPC: both monitors, no hypothesis on the matcher ---- *)
Corollary frame_udp_C16_identified E cfg clk tb f tb' r evs ctx p :
  cfg_ok cfg = true -> bytes_ok f = true ->
  udp_req cfg f = Some (ctx, p) -> udp_id E p = Some PROTO_RPC_UDP ->
  reply E cfg clk tb f = Ok (tb', r, evs) ->
  ok_C16_udp_strict cfg f r = true /\ ok_C16_udp cfg f r = true.
Proof.
  intros Hcfg Hf Hreq Hid Hr.
  split; [unfold ok_C16_udp_strict, app_ok_C16_strict|unfold ok_C16_udp, app_ok_C16];
    (apply (frame_udp_C16_gen E cfg clk tb f tb' r evs _ Hcfg Hf); [|exact Hr];
     intros ctx' p' Hreq'; rewrite Hreq in Hreq'; inversion Hreq'; subst;
     apply rpc_ident_at_identified; exact Hid).
Qed.

Corollary frame_tcp_C16_identified E cfg h clk tb f tb' r evs ctx p :
  cfg_ok cfg = true ->
  Forall (fun x => bytes_ok x = true) (frames h) -> bytes_ok f = true ->
  run E cfg [] h = Ok tb ->
  (forall v, view_tcp cfg f = Some v -> no_collision cfg (flow_of v :: ref_run cfg (frames h))) ->
  tcp_first_req cfg (ref_run cfg (frames h)) f = Some (ctx, p) -> tcp_first_id E p = Some PROTO_RPC_TCP ->
  reply E cfg clk tb f = Ok (tb', r, evs) ->
  ok_C16_tcp_strict cfg (ref_run cfg (frames h)) f r = true /\
  ok_C16_tcp cfg (ref_run cfg (frames h)) f r = true.
Proof.
  intros Hcfg Hall Hf Hrun Hnc Hreq Hid Hr.
  split; [unfold ok_C16_tcp_strict, app_ok_C16_strict|unfold ok_C16_tcp, app_ok_C16];
    (apply (frame_tcp_C16_gen_history E cfg h clk tb f tb' r evs _ Hcfg Hall Hf Hrun Hnc); [|exact Hr];
     intros ctx' p' Hreq'; rewrite Hreq in Hreq'; inversion Hreq'; subst;
     apply rpc_ident_at_identified; exact Hid).
Qed.

(* ---------- non-vacuity, on the data of the current implementation ---------- *)
(* GETPORT (portmapper v2) in a UDP/IPv4 datagram to port 111, two trailing bytes *)
Definition c16_udp_payload : bytes := ser_call x_getport ++ [9; 9].
Definition c16_udp_frame : bytes := fx_udp true 40000 111 c16_udp_payload.
Definition c16_udp_reply : option bytes :=
  match reply the_env fx_cfg fx_clk [] c16_udp_frame with Ok (_, r, _) => r | Panic _ => None end.

Definition reply_decoded (tcp : bool) (c : rpc_call) (o : option (option bytes)) : option rpc_reply :=
  match o with
  | Some (Some r) =>
    match (if tcp then strip_mark r else Some r) with
    | Some body => dec_reply (result_kind c) body
    | None => None
    end
  | _ => None
  end.

Example ex_C16_udp_frame :
  cfg_ok fx_cfg = true /\ bytes_ok c16_udp_frame = true /\
  udp_req fx_cfg c16_udp_frame = Some (fx_ctx true false 40000 111, c16_udp_payload) /\
  scope_call false c16_udp_payload = Some x_getport /\ rpc_shadowed false c16_udp_payload = false /\
  c16_demands true false c16_udp_payload = true /\
  udp_id the_env c16_udp_payload = Some PROTO_RPC_UDP /\
  (exists tb' evs, reply the_env fx_cfg fx_clk [] c16_udp_frame = Ok (tb', c16_udp_reply, evs)) /\
  reply_decoded false x_getport (udp_resp c16_udp_reply) =
    Some {| rp_xid := 2712847316; rp_verf_flavor := 0; rp_verf := []; rp_body := AccSuccess (ResPort 111) |} /\
  ok_C16_udp_strict fx_cfg c16_udp_frame c16_udp_reply = true /\
  ok_C16_udp fx_cfg c16_udp_frame c16_udp_reply = true.
Proof.
  do 7 (split; [vm_compute; reflexivity|]).
  split.
  - unfold c16_udp_reply. destruct (reply the_env fx_cfg fx_clk [] c16_udp_frame) as [[[tb' r] evs]|s] eqn:H.
    + eexists _, _. reflexivity.
    + exfalso. revert H. vm_compute. discriminate.
  - repeat split; vm_compute; reflexivity.
Qed.

(* rpcbind v4 GETADDR in the first data segment of a TCP/IPv6 flow to port 111 (after the SYN) *)
Definition c16_tcp_payload : bytes := ser_call_tcp x_getaddr.
Definition c16_tcp_frame : bytes := fx_data false 50000 111 7000 c16_tcp_payload.
Definition c16_tcp_hist : list (clock * bytes) := fx_hist false 50000 111 6999.
Definition c16_tcp_reply : option bytes :=
  match reply the_env fx_cfg fx_clk [] c16_tcp_frame with Ok (_, r, _) => r | Panic _ => None end.

Example ex_C16_tcp_frame :
  bytes_ok c16_tcp_frame = true /\
  Forall (fun x => bytes_ok x = true) (frames c16_tcp_hist) /\
  run the_env fx_cfg [] c16_tcp_hist = Ok [] /\ ref_run fx_cfg (frames c16_tcp_hist) = [] /\
  tcp_first_req fx_cfg [] c16_tcp_frame = Some (fx_ctx false true 50000 111, c16_tcp_payload) /\
  scope_call true c16_tcp_payload = Some x_getaddr /\ rpc_shadowed true c16_tcp_payload = false /\
  c16_demands true true c16_tcp_payload = true /\
  tcp_first_id the_env c16_tcp_payload = Some PROTO_RPC_TCP /\
  (exists tb' evs, reply the_env fx_cfg fx_clk [] c16_tcp_frame = Ok (tb', c16_tcp_reply, evs)) /\
  reply_decoded true x_getaddr (tcp_resp c16_tcp_reply) =
    Some (expected_reply (fx_ctx false true 50000 111) x_getaddr) /\
  ok_C16_tcp_strict fx_cfg [] c16_tcp_frame c16_tcp_reply = true /\
  ok_C16_tcp fx_cfg [] c16_tcp_frame c16_tcp_reply = true.
Proof.
  split; [vm_compute; reflexivity|]. split; [repeat constructor|].
  do 7 (split; [vm_compute; reflexivity|]).
  split.
  - unfold c16_tcp_reply. destruct (reply the_env fx_cfg fx_clk [] c16_tcp_frame) as [[[tb' r] evs]|s] eqn:H.
    + eexists _, _. reflexivity.
    + exfalso. revert H. vm_compute. discriminate.
  - repeat split; vm_compute; reflexivity.
Qed.
