(* Spec/C04.v -- every emitted frame is well-formed at every layer. *)
From MS Require Export Bytes Checksum Spec.RefDec.

(* checksum verification the way a receiver does it: the one's-complement sum over
   pseudo-header and data *including* the transmitted checksum folds to 0xFFFF *)
Definition l4_sum_ok (i : d_ip) : bool :=
  verify_sum (sum_words (di_src i) + sum_words (di_dst i) + di_proto i + lenN (di_payload i)
              + sum_words (di_payload i)).

(* TCP options: the bytes between the fixed header and the data offset form a well-formed option list
   (kind 0 ends the list, kind 1 is one byte, every other kind carries a length >= 2 that stays inside
   the area).  Together with [dec_tcp] (5 <= data offset, data offset * 4 <= segment length) this is
   "the data offset matches the real header": the property does not say that there are no options. *)
Fixpoint opts_wf (fuel : nat) (o : bytes) : bool :=
  match fuel with
  | O => match o with [] => true | _ => false end
  | S fuel' =>
    match o with
    | [] => true
    | k :: rest =>
      if k =? 0 then true
      else if k =? 1 then opts_wf fuel' rest
      else match rest with
           | [] => false
           | l :: _ => (2 <=? l) && (l <=? lenN o) && opts_wf fuel' (skipn (N.to_nat l) o)
           end
    end
  end.

Definition tcp_opts (p : bytes) (doff : N) : bytes := firstn (N.to_nat doff * 4 - 20) (skipn 20 p).

Definition wf_l4 (i : d_ip) : bool :=
  let p := di_payload i in
  if di_proto i =? 6 then
    match dec_tcp p with
    | None => false
    | Some t =>
      (let o := tcp_opts p (dt_doff t) in opts_wf (length o) o) && l4_sum_ok i &&
      (if dt_flags t =? 18 then negb (dt_window t =? 0) else true)
    end
  else if di_proto i =? 17 then
    match dec_udp p with
    | None => false
    | Some u =>
      (du_len u =? lenN p) &&
      (if di_v4 i then (du_cksum u =? 0) || l4_sum_ok i
       else negb (du_cksum u =? 0) && l4_sum_ok i)
    end
  else if di_v4 i && (di_proto i =? 1) then
    (4 <=? length p)%nat && verify_sum (sum_words p)
  else if negb (di_v4 i) && (di_proto i =? 58) then
    (4 <=? length p)%nat && l4_sum_ok i &&
    (if u8_at 0 p =? 136 then di_ttl i =? 255 else true)
  else true.

Definition wf_frame (r : bytes) : bool :=
  match dec_eth r with
  | None => false
  | Some e =>
    if de_type e =? 2054 then (28 <=? length (de_payload e))%nat
    else if de_type e =? 2048 then
      match dec_ipv4 (de_payload e) with      (* requires version 4, IHL 5 *)
      | None => false
      | Some i =>
        (di_len_field i =? lenN (de_payload e)) &&
        (* MF clear and fragment offset zero *)
        (N.land (u16_at 6 (di_hdr i)) 16383 =? 0) &&
        (1 <=? di_ttl i) &&
        verify_sum (sum_words (di_hdr i)) &&
        wf_l4 i
      end
    else if de_type e =? 34525 then
      match dec_ipv6 (de_payload e) with
      | None => false
      | Some i =>
        (di_len_field i =? lenN (di_payload i)) && (1 <=? di_ttl i) && wf_l4 i
      end
    else false
  end.

Definition ok_C04 (r : option bytes) : bool :=
  match r with None => true | Some rf => wf_frame rf end.
