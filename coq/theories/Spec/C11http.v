(* Spec/C11http.v -- vocabulary for "HTTP stream parsing is independent of TCP
   segmentation" (C11, HTTP half).  Definitions only.

   [http_step] feeds ONE byte to the parser as a segment of its own;
   [http_fold] feeds a byte string one byte at a time; [http_feed] feeds a list
   of segments.  The statements (Properties/C11http.v) say that, up to
   [http_sim], the parser state after any segmentation of a stream is the state
   after the whole stream, and that whether/when the 401 is sent is the same.

   [http_sim]: two states are similar when they are EQUAL, or when both are
   "dead": in state FAIL, or in state VERB with the verb matcher in a row from
   which no method can be matched any more ([dead_rows], re-checked per run by
   [http_tbl_ok]).  A dead state never answers and stays dead (theorem
   [dead_absorbing]).  Equality cannot be claimed for dead states: after "X:"
   in one segment the implementation stays in VERB (the matcher reported the
   ":" pattern), after "X" | ":" it is in FAIL; both are silent for ever. *)
From MS Require Export Http Spec.HttpTbl.

Definition http_step (tbl : smack) (s : http_st) (b : N) : res http_st := http_parse tbl s [b].

Fixpoint http_fold (tbl : smack) (s : http_st) (data : bytes) : res http_st :=
  match data with
  | [] => Ok s
  | b :: r => do s' <- http_step tbl s b; http_fold tbl s' r
  end.

Fixpoint http_feed (tbl : smack) (s : http_st) (segs : list bytes) : res http_st :=
  match segs with
  | [] => Ok s
  | d :: r => do s' <- http_parse tbl s d; http_feed tbl s' r
  end.

Definition http_dead (tbl : smack) (s : http_st) : bool :=
  (h_state s =? HTTP_FAIL) ||
  ((h_state s =? HTTP_VERB) && memN (h_smack s) (dead_rows tbl)).

Definition http_sim (tbl : smack) (s1 s2 : http_st) : Prop :=
  s1 = s2 \/ (http_dead tbl s1 = true /\ http_dead tbl s2 = true).

(* state invariant: the stored matcher state is a plain row of the table *)
Definition http_st_ok (tbl : smack) (s : http_st) : Prop := h_smack s < sm_rows tbl.

Definition http_answers (s : http_st) : bool := h_state s =? HTTP_CONTENT.

(* per-segment view: does the 401 go out with the k-th segment?  [http_feed_answers]
   runs the segments through the parser; [prefixes_at] lists the stream prefixes at
   the segment boundaries; [http_answers_at] is the reference reading, a function of
   the stream prefix alone (one whole-buffer parse from the initial state) *)
Fixpoint http_feed_answers (tbl : smack) (s : http_st) (segs : list bytes) : res (list bool) :=
  match segs with
  | [] => Ok []
  | d :: r =>
    do s' <- http_parse tbl s d;
    do l <- http_feed_answers tbl s' r;
    Ok (http_answers s' :: l)
  end.

Fixpoint prefixes_at (acc : bytes) (segs : list bytes) : list bytes :=
  match segs with
  | [] => []
  | d :: r => (acc ++ d) :: prefixes_at (acc ++ d) r
  end.

Definition http_answers_at (tbl : smack) (s : http_st) (upto : bytes) : res bool :=
  do h <- http_parse tbl s upto; Ok (http_answers h).
