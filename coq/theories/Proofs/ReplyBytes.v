(* ReplyBytes.v -- every emitted frame is a string of octets, and (for received
   frames of at most 4096 bytes) shorter than 64 KiB. One lemma pair
   ([X_bytes], [X_len]) per application responder, one for [dispatch]; adding a
   responder means adding one such pair and one case in [dispatch_bytes/_len]. *)
From MS Require Import Proofs.Tactics Spec.Pending Proofs.Pending Proofs.Pipeline Proofs.ViewLemmas Proofs.Factor
     Proofs.ChecksumLemmas Proofs.C06 Proofs.C04
     Proofs.SmbSafe Proofs.SmbLen
     L2 Spec.View Spec.RefDec Spec.C04 Spec.EnvOk.
(* last, so that [dec_digits] etc. denote the renderers of Text.v *)
From MS Require Import Text.

(* ====================================================================== *)
(* generic facts                                                          *)
(* ====================================================================== *)
Lemma bytes_ok_cons (b : N) (l : bytes) : bytes_ok (b :: l) = (b <? 256) && bytes_ok l.
Proof. reflexivity. Qed.

Lemma bytes_ok_app_intro (a b : bytes) :
  bytes_ok a = true -> bytes_ok b = true -> bytes_ok (a ++ b) = true.
Proof. intros Ha Hb. rewrite bytes_ok_app, Ha, Hb. reflexivity. Qed.

Lemma bytes_ok_cons_intro (b : N) (l : bytes) :
  b < 256 -> bytes_ok l = true -> bytes_ok (b :: l) = true.
Proof. intros Hb Hl. rewrite bytes_ok_cons, Hl. apply andb_true_iff. split; [lia | reflexivity]. Qed.

Lemma bytes_ok_be16 (x : N) : bytes_ok (be16 x) = true.
Proof. unfold be16. repeat (apply bytes_ok_cons_intro; [lia|]). reflexivity. Qed.
Lemma bytes_ok_be32 (x : N) : bytes_ok (be32 x) = true.
Proof. unfold be32. repeat (apply bytes_ok_cons_intro; [lia|]). reflexivity. Qed.

Lemma bytes_ok_zeros (n : nat) : bytes_ok (zeros n) = true.
Proof. unfold zeros. induction n as [|n IH]; [reflexivity | exact IH]. Qed.

Lemma bytes_ok_rev (l : bytes) : bytes_ok l = true -> bytes_ok (rev l) = true.
Proof.
  intros H. unfold bytes_ok in *. rewrite forallb_forall in *. intros x Hx. apply H.
  apply in_rev. exact Hx.
Qed.

Lemma bytes_ok_set_cksum (off : nat) (p : bytes) (c : N) :
  bytes_ok p = true -> bytes_ok (set_cksum off p c) = true.
Proof.
  intros H. unfold set_cksum.
  apply bytes_ok_app_intro; [apply bytes_ok_firstn, H|].
  apply bytes_ok_app_intro; [apply bytes_ok_be16 | apply bytes_ok_skipn, H].
Qed.

Lemma set_cksum_length_le (off : nat) (p : bytes) (c : N) :
  (length (set_cksum off p c) <= length p + 2)%nat.
Proof.
  unfold set_cksum, be16. rewrite !app_length, firstn_length, skipn_length. cbn [length]. lia.
Qed.

Lemma pair_inj {A B : Type} (a c : A) (b d : B) : (a, b) = (c, d) -> a = c /\ b = d.
Proof. intros H. inversion H. split; reflexivity. Qed.

(* tries the structural rules for [bytes_ok] goals built from ++, ::, be16/be32 *)
Ltac bytes_tac :=
  repeat match goal with
  | |- bytes_ok (_ ++ _) = true => apply bytes_ok_app_intro
  | |- bytes_ok (be16 _) = true => apply bytes_ok_be16
  | |- bytes_ok (be32 _) = true => apply bytes_ok_be32
  | |- bytes_ok (zeros _) = true => apply bytes_ok_zeros
  | |- bytes_ok (_ :: _) = true => apply bytes_ok_cons_intro; [lia|]
  | |- bytes_ok [] = true => reflexivity
  | |- bytes_ok _ = true => assumption
  | |- bytes_ok (slice _ _ _) = true => apply bytes_ok_slice
  | |- bytes_ok (skipn _ _) = true => apply bytes_ok_skipn
  | |- bytes_ok (firstn _ _) = true => apply bytes_ok_firstn
  | |- bytes_ok (set_cksum _ _ _) = true => apply bytes_ok_set_cksum
  end.

(* ====================================================================== *)
(* Text.v: renderings                                                      *)
(* ====================================================================== *)
Lemma dec_digits_aux_ok fuel : forall n acc,
  bytes_ok acc = true ->
  bytes_ok (dec_digits_aux fuel n acc) = true /\
  (length (dec_digits_aux fuel n acc) <= fuel + length acc)%nat.
Proof.
  induction fuel as [|fuel IH]; intros n acc Ha; cbn [dec_digits_aux].
  - split; [exact Ha | lia].
  - assert (bytes_ok ((48 + n mod 10) :: acc) = true) as Hc by (apply bytes_ok_cons_intro; [lia | exact Ha]).
    destruct (n <? 10).
    + split; [exact Hc | cbn [length]; lia].
    + destruct (IH (n / 10) _ Hc) as [H1 H2]. split; [exact H1 | cbn [length] in H2; lia].
Qed.

Lemma dec_digits_ok (n : N) : bytes_ok (dec_digits n) = true /\ (length (dec_digits n) <= 40)%nat.
Proof. unfold dec_digits. destruct (dec_digits_aux_ok 40 n [] eq_refl) as [H1 H2]. split; [exact H1 | cbn [length] in H2; lia]. Qed.

Lemma hex_digit_lt (d : N) : d < 16 -> hex_digit d < 256.
Proof. intros H. unfold hex_digit. destruct (d <? 10); lia. Qed.

Lemma hex_digits_aux_ok fuel : forall n acc,
  bytes_ok acc = true ->
  bytes_ok (hex_digits_aux fuel n acc) = true /\
  (length (hex_digits_aux fuel n acc) <= fuel + length acc)%nat.
Proof.
  induction fuel as [|fuel IH]; intros n acc Ha; cbn [hex_digits_aux].
  - split; [exact Ha | lia].
  - assert (bytes_ok (hex_digit (n mod 16) :: acc) = true) as Hc.
    { apply bytes_ok_cons_intro; [apply hex_digit_lt; lia | exact Ha]. }
    destruct (n <? 16).
    + split; [exact Hc | cbn [length]; lia].
    + destruct (IH (n / 16) _ Hc) as [H1 H2]. split; [exact H1 | cbn [length] in H2; lia].
Qed.

Lemma hex_digits_ok (n : N) : bytes_ok (hex_digits n) = true /\ (length (hex_digits n) <= 32)%nat.
Proof. unfold hex_digits. destruct (hex_digits_aux_ok 32 n [] eq_refl) as [H1 H2]. split; [exact H1 | cbn [length] in H2; lia]. Qed.

(* join of renderings that are each octets and at most [k] long *)
Lemma join_map_ok (g : N -> bytes) (k : nat) (sep : N) (l : list N) :
  sep < 256 ->
  (forall x, bytes_ok (g x) = true /\ (length (g x) <= k)%nat) ->
  bytes_ok (join sep (map g l)) = true /\ (length (join sep (map g l)) <= (k + 1) * length l)%nat.
Proof.
  intros Hs Hg. induction l as [|x l IH]; [split; [reflexivity | cbn; lia]|].
  destruct (Hg x) as [Hx1 Hx2]. destruct IH as [IH1 IH2].
  cbn [map join length]. destruct (map g l) as [|y t] eqn:Hm.
  - split; [exact Hx1 | lia].
  - split.
    + apply bytes_ok_app_intro; [exact Hx1 | apply bytes_ok_cons_intro; [exact Hs | exact IH1]].
    + rewrite app_length. cbn [length] in *. lia.
Qed.

Lemma render_ipv4_ok (o : bytes) :
  bytes_ok (render_ipv4 o) = true /\ (length (render_ipv4 o) <= 41 * length o)%nat.
Proof. unfold render_ipv4. apply (join_map_ok dec_digits 40); [unfold DOT; lia | apply dec_digits_ok]. Qed.

Lemma segments_length (o : bytes) : (length (segments o) <= length o)%nat.
Proof.
  induction o as [| a | a b t IH] using pair_ind; cbn [segments length]; lia.
Qed.

Lemma render_ipv6_ok (o : bytes) :
  bytes_ok (render_ipv6 o) = true /\ (length (render_ipv6 o) <= 41 * length o + 9)%nat.
Proof.
  unfold render_ipv6.
  pose proof (segments_length o) as Hseg.
  assert (forall l, bytes_ok (join COLON (map hex_digits l)) = true /\
                    (length (join COLON (map hex_digits l)) <= 33 * length l)%nat) as Hj.
  { intros l. apply (join_map_ok hex_digits 32); [unfold COLON; lia | apply hex_digits_ok]. }
  destruct (_ && _).
  - destruct (render_ipv4_ok (skipn 12 o)) as [H1 H2]. rewrite skipn_length in H2. split.
    + unfold COLON. bytes_tac.
    + rewrite app_length. cbn [length]. lia.
  - destruct (zero_run (segments o) 0 0 0 0 0) as [zs zl].
    destruct (1 <? zl)%nat.
    + destruct (Hj (firstn zs (segments o))) as [A1 A2].
      destruct (Hj (skipn (zs + zl) (segments o))) as [B1 B2].
      rewrite firstn_length in A2. rewrite skipn_length in B2. split.
      * unfold COLON. bytes_tac.
      * rewrite !app_length. cbn [length]. lia.
    + destruct (Hj (segments o)) as [A1 A2]. split; [exact A1 | lia].
Qed.

Lemma render_ip_ok (a : ipaddr) :
  bytes_ok (render_ip a) = true /\ (length (render_ip a) <= 41 * length (ip_octets a) + 9)%nat.
Proof.
  destruct a as [o|o]; cbn [render_ip ip_octets].
  - destruct (render_ipv4_ok o). split; [assumption | lia].
  - apply render_ipv6_ok.
Qed.

(* ====================================================================== *)
(* what the responders are given: client information with octet addresses  *)
(* ====================================================================== *)
Definition addr_ok (o : option ipaddr) : Prop :=
  match o with
  | Some a => bytes_ok (ip_octets a) = true /\ (length (ip_octets a) <= 16)%nat
  | None => True
  end.
Definition ci_ok (ci : cinfo) : Prop := addr_ok (ci_ip_src ci) /\ addr_ok (ci_ip_dst ci).

(* payload predicates *)
Definition pl_bytes (o : option bytes) : Prop :=
  match o with Some d => bytes_ok d = true | None => True end.
Definition pl_len (n : nat) (o : option bytes) : Prop :=
  match o with Some d => (length d <= n)%nat | None => True end.

Lemma pl_len_mono (n m : nat) (o : option bytes) : (n <= m)%nat -> pl_len n o -> pl_len m o.
Proof. destruct o; cbn; [lia | trivial]. Qed.

(* bound on every application payload, in terms of the request *)
Definition APP_MAX (data : bytes) : nat := 7 * length data + 4500.

(* sizes of the dumped constants and of the clock string *)
Definition env_small (E : env) : bool :=
  (length (e_http_pre E) <? 2048)%nat && (length (e_http_post E) <? 2048)%nat &&
  (length (e_ssh_banner E) <? 2048)%nat && (length (e_ghost E) <? 2048)%nat &&
  (length (e_smb_neg E) <? 2048)%nat && (length (e_smb_chal E) <? 2048)%nat.

Lemma env_ok_parts E : env_ok E = true ->
  bytes_ok (e_http_pre E) = true /\ bytes_ok (e_http_post E) = true /\
  bytes_ok (e_ssh_banner E) = true /\ bytes_ok (e_ghost E) = true.
Proof.
  unfold env_ok. intros H. repeat (apply andb_true_iff in H; destruct H as [H ?]). auto.
Qed.

Lemma env_small_parts E : env_small E = true ->
  (length (e_http_pre E) < 2048 /\ length (e_http_post E) < 2048 /\
   length (e_ssh_banner E) < 2048 /\ length (e_ghost E) < 2048 /\
   length (e_smb_neg E) < 2048 /\ length (e_smb_chal E) < 2048)%nat.
Proof.
  unfold env_small. intros H. repeat (apply andb_true_iff in H; destruct H as [H ?]).
  repeat split; apply Nat.ltb_lt; assumption.
Qed.

(* ====================================================================== *)
(* one pair of lemmas per responder                                        *)
(* ====================================================================== *)

(* ----- HTTP ----- *)
Lemma http_repl_shape tbl pre post date s data s' out :
  http_repl tbl pre post date s data = Ok (s', out) ->
  out = None \/ out = Some (pre ++ date ++ post).
Proof.
  unfold http_repl. destruct (http_parse tbl s data) as [s1|e]; cbn [bind]; [|discriminate].
  destruct (h_state s1 =? HTTP_CONTENT); intros H; inversion H; auto.
Qed.

Lemma http_repl_bytes tbl pre post date s data s' out :
  bytes_ok pre = true -> bytes_ok post = true -> bytes_ok date = true ->
  http_repl tbl pre post date s data = Ok (s', out) -> pl_bytes out.
Proof.
  intros H1 H2 H3 H. destruct (http_repl_shape _ _ _ _ _ _ _ _ H) as [-> | ->]; cbn [pl_bytes pl_len]; [trivial|].
  bytes_tac.
Qed.

Lemma http_repl_len tbl pre post date s data s' out :
  (length pre < 2048)%nat -> (length post < 2048)%nat -> (length date <= 64)%nat ->
  http_repl tbl pre post date s data = Ok (s', out) -> pl_len (APP_MAX data) out.
Proof.
  intros H1 H2 H3 H. destruct (http_repl_shape _ _ _ _ _ _ _ _ H) as [-> | ->]; cbn [pl_bytes pl_len]; [trivial|].
  unfold APP_MAX. rewrite !app_length. lia.
Qed.

(* ----- SSH ----- *)
Lemma ssh_repl_bytes banner data : bytes_ok banner = true -> pl_bytes (ssh_repl banner data).
Proof. intros H. unfold ssh_repl. destruct (_ =? _); cbn; [exact H | trivial]. Qed.

Lemma ssh_repl_len banner data : (length banner < 2048)%nat -> pl_len (APP_MAX data) (ssh_repl banner data).
Proof. intros H. unfold ssh_repl, APP_MAX. destruct (_ =? _); cbn; [lia | trivial]. Qed.

(* ----- Ghost ----- *)
Lemma ghost_repl_bytes frame data : bytes_ok frame = true -> pl_bytes (ghost_repl frame data).
Proof. intros H. exact H. Qed.

Lemma ghost_repl_len frame data : (length frame < 2048)%nat -> pl_len (APP_MAX data) (ghost_repl frame data).
Proof. intros H. unfold ghost_repl, APP_MAX. cbn. lia. Qed.

(* ----- SMB ----- *)
(* length: from Proofs/SmbLen.v *)
Lemma smb1_repl_len neg chal ft data out :
  (length neg < 2048)%nat -> (length chal < 2048)%nat -> bytes_ok data = true ->
  smb1_repl neg chal ft data = Ok out -> pl_len (APP_MAX data) out.
Proof.
  intros Hn Hc Hd H. destruct out as [r|]; cbn [pl_len]; [|trivial].
  pose proof (smb1_reply_len neg chal ft data r Hd H). unfold APP_MAX. lia.
Qed.
Lemma smb2_repl_len neg chal ft data out :
  (length neg < 2048)%nat -> (length chal < 2048)%nat -> bytes_ok data = true ->
  smb2_repl neg chal ft data = Ok out -> pl_len (APP_MAX data) out.
Proof.
  intros Hn Hc Hd H. destruct out as [r|]; cbn [pl_len]; [|trivial].
  pose proof (smb2_reply_len neg chal ft data r Hd H). unfold APP_MAX. lia.
Qed.

(* ----- STUN ----- *)
Lemma stun_response_ok id src sport :
  bytes_ok id = true -> bytes_ok (ip_octets src) = true ->
  bytes_ok (stun_response id src sport) = true /\
  length (stun_response id src sport) = (12 + length id + length (ip_octets src))%nat.
Proof.
  intros Hi Hs. unfold stun_response. split.
  - bytes_tac. destruct (ip_is_v4 src); reflexivity.
  - rewrite !app_length. unfold be16. cbn [length]. lia.
Qed.

Lemma stun_repl_shape ci data ci' out :
  stun_repl ci data = (ci', out) ->
  ci_ip_src ci' = ci_ip_src ci /\ ci_ip_dst ci' = ci_ip_dst ci /\
  (out = None \/ exists src sport, ci_ip_src ci = Some src /\
                                   out = Some (stun_response (slice 4 16 data) src sport)).
Proof.
  unfold stun_repl.
  destruct (length data <? 20)%nat; [intros H; inversion H; auto|].
  destruct (64 <=? _); [intros H; inversion H; auto|].
  destruct (lenN data <? _); [intros H; inversion H; auto|].
  destruct (stun_attrs _ _ _) as [chg|]; [|intros H; inversion H; auto].
  destruct (negb _); [intros H; inversion H; auto|].
  destruct (negb _); [intros H; inversion H; auto|].
  destruct (ci_ip_src ci) as [src|] eqn:Hs; [|intros H; inversion H; subst; auto].
  destruct (ci_port_src ci) as [sp|]; [|intros H; inversion H; subst; auto].
  destruct (ci_port_dst ci) as [dp|]; [|intros H; inversion H; subst; auto].
  intros H. apply pair_inj in H. destruct H as [<- <-].
  split; [destruct chg; exact Hs|].
  split; [destruct chg; reflexivity|].
  right. exists src, sp. split; reflexivity.
Qed.

Lemma stun_repl_ci ci data ci' out : ci_ok ci -> stun_repl ci data = (ci', out) -> ci_ok ci'.
Proof.
  intros Hci H. destruct (stun_repl_shape _ _ _ _ H) as (H1 & H2 & _).
  unfold ci_ok. rewrite H1, H2. exact Hci.
Qed.

Lemma stun_repl_bytes ci data ci' out :
  ci_ok ci -> bytes_ok data = true -> stun_repl ci data = (ci', out) -> pl_bytes out.
Proof.
  intros [Hsrc _] Hd H. destruct (stun_repl_shape _ _ _ _ H) as (_ & _ & [-> | (src & sp & Hs & ->)]); cbn [pl_bytes pl_len]; [trivial|].
  rewrite Hs in Hsrc. destruct Hsrc as [Hb _].
  apply stun_response_ok; [apply bytes_ok_slice, Hd | exact Hb].
Qed.

Lemma stun_repl_len ci data ci' out :
  ci_ok ci -> stun_repl ci data = (ci', out) -> pl_len (APP_MAX data) out.
Proof.
  intros [Hsrc _] H. destruct (stun_repl_shape _ _ _ _ H) as (_ & _ & [-> | (src & sp & Hs & ->)]); cbn [pl_bytes pl_len]; [trivial|].
  rewrite Hs in Hsrc. destruct Hsrc as [_ Hl].
  unfold stun_response, APP_MAX. rewrite !app_length. unfold be16, slice. cbn [length].
  rewrite firstn_length. lia.
Qed.

(* ----- RPC ----- *)
Lemma uaddr_ok ip port :
  bytes_ok (uaddr ip port) = true /\ (length (uaddr ip port) <= 41 * length (ip_octets ip) + 91)%nat.
Proof.
  unfold uaddr. destruct (render_ip_ok ip) as [A1 A2].
  destruct (dec_digits_ok (port / 256)) as [B1 B2]. destruct (dec_digits_ok (port mod 256)) as [C1 C2].
  split.
  - unfold DOT. bytes_tac.
  - rewrite !app_length. cbn [length]. lia.
Qed.

Lemma xdr_string_ok sv :
  bytes_ok sv = true ->
  bytes_ok (xdr_string sv) = true /\ (length (xdr_string sv) <= length sv + 8)%nat.
Proof.
  intros H. unfold xdr_string. split.
  - bytes_tac. destruct (_ =? _); bytes_tac.
  - rewrite !app_length. unfold be32. cbn [length].
    destruct (_ =? _); [cbn [length]; lia|]. unfold zeros. rewrite repeat_length. lia.
Qed.

Section Rpc.
  Variables (s : rpc_st) (ip : ipaddr) (port : N).
  Hypothesis Hip : (length (ip_octets ip) <= 16)%nat.

  Lemma rpc_dump_entry_ok vers :
    bytes_ok (rpc_dump_entry s ip port vers) = true /\
    (length (rpc_dump_entry s ip port vers) <= 800)%nat.
  Proof.
    unfold rpc_dump_entry.
    set (proto_str := if ip_is_v4 ip then STR_TCP else STR_TCP6).
    assert (bytes_ok proto_str = true /\ (length proto_str <= 4)%nat) as [Ht Hl].
    { subst proto_str. destruct (ip_is_v4 ip); split; cbn [STR_TCP STR_TCP6 length]; (reflexivity || lia). }
    clearbody proto_str.
    destruct (uaddr_ok ip port) as [U1 U2].
    destruct (xdr_string_ok _ U1) as [A1 A2].
    destruct (xdr_string_ok _ Ht) as [B1 B2].
    destruct (xdr_string_ok STR_SUPERUSER eq_refl) as [C1 C2].
    change (length STR_SUPERUSER) with 9%nat in C2.
    destruct (r_progvers s =? 2); split; try (bytes_tac; fail);
      rewrite !app_length; unfold be32; cbn [length]; lia.
  Qed.

  Lemma rpc_portmap_ok :
    bytes_ok (rpc_portmap s ip port) = true /\ (length (rpc_portmap s ip port) <= 2500)%nat.
  Proof.
    unfold rpc_portmap.
    destruct (uaddr_ok ip port) as [U1 U2]. destruct (xdr_string_ok _ U1) as [A1 A2].
    destruct (rpc_dump_entry_ok 2) as [D1 D2]. destruct (rpc_dump_entry_ok 3) as [E1 E2].
    destruct (rpc_dump_entry_ok 4) as [F1 F2].
    destruct (r_proc s =? 3); [|destruct (r_proc s =? 4)].
    - destruct (r_progvers s =? 2); split; try (bytes_tac; fail);
        rewrite !app_length; unfold be32; cbn [length]; lia.
    - split; [bytes_tac|]. rewrite !app_length. cbn [length]. lia.
    - split; [reflexivity | cbn; lia].
  Qed.

  Lemma rpc_build_ok :
    bytes_ok (rpc_build s ip port) = true /\ (length (rpc_build s ip port) <= 2600)%nat.
  Proof.
    unfold rpc_build. destruct rpc_portmap_ok as [P1 P2].
    destruct (_ || _); [|destruct (r_proc s =? 0); [|destruct (r_prog s =? 100000)]];
      (split; [bytes_tac | rewrite !app_length; unfold be32; cbn [length]; lia]).
  Qed.
End Rpc.

Lemma rpc_repl_udp_bytes ip port data :
  (length (ip_octets ip) <= 16)%nat -> pl_bytes (rpc_repl_udp ip port data).
Proof.
  intros Hip. unfold rpc_repl_udp. destruct (_ && _); cbn [pl_bytes pl_len]; [|trivial]. apply rpc_build_ok, Hip.
Qed.

Lemma rpc_repl_udp_len ip port data :
  (length (ip_octets ip) <= 16)%nat -> pl_len (APP_MAX data) (rpc_repl_udp ip port data).
Proof.
  intros Hip. unfold rpc_repl_udp, APP_MAX. destruct (_ && _); cbn [pl_bytes pl_len]; [|trivial].
  pose proof (proj2 (rpc_build_ok (rpc_parse (rpc_new R_XID) data) ip port Hip)). lia.
Qed.

Lemma rpc_repl_tcp_bytes s ip port data :
  (length (ip_octets ip) <= 16)%nat -> pl_bytes (snd (rpc_repl_tcp s ip port data)).
Proof.
  intros Hip. unfold rpc_repl_tcp. destruct (_ =? R_END); cbn [snd pl_bytes]; [|trivial].
  destruct (_ =? 0); cbn [snd pl_bytes]; [|trivial].
  destruct (rpc_build_ok (rpc_parse s data) ip port Hip) as [B1 B2].
  (* the record mark: 0x80 | (len >> 24) needs len < 2^31 *)
  assert (lenN (rpc_build (rpc_parse s data) ip port) < 16777216) as Hl by (unfold lenN; lia).
  apply bytes_ok_app_intro; [|exact B1]. repeat (apply bytes_ok_cons_intro; [lia|]). reflexivity.
Qed.

Lemma rpc_repl_tcp_len s ip port data :
  (length (ip_octets ip) <= 16)%nat -> pl_len (APP_MAX data) (snd (rpc_repl_tcp s ip port data)).
Proof.
  intros Hip. unfold rpc_repl_tcp, APP_MAX. destruct (_ =? R_END); cbn [snd pl_len]; [|trivial].
  destruct (_ =? 0); cbn [snd pl_len]; [|trivial].
  pose proof (proj2 (rpc_build_ok (rpc_parse s data) ip port Hip)). rewrite app_length. cbn [length]. lia.
Qed.

(* ----- DNS ----- *)
Definition q_ok (q : question) : Prop := bytes_ok (q_name q) = true.
Fixpoint qs_size (qs : list question) : nat :=
  match qs with [] => O | q :: t => (length (q_name q) + 4 + qs_size t)%nat end.

Lemma take_qname_ok : forall d acc left name r,
  take_qname d acc left = Some (name, r) ->
  (bytes_ok d = true -> bytes_ok acc = true -> bytes_ok name = true /\ bytes_ok r = true) /\
  (length name + length r = length d + length acc)%nat /\ (1 <= length name)%nat.
Proof.
  induction d as [|b t IH]; intros acc left name r H; cbn [take_qname] in H; [discriminate|].
  assert (Hstep : forall l', take_qname t (b :: acc) l' = Some (name, r) ->
    (bytes_ok (b :: t) = true -> bytes_ok acc = true -> bytes_ok name = true /\ bytes_ok r = true) /\
    (length name + length r = length (b :: t) + length acc)%nat /\ (1 <= length name)%nat).
  { intros l' H'. destruct (IH _ _ _ _ H') as (H1 & H2 & H3). split; [|split].
    + intros Hd Ha. rewrite bytes_ok_cons in Hd. apply andb_true_iff in Hd. destruct Hd as [Hb Ht].
      apply H1; [exact Ht|]. rewrite bytes_ok_cons, Hb, Ha. reflexivity.
    + cbn [length] in *. lia.
    + exact H3. }
  destruct (0 <? left); [exact (Hstep _ H)|].
  destruct (b =? 0); [|exact (Hstep _ H)].
  inversion H; subst. clear H. change (rev acc ++ [b]) with (rev (b :: acc)). split; [|split].
  + intros Hd Ha. rewrite bytes_ok_cons in Hd. apply andb_true_iff in Hd. destruct Hd as [Hb Ht].
    split; [|exact Ht]. apply bytes_ok_rev. rewrite bytes_ok_cons, Hb, Ha. reflexivity.
  + rewrite rev_length. cbn [length]. lia.
  + rewrite rev_length. cbn [length]. lia.
Qed.

Lemma take_question_ok d q r :
  take_question d = Some (q, r) ->
  (bytes_ok d = true -> q_ok q /\ bytes_ok r = true) /\
  (length (q_name q) + 4 + length r = length d)%nat /\ (1 <= length (q_name q))%nat.
Proof.
  unfold take_question. destruct (take_qname d [] 0) as [[name r0]|] eqn:Hn; [|discriminate].
  destruct (take_qname_ok _ _ _ _ _ Hn) as (H1 & H2 & H3).
  destruct r0 as [|t1 [|t2 [|c1 [|c2 rest]]]]; try discriminate.
  intros H. inversion H; subst. clear H. cbn [q_name]. split; [|split].
  - intros Hd. destruct (H1 Hd eq_refl) as [Hname Hr]. split; [exact Hname|].
    apply (bytes_ok_skipn 4) in Hr. exact Hr.
  - cbn [length] in H2. lia.
  - exact H3.
Qed.

Lemma take_questions_ok : forall n d qs r,
  take_questions n d = Some (qs, r) ->
  (bytes_ok d = true -> Forall q_ok qs) /\
  (qs_size qs + length r = length d)%nat /\ (5 * length qs <= qs_size qs)%nat.
Proof.
  induction n as [|n IH]; intros d qs r H; cbn [take_questions] in H.
  - inversion H; subst. split; [intros _; constructor | split; cbn; lia].
  - destruct (take_question d) as [[q r0]|] eqn:Hq; [|discriminate].
    destruct (take_questions n r0) as [[qs0 r1]|] eqn:Hqs; [|discriminate].
    inversion H; subst. clear H.
    destruct (take_question_ok _ _ _ Hq) as (A1 & A2 & A3).
    destruct (IH _ _ _ Hqs) as (B1 & B2 & B3).
    split; [|split].
    + intros Hd. destruct (A1 Hd) as [Hqok Hr0]. constructor; [exact Hqok | apply B1, Hr0].
    + cbn [qs_size]. lia.
    + cbn [qs_size length]. lia.
Qed.

Lemma dns_parse_ok d m :
  dns_parse d = Some m ->
  (bytes_ok d = true -> Forall q_ok (d_qd m)) /\
  (qs_size (d_qd m) + 12 <= length d)%nat /\ (5 * length (d_qd m) <= qs_size (d_qd m))%nat.
Proof.
  unfold dns_parse. destruct (length d <? 12)%nat eqn:Hl; [discriminate|].
  destruct (take_questions _ _) as [[qs r]|] eqn:Hq; [|discriminate].
  destruct (skip_rrs _ _); [|discriminate].
  destruct (_ && _); [|discriminate].
  intros H. inversion H; subst. clear H. cbn [d_qd].
  destruct (take_questions_ok _ _ _ _ Hq) as (A1 & A2 & A3).
  rewrite skipn_length in A2. apply ltb_false_le in Hl.
  split; [|split].
  - intros Hd. apply A1. apply bytes_ok_skipn, Hd.
  - lia.
  - exact A3.
Qed.

Lemma ser_questions_ok qs :
  Forall q_ok qs -> bytes_ok (concat (map ser_question qs)) = true.
Proof.
  induction 1 as [|q qs Hq _ IH]; [reflexivity|]. cbn [map concat]. unfold q_ok in Hq.
  apply bytes_ok_app_intro; [|exact IH]. unfold ser_question. bytes_tac.
Qed.

Lemma ser_questions_len qs : length (concat (map ser_question qs)) = qs_size qs.
Proof.
  induction qs as [|q qs IH]; [reflexivity|]. cbn [map concat qs_size].
  rewrite app_length, IH. unfold ser_question. rewrite !app_length. unfold be16. cbn [length]. lia.
Qed.

Lemma answers_ok ip qs :
  bytes_ok (ip_octets ip) = true ->
  Forall q_ok qs -> bytes_ok (concat (map (answer_rr ip) qs)) = true.
Proof.
  intros Hip. induction 1 as [|q qs Hq _ IH]; [reflexivity|]. cbn [map concat].
  unfold q_ok in Hq. apply bytes_ok_app_intro; [|exact IH]. unfold answer_rr.
  bytes_tac. destruct ip; [exact Hip | reflexivity].
Qed.

Lemma answers_len ip qs :
  (length (ip_octets ip) <= 16)%nat ->
  (length (concat (map (answer_rr ip) qs)) <= qs_size qs + 22 * length qs)%nat.
Proof.
  intros Hip. induction qs as [|q qs IH]; [cbn; lia|]. cbn [map concat qs_size length].
  rewrite app_length. unfold answer_rr at 1. rewrite !app_length. unfold be32, be16. cbn [length].
  destruct ip as [o|o]; cbn [ip_octets] in Hip; cbn [length]; lia.
Qed.

Lemma dns_header_reply_ok m :
  bytes_ok (dns_header_reply m) = true /\ length (dns_header_reply m) = 12%nat.
Proof.
  unfold dns_header_reply. split; [|reflexivity]. bytes_tac.
Qed.

Lemma dns_repl_shape dst d out :
  dns_repl dst d = out ->
  out = None \/
  exists m ip, dns_parse d = Some m /\ dst = Some ip /\
    out = Some (dns_header_reply m ++ concat (map ser_question (d_qd m))
                                   ++ concat (map (answer_rr ip) (d_qd m))).
Proof.
  unfold dns_repl. destruct (dns_parse d) as [m|]; [|intros <-; auto].
  destruct dst as [ip|]; [|intros <-; auto].
  destruct (32768 <=? d_flags m); [intros <-; auto|].
  destruct (forallb _ _); [|intros <-; auto].
  intros <-. right. exists m, ip. auto.
Qed.

Lemma dns_repl_bytes dst d :
  addr_ok dst -> bytes_ok d = true -> pl_bytes (dns_repl dst d).
Proof.
  intros Hdst Hd. destruct (dns_repl_shape dst d _ eq_refl) as [-> | (m & ip & Hm & -> & ->)]; cbn [pl_bytes pl_len]; [trivial|].
  destruct Hdst as [Hip _]. destruct (dns_parse_ok _ _ Hm) as (A1 & _ & _). specialize (A1 Hd).
  apply bytes_ok_app_intro; [apply dns_header_reply_ok|].
  apply bytes_ok_app_intro; [apply ser_questions_ok, A1 | apply answers_ok; assumption].
Qed.

Lemma dns_repl_len dst d :
  addr_ok dst -> pl_len (APP_MAX d) (dns_repl dst d).
Proof.
  intros Hdst. destruct (dns_repl_shape dst d _ eq_refl) as [-> | (m & ip & Hm & -> & ->)]; cbn [pl_bytes pl_len]; [trivial|].
  destruct Hdst as [_ Hip]. destruct (dns_parse_ok _ _ Hm) as (_ & A2 & A3).
  pose proof (answers_len ip (d_qd m) Hip) as Ha.
  rewrite !app_length, ser_questions_len, (proj2 (dns_header_reply_ok m)). unfold APP_MAX. lia.
Qed.

(* ====================================================================== *)
(* dispatch: where each payload comes from                                 *)
(* ====================================================================== *)
Lemma ok_inj {A : Type} (a b : A) : Ok a = Ok b -> a = b.
Proof. intros H. inversion H. reflexivity. Qed.

Ltac ok3 H :=
  apply ok_inj in H; apply pair_inj in H; destruct H as [H ?];
  apply pair_inj in H; destruct H as [? ?]; subst.

Inductive payload_src (E : env) (clk : clock) (ci : cinfo) (data : bytes) : option bytes -> Prop :=
| PS_none : payload_src E clk ci data None
| PS_http s s' out :
    http_repl (e_http_tbl E) (e_http_pre E) (e_http_post E) (clk_date clk) s data = Ok (s', out) ->
    payload_src E clk ci data out
| PS_stun ci' out : stun_repl ci data = (ci', out) -> payload_src E clk ci data out
| PS_ssh : payload_src E clk ci data (ssh_repl (e_ssh_banner E) data)
| PS_ghost : payload_src E clk ci data (ghost_repl (e_ghost E) data)
| PS_rpc_tcp ip port r0 :
    ci_ip_dst ci = Some ip -> payload_src E clk ci data (snd (rpc_repl_tcp r0 ip port data))
| PS_rpc_udp ip port :
    ci_ip_dst ci = Some ip -> payload_src E clk ci data (rpc_repl_udp ip port data)
| PS_smb1 out :
    smb1_repl (e_smb_neg E) (e_smb_chal E) (clk_filetime clk) data = Ok out -> payload_src E clk ci data out
| PS_smb2 out :
    smb2_repl (e_smb_neg E) (e_smb_chal E) (clk_filetime clk) data = Ok out -> payload_src E clk ci data out
| PS_dns : payload_src E clk ci data (dns_repl (ci_ip_dst ci) data).

Definition same_addrs (ci ci' : cinfo) : Prop :=
  ci_ip_src ci' = ci_ip_src ci /\ ci_ip_dst ci' = ci_ip_dst ci.

Lemma same_addrs_refl ci : same_addrs ci ci.
Proof. split; reflexivity. Qed.

Lemma same_addrs_ok ci ci' : same_addrs ci ci' -> ci_ok ci -> ci_ok ci'.
Proof. intros [H1 H2] H. unfold ci_ok. rewrite H1, H2. exact H. Qed.

Lemma dispatch_src E clk ci id t data ci' t' out :
  dispatch E clk ci id t data = Ok (ci', t', out) ->
  same_addrs ci ci' /\ payload_src E clk ci data out.
Proof.
  unfold dispatch.
  destruct (id =? PROTO_HTTP).
  { destruct t as [tc|].
    - destruct (t_pstate tc) as [[h|r]|]; try discriminate.
      + destruct (http_repl _ _ _ _ h data) as [[h' r']|e] eqn:Hh; cbn [bind]; [|discriminate].
        intros H. ok3 H. split; [apply same_addrs_refl | eapply PS_http; exact Hh].
      + destruct (http_repl _ _ _ _ http_new data) as [[h' r']|e] eqn:Hh; cbn [bind]; [|discriminate].
        intros H. ok3 H. split; [apply same_addrs_refl | eapply PS_http; exact Hh].
    - destruct (http_repl _ _ _ _ http_new data) as [[h' r']|e] eqn:Hh; cbn [bind]; [|discriminate].
      intros H. ok3 H. cbn [snd]. split; [apply same_addrs_refl | eapply PS_http; exact Hh]. }
  destruct (id =? PROTO_STUN).
  { destruct (stun_repl ci data) as [ci2 r] eqn:Hs. intros H. ok3 H.
    destruct (stun_repl_shape _ _ _ _ Hs) as (H1 & H2 & _).
    split; [split; assumption | eapply PS_stun; exact Hs]. }
  destruct (id =? PROTO_SSH).
  { intros H. ok3 H. split; [apply same_addrs_refl | apply PS_ssh]. }
  destruct (id =? PROTO_GHOST).
  { intros H. ok3 H. split; [apply same_addrs_refl | apply PS_ghost]. }
  destruct (id =? PROTO_RPC_TCP).
  { destruct (ci_ip_dst ci) as [ip|] eqn:Hip; [|intros H; ok3 H; split; [apply same_addrs_refl | apply PS_none]].
    destruct (ci_port_dst ci) as [port|]; [|intros H; ok3 H; split; [apply same_addrs_refl | apply PS_none]].
    destruct t as [tc|].
    - destruct (t_pstate tc) as [[h|r]|]; try discriminate.
      + destruct (rpc_repl_tcp r ip port data) as [r' o] eqn:Hr. intros H. ok3 H.
        split; [apply same_addrs_refl|].
        match type of Hr with _ = (?a, ?b) => change b with (snd (a, b)) end.
        rewrite <- Hr. apply PS_rpc_tcp. exact Hip.
      + destruct (rpc_repl_tcp (rpc_new R_FRAG) ip port data) as [r' o] eqn:Hr. intros H. ok3 H.
        split; [apply same_addrs_refl|].
        match type of Hr with _ = (?a, ?b) => change b with (snd (a, b)) end.
        rewrite <- Hr. apply PS_rpc_tcp. exact Hip.
    - intros H. ok3 H. split; [apply same_addrs_refl | apply PS_rpc_tcp; exact Hip]. }
  destruct (id =? PROTO_RPC_UDP).
  { destruct (ci_ip_dst ci) as [ip|] eqn:Hip; [|intros H; ok3 H; split; [apply same_addrs_refl | apply PS_none]].
    destruct (ci_port_dst ci) as [port|]; [|intros H; ok3 H; split; [apply same_addrs_refl | apply PS_none]].
    intros H. ok3 H. split; [apply same_addrs_refl | apply PS_rpc_udp; exact Hip]. }
  destruct (id =? PROTO_SMB1).
  { destruct (smb1_repl _ _ _ data) as [o|e] eqn:Hs; cbn [bind]; [|discriminate].
    intros H. ok3 H. split; [apply same_addrs_refl | eapply PS_smb1; exact Hs]. }
  destruct (id =? PROTO_SMB2).
  { destruct (smb2_repl _ _ _ data) as [o|e] eqn:Hs; cbn [bind]; [|discriminate].
    intros H. ok3 H. split; [apply same_addrs_refl | eapply PS_smb2; exact Hs]. }
  intros H. ok3 H. split; [apply same_addrs_refl | apply PS_none].
Qed.

Lemma payload_src_len E clk ci data out :
  env_small E = true -> (length (clk_date clk) <= 64)%nat -> ci_ok ci -> bytes_ok data = true ->
  payload_src E clk ci data out -> pl_len (APP_MAX data) out.
Proof.
  intros HE Hclk Hci Hd Hsrc.
  destruct (env_small_parts E HE) as (E1 & E2 & E3 & E4 & E5 & E6).
  destruct Hsrc as [| s s' out Hh | ci' out Hs | | | ip port r0 Hip | ip port Hip | out Hs | out Hs |].
  - exact I.
  - eapply http_repl_len; [exact E1 | exact E2 | exact Hclk | exact Hh].
  - eapply stun_repl_len; [exact Hci | exact Hs].
  - apply ssh_repl_len, E3.
  - apply ghost_repl_len, E4.
  - destruct Hci as [_ Hdst]. rewrite Hip in Hdst. apply rpc_repl_tcp_len, Hdst.
  - destruct Hci as [_ Hdst]. rewrite Hip in Hdst. apply rpc_repl_udp_len, Hdst.
  - eapply smb1_repl_len; [exact E5 | exact E6 | exact Hd | exact Hs].
  - eapply smb2_repl_len; [exact E5 | exact E6 | exact Hd | exact Hs].
  - apply dns_repl_len. apply Hci.
Qed.

Lemma proto_repl_tcp_src E clk ci tc data ci' tc' out :
  proto_repl_tcp E clk ci tc data = Ok (ci', tc', out) ->
  same_addrs ci ci' /\ payload_src E clk ci (snd (tcp_identify E tc data)) out.
Proof.
  unfold proto_repl_tcp.
  destruct (tcp_identify E tc data) as [tc1 data1]. cbn [snd].
  destruct (dispatch E clk ci (t_proto tc1) (Some tc1) data1) as [[[ci2 t2] o2]|e] eqn:Hd; cbn [bind]; [|discriminate].
  intros H. ok3 H. eapply dispatch_src. exact Hd.
Qed.

Lemma proto_repl_udp_src E clk ci data ci' out :
  proto_repl_udp E clk ci data = Ok (ci', out) ->
  same_addrs ci ci' /\ payload_src E clk ci data out.
Proof.
  unfold proto_repl_udp.
  destruct (search_next (e_proto_tbl E) BASE_STATE data) as [[id st] n].
  match goal with |- context [match ?x with Some i => _ | None => match dns_repl _ _ with _ => _ end end] =>
    destruct x as [i|] end.
  - destruct (dispatch E clk ci i None data) as [[[ci2 t2] o2]|e] eqn:Hd; cbn [bind]; [|discriminate].
    intros H. apply ok_inj in H. apply pair_inj in H. destruct H as [<- <-].
    eapply dispatch_src. exact Hd.
  - pose proof (PS_dns E clk ci data) as Hs.
    destruct (dns_repl (ci_ip_dst ci) data) as [r|]; intros H;
      apply ok_inj in H; apply pair_inj in H; destruct H as [<- <-];
      (split; [apply same_addrs_refl | exact Hs]).
Qed.

(* ====================================================================== *)
(* layer 4                                                                 *)
(* ====================================================================== *)
Lemma tcp_header_ok sp dp seq ack fl :
  bytes_ok (tcp_header sp dp seq ack fl) = true /\ length (tcp_header sp dp seq ack fl) = 20%nat.
Proof. unfold tcp_header. split; [bytes_tac | reflexivity]. Qed.

Lemma tcp_payload_ok p :
  (bytes_ok p = true -> bytes_ok (tcp_payload p) = true) /\ (length (tcp_payload p) <= length p)%nat.
Proof.
  unfold tcp_payload. destruct (_ <=? _)%nat.
  - split; [reflexivity | cbn; lia].
  - split; [intros H; apply bytes_ok_skipn, H | rewrite skipn_length; lia].
Qed.

Lemma ci_ok_ports ci a b : ci_ok ci -> ci_ok (ci_set_ports ci a b).
Proof. intros H. exact H. Qed.
Lemma ci_ok_cookie ci k : ci_ok ci -> ci_ok (ci_set_cookie ci k).
Proof. intros H. exact H. Qed.

(* a TCP reply is a header followed by nothing or by an application payload *)
Lemma tcp_repl_src E cfg clk tb ci0 p tb' ci' r evs :
  tcp_repl E cfg clk tb ci0 p = Ok (tb', ci', Some r, evs) ->
  exists sp dp seq ack fl pl,
    r = tcp_header sp dp seq ack fl ++ pl /\
    (pl = [] \/
     exists ck data,
       (table_pending_ok tb -> bytes_ok p = true ->
        bytes_ok data = true /\ (length data <= 64 + length (tcp_payload p))%nat) /\
       payload_src E clk (ci_set_cookie (ci_set_ports ci0 (u16_at 0 p) (u16_at 2 p)) ck)
                   data (Some pl)).
Proof.
  unfold tcp_repl.
  destruct (tcp_class (tcp_flags p)).
  - destruct (cookie_ci _ _ _) as [ck|]; [|discriminate].
    match goal with |- context [if ?c then _ else _] => destruct c end; [discriminate|].
    destruct (proto_repl_tcp _ _ _ _ _) as [[[ci2 tc'] out]|s] eqn:Hp; cbn [bind]; [|discriminate].
    destruct (proto_repl_tcp_src _ _ _ _ _ _ _ _ Hp) as [_ Hsrc].
    destruct out as [d|];
      (destruct (ci_port_dst ci2) as [sp|]; [|discriminate];
       destruct (ci_port_src ci2) as [dp|]; [|discriminate]);
      intros H; apply ok_inj in H; apply pair_inj in H; destruct H as [H _];
      apply pair_inj in H; destruct H as [_ H]; apply some_inj in H; subst r;
      eexists _, _, _, _, _, _; (split; [reflexivity|]).
    + right. exists ck. eexists. split; [|exact Hsrc].
      intros Htb Hpb. apply tcp_identify_data_bound; [apply table_pending_find, Htb|apply tcp_payload_ok, Hpb].
    + left. reflexivity.
  - discriminate.
  - discriminate.
  - cbn. intros H. inversion H; subst. eexists _, _, _, _, _, _; split; [reflexivity | left; reflexivity].
  - destruct (cookie_ci _ _ _) as [ck|]; [|discriminate].
    cbn. intros H. inversion H; subst. eexists _, _, _, _, _, _; split; [reflexivity | left; reflexivity].
  - discriminate.
Qed.

Lemma tcp_repl_len E cfg clk tb ci0 p tb' ci' r evs :
  env_small E = true -> (length (clk_date clk) <= 64)%nat -> ci_ok ci0 -> bytes_ok p = true ->
  table_pending_ok tb ->
  tcp_repl E cfg clk tb ci0 p = Ok (tb', ci', Some r, evs) -> (length r <= 468 + APP_MAX p)%nat.
Proof.
  intros HE Hclk Hci Hp Htb H.
  destruct (tcp_repl_src _ _ _ _ _ _ _ _ _ _ H) as (sp & dp & sq & ak & fl & pl & -> & Hpl).
  rewrite app_length, (proj2 (tcp_header_ok _ _ _ _ _)).
  destruct Hpl as [-> | (ck & data & Hdata & Hsrc)]; [cbn; lia|].
  destruct (Hdata Htb Hp) as [Hdb Hdl].
  apply (payload_src_len _ _ _ _ _ HE Hclk) in Hsrc; [|exact Hci | exact Hdb].
  cbn [pl_len] in Hsrc. pose proof (proj2 (tcp_payload_ok p)). unfold APP_MAX in *. lia.
Qed.

Lemma udp_repl_src E cfg clk ci0 p ci' r evs :
  udp_repl E cfg clk ci0 p = Ok (ci', Some r, evs) ->
  exists sp dp d,
    r = be16 sp ++ be16 dp ++ be16 (8 + lenN d) ++ [0; 0] ++ d /\
    payload_src E clk (ci_set_ports ci0 (u16_at 0 p) (u16_at 2 p)) (skipn 8 p) (Some d).
Proof.
  unfold udp_repl.
  destruct (proto_repl_udp _ _ _ _) as [[ci1 [d|]]|s] eqn:Hp; cbn [bind]; try discriminate.
  destruct (proto_repl_udp_src _ _ _ _ _ _ Hp) as [_ Hsrc].
  destruct (ci_port_dst ci1) as [sp|]; [|discriminate].
  destruct (ci_port_src ci1) as [dp|]; [|discriminate].
  intros H. apply ok_inj in H. apply pair_inj in H. destruct H as [H _].
  apply pair_inj in H. destruct H as [_ H]. apply some_inj in H. subst r.
  eexists _, _, _. split; [reflexivity | exact Hsrc].
Qed.

Lemma udp_repl_len E cfg clk ci0 p ci' r evs :
  env_small E = true -> (length (clk_date clk) <= 64)%nat -> ci_ok ci0 -> bytes_ok p = true ->
  udp_repl E cfg clk ci0 p = Ok (ci', Some r, evs) -> (length r <= 8 + APP_MAX p)%nat.
Proof.
  intros HE Hclk Hci Hp H.
  destruct (udp_repl_src _ _ _ _ _ _ _ _ H) as (sp & dp & d & -> & Hsrc).
  apply (payload_src_len _ _ _ _ _ HE Hclk) in Hsrc; [|exact Hci | apply bytes_ok_skipn, Hp].
  cbn [pl_len] in Hsrc. rewrite !app_length. unfold be16. cbn [length].
  unfold APP_MAX in *. rewrite skipn_length in Hsrc. lia.
Qed.

(* ====================================================================== *)
(* layer 3 / layer 2: every emitted frame, by cases                        *)
(* ====================================================================== *)
(* the transport packet (before its checksum is filled in), the source address
   and the hop limit of a reply to a frame whose view is [v] *)
Inductive l4_out (E : env) (cfg : config) (clk : clock) (tb : table) (f : bytes) (v : l4view)
  : bytes -> N -> bytes -> Prop :=
| L4_icmp4 x evs :
    v_v4 v = true -> icmpv4_repl (l3_ci f v) (v_l4 v) = (Some x, evs) ->
    l4_out E cfg clk tb f v (v_dst v) 64 x
| L4_icmp6 x tgt evs :
    v_v4 v = false -> icmpv6_repl cfg (l3_ci f v) (v_l4 v) = (Some x, tgt, evs) ->
    l4_out E cfg clk tb f v (match tgt with Some t => t | None => v_dst v end)
           (if u8_at 0 x =? 136 then 255 else 64) x
| L4_tcp tb' ci' x evs :
    tcp_repl E cfg clk tb (l3_ci f v) (v_l4 v) = Ok (tb', ci', Some x, evs) ->
    l4_out E cfg clk tb f v (v_dst v) 64 x
| L4_udp ci' x evs :
    udp_repl E cfg clk (l3_ci f v) (v_l4 v) = Ok (ci', Some x, evs) ->
    l4_out E cfg clk tb f v (v_dst v) 64 x.

Lemma reply_spec_cases E cfg clk tb f tb' r :
  reply_spec E cfg clk tb f = Ok (tb', Some r) ->
  (exists a evs, (14 <= length f)%nat /\ (28 <= length (skipn 14 f))%nat /\
     arp_repl cfg (skipn 14 f) = (Some a, evs) /\ r = eth_frame (slice 6 6 f) (c_mac cfg) 2054 a) \/
  (exists v rsrc hlim x off c, view cfg f = Some v /\ l4_out E cfg clk tb f v rsrc hlim x /\
     r = wrap_ip cfg f v rsrc hlim (set_cksum off x c)).
Proof.
  unfold reply_spec. intros Hr.
  destruct (length f <? 14)%nat eqn:Hlen; [discriminate|]. apply ltb_false_le in Hlen.
  destruct (auth_mac cfg (slice 0 6 f)); cbn [negb] in Hr; [|discriminate].
  destruct (u16_at 12 f =? 2054).
  { left. destruct (length (skipn 14 f) <? 28)%nat eqn:Hl; [discriminate|]. apply ltb_false_le in Hl.
    destruct (arp_repl cfg (skipn 14 f)) as [[x|] e] eqn:Ha; [|discriminate].
    apply ok_pair_inj in Hr. destruct Hr as [_ Hr]. apply some_inj in Hr. subst r.
    exists x, e. auto. }
  right. destruct (view cfg f) as [v|] eqn:Hv; [|discriminate]. exists v.
  unfold l3_reply in Hr.
  assert (forall tb1,
            match tcp_repl E cfg clk tb (l3_ci f v) (v_l4 v) with
            | Ok (tb', _, Some r, _) => Ok (tb', Some (wrap_ip cfg f v (v_dst v) 64 (seal_tcp v r)))
            | Ok (tb', _, None, _) => Ok (tb', None)
            | Panic s => Panic s
            end = Ok (tb1, Some r) ->
            exists rsrc hlim x off c, Some v = Some v /\ l4_out E cfg clk tb f v rsrc hlim x /\
              r = wrap_ip cfg f v rsrc hlim (set_cksum off x c)) as Htcp.
  { intros tb1 H. revert H.
    destruct (tcp_repl E cfg clk tb (l3_ci f v) (v_l4 v)) as [[[[tb2 ci2] [seg|]] evs2]|s] eqn:Ht;
      intros H; try discriminate.
    apply ok_pair_inj in H. destruct H as [_ H]. apply some_inj in H. subst r.
    eexists _, _, _, _, _. split; [reflexivity|]. split; [eapply L4_tcp; exact Ht | reflexivity]. }
  destruct (v_v4 v) eqn:Hv4.
  - destruct (v_proto v =? 1).
    { destruct (length (v_l4 v) <? 4)%nat; [discriminate|].
      destruct (icmpv4_repl _ _) as [[x|] e] eqn:Hi; [|discriminate].
      apply ok_pair_inj in Hr. destruct Hr as [_ Hr]. apply some_inj in Hr. subst r.
      eexists _, _, _, _, _. split; [reflexivity|].
      split; [eapply L4_icmp4; [exact Hv4 | exact Hi] | reflexivity]. }
    destruct (v_proto v =? 6).
    { destruct (length (v_l4 v) <? 20)%nat; [discriminate|]. eapply Htcp. exact Hr. }
    destruct (v_proto v =? 17); [|discriminate].
    destruct (length (v_l4 v) <? 8)%nat; [discriminate|].
    destruct (udp_repl _ _ _ _ _) as [[[ci' [x|]] e]|s] eqn:Hu; try discriminate.
    destruct (65535 <? lenN x); [discriminate|].
    apply ok_pair_inj in Hr. destruct Hr as [_ Hr]. apply some_inj in Hr. subst r.
    eexists _, _, _, _, _. split; [reflexivity|].
    split; [eapply L4_udp; exact Hu | reflexivity].
  - destruct (v_proto v =? 58).
    { destruct (length (v_l4 v) <? 4)%nat; [discriminate|].
      destruct (icmpv6_repl _ _ _) as [[[x|] tgt] e] eqn:Hi; [|discriminate].
      apply ok_pair_inj in Hr. destruct Hr as [_ Hr]. apply some_inj in Hr. subst r.
      eexists _, _, _, _, _. split; [reflexivity|].
      split; [eapply L4_icmp6; [exact Hv4 | exact Hi] | reflexivity]. }
    destruct (v_proto v =? 6).
    { destruct (length (v_l4 v) <? 20)%nat; [discriminate|]. eapply Htcp. exact Hr. }
    destruct (v_proto v =? 17); [|discriminate].
    destruct (length (v_l4 v) <? 8)%nat; [discriminate|].
    destruct (udp_repl _ _ _ _ _) as [[[ci' [x|]] e]|s] eqn:Hu; try discriminate.
    apply ok_pair_inj in Hr. destruct Hr as [_ Hr]. apply some_inj in Hr. subst r.
    eexists _, _, _, _, _. split; [reflexivity|].
    split; [eapply L4_udp; exact Hu | reflexivity].
Qed.

Lemma cfg_ok_mac_bytes cfg : cfg_ok cfg = true -> bytes_ok (c_mac cfg) = true.
Proof. unfold cfg_ok. intros H. repeat (apply andb_true_iff in H; destruct H as [H ?]). assumption. Qed.

Lemma l3_ci_ok cfg f v : bytes_ok f = true -> view cfg f = Some v -> ci_ok (l3_ci f v).
Proof.
  intros Hf Hv. destruct (view_fields_ok _ _ _ Hf Hv) as (Hs & Hd & _).
  destruct (view_addr_len cfg f v Hv) as (Hsl & Hdl & _).
  unfold ci_ok, l3_ci. cbn. destruct (v_v4 v); cbn; auto.
Qed.

Lemma ip_payload_len cfg f v : view cfg f = Some v -> (length (v_l4 v) <= length f)%nat.
Proof.
  intros Hv. destruct (view_inv _ _ _ Hv) as (_ & _ & [H4 | H6]).
  - destruct H4 as (_ & _ & _ & _ & _ & _ & -> & _). unfold ipv4_payload.
    destruct (_ <=? _)%nat; [cbn; lia|]. rewrite firstn_length, !skipn_length. lia.
  - destruct H6 as (_ & _ & _ & _ & _ & _ & -> & _). unfold ipv6_payload.
    destruct (_ <=? _)%nat; [cbn; lia|]. rewrite firstn_length, !skipn_length. lia.
Qed.

Section L4Out.
  Variables (E : env) (cfg : config) (clk : clock) (tb : table) (f : bytes) (v : l4view).
  Hypothesis Hcfg : cfg_ok cfg = true.
  Hypothesis Hf : bytes_ok f = true.
  Hypothesis Hv : view cfg f = Some v.

  Lemma l4_out_addr rsrc hlim x :
    l4_out E cfg clk tb f v rsrc hlim x ->
    bytes_ok rsrc = true /\ length rsrc = (if v_v4 v then 4 else 16)%nat /\ hlim < 256.
  Proof.
    destruct (view_fields_ok _ _ _ Hf Hv) as (Hs & Hd & _).
    destruct (view_addr_len cfg f v Hv) as (_ & _ & Hdl).
    intros H. destruct H as [x evs Hv4 Hi | x tgt evs Hv4 Hi | tb' ci' x evs Ht | ci' x evs Hu];
      try (split; [exact Hd | split; [exact Hdl | lia]]).
    destruct (icmpv6_repl_shape _ _ _ _ _ _ Hi) as [(t & -> & Htl & Ht & _) | (-> & _)].
    - split; [|split].
      + rewrite Ht. apply bytes_ok_slice. exact (view_l4_ok cfg f v Hf Hv).
      + rewrite Hv4. exact Htl.
      + destruct (_ =? _); lia.
    - split; [exact Hd | split; [exact Hdl | destruct (_ =? _); lia]].
  Qed.

  Lemma l4_out_len rsrc hlim x :
    env_small E = true -> (length (clk_date clk) <= 64)%nat -> table_pending_ok tb ->
    l4_out E cfg clk tb f v rsrc hlim x -> (length x <= 468 + APP_MAX (v_l4 v))%nat.
  Proof.
    intros HE Hclk Htb H.
    pose proof (view_l4_ok cfg f v Hf Hv) as Hl4.
    pose proof (l3_ci_ok cfg f v Hf Hv) as Hci.
    pose proof (cfg_ok_mac _ Hcfg) as Hmac.
    destruct H as [x evs Hv4 Hi | x tgt evs Hv4 Hi | tb' ci' x evs Ht | ci' x evs Hu].
    - apply icmpv4_repl_shape in Hi. subst x. rewrite app_length, skipn_length. unfold APP_MAX. cbn [length]. lia.
    - destruct (icmpv6_repl_shape _ _ _ _ _ _ Hi) as [(t & _ & Htl & _ & ->) | (_ & ->)].
      + rewrite !app_length, Htl, Hmac. unfold APP_MAX. cbn [length]. lia.
      + rewrite app_length, skipn_length. unfold APP_MAX. cbn [length]. lia.
    - pose proof (tcp_repl_len _ _ _ _ _ _ _ _ _ _ HE Hclk Hci Hl4 Htb Ht). lia.
    - pose proof (udp_repl_len _ _ _ _ _ _ _ _ HE Hclk Hci Hl4 Hu). lia.
  Qed.
End L4Out.

Lemma wrap_ip_bytes cfg f v rsrc hlim l4 :
  cfg_ok cfg = true -> bytes_ok f = true -> view cfg f = Some v ->
  bytes_ok rsrc = true -> hlim < 256 -> bytes_ok l4 = true ->
  bytes_ok (wrap_ip cfg f v rsrc hlim l4) = true.
Proof.
  intros Hcfg Hf Hv Hrs Hh Hl4.
  destruct (view_fields_ok _ _ _ Hf Hv) as (Hs & Hd & Hp).
  pose proof (cfg_ok_mac_bytes _ Hcfg) as Hmac.
  unfold wrap_ip, eth_frame. destruct (v_v4 v).
  - bytes_tac. unfold ipv4_header. bytes_tac.
  - unfold ipv6_header. bytes_tac.
Qed.

Lemma arp_repl_ok cfg p a evs :
  cfg_ok cfg = true -> (28 <= length p)%nat -> arp_repl cfg p = (Some a, evs) ->
  (bytes_ok p = true -> bytes_ok a = true) /\ length a = length p.
Proof.
  intros Hcfg Hl H. pose proof (cfg_ok_mac _ Hcfg) as Hmac. pose proof (cfg_ok_mac_bytes _ Hcfg) as Hmb.
  unfold arp_repl in H.
  destruct (u16_at 6 p =? 1); [|discriminate].
  match type of H with context [if ?c then _ else _] => destruct c end; [discriminate|].
  apply (f_equal fst) in H. cbn [fst] in H. apply some_inj in H. subst a. split.
  - intros Hp. bytes_tac.
  - rewrite !app_length, Hmac, !slice_length, skipn_length by lia. cbn [length]. lia.
Qed.

(* ====================================================================== *)
(* the theorems                                                            *)
(* ====================================================================== *)
Theorem reply_length E cfg clk tb f tb' r evs :
  cfg_ok cfg = true -> env_small E = true -> bytes_ok f = true ->
  (length f <= 4096)%nat -> (length (clk_date clk) <= 64)%nat -> table_pending_ok tb ->
  reply E cfg clk tb f = Ok (tb', Some r, evs) ->
  (length r < 65536)%nat.
Proof.
  intros Hcfg HE Hf Hfl Hclk Htb Hr. apply reply_factor_ok in Hr. rewrite nat_65536.
  destruct (reply_spec_cases _ _ _ _ _ _ _ Hr)
    as [(a & e & Hl & Hl2 & Ha & ->) | (v & rsrc & hlim & x & off & c & Hv & Hout & ->)].
  - destruct (arp_repl_ok _ _ _ _ Hcfg Hl2 Ha) as [_ Hal].
    rewrite eth_frame_length by (try apply slice_length; try apply cfg_ok_mac; assumption || lia).
    rewrite Hal, skipn_length. lia.
  - destruct (l4_out_addr E cfg clk tb f v Hf Hv _ _ _ Hout) as (_ & Hrl & _).
    rewrite (wrap_ip_length _ _ _ _ _ _ Hcfg Hv Hrl).
    pose proof (set_cksum_length_le off x c) as Hsl.
    pose proof (l4_out_len E cfg clk tb f v Hcfg Hf Hv _ _ _ HE Hclk Htb Hout) as Hxl.
    pose proof (ip_payload_len _ _ _ Hv) as Hpl. unfold APP_MAX in Hxl.
    destruct (v_v4 v); lia.
Qed.

(* ====================================================================== *)
(* octets                                                                 *)
(* ====================================================================== *)
(* the SMB security blobs are octet strings (not yet part of [env_ok]) *)
Definition env_blobs_ok (E : env) : bool := bytes_ok (e_smb_neg E) && bytes_ok (e_smb_chal E).

Section WithSmbBytes.
(* TO BE PLUGGED IN (SMB agent): the SMB replies are octet strings. Everything in
   this section that is about [bytes_ok] is parameterised by these two statements;
   the length results are not. *)
Hypothesis smb1_reply_bytes : forall neg chal ft data r,
  bytes_ok neg = true -> bytes_ok chal = true -> bytes_ok data = true ->
  smb1_repl neg chal ft data = Ok (Some r) -> bytes_ok r = true.
Hypothesis smb2_reply_bytes : forall neg chal ft data r,
  bytes_ok neg = true -> bytes_ok chal = true -> bytes_ok data = true ->
  smb2_repl neg chal ft data = Ok (Some r) -> bytes_ok r = true.

Lemma smb1_repl_bytes neg chal ft data out :
  bytes_ok neg = true -> bytes_ok chal = true -> bytes_ok data = true ->
  smb1_repl neg chal ft data = Ok out -> pl_bytes out.
Proof. intros Hn Hc Hd H. destruct out as [r|]; cbn [pl_bytes]; [|trivial]. exact (smb1_reply_bytes neg chal ft data r Hn Hc Hd H). Qed.
Lemma smb2_repl_bytes neg chal ft data out :
  bytes_ok neg = true -> bytes_ok chal = true -> bytes_ok data = true ->
  smb2_repl neg chal ft data = Ok out -> pl_bytes out.
Proof. intros Hn Hc Hd H. destruct out as [r|]; cbn [pl_bytes]; [|trivial]. exact (smb2_reply_bytes neg chal ft data r Hn Hc Hd H). Qed.

(* the two facts about payloads, by cases on the source *)
Lemma payload_src_bytes E clk ci data out :
  env_ok E = true -> env_blobs_ok E = true ->
  bytes_ok (clk_date clk) = true -> ci_ok ci -> bytes_ok data = true ->
  payload_src E clk ci data out -> pl_bytes out.
Proof.
  intros HE HB Hclk Hci Hd Hsrc.
  apply andb_true_iff in HB. destruct HB as [HB1 HB2].
  destruct (env_ok_parts E HE) as (E1 & E2 & E3 & E4).
  destruct Hsrc as [| s s' out Hh | ci' out Hs | | | ip port r0 Hip | ip port Hip | out Hs | out Hs |].
  - exact I.
  - eapply http_repl_bytes; [exact E1 | exact E2 | exact Hclk | exact Hh].
  - eapply stun_repl_bytes; [exact Hci | exact Hd | exact Hs].
  - apply ssh_repl_bytes, E3.
  - apply ghost_repl_bytes, E4.
  - destruct Hci as [_ Hdst]. rewrite Hip in Hdst. apply rpc_repl_tcp_bytes, Hdst.
  - destruct Hci as [_ Hdst]. rewrite Hip in Hdst. apply rpc_repl_udp_bytes, Hdst.
  - eapply smb1_repl_bytes; [exact HB1 | exact HB2 | exact Hd | exact Hs].
  - eapply smb2_repl_bytes; [exact HB1 | exact HB2 | exact Hd | exact Hs].
  - apply dns_repl_bytes; [apply Hci | exact Hd].
Qed.

Lemma tcp_repl_bytes E cfg clk tb ci0 p tb' ci' r evs :
  env_ok E = true -> env_blobs_ok E = true ->
  bytes_ok (clk_date clk) = true -> ci_ok ci0 -> bytes_ok p = true -> table_pending_ok tb ->
  tcp_repl E cfg clk tb ci0 p = Ok (tb', ci', Some r, evs) -> bytes_ok r = true.
Proof.
  intros HE HB Hclk Hci Hp Htb H.
  destruct (tcp_repl_src _ _ _ _ _ _ _ _ _ _ H) as (sp & dp & sq & ak & fl & pl & -> & Hpl).
  apply bytes_ok_app_intro; [apply tcp_header_ok|].
  destruct Hpl as [-> | (ck & data & Hdata & Hsrc)]; [reflexivity|].
  apply (payload_src_bytes _ _ _ _ _ HE HB Hclk) in Hsrc; [exact Hsrc | exact Hci | exact (proj1 (Hdata Htb Hp))].
Qed.

Lemma udp_repl_bytes E cfg clk ci0 p ci' r evs :
  env_ok E = true -> env_blobs_ok E = true ->
  bytes_ok (clk_date clk) = true -> ci_ok ci0 -> bytes_ok p = true ->
  udp_repl E cfg clk ci0 p = Ok (ci', Some r, evs) -> bytes_ok r = true.
Proof.
  intros HE HB Hclk Hci Hp H.
  destruct (udp_repl_src _ _ _ _ _ _ _ _ H) as (sp & dp & d & -> & Hsrc).
  apply (payload_src_bytes _ _ _ _ _ HE HB Hclk) in Hsrc; [|exact Hci | apply bytes_ok_skipn, Hp].
  cbn [pl_bytes] in Hsrc. bytes_tac.
Qed.

Lemma l4_out_bytes E cfg clk tb f v rsrc hlim x :
  cfg_ok cfg = true -> bytes_ok f = true -> view cfg f = Some v ->
  env_ok E = true -> env_blobs_ok E = true -> bytes_ok (clk_date clk) = true ->
  table_pending_ok tb ->
  l4_out E cfg clk tb f v rsrc hlim x -> bytes_ok x = true.
Proof.
  intros Hcfg Hf Hv HE HB Hclk Htb H.
  pose proof (view_l4_ok cfg f v Hf Hv) as Hl4.
  pose proof (l3_ci_ok cfg f v Hf Hv) as Hci.
  destruct H as [x evs Hv4 Hi | x tgt evs Hv4 Hi | tb' ci' x evs Ht | ci' x evs Hu].
  - apply icmpv4_repl_shape in Hi. subst x. bytes_tac.
  - pose proof (cfg_ok_mac_bytes _ Hcfg) as Hmac.
    destruct (icmpv6_repl_shape _ _ _ _ _ _ Hi) as [(t & _ & _ & Ht & ->) | (_ & ->)].
    + subst t. bytes_tac.
    + bytes_tac.
  - eapply tcp_repl_bytes; eassumption.
  - eapply udp_repl_bytes; eassumption.
Qed.

Theorem reply_bytes_ok E cfg clk tb f tb' r evs :
  cfg_ok cfg = true -> env_ok E = true -> env_blobs_ok E = true ->
  bytes_ok f = true -> bytes_ok (clk_date clk) = true -> table_pending_ok tb ->
  reply E cfg clk tb f = Ok (tb', Some r, evs) ->
  bytes_ok r = true.
Proof.
  intros Hcfg HE HB Hf Hclk Htb Hr. apply reply_factor_ok in Hr.
  destruct (reply_spec_cases _ _ _ _ _ _ _ Hr)
    as [(a & e & Hl & Hl2 & Ha & ->) | (v & rsrc & hlim & x & off & c & Hv & Hout & ->)].
  - destruct (arp_repl_ok _ _ _ _ Hcfg Hl2 Ha) as [Hab _].
    pose proof (cfg_ok_mac_bytes _ Hcfg) as Hmac.
    unfold eth_frame. bytes_tac. apply Hab. bytes_tac.
  - destruct (l4_out_addr E cfg clk tb f v Hf Hv _ _ _ Hout) as (Hrs & _ & Hh).
    apply wrap_ip_bytes; try assumption.
    apply bytes_ok_set_cksum. exact (l4_out_bytes E cfg clk tb f v rsrc hlim x Hcfg Hf Hv HE HB Hclk Htb Hout).
Qed.

(* C04 without hypotheses on the emitted frame *)
Theorem wellformed_closed E cfg clk tb f tb' r evs :
  cfg_ok cfg = true -> env_ok E = true -> env_blobs_ok E = true -> env_small E = true ->
  bytes_ok f = true -> (length f <= 4096)%nat ->
  bytes_ok (clk_date clk) = true -> (length (clk_date clk) <= 64)%nat -> table_pending_ok tb ->
  reply E cfg clk tb f = Ok (tb', Some r, evs) ->
  wf_frame r = true.
Proof.
  intros Hcfg HE HB HEs Hf Hfl Hclk Hclkl Htb Hr.
  apply (wellformed E cfg clk tb f tb' r evs Hcfg Hf Hr).
  - exact (reply_bytes_ok E cfg clk tb f tb' r evs Hcfg HE HB Hf Hclk Htb Hr).
  - exact (reply_length E cfg clk tb f tb' r evs Hcfg HEs Hf Hfl Hclkl Htb Hr).
Qed.

End WithSmbBytes.
