(* Res.v -- result type making Rust panics explicit in the model. *)
From MS Require Export Bytes.

Inductive res (A : Type) : Type :=
| Ok (a : A)
| Panic (site : N).
Arguments Ok {A} a.
Arguments Panic {A} site.

Definition bind {A B} (r : res A) (f : A -> res B) : res B :=
  match r with
  | Ok a => f a
  | Panic s => Panic s
  end.

Notation "'do' x <- r ; k" := (bind r (fun x => k))
  (at level 200, x pattern, r at level 100, k at level 200).

Definition is_ok {A} (r : res A) : bool :=
  match r with Ok _ => true | Panic _ => false end.
