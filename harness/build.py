"""Build everything a check needs from /repo's current working tree:
hooked driver(s), generated Coq data, the Coq development, the extracted model runner."""
import os, sys, glob, shutil
from common import *
import gen_tables, gen_consts, gen_srcconsts

ENVFILE = os.path.join(CACHE, "env.txt")


def cargo_build(profile):
    cmd = ["cargo", "build", "--offline", "--features", "verif", "--target-dir", TARGET]
    if profile == "release":
        cmd.append("--release")
    run(cmd, cwd=REPO, timeout=1800)


def shim_build():
    """the LD_PRELOAD clock shim behind the driver's ADV command (harness/shim/clockshim.c)"""
    src = os.path.join(VERIF, "harness", "shim", "clockshim.c")
    if os.path.exists(CLOCKSHIM) and os.path.getmtime(CLOCKSHIM) >= os.path.getmtime(src):
        return
    run(["cc", "-shared", "-fPIC", "-O2", "-o", CLOCKSHIM + ".tmp", src, "-ldl"], timeout=120)
    os.replace(CLOCKSHIM + ".tmp", CLOCKSHIM)


def write_env(driver, consts):
    import subprocess
    out = subprocess.run([driver], input="DUMP\n", stdout=subprocess.PIPE, stderr=subprocess.DEVNULL,
                         env=dict(os.environ, MASSCANNED_VERIF="1"), text=True, timeout=120).stdout
    txt = "".join(l + "\n" for l in out.replace("@@END\n", "").splitlines() if not l.startswith("const "))
    for k, v in consts.items():
        txt += "const %s %s\n" % (k, v.hex())
    write_if_changed(ENVFILE, txt)


def coq_make(target=None, timeout=3000):
    if not os.path.exists(os.path.join(COQ, "Makefile")) or \
            os.path.getmtime(os.path.join(COQ, "Makefile")) < os.path.getmtime(os.path.join(COQ, "_CoqProject")):
        run("coq_makefile -f _CoqProject -o Makefile", cwd=COQ)
    cmd = ["make", "-j16", "-k"] + ([target] if target else [])   # -k: a broken file must not keep unrelated ones from being built
    return run(cmd, cwd=COQ, timeout=timeout, check=False)


def newest(paths):
    return max((os.path.getmtime(p) for p in paths if os.path.exists(p)), default=0)


def ocaml_build():
    odir = os.path.join(CACHE, "ocaml")
    os.makedirs(odir, exist_ok=True)
    srcs = glob.glob(os.path.join(COQ, "theories", "*.vo")) + glob.glob(os.path.join(COQ, "theories", "Spec", "*.vo")) + \
        [os.path.join(COQ, "extraction", "Extract.v"), os.path.join(VERIF, "ocaml", "model_run.ml")]
    if os.path.exists(MODEL_RUN) and os.path.getmtime(MODEL_RUN) >= newest(srcs):
        return
    shutil.copy(os.path.join(COQ, "extraction", "Extract.v"), os.path.join(odir, "Extract.v"))
    shutil.copy(os.path.join(VERIF, "ocaml", "model_run.ml"), os.path.join(odir, "model_run.ml"))
    run(["coqc", "-Q", os.path.join(COQ, "theories"), "MS", "-Q", os.path.join(COQ, "gen"), "MSgen", "Extract.v"],
        cwd=odir, timeout=600)
    run("ocamlfind ocamlopt -O2 -w -a -package str model.mli model.ml model_run.ml -o model_run 2>&1 || "
        "ocamlfind ocamlopt -w -a model.mli model.ml model_run.ml -o model_run", cwd=odir, timeout=600)


def build(profiles=("dev",), coq=True):
    """Returns (ok, message). Never raises on a Coq failure: the caller reports it."""
    with Lock("build"):
        for p in profiles:
            cargo_build(p)
        shim_build()
        tables, _ = gen_tables.generate(DRIVER_DEV)
        consts, _ = gen_consts.generate(DRIVER_DEV)
        gen_srcconsts.generate()
        write_env(DRIVER_DEV, consts)
        msg = ""
        ok = True
        if coq:
            p = coq_make()
            if p.returncode != 0:
                ok = False
                msg = p.stdout[-6000:]
        # the model runner only needs the model files; build it even if a proof broke
        p2 = coq_make("model")
        if p2.returncode != 0:
            return False, "model does not compile:\n" + p2.stdout[-4000:]
        ocaml_build()
        return ok, msg


if __name__ == "__main__":
    profiles = ("dev", "release") if "--release" in sys.argv else ("dev",)
    ok, msg = build(profiles)
    print("build", "ok" if ok else "FAILED")
    if not ok:
        print(msg)
        sys.exit(1)
