(* Properties/C05.v -- ARP requests, ICMP/ICMPv6 echo requests and neighbour
   solicitations for a handled address are answered, correctly, and nothing else
   at these layers is. This file only pins the statement; the proof is in
   Proofs/C05.v. *)
From MS Require Import L2 Spec.View Spec.RefDec Spec.C05 Proofs.C05.

(* For every configuration, table and frame: what is emitted satisfies the C05
   monitor. On a frame accepted at layer 2: an ARP request (operation 1) for a
   handled IPv4 address gets an ARP reply (operation 2, hardware type 1, sender =
   configured MAC / requested address, target = the requester), any other ARP
   packet gets silence; an ICMPv4 echo request (type 8, code 0) gets an echo reply
   with the same identifier, sequence number and data; an ICMPv6 echo request
   (128/0) to a handled address gets the echo reply 129/0 with the same body; a
   neighbour solicitation (135/0, at least 24 bytes) for a handled target gets the
   advertisement 136/0 with flags Solicited|Override, the solicited target and
   exactly one option (target link-layer address = configured MAC); every other
   ICMP / ICMPv6 packet gets silence. *)
Theorem C05_l2l3_services :
  forall E cfg clk tb f tb' r evs,
    cfg_ok cfg = true -> bytes_ok f = true ->
    reply E cfg clk tb f = Ok (tb', r, evs) ->
    ok_C05 cfg f r = true.
Proof. exact l2l3_services. Qed.

Print Assumptions C05_l2l3_services.
