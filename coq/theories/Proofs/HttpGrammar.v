(* Proofs/HttpGrammar.v -- facts about the reference grammar alone (no parser):
   the strict recogniser decides the declarative language Lstrict, complete
   prefixes are unique, and Lstrict is contained in Lrelaxed. *)
From Coq Require Import Lia.
From MS Require Import Spec.RefHttp Proofs.Tactics.

Definition id_byte (b : N) : N := b.

(* ---------- words ---------- *)
Lemma existsb_null_In (cands : list bytes) : existsb null cands = true -> In [] cands.
Proof.
  rewrite existsb_exists. intros (c & Hc & Hn). destruct c; [exact Hc | discriminate].
Qed.

Lemma deriv_In (cands : list bytes) (b : N) (c' : bytes) :
  In c' (deriv cands b) -> In (b :: c') cands.
Proof.
  unfold deriv. rewrite in_flat_map. intros (c & Hc & Hin).
  destruct c as [|x c'']; [contradiction|].
  destruct (x =? b) eqn:E; [|contradiction]. apply N.eqb_eq in E. subst x.
  destruct Hin as [<-|[]]. exact Hc.
Qed.

Lemma rx_word_id_sound : forall s cands r,
  rx_word (fun b => b) cands s = Some r -> exists c, In c cands /\ s = c ++ r.
Proof.
  induction s as [|b s IH]; intros cands r H; cbn [rx_word] in H.
  - destruct (existsb null cands) eqn:E; [|discriminate]. injection H as <-.
    exists []. split; [apply existsb_null_In; exact E | reflexivity].
  - destruct (existsb null cands) eqn:E.
    + injection H as <-. exists []. split; [apply existsb_null_In; exact E | reflexivity].
    + destruct (IH _ _ H) as (c' & Hc' & ->). exists (b :: c'). split; [apply deriv_In; exact Hc' | reflexivity].
Qed.

Lemma rx_word_verbs (v r : bytes) :
  In v HTTP_VERBS ->
  rx_word (fun b => b) HTTP_VERBS (v ++ r) = Some r /\ rx_word upper HTTP_VERBS (v ++ r) = Some r.
Proof.
  intros H. unfold HTTP_VERBS in H. cbn [In] in H.
  repeat (destruct H as [<-|H]; [split; destruct r; reflexivity|]). contradiction.
Qed.

(* ---------- single bytes, literals ---------- *)
Lemma rx_byte_sound c s r : rx_byte c s = Some r -> s = c :: r.
Proof.
  destruct s as [|b s]; cbn [rx_byte]; [discriminate|]. destruct (b =? c) eqn:E; [|discriminate].
  apply N.eqb_eq in E. intros H. injection H as <-. congruence.
Qed.
Lemma rx_byte_complete c r : rx_byte c (c :: r) = Some r.
Proof. cbn [rx_byte]. rewrite N.eqb_refl. reflexivity. Qed.

Lemma is_prefix_split : forall p l, is_prefix p l = true -> l = p ++ skipn (length p) l.
Proof.
  induction p as [|x p IH]; intros l H; [reflexivity|].
  destruct l as [|y l]; [discriminate|]. cbn [is_prefix] in H. rewrite andb_true_iff, N.eqb_eq in H.
  destruct H as [-> H]. cbn [length skipn app]. f_equal. apply IH. exact H.
Qed.
Lemma is_prefix_app : forall p r, is_prefix p (p ++ r) = true.
Proof. induction p as [|x p IH]; intros r; [reflexivity|]. cbn [is_prefix app]. rewrite N.eqb_refl. apply IH. Qed.
Lemma skipn_app_exact {A} : forall (p r : list A), skipn (length p) (p ++ r) = r.
Proof. induction p as [|x p IH]; intros r; [reflexivity|]. cbn [length skipn app]. apply IH. Qed.

Lemma rx_lit_sound lit s r : rx_lit lit s = Some r -> s = lit ++ r.
Proof.
  unfold rx_lit. destruct (is_prefix lit s) eqn:E; [|discriminate]. intros H. injection H as <-.
  apply is_prefix_split. exact E.
Qed.
Lemma rx_lit_complete lit r : rx_lit lit (lit ++ r) = Some r.
Proof. unfold rx_lit. rewrite is_prefix_app, skipn_app_exact. reflexivity. Qed.

(* ---------- target ---------- *)
Definition tchar (b : N) : Prop := b <> 32 /\ b <> 13 /\ b <> 10.

Lemma rx_until_sp_sound : forall s r, rx_until_sp s = Some r -> exists u, s = u ++ 32 :: r /\ Forall tchar u.
Proof.
  induction s as [|b s IH]; intros r H; cbn [rx_until_sp] in H; [discriminate|].
  destruct (b =? 32) eqn:E1.
  - apply N.eqb_eq in E1. injection H as <-. exists []. subst b. split; [reflexivity | constructor].
  - destruct ((b =? 13) || (b =? 10)) eqn:E2; [discriminate|].
    destruct (IH _ H) as (u & -> & Hu). exists (b :: u). split; [reflexivity|].
    constructor; [|exact Hu]. unfold tchar. lia.
Qed.
Lemma rx_until_sp_complete : forall u r, Forall tchar u -> rx_until_sp (u ++ 32 :: r) = Some r.
Proof.
  induction u as [|b u IH]; intros r H; cbn [app rx_until_sp].
  - reflexivity.
  - inversion H as [|? ? Hb Hu]; subst. unfold tchar in Hb.
    replace (b =? 32) with false by lia. replace ((b =? 13) || (b =? 10)) with false by lia.
    apply IH. exact Hu.
Qed.

Lemma rs_target_sound s r : rs_target s = Some r -> exists u, s = u ++ 32 :: r /\ target_ok u.
Proof.
  destruct s as [|b s]; cbn [rs_target]; [discriminate|]. destruct (b =? 47) eqn:E; [|discriminate].
  apply N.eqb_eq in E. subst b. intros H. destruct (rx_until_sp_sound _ _ H) as (u & -> & Hu).
  exists (47 :: u). split; [reflexivity|]. split; [eauto|]. constructor; [lia | exact Hu].
Qed.
Lemma rs_target_complete u r : target_ok u -> rs_target (u ++ 32 :: r) = Some r.
Proof.
  intros [(u' & ->) Hf]. cbn [app rs_target]. change (47 =? 47) with true. cbv iota.
  apply rx_until_sp_complete. inversion Hf; assumption.
Qed.

(* ---------- digits ---------- *)
Definition not_digit_hd (r : bytes) : Prop := match r with [] => True | b :: _ => is_digit b = false end.

Lemma skip_digits_sound : forall s, exists d, s = d ++ skip_digits s /\ Forall (fun b => is_digit b = true) d.
Proof.
  induction s as [|b s (d & Hd & Hf)]; cbn [skip_digits].
  - exists []. split; [reflexivity | constructor].
  - destruct (is_digit b) eqn:E.
    + exists (b :: d). split; [cbn [app]; f_equal; exact Hd | constructor; assumption].
    + exists []. split; [reflexivity | constructor].
Qed.
Lemma skip_digits_complete : forall d r,
  Forall (fun b => is_digit b = true) d -> not_digit_hd r -> skip_digits (d ++ r) = r.
Proof.
  induction d as [|b d IH]; intros r Hf Hr; cbn [app skip_digits].
  - destruct r as [|c r]; [reflexivity|]. cbn [skip_digits]. cbn in Hr. rewrite Hr. reflexivity.
  - inversion Hf as [|? ? Hb Hd]; subst. rewrite Hb. apply IH; assumption.
Qed.
Lemma rx_digits1_sound s r : rx_digits1 s = Some r -> exists d, s = d ++ r /\ digits1 d.
Proof.
  destruct s as [|b s]; cbn [rx_digits1]; [discriminate|]. destruct (is_digit b) eqn:E; [|discriminate].
  intros H. injection H as <-. destruct (skip_digits_sound s) as (d & Hd & Hf).
  exists (b :: d). split; [cbn [app]; f_equal; exact Hd|]. split; [discriminate | constructor; assumption].
Qed.
Lemma rx_digits1_complete d r : digits1 d -> not_digit_hd r -> rx_digits1 (d ++ r) = Some r.
Proof.
  intros [Hne Hf] Hr. destruct d as [|b d]; [congruence|]. inversion Hf as [|? ? Hb Hd]; subst.
  cbn [app rx_digits1]. rewrite Hb. f_equal. apply skip_digits_complete; assumption.
Qed.

(* ---------- end of line ---------- *)
Lemma rs_eol_sound s r : rs_eol s = Some r -> exists e, s = e ++ r /\ is_eol e.
Proof.
  destruct s as [|b s]; cbn [rs_eol]; [discriminate|]. destruct (b =? 10) eqn:E1.
  - apply N.eqb_eq in E1. subst b. intros H. injection H as <-. exists [10]. split; [reflexivity | right; reflexivity].
  - destruct (b =? 13) eqn:E2; [|discriminate]. apply N.eqb_eq in E2. subst b. intros H.
    apply rx_byte_sound in H. subst s. exists [13; 10]. split; [reflexivity | left; reflexivity].
Qed.
Lemma rs_eol_complete e r : is_eol e -> rs_eol (e ++ r) = Some r.
Proof. intros [->| ->]; reflexivity. Qed.

(* ---------- header lines ---------- *)
Definition nchar (b : N) : Prop := b <> 58 /\ b <> 13 /\ b <> 10.
Definition vchar (b : N) : Prop := b <> 13 /\ b <> 10.

Lemma rs_name_sound : forall s seen r, rs_name s seen = Some r ->
  exists n, s = n ++ 58 :: r /\ Forall nchar n /\ (seen = false -> n <> []).
Proof.
  induction s as [|b s IH]; intros seen r H; cbn [rs_name] in H; [discriminate|].
  destruct (b =? 58) eqn:E1.
  - apply N.eqb_eq in E1. subst b. destruct seen; [|discriminate]. injection H as <-.
    exists []. split; [reflexivity|]. split; [constructor | discriminate].
  - destruct ((b =? 13) || (b =? 10)) eqn:E2; [discriminate|].
    destruct (IH _ _ H) as (n & -> & Hn & _). exists (b :: n). split; [reflexivity|].
    split; [constructor; [unfold nchar; lia | exact Hn] | discriminate].
Qed.
Lemma rs_name_complete : forall n seen r,
  Forall nchar n -> (seen = true \/ n <> []) -> rs_name (n ++ 58 :: r) seen = Some r.
Proof.
  induction n as [|b n IH]; intros seen r Hf Hs; cbn [app rs_name].
  - change (58 =? 58) with true. cbv iota. destruct Hs as [->|Hs]; [reflexivity | congruence].
  - inversion Hf as [|? ? Hb Hn]; subst. unfold nchar in Hb.
    replace (b =? 58) with false by lia. replace ((b =? 13) || (b =? 10)) with false by lia.
    apply IH; [exact Hn | left; reflexivity].
Qed.

Lemma rs_value_sound : forall s r, rs_value s = Some r ->
  exists v e, s = v ++ e ++ r /\ Forall vchar v /\ is_eol e.
Proof.
  induction s as [|b s IH]; intros r H; cbn [rs_value] in H; [discriminate|].
  destruct (b =? 10) eqn:E1.
  - apply N.eqb_eq in E1. subst b. injection H as <-. exists [], [10].
    split; [reflexivity|]. split; [constructor | right; reflexivity].
  - destruct (b =? 13) eqn:E2.
    + apply N.eqb_eq in E2. subst b. apply rx_byte_sound in H. subst s. exists [], [13; 10].
      split; [reflexivity|]. split; [constructor | left; reflexivity].
    + destruct (IH _ H) as (v & e & -> & Hv & He). exists (b :: v), e. split; [reflexivity|].
      split; [constructor; [unfold vchar; lia | exact Hv] | exact He].
Qed.
Lemma rs_value_complete : forall v e r, Forall vchar v -> is_eol e -> rs_value (v ++ e ++ r) = Some r.
Proof.
  induction v as [|b v IH]; intros e r Hf He; cbn [app].
  - destruct He as [->| ->]; reflexivity.
  - inversion Hf as [|? ? Hb Hv]; subst. unfold vchar in Hb. cbn [rs_value].
    replace (b =? 10) with false by lia. replace (b =? 13) with false by lia. apply IH; assumption.
Qed.

Lemma rs_headers_sound : forall fuel s r, rs_headers fuel s = Some r -> exists hs, s = hs ++ r /\ Lheaders hs.
Proof.
  induction fuel as [|f IH]; intros s r H; cbn [rs_headers] in H; [discriminate|].
  destruct (rs_eol s) as [r0|] eqn:E.
  - injection H as <-. destruct (rs_eol_sound _ _ E) as (e & -> & He). exists e. split; [reflexivity | constructor; exact He].
  - destruct (rs_name s false) as [r1|] eqn:E1; cbn [obind] in H; [|discriminate].
    destruct (rs_value r1) as [r2|] eqn:E2; cbn [obind] in H; [|discriminate].
    destruct (rs_name_sound _ _ _ E1) as (n & -> & Hn & Hne).
    destruct (rs_value_sound _ _ E2) as (v & e & -> & Hv & He).
    destruct (IH _ _ H) as (hs & -> & Hhs).
    exists (n ++ 58 :: v ++ e ++ hs). split.
    + repeat (rewrite <- app_assoc || rewrite <- app_comm_cons). reflexivity.
    + apply LH_cons; auto. split; [apply Hne; reflexivity | exact Hn].
Qed.

Lemma rs_headers_complete hs : Lheaders hs ->
  forall fuel r, (length hs < fuel)%nat -> rs_headers fuel (hs ++ r) = Some r.
Proof.
  induction 1 as [e He | n v e rest Hn Hv He Hrest IH]; intros fuel r Hf.
  - destruct fuel as [|f]; [lia|]. cbn [rs_headers]. rewrite (rs_eol_complete e r He). reflexivity.
  - destruct fuel as [|f]; [lia|]. cbn [rs_headers].
    destruct Hn as [Hne Hnf]. destruct n as [|x n]; [congruence|].
    assert (Heol : rs_eol (((x :: n) ++ 58 :: v ++ e ++ rest) ++ r) = None).
    { inversion Hnf as [|? ? Hx _]; subst. unfold nchar in Hx. cbn [app rs_eol].
      replace (x =? 10) with false by lia. replace (x =? 13) with false by lia. reflexivity. }
    rewrite Heol.
    replace (((x :: n) ++ 58 :: v ++ e ++ rest) ++ r) with ((x :: n) ++ 58 :: (v ++ e ++ (rest ++ r)))
      by (repeat (rewrite <- app_assoc || rewrite <- app_comm_cons); reflexivity).
    rewrite rs_name_complete by (auto; right; discriminate). cbn [obind].
    rewrite rs_value_complete by assumption. cbn [obind].
    apply IH. rewrite !app_length in Hf. cbn [length] in Hf. rewrite !app_length in Hf. lia.
Qed.

(* ---------- the strict recogniser decides Lstrict ---------- *)
Lemma is_eol_hd e r : is_eol e -> not_digit_hd (e ++ r).
Proof. intros [->| ->]; reflexivity. Qed.

Theorem rs_request_sound s rest : rs_request s = Some rest -> exists p, s = p ++ rest /\ Lstrict p.
Proof.
  unfold rs_request, rs_after_verb. intros H.
  destruct (rx_word _ HTTP_VERBS s) as [r1|] eqn:E1; cbn [obind] in H; [|discriminate].
  destruct (rx_byte 32 r1) as [r2|] eqn:E2; cbn [obind] in H; [|discriminate].
  destruct (rs_target r2) as [r3|] eqn:E3; cbn [obind] in H; [|discriminate].
  destruct (rx_lit HTTP_SLASH_LIT r3) as [r4|] eqn:E4; cbn [obind] in H; [|discriminate].
  destruct (rx_digits1 r4) as [r5|] eqn:E5; cbn [obind] in H; [|discriminate].
  destruct (rx_byte 46 r5) as [r6|] eqn:E6; cbn [obind] in H; [|discriminate].
  destruct (rx_digits1 r6) as [r7|] eqn:E7; cbn [obind] in H; [|discriminate].
  destruct (rs_eol r7) as [r8|] eqn:E8; cbn [obind] in H; [|discriminate].
  destruct (rx_word_id_sound _ _ _ E1) as (verb & Hverb & ->).
  apply rx_byte_sound in E2. subst r1.
  destruct (rs_target_sound _ _ E3) as (u & -> & Hu).
  apply rx_lit_sound in E4. subst r3.
  destruct (rx_digits1_sound _ _ E5) as (maj & -> & Hmaj).
  apply rx_byte_sound in E6. subst r5.
  destruct (rx_digits1_sound _ _ E7) as (mn & -> & Hmin).
  destruct (rs_eol_sound _ _ E8) as (e & -> & He).
  destruct (rs_headers_sound _ _ _ H) as (hs & -> & Hhs).
  exists (verb ++ 32 :: u ++ 32 :: HTTP_SLASH_LIT ++ maj ++ 46 :: mn ++ e ++ hs). split.
  - repeat (rewrite <- app_assoc || rewrite <- app_comm_cons). reflexivity.
  - constructor; assumption.
Qed.

Theorem rs_request_complete p rest : Lstrict p -> rs_request (p ++ rest) = Some rest.
Proof.
  intros H. destruct H as [verb u maj mn e hs Hverb Hu Hmaj Hmin He Hhs].
  replace ((verb ++ 32 :: u ++ 32 :: HTTP_SLASH_LIT ++ maj ++ 46 :: mn ++ e ++ hs) ++ rest)
    with (verb ++ 32 :: (u ++ 32 :: (HTTP_SLASH_LIT ++ (maj ++ 46 :: (mn ++ (e ++ (hs ++ rest)))))))
    by (repeat (rewrite <- app_assoc || rewrite <- app_comm_cons); reflexivity).
  unfold rs_request, rs_after_verb.
  rewrite (proj1 (rx_word_verbs verb _ Hverb)). cbn [obind].
  rewrite rx_byte_complete. cbn [obind].
  rewrite rs_target_complete by exact Hu. cbn [obind].
  rewrite rx_lit_complete. cbn [obind].
  rewrite rx_digits1_complete by (try exact Hmaj; reflexivity). cbn [obind].
  rewrite rx_byte_complete. cbn [obind].
  rewrite rx_digits1_complete by (try exact Hmin; apply is_eol_hd; exact He). cbn [obind].
  rewrite rs_eol_complete by exact He. cbn [obind].
  apply rs_headers_complete; [exact Hhs|]. rewrite app_length. lia.
Qed.

Theorem rs_request_iff s rest : rs_request s = Some rest <-> exists p, s = p ++ rest /\ Lstrict p.
Proof.
  split; [apply rs_request_sound|]. intros (p & -> & Hp). apply rs_request_complete. exact Hp.
Qed.

Theorem http_complete_prefix_iff s n :
  http_complete_prefix s = Some n <-> exists p t, s = p ++ t /\ Lstrict p /\ length p = n.
Proof.
  unfold http_complete_prefix. split.
  - destruct (rs_request s) as [rest|] eqn:E; [|discriminate]. intros H. injection H as <-.
    destruct (rs_request_sound _ _ E) as (p & -> & Hp). exists p, rest. repeat split; auto.
    rewrite app_length. lia.
  - intros (p & t & -> & Hp & <-). rewrite (rs_request_complete p t Hp). f_equal. rewrite app_length. lia.
Qed.

(* all complete strict prefixes of a byte string have the same length *)
Corollary Lstrict_prefix_unique p t p' t' : Lstrict p -> Lstrict p' -> p ++ t = p' ++ t' -> p = p' /\ t = t'.
Proof.
  intros Hp Hp' E. pose proof (rs_request_complete p t Hp) as H1. rewrite E in H1.
  rewrite (rs_request_complete p' t' Hp') in H1. injection H1 as <-.
  apply app_inv_tail in E. auto.
Qed.

(* ---------- Lstrict is contained in Lrelaxed ---------- *)
Lemma rl_name_of_rs : forall s r, rs_name s true = Some r -> rl_name s = Some r.
Proof.
  induction s as [|b s IH]; intros r H; cbn [rs_name rl_name] in *; [discriminate|].
  destruct (b =? 58); [exact H|]. destruct ((b =? 13) || (b =? 10)); [discriminate|]. apply IH. exact H.
Qed.
Lemma rl_value_of_rs : forall s r, rs_value s = Some r -> rl_value s = Some r.
Proof.
  induction s as [|b s IH]; intros r H; cbn [rs_value rl_value] in *; [discriminate|].
  destruct (b =? 10); [exact H|]. destruct (b =? 13) eqn:E.
  - apply rx_byte_sound in H. subst s. reflexivity.
  - apply IH. exact H.
Qed.
Lemma rl_headers_of_rs : forall fuel s r, rs_headers fuel s = Some r -> rl_headers fuel s = Some r.
Proof.
  induction fuel as [|f IH]; intros s r H; cbn [rs_headers rl_headers] in *; [discriminate|].
  destruct (rs_eol s) as [r0|] eqn:E.
  - injection H as <-. destruct s as [|b s]; cbn [rs_eol] in E; [discriminate|].
    destruct (b =? 10) eqn:E1.
    + injection E as <-. cbn [skip_cr]. replace (b =? 13) with false by lia. rewrite E1. reflexivity.
    + destruct (b =? 13) eqn:E2; [|discriminate]. apply rx_byte_sound in E. subst s.
      cbn [skip_cr]. rewrite E2. change (10 =? 13) with false. cbv iota. reflexivity.
  - destruct (rs_name s false) as [r1|] eqn:E1; cbn [obind] in H; [|discriminate].
    destruct (rs_value r1) as [r2|] eqn:E2; cbn [obind] in H; [|discriminate].
    destruct s as [|b s]; cbn [rs_name] in E1; [discriminate|].
    destruct (b =? 58) eqn:Ec; [discriminate|].
    destruct ((b =? 13) || (b =? 10)) eqn:Ee; [discriminate|].
    cbn [skip_cr]. replace (b =? 13) with false by lia. replace (b =? 10) with false by lia.
    rewrite (rl_name_of_rs _ _ E1). cbn [obind]. rewrite (rl_value_of_rs _ _ E2). cbn [obind].
    apply IH. exact H.
Qed.

Lemma rl_minor_digits : forall d r seen,
  Forall (fun b => is_digit b = true) d -> rl_minor (d ++ r) seen = rl_minor r (seen || negb (null d)).
Proof.
  induction d as [|b d IH]; intros r seen Hf; cbn [app null negb].
  - rewrite orb_false_r. reflexivity.
  - inversion Hf as [|? ? Hb Hd]; subst. cbn [rl_minor]. unfold is_digit in Hb.
    replace (b =? 13) with false by lia. replace (b =? 10) with false by lia.
    replace (is_digit b) with true by (unfold is_digit; lia).
    rewrite IH by exact Hd. rewrite orb_true_r. reflexivity.
Qed.
Lemma rl_minor_of_rs s r7 r8 : rx_digits1 s = Some r7 -> rs_eol r7 = Some r8 -> rl_minor s false = Some r8.
Proof.
  intros H1 H2. destruct (rx_digits1_sound _ _ H1) as (d & -> & Hne & Hd).
  rewrite rl_minor_digits by exact Hd. destruct d as [|x d]; [congruence|]. cbn [null negb orb].
  destruct (rs_eol_sound _ _ H2) as (e & -> & [->| ->]); reflexivity.
Qed.

Theorem rl_request_of_rs s rest : rs_request s = Some rest -> rl_request s = Some rest.
Proof.
  unfold rs_request, rs_after_verb, rl_request, rl_after_verb. intros H.
  destruct (rx_word _ HTTP_VERBS s) as [r1|] eqn:E1; cbn [obind] in H; [|discriminate].
  destruct (rx_word_id_sound _ _ _ E1) as (verb & Hverb & ->).
  rewrite (proj2 (rx_word_verbs verb r1 Hverb)). cbn [obind].
  destruct (rx_byte 32 r1) as [r2|] eqn:E2; cbn [obind] in *; [|discriminate].
  destruct (rs_target r2) as [r3|] eqn:E3; cbn [obind] in H; [|discriminate].
  assert (E3' : rx_until_sp r2 = Some r3).
  { destruct r2 as [|b r2]; cbn [rs_target] in E3; [discriminate|]. destruct (b =? 47) eqn:Eb; [|discriminate].
    cbn [rx_until_sp]. replace (b =? 32) with false by lia. replace ((b =? 13) || (b =? 10)) with false by lia.
    exact E3. }
  rewrite E3'. cbn [obind].
  destruct (rx_lit HTTP_SLASH_LIT r3) as [r4|] eqn:E4; cbn [obind] in *; [|discriminate].
  destruct (rx_digits1 r4) as [r5|] eqn:E5; cbn [obind] in *; [|discriminate].
  destruct (rx_byte 46 r5) as [r6|] eqn:E6; cbn [obind] in *; [|discriminate].
  destruct (rx_digits1 r6) as [r7|] eqn:E7; cbn [obind] in H; [|discriminate].
  destruct (rs_eol r7) as [r8|] eqn:E8; cbn [obind] in H; [|discriminate].
  rewrite (rl_minor_of_rs _ _ _ E7 E8). cbn [obind].
  apply rl_headers_of_rs. exact H.
Qed.

Corollary relaxed_of_strict_prefix s n : http_complete_prefix s = Some n -> http_relaxed_prefix s = Some n.
Proof.
  unfold http_complete_prefix, http_relaxed_prefix. destruct (rs_request s) as [rest|] eqn:E; [|discriminate].
  rewrite (rl_request_of_rs _ _ E). auto.
Qed.
