(* Spec/C01.v -- no frame, history or configuration can crash the responder. *)
From MS Require Export Bytes Types Proto Spec.Pending L2 Spec.View Spec.History Spec.EnvOk Spec.C11http.

(* frames as the capture loop hands them over: octets, at most the capture buffer *)
Definition frame_ok (f : bytes) : Prop := bytes_ok f = true /\ (length f <= 4096)%nat.

(* the wall-clock inputs: an RFC 2822 date is a short string of octets *)
Definition clock_ok (clk : clock) : Prop :=
  bytes_ok (clk_date clk) = true /\ (length (clk_date clk) <= 64)%nat /\ clk_filetime clk < 18446744073709551616.

(* invariant of the connection table that keeps the two bare panic!() of the HTTP
   and RPC handlers (a control block carrying the other protocol's parser state)
   and the verb-matcher underflow unreachable ... *)
Definition tcb_state_ok (E : env) (tc : tcb) : Prop :=
  match t_pstate tc with
  | None => True
  | Some (PHttp h) => t_proto tc = PROTO_HTTP /\ http_st_ok (e_http_tbl E) h
  | Some (PRpc _) => t_proto tc = PROTO_RPC_TCP
  end.

(* ... and the bytes kept while the protocol is unknown are octets, at most PENDING_MAX of
   them (they are handed to the handlers, which index into what they are given) *)
Definition tcb_ok (E : env) (tc : tcb) : Prop := tcb_state_ok E tc /\ pending_ok tc.

Definition table_ok (E : env) (tb : table) : Prop := forall k tc, tbl_find k tb = Some tc -> tcb_ok E tc.

(* client information whose addresses are octet strings (what layer 3 produces) *)
Definition addr_octets (o : option ipaddr) : Prop :=
  match o with
  | Some a => bytes_ok (ip_octets a) = true /\ (length (ip_octets a) <= 16)%nat
  | None => True
  end.
Definition ci_addrs_ok (ci : cinfo) : Prop := addr_octets (ci_ip_src ci) /\ addr_octets (ci_ip_dst ci).

(* every datagram reply fits the 16-bit UDP length field; discharged by the amplification
   bound for frames of at most 4096 bytes (theorem udp_replies_short_holds) *)
Definition udp_replies_short (E : env) (clk : clock) : Prop :=
  forall ci p ci' d, ci_addrs_ok ci -> (length p <= 4096)%nat -> bytes_ok p = true ->
    proto_repl_udp E clk ci p = Ok (ci', Some d) -> lenN d + 8 <= 65535.
