(* Properties/C06.v -- SYN policy mimics Linux; SYN-ACK acks seq+1 with a deterministic cookie.
   This file only pins statements; the proofs are in Proofs/C06.v. *)
From MS Require Import L2 Spec.View Spec.RefDec Spec.C06 Proofs.C06 Proofs.C06Cor.

(* For every configuration, table (= whatever happened before) and frame: what is
   emitted satisfies the C06 monitor: a SYN-bearing segment that reaches TCP gets
   exactly SYN|ACK, ack = seq+1 mod 2^32, empty payload and seq = cookie(key, src,
   dst, sport, dport) iff its flags pass the Linux rule; otherwise never a SYN|ACK. *)
Theorem C06_syn_policy :
  forall E cfg clk tb f tb' r evs,
    cfg_ok cfg = true -> bytes_ok f = true ->
    reply E cfg clk tb f = Ok (tb', r, evs) ->
    ok_C06 cfg f r = true.
Proof. exact syn_policy. Qed.

Theorem C06_syn_leaves_table :
  forall E cfg clk tb f v tb' r evs,
    bytes_ok f = true ->
    view_tcp cfg f = Some v ->
    has_syn (tcp_flags (v_l4 v)) = true -> linux_ok (tcp_flags (v_l4 v)) = true ->
    reply E cfg clk tb f = Ok (tb', r, evs) ->
    tb' = tb.
Proof. exact syn_leaves_table. Qed.

Theorem C06_flag_table :
  forall fl, fl < 512 -> has_syn fl = true ->
    (linux_ok fl = true <-> tcp_class fl = TSynAck).
Proof. exact flag_table. Qed.

Theorem C06_cookie_encoding_injective :
  forall s d s' d' sp dp sp' dp',
    length s = length s' -> length d = length d' ->
    sp < 65536 -> dp < 65536 -> sp' < 65536 -> dp' < 65536 ->
    cookie_msg s d sp dp = cookie_msg s' d' sp' dp' ->
    s = s' /\ d = d' /\ sp = sp' /\ dp = dp'.
Proof. exact cookie_encoding_injective. Qed.

Print Assumptions C06_syn_policy.
Print Assumptions C06_syn_leaves_table.
Print Assumptions C06_flag_table.
Print Assumptions C06_cookie_encoding_injective.

(* The two clauses of the flag rule as plain statements about the decoded reply
   (no monitor in the statement). *)

(* An acceptable SYN is answered, and the answer decodes as a TCP segment with
   exactly SYN|ACK, acknowledgement = sequence + 1 (mod 2^32), no payload and
   sequence = the cookie of the 4-tuple under the configured key -- whatever the
   table, the clock and the environment are. *)
Theorem C06_syn_gets_synack :
  forall E cfg clk tb tb' f r evs v,
    cfg_ok cfg = true -> bytes_ok f = true ->
    reply E cfg clk tb f = Ok (tb', r, evs) ->
    view_tcp cfg f = Some v ->
    has_syn (tcp_flags (v_l4 v)) = true -> linux_ok (tcp_flags (v_l4 v)) = true ->
    exists rf e i t, r = Some rf /\ dec_frame_tcp rf = Some (e, i, t) /\
      dt_flags t = 18 /\ dt_ack t = wrap32 (u32_at 4 (v_l4 v) + 1) /\
      dt_payload t = [] /\
      dt_seq t = cookie (c_key0 cfg) (c_key1 cfg) (v_src v) (v_dst v)
                        (u16_at 0 (v_l4 v)) (u16_at 2 (v_l4 v)).
Proof. exact syn_gets_synack. Qed.
Print Assumptions C06_syn_gets_synack.

(* A SYN with any other flag combination never gets a SYN|ACK. *)
Theorem C06_bad_syn_no_synack :
  forall E cfg clk tb tb' f rf evs v e i t,
    cfg_ok cfg = true -> bytes_ok f = true ->
    reply E cfg clk tb f = Ok (tb', Some rf, evs) ->
    view_tcp cfg f = Some v ->
    has_syn (tcp_flags (v_l4 v)) = true -> linux_ok (tcp_flags (v_l4 v)) = false ->
    dec_frame_tcp rf = Some (e, i, t) -> dt_flags t <> 18.
Proof. exact bad_syn_no_synack. Qed.
Print Assumptions C06_bad_syn_no_synack.
