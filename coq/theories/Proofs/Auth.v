(* Proofs/Auth.v -- the destination-MAC filter: the specification's list of
   authorised addresses (Spec/C02.v, ref_auth) and the model's (L2.v, auth_mac)
   are the same boolean function. No hypothesis on the configuration is needed:
   [N.land x 127 = x mod 128] holds for every N. *)
From MS Require Import Proofs.Tactics L2 Spec.View Spec.C02.

Lemma land_127 (x : N) : N.land x 127 = x mod 128.
Proof. change 127 with (N.ones 7). rewrite N.land_ones. reflexivity. Qed.

Lemma mcast_mac_ref (a : ipaddr) :
  mcast_mac a = match a with V4 o => ref_mcast4 o | V6 o => ref_mcast6 o end.
Proof.
  destruct a as [o|o]; unfold mcast_mac, ref_mcast4, ref_mcast6.
  - rewrite land_127. reflexivity.
  - reflexivity.
Qed.

Lemma existsb_mcast (m : bytes) (l : list ipaddr) :
  existsb (fun a => match a with
                    | V4 o => bytes_eqb m (ref_mcast4 o)
                    | V6 o => bytes_eqb m (ref_mcast6 o)
                    end) l =
  existsb (fun a => bytes_eqb m (mcast_mac a)) l.
Proof.
  induction l as [|a l IH]; [reflexivity|].
  cbn [existsb]. rewrite IH, mcast_mac_ref. destruct a; reflexivity.
Qed.

Theorem ref_auth_auth_mac (cfg : config) (m : bytes) : ref_auth cfg m = auth_mac cfg m.
Proof.
  unfold ref_auth, auth_mac, MAC_BROADCAST, MAC_ALLNODES.
  destruct (c_self cfg) as [l|].
  - rewrite existsb_mcast.
    destruct (bytes_eqb m (c_mac cfg)), (bytes_eqb m [255; 255; 255; 255; 255; 255]),
             (bytes_eqb m [51; 51; 0; 0; 0; 1]); reflexivity.
  - destruct (bytes_eqb m (c_mac cfg)), (bytes_eqb m [255; 255; 255; 255; 255; 255]),
             (bytes_eqb m [51; 51; 0; 0; 0; 1]); reflexivity.
Qed.

Lemma slice0_firstn (n : nat) (l : bytes) : slice 0 n l = firstn n l.
Proof. reflexivity. Qed.

(* the form used against reply_spec *)
Lemma ref_auth_frame (cfg : config) (f : bytes) :
  ref_auth cfg (firstn 6 f) = auth_mac cfg (slice 0 6 f).
Proof. rewrite slice0_firstn. apply ref_auth_auth_mac. Qed.
