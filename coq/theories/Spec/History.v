(* History.v -- running the responder over a history of frames (with the clock
   value each frame was processed at). *)
From MS Require Export L2.

Fixpoint run (E : env) (cfg : config) (tb : table) (h : list (clock * bytes)) : res table :=
  match h with
  | [] => Ok tb
  | (clk, f) :: t =>
    match reply E cfg clk tb f with
    | Ok (tb', _, _) => run E cfg tb' t
    | Panic s => Panic s
    end
  end.

Definition frames (h : list (clock * bytes)) : list bytes := map snd h.
