(* Spec/C12x.v -- C12 (only requests are answered): corrected monitors.

   Spec/C12.v judges the emitted payload with the content classifiers is_rpc_reply /
   is_smb_reply that merge the two layouts (datagram / record-marked) resp. the two
   dialects (SMB1 / SMB2), applies both RPC reply-typed predicates on either transport, and
   applies the whole payload predicate to every TCP data segment.  Proofs/C12Refute.v shows
   that this monitor is FALSE of the model (concrete frames).  This file keeps the reply-typed
   predicates of Spec/C12.v and corrects the three points:

   - the classifiers are split per layout / dialect, and the datagram-layout RPC classifier
     also requires what every RPC reply the property talks about has: an accepted reply with
     the null verifier and an accept_stat in range (RFC 5531: 0..5) -- without that a STUN
     binding success response whose transaction id begins 00 00 00 01 00 00 00 00 is
     classified as an RPC reply;
   - over TCP the record-layout RPC clause is only applied where the record layout is known to
     start at the beginning of the payload: the first data segment of a flow (later segments
     of an RPC flow are judged on the byte stream: Proofs/C12Own.v, rpc_stream lemmas);
   - a second, identification based monitor (app_ok_C12id) expresses "no reply at all unless
     the message is also a valid request of another protocol": a reply-typed message of
     protocol X that the signature matcher hands to X's own responder (for DNS: to the
     fallback) gets no answer.

   Definitions only. *)
From MS Require Export Bytes Types Proto L4 Spec.RefDec Spec.View Spec.AppView Spec.C02 Spec.C12.

(* ---- what kind of reply an emitted payload is, by content ---- *)
(* datagram layout: xid | REPLY(1) | MSG_ACCEPTED(0) | verf = AUTH_NONE, length 0 | accept_stat 0..5 *)
Definition is_rpc_reply_udp (r : bytes) : bool :=
  (24 <=? length r)%nat && (u32_at 4 r =? 1) && (u32_at 8 r =? 0) &&
  (u32_at 12 r =? 0) && (u32_at 16 r =? 0) && (u32_at 20 r <=? 5).
(* record-marked layout: last-fragment mark | xid | REPLY(1) | MSG_ACCEPTED(0) *)
Definition is_rpc_reply_tcp (r : bytes) : bool :=
  (28 <=? length r)%nat && (128 <=? u8_at 0 r) && (u32_at 8 r =? 1) && (u32_at 12 r =? 0).
(* NetBIOS session message carrying an SMB1 / SMB2 header *)
Definition is_smb1_reply (r : bytes) : bool :=
  (8 <=? length r)%nat && (u8_at 0 r =? 0) && bytes_eqb (slice 4 4 r) [255; 83; 77; 66].
Definition is_smb2_reply (r : bytes) : bool :=
  (8 <=? length r)%nat && (u8_at 0 r =? 0) && bytes_eqb (slice 4 4 r) [254; 83; 77; 66].

(* ---- payload level: clauses that hold for ANY payload handed to the application layer
   (datagram, first or later TCP data segment) ---- *)
Definition app_ok_C12seg (ctx : app_ctx) (p : bytes) (o : option bytes) : bool :=
  match o with
  | None => true
  | Some r =>
    (if dns_response_typed p then negb (is_dns_reply r) else true) &&
    (if stun_nonrequest_typed p && (u8_at 0 p <? 64) then negb (is_stun_reply r) else true) &&
    (if rpc_reply_typed_udp p then negb (is_rpc_reply_udp r) else true) &&
    (if smb1_reply_typed p then negb (is_smb1_reply r) else true) &&
    (if smb2_reply_typed p then negb (is_smb2_reply r) else true)
  end.

(* ... and for a payload that starts a message (datagram / first data segment of a flow) *)
Definition app_ok_C12x (ctx : app_ctx) (p : bytes) (o : option bytes) : bool :=
  app_ok_C12seg ctx p o &&
  match o with
  | None => true
  | Some r => if rpc_reply_typed_tcp p then negb (is_rpc_reply_tcp r) else true
  end.

(* ---- frame level ---- *)
Definition ok_C12x (cfg : config) (f : bytes) (r : option bytes) : bool :=
  (if l2l4_reply_typed cfg f then silent r else true) &&
  ok_app_udp app_ok_C12x cfg f r &&
  (* over TCP: any data segment (validated or not, first or later) *)
  match tcp_req cfg f with
  | None => true
  | Some (ctx, p) => match tcp_resp r with Some o => app_ok_C12seg ctx p o | None => false end
  end.

(* first accepted data segment of a flow (reference connection state [st]) *)
Definition ok_C12x_tcp (cfg : config) (st : ref_state) (f : bytes) (r : option bytes) : bool :=
  ok_app_tcp_first app_ok_C12x cfg st f r.

(* ---- "no reply at all unless it is also a valid request of another protocol" ----
   which responder a payload is handed to: the identified protocol, or (datagrams only) the
   DNS fallback *)
Definition PROTO_DNS : N := 100.
Definition responder_of (E : env) (tcp : bool) (p : bytes) : N :=
  match (if tcp then tcp_first_id E p else udp_id E p) with
  | Some i => i
  | None => if tcp then PROTO_NONE else PROTO_DNS
  end.

(* [p] is marked as a reply by the protocol of responder [x] *)
Definition reply_typed_for (x : N) (p : bytes) : bool :=
  ((x =? PROTO_DNS) && dns_response_typed p) ||
  ((x =? PROTO_STUN) && stun_nonrequest_typed p) ||
  ((x =? PROTO_RPC_UDP) && rpc_reply_typed_udp p) ||
  ((x =? PROTO_RPC_TCP) && rpc_reply_typed_tcp p) ||
  ((x =? PROTO_SMB1) && smb1_reply_typed p) ||
  ((x =? PROTO_SMB2) && smb2_reply_typed p).

(* a message handed to the responder of the protocol that marks it as a reply is not answered *)
Definition app_ok_C12id (E : env) (ctx : app_ctx) (p : bytes) (o : option bytes) : bool :=
  if reply_typed_for (responder_of E (a_tcp ctx) p) p
  then match o with None => true | Some _ => false end
  else true.

Definition ok_C12id_udp (E : env) : config -> bytes -> option bytes -> bool := ok_app_udp (app_ok_C12id E).
Definition ok_C12id_tcp (E : env) : config -> ref_state -> bytes -> option bytes -> bool :=
  ok_app_tcp_first (app_ok_C12id E).

(* the statement of part B on the application layer of the model: [answer] is what the
   application layer hands back for payload [p] *)
Definition C12_other_protocol_stmt (E : env) (tcp : bool) (p : bytes) (answer : option bytes) : Prop :=
  forall x, reply_typed_for x p = true -> answer <> None -> responder_of E tcp p <> x.
