(* Smb.v -- src/proto/smb.rs (NetBIOS session + SMB1/SMB2 Negotiate and
   Session-Setup responder) and src/proto/dissector.rs (PacketDissector).
   Model file: definitions only.

   The Rust code is a stack of byte-at-a-time parsers (NBTSession<T> ->
   SMB{1,2}Header -> payload), each with its own PacketDissector {i, state}.
   repl_smb1 / repl_smb2 build a FRESH NBTSession per call, feed it every byte
   of the datagram / segment, then call repl().  The model keeps that shape:
   one record per parser, one [*_byte : state -> N -> res state] per parser,
   and a left fold over the data.

   Integer widths: PacketDissector.i and the accumulators of _read_usize /
   _read_ulesize are usize (64 bit); results are truncated with `as u16/u32/u64`.
   The model is the debug (overflow-checking) build; every overflow site turned
   out to be unreachable (see the list below) so the release build agrees.

   HashSet<u16> (SMB2 dialects): only insert / len / contains are used, the
   iteration order is never observed; modelled as a duplicate-free list.

   ------------------------------------------------------------------------
   WALL CLOCK.  One input [filetime] =
       (11644473600 + SystemTime::now().duration_since(UNIX_EPOCH).as_secs()) * 10_000_000
   (u64, smb.rs:368-373 and smb.rs:906-911).  It is computed once per reply, so
   all clock-derived fields of one reply are equal.  Offsets are byte offsets
   in the reply payload returned by repl_smb1/repl_smb2 (= TCP/UDP payload,
   NetBIOS header included: 4 bytes NBT, then 32 bytes SMB1 / 64 bytes SMB2
   header, then the body):
     SMB1 Negotiate response      : ServerTime       = bytes  60 ..  67 (le64 filetime)
     SMB1 Session-Setup response  : (none)
     SMB2 Negotiate response      : ServerTime       = bytes 108 .. 115 (le64 filetime)
                                    ServerStartTime  = bytes 116 .. 123 (le64 filetime, same value)
     SMB2 Session-Setup response  : (none)
   Reply sizes: SMB1 neg = 4+32+37+16+|neg_blob|, SMB1 setup = 4+32+11+|chal_blob|+48,
   SMB2 neg = 4+64+64+|neg_blob|, SMB2 setup = 4+64+8+|chal_blob|.

   ------------------------------------------------------------------------
   PANIC SITES (700-799).  All of them are unreachable from the initial state;
   they are modelled because it is cheap.
     700  dissector.rs:55  `byte << (8 * self.i)`: shift amount >= 64
          (needs i >= 8; i < size <= 8 always, because every state is entered
          with i = 0 and left when i reaches size)
     701  dissector.rs:55  `value + (...)`: usize addition overflow (the bytes
          are accumulated into disjoint bit positions, value < 2^(8*i))
     703  smb.rs:179  self.start[self.d.i]              (SMB1 header, i >= 4)
     704  smb.rs:206  self.security_signature[self.d.i] (SMB1 header, i >= 8)
     705  smb.rs:670  self.start[self.d.i]              (SMB2 header, i >= 4)
     706  smb.rs:726  self.security_signature[self.d.i] (SMB2 header, i >= 16)
     707  smb.rs:865  self.client_guid[self.d.i]        (SMB2 negotiate, i >= 16)
     708  smb.rs:100  ((size as u32 >> 16) & 0xff).try_into().unwrap() (u32 -> u8;
          the operand is masked with 0xff, and size <= 0x1ffff)
   NOT modelled (cannot be expressed with these inputs):
     - smb.rs:371 / smb.rs:910  duration_since(UNIX_EPOCH).unwrap(): clock before 1970
     - smb.rs:368 / smb.rs:906  (EPOCH_1601 + secs) * 10^7 overflowing u64 (year ~ 56000);
       the model expects filetime < 2^64 and le64 would wrap like a release build
     - `self.d.i += 1` (usize) overflow: needs 2^64 input bytes
     - dissector.rs:52 `(value << 8) + byte` (read_u16): value < 2^16, cannot overflow
*)
From MS Require Export Bytes Res Types.

Definition W16 : N := 65536.
Definition W32 : N := 4294967296.
Definition W64 : N := 18446744073709551616.

Definition PANIC_SMB_SHL : N := 700.
Definition PANIC_SMB_ADD : N := 701.
Definition PANIC_SMB1_START : N := 703.
Definition PANIC_SMB1_SECSIG : N := 704.
Definition PANIC_SMB2_START : N := 705.
Definition PANIC_SMB2_SECSIG : N := 706.
Definition PANIC_SMB2_GUID : N := 707.
Definition PANIC_NBT_SIZE : N := 708.

(* ---------- dissector.rs: PacketDissector<T> ---------- *)
Record dis := { d_i : N; d_st : N }.
Definition d_new (st : N) : dis := {| d_i := 0; d_st := st |}.
(* next_state *)
Definition d_next (st : N) : dis := {| d_i := 0; d_st := st |}.
(* next_state_when_i_reaches *)
Definition d_when (d : dis) (st i : N) : dis := if d_i d =? i then d_next st else d.
(* self.d.i += 1 *)
Definition d_inc (d : dis) : dis := {| d_i := d_i d + 1; d_st := d_st d |}.
(* self.d.state = st (i untouched) *)
Definition d_force (d : dis) (st : N) : dis := {| d_i := d_i d; d_st := st |}.

(* _read_ulesize + the `as uN` of read_ule16/32/64 ([width] = 2^N) *)
Definition read_ule (d : dis) (b v next size width : N) : res (N * dis) :=
  let sh := 8 * d_i d in
  if 64 <=? sh then Panic PANIC_SMB_SHL          (* dissector.rs:55 *)
  else
    let r := v + (N.shiftl b sh) mod W64 in
    if W64 <=? r then Panic PANIC_SMB_ADD         (* dissector.rs:55 *)
    else Ok (r mod width, d_when (d_inc d) next size).
Definition read_ule16 d b v next := read_ule d b v next 2 W16.
Definition read_ule32 d b v next := read_ule d b v next 4 W32.
Definition read_ule64 d b v next := read_ule d b v next 8 W64.

(* _read_usize + `as u16` (read_u16, big endian; only used for the NBT length) *)
Definition read_u16 (d : dis) (b v next : N) : N * dis :=
  (((v * 256) mod W64 + b) mod W16, d_when (d_inc d) next 2).

Definition fold_res {S : Type} (step : S -> N -> res S) (data : bytes) (s : S) : res S :=
  fold_left (fun acc b => match acc with Ok x => step x b | Panic p => Panic p end) data (Ok s).

(* array store `a[i] = b` for a fixed-size array (index checked by the caller) *)
Fixpoint set_nth (i : nat) (b : N) (l : bytes) : bytes :=
  match l, i with
  | [], _ => []
  | _ :: t, O => b :: t
  | x :: t, S k => x :: set_nth k b t
  end.

(* ====================================================================== *)
(*                                 SMB1                                   *)
(* ====================================================================== *)

(* ---------- SMB1NegotiateRequest ---------- *)
Definition N1_WORDCOUNT : N := 0.
Definition N1_BYTECOUNT : N := 1.
Definition N1_DIALECTS : N := 2.
Definition N1_END : N := 3.

(* [n1_tmp]: _tmp_dialect (Some s: a dialect is being read, s = its characters
   so far, most recent first; buffer_format is stored by the code but never read).
   [n1_dialects]: dialect strings in the order pushed. *)
Record neg1 := {
  n1_d : dis;
  n1_tmp : option bytes;
  n1_wc : N;
  n1_bc : N;
  n1_dialects : list bytes
}.
Definition set_n1_d (s : neg1) (v : dis) : neg1 :=
  {| n1_d := v; n1_tmp := n1_tmp s; n1_wc := n1_wc s; n1_bc := n1_bc s; n1_dialects := n1_dialects s |}.
Definition set_n1_tmp (s : neg1) (v : option bytes) : neg1 :=
  {| n1_d := n1_d s; n1_tmp := v; n1_wc := n1_wc s; n1_bc := n1_bc s; n1_dialects := n1_dialects s |}.
Definition set_n1_wc (s : neg1) (v : N) : neg1 :=
  {| n1_d := n1_d s; n1_tmp := n1_tmp s; n1_wc := v; n1_bc := n1_bc s; n1_dialects := n1_dialects s |}.
Definition set_n1_bc (s : neg1) (v : N) : neg1 :=
  {| n1_d := n1_d s; n1_tmp := n1_tmp s; n1_wc := n1_wc s; n1_bc := v; n1_dialects := n1_dialects s |}.
Definition set_n1_dialects (s : neg1) (v : list bytes) : neg1 :=
  {| n1_d := n1_d s; n1_tmp := n1_tmp s; n1_wc := n1_wc s; n1_bc := n1_bc s; n1_dialects := v |}.

Definition neg1_new : neg1 :=
  {| n1_d := d_new N1_WORDCOUNT; n1_tmp := None; n1_wc := 0; n1_bc := 0; n1_dialects := [] |}.

Definition neg1_byte (s : neg1) (b : N) : res neg1 :=
  let d := n1_d s in
  let st := d_st d in
  if st =? N1_WORDCOUNT then Ok (set_n1_d (set_n1_wc s b) (d_next N1_BYTECOUNT))
  else if st =? N1_BYTECOUNT then
    do r <- read_ule16 d b (n1_bc s) N1_DIALECTS;
    Ok (set_n1_d (set_n1_bc s (fst r)) (snd r))
  else if st =? N1_DIALECTS then
    let d1 := d_inc d in
    match n1_tmp s with
    | Some str =>
      if b =? 0 then
        (* the end test is only made when a dialect string terminates *)
        Ok (set_n1_d (set_n1_tmp (set_n1_dialects s (n1_dialects s ++ [rev str])) None)
                     (d_when d1 N1_END (n1_bc s)))
      else Ok (set_n1_d (set_n1_tmp s (Some (b :: str))) d1)
    | None => Ok (set_n1_d (set_n1_tmp s (Some [])) d1)   (* buffer_format byte *)
    end
  else Ok s.

Fixpoint position (x : bytes) (l : list bytes) (k : N) : option N :=
  match l with
  | [] => None
  | y :: t => if bytes_eqb y x then Some k else position x t (k + 1)
  end.

Definition DIALECT_NTLM012 : bytes := [78; 84; 32; 76; 77; 32; 48; 46; 49; 50].   (* "NT LM 0.12" *)
Definition DIALECT_SMB2_ANY : bytes := [83; 77; 66; 32; 50; 46; 63; 63; 63].      (* "SMB 2.???" *)
Definition DIALECT_SMB2_002 : bytes := [83; 77; 66; 32; 50; 46; 48; 48; 50].      (* "SMB 2.002" *)

(* smb.rs:374-389: first of the three names that occurs, index of its first
   occurrence (`x as u16`); 0 when none occurs *)
Definition neg1_dialect_index (dl : list bytes) : N :=
  match position DIALECT_NTLM012 dl 0 with
  | Some x => wrap16 x
  | None =>
    match position DIALECT_SMB2_ANY dl 0 with
    | Some x => wrap16 x
    | None =>
      match position DIALECT_SMB2_002 dl 0 with
      | Some x => wrap16 x
      | None => 0
      end
    end
  end.

Definition neg1_repl (neg_blob : bytes) (filetime : N) (s : neg1) : option bytes :=
  if negb (d_st (n1_d s) =? N1_END) then None
  else Some (
    [17] ++                                   (* WordCount *)
    le16 (neg1_dialect_index (n1_dialects s)) ++
    [3] ++                                    (* SecurityMode *)
    le16 50 ++ le16 50 ++                     (* MaxMPXCount, MaxNumberVC *)
    le32 65536 ++ le32 65536 ++               (* MaxBufferSize, MaxRawSize *)
    le32 0 ++                                 (* SessionKey *)
    le32 2147607548 ++                        (* ServerCapabilities 0x8001e3fc *)
    le64 filetime ++                          (* ServerTime *)
    le16 60 ++                                (* ServerTimeZone *)
    [0] ++                                    (* ChallengeLength *)
    le16 (wrap16 (lenN neg_blob + 16)) ++     (* ByteCount *)
    zeros 16 ++                               (* GUID *)
    neg_blob).

(* ---------- SMB1SessionSetupRequest ---------- *)
Definition S1_WORDCOUNT : N := 0.
Definition S1_ANDXCOMMAND : N := 1.
Definition S1_ANDXRESERVED : N := 2.
Definition S1_ANDXOFFSET : N := 3.
Definition S1_MAXBUFFERSIZE : N := 4.
Definition S1_MAXMPXCOUNT : N := 5.
Definition S1_VCNUMBER : N := 6.
Definition S1_SESSIONKEY : N := 7.
Definition S1_SECURITYBLOBLENGTH : N := 8.
Definition S1_RESERVED : N := 9.
Definition S1_SERVERCAPABILITIES : N := 10.
Definition S1_BYTECOUNT : N := 11.
Definition S1_SECURITYBLOB : N := 12.
Definition S1_END : N := 13.
Record setup1 := {
  s1_d : dis;
  s1_wc : N;
  s1_andx_cmd : N;
  s1_andx_off : N;
  s1_max_buf : N;
  s1_max_mpx : N;
  s1_vc : N;
  s1_sess_key : N;
  s1_sec_len : N;
  s1_caps : N;
  s1_bc : N
}.
Definition set_s1_d (s : setup1) (v : dis) : setup1 :=
  {| s1_d := v; s1_wc := s1_wc s; s1_andx_cmd := s1_andx_cmd s; s1_andx_off := s1_andx_off s; s1_max_buf := s1_max_buf s; s1_max_mpx := s1_max_mpx s; s1_vc := s1_vc s; s1_sess_key := s1_sess_key s; s1_sec_len := s1_sec_len s; s1_caps := s1_caps s; s1_bc := s1_bc s |}.
Definition set_s1_wc (s : setup1) (v : N) : setup1 :=
  {| s1_d := s1_d s; s1_wc := v; s1_andx_cmd := s1_andx_cmd s; s1_andx_off := s1_andx_off s; s1_max_buf := s1_max_buf s; s1_max_mpx := s1_max_mpx s; s1_vc := s1_vc s; s1_sess_key := s1_sess_key s; s1_sec_len := s1_sec_len s; s1_caps := s1_caps s; s1_bc := s1_bc s |}.
Definition set_s1_andx_cmd (s : setup1) (v : N) : setup1 :=
  {| s1_d := s1_d s; s1_wc := s1_wc s; s1_andx_cmd := v; s1_andx_off := s1_andx_off s; s1_max_buf := s1_max_buf s; s1_max_mpx := s1_max_mpx s; s1_vc := s1_vc s; s1_sess_key := s1_sess_key s; s1_sec_len := s1_sec_len s; s1_caps := s1_caps s; s1_bc := s1_bc s |}.
Definition set_s1_andx_off (s : setup1) (v : N) : setup1 :=
  {| s1_d := s1_d s; s1_wc := s1_wc s; s1_andx_cmd := s1_andx_cmd s; s1_andx_off := v; s1_max_buf := s1_max_buf s; s1_max_mpx := s1_max_mpx s; s1_vc := s1_vc s; s1_sess_key := s1_sess_key s; s1_sec_len := s1_sec_len s; s1_caps := s1_caps s; s1_bc := s1_bc s |}.
Definition set_s1_max_buf (s : setup1) (v : N) : setup1 :=
  {| s1_d := s1_d s; s1_wc := s1_wc s; s1_andx_cmd := s1_andx_cmd s; s1_andx_off := s1_andx_off s; s1_max_buf := v; s1_max_mpx := s1_max_mpx s; s1_vc := s1_vc s; s1_sess_key := s1_sess_key s; s1_sec_len := s1_sec_len s; s1_caps := s1_caps s; s1_bc := s1_bc s |}.
Definition set_s1_max_mpx (s : setup1) (v : N) : setup1 :=
  {| s1_d := s1_d s; s1_wc := s1_wc s; s1_andx_cmd := s1_andx_cmd s; s1_andx_off := s1_andx_off s; s1_max_buf := s1_max_buf s; s1_max_mpx := v; s1_vc := s1_vc s; s1_sess_key := s1_sess_key s; s1_sec_len := s1_sec_len s; s1_caps := s1_caps s; s1_bc := s1_bc s |}.
Definition set_s1_vc (s : setup1) (v : N) : setup1 :=
  {| s1_d := s1_d s; s1_wc := s1_wc s; s1_andx_cmd := s1_andx_cmd s; s1_andx_off := s1_andx_off s; s1_max_buf := s1_max_buf s; s1_max_mpx := s1_max_mpx s; s1_vc := v; s1_sess_key := s1_sess_key s; s1_sec_len := s1_sec_len s; s1_caps := s1_caps s; s1_bc := s1_bc s |}.
Definition set_s1_sess_key (s : setup1) (v : N) : setup1 :=
  {| s1_d := s1_d s; s1_wc := s1_wc s; s1_andx_cmd := s1_andx_cmd s; s1_andx_off := s1_andx_off s; s1_max_buf := s1_max_buf s; s1_max_mpx := s1_max_mpx s; s1_vc := s1_vc s; s1_sess_key := v; s1_sec_len := s1_sec_len s; s1_caps := s1_caps s; s1_bc := s1_bc s |}.
Definition set_s1_sec_len (s : setup1) (v : N) : setup1 :=
  {| s1_d := s1_d s; s1_wc := s1_wc s; s1_andx_cmd := s1_andx_cmd s; s1_andx_off := s1_andx_off s; s1_max_buf := s1_max_buf s; s1_max_mpx := s1_max_mpx s; s1_vc := s1_vc s; s1_sess_key := s1_sess_key s; s1_sec_len := v; s1_caps := s1_caps s; s1_bc := s1_bc s |}.
Definition set_s1_caps (s : setup1) (v : N) : setup1 :=
  {| s1_d := s1_d s; s1_wc := s1_wc s; s1_andx_cmd := s1_andx_cmd s; s1_andx_off := s1_andx_off s; s1_max_buf := s1_max_buf s; s1_max_mpx := s1_max_mpx s; s1_vc := s1_vc s; s1_sess_key := s1_sess_key s; s1_sec_len := s1_sec_len s; s1_caps := v; s1_bc := s1_bc s |}.
Definition set_s1_bc (s : setup1) (v : N) : setup1 :=
  {| s1_d := s1_d s; s1_wc := s1_wc s; s1_andx_cmd := s1_andx_cmd s; s1_andx_off := s1_andx_off s; s1_max_buf := s1_max_buf s; s1_max_mpx := s1_max_mpx s; s1_vc := s1_vc s; s1_sess_key := s1_sess_key s; s1_sec_len := s1_sec_len s; s1_caps := s1_caps s; s1_bc := v |}.

Definition setup1_new : setup1 :=
  {| s1_d := d_new S1_WORDCOUNT; s1_wc := 0; s1_andx_cmd := 0; s1_andx_off := 0; s1_max_buf := 0;
     s1_max_mpx := 0; s1_vc := 0; s1_sess_key := 0; s1_sec_len := 0; s1_caps := 0; s1_bc := 0 |}.

Definition setup1_byte (s : setup1) (b : N) : res setup1 :=
  let d := s1_d s in
  let st := d_st d in
  if st =? S1_WORDCOUNT then Ok (set_s1_d (set_s1_wc s b) (d_next S1_ANDXCOMMAND))
  else if st =? S1_ANDXCOMMAND then Ok (set_s1_d (set_s1_andx_cmd s b) (d_next S1_ANDXRESERVED))
  else if st =? S1_ANDXRESERVED then Ok (set_s1_d s (d_next S1_ANDXOFFSET))
  else if st =? S1_ANDXOFFSET then
    do r <- read_ule16 d b (s1_andx_off s) S1_MAXBUFFERSIZE;
    Ok (set_s1_d (set_s1_andx_off s (fst r)) (snd r))
  else if st =? S1_MAXBUFFERSIZE then
    do r <- read_ule16 d b (s1_max_buf s) S1_MAXMPXCOUNT;
    Ok (set_s1_d (set_s1_max_buf s (fst r)) (snd r))
  else if st =? S1_MAXMPXCOUNT then
    do r <- read_ule16 d b (s1_max_mpx s) S1_VCNUMBER;
    Ok (set_s1_d (set_s1_max_mpx s (fst r)) (snd r))
  else if st =? S1_VCNUMBER then
    do r <- read_ule16 d b (s1_vc s) S1_SESSIONKEY;
    Ok (set_s1_d (set_s1_vc s (fst r)) (snd r))
  else if st =? S1_SESSIONKEY then
    do r <- read_ule32 d b (s1_sess_key s) S1_SECURITYBLOBLENGTH;
    Ok (set_s1_d (set_s1_sess_key s (fst r)) (snd r))
  else if st =? S1_SECURITYBLOBLENGTH then
    do r <- read_ule16 d b (s1_sec_len s) S1_RESERVED;
    Ok (set_s1_d (set_s1_sec_len s (fst r)) (snd r))
  else if st =? S1_RESERVED then Ok (set_s1_d s (d_when (d_inc d) S1_SERVERCAPABILITIES 4))
  else if st =? S1_SERVERCAPABILITIES then
    do r <- read_ule32 d b (s1_caps s) S1_BYTECOUNT;
    Ok (set_s1_d (set_s1_caps s (fst r)) (snd r))
  else if st =? S1_BYTECOUNT then
    do r <- read_ule16 d b (s1_bc s) S1_SECURITYBLOB;
    (* an empty security blob: there is nothing more to read *)
    Ok (set_s1_d (set_s1_bc s (fst r))
                 (if (d_st (snd r) =? S1_SECURITYBLOB) && (s1_sec_len s =? 0) then d_next S1_END else snd r))
  else if st =? S1_SECURITYBLOB then
    (* counts blob bytes against SecurityBlobLength (ByteCount is not used) *)
    Ok (set_s1_d s (d_when (d_inc d) S1_END (s1_sec_len s)))
  else Ok s.

(* "Windows 4.0" in UTF-16LE + two NUL bytes (24 bytes) *)
Definition NATIVE_OS : bytes :=
  [87; 0; 105; 0; 110; 0; 100; 0; 111; 0; 119; 0; 115; 0; 32; 0; 52; 0; 46; 0; 48; 0; 0; 0].

Definition setup1_repl (chal_blob : bytes) (s : setup1) : option bytes :=
  if negb (d_st (s1_d s) =? S1_END) then None
  else Some (
    [4; 255; 0] ++                            (* WordCount, AndXCommand, AndXReserved *)
    le16 68 ++                                (* AndXOffset 0x44 *)
    le16 0 ++                                 (* Action *)
    le16 (wrap16 (lenN chal_blob)) ++         (* SecurityLen *)
    le16 (wrap16 (lenN chal_blob + lenN NATIVE_OS + lenN NATIVE_OS)) ++   (* ByteCount *)
    chal_blob ++ NATIVE_OS ++ NATIVE_OS).

(* ---------- SMB1Payload ---------- *)
Inductive pay1 := P1Neg (n : neg1) | P1Setup (s : setup1).

Definition pay1_byte (p : pay1) (b : N) : res pay1 :=
  match p with
  | P1Neg n => do n' <- neg1_byte n b; Ok (P1Neg n')
  | P1Setup s => do s' <- setup1_byte s b; Ok (P1Setup s')
  end.

Definition pay1_repl (neg_blob chal_blob : bytes) (filetime : N) (p : pay1) : option bytes :=
  match p with
  | P1Neg n => neg1_repl neg_blob filetime n
  | P1Setup s => setup1_repl chal_blob s
  end.

(* ---------- SMB1Header ---------- *)
Definition H1_START : N := 0.
Definition H1_COMMAND : N := 1.
Definition H1_STATUS : N := 2.
Definition H1_FLAGS : N := 3.
Definition H1_FLAGS2 : N := 4.
Definition H1_PIDHIGH : N := 5.
Definition H1_SECURITYSIGNATURE : N := 6.
Definition H1_RESERVED : N := 7.
Definition H1_TID : N := 8.
Definition H1_PIDLOW : N := 9.
Definition H1_UID : N := 10.
Definition H1_MID : N := 11.
Definition H1_END : N := 12.

(* the arrays start[4] and security_signature[8] are written, never read: not kept *)
Record hdr1 := {
  h1_d : dis;
  h1_command : N;
  h1_status : N;
  h1_flags : N;
  h1_flags2 : N;
  h1_pid_high : N;
  h1_tid : N;
  h1_pid_low : N;
  h1_uid : N;
  h1_mid : N;
  h1_pay : option pay1
}.
Definition set_h1_d (s : hdr1) (v : dis) : hdr1 :=
  {| h1_d := v; h1_command := h1_command s; h1_status := h1_status s; h1_flags := h1_flags s; h1_flags2 := h1_flags2 s; h1_pid_high := h1_pid_high s; h1_tid := h1_tid s; h1_pid_low := h1_pid_low s; h1_uid := h1_uid s; h1_mid := h1_mid s; h1_pay := h1_pay s |}.
Definition set_h1_command (s : hdr1) (v : N) : hdr1 :=
  {| h1_d := h1_d s; h1_command := v; h1_status := h1_status s; h1_flags := h1_flags s; h1_flags2 := h1_flags2 s; h1_pid_high := h1_pid_high s; h1_tid := h1_tid s; h1_pid_low := h1_pid_low s; h1_uid := h1_uid s; h1_mid := h1_mid s; h1_pay := h1_pay s |}.
Definition set_h1_status (s : hdr1) (v : N) : hdr1 :=
  {| h1_d := h1_d s; h1_command := h1_command s; h1_status := v; h1_flags := h1_flags s; h1_flags2 := h1_flags2 s; h1_pid_high := h1_pid_high s; h1_tid := h1_tid s; h1_pid_low := h1_pid_low s; h1_uid := h1_uid s; h1_mid := h1_mid s; h1_pay := h1_pay s |}.
Definition set_h1_flags (s : hdr1) (v : N) : hdr1 :=
  {| h1_d := h1_d s; h1_command := h1_command s; h1_status := h1_status s; h1_flags := v; h1_flags2 := h1_flags2 s; h1_pid_high := h1_pid_high s; h1_tid := h1_tid s; h1_pid_low := h1_pid_low s; h1_uid := h1_uid s; h1_mid := h1_mid s; h1_pay := h1_pay s |}.
Definition set_h1_flags2 (s : hdr1) (v : N) : hdr1 :=
  {| h1_d := h1_d s; h1_command := h1_command s; h1_status := h1_status s; h1_flags := h1_flags s; h1_flags2 := v; h1_pid_high := h1_pid_high s; h1_tid := h1_tid s; h1_pid_low := h1_pid_low s; h1_uid := h1_uid s; h1_mid := h1_mid s; h1_pay := h1_pay s |}.
Definition set_h1_pid_high (s : hdr1) (v : N) : hdr1 :=
  {| h1_d := h1_d s; h1_command := h1_command s; h1_status := h1_status s; h1_flags := h1_flags s; h1_flags2 := h1_flags2 s; h1_pid_high := v; h1_tid := h1_tid s; h1_pid_low := h1_pid_low s; h1_uid := h1_uid s; h1_mid := h1_mid s; h1_pay := h1_pay s |}.
Definition set_h1_tid (s : hdr1) (v : N) : hdr1 :=
  {| h1_d := h1_d s; h1_command := h1_command s; h1_status := h1_status s; h1_flags := h1_flags s; h1_flags2 := h1_flags2 s; h1_pid_high := h1_pid_high s; h1_tid := v; h1_pid_low := h1_pid_low s; h1_uid := h1_uid s; h1_mid := h1_mid s; h1_pay := h1_pay s |}.
Definition set_h1_pid_low (s : hdr1) (v : N) : hdr1 :=
  {| h1_d := h1_d s; h1_command := h1_command s; h1_status := h1_status s; h1_flags := h1_flags s; h1_flags2 := h1_flags2 s; h1_pid_high := h1_pid_high s; h1_tid := h1_tid s; h1_pid_low := v; h1_uid := h1_uid s; h1_mid := h1_mid s; h1_pay := h1_pay s |}.
Definition set_h1_uid (s : hdr1) (v : N) : hdr1 :=
  {| h1_d := h1_d s; h1_command := h1_command s; h1_status := h1_status s; h1_flags := h1_flags s; h1_flags2 := h1_flags2 s; h1_pid_high := h1_pid_high s; h1_tid := h1_tid s; h1_pid_low := h1_pid_low s; h1_uid := v; h1_mid := h1_mid s; h1_pay := h1_pay s |}.
Definition set_h1_mid (s : hdr1) (v : N) : hdr1 :=
  {| h1_d := h1_d s; h1_command := h1_command s; h1_status := h1_status s; h1_flags := h1_flags s; h1_flags2 := h1_flags2 s; h1_pid_high := h1_pid_high s; h1_tid := h1_tid s; h1_pid_low := h1_pid_low s; h1_uid := h1_uid s; h1_mid := v; h1_pay := h1_pay s |}.
Definition set_h1_pay (s : hdr1) (v : option pay1) : hdr1 :=
  {| h1_d := h1_d s; h1_command := h1_command s; h1_status := h1_status s; h1_flags := h1_flags s; h1_flags2 := h1_flags2 s; h1_pid_high := h1_pid_high s; h1_tid := h1_tid s; h1_pid_low := h1_pid_low s; h1_uid := h1_uid s; h1_mid := h1_mid s; h1_pay := v |}.

Definition hdr1_new : hdr1 :=
  {| h1_d := d_new H1_START; h1_command := 0; h1_status := 0; h1_flags := 0; h1_flags2 := 0;
     h1_pid_high := 0; h1_tid := 0; h1_pid_low := 0; h1_uid := 0; h1_mid := 0; h1_pay := None |}.

(* SMB1Header::get_payload followed by pay.parse(byte) *)
Definition hdr1_payload_byte (s : hdr1) (b : N) : res hdr1 :=
  match h1_pay s with
  | Some p => do p' <- pay1_byte p b; Ok (set_h1_pay s (Some p'))
  | None =>
    if N.land (h1_flags s) 128 =? 128 then Ok s           (* response: ignored *)
    else if h1_command s =? 114 then                      (* 0x72 Negotiate *)
      do p' <- pay1_byte (P1Neg neg1_new) b; Ok (set_h1_pay s (Some p'))
    else if h1_command s =? 115 then                      (* 0x73 Session Setup AndX *)
      do p' <- pay1_byte (P1Setup setup1_new) b; Ok (set_h1_pay s (Some p'))
    else Ok s
  end.

Definition hdr1_byte (s : hdr1) (b : N) : res hdr1 :=
  let d := h1_d s in
  let st := d_st d in
  if st =? H1_START then
    if 4 <=? d_i d then Panic PANIC_SMB1_START                     (* smb.rs:179 *)
    else Ok (set_h1_d s (d_when (d_inc d) H1_COMMAND 4))
  else if st =? H1_COMMAND then Ok (set_h1_d (set_h1_command s b) (d_next H1_STATUS))
  else if st =? H1_STATUS then
    do r <- read_ule32 d b (h1_status s) H1_FLAGS;
    Ok (set_h1_d (set_h1_status s (fst r)) (snd r))
  else if st =? H1_FLAGS then Ok (set_h1_d (set_h1_flags s b) (d_next H1_FLAGS2))
  else if st =? H1_FLAGS2 then
    do r <- read_ule16 d b (h1_flags2 s) H1_PIDHIGH;
    Ok (set_h1_d (set_h1_flags2 s (fst r)) (snd r))
  else if st =? H1_PIDHIGH then
    do r <- read_ule16 d b (h1_pid_high s) H1_SECURITYSIGNATURE;
    Ok (set_h1_d (set_h1_pid_high s (fst r)) (snd r))
  else if st =? H1_SECURITYSIGNATURE then
    if 8 <=? d_i d then Panic PANIC_SMB1_SECSIG                    (* smb.rs:206 *)
    else Ok (set_h1_d s (d_when (d_inc d) H1_RESERVED 8))
  else if st =? H1_RESERVED then Ok (set_h1_d s (d_when (d_inc d) H1_TID 2))
  else if st =? H1_TID then
    do r <- read_ule16 d b (h1_tid s) H1_PIDLOW;
    Ok (set_h1_d (set_h1_tid s (fst r)) (snd r))
  else if st =? H1_PIDLOW then
    do r <- read_ule16 d b (h1_pid_low s) H1_UID;
    Ok (set_h1_d (set_h1_pid_low s (fst r)) (snd r))
  else if st =? H1_UID then
    do r <- read_ule16 d b (h1_uid s) H1_MID;
    Ok (set_h1_d (set_h1_uid s (fst r)) (snd r))
  else if st =? H1_MID then
    do r <- read_ule16 d b (h1_mid s) H1_END;
    Ok (set_h1_d (set_h1_mid s (fst r)) (snd r))
  else hdr1_payload_byte s b.

Definition SMB1_MAGIC : bytes := [255; 83; 77; 66].

Definition hdr1_repl (neg_blob chal_blob : bytes) (filetime : N) (s : hdr1) : option bytes :=
  match h1_pay s with
  | None => None
  | Some p =>
    match pay1_repl neg_blob chal_blob filetime p with
    | None => None
    | Some body =>
      Some (SMB1_MAGIC ++ [h1_command s] ++ le32 0 ++
            [152] ++                           (* Flags 0x98 (reply bit set) *)
            le16 51207 ++                      (* Flags2 0xc807 *)
            le16 (h1_pid_high s) ++ zeros 8 ++ zeros 2 ++
            le16 (h1_tid s) ++ le16 (h1_pid_low s) ++ le16 (h1_uid s) ++ le16 (h1_mid s) ++
            body)
    end
  end.

(* ====================================================================== *)
(*                                 SMB2                                   *)
(* ====================================================================== *)

(* ---------- SMB2NegotiateRequest ---------- *)
Definition N2_STRUCTURESIZE : N := 0.
Definition N2_DIALECTCOUNT : N := 1.
Definition N2_SECURITYMODE : N := 2.
Definition N2_RESERVED : N := 3.
Definition N2_CAPABILITIES : N := 4.
Definition N2_CLIENTGUID : N := 5.
Definition N2_NEGOTIATEANDRESERVED2 : N := 6.
Definition N2_DIALECTS : N := 7.
Definition N2_END : N := 8.

(* [n2_dialects]: the HashSet<u16>, as a duplicate-free list (insertion order,
   which is not observable) *)
Record neg2 := {
  n2_d : dis;
  n2_tmp : N;
  n2_structure_size : N;
  n2_dialect_count : N;
  n2_security_mode : N;
  n2_capabilities : N;
  n2_client_guid : bytes;
  n2_dialects : list N;
  n2_read : N          (* _dialects_read: entries read so far (u16, wrapping) *)
}.
Definition set_n2_d (s : neg2) (v : dis) : neg2 :=
  {| n2_d := v; n2_tmp := n2_tmp s; n2_structure_size := n2_structure_size s; n2_dialect_count := n2_dialect_count s; n2_security_mode := n2_security_mode s; n2_capabilities := n2_capabilities s; n2_client_guid := n2_client_guid s; n2_dialects := n2_dialects s; n2_read := n2_read s |}.
Definition set_n2_tmp (s : neg2) (v : N) : neg2 :=
  {| n2_d := n2_d s; n2_tmp := v; n2_structure_size := n2_structure_size s; n2_dialect_count := n2_dialect_count s; n2_security_mode := n2_security_mode s; n2_capabilities := n2_capabilities s; n2_client_guid := n2_client_guid s; n2_dialects := n2_dialects s; n2_read := n2_read s |}.
Definition set_n2_structure_size (s : neg2) (v : N) : neg2 :=
  {| n2_d := n2_d s; n2_tmp := n2_tmp s; n2_structure_size := v; n2_dialect_count := n2_dialect_count s; n2_security_mode := n2_security_mode s; n2_capabilities := n2_capabilities s; n2_client_guid := n2_client_guid s; n2_dialects := n2_dialects s; n2_read := n2_read s |}.
Definition set_n2_dialect_count (s : neg2) (v : N) : neg2 :=
  {| n2_d := n2_d s; n2_tmp := n2_tmp s; n2_structure_size := n2_structure_size s; n2_dialect_count := v; n2_security_mode := n2_security_mode s; n2_capabilities := n2_capabilities s; n2_client_guid := n2_client_guid s; n2_dialects := n2_dialects s; n2_read := n2_read s |}.
Definition set_n2_security_mode (s : neg2) (v : N) : neg2 :=
  {| n2_d := n2_d s; n2_tmp := n2_tmp s; n2_structure_size := n2_structure_size s; n2_dialect_count := n2_dialect_count s; n2_security_mode := v; n2_capabilities := n2_capabilities s; n2_client_guid := n2_client_guid s; n2_dialects := n2_dialects s; n2_read := n2_read s |}.
Definition set_n2_capabilities (s : neg2) (v : N) : neg2 :=
  {| n2_d := n2_d s; n2_tmp := n2_tmp s; n2_structure_size := n2_structure_size s; n2_dialect_count := n2_dialect_count s; n2_security_mode := n2_security_mode s; n2_capabilities := v; n2_client_guid := n2_client_guid s; n2_dialects := n2_dialects s; n2_read := n2_read s |}.
Definition set_n2_client_guid (s : neg2) (v : bytes) : neg2 :=
  {| n2_d := n2_d s; n2_tmp := n2_tmp s; n2_structure_size := n2_structure_size s; n2_dialect_count := n2_dialect_count s; n2_security_mode := n2_security_mode s; n2_capabilities := n2_capabilities s; n2_client_guid := v; n2_dialects := n2_dialects s; n2_read := n2_read s |}.
Definition set_n2_dialects (s : neg2) (v : list N) : neg2 :=
  {| n2_d := n2_d s; n2_tmp := n2_tmp s; n2_structure_size := n2_structure_size s; n2_dialect_count := n2_dialect_count s; n2_security_mode := n2_security_mode s; n2_capabilities := n2_capabilities s; n2_client_guid := n2_client_guid s; n2_dialects := v; n2_read := n2_read s |}.
Definition set_n2_read (s : neg2) (v : N) : neg2 :=
  {| n2_d := n2_d s; n2_tmp := n2_tmp s; n2_structure_size := n2_structure_size s; n2_dialect_count := n2_dialect_count s; n2_security_mode := n2_security_mode s; n2_capabilities := n2_capabilities s; n2_client_guid := n2_client_guid s; n2_dialects := n2_dialects s; n2_read := v |}.

Definition neg2_new : neg2 :=
  {| n2_d := d_new N2_STRUCTURESIZE; n2_tmp := 0; n2_structure_size := 0; n2_dialect_count := 0;
     n2_security_mode := 0; n2_capabilities := 0; n2_client_guid := zeros 16; n2_dialects := []; n2_read := 0 |}.

Definition set_mem (x : N) (l : list N) : bool := existsb (N.eqb x) l.
Definition set_insert (x : N) (l : list N) : list N := if set_mem x l then l else l ++ [x].

Definition neg2_byte (s : neg2) (b : N) : res neg2 :=
  let d := n2_d s in
  let st := d_st d in
  if st =? N2_STRUCTURESIZE then
    do r <- read_ule16 d b (n2_structure_size s) N2_DIALECTCOUNT;
    Ok (set_n2_d (set_n2_structure_size s (fst r)) (snd r))
  else if st =? N2_DIALECTCOUNT then
    do r <- read_ule16 d b (n2_dialect_count s) N2_SECURITYMODE;
    Ok (set_n2_d (set_n2_dialect_count s (fst r)) (snd r))
  else if st =? N2_SECURITYMODE then
    do r <- read_ule16 d b (n2_security_mode s) N2_RESERVED;
    Ok (set_n2_d (set_n2_security_mode s (fst r)) (snd r))
  else if st =? N2_RESERVED then Ok (set_n2_d s (d_when (d_inc d) N2_CAPABILITIES 2))
  else if st =? N2_CAPABILITIES then
    do r <- read_ule32 d b (n2_capabilities s) N2_CLIENTGUID;
    Ok (set_n2_d (set_n2_capabilities s (fst r)) (snd r))
  else if st =? N2_CLIENTGUID then
    if 16 <=? d_i d then Panic PANIC_SMB2_GUID                     (* smb.rs:865 *)
    else Ok (set_n2_d (set_n2_client_guid s (set_nth (N.to_nat (d_i d)) b (n2_client_guid s)))
                      (d_when (d_inc d) N2_NEGOTIATEANDRESERVED2 16))
  else if st =? N2_NEGOTIATEANDRESERVED2 then Ok (set_n2_d s (d_when (d_inc d) N2_DIALECTS 8))
  else if st =? N2_DIALECTS then
    do r <- read_ule16 d b (n2_tmp s) N2_DIALECTS;
    let '(v, d1) := r in
    if d_i d1 =? 0 then
      (* a 2-byte dialect is complete: insert; the list is finished when the
         number of entries read equals DialectCount *)
      let ds := set_insert v (n2_dialects s) in
      let cnt := (n2_read s + 1) mod W16 in
      let d2 := if cnt =? n2_dialect_count s then d_force d1 N2_END else d1 in
      Ok (set_n2_d (set_n2_tmp (set_n2_read (set_n2_dialects s ds) cnt) 0) d2)
    else Ok (set_n2_d (set_n2_tmp s v) d1)
  else Ok s.

(* smb.rs:913-930: first entry of the server's list that the client offered *)
Definition SMB2_VERSIONS : list N := [514; 528; 767; 768; 770; 784; 785].
   (* 0x0202 0x0210 0x02ff 0x0300 0x0302 0x0310 0x0311 *)

Definition neg2_pick (ds : list N) : option N :=
  find (fun v => set_mem v ds) SMB2_VERSIONS.

Definition neg2_repl (neg_blob : bytes) (filetime : N) (s : neg2) : option bytes :=
  if negb (d_st (n2_d s) =? N2_END) then None
  else
    match neg2_pick (n2_dialects s) with
    | None => None                             (* `dialect?` *)
    | Some dialect =>
      Some (
        le16 65 ++                             (* StructureSize 0x41 *)
        le16 1 ++                              (* SecurityMode *)
        le16 dialect ++                        (* DialectRevision *)
        le16 1 ++                              (* NegotiateCount *)
        n2_client_guid s ++                    (* GUID: the CLIENT's guid is echoed *)
        le32 1 ++                              (* Capabilities *)
        le32 65536 ++ le32 65536 ++ le32 65536 ++   (* MaxTransact/Read/WriteSize *)
        le64 filetime ++                       (* ServerTime *)
        le64 filetime ++                       (* ServerStartTime *)
        le16 128 ++                            (* SecurityBufferOffset 0x80 *)
        le16 (wrap16 (lenN neg_blob)) ++       (* SecurityBufferLength *)
        le32 0 ++                              (* NegotiateContextOffset *)
        neg_blob)
    end.

(* ---------- SMB2SessionSetupRequest ---------- *)
Definition S2_STRUCTURESIZE : N := 0.
Definition S2_FLAGS : N := 1.
Definition S2_SECURITYMODE : N := 2.
Definition S2_CAPABILITIES : N := 3.
Definition S2_CHANNEL : N := 4.
Definition S2_SECURITYBUFFEROFFSET : N := 5.
Definition S2_SECURITYLEN : N := 6.
Definition S2_PREVIOUSSESSIONID : N := 7.
Definition S2_SECURITYBLOB : N := 8.
Definition S2_END : N := 9.
Record setup2 := {
  s2_d : dis;
  s2_structure_size : N;
  s2_flags : N;
  s2_security_mode : N;
  s2_capabilities : N;
  s2_channel : N;
  s2_sec_off : N;
  s2_sec_len : N;
  s2_prev_session : N
}.
Definition set_s2_d (s : setup2) (v : dis) : setup2 :=
  {| s2_d := v; s2_structure_size := s2_structure_size s; s2_flags := s2_flags s; s2_security_mode := s2_security_mode s; s2_capabilities := s2_capabilities s; s2_channel := s2_channel s; s2_sec_off := s2_sec_off s; s2_sec_len := s2_sec_len s; s2_prev_session := s2_prev_session s |}.
Definition set_s2_structure_size (s : setup2) (v : N) : setup2 :=
  {| s2_d := s2_d s; s2_structure_size := v; s2_flags := s2_flags s; s2_security_mode := s2_security_mode s; s2_capabilities := s2_capabilities s; s2_channel := s2_channel s; s2_sec_off := s2_sec_off s; s2_sec_len := s2_sec_len s; s2_prev_session := s2_prev_session s |}.
Definition set_s2_flags (s : setup2) (v : N) : setup2 :=
  {| s2_d := s2_d s; s2_structure_size := s2_structure_size s; s2_flags := v; s2_security_mode := s2_security_mode s; s2_capabilities := s2_capabilities s; s2_channel := s2_channel s; s2_sec_off := s2_sec_off s; s2_sec_len := s2_sec_len s; s2_prev_session := s2_prev_session s |}.
Definition set_s2_security_mode (s : setup2) (v : N) : setup2 :=
  {| s2_d := s2_d s; s2_structure_size := s2_structure_size s; s2_flags := s2_flags s; s2_security_mode := v; s2_capabilities := s2_capabilities s; s2_channel := s2_channel s; s2_sec_off := s2_sec_off s; s2_sec_len := s2_sec_len s; s2_prev_session := s2_prev_session s |}.
Definition set_s2_capabilities (s : setup2) (v : N) : setup2 :=
  {| s2_d := s2_d s; s2_structure_size := s2_structure_size s; s2_flags := s2_flags s; s2_security_mode := s2_security_mode s; s2_capabilities := v; s2_channel := s2_channel s; s2_sec_off := s2_sec_off s; s2_sec_len := s2_sec_len s; s2_prev_session := s2_prev_session s |}.
Definition set_s2_channel (s : setup2) (v : N) : setup2 :=
  {| s2_d := s2_d s; s2_structure_size := s2_structure_size s; s2_flags := s2_flags s; s2_security_mode := s2_security_mode s; s2_capabilities := s2_capabilities s; s2_channel := v; s2_sec_off := s2_sec_off s; s2_sec_len := s2_sec_len s; s2_prev_session := s2_prev_session s |}.
Definition set_s2_sec_off (s : setup2) (v : N) : setup2 :=
  {| s2_d := s2_d s; s2_structure_size := s2_structure_size s; s2_flags := s2_flags s; s2_security_mode := s2_security_mode s; s2_capabilities := s2_capabilities s; s2_channel := s2_channel s; s2_sec_off := v; s2_sec_len := s2_sec_len s; s2_prev_session := s2_prev_session s |}.
Definition set_s2_sec_len (s : setup2) (v : N) : setup2 :=
  {| s2_d := s2_d s; s2_structure_size := s2_structure_size s; s2_flags := s2_flags s; s2_security_mode := s2_security_mode s; s2_capabilities := s2_capabilities s; s2_channel := s2_channel s; s2_sec_off := s2_sec_off s; s2_sec_len := v; s2_prev_session := s2_prev_session s |}.
Definition set_s2_prev_session (s : setup2) (v : N) : setup2 :=
  {| s2_d := s2_d s; s2_structure_size := s2_structure_size s; s2_flags := s2_flags s; s2_security_mode := s2_security_mode s; s2_capabilities := s2_capabilities s; s2_channel := s2_channel s; s2_sec_off := s2_sec_off s; s2_sec_len := s2_sec_len s; s2_prev_session := v |}.

Definition setup2_new : setup2 :=
  {| s2_d := d_new S2_STRUCTURESIZE; s2_structure_size := 0; s2_flags := 0; s2_security_mode := 0;
     s2_capabilities := 0; s2_channel := 0; s2_sec_off := 0; s2_sec_len := 0; s2_prev_session := 0 |}.

Definition setup2_byte (s : setup2) (b : N) : res setup2 :=
  let d := s2_d s in
  let st := d_st d in
  if st =? S2_STRUCTURESIZE then
    do r <- read_ule16 d b (s2_structure_size s) S2_FLAGS;
    Ok (set_s2_d (set_s2_structure_size s (fst r)) (snd r))
  else if st =? S2_FLAGS then Ok (set_s2_d (set_s2_flags s b) (d_next S2_SECURITYMODE))
  else if st =? S2_SECURITYMODE then Ok (set_s2_d (set_s2_security_mode s b) (d_next S2_CAPABILITIES))
  else if st =? S2_CAPABILITIES then
    do r <- read_ule32 d b (s2_capabilities s) S2_CHANNEL;
    Ok (set_s2_d (set_s2_capabilities s (fst r)) (snd r))
  else if st =? S2_CHANNEL then
    do r <- read_ule32 d b (s2_channel s) S2_SECURITYBUFFEROFFSET;
    Ok (set_s2_d (set_s2_channel s (fst r)) (snd r))
  else if st =? S2_SECURITYBUFFEROFFSET then
    do r <- read_ule16 d b (s2_sec_off s) S2_SECURITYLEN;
    Ok (set_s2_d (set_s2_sec_off s (fst r)) (snd r))
  else if st =? S2_SECURITYLEN then
    do r <- read_ule16 d b (s2_sec_len s) S2_PREVIOUSSESSIONID;
    Ok (set_s2_d (set_s2_sec_len s (fst r)) (snd r))
  else if st =? S2_PREVIOUSSESSIONID then
    do r <- read_ule64 d b (s2_prev_session s) S2_SECURITYBLOB;
    (* an empty security buffer: there is nothing more to read *)
    Ok (set_s2_d (set_s2_prev_session s (fst r))
                 (if (d_st (snd r) =? S2_SECURITYBLOB) && (s2_sec_len s =? 0) then d_next S2_END else snd r))
  else if st =? S2_SECURITYBLOB then
    (* the blob is taken to start right after PreviousSessionId (SecurityBufferOffset
       is not used) *)
    Ok (set_s2_d s (d_when (d_inc d) S2_END (s2_sec_len s)))
  else Ok s.

Definition setup2_repl (chal_blob : bytes) (s : setup2) : option bytes :=
  if negb (d_st (s2_d s) =? S2_END) then None
  else Some (
    le16 9 ++                                  (* StructureSize *)
    le16 0 ++                                  (* SessionFlags *)
    le16 72 ++                                 (* SecurityBufferOffset 0x48 *)
    le16 (wrap16 (lenN chal_blob)) ++          (* SecurityBufferLength *)
    chal_blob).

(* ---------- SMB2Payload ---------- *)
Inductive pay2 := P2Neg (n : neg2) | P2Setup (s : setup2).

Definition pay2_byte (p : pay2) (b : N) : res pay2 :=
  match p with
  | P2Neg n => do n' <- neg2_byte n b; Ok (P2Neg n')
  | P2Setup s => do s' <- setup2_byte s b; Ok (P2Setup s')
  end.

Definition pay2_repl (neg_blob chal_blob : bytes) (filetime : N) (p : pay2) : option bytes :=
  match p with
  | P2Neg n => neg2_repl neg_blob filetime n
  | P2Setup s => setup2_repl chal_blob s
  end.

(* ---------- SMB2Header ---------- *)
Definition H2_START : N := 0.
Definition H2_STRUCTURESIZE : N := 1.
Definition H2_CREDITSCHARGE : N := 2.
Definition H2_STATUS : N := 3.
Definition H2_COMMAND : N := 4.
Definition H2_CREDITSREQUESTED : N := 5.
Definition H2_FLAGS : N := 6.
Definition H2_NEXTCOMMAND : N := 7.
Definition H2_MESSAGEID : N := 8.
Definition H2_ASYNCID : N := 9.
Definition H2_SESSIONID : N := 10.
Definition H2_SECURITYSIGNATURE : N := 11.
Definition H2_END : N := 12.

(* the arrays start[4] and security_signature[16] are written, never read: not kept *)
Record hdr2 := {
  h2_d : dis;
  h2_structure_size : N;
  h2_credit_charge : N;
  h2_status : N;
  h2_command : N;
  h2_credits_requested : N;
  h2_flags : N;
  h2_next_command : N;
  h2_message_id : N;
  h2_async_id : N;
  h2_session_id : N;
  h2_pay : option pay2
}.
Definition set_h2_d (s : hdr2) (v : dis) : hdr2 :=
  {| h2_d := v; h2_structure_size := h2_structure_size s; h2_credit_charge := h2_credit_charge s; h2_status := h2_status s; h2_command := h2_command s; h2_credits_requested := h2_credits_requested s; h2_flags := h2_flags s; h2_next_command := h2_next_command s; h2_message_id := h2_message_id s; h2_async_id := h2_async_id s; h2_session_id := h2_session_id s; h2_pay := h2_pay s |}.
Definition set_h2_structure_size (s : hdr2) (v : N) : hdr2 :=
  {| h2_d := h2_d s; h2_structure_size := v; h2_credit_charge := h2_credit_charge s; h2_status := h2_status s; h2_command := h2_command s; h2_credits_requested := h2_credits_requested s; h2_flags := h2_flags s; h2_next_command := h2_next_command s; h2_message_id := h2_message_id s; h2_async_id := h2_async_id s; h2_session_id := h2_session_id s; h2_pay := h2_pay s |}.
Definition set_h2_credit_charge (s : hdr2) (v : N) : hdr2 :=
  {| h2_d := h2_d s; h2_structure_size := h2_structure_size s; h2_credit_charge := v; h2_status := h2_status s; h2_command := h2_command s; h2_credits_requested := h2_credits_requested s; h2_flags := h2_flags s; h2_next_command := h2_next_command s; h2_message_id := h2_message_id s; h2_async_id := h2_async_id s; h2_session_id := h2_session_id s; h2_pay := h2_pay s |}.
Definition set_h2_status (s : hdr2) (v : N) : hdr2 :=
  {| h2_d := h2_d s; h2_structure_size := h2_structure_size s; h2_credit_charge := h2_credit_charge s; h2_status := v; h2_command := h2_command s; h2_credits_requested := h2_credits_requested s; h2_flags := h2_flags s; h2_next_command := h2_next_command s; h2_message_id := h2_message_id s; h2_async_id := h2_async_id s; h2_session_id := h2_session_id s; h2_pay := h2_pay s |}.
Definition set_h2_command (s : hdr2) (v : N) : hdr2 :=
  {| h2_d := h2_d s; h2_structure_size := h2_structure_size s; h2_credit_charge := h2_credit_charge s; h2_status := h2_status s; h2_command := v; h2_credits_requested := h2_credits_requested s; h2_flags := h2_flags s; h2_next_command := h2_next_command s; h2_message_id := h2_message_id s; h2_async_id := h2_async_id s; h2_session_id := h2_session_id s; h2_pay := h2_pay s |}.
Definition set_h2_credits_requested (s : hdr2) (v : N) : hdr2 :=
  {| h2_d := h2_d s; h2_structure_size := h2_structure_size s; h2_credit_charge := h2_credit_charge s; h2_status := h2_status s; h2_command := h2_command s; h2_credits_requested := v; h2_flags := h2_flags s; h2_next_command := h2_next_command s; h2_message_id := h2_message_id s; h2_async_id := h2_async_id s; h2_session_id := h2_session_id s; h2_pay := h2_pay s |}.
Definition set_h2_flags (s : hdr2) (v : N) : hdr2 :=
  {| h2_d := h2_d s; h2_structure_size := h2_structure_size s; h2_credit_charge := h2_credit_charge s; h2_status := h2_status s; h2_command := h2_command s; h2_credits_requested := h2_credits_requested s; h2_flags := v; h2_next_command := h2_next_command s; h2_message_id := h2_message_id s; h2_async_id := h2_async_id s; h2_session_id := h2_session_id s; h2_pay := h2_pay s |}.
Definition set_h2_next_command (s : hdr2) (v : N) : hdr2 :=
  {| h2_d := h2_d s; h2_structure_size := h2_structure_size s; h2_credit_charge := h2_credit_charge s; h2_status := h2_status s; h2_command := h2_command s; h2_credits_requested := h2_credits_requested s; h2_flags := h2_flags s; h2_next_command := v; h2_message_id := h2_message_id s; h2_async_id := h2_async_id s; h2_session_id := h2_session_id s; h2_pay := h2_pay s |}.
Definition set_h2_message_id (s : hdr2) (v : N) : hdr2 :=
  {| h2_d := h2_d s; h2_structure_size := h2_structure_size s; h2_credit_charge := h2_credit_charge s; h2_status := h2_status s; h2_command := h2_command s; h2_credits_requested := h2_credits_requested s; h2_flags := h2_flags s; h2_next_command := h2_next_command s; h2_message_id := v; h2_async_id := h2_async_id s; h2_session_id := h2_session_id s; h2_pay := h2_pay s |}.
Definition set_h2_async_id (s : hdr2) (v : N) : hdr2 :=
  {| h2_d := h2_d s; h2_structure_size := h2_structure_size s; h2_credit_charge := h2_credit_charge s; h2_status := h2_status s; h2_command := h2_command s; h2_credits_requested := h2_credits_requested s; h2_flags := h2_flags s; h2_next_command := h2_next_command s; h2_message_id := h2_message_id s; h2_async_id := v; h2_session_id := h2_session_id s; h2_pay := h2_pay s |}.
Definition set_h2_session_id (s : hdr2) (v : N) : hdr2 :=
  {| h2_d := h2_d s; h2_structure_size := h2_structure_size s; h2_credit_charge := h2_credit_charge s; h2_status := h2_status s; h2_command := h2_command s; h2_credits_requested := h2_credits_requested s; h2_flags := h2_flags s; h2_next_command := h2_next_command s; h2_message_id := h2_message_id s; h2_async_id := h2_async_id s; h2_session_id := v; h2_pay := h2_pay s |}.
Definition set_h2_pay (s : hdr2) (v : option pay2) : hdr2 :=
  {| h2_d := h2_d s; h2_structure_size := h2_structure_size s; h2_credit_charge := h2_credit_charge s; h2_status := h2_status s; h2_command := h2_command s; h2_credits_requested := h2_credits_requested s; h2_flags := h2_flags s; h2_next_command := h2_next_command s; h2_message_id := h2_message_id s; h2_async_id := h2_async_id s; h2_session_id := h2_session_id s; h2_pay := v |}.

Definition hdr2_new : hdr2 :=
  {| h2_d := d_new H2_START; h2_structure_size := 0; h2_credit_charge := 0; h2_status := 0;
     h2_command := 0; h2_credits_requested := 0; h2_flags := 0; h2_next_command := 0;
     h2_message_id := 0; h2_async_id := 0; h2_session_id := 0; h2_pay := None |}.

(* SMB2Header::get_payload followed by pay.parse(byte) *)
Definition hdr2_payload_byte (s : hdr2) (b : N) : res hdr2 :=
  match h2_pay s with
  | Some p => do p' <- pay2_byte p b; Ok (set_h2_pay s (Some p'))
  | None =>
    if N.land (h2_flags s) 1 =? 1 then Ok s               (* SMB2_FLAGS_SERVER_TO_REDIR: ignored *)
    else if h2_command s =? 0 then
      do p' <- pay2_byte (P2Neg neg2_new) b; Ok (set_h2_pay s (Some p'))
    else if h2_command s =? 1 then
      do p' <- pay2_byte (P2Setup setup2_new) b; Ok (set_h2_pay s (Some p'))
    else Ok s
  end.

Definition hdr2_byte (s : hdr2) (b : N) : res hdr2 :=
  let d := h2_d s in
  let st := d_st d in
  if st =? H2_START then
    if 4 <=? d_i d then Panic PANIC_SMB2_START                     (* smb.rs:670 *)
    else Ok (set_h2_d s (d_when (d_inc d) H2_STRUCTURESIZE 4))
  else if st =? H2_STRUCTURESIZE then
    do r <- read_ule16 d b (h2_structure_size s) H2_CREDITSCHARGE;
    Ok (set_h2_d (set_h2_structure_size s (fst r)) (snd r))
  else if st =? H2_CREDITSCHARGE then
    do r <- read_ule16 d b (h2_credit_charge s) H2_STATUS;
    Ok (set_h2_d (set_h2_credit_charge s (fst r)) (snd r))
  else if st =? H2_STATUS then
    do r <- read_ule32 d b (h2_status s) H2_COMMAND;
    Ok (set_h2_d (set_h2_status s (fst r)) (snd r))
  else if st =? H2_COMMAND then
    do r <- read_ule16 d b (h2_command s) H2_CREDITSREQUESTED;
    Ok (set_h2_d (set_h2_command s (fst r)) (snd r))
  else if st =? H2_CREDITSREQUESTED then
    do r <- read_ule16 d b (h2_credits_requested s) H2_FLAGS;
    Ok (set_h2_d (set_h2_credits_requested s (fst r)) (snd r))
  else if st =? H2_FLAGS then
    do r <- read_ule32 d b (h2_flags s) H2_NEXTCOMMAND;
    Ok (set_h2_d (set_h2_flags s (fst r)) (snd r))
  else if st =? H2_NEXTCOMMAND then
    do r <- read_ule32 d b (h2_next_command s) H2_MESSAGEID;
    Ok (set_h2_d (set_h2_next_command s (fst r)) (snd r))
  else if st =? H2_MESSAGEID then
    do r <- read_ule64 d b (h2_message_id s) H2_ASYNCID;
    Ok (set_h2_d (set_h2_message_id s (fst r)) (snd r))
  else if st =? H2_ASYNCID then
    do r <- read_ule64 d b (h2_async_id s) H2_SESSIONID;
    Ok (set_h2_d (set_h2_async_id s (fst r)) (snd r))
  else if st =? H2_SESSIONID then
    do r <- read_ule64 d b (h2_session_id s) H2_SECURITYSIGNATURE;
    Ok (set_h2_d (set_h2_session_id s (fst r)) (snd r))
  else if st =? H2_SECURITYSIGNATURE then
    if 16 <=? d_i d then Panic PANIC_SMB2_SECSIG                   (* smb.rs:726 *)
    else Ok (set_h2_d s (d_when (d_inc d) H2_END 16))
  else hdr2_payload_byte s b.

Definition SMB2_MAGIC : bytes := [254; 83; 77; 66].

Definition hdr2_repl (neg_blob chal_blob : bytes) (filetime : N) (s : hdr2) : option bytes :=
  match h2_pay s with
  | None => None
  | Some p =>
    match pay2_repl neg_blob chal_blob filetime p with
    | None => None
    | Some body =>
      Some (SMB2_MAGIC ++
            le16 64 ++                         (* StructureSize *)
            le16 0 ++                          (* CreditCharge *)
            le32 0 ++                          (* Status *)
            le16 (h2_command s) ++
            le16 1 ++                          (* Credits granted *)
            le32 1 ++                          (* Flags = response *)
            le32 0 ++                          (* NextCommand *)
            le64 (h2_message_id s) ++ le64 (h2_async_id s) ++ le64 (h2_session_id s) ++
            zeros 16 ++                        (* Signature *)
            body)
    end
  end.

(* ====================================================================== *)
(*                     NBTSession<T> (generic in T)                       *)
(* ====================================================================== *)
Definition NB_TYPE : N := 0.
Definition NB_RESERVED : N := 1.
Definition NB_LENGTH : N := 2.
Definition NB_END : N := 3.

Section NBT.
Variable T : Type.
Variable t_new : T.
Variable t_byte : T -> N -> res T.
Variable t_repl : T -> option bytes.
Record nbt := {
  nb_d : dis;
  nb_type : N;
  nb_len : N;
  nb_pay : option T
}.
Definition set_nb_d (s : nbt) (v : dis) : nbt :=
  {| nb_d := v; nb_type := nb_type s; nb_len := nb_len s; nb_pay := nb_pay s |}.
Definition set_nb_type (s : nbt) (v : N) : nbt :=
  {| nb_d := nb_d s; nb_type := v; nb_len := nb_len s; nb_pay := nb_pay s |}.
Definition set_nb_len (s : nbt) (v : N) : nbt :=
  {| nb_d := nb_d s; nb_type := nb_type s; nb_len := v; nb_pay := nb_pay s |}.
Definition set_nb_pay (s : nbt) (v : option T) : nbt :=
  {| nb_d := nb_d s; nb_type := nb_type s; nb_len := nb_len s; nb_pay := v |}.

Definition nbt_new : nbt :=
  {| nb_d := d_new NB_TYPE; nb_type := 0; nb_len := 0; nb_pay := None |}.

(* nb_type and length are recorded and never looked at *)
Definition nbt_byte (s : nbt) (b : N) : res nbt :=
  let d := nb_d s in
  let st := d_st d in
  if st =? NB_TYPE then Ok (set_nb_d (set_nb_type s b) (d_next NB_RESERVED))
  else if st =? NB_RESERVED then Ok (set_nb_d s (d_next NB_LENGTH))
  else if st =? NB_LENGTH then
    let '(v, d1) := read_u16 d b (nb_len s) NB_END in
    Ok (set_nb_d (set_nb_len s v) d1)
  else
    (* get_payload: created on the first payload byte *)
    let p := match nb_pay s with Some p => p | None => t_new end in
    do p' <- t_byte p b;
    Ok (set_nb_pay s (Some p')).

Definition nbt_repl (s : nbt) : res (option bytes) :=
  match nb_pay s with
  | None => Ok None
  | Some p =>
    match t_repl p with
    | None => Ok None
    | Some r =>
      let size := N.land (lenN r) 131071 in                       (* & 0x1ffff *)
      let hi := N.land (N.shiftr (size mod W32) 16) 255 in
      if 256 <=? hi then Panic PANIC_NBT_SIZE                     (* smb.rs:100 *)
      else Ok (Some ([0; hi] ++ be16 (N.land size 65535) ++ r))
    end
  end.

Definition nbt_run (data : bytes) : res (option bytes) :=
  do s <- fold_res nbt_byte data nbt_new;
  nbt_repl s.
End NBT.

(* ---------- repl_smb1 / repl_smb2 ---------- *)
Definition smb1_repl (neg_blob chal_blob : bytes) (filetime : N) (data : bytes) : res (option bytes) :=
  nbt_run hdr1 hdr1_new hdr1_byte (hdr1_repl neg_blob chal_blob filetime) data.

Definition smb2_repl (neg_blob chal_blob : bytes) (filetime : N) (data : bytes) : res (option bytes) :=
  nbt_run hdr2 hdr2_new hdr2_byte (hdr2_repl neg_blob chal_blob filetime) data.
