"""C11 -- stream parsing is independent of TCP segmentation (HTTP, ONC-RPC over TCP)."""
import itertools
import net, gens, runner
from common import *
from runner import Script, Cfg

ID = "C11"
THEOREMS = ["C11_current_table", "C11_stream_join", "C11_identified_in_a_segment", "C11_rpc_stream", "C11_rpc_stream_first",
            "C11_http_stream", "C11_http_stream_first", "C11_http_stream_segmentation", "C11_http_outs_segmentation",
            "C11_short_first_segment_answered", "C11_nonvacuous", "C11rpc.C11_rpc_first_call", "C11rpc.C11_rpc_cut_inside_signature",
            "C11http.C11_http_parse_app", "C11http.C11_http_segments", "C11http.C11_http_per_segment", "C11uniform.C11_current_uniform_table", "C11uniform.C11_current_uniform_table_tight", "C11uniform.C11_http_quiet_short", "C11uniform.C11_http_ident_early", "C11uniform.C11_http_stream_uniform", "C11uniform.C11_http_stream_uniform_env", "C11uniform.C11_http_outs_uniform", "C11uniform.C11_http_complete_at_some", "C11uniform.C11_http_complete_at_none", "C11uniform.C11_seg_index_spec", "C11uniform.C11_http_reply_segment", "C11uniform.C11_http_cut_invariance", "C11uniform.C11_rpc_cut_invariance", "C11uniform.C11_rpc_complete_at_some", "C11uniform.C11_rpc_stream_ref_self", "C11uniform.C11_http_pipelined_cut_dependent", "C11uniform.C11_http_whole_flow_refuted", "C11uniform.C11_rpc_pipelined_cut_dependent", "C11uniform.C11_http_flow_monitor", "C11uniform.C11_http_flow_strict_refuted", "C11uniform.C11_tcp_data_lift_state", "C11uniform.C11_tcp_later_lift", "C11uniform.C11_flow_lift", "C11uniform.C11_http_frames_uniform", "C11uniform.C11_http_frames_reply_segment", "C11uniform.C11_proto_repl_tcp_tcb_clk", "C11uniform.C11_http_stream_uniform_c", "C11uniform.C11_http_frames_uniform_c", "C11uniform.C11_uniform_nonvacuous", "C11uniform.C11_uniform_readings", "C11uniform.C11_uniform_instances", "C11uniform.C11_rpc_cut_nonvacuous", "C11uniform.C11_frames_nonvacuous", "C11uniform.C11_frames_instance", "Env.the_env_ok"]
MONITORS = []
RULE = ("request streams (HTTP requests of all shapes, ONC-RPC/TCP calls with credentials and verifiers, with trailing bytes, "
        "and malformed streams that are never answered as a whole: CR / LF inside the target, bad version, header without "
        "colon, unterminated, reply-typed RPC) are sent on a "
        "fresh validated flow under every 1-cut and 2-cut segmentation (exhaustive for streams up to 80 bytes, cuts on a "
        "grid beyond) and sampled k-cut ones; the reference is computed from the stream alone: the completion offset is the "
        "shortest prefix that, sent as ONE segment, is answered (measured on the implementation and on the model); every "
        "segment before the one containing that offset must get a bare ACK, that segment the reply (same bytes modulo "
        "Date), for every segmentation whose first segment holds the whole protocol signature; segmentations that cut "
        "inside the signature are ordinary cases since the prefix-buffer fix. non-trivial = segmentation with >= 2 segments")
TRUSTED = ["Coq 8.16.1 kernel + vm_compute", "extraction (ExtrOcamlBasic) + ocaml/model_run.ml", "harness/*.py",
           "Rust hook verif_driver.rs", "pnet accessor semantics as modelled"]
ASSUMPTIONS = ["the former known class short_first_segment (first segment ends inside the protocol signature) was repaired in "
               "/repo (prefix buffer of at most 64 bytes per unidentified flow); its witnesses stay in the corpus and are "
               "now ordinary cases that must be answered"]

KEY = (21, 22)
SRC, DST, SPORT, DPORT = "10.0.0.9", "10.0.0.1", 40123, 8080


def streams(rng, tier):
    out = [
        ("http-min", b"GET / HTTP/1.0\n\n", 5),
        ("http-crlf", b"GET /index.html HTTP/1.1\r\nHost: a\r\n\r\n", 5),
        ("http-post-body", b"POST /x HTTP/1.1\r\nContent-Length: 3\r\n\r\nabcTRAILING", 6),
        ("http-options", b"OPTIONS /* HTTP/1.1\r\nA:b\r\nC: d\r\n\r\n", 9),
        ("rpc-getport", gens.rpc_call(xid=0x81020304, vers=2, proc=3, tcp=True), 28),
        ("rpc-dump-cred", gens.rpc_call(xid=0x81020304, vers=4, proc=4, cred=b"abcdefgh", tcp=True) + b"tail", 28),
        ("rpc-badvers", gens.rpc_call(xid=0x81020304, vers=104316, proc=0, tcp=True), 28),
        ("rpc-cred-verf", gens.rpc_call(xid=0x81020304, vers=3, proc=3, cred=b"0123456789a", verf=b"vwxyz", tcp=True), 28),
        # streams that are NOT answered as a whole must not be answered under any segmentation either
        ("http-bad-cr-in-target", b"GET /a\rb HTTP/1.1\r\nHost: x\r\n\r\n", 5),
        ("http-bad-lf-in-target", b"GET /ab\n/c HTTP/1.0\r\n\r\n", 5),
        ("http-bad-version", b"GET / HTTP/1.\r\nA: b\r\n\r\n", 5),
        ("http-bad-header", b"PUT /x HTTP/1.1\r\nNoColonHere\r\n\r\n", 5),
        ("http-unterminated", b"HEAD / HTTP/1.1\r\nA: b\r\nC: d\r\n", 6),
        ("rpc-reply-typed", gens.rpc_call(xid=0x81020304, vers=2, proc=3, tcp=True, mtype=1), 28),
        ("rpc-long-cred", gens.rpc_call(xid=0x81020304, vers=4, proc=3, tcp=True, cred=bytes(range(40)), verf=b"12345678"), 28),
        # a complete request behind leading bytes that complete no signature: the stream is never answered, however it is cut
        ("http-junk-prefix-1", b"XGET / HTTP/1.1\r\nHost: a\r\n\r\n", 5),
        ("http-junk-prefix-2", b"POGET /x HTTP/1.0\r\n\r\n", 5),
        ("http-lowercase-then-request", b"get /\r\nGET / HTTP/1.1\r\n\r\n", 5),
        ("junk-64-then-ghost", b"J" * 64 + b"Gh0st\x00\x01", 5),
        ("junk-65-then-request", b"K" * 65 + b"GET / HTTP/1.0\r\n\r\n", 5),
        ("junk-80-then-ssh", b"L" * 40 + b"M" * 40 + b"SSH-2.0-x\r\n", 5),
        # calls WITH arguments after the verifier (GETPORT / GETADDR for another program): the reply must not depend on
        # whether the arguments arrive in the segment that completes the call header
        ("rpc-getport-args", gens.rpc_call(xid=0x81020304, vers=2, proc=3, tcp=True, body=__import__("struct").pack("!IIII", 100003, 3, 6, 0)), 28),
        ("rpc-getaddr-args", gens.rpc_call(xid=0x81020304, vers=4, proc=3, tcp=True, cred=b"abcd",
                                           body=__import__("struct").pack("!II", 100005, 3) + b"\0\0\0\3tcp\0" + b"\0\0\0\0" * 2), 28),
    ]
    if tier == "thorough":
        out.append(("http-long", gens.http_req(headers=[(b"H%d" % i, b"v" * i) for i in range(8)]), 5))
        out.append(("http-delete", b"DELETE /a/b/c HTTP/2.0\r\n\r\n", 8))
    return out


def segmentations(n, siglen, rng, tier):
    cuts1 = range(1, n)
    segs = [[c] for c in cuts1]
    grid = list(range(1, n)) if (n <= 80 or tier == "thorough") else sorted(set(list(range(1, min(n, 40))) + list(range(40, n, 7))))
    if tier == "quick" and n > 40:
        grid = sorted(set(list(range(1, 34)) + list(range(34, n, 5))))
    for a, b in itertools.combinations(grid, 2):
        segs.append([a, b])
    for _ in range(20 if tier == "quick" else 300):
        k = rng.randrange(3, min(n, 9))
        segs.append(sorted(rng.sample(range(1, n), k)))
    return segs


def cut(stream, cuts):
    pts = [0] + list(cuts) + [len(stream)]
    return [stream[pts[i]:pts[i + 1]] for i in range(len(pts) - 1)]


def script_for(segs, tag, pad=False):
    fr = gens.handshake(KEY, SRC, DST, SPORT, DPORT, segs)[1:]
    if pad:       # Ethernet padding up to the 60-byte minimum: bytes after the IP datagram are not part of the stream
        fr = [f + bytes(max(0, 60 - len(f))) for f in fr]
    return Script(Cfg(key=KEY), fr, tag)


def corpus():
    # the confirmed witness: "GE" | "T / HTTP/1.1\r\n\r\n" is never answered
    yield script_for([b"GE", b"T / HTTP/1.1\r\n\r\n"], "corpus:cut-inside-signature|http|5")


def generate(tier, rng):
    for name, s, siglen in streams(rng, tier):
        # reference runs: every prefix as ONE segment
        for n in range(1, len(s) + 1):
            yield script_for([s[:n]], "prefix|%s|%d|%d" % (name, siglen, n))
        for cuts in segmentations(len(s), siglen, rng, tier):
            yield script_for(cut(s, cuts), "seg|%s|%d|%s" % (name, siglen, ",".join(map(str, cuts))))
        if name.startswith("junk-"):
            j = len(s) - len(s.lstrip(b"JKLM"))           # where the junk ends and a signature begins
            for cuts in ([j], [j - 1], [j + 1], [10, j], [j, j + 3], [40, j]):
                if all(0 < c < len(s) for c in cuts) and cuts == sorted(set(cuts)):
                    yield script_for(cut(s, cuts), "seg|%s|%d|%s" % (name, siglen, ",".join(map(str, cuts))))
        for cuts in ([1], [4], [2, 3], [4, 8], [len(s) - 2]):
            if all(0 < c < len(s) for c in cuts):
                yield script_for(cut(s, cuts), "seg|%s|%d|%s" % (name, siglen, ",".join(map(str, cuts))), pad=True)


def nontrivial(script):
    return len(script.frames) >= 2


def project(script, i, o):
    return None


def app_of(o):
    """-> ('N',) silence | ('ACK',) bare ack | ('DATA', payload with Date masked) | ('P',)"""
    if o.kind == "N":
        return ("N",)
    if o.kind != "R":
        return ("P",)
    p = net.parse_frame(o.reply)
    if p is None or p.proto != 6:
        return ("?",)
    if not p.app:
        return ("ACK", p.flags)
    return ("DATA", p.flags, runner.mask_app(p.app))


KEEP_LAST = False


def evaluate_custom(scripts, drivers):
    issues = []
    stats = {"frames": 0, "replies": 0, "silence": 0, "panics": 0, "monitor_evals": 0, "segmentations": 0,
             "known_class_cases": 0, "streams": {}}
    for dname, driver in drivers:
        io = runner.run_impl(scripts, driver)
        mo = runner.run_model(scripts, io, ovf=(dname == "dev"))
        # correspondence on every frame
        complete = {}       # stream name -> (offset, reply) measured on the implementation
        for si, s in enumerate(scripts):
            for fi in range(len(s.frames)):
                a, b = io[si][fi], mo[si][fi]
                stats["frames"] += 1
                stats["replies" if a.kind == "R" else "silence" if a.kind == "N" else "panics"] += 1
                if app_of(a) != app_of(b):
                    issues.append({"kind": "correspondence", "script": s, "frame": fi, "driver": dname,
                                   "impl": repr(app_of(a))[:200], "model": repr(app_of(b))[:200]})
            w = s.tag.replace("+gaps", "").split("|")
            if w[0] == "prefix":
                r = app_of(io[si][0])
                if r[0] == "DATA" and (w[1] not in complete or int(w[3]) < complete[w[1]][0]):
                    complete[w[1]] = (int(w[3]), r)
        for name, (off, r) in complete.items():
            stats["streams"][name] = off
        for si, s in enumerate(scripts):
            w = s.tag.replace("+gaps", "").split("|")
            if w[0] == "prefix":
                continue
            if w[0].startswith("corpus"):
                name, siglen, cuts = None, int(w[2]), [len(net.parse_frame(s.frames[0]).app)]
                ref = None
            else:
                name, siglen, cuts = w[1], int(w[2]), [int(x) for x in w[3].split(",")]
                ref = complete.get(name)
            stats["segmentations"] += 1
            stats["monitor_evals"] += 1
            # time passing between the segments (runner.adv_frame pseudo-frames) is not a segment
            outs = [app_of(o) for f, o in zip(s.frames, io[si]) if runner.adv_seconds(f) is None]
            known = False          # cuts inside the signature were a known finding until fix (prefix buffer): now ordinary cases
            if cuts[0] < siglen:
                stats["known_class_cases"] += 1
            if ref is None:
                # corpus witness or a stream never answered: every segment must get a bare ACK
                expected = [("ACK", 16)] * len(outs) if name is not None else None
                bad = expected is not None and outs != expected
                if name is None:
                    bad = any(o[0] == "DATA" for o in outs) is False   # the witness: the request is lost
                    if bad:
                        issues.append({"kind": "monitor", "script": s, "frame": len(outs) - 1, "driver": dname,
                                       "monitor": "C11-segmentation", "impl": repr(outs)[:300],
                                       "model": "a complete request must be answered", "class": None})
                    continue
            else:
                off, rep = ref
                pts = cuts + [10 ** 9]
                k = next(i for i, c in enumerate(pts) if off <= c)        # segment containing the completing byte
                expected = [("ACK", 16)] * k + [rep]
                bad = outs[:k + 1] != expected
            if bad:
                issues.append({"kind": "monitor", "script": s, "frame": len(outs) - 1, "driver": dname,
                               "monitor": "C11-segmentation", "impl": repr(outs)[:300], "model": repr(expected)[:300],
                               "class": "short_first_segment" if known else None})
    return issues, stats


def known_class(issue):
    return issue.get("class")
