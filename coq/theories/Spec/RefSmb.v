(* RefSmb.v -- reference codec for the SMB messages property C17 speaks about.
   Written from the protocol documents, NOT from src/proto/smb.rs / Smb.v:
     RFC 1002 section 4.3.1        NetBIOS session message (type 0x00, flags with the
                                   length-extension bit E, 16-bit length: 17 bits in all)
     [MS-CIFS] 2.2.3.1             SMB header (32 bytes)
     [MS-CIFS] 2.2.4.52.1          SMB_COM_NEGOTIATE request (WordCount 0, dialects 02 <sz>)
     [MS-SMB]  2.2.4.5.2.1         extended-security negotiate response (WordCount 17)
     [MS-SMB]  2.2.4.6.1 / .2      extended-security SESSION_SETUP_ANDX request (WordCount 12)
                                   and response (WordCount 4)
     [MS-SMB2] 2.2.1               SMB2 header (64 bytes)
     [MS-SMB2] 2.2.3 / 2.2.4       NEGOTIATE request (StructureSize 36) / response (65)
     [MS-SMB2] 2.2.5 / 2.2.6       SESSION_SETUP request (StructureSize 25) / response (9)
   Structured request records with their encoders and strict readers; strict readers
   for the four responses that resolve every embedded length / offset against the
   bytes actually present.  Shares only Bytes.v with the model.
   Definitions only (extracted; [nat] is used for lengths only). *)
From MS Require Export Bytes.

(* ---- little-endian readers (value, rest); [None] when the input is too short ---- *)
Definition rd_u8 (l : bytes) : option (N * bytes) :=
  match l with a :: t => Some (a, t) | _ => None end.
Definition rd_le16 (l : bytes) : option (N * bytes) :=
  match l with a :: b :: t => Some (a + 256 * b, t) | _ => None end.
Definition rd_le32 (l : bytes) : option (N * bytes) :=
  match l with
  | a :: b :: c :: d :: t => Some (a + 256 * b + 65536 * c + 16777216 * d, t)
  | _ => None
  end.
Definition rd_le64 (l : bytes) : option (N * bytes) :=
  match rd_le32 l with
  | Some (lo, t) =>
    match rd_le32 t with
    | Some (hi, t') => Some (lo + 4294967296 * hi, t')
    | None => None
    end
  | None => None
  end.
Definition rd_take (n : nat) (l : bytes) : option (bytes * bytes) :=
  if (length l <? n)%nat then None else Some (firstn n l, skipn n l).

Notation "'let?' x ':=' e 'in' k" :=
  (match e with Some x => k | None => None end)
  (at level 200, x pattern, e at level 100, k at level 200).

Definition has_bit (x mask : N) : bool := negb (N.land x mask =? 0).

(* ====================================================================== *)
(*      NetBIOS session service, SESSION MESSAGE (RFC 1002 4.3.1)         *)
(* ====================================================================== *)
(* TYPE = 0x00, FLAGS = 0000000E (E = bit 16 of the length), LENGTH (16 bits, big endian) *)
Definition nbt_hdr (len : N) : bytes := [0; (len / 65536) mod 2] ++ be16 len.
Definition ser_nbt (msg : bytes) : bytes := nbt_hdr (lenN msg) ++ msg.

(* (announced length, bytes after the 4-byte header); reserved flag bits must be zero *)
Definition rd_nbt (l : bytes) : option (N * bytes) :=
  match l with
  | t :: f :: a :: b :: rest =>
    if (t =? 0) && (f <? 2) then Some (f * 65536 + a * 256 + b, rest) else None
  | _ => None
  end.
(* a payload that is exactly one session message: LENGTH = number of bytes that follow *)
Definition dec_nbt_exact (l : bytes) : option bytes :=
  let? (n, rest) := rd_nbt l in
  if n =? lenN rest then Some rest else None.

(* ====================================================================== *)
(*                          SMB1 ([MS-CIFS] / [MS-SMB])                   *)
(* ====================================================================== *)
Definition SMB1_PROTOCOL : bytes := [255; 83; 77; 66].          (* 0xFF 'S' 'M' 'B' *)
Definition SMB_COM_NEGOTIATE : N := 114.                         (* 0x72 *)
Definition SMB_COM_SESSION_SETUP_ANDX : N := 115.                (* 0x73 *)
Definition SMB_FLAGS_REPLY : N := 128.                           (* 0x80 *)
Definition CAP_EXTENDED_SECURITY : N := 2147483648.              (* 0x80000000 *)

(* [MS-CIFS] 2.2.3.1: Protocol(4) Command(1) Status(4) Flags(1) Flags2(2) PIDHigh(2)
   SecurityFeatures(8) Reserved(2) TID(2) PIDLow(2) UID(2) MID(2) *)
Record smb1_hdr := {
  sh1_command : N;
  sh1_status : N;
  sh1_flags : N;
  sh1_flags2 : N;
  sh1_pid_high : N;
  sh1_security : bytes;      (* 8 bytes *)
  sh1_reserved : N;
  sh1_tid : N;
  sh1_pid_low : N;
  sh1_uid : N;
  sh1_mid : N
}.

Definition ser_smb1_hdr (h : smb1_hdr) : bytes :=
  SMB1_PROTOCOL ++ [sh1_command h] ++ le32 (sh1_status h) ++ [sh1_flags h] ++
  le16 (sh1_flags2 h) ++ le16 (sh1_pid_high h) ++ sh1_security h ++ le16 (sh1_reserved h) ++
  le16 (sh1_tid h) ++ le16 (sh1_pid_low h) ++ le16 (sh1_uid h) ++ le16 (sh1_mid h).

Definition smb1_hdr_wf (h : smb1_hdr) : bool :=
  (sh1_command h <? 256) && (sh1_status h <? 4294967296) && (sh1_flags h <? 256) &&
  (sh1_flags2 h <? 65536) && (sh1_pid_high h <? 65536) &&
  (length (sh1_security h) =? 8)%nat && bytes_ok (sh1_security h) &&
  (sh1_reserved h <? 65536) && (sh1_tid h <? 65536) && (sh1_pid_low h <? 65536) &&
  (sh1_uid h <? 65536) && (sh1_mid h <? 65536).

Definition rd_smb1_hdr (l : bytes) : option (smb1_hdr * bytes) :=
  let? (magic, l) := rd_take 4 l in
  if negb (bytes_eqb magic SMB1_PROTOCOL) then None else
  let? (cmd, l) := rd_u8 l in
  let? (status, l) := rd_le32 l in
  let? (flags, l) := rd_u8 l in
  let? (flags2, l) := rd_le16 l in
  let? (pid_high, l) := rd_le16 l in
  let? (sec, l) := rd_take 8 l in
  let? (reserved, l) := rd_le16 l in
  let? (tid, l) := rd_le16 l in
  let? (pid_low, l) := rd_le16 l in
  let? (uid, l) := rd_le16 l in
  let? (mid, l) := rd_le16 l in
  Some ({| sh1_command := cmd; sh1_status := status; sh1_flags := flags; sh1_flags2 := flags2;
           sh1_pid_high := pid_high; sh1_security := sec; sh1_reserved := reserved; sh1_tid := tid;
           sh1_pid_low := pid_low; sh1_uid := uid; sh1_mid := mid |}, l).

(* ---- SMB_COM_NEGOTIATE request ([MS-CIFS] 2.2.4.52.1): WordCount 0, ByteCount,
   Dialects[]: BufferFormat 0x02 + null-terminated name ---- *)
Definition ser_dialect (d : bytes) : bytes := [2] ++ d ++ [0].
Definition ser_dialects (ds : list bytes) : bytes := concat (map ser_dialect ds).

Definition ser_neg1_req (ds : list bytes) : bytes :=
  [0] ++ le16 (lenN (ser_dialects ds)) ++ ser_dialects ds.

Definition no_nul (d : bytes) : bool := forallb (fun b => negb (b =? 0)) d.
Definition neg1_req_wf (ds : list bytes) : bool :=
  forallb (fun d => no_nul d && bytes_ok d) ds && (lenN (ser_dialects ds) <? 65536).

(* the data block cut at every NUL (n NULs give n+1 pieces; [cur] is reversed) *)
Fixpoint split_nul (l cur : bytes) : list bytes :=
  match l with
  | [] => [rev cur]
  | x :: t => if x =? 0 then rev cur :: split_nul t [] else split_nul t (x :: cur)
  end.
Fixpoint strip_format (pieces : list bytes) : option (list bytes) :=
  match pieces with
  | [] => Some []
  | (f :: name) :: t =>
    if f =? 2 then match strip_format t with Some r => Some (name :: r) | None => None end
    else None
  | [] :: _ => None
  end.
(* every dialect is 02 name 00 and the last one ends the block *)
Definition dialects_of (data : bytes) : option (list bytes) :=
  match rev (split_nul data []) with
  | [] :: r => strip_format (rev r)
  | _ => None
  end.

Definition rd_neg1_req (l : bytes) : option (list bytes * bytes) :=
  let? (wc, l) := rd_u8 l in
  if negb (wc =? 0) then None else
  let? (bc, l) := rd_le16 l in
  let? (data, rest) := rd_take (N.to_nat bc) l in
  let? ds := dialects_of data in
  Some (ds, rest).

(* ---- SMB_COM_SESSION_SETUP_ANDX request, extended security ([MS-SMB] 2.2.4.6.1):
   WordCount 12: AndXCommand(1) AndXReserved(1) AndXOffset(2) MaxBufferSize(2) MaxMpxCount(2)
   VcNumber(2) SessionKey(4) SecurityBlobLength(2) Reserved(4) Capabilities(4);
   ByteCount(2); SecurityBlob, then (pad) NativeOS NativeLanMan.
   SecurityBlobLength and ByteCount are derived from the data ---- *)
Record setup1_req := {
  sq1_andx_command : N;
  sq1_andx_reserved : N;
  sq1_andx_offset : N;
  sq1_max_buffer : N;
  sq1_max_mpx : N;
  sq1_vc_number : N;
  sq1_session_key : N;
  sq1_reserved : N;
  sq1_capabilities : N;
  sq1_blob : bytes;
  sq1_strings : bytes        (* the bytes of the data block after the blob *)
}.

Definition ser_setup1_req (q : setup1_req) : bytes :=
  [12; sq1_andx_command q; sq1_andx_reserved q] ++ le16 (sq1_andx_offset q) ++
  le16 (sq1_max_buffer q) ++ le16 (sq1_max_mpx q) ++ le16 (sq1_vc_number q) ++
  le32 (sq1_session_key q) ++ le16 (lenN (sq1_blob q)) ++ le32 (sq1_reserved q) ++
  le32 (sq1_capabilities q) ++ le16 (lenN (sq1_blob q) + lenN (sq1_strings q)) ++
  sq1_blob q ++ sq1_strings q.

Definition setup1_req_wf (q : setup1_req) : bool :=
  (sq1_andx_command q <? 256) && (sq1_andx_reserved q <? 256) && (sq1_andx_offset q <? 65536) &&
  (sq1_max_buffer q <? 65536) && (sq1_max_mpx q <? 65536) && (sq1_vc_number q <? 65536) &&
  (sq1_session_key q <? 4294967296) && (sq1_reserved q <? 4294967296) &&
  (sq1_capabilities q <? 4294967296) &&
  bytes_ok (sq1_blob q) && bytes_ok (sq1_strings q) &&
  (lenN (sq1_blob q) + lenN (sq1_strings q) <? 65536).

Definition rd_setup1_req (l : bytes) : option (setup1_req * bytes) :=
  let? (wc, l) := rd_u8 l in
  if negb (wc =? 12) then None else
  let? (ac, l) := rd_u8 l in
  let? (ar, l) := rd_u8 l in
  let? (ao, l) := rd_le16 l in
  let? (mb, l) := rd_le16 l in
  let? (mm, l) := rd_le16 l in
  let? (vc, l) := rd_le16 l in
  let? (sk, l) := rd_le32 l in
  let? (sbl, l) := rd_le16 l in
  let? (rs, l) := rd_le32 l in
  let? (cp, l) := rd_le32 l in
  let? (bc, l) := rd_le16 l in
  if bc <? sbl then None else
  let? (data, rest) := rd_take (N.to_nat bc) l in
  Some ({| sq1_andx_command := ac; sq1_andx_reserved := ar; sq1_andx_offset := ao;
           sq1_max_buffer := mb; sq1_max_mpx := mm; sq1_vc_number := vc; sq1_session_key := sk;
           sq1_reserved := rs; sq1_capabilities := cp;
           sq1_blob := firstn (N.to_nat sbl) data; sq1_strings := skipn (N.to_nat sbl) data |}, rest).

(* ---- negotiate response, extended security ([MS-SMB] 2.2.4.5.2.1): WordCount 17:
   DialectIndex(2) SecurityMode(1) MaxMpxCount(2) MaxNumberVcs(2) MaxBufferSize(4) MaxRawSize(4)
   SessionKey(4) Capabilities(4) SystemTime(8) ServerTimeZone(2) ChallengeLength(1);
   ByteCount(2); ServerGUID(16) SecurityBlob.
   The reader takes the whole remainder of the message as the data block and
   reports ByteCount as found: [neg1_resp_consistent] compares them ---- *)
Record neg1_resp := {
  nr1_dialect_index : N;
  nr1_security_mode : N;
  nr1_max_mpx : N;
  nr1_max_vcs : N;
  nr1_max_buffer : N;
  nr1_max_raw : N;
  nr1_session_key : N;
  nr1_capabilities : N;
  nr1_system_time : N;
  nr1_time_zone : N;
  nr1_challenge_length : N;
  nr1_byte_count : N;
  nr1_data : bytes           (* every byte after ByteCount *)
}.
Definition nr1_guid (r : neg1_resp) : bytes := firstn 16 (nr1_data r).
Definition nr1_blob (r : neg1_resp) : bytes := skipn 16 (nr1_data r).

Definition rd_neg1_resp (l : bytes) : option neg1_resp :=
  let? (wc, l) := rd_u8 l in
  if negb (wc =? 17) then None else
  let? (di, l) := rd_le16 l in
  let? (sm, l) := rd_u8 l in
  let? (mm, l) := rd_le16 l in
  let? (mv, l) := rd_le16 l in
  let? (mb, l) := rd_le32 l in
  let? (mr, l) := rd_le32 l in
  let? (sk, l) := rd_le32 l in
  let? (cp, l) := rd_le32 l in
  let? (tm, l) := rd_le64 l in
  let? (tz, l) := rd_le16 l in
  let? (cl, l) := rd_u8 l in
  let? (bc, l) := rd_le16 l in
  Some {| nr1_dialect_index := di; nr1_security_mode := sm; nr1_max_mpx := mm; nr1_max_vcs := mv;
          nr1_max_buffer := mb; nr1_max_raw := mr; nr1_session_key := sk; nr1_capabilities := cp;
          nr1_system_time := tm; nr1_time_zone := tz; nr1_challenge_length := cl;
          nr1_byte_count := bc; nr1_data := l |}.

(* extended security announced, no challenge, ByteCount = bytes present = 16 (GUID) + |blob| *)
Definition neg1_resp_consistent (r : neg1_resp) : bool :=
  has_bit (nr1_capabilities r) CAP_EXTENDED_SECURITY &&
  (nr1_challenge_length r =? 0) &&
  (nr1_byte_count r =? lenN (nr1_data r)) &&
  (16 <=? lenN (nr1_data r)) &&
  (nr1_byte_count r =? 16 + lenN (nr1_blob r)).

(* ---- session setup response, extended security ([MS-SMB] 2.2.4.6.2): WordCount 4:
   AndXCommand(1) AndXReserved(1) AndXOffset(2) Action(2) SecurityBlobLength(2); ByteCount(2);
   SecurityBlob, then (pad) NativeOS NativeLanMan ---- *)
Record setup1_resp := {
  sr1_andx_command : N;
  sr1_andx_reserved : N;
  sr1_andx_offset : N;
  sr1_action : N;
  sr1_blob_length : N;
  sr1_byte_count : N;
  sr1_data : bytes           (* every byte after ByteCount *)
}.
Definition sr1_blob (r : setup1_resp) : bytes := firstn (N.to_nat (sr1_blob_length r)) (sr1_data r).
Definition sr1_strings (r : setup1_resp) : bytes := skipn (N.to_nat (sr1_blob_length r)) (sr1_data r).

Definition rd_setup1_resp (l : bytes) : option setup1_resp :=
  let? (wc, l) := rd_u8 l in
  if negb (wc =? 4) then None else
  let? (ac, l) := rd_u8 l in
  let? (ar, l) := rd_u8 l in
  let? (ao, l) := rd_le16 l in
  let? (act, l) := rd_le16 l in
  let? (sbl, l) := rd_le16 l in
  let? (bc, l) := rd_le16 l in
  Some {| sr1_andx_command := ac; sr1_andx_reserved := ar; sr1_andx_offset := ao; sr1_action := act;
          sr1_blob_length := sbl; sr1_byte_count := bc; sr1_data := l |}.

(* ByteCount = bytes present; the blob lies inside the data block; no chained
   response (AndXCommand 0xFF: AndXOffset is then ignored, [MS-CIFS] 2.2.4.53.2) *)
Definition setup1_resp_consistent (r : setup1_resp) : bool :=
  (sr1_andx_command r =? 255) &&
  (sr1_byte_count r =? lenN (sr1_data r)) &&
  (sr1_blob_length r <=? lenN (sr1_data r)) &&
  (sr1_blob_length r =? lenN (sr1_blob r)) &&
  (sr1_byte_count r =? lenN (sr1_blob r) + lenN (sr1_strings r)).

(* ====================================================================== *)
(*                             SMB2 ([MS-SMB2])                           *)
(* ====================================================================== *)
Definition SMB2_PROTOCOL : bytes := [254; 83; 77; 66].          (* 0xFE 'S' 'M' 'B' *)
Definition SMB2_NEGOTIATE : N := 0.
Definition SMB2_SESSION_SETUP : N := 1.
Definition SMB2_FLAGS_SERVER_TO_REDIR : N := 1.

(* [MS-SMB2] 2.2.1: ProtocolId(4) StructureSize(2)=64 CreditCharge(2) Status(4) Command(2)
   Credit(2) Flags(4) NextCommand(4) MessageId(8) AsyncId(8) [sync form: Reserved(4) TreeId(4)]
   SessionId(8) Signature(16).  The 8 bytes after MessageId are kept as one 64-bit
   little-endian number, named AsyncId as in the property text. *)
Record smb2_hdr := {
  sh2_credit_charge : N;
  sh2_status : N;
  sh2_command : N;
  sh2_credits : N;
  sh2_flags : N;
  sh2_next_command : N;
  sh2_message_id : N;
  sh2_async_id : N;
  sh2_session_id : N;
  sh2_signature : bytes      (* 16 bytes *)
}.

Definition ser_smb2_hdr (h : smb2_hdr) : bytes :=
  SMB2_PROTOCOL ++ le16 64 ++ le16 (sh2_credit_charge h) ++ le32 (sh2_status h) ++
  le16 (sh2_command h) ++ le16 (sh2_credits h) ++ le32 (sh2_flags h) ++ le32 (sh2_next_command h) ++
  le64 (sh2_message_id h) ++ le64 (sh2_async_id h) ++ le64 (sh2_session_id h) ++ sh2_signature h.

Definition W64' : N := 18446744073709551616.
Definition smb2_hdr_wf (h : smb2_hdr) : bool :=
  (sh2_credit_charge h <? 65536) && (sh2_status h <? 4294967296) && (sh2_command h <? 65536) &&
  (sh2_credits h <? 65536) && (sh2_flags h <? 4294967296) && (sh2_next_command h <? 4294967296) &&
  (sh2_message_id h <? W64') && (sh2_async_id h <? W64') && (sh2_session_id h <? W64') &&
  (length (sh2_signature h) =? 16)%nat && bytes_ok (sh2_signature h).

Definition rd_smb2_hdr (l : bytes) : option (smb2_hdr * bytes) :=
  let? (magic, l) := rd_take 4 l in
  if negb (bytes_eqb magic SMB2_PROTOCOL) then None else
  let? (ss, l) := rd_le16 l in
  if negb (ss =? 64) then None else
  let? (cc, l) := rd_le16 l in
  let? (st, l) := rd_le32 l in
  let? (cmd, l) := rd_le16 l in
  let? (cr, l) := rd_le16 l in
  let? (fl, l) := rd_le32 l in
  let? (nc, l) := rd_le32 l in
  let? (mid, l) := rd_le64 l in
  let? (aid, l) := rd_le64 l in
  let? (sid, l) := rd_le64 l in
  let? (sg, l) := rd_take 16 l in
  Some ({| sh2_credit_charge := cc; sh2_status := st; sh2_command := cmd; sh2_credits := cr;
           sh2_flags := fl; sh2_next_command := nc; sh2_message_id := mid; sh2_async_id := aid;
           sh2_session_id := sid; sh2_signature := sg |}, l).

(* ---- NEGOTIATE request ([MS-SMB2] 2.2.3): StructureSize(2)=36 DialectCount(2)
   SecurityMode(2) Reserved(2) Capabilities(4) ClientGuid(16)
   ClientStartTime(8) [3.1.1: NegotiateContextOffset(4) NegotiateContextCount(2) Reserved2(2)]
   Dialects[DialectCount] (2 bytes each); padding and negotiate contexts may follow.
   DialectCount is derived from the list ---- *)
Record neg2_req := {
  nq2_security_mode : N;
  nq2_reserved : N;
  nq2_capabilities : N;
  nq2_client_guid : bytes;   (* 16 bytes *)
  nq2_start_time : N;        (* the 8 bytes ClientStartTime / context offset+count *)
  nq2_dialects : list N
}.

Definition ser_dialects2 (ds : list N) : bytes := concat (map le16 ds).

Definition ser_neg2_req (q : neg2_req) : bytes :=
  le16 36 ++ le16 (N.of_nat (length (nq2_dialects q))) ++ le16 (nq2_security_mode q) ++
  le16 (nq2_reserved q) ++ le32 (nq2_capabilities q) ++ nq2_client_guid q ++
  le64 (nq2_start_time q) ++ ser_dialects2 (nq2_dialects q).

(* DialectCount >= 1: [MS-SMB2] 3.3.5.4 (a request with DialectCount 0 is invalid) *)
Definition neg2_req_wf (q : neg2_req) : bool :=
  (nq2_security_mode q <? 65536) && (nq2_reserved q <? 65536) && (nq2_capabilities q <? 4294967296) &&
  (length (nq2_client_guid q) =? 16)%nat && bytes_ok (nq2_client_guid q) &&
  (nq2_start_time q <? W64') &&
  forallb (fun d => d <? 65536) (nq2_dialects q) &&
  (1 <=? N.of_nat (length (nq2_dialects q))) && (N.of_nat (length (nq2_dialects q)) <? 65536).

Fixpoint rd_dialects2 (n : nat) (l : bytes) : option (list N * bytes) :=
  match n with
  | O => Some ([], l)
  | S k =>
    let? (d, l) := rd_le16 l in
    let? (ds, l) := rd_dialects2 k l in
    Some (d :: ds, l)
  end.

Definition rd_neg2_req (l : bytes) : option (neg2_req * bytes) :=
  let? (ss, l) := rd_le16 l in
  if negb (ss =? 36) then None else
  let? (dc, l) := rd_le16 l in
  if dc =? 0 then None else
  let? (sm, l) := rd_le16 l in
  let? (rs, l) := rd_le16 l in
  let? (cp, l) := rd_le32 l in
  let? (guid, l) := rd_take 16 l in
  let? (tm, l) := rd_le64 l in
  let? (ds, l) := rd_dialects2 (N.to_nat dc) l in
  Some ({| nq2_security_mode := sm; nq2_reserved := rs; nq2_capabilities := cp;
           nq2_client_guid := guid; nq2_start_time := tm; nq2_dialects := ds |}, l).

(* ---- SESSION_SETUP request ([MS-SMB2] 2.2.5): StructureSize(2)=25 Flags(1) SecurityMode(1)
   Capabilities(4) Channel(4) SecurityBufferOffset(2) SecurityBufferLength(2)
   PreviousSessionId(8) Buffer.  The offset is counted from the start of the SMB2
   header: 64 + 24 = 88 when the buffer follows at once; [sq2_pad] are filler bytes
   in front of the buffer.  Offset and length are derived ---- *)
Record setup2_req := {
  sq2_flags : N;
  sq2_security_mode : N;
  sq2_capabilities : N;
  sq2_channel : N;
  sq2_previous_session : N;
  sq2_pad : bytes;
  sq2_blob : bytes
}.

Definition ser_setup2_req (q : setup2_req) : bytes :=
  le16 25 ++ [sq2_flags q; sq2_security_mode q] ++ le32 (sq2_capabilities q) ++ le32 (sq2_channel q) ++
  le16 (88 + lenN (sq2_pad q)) ++ le16 (lenN (sq2_blob q)) ++ le64 (sq2_previous_session q) ++
  sq2_pad q ++ sq2_blob q.

Definition setup2_req_wf (q : setup2_req) : bool :=
  (sq2_flags q <? 256) && (sq2_security_mode q <? 256) && (sq2_capabilities q <? 4294967296) &&
  (sq2_channel q <? 4294967296) && (sq2_previous_session q <? W64') &&
  bytes_ok (sq2_pad q) && bytes_ok (sq2_blob q) &&
  (88 + lenN (sq2_pad q) <? 65536) && (lenN (sq2_blob q) <? 65536).

Definition rd_setup2_req (l : bytes) : option (setup2_req * bytes) :=
  let? (ss, l) := rd_le16 l in
  if negb (ss =? 25) then None else
  let? (fl, l) := rd_u8 l in
  let? (sm, l) := rd_u8 l in
  let? (cp, l) := rd_le32 l in
  let? (ch, l) := rd_le32 l in
  let? (off, l) := rd_le16 l in
  let? (len, l) := rd_le16 l in
  let? (ps, l) := rd_le64 l in
  if off <? 88 then None else
  let? (pad, l) := rd_take (N.to_nat (off - 88)) l in
  let? (blob, l) := rd_take (N.to_nat len) l in
  Some ({| sq2_flags := fl; sq2_security_mode := sm; sq2_capabilities := cp; sq2_channel := ch;
           sq2_previous_session := ps; sq2_pad := pad; sq2_blob := blob |}, l).

(* ---- NEGOTIATE response ([MS-SMB2] 2.2.4): StructureSize(2)=65 SecurityMode(2)
   DialectRevision(2) NegotiateContextCount/Reserved(2) ServerGuid(16) Capabilities(4)
   MaxTransactSize(4) MaxReadSize(4) MaxWriteSize(4) SystemTime(8) ServerStartTime(8)
   SecurityBufferOffset(2) SecurityBufferLength(2) NegotiateContextOffset/Reserved2(4) Buffer.
   [rd_neg2_resp] is given the bytes after the SMB2 header; offsets count from the
   start of the header, i.e. 64 bytes earlier.  [nr2_tail] = every byte after the
   fixed 64-byte part ---- *)
Record neg2_resp := {
  nr2_security_mode : N;
  nr2_dialect : N;
  nr2_context_count : N;
  nr2_server_guid : bytes;
  nr2_capabilities : N;
  nr2_max_transact : N;
  nr2_max_read : N;
  nr2_max_write : N;
  nr2_system_time : N;
  nr2_start_time : N;
  nr2_buffer_offset : N;
  nr2_buffer_length : N;
  nr2_context_offset : N;
  nr2_tail : bytes
}.

Definition rd_neg2_resp (l : bytes) : option neg2_resp :=
  let? (ss, l) := rd_le16 l in
  if negb (ss =? 65) then None else
  let? (sm, l) := rd_le16 l in
  let? (dr, l) := rd_le16 l in
  let? (ncc, l) := rd_le16 l in
  let? (guid, l) := rd_take 16 l in
  let? (cp, l) := rd_le32 l in
  let? (mt, l) := rd_le32 l in
  let? (mr, l) := rd_le32 l in
  let? (mw, l) := rd_le32 l in
  let? (tm, l) := rd_le64 l in
  let? (st, l) := rd_le64 l in
  let? (off, l) := rd_le16 l in
  let? (len, l) := rd_le16 l in
  let? (nco, l) := rd_le32 l in
  Some {| nr2_security_mode := sm; nr2_dialect := dr; nr2_context_count := ncc; nr2_server_guid := guid;
          nr2_capabilities := cp; nr2_max_transact := mt; nr2_max_read := mr; nr2_max_write := mw;
          nr2_system_time := tm; nr2_start_time := st; nr2_buffer_offset := off;
          nr2_buffer_length := len; nr2_context_offset := nco; nr2_tail := l |}.

(* the buffer designated by (offset, length): offset 128 = 64 (header) + 64 (fixed part)
   is the first byte of [nr2_tail] *)
Definition nr2_blob (r : neg2_resp) : bytes :=
  firstn (N.to_nat (nr2_buffer_length r)) (skipn (N.to_nat (nr2_buffer_offset r - 128)) (nr2_tail r)).

(* the buffer starts at or after the end of the fixed part and ends exactly where the
   message ends (no negotiate context list follows) *)
Definition neg2_resp_consistent (r : neg2_resp) : bool :=
  (128 <=? nr2_buffer_offset r) &&
  (nr2_buffer_offset r - 128 + nr2_buffer_length r =? lenN (nr2_tail r)) &&
  (nr2_buffer_length r =? lenN (nr2_blob r)).

(* ---- SESSION_SETUP response ([MS-SMB2] 2.2.6): StructureSize(2)=9 SessionFlags(2)
   SecurityBufferOffset(2) SecurityBufferLength(2) Buffer; offset 72 = 64 + 8 ---- *)
Record setup2_resp := {
  sr2_session_flags : N;
  sr2_buffer_offset : N;
  sr2_buffer_length : N;
  sr2_tail : bytes
}.

Definition rd_setup2_resp (l : bytes) : option setup2_resp :=
  let? (ss, l) := rd_le16 l in
  if negb (ss =? 9) then None else
  let? (sf, l) := rd_le16 l in
  let? (off, l) := rd_le16 l in
  let? (len, l) := rd_le16 l in
  Some {| sr2_session_flags := sf; sr2_buffer_offset := off; sr2_buffer_length := len; sr2_tail := l |}.

Definition sr2_blob (r : setup2_resp) : bytes :=
  firstn (N.to_nat (sr2_buffer_length r)) (skipn (N.to_nat (sr2_buffer_offset r - 72)) (sr2_tail r)).

Definition setup2_resp_consistent (r : setup2_resp) : bool :=
  (72 <=? sr2_buffer_offset r) &&
  (sr2_buffer_offset r - 72 + sr2_buffer_length r =? lenN (sr2_tail r)) &&
  (sr2_buffer_length r =? lenN (sr2_blob r)).
