(* Checksum.v -- the Internet checksum as computed by pnet_packet::util
   (sum of big-endian 16-bit words, odd tail byte shifted left, folded). *)
From MS Require Export Bytes.

Fixpoint sum_words (l : bytes) : N :=
  match l with
  | [] => 0
  | [b] => b * 256
  | a :: b :: t => a * 256 + b + sum_words t
  end.

(* pnet: while sum >> 16 != 0 { sum = (sum >> 16) + (sum & 0xFFFF) }.
   For sums below 2^32 two rounds always suffice; the third is the identity and
   is kept so that the closed form needs no bound for sums below 2^48. *)
Definition fold1 (s : N) : N := s / 65536 + s mod 65536.
Definition fold16 (s : N) : N := fold1 (fold1 (fold1 s)).
Definition finalize (s : N) : N := 65535 - fold16 s.

(* util::checksum returns 0 on empty input *)
Definition checksum (l : bytes) : N :=
  match l with [] => 0 | _ => finalize (sum_words l) end.

(* pseudo headers: sum of the address words + protocol + upper-layer length *)
Definition pseudo_sum (src dst : bytes) (proto : N) (len : N) : N :=
  sum_words src + sum_words dst + proto + len.

Definition checksum_pseudo (src dst : bytes) (proto : N) (l : bytes) : N :=
  finalize (pseudo_sum src dst proto (lenN l) + sum_words l).

(* reference verifier used in specifications: the sum including the
   transmitted checksum field must fold to 0xFFFF *)
Definition verify_sum (s : N) : bool := fold16 s =? 65535.
