(* Proofs/C07.v *)
From MS Require Import Proofs.Tactics Proofs.DecLemmas Proofs.Pipeline Proofs.ViewLemmas Proofs.C06
     Proofs.TcpState Proofs.C09
     L2 Spec.View Spec.RefDec Spec.TcpRef Spec.C07 Spec.C09 Spec.History Spec.EnvOk.

Lemma env_ok_parts E : env_ok E = true ->
  e_http_pre E <> [] /\ e_ssh_banner E <> [] /\ e_ghost E <> [].
Proof.
  unfold env_ok, nonempty. intros H. repeat (apply andb_true_iff in H; destruct H as [H ?]).
  repeat split; intros C; rewrite C in *; discriminate.
Qed.

Lemma app_nonempty_l (a b : bytes) : a <> [] -> a ++ b <> [].
Proof. destruct a; [congruence|discriminate]. Qed.

Lemma stun_repl_nonempty ci data ci' d : stun_repl ci data = (ci', Some d) -> d <> [].
Proof.
  unfold stun_repl.
  repeat match goal with
         | |- context [if ?c then _ else _] => destruct c
         | |- context [match ?x with _ => _ end] => destruct x
         end; intros H; inversion H; subst; unfold stun_response; cbn [app]; discriminate.
Qed.

(* an application reply over TCP is never the empty string *)
Lemma nbt_run_nonempty T tn tb tr data d :
  nbt_run T tn tb tr data = Ok (Some d) -> d <> [].
Proof.
  unfold nbt_run. destruct (fold_res _ _ _) as [st|s]; cbn [bind]; [|discriminate].
  unfold nbt_repl. destruct (nb_pay _ st); [|discriminate].
  destruct (tr _); [|discriminate].
  destruct (256 <=? _); [discriminate|].
  intros H; inversion H; subst. discriminate.
Qed.

Lemma dispatch_nonempty E clk ci id t data ci' t' d :
  env_ok E = true ->
  dispatch E clk ci id t data = Ok (ci', t', Some d) -> d <> [].
Proof.
  intros HE. destruct (env_ok_parts E HE) as (Hh & Hs & Hg).
  unfold dispatch.
  destruct (id =? PROTO_HTTP).
  { unfold http_repl, http_response.
    destruct t as [tc|].
    - destruct (t_pstate tc) as [[h|r]|]; try discriminate;
        (destruct (http_parse _ _ _) as [h'|s]; cbn [bind]; [|discriminate];
         destruct (h_state h' =? HTTP_CONTENT); cbn; intros H; inversion H; subst;
         apply app_nonempty_l; exact Hh).
    - destruct (http_parse _ _ _) as [h'|s]; cbn [bind]; [|discriminate].
      destruct (h_state h' =? HTTP_CONTENT); cbn; intros H; inversion H; subst.
      apply app_nonempty_l; exact Hh. }
  destruct (id =? PROTO_STUN).
  { destruct (stun_repl ci data) as [ci2 o] eqn:Hst. intros H; inversion H; subst.
    eapply stun_repl_nonempty; eassumption. }
  destruct (id =? PROTO_SSH).
  { unfold ssh_repl. destruct (_ =? _); intros H; inversion H; subst. exact Hs. }
  destruct (id =? PROTO_GHOST).
  { unfold ghost_repl. intros H; inversion H; subst. exact Hg. }
  destruct (id =? PROTO_RPC_TCP).
  { destruct (ci_ip_dst ci); [|intros H; inversion H].
    destruct (ci_port_dst ci); [|intros H; inversion H].
    unfold rpc_repl_tcp.
    destruct t as [tc|].
    - destruct (t_pstate tc) as [[h|r]|]; try discriminate;
        (destruct (r_state _ =? R_END); [destruct (r_mtype _ =? 0)|]; intros H; inversion H; subst; discriminate).
    - destruct (r_state _ =? R_END); [destruct (r_mtype _ =? 0)|]; cbn; intros H; inversion H; subst; discriminate. }
  destruct (id =? PROTO_RPC_UDP).
  { destruct (ci_ip_dst ci); [|intros H; inversion H].
    destruct (ci_port_dst ci); [|intros H; inversion H].
    unfold rpc_repl_udp. destruct ((r_state _ =? R_END) && _); intros H; inversion H; subst.
    unfold rpc_build, be32. discriminate. }
  destruct (id =? PROTO_SMB1).
  { destruct (smb1_repl _ _ _ _) as [o|s] eqn:Hs1; cbn [bind]; [|discriminate].
    intros H; inversion H; subst. unfold smb1_repl in Hs1. eapply nbt_run_nonempty; eassumption. }
  destruct (id =? PROTO_SMB2).
  { destruct (smb2_repl _ _ _ _) as [o|s] eqn:Hs2; cbn [bind]; [|discriminate].
    intros H; inversion H; subst. unfold smb2_repl in Hs2. eapply nbt_run_nonempty; eassumption. }
  intros H; inversion H.
Qed.

Lemma proto_repl_tcp_nonempty E clk ci tc data ci' tc' d :
  env_ok E = true ->
  proto_repl_tcp E clk ci tc data = Ok (ci', tc', Some d) -> d <> [].
Proof.
  intros HE. unfold proto_repl_tcp.
  destruct (tcp_identify E tc data) as [tc1 data1].
  destruct (dispatch E clk ci (t_proto tc1) (Some tc1) data1) as [[[c2 t2] o]|s] eqn:Hd; cbn [bind]; [|discriminate].
  intros H. inversion H; subst. eapply dispatch_nonempty; eassumption.
Qed.

Lemma tcp_repl_finack E cfg clk tb f v :
  tcp_class (tcp_flags (v_l4 v)) = TFinAck ->
  exists ci' evs seg,
  tcp_repl E cfg clk tb (l3_ci f v) (v_l4 v) = Ok (tb, ci', Some seg, evs) /\
  seg = tcp_header (u16_at 2 (v_l4 v)) (u16_at 0 (v_l4 v)) (u32_at 8 (v_l4 v))
                   (wrap32 (u32_at 4 (v_l4 v) + 1)) (FIN + ACK) ++ [].
Proof.
  intros Hc. unfold tcp_repl. rewrite Hc. unfold l3_ci. cbn. eexists _, _, _. split; reflexivity.
Qed.

Lemma tcp_repl_dropped E cfg clk tb ci p :
  (tcp_class (tcp_flags p) = TDropAck \/ tcp_class (tcp_flags p) = TDropRst) ->
  exists ci' evs, tcp_repl E cfg clk tb ci p = Ok (tb, ci', None, evs).
Proof.
  intros [Hc|Hc]; unfold tcp_repl; rewrite Hc; eexists _, _; reflexivity.
Qed.

Theorem state_level E cfg clk tb f tb' r evs v :
  cfg_ok cfg = true -> env_ok E = true -> bytes_ok f = true ->
  view_tcp cfg f = Some v ->
  reply E cfg clk tb f = Ok (tb', r, evs) ->
  ok_C07_with (tbl_mem (flow_cookie cfg (flow_of v)) tb || presents_cookie cfg v) cfg f r = true.
Proof.
  intros Hcfg HE Hf Hvt Hr. unfold ok_C07_with. rewrite Hvt.
  destruct (view_tcp_view _ _ _ Hvt) as [Hv Hp].
  pose proof (view_l4_ok _ _ _ Hf Hv) as Hok.
  pose proof (reply_tcp E cfg clk tb f v Hvt) as Hfac. rewrite Hr in Hfac. cbn [strip] in Hfac.
  pose proof (tcp_flags_lt _ Hok) as Hfl.
  pose proof (data_row _ Hfl) as Hrow. unfold data_row_ok in Hrow.
  apply andb_true_iff in Hrow; destruct Hrow as [Hrow R4].
  apply andb_true_iff in Hrow; destruct Hrow as [Hrow R3].
  apply andb_true_iff in Hrow; destruct Hrow as [R1 R2].
  apply eqb_prop in R1.
  destruct (is_data (tcp_flags (v_l4 v))) eqn:Hd.
  - (* data segment *)
    assert (tcp_class (tcp_flags (v_l4 v)) = TData) as Hc
        by (destruct (tcp_class (tcp_flags (v_l4 v))); congruence).
    destruct (tcp_repl E cfg clk tb (l3_ci f v) (v_l4 v)) as [[[[tb2 ci2] out] evs2]|s] eqn:Ht;
      [|discriminate].
    pose proof (tcp_repl_data _ _ _ _ _ _ _ _ _ _ Hok Hc Ht) as X. cbv zeta in X.
    destruct (tbl_mem (flow_cookie cfg (flow_of v)) tb || presents_cookie cfg v) eqn:Hacc.
    + assert (negb (tbl_mem (flow_cookie cfg (flow_of v)) tb) && negb (presents_cookie cfg v) = false) as Y.
      { destruct (tbl_mem _ tb); destruct (presents_cookie cfg v); cbn in *; congruence. }
      rewrite Y in X. destruct X as (tc' & sp & dp & fl' & pl & -> & -> & Hcase).
      apply ok_pair_inj in Hfac. destruct Hfac as [-> ->].
      assert (fl' < 512) as Hfl' by (unfold ACK, PSH in Hcase; destruct Hcase as [[-> _]|[-> _]]; lia).
      destruct (dec_wrap_tcp cfg f v 64 sp dp (u32_at 8 (v_l4 v))
                  (wrap32 (u32_at 4 (v_l4 v) + lenN (tcp_payload (v_l4 v)))) fl' pl Hcfg Hv Hp Hfl' ltac:(lia))
        as (e & i & Hdec & _).
      cbv beta iota zeta.
      rewrite Hdec. cbn [dt_flags dt_payload dt_seq dt_ack].
      pose proof (u32_at_lt 8 _ Hok) as Hack.
      assert ((u32_at 8 (v_l4 v) mod 4294967296 =? u32_at 8 (v_l4 v)) = true) as -> by
          (rewrite N.mod_small by exact Hack; apply N.eqb_refl).
      assert ((wrap32 (u32_at 4 (v_l4 v) + lenN (tcp_payload (v_l4 v))) mod 4294967296 =?
               wrap32 (u32_at 4 (v_l4 v) + lenN (tcp_payload (v_l4 v)))) = true) as ->
          by (unfold wrap32; rewrite N.mod_mod by lia; apply N.eqb_refl).
      destruct Hcase as [[-> (ci1 & tc0 & ci3 & Hpr)]|[-> ->]].
      * pose proof (proto_repl_tcp_nonempty _ _ _ _ _ _ _ _ HE Hpr) as Hne.
        destruct pl as [|b pl]; [congruence|]. reflexivity.
      * reflexivity.
    + assert (negb (tbl_mem (flow_cookie cfg (flow_of v)) tb) && negb (presents_cookie cfg v) = true) as Y.
      { destruct (tbl_mem _ tb); destruct (presents_cookie cfg v); cbn in *; congruence. }
      rewrite Y in X. destruct X as [_ ->]. apply ok_pair_inj in Hfac. destruct Hfac as [_ ->]. reflexivity.
  - destruct (tcp_flags (v_l4 v) =? 17) eqn:E17.
    + assert (tcp_class (tcp_flags (v_l4 v)) = TFinAck) as Hc
          by (destruct (tcp_class (tcp_flags (v_l4 v))); congruence).
      destruct (tcp_repl_finack E cfg clk tb f v Hc) as (ci' & evs' & seg & Ht & Hseg).
      rewrite Ht in Hfac. apply ok_pair_inj in Hfac. destruct Hfac as [-> ->]. subst seg.
      assert (FIN + ACK < 512) as Hfa by (unfold FIN, ACK; lia).
      match goal with |- context [tcp_header ?a ?b ?c ?d ?e ++ []] =>
        destruct (dec_wrap_tcp cfg f v 64 a b c d e [] Hcfg Hv Hp Hfa ltac:(lia)) as (e' & i & Hdec & _)
      end.
      cbv beta iota zeta.
      rewrite Hdec. cbn [dt_flags dt_payload dt_seq dt_ack length].
      pose proof (u32_at_lt 8 _ Hok) as Hack.
      unfold FIN, ACK, wrap32.
      repeat (apply andb_true_iff; split); try reflexivity.
      * rewrite N.eqb_eq. rewrite N.mod_mod by lia. reflexivity.
      * rewrite N.eqb_eq. apply N.mod_small. exact Hack.
    + destruct ((tcp_flags (v_l4 v) =? 16) || (tcp_flags (v_l4 v) =? 4)) eqn:E16; [|reflexivity].
      assert (tcp_class (tcp_flags (v_l4 v)) = TDropAck \/ tcp_class (tcp_flags (v_l4 v)) = TDropRst) as Hc
          by (destruct (tcp_class (tcp_flags (v_l4 v))); try discriminate; auto).
      destruct (tcp_repl_dropped E cfg clk tb (l3_ci f v) (v_l4 v) Hc) as (ci' & evs' & Ht).
      rewrite Ht in Hfac. apply ok_pair_inj in Hfac. destruct Hfac as [_ ->]. reflexivity.
Qed.

(* ---------- history level: acceptance decided by the reference state ---------- *)
Definition no_collision (cfg : config) (fls : list flow) : Prop :=
  forall a b, In a fls -> In b fls -> flow_cookie cfg a = flow_cookie cfg b -> a = b.

Lemma flow_eqb_refl a : flow_eqb a a = true.
Proof.
  unfold flow_eqb. rewrite eqb_reflx, !N.eqb_refl.
  assert (forall l, bytes_eqb l l = true) as X by (intros l; apply bytes_eqb_eq; reflexivity).
  rewrite !X. reflexivity.
Qed.

Lemma ref_mem_In fl st : ref_mem fl st = true <-> In fl st.
Proof.
  unfold ref_mem. rewrite existsb_exists. split.
  - intros (x & Hx & He). apply flow_eqb_eq in He. subst. exact Hx.
  - intros H. exists fl. split; [exact H|apply flow_eqb_refl].
Qed.

Theorem history_level E cfg h clk tb f tb' r evs v :
  cfg_ok cfg = true -> env_ok E = true ->
  Forall (fun x => bytes_ok x = true) (frames h) -> bytes_ok f = true ->
  run E cfg [] h = Ok tb ->
  view_tcp cfg f = Some v ->
  no_collision cfg (flow_of v :: ref_run cfg (frames h)) ->
  reply E cfg clk tb f = Ok (tb', r, evs) ->
  ok_C07 cfg (ref_run cfg (frames h)) f r = true.
Proof.
  intros Hcfg HE Hall Hf Hrun Hvt Hnc Hr. unfold ok_C07. rewrite Hvt.
  pose proof (state_level E cfg clk tb f tb' r evs v Hcfg HE Hf Hvt Hr) as S.
  assert (tbl_mem (flow_cookie cfg (flow_of v)) tb = ref_mem (flow_of v) (ref_run cfg (frames h))) as <-;
    [|exact S].
  apply Bool.eq_true_iff_eq. rewrite tbl_mem_In, ref_mem_In.
  rewrite (table_keys E cfg h tb Hall Hrun). unfold ref_keys. rewrite in_map_iff. split.
  - intros (x & Hx & Hin). assert (x = flow_of v) as ->; [|exact Hin].
    apply Hnc; [right; exact Hin|left; reflexivity|exact Hx].
  - intros Hin. exists (flow_of v). split; [reflexivity|exact Hin].
Qed.
