"""C07 -- TCP data is accepted only behind a valid cookie; seq/ack arithmetic is exact."""
import net, gens
from runner import Script, Cfg
from props import c09

ID = "C07"
THEOREMS = ["C07_state_level", "C07_history_level", "ClockIndep.ClockIndep_state_ok", "ClockIndep.ClockIndep_history_ok", "Env.the_env_ok"]
MONITORS = ["C07"]
RULE = ("scripted multi-flow interleavings (SYN / wrong-ack data / right-ack data / more data / FIN / RST / bare ACK) "
        "with seq/ack at wrap boundaries and payload lengths 0..1460, IPv4 and IPv6; every TCP reply is compared with "
        "the model on (presence, flags, seq, ack, payload present) and checked by the reference connection model; "
        "non-trivial = script contains a PSH|ACK segment")
TRUSTED = c09.TRUSTED
ASSUMPTIONS = ["history-level statement assumes no SYN-cookie collision among the flows of the history (C08 known finding)"]


def corpus():
    """Flows whose SYN cookie is exactly 0 or 0xFFFFFFFF (found once by a brute-force search over SipHash,
    re-verified here): the only place where 'ack - 1' / 'ack == cookie + 1' arithmetic can go wrong mod 2^32."""
    import json, os
    path = os.path.join(os.path.dirname(os.path.dirname(os.path.abspath(__file__))), "boundary_cookies.json")
    for w in json.load(open(path)):
        key = (int(w["key"][0], 16), int(w["key"][1], 16))
        s, d, sp, dp, ck = w["src"], w["dst"], w["sport"], w["dport"], w["cookie"]
        assert net.cookie(key, s, d, sp, dp) == ck
        fr = [net.frame_tcp(s, d, sp, dp, 0xFFFFFFF0, 0, 0x02)]
        for ack in (0, 1, 2, 0xFFFFFFFF, 0xFFFFFFFE, (ck + 1) & 0xFFFFFFFF, ck, (ck + 2) & 0xFFFFFFFF):
            # each on a fresh table: a validated flow accepts anything afterwards
            yield Script(Cfg(key=key), fr + [net.frame_tcp(s, d, sp, dp, 0xFFFFFFF0, ack, 0x18, b"GET / HTTP/1.0\r\n\r\n")],
                         "corpus:boundary-cookie %08x ack=%08x" % (ck, ack))


def boundary_script(rng, key, v6):
    s, d = gens.addr_pair(v6)
    fr = []
    for seq, plen in [(0xFFFFFFFF, 1), (0xFFFFFFF0, 32), (0, 0), (0x7FFFFFFF, 1460), (rng.getrandbits(32), rng.randrange(1461))]:
        sport, dport = rng.randrange(65536), rng.randrange(65536)
        ck = net.cookie(key, s, d, sport, dport)
        payload = bytes(rng.randrange(256) for _ in range(plen))
        fr.append(net.frame_tcp(s, d, sport, dport, seq, (ck + 1) & 0xFFFFFFFF, 0x18, payload))
        fr.append(net.frame_tcp(s, d, sport, dport, seq, 0, 0x18, payload))                 # ack = 0 on validated flow
        fr.append(net.frame_tcp(s, d, sport, dport, seq, rng.getrandbits(32), 0x11))        # FIN|ACK
        fr.append(net.frame_tcp(s, d, sport, dport, 0xFFFFFFFF, 0xFFFFFFFF, 0x11))
        fr.append(net.frame_tcp(s, d, sport, dport, seq, 5, 0x10))
        fr.append(net.frame_tcp(s, d, sport, dport, seq, 5, 0x04))
        # unvalidated flow, ack = 0 ("underflow hack") and cookie itself
        sp2 = (sport + 1) & 0xFFFF
        ck2 = net.cookie(key, s, d, sp2, dport)
        fr.append(net.frame_tcp(s, d, sp2, dport, seq, 0, 0x18, b"x"))
        fr.append(net.frame_tcp(s, d, sp2, dport, seq, ck2, 0x18, b"x"))
        fr.append(net.frame_tcp(s, d, sp2, dport, seq, (ck2 + 2) & 0xFFFFFFFF, 0x18, b"x"))
    return fr


def generate(tier, rng):
    n = 12 if tier == "quick" else 120
    for i in range(n):
        key = rng.choice([(0, 0), (1, 2), (rng.getrandbits(64), rng.getrandbits(64))])
        cfg = rng.choice(gens.cfgs(key=key))
        yield Script(cfg, boundary_script(rng, key, i % 2 == 1), "boundaries")
        yield Script(cfg, c09.history(rng, key, 60 if tier == "quick" else 150), "mixed-history")
    key = (7, 11)
    fr, sport = [], 10000
    for v6 in (False, True):
        s, d = gens.addr_pair(v6)
        for fl in range(512):                 # every flag word: on a fresh flow and on a validated one, acknowledging the cookie
            sport += 1
            ck = net.cookie(key, s, d, sport, 443)
            if fl % 2 == 0:
                fr += gens.handshake(key, s, d, sport, 443, [b"x"])
            fr.append(net.frame_tcp(s, d, sport, 443, 50, (ck + 1) & 0xFFFFFFFF, fl, b"" if (fl + (1 if v6 else 0)) % 2 else b"GET / HTTP/1.0\r\n\r\n"))
    yield Script(Cfg(key=key), fr, "all-flag-words")
    fr = []
    for v6 in (False, True):
        s, d = gens.addr_pair(v6)
        for i, f in enumerate((lambda c: c ^ 0x00010001, lambda c: c ^ 0x80008000, lambda c: c ^ 0xffffffff, lambda c: c + 0x10000,
                               lambda c: c - 0x10000, lambda c: c ^ 0x0000ffff, lambda c: c ^ 0xffff0000, lambda c: c ^ 1,
                               lambda c: c ^ 0x80000000, lambda c: int.from_bytes(c.to_bytes(4, "big"), "little"),
                               lambda c: ((c << 16) | (c >> 16)), lambda c: c ^ 0x01010101, lambda c: c ^ 0x12341234)):
            for rep in (1, 2):                # once, and twice in a row on the same flow
                sport += 1
                ck = net.cookie(key, s, d, sport, 443)
                for _ in range(rep):
                    fr.append(net.frame_tcp(s, d, sport, 443, 50, (f(ck) + 1) & 0xFFFFFFFF, 0x18, b"GET / HTTP/1.0\r\n\r\n"))
                fr.append(net.frame_tcp(s, d, sport, 443, 50, (ck + 1) & 0xFFFFFFFF, 0x18, b"GET / HTTP/1.0\r\n\r\n"))
    yield Script(Cfg(key=key), fr, "structured-wrong-acks")
    for key in ((0, 0), (0x0123456789abcdef, 0xfedcba9876543210)):
        for cfg in gens.cfgs(key=key)[:2]:
            yield Script(cfg, gens.control_on_established(rng, key), "control-on-established")


def is_tcp(frame):
    p = net.parse_frame(frame)
    return p is not None and p.proto == 6 and p.l4 is not None and len(p.l4) >= 20


def nontrivial(script):
    return any(is_tcp(f) and (net.parse_frame(f).flags & 0x18) == 0x18 for f in script.frames)


def project(script, i, o):
    if not is_tcp(script.frames[i]):
        return None
    if o.kind != "R":
        return (o.kind,)
    p = net.parse_frame(o.reply)
    if p is None or p.proto != 6:
        return ("R", "not-tcp")
    return ("R", p.flags, p.seq, p.ack, len(p.app) > 0)
