(* FactorEv.v -- the event-carrying version of Proofs/Factor.v: for every
   frame, reply() -- table, emitted frame AND event list -- is given by
   [reply_ev_spec], phrased over the stack's view of the frame. The events of the
   Ethernet and IP layers are explicit here; those of the transport layers come
   from the responders of L4.v. *)
From MS Require Import Proofs.Tactics Proofs.Pipeline Proofs.Factor L2 Spec.View.

Definition verb_of {A} (o : option A) : verb := match o with Some _ => Send | None => Drop end.

Definition ev_eth (f : bytes) (V : verb) (c : cinfo) : event := mk_ev LEth V c [u16_at 12 f].

Definition ip_layer (f : bytes) : layer := if u16_at 12 f =? 2048 then LIpv4 else LIpv6.
Definition ip_proto (f : bytes) : N :=
  if u16_at 12 f =? 2048 then u8_at 9 (skipn 14 f) else u8_at 6 (skipn 14 f).
(* the client record once the IP layer has read the addresses *)
Definition ip_ci (f : bytes) : cinfo :=
  let p := skipn 14 f in
  if u16_at 12 f =? 2048 then ci_set_ip (base_ci f) (V4 (slice 12 4 p)) (V4 (slice 16 4 p))
  else ci_set_ip (base_ci f) (V6 (slice 8 16 p)) (V6 (slice 24 16 p)).
Definition ev_ip (f : bytes) (V : verb) (c : cinfo) : event := mk_ev (ip_layer f) V c [ip_proto f].

(* what happens inside the IP layer once it has accepted the packet: new table,
   final client record, (reply source address, hop limit, sealed transport packet), transport events *)
Definition l4_run (E : env) (cfg : config) (clk : clock) (tb : table) (f : bytes) (v : l4view)
  : res (table * cinfo * option (bytes * N * bytes) * list event) :=
  let ci := l3_ci f v in
  let p := v_l4 v in
  if v_v4 v then
    if v_proto v =? 1 then
      if (length p <? 4)%nat then Ok (tb, ci, None, [])
      else match icmpv4_repl ci p with
           | (Some r, evs) => Ok (tb, ci, Some (v_dst v, 64, seal_icmp4 r), evs)
           | (None, evs) => Ok (tb, ci, None, evs)
           end
    else if v_proto v =? 6 then
      if (length p <? 20)%nat then Ok (tb, ci, None, [])
      else match tcp_repl E cfg clk tb ci p with
           | Ok (tb', ci', Some r, evs) => Ok (tb', ci', Some (v_dst v, 64, seal_tcp v r), evs)
           | Ok (tb', ci', None, evs) => Ok (tb', ci', None, evs)
           | Panic s => Panic s
           end
    else if v_proto v =? 17 then
      if (length p <? 8)%nat then Ok (tb, ci, None, [])
      else match udp_repl E cfg clk ci p with
           | Ok (ci', Some r, evs) =>
             if 65535 <? lenN r then Panic PANIC_UDP_LEN
             else Ok (tb, ci', Some (v_dst v, 64, seal_udp v r), evs)
           | Ok (ci', None, evs) => Ok (tb, ci', None, evs)
           | Panic s => Panic s
           end
    else Ok (tb, ci, None, [])
  else
    if v_proto v =? 58 then
      if (length p <? 4)%nat then Ok (tb, ci, None, [])
      else match icmpv6_repl cfg ci p with
           | (Some r, tgt, evs) =>
             let rsrc := match tgt with Some t => t | None => v_dst v end in
             Ok (tb, ci, Some (rsrc, if u8_at 0 r =? 136 then 255 else 64, seal_icmp6 v rsrc r), evs)
           | (None, _, evs) => Ok (tb, ci, None, evs)
           end
    else if v_proto v =? 6 then
      if (length p <? 20)%nat then Ok (tb, ci, None, [])
      else match tcp_repl E cfg clk tb ci p with
           | Ok (tb', ci', Some r, evs) => Ok (tb', ci', Some (v_dst v, 64, seal_tcp v r), evs)
           | Ok (tb', ci', None, evs) => Ok (tb', ci', None, evs)
           | Panic s => Panic s
           end
    else if v_proto v =? 17 then
      if (length p <? 8)%nat then Ok (tb, ci, None, [])
      else match udp_repl E cfg clk ci p with
           | Ok (ci', Some r, evs) => Ok (tb, ci', Some (v_dst v, 64, seal_udp v r), evs)
           | Ok (ci', None, evs) => Ok (tb, ci', None, evs)
           | Panic s => Panic s
           end
    else Ok (tb, ci, None, []).

Definition wrap_of (cfg : config) (f : bytes) (v : l4view) (o : option (bytes * N * bytes)) : option bytes :=
  match o with
  | Some (rsrc, hlim, l4) => Some (wrap_ip cfg f v rsrc hlim l4)
  | None => None
  end.

(* an IPv4 / IPv6 packet large enough for pnet's packet type *)
Definition ip_sized (f : bytes) : bool :=
  ((u16_at 12 f =? 2048) && negb (length (skipn 14 f) <? 20)%nat) ||
  ((u16_at 12 f =? 34525) && negb (length (skipn 14 f) <? 40)%nat).

Definition reply_ev_spec (E : env) (cfg : config) (clk : clock) (tb : table) (f : bytes)
  : res (table * option bytes * list event) :=
  if (length f <? 14)%nat then Ok (tb, None, [])
  else
    let c2 := base_ci f in
    let eth_only := Ok (tb, None, [ev_eth f Recv c2; ev_eth f Drop c2]) in
    if negb (auth_mac cfg (slice 0 6 f)) then eth_only
    else if u16_at 12 f =? 2054 then
      if (length (skipn 14 f) <? 28)%nat then eth_only
      else
        match arp_repl cfg (skipn 14 f) with
        | (o, evs) =>
          Ok (tb, match o with Some r => Some (eth_frame (slice 6 6 f) (c_mac cfg) 2054 r) | None => None end,
              ev_eth f Recv c2 :: evs ++ [ev_eth f (verb_of o) c2])
        end
    else
      match view cfg f with
      | Some v =>
        match l4_run E cfg clk tb f v with
        | Ok (tb', ci', o, evs4) =>
          Ok (tb', wrap_of cfg f v o,
              ev_eth f Recv c2 :: (ev_ip f Recv (ip_ci f) :: evs4 ++ [ev_ip f (verb_of o) ci']) ++
              [ev_eth f (verb_of o) ci'])
        | Panic s => Panic s
        end
      | None =>
        if ip_sized f
        then Ok (tb, None, [ev_eth f Recv c2; ev_ip f Recv (ip_ci f); ev_ip f Drop (ip_ci f); ev_eth f Drop (ip_ci f)])
        else eth_only
      end.

Theorem reply_ev_factor E cfg clk tb f :
  reply E cfg clk tb f = reply_ev_spec E cfg clk tb f.
Proof.
  unfold reply, reply_ev_spec, eth_repl.
  destruct (length f <? 14)%nat eqn:Hlen; [reflexivity|].
  destruct (auth_mac cfg (slice 0 6 f)) eqn:Hauth; cbn [negb]; [|reflexivity].
  destruct (u16_at 12 f =? 2054) eqn:Ea.
  { destruct (length (skipn 14 f) <? 28)%nat; [reflexivity|].
    destruct (arp_repl cfg (skipn 14 f)) as [[x|] e]; [|reflexivity].
    apply N.eqb_eq in Ea. unfold ev_eth. rewrite Ea. reflexivity. }
  unfold view, ip_sized. rewrite Hlen, Hauth. cbn [negb].
  destruct (u16_at 12 f =? 2048) eqn:E4.
  { assert ((u16_at 12 f =? 34525) = false) as E6
        by (apply N.eqb_eq in E4; rewrite E4; reflexivity).
    rewrite E6.
    destruct (length (skipn 14 f) <? 20)%nat eqn:Hl3; [reflexivity|].
    cbn [negb andb orb].
    unfold ipv4_repl.
    assert (ip_layer f = LIpv4) as HL by (unfold ip_layer; rewrite E4; reflexivity).
    assert (ip_proto f = u8_at 9 (skipn 14 f)) as HP by (unfold ip_proto; rewrite E4; reflexivity).
    assert (ip_ci f = ci_set_ip (base_ci f) (V4 (slice 12 4 (skipn 14 f))) (V4 (slice 16 4 (skipn 14 f)))) as HC
        by (unfold ip_ci; rewrite E4; reflexivity).
    unfold ev_ip. rewrite HL, HP, HC. clear HL HP HC.
    destruct (in_scope_ip cfg (V4 (slice 12 4 (skipn 14 f))) (V4 (slice 16 4 (skipn 14 f))) false) eqn:Hs.
    - destruct (in_scope_v4 _ _ _ Hs) as [-> ->].
      unfold l4_run, l3_ci, base_ci. cbn [v_v4 v_proto v_l4 v_src v_dst].
      apply N.eqb_eq in E4.
      destruct (u8_at 9 (skipn 14 f) =? 1) eqn:P1.
      { destruct (length (ipv4_payload (skipn 14 f)) <? 4)%nat; [reflexivity|].
        destruct (icmpv4_repl _ _) as [[x|] e]; [|reflexivity].
        unfold wrap_of, wrap_ip, seal_icmp4, ev_eth. cbn [v_v4 v_proto v_src v_dst verb_of].
        rewrite E4. reflexivity. }
      destruct (u8_at 9 (skipn 14 f) =? 6) eqn:P6.
      { destruct (length (ipv4_payload (skipn 14 f)) <? 20)%nat; [reflexivity|].
        destruct (tcp_repl _ _ _ _ _ _) as [[[[tb' ci'] [r|]] evs]|s]; cbn [bind]; try reflexivity.
        unfold wrap_of, wrap_ip, seal_tcp, ev_eth. cbn [v_v4 v_proto v_src v_dst verb_of]. rewrite E4. reflexivity. }
      destruct (u8_at 9 (skipn 14 f) =? 17) eqn:P17.
      { destruct (length (ipv4_payload (skipn 14 f)) <? 8)%nat; [reflexivity|].
        destruct (udp_repl _ _ _ _ _) as [[[ci' [r|]] evs]|s]; cbn [bind]; try reflexivity.
        destruct (65535 <? lenN r); [reflexivity|].
        unfold wrap_of, wrap_ip, seal_udp, ev_eth. cbn [v_v4 v_proto v_src v_dst verb_of]. rewrite E4. reflexivity. }
      reflexivity.
    - destruct (scope_v4_false _ _ _ Hs) as [-> | [-> ->]]; reflexivity. }
  destruct (u16_at 12 f =? 34525) eqn:E6; [|reflexivity].
  destruct (length (skipn 14 f) <? 40)%nat eqn:Hl3; [reflexivity|].
  cbn [negb andb orb].
  unfold ipv6_repl.
  assert (ip_layer f = LIpv6) as HL by (unfold ip_layer; rewrite E4; reflexivity).
  assert (ip_proto f = u8_at 6 (skipn 14 f)) as HP by (unfold ip_proto; rewrite E4; reflexivity).
  assert (ip_ci f = ci_set_ip (base_ci f) (V6 (slice 8 16 (skipn 14 f))) (V6 (slice 24 16 (skipn 14 f)))) as HC
      by (unfold ip_ci; rewrite E4; reflexivity).
  unfold ev_ip. rewrite HL, HP, HC. clear HL HP HC.
  destruct (in_scope_ip cfg (V6 (slice 8 16 (skipn 14 f))) (V6 (slice 24 16 (skipn 14 f)))
                        (u8_at 6 (skipn 14 f) =? 58)) eqn:Hs.
  - destruct (in_scope_v6 _ _ _ _ Hs) as [-> ->].
    unfold l4_run, l3_ci, base_ci. cbn [v_v4 v_proto v_l4 v_src v_dst].
    apply N.eqb_eq in E6.
    destruct (u8_at 6 (skipn 14 f) =? 58) eqn:P1.
    { destruct (length (ipv6_payload (skipn 14 f)) <? 4)%nat; [reflexivity|].
      destruct (icmpv6_repl _ _ _) as [[[x|] tgt] e]; [|reflexivity].
      unfold wrap_of, wrap_ip, seal_icmp6, ev_eth. cbn [v_v4 v_proto v_src v_dst verb_of].
      rewrite E6. reflexivity. }
    destruct (u8_at 6 (skipn 14 f) =? 6) eqn:P6.
    { destruct (length (ipv6_payload (skipn 14 f)) <? 20)%nat; [reflexivity|].
      destruct (tcp_repl _ _ _ _ _ _) as [[[[tb' ci'] [r|]] evs]|s]; cbn [bind]; try reflexivity.
      unfold wrap_of, wrap_ip, seal_tcp, ev_eth. cbn [v_v4 v_proto v_src v_dst verb_of]. rewrite E6. reflexivity. }
    destruct (u8_at 6 (skipn 14 f) =? 17) eqn:P17.
    { destruct (length (ipv6_payload (skipn 14 f)) <? 8)%nat; [reflexivity|].
      destruct (udp_repl _ _ _ _ _) as [[[ci' [r|]] evs]|s]; cbn [bind]; try reflexivity.
      unfold wrap_of, wrap_ip, seal_udp, ev_eth. cbn [v_v4 v_proto v_src v_dst verb_of]. rewrite E6. reflexivity. }
    reflexivity.
  - destruct (scope_v6_false _ _ _ _ Hs) as [-> | [-> ->]]; reflexivity.
Qed.
