(* Smack.v -- the table-driven multi-pattern matcher (src/smack/smack.rs:
   search_next / search_next_end), running over a compiled table that is
   dumped from the implementation on every run (gen/Tables.v). *)
From MS Require Export Bytes.

Record smack := {
  sm_rows : N;               (* m_state_count *)
  sm_match_limit : N;        (* rows >= limit carry matches *)
  sm_c2s : list N;           (* char_to_symbol, 258 entries (256 = ^, 257 = $) *)
  sm_trans : list (list N);  (* row -> column -> next row *)
  sm_match : list (list N)   (* row -> m_ids (m_count = length) *)
}.

Definition TWO24 : N := 16777216.
Definition BASE_STATE : N := 0.
Definition UNANCHORED_STATE : N := 1.
Definition CHAR_ANCHOR_END : nat := 257.

Definition sm_sym (t : smack) (c : nat) : N := nth c (sm_c2s t) 0.
Definition sm_next (t : smack) (row col : N) : N :=
  nth (N.to_nat col) (nth (N.to_nat row) (sm_trans t) []) 0.
Definition sm_ids (t : smack) (row : N) : list N := nth (N.to_nat row) (sm_match t) [].
Definition sm_count (t : smack) (row : N) : N := N.of_nat (length (sm_ids t row)).

(* inner_match: returns (#bytes consumed, row); stops *before* consuming the
   byte that leads to a row >= match_limit *)
Fixpoint inner_match (t : smack) (row : N) (px : bytes) (consumed : nat) : nat * N :=
  match px with
  | [] => (consumed, row)
  | b :: rest =>
    let row' := sm_next t row (sm_sym t (N.to_nat b)) in
    if sm_match_limit t <=? row' then (consumed, row')
    else inner_match t row' rest (S consumed)
  end.

(* search_next on data[offset..] = px; returns (id, new state, bytes consumed) *)
Definition search_next (t : smack) (st : N) (px : bytes) : option N * N * nat :=
  let row := st mod TWO24 in
  let cm := st / TWO24 in
  let '(i, row, cm) :=
    if cm =? 0 then
      let '(ii, row') := inner_match t row px 0 in
      let mc := sm_count t row' in
      if mc =? 0 then (ii, row', 0) else (S ii, row', mc)
    else (O, row, cm) in
  if cm =? 0 then (None, row, i)
  else (Some (nth (N.to_nat (cm - 1)) (sm_ids t row) 0), row + (cm - 1) * TWO24, i).

Definition search_next_end (t : smack) (st : N) : option N * N :=
  let row := st mod TWO24 in
  let cm := st / TWO24 in
  if cm =? 255 then (None, st)
  else if negb (cm =? 0) then
    (Some (nth (N.to_nat (cm - 1)) (sm_ids t row) 0), row + (cm - 1) * TWO24)
  else
    let row' := sm_next t row (sm_sym t CHAR_ANCHOR_END) in
    let mc := sm_count t row' in
    if mc =? 0 then (None, st)
    else (Some (nth (N.to_nat (mc - 1)) (sm_ids t row') 0), row' + (mc - 1) * TWO24).

(* structural sanity of a dumped table; decided by computation on every run *)
Definition row_ok (t : smack) (r : list N) : bool := forallb (fun x => x <? sm_rows t) r.
Definition smack_ok (t : smack) : bool :=
  (N.of_nat (length (sm_trans t)) =? sm_rows t) &&
  (N.of_nat (length (sm_match t)) =? sm_rows t) &&
  (length (sm_c2s t) =? 258)%nat &&
  forallb (row_ok t) (sm_trans t) &&
  forallb (fun r => (N.of_nat (length r) <=? 128) && (1 <=? N.of_nat (length r))) (sm_trans t) &&
  forallb (fun c => forallb (fun r => c <? N.of_nat (length r)) (sm_trans t)) (sm_c2s t) &&
  (* rows below the limit carry no match, rows at or above exactly one *)
  forallb (fun p => let '(i, ids) := p in
                    if N.of_nat i <? sm_match_limit t then (length ids =? 0)%nat
                    else (length ids =? 1)%nat)
          (combine (seq 0 (length (sm_match t))) (sm_match t)).
