"""Run scripts (configuration + frame sequence) through the hooked implementation
and through the extracted Coq model, in batches and in parallel."""
import os, re, subprocess, ipaddress
from concurrent.futures import ThreadPoolExecutor
from common import *
import build, net

NPROC = int(os.environ.get("VERIF_JOBS", "16"))


class Cfg:
    def __init__(self, mac=net.MAC_SELF, self_ips=None, deny=None, key=(0, 0), logger="none", level=5):
        self.mac, self.self_ips, self.deny, self.key, self.logger, self.level = mac, self_ips, deny, key, logger, level

    def _set(self, s, hexed):
        if s is None:
            return "none"
        if hexed:
            return ",".join(net.ip_bytes(a).hex() for a in s) or ","
        return ",".join(str(ipaddress.ip_address(net.ip_bytes(a))) for a in s) or ","

    def impl_line(self):
        return "CFG mac=%s self=%s deny=%s key=%x,%x logger=%s level=%d" % (
            self.mac.hex(), self._set(self.self_ips, False), self._set(self.deny, False),
            self.key[0], self.key[1], self.logger, self.level)

    def model_line(self, ovf=True):
        return "CFG mac=%s self=%s deny=%s key=%x,%x level=%d ovf=%d" % (
            self.mac.hex(), self._set(self.self_ips, True), self._set(self.deny, True),
            self.key[0], self.key[1], self.level, 1 if ovf else 0)

    def to_json(self):
        return {"mac": self.mac.hex(),
                "self": None if self.self_ips is None else [net.ip_bytes(a).hex() for a in self.self_ips],
                "deny": None if self.deny is None else [net.ip_bytes(a).hex() for a in self.deny],
                "key": ["%x" % self.key[0], "%x" % self.key[1]], "logger": self.logger, "level": self.level}

    @staticmethod
    def from_json(j):
        return Cfg(bytes.fromhex(j["mac"]),
                   None if j["self"] is None else [bytes.fromhex(a) for a in j["self"]],
                   None if j["deny"] is None else [bytes.fromhex(a) for a in j["deny"]],
                   (int(j["key"][0], 16), int(j["key"][1], 16)), j["logger"], j["level"])


class Script:
    """One test case: a configuration and a sequence of frames on a fresh table."""
    def __init__(self, cfg, frames, tag=""):
        self.cfg, self.frames, self.tag = cfg, list(frames), tag

    def to_json(self):
        return {"cfg": self.cfg.to_json(), "frames": [f.hex() for f in self.frames], "tag": self.tag}

    @staticmethod
    def from_json(j):
        return Script(Cfg.from_json(j["cfg"]), [bytes.fromhex(f) for f in j["frames"]], j.get("tag", ""))


class Outcome:
    """Result of one frame: kind 'R' (reply), 'N' (silence), 'P' (panic)."""
    __slots__ = ("kind", "reply", "tsize", "events", "lines", "panic", "monitors")

    def __init__(self):
        self.kind, self.reply, self.tsize, self.events, self.lines, self.panic, self.monitors = "?", None, None, [], [], "", {}

    def short(self):
        return self.kind + ("" if self.reply is None else " " + self.reply.hex())


DATE_RE = re.compile(rb"\nDate: ([^\n]*)\n")


def mask_app(app):
    """application payload with every wall-clock field blanked: the HTTP Date value and the FILETIME fields of the SMB
    negotiate responses (SMB1 SystemTime; SMB2 SystemTime and ServerStartTime). No property constrains them."""
    if app is None:
        return None
    a = bytearray(DATE_RE.sub(b"\nDate: X\n", bytes(app)))      # (the value's width varies: see net.norm_frame)
    if len(a) >= 68 and a[4:8] == b"\xffSMB" and a[8] == 0x72:
        a[60:68] = bytes(8)
    elif len(a) >= 124 and a[4:8] == b"\xfeSMB" and a[16:18] == b"\0\0":
        a[108:124] = bytes(16)
    return bytes(a)


def _run_proc(cmd, text, env=None):
    p = subprocess.run(cmd, input=text, stdout=subprocess.PIPE, stderr=subprocess.DEVNULL, env=env, text=True)
    return p.stdout


def _chunks(xs, n):
    k = max(1, (len(xs) + n - 1) // n)
    return [xs[i:i + k] for i in range(0, len(xs), k)]


ADV_MAGIC = b"\xffADV"


def adv_frame(seconds):
    """A pseudo-frame: to the implementation and to the model it is an 8-byte frame (shorter than an Ethernet header, so
    both stay silent and no state changes); the runner additionally tells the hooked driver to advance every clock the
    process reads by that many seconds before the frame is handed over. A history with such frames is the same history
    with time passing between its frames; the model has no notion of elapsed time, which is the claim being checked."""
    return ADV_MAGIC + int(seconds).to_bytes(4, "big")


def adv_seconds(f):
    return int.from_bytes(f[4:8], "big") if len(f) == 8 and f[:4] == ADV_MAGIC else None


def run_impl(scripts, driver=None):
    """-> list (per script) of list (per frame) of Outcome."""
    driver = driver or DRIVER_DEV
    env = dict(os.environ, MASSCANNED_VERIF="1")
    if os.path.exists(CLOCKSHIM):
        env["LD_PRELOAD"] = CLOCKSHIM

    def work(chunk):
        lines = []
        for s in chunk:
            lines.append(s.cfg.impl_line())
            lines.append("RESET")
            for f in s.frames:
                if adv_seconds(f) is not None:
                    lines.append("ADV %d" % adv_seconds(f))
                lines.append("F " + f.hex())
        out = _run_proc([driver], "\n".join(lines) + "\n", env)
        res = []
        it = iter(out.split("\n"))
        for s in chunk:
            # two @@OK (CFG, RESET)
            n_ok = 0
            for line in it:
                if line == "@@OK":
                    n_ok += 1
                    if n_ok == 2:
                        break
            outs = []
            for _ in s.frames:
                o = Outcome()
                for line in it:
                    if line.startswith("@@"):
                        if line.startswith("@@R "):
                            o.kind, o.reply = "R", bytes.fromhex(line[4:])
                        elif line == "@@N":
                            o.kind = "N"
                        elif line.startswith("@@P"):
                            o.kind, o.panic = "P", line[4:]
                        elif line.startswith("@@T "):
                            o.tsize = int(line[4:])
                        elif line == "@@END":
                            break
                    elif line:
                        o.lines.append(line)
                outs.append(o)
            res.append(outs)
        return res

    with ThreadPoolExecutor(NPROC) as ex:
        parts = list(ex.map(work, _chunks(scripts, NPROC)))
    return [r for p in parts for r in p]


def clock_of(o):
    """Wall-clock inputs observed in the implementation's reply (fed to the model)."""
    opts = ""
    if o is not None and o.reply is not None:
        m = DATE_RE.search(o.reply)
        if m:
            opts += " date=" + m.group(1).hex()
        p = net.parse_frame(o.reply)
        a = p.app if p is not None else None
        if a is not None and len(a) >= 68 and a[4:8] == b"\xffSMB" and a[8] == 0x72:
            opts += " ft=%d" % int.from_bytes(a[60:68], "little")       # SMB1 negotiate: ServerTime
        elif a is not None and len(a) >= 116 and a[4:8] == b"\xfeSMB" and a[16:18] == b"\0\0":
            opts += " ft=%d" % int.from_bytes(a[108:116], "little")     # SMB2 negotiate: ServerTime
    return opts


def run_model(scripts, impl_outs=None, ovf=True, monitors=()):
    envfile = build.ENVFILE

    def work(args):
        chunk, outs_chunk = args
        lines = []
        for si, s in enumerate(chunk):
            lines.append(s.cfg.model_line(ovf))
            lines.append("RESET")
            for fi, f in enumerate(s.frames):
                io = outs_chunk[si][fi] if outs_chunk is not None else None
                extra = ""
                if io is not None and monitors and io.kind in ("R", "N"):
                    extra = " impl=" + (io.reply.hex() if io.kind == "R" else "N")
                    if io.tsize is not None:
                        extra += " tsize=%d" % io.tsize
                lines.append("F " + f.hex() + clock_of(io) + extra)
        out = _run_proc([MODEL_RUN, envfile, ",".join(monitors)], "\n".join(lines) + "\n")
        res = []
        it = iter(out.split("\n"))
        for s in chunk:
            n_ok = 0
            for line in it:
                if line == "OK":
                    n_ok += 1
                    if n_ok == 2:
                        break
            outs = []
            for _ in s.frames:
                o = Outcome()
                for line in it:
                    if line.startswith("R "):
                        o.kind, o.reply = "R", bytes.fromhex(line[2:])
                    elif line == "N":
                        o.kind = "N"
                    elif line.startswith("P "):
                        o.kind, o.panic = "P", line[2:]
                    elif line.startswith("T "):
                        o.tsize = int(line[2:])
                    elif line.startswith("E "):
                        o.events.append(line[2:])
                    elif line.startswith("V "):
                        w = line.split()
                        o.monitors[w[1]] = (w[2] == "1")
                    elif line == "END":
                        break
                outs.append(o)
            res.append(outs)
        return res

    sc = _chunks(scripts, NPROC)
    oc = _chunks(impl_outs, NPROC) if impl_outs is not None else [None] * len(sc)
    with ThreadPoolExecutor(NPROC) as ex:
        parts = list(ex.map(work, zip(sc, oc)))
    return [r for p in parts for r in p]


def frame_classes(name, cfg, frames, model_run=None):
    """Extracted class predicates (model_run.ml: classes_env) evaluated on frames -> list of bool."""
    if not frames:
        return []
    text = cfg.model_line() + "\n" + "".join("CLS %s %s\n" % (name, f.hex()) for f in frames)
    out = _run_proc([model_run or MODEL_RUN, build.ENVFILE, ""], text)
    res = [l.strip() == "K 1" for l in out.split("\n") if l.startswith("K ")]
    assert len(res) == len(frames), (len(res), len(frames))
    return res
