"""Shared generators: configurations, application payload seeds, frames at every layer,
and the malformed stream. All randomness comes from the rng passed in."""
import struct, random
import net
from runner import Script, Cfg

SELF4, SELF6 = "10.0.0.1", "2001:db8::1"
PEER4, PEER6 = "10.0.0.9", "2001:db8::9"
OTHER4, OTHER6 = "10.0.0.77", "2001:db8::77"
DENY4, DENY6 = "10.0.0.66", "2001:db8::66"


def cfgs(logger="none", level=5, key=(0, 0)):
    return [
        Cfg(key=key, logger=logger, level=level),
        Cfg(self_ips=[SELF4, SELF6], key=key, logger=logger, level=level),
        Cfg(self_ips=[SELF4, SELF6, "10.0.0.2"], deny=[DENY4, DENY6], key=key, logger=logger, level=level),
        Cfg(deny=[DENY4, DENY6], key=key, logger=logger, level=level),
    ]


# ---------------- application payload seeds ----------------
def http_req(rng=None, verb=b"GET", target=b"/", version=b"HTTP/1.1", headers=None, eol=b"\r\n"):
    headers = headers if headers is not None else [(b"Host", b"example.org"), (b"Accept", b"*/*")]
    s = verb + b" " + target + b" " + version + eol
    for k, v in headers:
        s += k + b": " + v + eol
    return s + eol


def stun_req(tid=None, attrs=b"", magic=False, mtype=0x0001, length=None):
    tid = tid if tid is not None else bytes(range(16))
    if magic:
        tid = bytes.fromhex("2112a442") + tid[4:]
    if length is None:
        length = len(attrs)
    return struct.pack("!HH", mtype, length) + tid + attrs


def stun_attr(ty, val):
    return struct.pack("!HH", ty, len(val)) + val


def dns_query(qid=0x1337, flags=0x0100, names=(b"www.example.com",), qtype=1, qclass=1, an=0, ns=0, ar=0, tail=b""):
    q = struct.pack("!HHHHHH", qid, flags, len(names), an, ns, ar)
    for n in names:
        for lab in n.split(b"."):
            if lab:
                q += bytes([len(lab)]) + lab
        q += b"\0" + struct.pack("!HH", qtype, qclass)
    return q + tail


def rpc_call(xid=0x12345678, rpcvers=2, prog=100000, vers=2, proc=3, cred=b"", verf=b"", tcp=False, body=b"", mtype=0):
    m = struct.pack("!IIIIII", xid, mtype, rpcvers, prog, vers, proc)
    m += struct.pack("!II", 0, len(cred)) + cred + struct.pack("!II", 0, len(verf)) + verf + body
    if tcp:
        m = struct.pack("!I", 0x80000000 | len(m)) + m
    return m


def app_seeds():
    """(name, payload, works over tcp?, works over udp?)"""
    cr = stun_attr(3, struct.pack("!I", 2))
    return [
        ("http", http_req(), True, True),
        ("http-lf", http_req(eol=b"\n", headers=[]), True, True),
        ("ssh2", b"SSH-2.0-OpenSSH_8.9 comment here\r\n", True, True),
        ("ssh199", b"SSH-1.99-x\r\n", True, True),
        ("ghost", b"Gh0st\x00\x01\x02", True, True),
        ("stun-empty", stun_req(), True, True),
        ("stun-change-port", stun_req(attrs=cr), True, True),
        ("stun-magic-long", stun_req(attrs=stun_attr(0x8022, b"x" * 252) + cr, magic=True), True, True),
        ("dns", dns_query(), False, True),
        ("dns-2q", dns_query(names=(b"a.b", b"c.d.e")), False, True),
        ("rpc-udp", rpc_call(xid=0xa1b2c3d4), False, True),
        ("rpc-tcp", rpc_call(xid=0xa1b2c3d4, tcp=True), True, False),
        ("rpc-dump-v4", rpc_call(xid=0xa1b2c3d4, vers=4, proc=4), False, True),
        ("junk", b"\x01\x02\x03hello", True, True),
        ("empty", b"", True, True),
    ]


# ---------------- frames ----------------
def addr_pair(v6, src=None, dst=None):
    if v6:
        return (src or PEER6, dst or SELF6)
    return (src or PEER4, dst or SELF4)


def handshake(key, src, dst, sport, dport, payloads, isn=1000, **kw):
    """SYN, then PSH|ACK segments carrying the payloads in order (correct cookie)."""
    ck = net.cookie(key, src, dst, sport, dport)
    fr = [net.frame_tcp(src, dst, sport, dport, isn, 0, 0x02, **kw)]
    seq = isn + 1
    for p in payloads:
        fr.append(net.frame_tcp(src, dst, sport, dport, seq, (ck + 1) & 0xFFFFFFFF, 0x18, p, **kw))
        seq = (seq + len(p)) & 0xFFFFFFFF
    return fr


def arp_req(tpa, spa=PEER4, sha=net.MAC_PEER, op=1, mac_dst=b"\xff" * 6, eth_src=None, **kw):
    """eth_src: Ethernet source when it differs from the sender hardware address announced in the ARP body
    (proxy / relayed / spoofed ARP)."""
    return net.eth(mac_dst, sha if eth_src is None else eth_src, 0x0806, net.arp(op, sha, spa, b"\0" * 6, tpa, **kw))


def echo4(src, dst, data=b"abcdefgh", ident=0x1234, seqno=1, ty=8, code=0, mac_dst=net.MAC_SELF):
    return net.eth(mac_dst, net.MAC_PEER, 0x0800,
                   net.ipv4(src, dst, 1, net.icmp4(ty, code, struct.pack("!HH", ident, seqno) + data)))


def echo6(src, dst, data=b"abcdefgh", ident=0x1234, seqno=1, ty=128, code=0, mac_dst=net.MAC_SELF):
    return net.eth(mac_dst, net.MAC_PEER, 0x86DD,
                   net.ipv6(src, dst, 58, net.icmp6(src, dst, ty, code, struct.pack("!HH", ident, seqno) + data)))


def ns6(src, target, dst=None, code=0, opts=None, mac_dst=None, trunc=None):
    t = net.ip_bytes(target)
    dst = dst or (bytes.fromhex("ff0200000000000000000001ff") + t[13:])
    mac_dst = mac_dst or (b"\x33\x33\xff" + t[13:])
    opts = opts if opts is not None else (b"\x01\x01" + net.MAC_PEER)
    body = b"\0\0\0\0" + t + opts
    if trunc is not None:
        body = body[:trunc]
    return net.eth(mac_dst, net.MAC_PEER, 0x86DD, net.ipv6(src, dst, 58, net.icmp6(src, dst, 135, code, body), hlim=255))


def l2l3_noise(rng, n):
    """UDP / ICMP / ARP traffic that must never touch TCP state."""
    out = []
    for _ in range(n):
        k = rng.randrange(5)
        if k == 0:
            out.append(arp_req(SELF4))
        elif k == 1:
            out.append(echo4(PEER4, SELF4, data=bytes(rng.randrange(256) for _ in range(rng.randrange(40)))))
        elif k == 2:
            out.append(echo6(PEER6, SELF6))
        elif k == 3:
            name, p, _, _ = rng.choice(app_seeds())
            out.append(net.frame_udp(PEER4, SELF4, rng.randrange(65536), rng.randrange(65536), p))
        else:
            out.append(ns6(PEER6, SELF6))
    return out


def mutate_bytes(rng, b, n=1):
    b = bytearray(b)
    for _ in range(n):
        if not b:
            break
        k = rng.randrange(4)
        i = rng.randrange(len(b))
        if k == 0:
            b[i] = rng.randrange(256)
        elif k == 1:
            b[i] ^= 1 << rng.randrange(8)
        elif k == 2:
            del b[i]
        else:
            b.insert(i, rng.randrange(256))
    return bytes(b)


def all_layers_frames(rng, v6_too=True):
    """A mixed bag of frames of every kind that elicits replies of every kind."""
    fr = []
    for v6 in ([False, True] if v6_too else [False]):
        s, d = addr_pair(v6)
        for name, p, t, u in app_seeds():
            if u:
                fr.append(net.frame_udp(s, d, rng.randrange(1, 65536), rng.choice([53, 80, 111, 3478, 65535, rng.randrange(65536)]), p))
        fr.append(net.frame_tcp(s, d, 1234, 80, 77, 0, 0x02))
        fr.append(net.frame_tcp(s, d, 1234, 80, 77, 99, 0x11))
    fr += [arp_req(SELF4), echo4(PEER4, SELF4), echo6(PEER6, SELF6), ns6(PEER6, SELF6)]
    return fr
