(* RefDec.v -- independent, strict decoders for *reply* frames. Used only in
   specifications and monitors; they share nothing with the code that builds
   replies except the byte-level helpers of Bytes.v. *)
From MS Require Export Bytes Checksum.

Record d_eth := { de_dst : bytes; de_src : bytes; de_type : N; de_payload : bytes }.
Definition dec_eth (f : bytes) : option d_eth :=
  if (length f <? 14)%nat then None
  else Some {| de_dst := firstn 6 f; de_src := firstn 6 (skipn 6 f);
               de_type := u16_at 12 f; de_payload := skipn 14 f |}.

Record d_ip := {
  di_v4 : bool;
  di_hdr : bytes;        (* the IP header bytes *)
  di_len_field : N;      (* IPv4 total length / IPv6 payload length *)
  di_ttl : N;            (* TTL / hop limit *)
  di_proto : N;
  di_src : bytes;
  di_dst : bytes;
  di_payload : bytes
}.

(* IPv4: version 4 and IHL 5 are required for the packet to decode at all *)
Definition dec_ipv4 (p : bytes) : option d_ip :=
  if (length p <? 20)%nat then None
  else if negb (u8_at 0 p =? 69) then None
  else Some {| di_v4 := true; di_hdr := firstn 20 p; di_len_field := u16_at 2 p; di_ttl := u8_at 8 p;
               di_proto := u8_at 9 p; di_src := firstn 4 (skipn 12 p); di_dst := firstn 4 (skipn 16 p);
               di_payload := skipn 20 p |}.

Definition dec_ipv6 (p : bytes) : option d_ip :=
  if (length p <? 40)%nat then None
  else if negb (u8_at 0 p / 16 =? 6) then None
  else Some {| di_v4 := false; di_hdr := firstn 40 p; di_len_field := u16_at 4 p; di_ttl := u8_at 7 p;
               di_proto := u8_at 6 p; di_src := firstn 16 (skipn 8 p); di_dst := firstn 16 (skipn 24 p);
               di_payload := skipn 40 p |}.

Definition dec_ip (e : d_eth) : option d_ip :=
  if de_type e =? 2048 then dec_ipv4 (de_payload e)
  else if de_type e =? 34525 then dec_ipv6 (de_payload e)
  else None.

Record d_tcp := {
  dt_sport : N; dt_dport : N; dt_seq : N; dt_ack : N; dt_doff : N; dt_flags : N;
  dt_window : N; dt_payload : bytes
}.
Definition dec_tcp (p : bytes) : option d_tcp :=
  if (length p <? 20)%nat then None
  else
    let doff := u8_at 12 p / 16 in
    if (doff <? 5) || (lenN p <? doff * 4) then None
    else Some {| dt_sport := u16_at 0 p; dt_dport := u16_at 2 p; dt_seq := u32_at 4 p; dt_ack := u32_at 8 p;
                 dt_doff := doff; dt_flags := (u8_at 12 p mod 2) * 256 + u8_at 13 p;
                 dt_window := u16_at 14 p; dt_payload := skipn (N.to_nat doff * 4) p |}.

Record d_udp := { du_sport : N; du_dport : N; du_len : N; du_cksum : N; du_payload : bytes }.
Definition dec_udp (p : bytes) : option d_udp :=
  if (length p <? 8)%nat then None
  else Some {| du_sport := u16_at 0 p; du_dport := u16_at 2 p; du_len := u16_at 4 p;
               du_cksum := u16_at 6 p; du_payload := skipn 8 p |}.

(* whole-frame convenience *)
Definition dec_frame_ip (f : bytes) : option (d_eth * d_ip) :=
  match dec_eth f with
  | None => None
  | Some e => match dec_ip e with None => None | Some i => Some (e, i) end
  end.

Definition dec_frame_tcp (f : bytes) : option (d_eth * d_ip * d_tcp) :=
  match dec_frame_ip f with
  | Some (e, i) =>
    if di_proto i =? 6 then
      match dec_tcp (di_payload i) with Some t => Some (e, i, t) | None => None end
    else None
  | None => None
  end.

Definition dec_frame_udp (f : bytes) : option (d_eth * d_ip * d_udp) :=
  match dec_frame_ip f with
  | Some (e, i) =>
    if di_proto i =? 17 then
      match dec_udp (di_payload i) with Some u => Some (e, i, u) | None => None end
    else None
  | None => None
  end.

(* ---- ARP and ICMP ---- *)
Record d_arp := {
  da_htype : N; da_ptype : N; da_hlen : N; da_plen : N; da_op : N;
  da_sha : bytes; da_spa : bytes; da_tha : bytes; da_tpa : bytes
}.
Definition dec_arp (p : bytes) : option d_arp :=
  if (length p <? 28)%nat then None
  else Some {| da_htype := u16_at 0 p; da_ptype := u16_at 2 p; da_hlen := u8_at 4 p; da_plen := u8_at 5 p;
               da_op := u16_at 6 p; da_sha := firstn 6 (skipn 8 p); da_spa := firstn 4 (skipn 14 p);
               da_tha := firstn 6 (skipn 18 p); da_tpa := firstn 4 (skipn 24 p) |}.

Record d_icmp := { dc_type : N; dc_code : N; dc_cksum : N; dc_rest : bytes }.
Definition dec_icmp (p : bytes) : option d_icmp :=
  if (length p <? 4)%nat then None
  else Some {| dc_type := u8_at 0 p; dc_code := u8_at 1 p; dc_cksum := u16_at 2 p; dc_rest := skipn 4 p |}.

Definition dec_frame_icmp (f : bytes) : option (d_eth * d_ip * d_icmp) :=
  match dec_frame_ip f with
  | Some (e, i) =>
    if (di_v4 i && (di_proto i =? 1)) || (negb (di_v4 i) && (di_proto i =? 58)) then
      match dec_icmp (di_payload i) with Some c => Some (e, i, c) | None => None end
    else None
  | None => None
  end.

Definition dec_frame_arp (f : bytes) : option (d_eth * d_arp) :=
  match dec_eth f with
  | Some e =>
    if de_type e =? 2054 then
      match dec_arp (de_payload e) with Some a => Some (e, a) | None => None end
    else None
  | None => None
  end.
