(* Proofs/C11uExamples.v -- the per-run obligation [http_uniform_ok] on the current tables,
   non-vacuity of the uniform / cut-invariance / frame-level statements, and the witness that
   refutes the whole-flow reading of C11 (pipelined requests).  Computed on [the_env]. *)
From Coq Require Import Lia.
From MS Require Import Proofs.Tactics Rpc Proto L4 L2 Spec.View Spec.TcpRef Spec.AppView Spec.C11 Spec.EnvOk Spec.C11http
     Spec.C11u Spec.C11uFrame Instance Proofs.C11 Proofs.C11Witness Proofs.C11Examples Proofs.FrameBuild
     Proofs.C11uHttp Proofs.C11uCut Proofs.C11uFrame.

Lemma current_http_uniform_ok : http_uniform_ok the_env = true.
Proof. vm_compute. reflexivity. Qed.

(* the bound is tight enough: with L = 9 (the longest signature, "OPTIONS /" or "CONNECT /")
   the check still passes, with L = 8 it does not *)
Lemma current_sig_bound_tight :
  sig_bound_ok (e_proto_tbl the_env) PROTO_HTTP 9 = true /\ sig_bound_ok (e_proto_tbl the_env) PROTO_HTTP 8 = false.
Proof. vm_compute. split; reflexivity. Qed.

Lemma current_http_tbl : smack_ok (e_http_tbl the_env) = true /\ http_tbl_ok (e_http_tbl the_env) = true.
Proof. vm_compute. split; reflexivity. Qed.

(* "GET / HTTP/1.0\n\n" twice: two pipelined requests *)
Definition w11_two : bytes := w11_stream ++ w11_stream.
(* cut inside the verb; byte by byte; both requests in one segment; one request per segment;
   cut inside the second request *)
Definition cut_verb : list bytes := [firstn 2 w11_stream; skipn 2 w11_stream].
Definition cut_one : list bytes := [w11_two].
Definition cut_two : list bytes := [w11_stream; w11_stream].
Definition cut_mid : list bytes := [w11_stream ++ firstn 2 w11_stream; skipn 2 w11_stream].

(* ---- the hypotheses of the uniform theorem hold; the completing byte is a function of the stream ---- *)
Theorem uniform_nonvacuous :
  bytes_ok w11_stream = true /\ tcp_first_id the_env w11_stream = Some PROTO_HTTP /\
  bytes_ok w11_two = true /\ tcp_first_id the_env w11_two = Some PROTO_HTTP /\
  concat (singletons w11_stream) = w11_stream /\ concat cut_verb = w11_stream /\
  concat cut_one = w11_two /\ concat cut_two = w11_two /\ concat cut_mid = w11_two /\
  concat (singletons w11_two) = w11_two /\
  tcp_first_id the_env (firstn 2 w11_stream) = None /\
  http_complete_at (e_http_tbl the_env) w11_stream = Some 15%nat /\
  http_complete_at (e_http_tbl the_env) w11_two = Some 15%nat /\
  http_complete_at (e_http_tbl the_env) (firstn 15 w11_stream) = None.
Proof. vm_compute. repeat split; reflexivity. Qed.

(* ---- the reference reading of these cuts ---- *)
Theorem uniform_readings :
  let R := Some (http_401 the_env w11_clk) in
  http_stream_ref the_env w11_clk (singletons w11_stream) = repeat None 15 ++ [R] /\
  http_stream_ref the_env w11_clk cut_verb = [None; R] /\
  http_stream_ref the_env w11_clk [w11_stream] = [R] /\
  http_stream_ref the_env w11_clk cut_one = [R] /\
  http_stream_ref the_env w11_clk cut_two = [R; R] /\
  http_stream_ref the_env w11_clk cut_mid = [R; None] /\
  http_stream_ref the_env w11_clk (singletons w11_two) = repeat None 15 ++ [R] ++ repeat None 15 ++ [R] /\
  seg_index (singletons w11_stream) 15 = 15%nat /\ seg_index cut_verb 15 = 1%nat /\
  seg_index cut_one 15 = 0%nat /\ seg_index cut_mid 15 = 0%nat.
Proof. vm_compute. repeat split; reflexivity. Qed.

(* ... and, through the theorem, what the implementation's model does on them *)
Theorem uniform_instances :
  tcp_stream the_env w11_clk w11_ci tcb_new (singletons w11_stream) = Ok (http_stream_ref the_env w11_clk (singletons w11_stream)) /\
  tcp_stream the_env w11_clk w11_ci tcb_new cut_verb = Ok (http_stream_ref the_env w11_clk cut_verb) /\
  tcp_stream the_env w11_clk w11_ci tcb_new cut_one = Ok (http_stream_ref the_env w11_clk cut_one) /\
  tcp_stream the_env w11_clk w11_ci tcb_new cut_two = Ok (http_stream_ref the_env w11_clk cut_two) /\
  tcp_stream the_env w11_clk w11_ci tcb_new cut_mid = Ok (http_stream_ref the_env w11_clk cut_mid) /\
  tcp_stream the_env w11_clk w11_ci tcb_new (singletons w11_two) = Ok (http_stream_ref the_env w11_clk (singletons w11_two)).
Proof.
  destruct current_http_tbl as [Hok Htbl].
  destruct uniform_nonvacuous as (B1 & I1 & B2 & I2 & C1 & C2 & C3 & C4 & C5 & C6 & _).
  repeat split; apply (http_stream_uniform the_env w11_clk w11_ci _ current_proto_tbl_ok current_http_uniform_ok Hok Htbl);
    rewrite ?C1, ?C2, ?C3, ?C4, ?C5, ?C6; assumption.
Qed.

(* ---- the whole-flow reading of C11 is FALSE for pipelined requests ----
   the same 32-byte stream  "GET / HTTP/1.0\n\nGET / HTTP/1.0\n\n"  gets ONE 401 when it comes in
   one segment, TWO when the cut falls between the requests, ONE when the cut falls two bytes
   into the second request (the bytes "GE" that follow the completing byte in the first
   segment are dropped; "T / HTTP/1.0\n\n" is then parsed as a new request and fails) *)
Theorem http_pipelined_cut_dependent :
  exists o1 o2 o3,
    concat cut_one = w11_two /\ concat cut_two = w11_two /\ concat cut_mid = w11_two /\
    bytes_ok w11_two = true /\ tcp_first_id the_env w11_two = Some PROTO_HTTP /\
    tcp_stream the_env w11_clk w11_ci tcb_new cut_one = Ok o1 /\
    tcp_stream the_env w11_clk w11_ci tcb_new cut_two = Ok o2 /\
    tcp_stream the_env w11_clk w11_ci tcb_new cut_mid = Ok o3 /\
    length (out_payloads o1) = 1%nat /\ length (out_payloads o2) = 2%nat /\ length (out_payloads o3) = 1%nat.
Proof. vm_compute. eexists _, _, _. repeat split; reflexivity. Qed.

Theorem http_whole_flow_refuted : ~ C11_http_whole_flow_stmt the_env.
Proof.
  intros H. destruct http_pipelined_cut_dependent as (o1 & o2 & o3 & C1 & C2 & _ & B & I & S1 & S2 & _ & L1 & L2 & _).
  assert (Hc : concat cut_one = concat cut_two) by (rewrite C1, C2; reflexivity).
  rewrite <- C1 in B, I.
  pose proof (H w11_clk w11_ci cut_one cut_two o1 o2 Hc B I S1 S2) as Heq.
  rewrite Heq in L1. rewrite L1 in L2. discriminate.
Qed.

(* the same for ONC-RPC: two GETPORT calls in one segment get one reply, in two segments two *)
Theorem rpc_pipelined_cut_dependent :
  exists o1 o2,
    tcp_first_id the_env (x11_stream ++ x11_stream) = Some PROTO_RPC_TCP /\
    tcp_stream the_env w11_clk w11_ci tcb_new [x11_stream ++ x11_stream] = Ok o1 /\
    tcp_stream the_env w11_clk w11_ci tcb_new [x11_stream; x11_stream] = Ok o2 /\
    length (out_payloads o1) = 1%nat /\ length (out_payloads o2) = 2%nat.
Proof.
  eexists _, _. split; [vm_compute; reflexivity|]. split; [vm_compute; reflexivity|].
  split; [vm_compute; reflexivity|]. split; vm_compute; reflexivity.
Qed.

(* RPC cut invariance: the completing byte of the GETPORT call *)
Theorem rpc_cut_nonvacuous :
  bytes_ok x11_stream = true /\ tcp_first_id the_env x11_stream = Some PROTO_RPC_TCP /\
  ci_ip_dst w11_ci = Some (V4 [10; 0; 0; 1]) /\ ci_port_dst w11_ci = Some 8080 /\
  length x11_stream = 52%nat /\
  rpc_complete_at x11_stream = Some 48%nat /\
  rpc_complete_at (x11_stream ++ x11_stream) = Some 48%nat /\
  rpc_expected (V4 [10; 0; 0; 1]) 8080 (firstn 49 x11_stream) <> None.
Proof. vm_compute. repeat split; try reflexivity. discriminate. Qed.

(* ---------- frame level ---------- *)
(* three data segments from 10.0.0.9:40000 to 10.0.0.1:80 on a flow that is not in the table:
   "GE" (presents the cookie), "T / HTTP/1.0\n\n", and a second request *)
Definition fu_f1 : bytes := fx_data true 40000 80 1000 (firstn 2 w11_stream).
Definition fu_f2 : bytes := fx_data true 40000 80 1002 (skipn 2 w11_stream).
Definition fu_f3 : bytes := fx_data true 40000 80 1016 w11_stream.
Definition fu_frames : list bytes := [fu_f1; fu_f2; fu_f3].
Definition fu_ci : cinfo := ctx_ci fx_cfg (slice 6 6 fu_f1) (slice 0 6 fu_f1) (fx_ctx true true 40000 80).
Definition fu_ck : N := fx_cookie true 40000 80.
Definition fu_replies : list (option bytes) :=
  match flow_run the_env fx_cfg [] (map (pair fx_clk) fu_frames) with Ok (_, rs) => rs | Panic _ => [] end.

Lemma fu_flow_frame f : In f fu_frames -> flow_frame fx_cfg fu_ci fu_ck f.
Proof.
  intros [<-|[<-|[<-|[]]]]; (split; [vm_compute; reflexivity|]); eexists;
    (split; [vm_compute; reflexivity|]); (split; [vm_compute; reflexivity|]); split; vm_compute; reflexivity.
Qed.

Example frames_nonvacuous :
  cfg_ok fx_cfg = true /\ Forall (flow_frame fx_cfg fu_ci fu_ck) fu_frames /\
  tbl_mem fu_ck [] = false /\
  (exists v, view_tcp fx_cfg fu_f1 = Some v /\ presents_cookie fx_cfg v = true) /\
  map (frame_payload fx_cfg) fu_frames = cut_verb ++ [w11_stream] /\
  tcp_first_id the_env (concat (map (frame_payload fx_cfg) fu_frames)) = Some PROTO_HTTP /\
  http_complete_at (e_http_tbl the_env) (concat (map (frame_payload fx_cfg) fu_frames)) = Some 15%nat /\
  seg_index (map (frame_payload fx_cfg) fu_frames) 15 = 1%nat /\
  (exists tb', flow_run the_env fx_cfg [] (map (pair fx_clk) fu_frames) = Ok (tb', fu_replies)) /\
  map tcp_resp fu_replies = [Some None; Some (Some (http_401 the_env fx_clk)); Some (Some (http_401 the_env fx_clk))].
Proof.
  split; [vm_compute; reflexivity|].
  split; [apply Forall_forall; exact fu_flow_frame|].
  split; [vm_compute; reflexivity|].
  split; [eexists; (split; [vm_compute; reflexivity|]); vm_compute; reflexivity|].
  split; [vm_compute; reflexivity|]. split; [vm_compute; reflexivity|].
  split; [vm_compute; reflexivity|]. split; [vm_compute; reflexivity|].
  split.
  - unfold fu_replies. destruct (flow_run the_env fx_cfg [] (map (pair fx_clk) fu_frames)) as [[tb' rs]|s] eqn:H.
    + eexists. reflexivity.
    + exfalso. revert H. vm_compute. discriminate.
  - vm_compute. reflexivity.
Qed.

(* the frame-level theorem applied to them *)
Example frames_instance :
  frames_carry fx_cfg fu_frames (http_stream_ref the_env fx_clk (map (frame_payload fx_cfg) fu_frames)) fu_replies.
Proof.
  destruct current_http_tbl as [Hok Htbl].
  destruct frames_nonvacuous as (Hcfg & Hall & Hmem & Hfirst & _ & Hid & _ & _ & (tb' & Hrun) & _).
  exact (http_frames_uniform the_env fx_cfg fx_clk fu_ci fu_ck fu_frames [] tb' fu_replies
           Hcfg current_proto_tbl_ok current_http_uniform_ok Hok Htbl Hall Hmem Hfirst Hid Hrun).
Qed.
