(* C14Examples.v -- non-vacuity and observations: concrete DNS payloads run through
   proto::repl on the tables of the current implementation ([the_env]). The hypotheses
   of the C14 theorems hold for them (in particular [udp_id the_env ... = None]), the
   replies decode completely to the expected answers, the monitor accepts them and
   rejects wrong replies. The last section records behaviour OUTSIDE the property
   (signature collision, trailing bytes, records in a query, EDNS, compression
   pointers, IPv6). Closed computations (vm_compute). *)
From MS Require Import Dns Proto Spec.RefDns Spec.C14 Spec.AppView Instance Proofs.C16Examples.

Definition qa (n : dname) : dquestion := {| qn := n; qt := 1; qc := 1 |}.
Definition n_com : label := [99; 111; 109].
Definition n_www_example_com : dname := [[119; 119; 119]; [101; 120; 97; 109; 112; 108; 101]; n_com].
Definition n_example (d : N) : dname := [[119; 119; 119]; [101; 120; 97; 109; 112; 108; 101; d]; n_com].

Definition x_dst : bytes := [10; 0; 0; 1].   (* a_dst (x_ctx4 false) *)
Definition dns_out (p : bytes) : option bytes := udp_out (x_ctx4 false) p.
Definition decoded_out (p : bytes) : option dmsg :=
  match dns_out p with Some r => dec_dns r | None => None end.

(* everything the positive clause claims, for one query *)
Definition in_a_answered (q : dquery) : Prop :=
  query_wf q = true /\ all_in_a (k_qd q) = true /\
  udp_id the_env (ser_query q) = None /\
  classify (ser_query q) = InScope q /\
  dns_out (ser_query q) = Some (ser_dns (answer q x_dst)) /\
  decoded_out (ser_query q) = Some (answer q x_dst) /\
  app_ok_C14 the_env (x_ctx4 false) (ser_query q) (dns_out (ser_query q)) = true.

(* "www.example.com IN A", ID 0x1234, RD set *)
Definition x_www : dquery := {| k_id := 4660; k_flags := 256; k_qd := [qa n_www_example_com] |}.
Example ex_www : in_a_answered x_www /\
  ser_query x_www =
    [18; 52; 1; 0; 0; 1; 0; 0; 0; 0; 0; 0; 3; 119; 119; 119; 7; 101; 120; 97; 109; 112; 108; 101; 3; 99; 111; 109; 0;
     0; 1; 0; 1] /\
  dns_out (ser_query x_www) = Some
    [18; 52; 133; 0; 0; 1; 0; 1; 0; 0; 0; 0; 3; 119; 119; 119; 7; 101; 120; 97; 109; 112; 108; 101; 3; 99; 111; 109; 0;
     0; 1; 0; 1; 3; 119; 119; 119; 7; 101; 120; 97; 109; 112; 108; 101; 3; 99; 111; 109; 0; 0; 1; 0; 1;
     0; 0; 168; 192; 0; 4; 10; 0; 0; 1].
Proof. vm_compute. repeat split; reflexivity. Qed.

(* three questions (the query of the implementation's own unit test) *)
Definition x_three : dquery :=
  {| k_id := 4919; k_flags := 256; k_qd := [qa (n_example 49); qa (n_example 50); qa (n_example 51)] |}.
Example ex_three : in_a_answered x_three /\ length (m_an (answer x_three x_dst)) = 3%nat.
Proof. vm_compute. repeat split; reflexivity. Qed.

(* no question at all; OPCODE 5, RD, Z and RCODE bits set in the query: the response
   carries QR, the same OPCODE and RD (0xAD00), nothing else of the query's flag word *)
Definition x_zero : dquery := {| k_id := 48879; k_flags := 10563; k_qd := [] |}.
Example ex_zero : in_a_answered x_zero /\
  dns_out (ser_query x_zero) = Some [190; 239; 173; 0; 0; 0; 0; 0; 0; 0; 0; 0].
Proof. vm_compute. repeat split; reflexivity. Qed.

(* a zero byte inside a label; the root name; a 63-byte label; a 255-byte name *)
Definition x_zbyte : dquery := {| k_id := 1; k_flags := 256; k_qd := [qa [[97; 0; 98]; n_com]] |}.
Example ex_zero_byte_in_label : in_a_answered x_zbyte.
Proof. vm_compute. repeat split; reflexivity. Qed.

Definition x_root : dquery := {| k_id := 2; k_flags := 256; k_qd := [qa []; qa []] |}.
Example ex_root_name : in_a_answered x_root.
Proof. vm_compute. repeat split; reflexivity. Qed.

Definition x_l63 : dquery := {| k_id := 65535; k_flags := 0; k_qd := [qa [repeat 120 63; n_com]] |}.
Example ex_label_63 : in_a_answered x_l63.
Proof. vm_compute. repeat split; reflexivity. Qed.

Definition n_max : dname := [repeat 97 63; repeat 98 63; repeat 99 63; repeat 100 61].
Definition x_max : dquery := {| k_id := 3; k_flags := 256; k_qd := [qa n_max; qa n_www_example_com] |}.
Example ex_name_255 : name_len n_max = 255 /\ in_a_answered x_max.
Proof. vm_compute. repeat split; reflexivity. Qed.
(* ... one more octet is outside the property: the reference reader rejects the name *)
Example ex_name_256 :
  let q := {| k_id := 3; k_flags := 256; k_qd := [qa [repeat 97 63; repeat 98 63; repeat 99 63; repeat 100 62]] |} in
  query_wf q = false /\ classify (ser_query q) = Outside.
Proof. vm_compute. split; reflexivity. Qed.

(* ---- the monitor is sensitive ---- *)
Definition x_ok_free : dmsg :=    (* AA clear, RA set, another TTL: still the expected response *)
  {| m_id := 4660; m_flags := 33152; m_qd := k_qd x_www;
     m_an := [{| ro := n_www_example_com; rt := 1; rc := 1; rttl := 5; rdata := x_dst |}]; m_ns := []; m_ar := [] |}.
Example ex_monitor_sensitive :
  let p := ser_query x_www in
  let mon := app_ok_C14 the_env (x_ctx4 false) p in
  mon None = false /\                                                       (* no answer *)
  mon (Some (ser_dns (answer x_www [10; 0; 0; 2]))) = false /\              (* another address *)
  mon (Some (ser_dns (answer {| k_id := 4661; k_flags := 256; k_qd := k_qd x_www |} x_dst))) = false /\  (* another ID *)
  mon (Some (ser_dns (answer {| k_id := 4660; k_flags := 0; k_qd := k_qd x_www |} x_dst))) = false /\    (* RD dropped *)
  mon (Some (ser_dns (answer {| k_id := 4660; k_flags := 2304; k_qd := k_qd x_www |} x_dst))) = false /\ (* another OPCODE *)
  mon (Some (ser_dns (answer x_www x_dst) ++ [0])) = false /\               (* a byte left over *)
  mon (Some (ser_dns (msg_of_query x_www))) = false /\                      (* the query itself *)
  mon (Some (firstn 60 (ser_dns (answer x_www x_dst)))) = false /\          (* ANCOUNT 1 but the record cut *)
  mon (Some (ser_dns x_ok_free)) = true /\                                  (* free fields are free *)
  mon (Some (ser_dns (answer x_www x_dst))) = true.
Proof. vm_compute. repeat split; reflexivity. Qed.

(* ---- the negative clauses ---- *)
(* "version.bind CH TXT" *)
Definition x_txt : dquery :=
  {| k_id := 7; k_flags := 0;
     k_qd := [{| qn := [[118; 101; 114; 115; 105; 111; 110]; [98; 105; 110; 100]]; qt := 16; qc := 3 |}] |}.
(* an IN/A question followed by an IN/AAAA question *)
Definition x_mixed : dquery :=
  {| k_id := 8; k_flags := 256; k_qd := [qa n_www_example_com; {| qn := n_www_example_com; qt := 28; qc := 1 |}] |}.
Example ex_not_in_a :
  query_wf x_txt = true /\ udp_id the_env (ser_query x_txt) = None /\ classify (ser_query x_txt) = NotInA /\
  dns_out (ser_query x_txt) = None /\
  app_ok_C14 the_env (x_ctx4 false) (ser_query x_txt) None = true /\
  app_ok_C14 the_env (x_ctx4 false) (ser_query x_txt) (Some (ser_dns (answer x_txt x_dst))) = false /\
  query_wf x_mixed = true /\ udp_id the_env (ser_query x_mixed) = None /\ classify (ser_query x_mixed) = NotInA /\
  dns_out (ser_query x_mixed) = None.
Proof. vm_compute. repeat split; reflexivity. Qed.

(* truncated: inside the header, inside a label, inside the type / class *)
Example ex_truncated :
  let p := ser_query x_www in
  forallb (fun n => match udp_id the_env (firstn n p) with None => true | Some _ => false end) (seq 0 33) = true /\
  forallb (fun n => match classify (firstn n p) with Truncated => true | _ => false end) (seq 0 33) = true /\
  forallb (fun n => match dns_out (firstn n p) with None => true | Some _ => false end) (seq 0 33) = true /\
  length p = 33%nat /\
  app_ok_C14 the_env (x_ctx4 false) (firstn 20 p) None = true /\
  app_ok_C14 the_env (x_ctx4 false) (firstn 20 p) (Some (ser_dns (answer x_www x_dst))) = false.
Proof. vm_compute. repeat split; reflexivity. Qed.

(* a response is not answered *)
Example ex_response :
  udp_id the_env (ser_dns (answer x_www x_dst)) = None /\ dns_out (ser_dns (answer x_www x_dst)) = None.
Proof. vm_compute. split; reflexivity. Qed.

(* ---- observations, outside the property ---- *)
(* (a) a well-formed IN/A query that completes another protocol's signature: ID 0x0001,
   flag word 0x0000, one question whose name takes 4 octets ("ab"): 20 octets starting
   00 01 00 00 = the begin/end-anchored STUN signature. It is answered by the STUN
   responder (01 01 = binding success), not by the DNS responder. *)
Definition x_stun : dquery := {| k_id := 1; k_flags := 0; k_qd := [qa [[97; 98]]] |}.
Example obs_stun_collision :
  query_wf x_stun = true /\ all_in_a (k_qd x_stun) = true /\
  ser_query x_stun = [0; 1; 0; 0; 0; 1; 0; 0; 0; 0; 0; 0; 2; 97; 98; 0; 0; 1; 0; 1] /\
  udp_id the_env (ser_query x_stun) = Some PROTO_STUN /\
  dns_out (ser_query x_stun) =
    Some [1; 1; 0; 12; 0; 1; 0; 0; 0; 0; 0; 0; 2; 97; 98; 0; 0; 1; 0; 1; 0; 1; 0; 8; 0; 1; 156; 64; 10; 0; 0; 9] /\
  decoded_out (ser_query x_stun) = None /\
  app_ok_C14 the_env (x_ctx4 false) (ser_query x_stun) (dns_out (ser_query x_stun)) = true /\
  app_ok_C14_core (x_ctx4 false) (ser_query x_stun) (dns_out (ser_query x_stun)) = false.
Proof. vm_compute. repeat split; reflexivity. Qed.

(* (b1) a query followed by trailing bytes: answered as if they were absent *)
Example obs_trailing_bytes :
  udp_id the_env (ser_query x_www ++ [222; 173]) = None /\
  classify (ser_query x_www ++ [222; 173]) = Outside /\
  dns_out (ser_query x_www ++ [222; 173]) = dns_out (ser_query x_www).
Proof. vm_compute. repeat split; reflexivity. Qed.

(* (b2) records in a query: answer records are skipped and the questions answered as
   usual (ANCOUNT of the reply = QDCOUNT); any authority / additional record -- e.g. the
   EDNS0 OPT record every modern resolver and dig(1) add by default -- silences the responder *)
Definition x_rr : drr := {| ro := n_www_example_com; rt := 1; rc := 1; rttl := 60; rdata := [1; 2; 3; 4] |}.
Definition x_with_an : dmsg :=
  {| m_id := 4660; m_flags := 256; m_qd := [qa n_www_example_com]; m_an := [x_rr]; m_ns := []; m_ar := [] |}.
Definition x_opt : drr := {| ro := []; rt := 41; rc := 4096; rttl := 0; rdata := [] |}.
Definition x_edns : dmsg :=
  {| m_id := 4660; m_flags := 288; m_qd := [qa n_www_example_com]; m_an := []; m_ns := []; m_ar := [x_opt] |}.
Example obs_records_in_query :
  msg_wf x_with_an = true /\ udp_id the_env (ser_dns x_with_an) = None /\ classify (ser_dns x_with_an) = Outside /\
  dns_out (ser_dns x_with_an) = dns_out (ser_query x_www) /\
  msg_wf x_edns = true /\ udp_id the_env (ser_dns x_edns) = None /\ classify (ser_dns x_edns) = Outside /\
  ser_dns x_edns =
    [18; 52; 1; 32; 0; 1; 0; 0; 0; 0; 0; 1; 3; 119; 119; 119; 7; 101; 120; 97; 109; 112; 108; 101; 3; 99; 111; 109; 0;
     0; 1; 0; 1; 0; 0; 41; 16; 0; 0; 0; 0; 0; 0; 0] /\
  dns_out (ser_dns x_edns) = None.
Proof. vm_compute. repeat split; reflexivity. Qed.

(* (b3) compression pointers in a question name: an octet >= 0x40 in length position is
   kept and the NEXT octet is read as a length again. "c0 00" is therefore taken as a
   complete name and echoed (question and owner name "c0 00": a pointer to the reply's own
   header); "c0 0c" makes the parser wait for 12 more octets: not answered; "c0 02 61 62 00"
   is taken as one name. The reference reader rejects all of them (outside the property). *)
Definition x_ptr00 : bytes := [18; 52; 1; 0; 0; 1; 0; 0; 0; 0; 0; 0; 192; 0; 0; 1; 0; 1].
Definition x_ptr0c : bytes := [18; 52; 1; 0; 0; 1; 0; 0; 0; 0; 0; 0; 192; 12; 0; 1; 0; 1].
Definition x_ptr02 : bytes := [18; 52; 1; 0; 0; 1; 0; 0; 0; 0; 0; 0; 192; 2; 97; 98; 0; 0; 1; 0; 1].
Example obs_compression_pointers :
  classify x_ptr00 = Outside /\ classify x_ptr0c = Outside /\ classify x_ptr02 = Outside /\
  udp_id the_env x_ptr00 = None /\
  dns_out x_ptr00 =
    Some [18; 52; 133; 0; 0; 1; 0; 1; 0; 0; 0; 0; 192; 0; 0; 1; 0; 1; 192; 0; 0; 1; 0; 1; 0; 0; 168; 192; 0; 4; 10; 0; 0; 1] /\
  decoded_out x_ptr00 = None /\
  dns_out x_ptr0c = None /\
  dns_out x_ptr02 =
    Some [18; 52; 133; 0; 0; 1; 0; 1; 0; 0; 0; 0; 192; 2; 97; 98; 0; 0; 1; 0; 1; 192; 2; 97; 98; 0; 0; 1; 0; 1;
          0; 0; 168; 192; 0; 4; 10; 0; 0; 1].
Proof. vm_compute. repeat split; reflexivity. Qed.

(* (b4) IPv6 transport: the same query gets an A record with RDLENGTH 0 (no address) *)
Example obs_ipv6_empty_rdata :
  udp_out (x_ctx6 false) (ser_query x_www) = Some
    [18; 52; 133; 0; 0; 1; 0; 1; 0; 0; 0; 0; 3; 119; 119; 119; 7; 101; 120; 97; 109; 112; 108; 101; 3; 99; 111; 109; 0;
     0; 1; 0; 1; 3; 119; 119; 119; 7; 101; 120; 97; 109; 112; 108; 101; 3; 99; 111; 109; 0; 0; 1; 0; 1;
     0; 0; 168; 192; 0; 0] /\
  app_ok_C14 the_env (x_ctx6 false) (ser_query x_www) (udp_out (x_ctx6 false) (ser_query x_www)) = true.
Proof. vm_compute. split; reflexivity. Qed.

(* (a') reading the published signatures (informal analysis, not a theorem about the
   compiled table): besides the 20-octet STUN layout above, the only signatures a
   well-formed IN/A query can complete within one UDP datagram are HTTP verbs whose
   "VERB /" fits in the ID, the flag word (QR clear) and QDCOUNT: "GET /" and "PUT /"
   (QDCOUNT 0x2f00..0x2fff) and "POST /" / "HEAD /" (QDCOUNT 0x202f) -- e.g. "GE" "T "
   and 12032 questions for the root name, 60172 octets, proved below on the current
   table. STUN with magic cookie, SMB, "SSH-", "DELETE /", "TRACE /" ... need
   ANCOUNT <> 0; the STUN change-request and both ONC-RPC layouts need a zero type or
   class at the end of the question section; "Gh0st" needs more than 29696 questions,
   over 148 KB. *)
Lemma obs_http_collision (qs : list dquestion) :
  (cnt qs / 256) mod 256 = 47 ->
  udp_id the_env (ser_query {| k_id := 18245; k_flags := 21536; k_qd := qs |}) = Some PROTO_HTTP.
Proof.
  intros H. unfold ser_query, ser_header, be16. cbn [k_id k_flags k_qd]. rewrite H.
  cbn [app]. vm_compute. reflexivity.
Qed.

Lemma forallb_repeat {A} (f : A -> bool) (a : A) (n : nat) : f a = true -> forallb f (repeat a n) = true.
Proof. intros H. induction n as [|n IH]; cbn [repeat forallb]; [reflexivity|]. rewrite H, IH. reflexivity. Qed.

Definition x_http : dquery := {| k_id := 18245; k_flags := 21536; k_qd := repeat (qa []) (N.to_nat 12032) |}.
Example obs_http_collision_query :
  query_wf x_http = true /\ all_in_a (k_qd x_http) = true /\ udp_id the_env (ser_query x_http) = Some PROTO_HTTP.
Proof.
  assert (cnt (repeat (qa []) (N.to_nat 12032)) = 12032) as Hc.
  { unfold cnt. rewrite repeat_length. apply N2Nat.id. }
  unfold x_http. split; [|split].
  - unfold query_wf. cbn [k_id k_flags k_qd]. rewrite Hc.
    rewrite forallb_repeat by reflexivity. reflexivity.
  - unfold all_in_a. cbn [k_qd]. apply forallb_repeat. reflexivity.
  - apply obs_http_collision. rewrite Hc. reflexivity.
Qed.

(* ---- whole frames: Ethernet / IPv4 / UDP (port 53) around the payloads above, through
   reply() and the frame-level monitor ---- *)
From MS Require Import L2 Proofs.Pipeline.
Definition x_frame (p : bytes) : bytes :=
  let udp := be16 40000 ++ be16 53 ++ be16 (8 + lenN p) ++ [0; 0] ++ p in
  eth_frame (c_mac x_cfg) [1; 2; 3; 4; 5; 6] 2048 (ipv4_header (20 + lenN udp) 17 [10; 0; 0; 9] [10; 0; 0; 1] ++ udp).
(* (monitor on the model's reply, positive-scope flag, negative-scope flag, monitor on silence) *)
Definition x_run (p : bytes) : option (bool * bool * bool * bool) :=
  match reply the_env x_cfg x_clk [] (x_frame p) with
  | Ok (_, r, _) => Some (ok_C14_udp the_env x_cfg (x_frame p) r, c14_positive_frame the_env x_cfg (x_frame p),
                          c14_negative_frame the_env x_cfg (x_frame p), ok_C14_udp the_env x_cfg (x_frame p) None)
  | Panic _ => None
  end.
Example ex_frames :
  x_run (ser_query x_www) = Some (true, true, false, false) /\
  x_run (ser_query x_three) = Some (true, true, false, false) /\
  x_run (ser_query x_txt) = Some (true, false, true, true) /\
  x_run (firstn 20 (ser_query x_www)) = Some (true, false, true, true) /\
  x_run (ser_query x_stun) = Some (true, false, false, true).
Proof. vm_compute. repeat split; reflexivity. Qed.

(* ---- the statements quoted in Properties/C14.v ---- *)
Lemma sum_examples :
  in_a_answered x_www /\ in_a_answered x_three /\ in_a_answered x_zero /\ in_a_answered x_zbyte /\ in_a_answered x_root /\
  in_a_answered x_l63 /\ (name_len n_max = 255 /\ in_a_answered x_max).
Proof. exact (conj (proj1 ex_www) (conj (proj1 ex_three) (conj (proj1 ex_zero) (conj ex_zero_byte_in_label
         (conj ex_root_name (conj ex_label_63 ex_name_255)))))). Qed.
Lemma sum_examples_negative :
  (query_wf x_txt = true /\ udp_id the_env (ser_query x_txt) = None /\ classify (ser_query x_txt) = NotInA /\
   dns_out (ser_query x_txt) = None) /\
  (let p := ser_query x_www in
   forallb (fun n => match udp_id the_env (firstn n p) with None => true | Some _ => false end) (seq 0 33) = true /\
   forallb (fun n => match classify (firstn n p) with Truncated => true | _ => false end) (seq 0 33) = true /\
   forallb (fun n => match dns_out (firstn n p) with None => true | Some _ => false end) (seq 0 33) = true /\
   length p = 33%nat).
Proof.
  split.
  - destruct ex_not_in_a as (H1 & H2 & H3 & H4 & _). repeat split; assumption.
  - destruct ex_truncated as (H1 & H2 & H3 & H4 & _). repeat split; assumption.
Qed.
Lemma sum_obs_signature_collision :
  query_wf x_stun = true /\ all_in_a (k_qd x_stun) = true /\
  ser_query x_stun = [0; 1; 0; 0; 0; 1; 0; 0; 0; 0; 0; 0; 2; 97; 98; 0; 0; 1; 0; 1] /\
  udp_id the_env (ser_query x_stun) = Some PROTO_STUN /\
  decoded_out (ser_query x_stun) = None /\
  query_wf x_http = true /\ all_in_a (k_qd x_http) = true /\ udp_id the_env (ser_query x_http) = Some PROTO_HTTP.
Proof.
  destruct obs_stun_collision as (H1 & H2 & H3 & H4 & _ & H6 & _).
  destruct obs_http_collision_query as (H7 & H8 & H9). repeat split; assumption.
Qed.
Lemma sum_obs_edns_silent :
  msg_wf x_edns = true /\ udp_id the_env (ser_dns x_edns) = None /\ dns_out (ser_dns x_edns) = None.
Proof. destruct obs_records_in_query as (_ & _ & _ & _ & H1 & H2 & _ & _ & H3). repeat split; assumption. Qed.
Lemma sum_obs_compression_pointers :
  classify x_ptr00 = Outside /\ classify x_ptr0c = Outside /\ classify x_ptr02 = Outside /\
  udp_id the_env x_ptr00 = None /\
  dns_out x_ptr00 =
    Some [18; 52; 133; 0; 0; 1; 0; 1; 0; 0; 0; 0; 192; 0; 0; 1; 0; 1; 192; 0; 0; 1; 0; 1; 0; 0; 168; 192; 0; 4; 10; 0; 0; 1] /\
  decoded_out x_ptr00 = None /\
  dns_out x_ptr0c = None.
Proof. destruct obs_compression_pointers as (H1 & H2 & H3 & H4 & H5 & H6 & H7 & _). repeat split; assumption. Qed.
