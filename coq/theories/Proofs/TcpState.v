(* TcpState.v -- how reply() reads and writes the connection table. *)
From MS Require Import Proofs.Tactics Proofs.Pipeline Proofs.ViewLemmas Proofs.C06
     L2 Spec.View Spec.TcpRef Spec.C06 Spec.C09.

(* ---------- association-list facts ---------- *)
Lemma tbl_mem_In k tb : tbl_mem k tb = true <-> In k (keys tb).
Proof.
  unfold tbl_mem. induction tb as [|[k' v] tb IH]; cbn.
  - split; [discriminate|tauto].
  - destruct (k =? k') eqn:E.
    + split; [intros _; left; lia | reflexivity].
    + rewrite IH. split; [tauto|]. intros [H|H]; [lia|exact H].
Qed.

Lemma keys_tbl_set k v tb :
  keys (tbl_set k v tb) = if tbl_mem k tb then keys tb else keys tb ++ [k].
Proof.
  unfold tbl_mem, keys. induction tb as [|[k' v'] tb IH]; cbn [tbl_set tbl_find map fst app]; [reflexivity|].
  destruct (k =? k') eqn:E; cbn [map fst].
  - f_equal. lia.
  - rewrite IH. destruct (tbl_find k tb); reflexivity.
Qed.

Lemma nodup_tbl_set k v tb : NoDup (keys tb) -> NoDup (keys (tbl_set k v tb)).
Proof.
  intros H. rewrite keys_tbl_set. destruct (tbl_mem k tb) eqn:E; [exact H|].
  assert (~ In k (keys tb)) as Hn by (intros Hx; apply tbl_mem_In in Hx; congruence).
  clear E. induction (keys tb) as [|x l IH]; cbn.
  - constructor; [intros []|constructor].
  - inversion H; subst. constructor.
    + intros Hx. apply in_app_or in Hx. destruct Hx as [Hx|[<-|[]]]; [contradiction|].
      apply Hn. left. reflexivity.
    + apply IH; [assumption|]. intros Hx. apply Hn. right. exact Hx.
Qed.

(* ---------- the data-segment class, for all 512 flag words ---------- *)
Definition data_row_ok (fl : N) : bool :=
  Bool.eqb (is_data fl) (match tcp_class fl with TData => true | _ => false end) &&
  (if fl =? 17 then match tcp_class fl with TFinAck => true | _ => false end else true) &&
  (if (fl =? 16) || (fl =? 4) then match tcp_class fl with TDropAck | TDropRst => true | _ => false end else true) &&
  (match tcp_class fl with TFinAck => fl =? 17 | _ => true end).

Lemma data_table_computed : forallb data_row_ok flag_words = true.
Proof. vm_compute. reflexivity. Qed.

Lemma data_row (fl : N) : fl < 512 -> data_row_ok fl = true.
Proof.
  intros H. pose proof data_table_computed as T. rewrite forallb_forall in T. apply T.
  unfold flag_words. apply in_map_iff. exists (N.to_nat fl). split; [lia|].
  apply in_seq. lia.
Qed.

Lemma is_data_class fl : fl < 512 -> (is_data fl = true <-> tcp_class fl = TData).
Proof.
  intros H. pose proof (data_row fl H) as R. unfold data_row_ok in R.
  repeat (apply andb_true_iff in R; destruct R as [R ?]).
  apply eqb_prop in R. rewrite R. destruct (tcp_class fl); split; congruence.
Qed.

(* ---------- frames that are not TCP segments leave the table alone ---------- *)
Lemma in_scope_v4_conv cfg src dst :
  (match c_self cfg with Some l => negb (ip_in (V4 dst) l) | None => false end) = false ->
  (match c_deny cfg with Some l => ip_in (V4 src) l | None => false end) = false ->
  in_scope_ip cfg (V4 src) (V4 dst) false = true.
Proof.
  unfold in_scope_ip. intros H1 H2. apply andb_true_iff. split.
  - destruct (c_self cfg); [|reflexivity]. rewrite orb_false_r. apply negb_false_iff. exact H1.
  - destruct (c_deny cfg); [|reflexivity]. rewrite H2. reflexivity.
Qed.

Lemma in_scope_v6_conv cfg src dst b :
  (match c_self cfg with Some l => negb (ip_in (V6 dst) l) && negb b | None => false end) = false ->
  (match c_deny cfg with Some l => ip_in (V6 src) l | None => false end) = false ->
  in_scope_ip cfg (V6 src) (V6 dst) b = true.
Proof.
  unfold in_scope_ip. intros H1 H2. apply andb_true_iff. split.
  - destruct (c_self cfg); [|reflexivity]. destruct (ip_in (V6 dst) l); [reflexivity|].
    destruct b; [reflexivity|discriminate].
  - destruct (c_deny cfg); [|reflexivity]. rewrite H2. reflexivity.
Qed.

Lemma non_tcp_leaves_table E cfg clk tb f tb' r evs :
  view_tcp cfg f = None ->
  reply E cfg clk tb f = Ok (tb', r, evs) ->
  tb' = tb.
Proof.
  intros Hv H. unfold reply, eth_repl in H. unfold view_tcp, view in Hv.
  destruct (length f <? 14)%nat; [inversion H; reflexivity|].
  destruct (auth_mac cfg (slice 0 6 f)); cbn [negb] in *; [|inversion H; reflexivity].
  destruct (u16_at 12 f =? 2054) eqn:Ea.
  { destruct (length (skipn 14 f) <? 28)%nat; [inversion H; reflexivity|].
    destruct (arp_repl cfg (skipn 14 f)) as [[x|] e]; inversion H; reflexivity. }
  destruct (u16_at 12 f =? 2048) eqn:E4.
  { destruct (length (skipn 14 f) <? 20)%nat; [inversion H; reflexivity|].
    unfold ipv4_repl in H.
    destruct (match c_self cfg with Some l => negb (ip_in (V4 (slice 16 4 (skipn 14 f))) l) | None => false end) eqn:Es;
      [inversion H; reflexivity|].
    destruct (match c_deny cfg with Some l => ip_in (V4 (slice 12 4 (skipn 14 f))) l | None => false end) eqn:Ed;
      [inversion H; reflexivity|].
    rewrite (in_scope_v4_conv _ _ _ Es Ed) in Hv. cbn [v_proto v_l4] in Hv.
    destruct (u8_at 9 (skipn 14 f) =? 1) eqn:P1.
    { destruct (length (ipv4_payload (skipn 14 f)) <? 4)%nat; [inversion H; reflexivity|].
      destruct (icmpv4_repl _ _) as [[x|] e]; inversion H; reflexivity. }
    destruct (u8_at 9 (skipn 14 f) =? 6) eqn:P6.
    { destruct (length (ipv4_payload (skipn 14 f)) <? 20)%nat eqn:L; [inversion H; reflexivity|].
      exfalso. cbn [andb] in Hv.
      assert ((20 <=? length (ipv4_payload (skipn 14 f)))%nat = true) as X by lia.
      rewrite X in Hv. discriminate. }
    destruct (u8_at 9 (skipn 14 f) =? 17) eqn:P17.
    { destruct (length (ipv4_payload (skipn 14 f)) <? 8)%nat; [inversion H; reflexivity|].
      destruct (udp_repl _ _ _ _ _) as [[[c [x|]] e]|s]; cbn [bind] in H; try discriminate.
      - destruct (65535 <? lenN x); [discriminate|]. inversion H; reflexivity.
      - inversion H; reflexivity. }
    inversion H; reflexivity. }
  destruct (u16_at 12 f =? 34525) eqn:E6; [|inversion H; reflexivity].
  destruct (length (skipn 14 f) <? 40)%nat; [inversion H; reflexivity|].
  unfold ipv6_repl in H.
  destruct (match c_self cfg with
            | Some l => negb (ip_in (V6 (slice 24 16 (skipn 14 f))) l) && negb (u8_at 6 (skipn 14 f) =? 58)
            | None => false end) eqn:Es; [inversion H; reflexivity|].
  destruct (match c_deny cfg with Some l => ip_in (V6 (slice 8 16 (skipn 14 f))) l | None => false end) eqn:Ed;
    [inversion H; reflexivity|].
  rewrite (in_scope_v6_conv _ _ _ _ Es Ed) in Hv. cbn [v_proto v_l4] in Hv.
  destruct (u8_at 6 (skipn 14 f) =? 58) eqn:P1.
  { destruct (length (ipv6_payload (skipn 14 f)) <? 4)%nat; [inversion H; reflexivity|].
    destruct (icmpv6_repl _ _ _) as [[[x|] t] e]; inversion H; reflexivity. }
  destruct (u8_at 6 (skipn 14 f) =? 6) eqn:P6.
  { destruct (length (ipv6_payload (skipn 14 f)) <? 20)%nat eqn:L; [inversion H; reflexivity|].
    exfalso. cbn [andb] in Hv.
    assert ((20 <=? length (ipv6_payload (skipn 14 f)))%nat = true) as X by lia.
    rewrite X in Hv. discriminate. }
  destruct (u8_at 6 (skipn 14 f) =? 17) eqn:P17.
  { destruct (length (ipv6_payload (skipn 14 f)) <? 8)%nat; [inversion H; reflexivity|].
    destruct (udp_repl _ _ _ _ _) as [[[c [x|]] e]|s]; cbn [bind] in H; try discriminate; inversion H; reflexivity. }
  inversion H; reflexivity.
Qed.

(* ---------- the data-segment step ---------- *)
Lemma cookie_lt k0 k1 s d sp dp : cookie k0 k1 s d sp dp < 4294967296.
Proof. unfold cookie. apply N.mod_lt. lia. Qed.

Lemma ackno_presents (ack ck : N) :
  ack < 4294967296 -> ck < 4294967296 ->
  (ck =? (if 0 <? ack then ack - 1 else 4294967295)) = (ack =? wrap32 (ck + 1)).
Proof.
  intros Ha Hc. unfold wrap32. destruct (0 <? ack) eqn:E.
  - destruct (N.eq_dec (ck + 1) 4294967296) as [H|H].
    + rewrite H. change (4294967296 mod 4294967296) with 0. lia.
    + rewrite N.mod_small by lia. lia.
  - assert (ack = 0) as -> by lia.
    destruct (N.eq_dec (ck + 1) 4294967296) as [H|H].
    + rewrite H. change (4294967296 mod 4294967296) with 0. lia.
    + rewrite N.mod_small by lia. lia.
Qed.

Lemma tcp_repl_data E cfg clk tb f v tb' ci' out evs :
  bytes_ok (v_l4 v) = true ->
  tcp_class (tcp_flags (v_l4 v)) = TData ->
  tcp_repl E cfg clk tb (l3_ci f v) (v_l4 v) = Ok (tb', ci', out, evs) ->
  let ck := flow_cookie cfg (flow_of v) in
  if negb (tbl_mem ck tb) && negb (presents_cookie cfg v) then tb' = tb /\ out = None
  else exists tc' sp dp fl pl,
      tb' = tbl_set ck tc' tb /\
      out = Some (tcp_header sp dp (u32_at 8 (v_l4 v))
                             (wrap32 (u32_at 4 (v_l4 v) + lenN (tcp_payload (v_l4 v)))) fl ++ pl) /\
      ((fl = ACK + PSH /\ exists ci1 tc0 ci2,
           proto_repl_tcp E clk ci1 tc0 (tcp_payload (v_l4 v)) = Ok (ci2, tc', Some pl)) \/
       (fl = ACK /\ pl = [])).
Proof.
  intros Hok Hc. unfold tcp_repl. rewrite Hc. rewrite cookie_ci_l3.
  cbv zeta. unfold presents_cookie, flow_cookie, flow_of. cbn [fl_src fl_dst fl_sport fl_dport].
  set (ck := cookie (c_key0 cfg) (c_key1 cfg) (v_src v) (v_dst v) (u16_at 0 (v_l4 v)) (u16_at 2 (v_l4 v))).
  rewrite (ackno_presents (u32_at 8 (v_l4 v)) ck (u32_at_lt _ _ Hok) (cookie_lt _ _ _ _ _ _)).
  destruct (negb (tbl_mem ck tb) && negb (u32_at 8 (v_l4 v) =? wrap32 (ck + 1))).
  - intros H. inversion H. split; reflexivity.
  - destruct (proto_repl_tcp _ _ _ _ _) as [[[ci2 tc'] o]|s] eqn:Hp; cbn [bind]; [|discriminate].
    destruct o as [d|];
      (destruct (ci_port_dst ci2) as [sp|]; [|discriminate];
       destruct (ci_port_src ci2) as [dp|]; [|discriminate]);
      intros H; inversion H; subst.
    + exists tc', sp, dp, (ACK + PSH), d. repeat split. left. split; [reflexivity|]. eauto.
    + exists tc', sp, dp, ACK, []. repeat split. right. split; reflexivity.
Qed.

Lemma tcp_repl_nondata_table E cfg clk tb ci p tb' ci' out evs :
  tcp_class (tcp_flags p) <> TData ->
  tcp_repl E cfg clk tb ci p = Ok (tb', ci', out, evs) -> tb' = tb.
Proof.
  intros Hc. unfold tcp_repl. destruct (tcp_class (tcp_flags p)); try congruence; cbv zeta;
    repeat match goal with
    | |- context [match ?x with _ => _ end] => destruct x
    end; intros H; try discriminate; inversion H; reflexivity.
Qed.

(* the table after one frame, whatever the frame *)
Lemma reply_table_step E cfg clk tb f tb' r evs :
  bytes_ok f = true ->
  reply E cfg clk tb f = Ok (tb', r, evs) ->
  match view_tcp cfg f with
  | Some v =>
    let ck := flow_cookie cfg (flow_of v) in
    if is_data (tcp_flags (v_l4 v)) && (tbl_mem ck tb || presents_cookie cfg v)
    then exists tc', tb' = tbl_set ck tc' tb
    else tb' = tb
  | None => tb' = tb
  end.
Proof.
  intros Hf Hr. destruct (view_tcp cfg f) as [v|] eqn:Hvt; [|eapply non_tcp_leaves_table; eassumption].
  destruct (view_tcp_view _ _ _ Hvt) as [Hv Hp].
  pose proof (view_l4_ok _ _ _ Hf Hv) as Hok.
  pose proof (reply_tcp E cfg clk tb f v Hvt) as Hfac. rewrite Hr in Hfac. cbn [strip] in Hfac.
  pose proof (is_data_class _ (tcp_flags_lt _ Hok)) as Hd.
  destruct (tcp_repl E cfg clk tb (l3_ci f v) (v_l4 v)) as [[[[tb2 ci2] out] evs2]|s] eqn:Ht;
    [|discriminate].
  assert (tb' = tb2) as -> by (destruct out; inversion Hfac; reflexivity).
  cbv zeta. destruct (is_data (tcp_flags (v_l4 v))) eqn:Hi; cbn [andb].
  - pose proof (tcp_repl_data _ _ _ _ _ _ _ _ _ _ Hok (proj1 Hd eq_refl) Ht) as X. cbv zeta in X.
    destruct (tbl_mem _ tb); destruct (presents_cookie cfg v); cbn [negb andb orb] in *;
      try (destruct X as (tc' & _ & _ & _ & _ & -> & _); eexists; reflexivity).
    destruct X as [-> _]. reflexivity.
  - eapply tcp_repl_nondata_table; [|exact Ht]. intros C. apply Hd in C. congruence.
Qed.
