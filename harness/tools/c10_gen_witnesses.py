from c10_product import *
import re
# parse K0 in order from the committed file
src=open(os.path.join(COQ,'theories','Spec','C10Known.v')).read()
IN=["I_GET","I_PUT","I_POST","I_HEAD","I_DELETE","I_CONNECT","I_OPTIONS","I_TRACE","I_PATCH","I_STUN_MAGIC","I_STUN_EMPTY","I_STUN_CHANGE","I_SSH2","I_SSH1","I_GHOST","I_RPC_TCP","I_RPC_UDP","I_SMB1","I_SMB2"]
ents=[]
for m in re.finditer(r'\(\((\d+)%nat, \[(.*?)\]\), \{\| k_end := (\w+); k_neg := (\w+); k_bytes := \[(.*?)\]; k_dead := \w+ \|\}\)',src):
    n=int(m.group(1)); live=tuple(IN.index(x.strip()) for x in m.group(2).split(';'))
    e=m.group(3)=='true'; neg=m.group(4)=='true'; bs=[int(x) for x in m.group(5).split(';') if x.strip()]
    ents.append(((n,live),e,neg,bs))
print(len(ents))
K=set()
for rs,e,neg,bs in ents:
    for b in range(256):
        if (b in bs)!=neg: K.add((rs,b))
    if e: K.add((rs,END))
vis,dis,cuts=explore(K,False)
assert not dis
acc={}
for st,a in vis.items(): acc.setdefault(st[1],(st[0],a))
def m_run(s):
    row=0
    for b in s:
        r=m_step(row,b)
        if r[0]=='A': return r[1],None
        row=r[1]
    return None,row
def udp_m(s):
    i,row=m_run(s)
    return i if i is not None else m_end(row)
def r_run(s):
    st=rinit
    for b in s:
        r=ref_step(st,b)
        if r[0]=='A': return r[1],None
        st=r[1]
    return None,st
def udp_r(s):
    i,st=r_run(s)
    return i if i is not None else ref_end(st)
def extend(rs):
    # shortest continuation accepted by ref by a byte; prefer printable-neutral bytes
    q=collections.deque([(rs,())]); seen={rs}
    while q:
        st,w=q.popleft()
        for b in [0x5a,0x00,0x01,0x86]+list(range(256)):
            r=ref_step(st,b)
            if r[0]=='A': return w+(b,)
            if r[1]!=rdead and r[1] not in seen:
                seen.add(r[1]); q.append((r[1],w+(b,)))
    return None
wit=[]
for rs,e,neg,bs in ents:
    row,a=acc[rs]
    if e and not [b for b in range(256) if (b in bs)!=neg]:
        s=a; assert udp_m(s)!=udp_r(s); wit.append(s); continue
    cands=[b for b in [0x5a]+list(range(256)) if (b in bs)!=neg]
    ok=None
    for b in cands:
        r=ref_step(rs,b)
        if r[0]=='A': s=a+(b,)
        else:
            if r[1]==rdead: continue
            w=extend(r[1])
            if w is None:
                # only END acceptance possible
                continue
            s=a+(b,)+w
        if m_run(s)[0]!=r_run(s)[0] or udp_m(s)!=udp_r(s): ok=s;break
    assert ok is not None,(rs)
    wit.append(ok)
with open('k0_wit.v','w') as f:
    f.write("Definition K0_witnesses : list bytes := [\n")
    f.write(";\n".join("  ["+"; ".join(str(b) for b in s)+"]" for s in wit))
    f.write("\n].\n")
for (rs,e,neg,bs),s in list(zip(ents,wit))[:5]+list(zip(ents,wit))[-25:]:
    print(name(rs), bytes(s).hex(), "tcp", m_run(s)[0], r_run(s)[0], "udp", udp_m(s), udp_r(s))
