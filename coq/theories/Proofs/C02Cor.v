(* Proofs/C02Cor.v -- the identity clause of C02 as plain statements about the
   decoded reply (no monitor in the statement). Corollaries of
   [scope_and_identity]. *)
From MS Require Import L2 Spec.View Spec.RefDec Spec.C02 Proofs.C02.

Section Cor.
  Variables (E : env) (cfg : config) (clk : clock) (tb tb' : table) (f rf : bytes)
            (evs : list event) (l : list ipaddr).
  Hypothesis Hcfg : cfg_ok cfg = true.
  Hypothesis Hf : bytes_ok f = true.
  Hypothesis Hr : reply E cfg clk tb f = Ok (tb', Some rf, evs).
  Hypothesis Hl : c_self cfg = Some l.

  Lemma ident : identities_ok cfg rf = true.
  Proof.
    pose proof (scope_and_identity _ _ _ _ _ _ _ _ Hcfg Hf Hr) as H.
    unfold ok_C02 in H. apply andb_prop in H. exact (proj2 H).
  Qed.

  (* an ARP reply speaks for an address of the self-IP list *)
  Lemma arp_reply_identity e :
    dec_eth rf = Some e -> de_type e = 2054 ->
    exists a, dec_arp (de_payload e) = Some a /\ ip_in (V4 (da_spa a)) l = true.
  Proof.
    intros He Ht. pose proof ident as H. unfold identities_ok in H.
    rewrite Hl, He, Ht, N.eqb_refl in H.
    destruct (dec_arp (de_payload e)) as [a|]; [|discriminate].
    exists a; split; [reflexivity|exact H].
  Qed.

  (* an IP reply leaves from an address of the self-IP list *)
  Lemma ip_reply_identity e :
    dec_eth rf = Some e -> de_type e <> 2054 ->
    exists i, dec_ip e = Some i /\
              ip_in (if di_v4 i then V4 (di_src i) else V6 (di_src i)) l = true.
  Proof.
    intros He Ht. pose proof ident as H. unfold identities_ok in H.
    apply N.eqb_neq in Ht. rewrite Hl, He, Ht in H.
    destruct (dec_ip e) as [i|]; [|discriminate].
    exists i; split; [reflexivity|]. apply andb_prop in H. exact (proj1 H).
  Qed.

  (* a neighbour advertisement advertises a target of the self-IP list *)
  Lemma na_reply_identity e i :
    dec_eth rf = Some e -> de_type e <> 2054 -> dec_ip e = Some i ->
    di_v4 i = false -> di_proto i = 58 -> u8_at 0 (di_payload i) = 136 ->
    ip_in (V6 (firstn 16 (skipn 8 (di_payload i)))) l = true.
  Proof.
    intros He Ht Hi H4 Hp H136. pose proof ident as H. unfold identities_ok in H.
    apply N.eqb_neq in Ht. rewrite Hl, He, Ht, Hi in H.
    apply andb_prop in H. destruct H as [_ H].
    rewrite H4, Hp, H136 in H. cbn [negb andb] in H. rewrite !N.eqb_refl in H. exact H.
  Qed.
End Cor.
