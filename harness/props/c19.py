"""C19 -- any port, either IP version: answers do not depend on where they were asked."""
import struct
import net, gens, runner
from common import *
from runner import Script, Cfg

ID = "C19"
NO_GAPS = True    # scripts are sets of independent frames (one payload over many transports and ports), not histories
THEOREMS = ["C19_udp_context_free", "C19_tcp_first_context_free", "C19_answered_context_free",
            "C19_constant_responders", "C19_rpc_endpoint_free", "C19_stun_shape", "C19_dns_prefix",
            "C19_frames_same_payload"]
MONITORS = []
RULE = ("every application payload (seeds of all protocols, prefixes and single-byte mutations of them, junk) is sent "
        "over UDP and as first TCP data segment to >= 24 (quick) / 64 (thorough) port pairs including 0, 53, 80, 111, 445, "
        "3478, 65535 and random ones, over IPv4 and IPv6 with several address pairs; the implementation's replies are "
        "masked by an independent Python reading (STUN MAPPED-ADDRESS + lengths, successful portmapper results + record "
        "mark, DNS RDLENGTH/RDATA, Date header) and must be identical across all contexts of one transport "
        "(metamorphic); each reply is also compared byte for byte with the model's; non-trivial = payload that is "
        "answered in at least one context")
TRUSTED = ["Coq 8.16.1 kernel + vm_compute", "extraction (ExtrOcamlBasic) + ocaml/model_run.ml", "harness/*.py (incl. the masks)",
           "Rust hook verif_driver.rs", "pnet accessor semantics as modelled"]
ASSUMPTIONS = ["the theorems speak about the application layer (proto_repl_udp / first TCP data segment): the core of a reply "
               "is computed by functions that take no address, port or IP-version argument; frames reach that layer by "
               "C02/C03/C07"]

PORTS = [0, 1, 22, 53, 80, 111, 443, 445, 3478, 8080, 65534, 65535]
ADDRS4 = [("10.0.0.9", "10.0.0.1"), ("192.168.255.254", "1.2.3.4")]
ADDRS6 = [("2001:db8::9", "2001:db8::1"), ("fe80::1", "::ffff:10.0.0.1"), ("::2", "ff02::5")]


def corpus():
    return []


def payloads(rng, tier):
    out = []
    for name, p, t, u in gens.app_seeds():
        out.append((name, p))
    out.append(("rpc-getaddr-v4", gens.rpc_call(xid=0xa1b2c3d4, vers=4, proc=3)))
    out.append(("rpc-null", gens.rpc_call(xid=0xa1b2c3d4, vers=2, proc=0)))
    out.append(("rpc-badvers", gens.rpc_call(xid=0xa1b2c3d4, vers=9, proc=3)))
    out.append(("rpc-otherprog", gens.rpc_call(xid=0xa1b2c3d4, prog=100005, vers=3, proc=1)))
    out.append(("rpc-tcp-dump", gens.rpc_call(xid=0xa1b2c3d4, vers=3, proc=4, tcp=True)))
    out.append(("rpc-tcp-getport", gens.rpc_call(xid=0xa1b2c3d4, vers=2, proc=3, tcp=True)))
    # polyglots: one payload that is a valid request of TWO protocols (signature dispatch must win everywhere,
    # also on the "natural" port of the other protocol)
    out.append(("polyglot-stun3489-dns", bytes.fromhex("0001000000010000000000000261620000010001")))
    out.append(("polyglot-stun3489-dns-2", bytes.fromhex("00010000000100000000000003777777" "0000010001")[:20]))
    out.append(("polyglot-stun-magic-dns", bytes.fromhex("000100002112a442") + b"\0" * 12))
    out.append(("dns-3q", gens.dns_query(names=(b"a.b", b"c.d.e", b"x"))))
    out.append(("dns-txt", gens.dns_query(qtype=16)))
    out.append(("dns-aaaa", gens.dns_query(qtype=28)))
    out.append(("dns-any", gens.dns_query(qtype=255)))
    q = gens.dns_query(names=(b"a.b", b"c.d"))
    out.append(("dns-a-then-aaaa", q[:-4] + b"\0\x1c\0\1"))          # second question AAAA
    out.append(("http-post", gens.http_req(verb=b"POST", target=b"/x?y=z", headers=[(b"A", b"b")])))
    import props.c01 as c01
    out.append(("smb1-neg", c01.SMB1_NEG))
    out.append(("smb2-neg", c01.SMB2_NEG))
    n = 10 if tier == "quick" else 150
    seeds = list(out)
    for i in range(n):
        name, p = rng.choice(seeds)
        out.append(("mut:" + name, gens.mutate_bytes(rng, p, rng.randrange(1, 3))))
        if p:
            out.append(("prefix:" + name, p[:rng.randrange(len(p) + 1)]))
    return out


def contexts(rng, tier):
    n_rand = 6 if tier == "quick" else 40
    pairs = [(sp, dp) for sp in (40000, 0, 65535) for dp in PORTS[: (8 if tier == "quick" else len(PORTS))]]
    pairs += [(rng.randrange(65536), rng.randrange(65536)) for _ in range(n_rand)]
    ctx = []
    for i, (sp, dp) in enumerate(pairs):
        a4 = ADDRS4[i % len(ADDRS4)]
        a6 = ADDRS6[i % len(ADDRS6)]
        ctx.append((a4[0], a4[1], sp, dp))
        ctx.append((a6[0], a6[1], sp, dp))
        if i % 4 == 0:        # an IPv6 flow between the IPv4-mapped forms of the same two addresses, same ports
            ctx.append(("::ffff:" + a4[0], "::ffff:" + a4[1], sp, dp))
    return ctx


KEY = (11, 12)


def generate(tier, rng):
    ctx = contexts(rng, tier)
    for name, p in payloads(rng, tier):
        fr = [net.frame_udp(s, d, sp, dp, p) for (s, d, sp, dp) in ctx]
        yield Script(Cfg(key=KEY), fr, "udp:" + name)
        fr = []
        for (s, d, sp, dp) in ctx:
            fr += gens.handshake(KEY, s, d, sp, dp, [p])[1:]     # only the data segment (the cookie needs no SYN)
        yield Script(Cfg(key=KEY), fr, "tcp:" + name)


def nontrivial(script):
    return True


def project(script, i, o):
    return None


# ---------- independent masks ----------
def mask_dns(r):
    try:
        qd, an = struct.unpack("!HH", r[4:8])
        i = 12
        for _ in range(qd):
            while r[i] != 0:
                i += 1
            i += 5
        out = bytearray(r[:i])
        for _ in range(an):
            j = i
            while r[j] != 0:
                j += 1
            j += 1 + 8          # name, type, class, ttl
            rdlen = struct.unpack("!H", r[j:j + 2])[0]
            out += r[i:j] + b"LL" + b""
            i = j + 2 + rdlen
        if i != len(r):
            return ("dns-unparsed", r)
        return ("dns", bytes(out))
    except Exception:
        return ("dns-unparsed", r)


def mask_app(req, r, tcp):
    if r is None:
        return None
    if r[:2] == b"\x01\x01" and len(r) >= 24 and req[:2] == b"\x00\x01":
        return ("stun", r[:2], r[4:20], r[20:22])
    if req[:4] not in (b"GET ", b"POST", b"SSH-", b"Gh0s") and not tcp and len(r) >= 12 and len(req) >= 12 and r[:2] == req[:2] \
            and (r[2] & 0x80) and r[4:6] == req[4:6] and req[4:8] != b"\0\0\0\0":
        return mask_dns(r)
    # ONC-RPC reply (with or without a record mark, whatever the transport): xid, REPLY, MSG_ACCEPTED, verifier, accept_stat
    for skip in (0, 4):
        body, rq = r[skip:], req[skip:]
        if len(body) >= 24 and body[:4] == rq[:4] and body[4:8] == b"\0\0\0\1" and len(rq) >= 24 and rq[4:8] == b"\0\0\0\0" \
                and (skip == 0 or (r[0] & 0x80)):
            if body[20:24] == b"\0\0\0\0" and rq[12:16] == struct.pack("!I", 100000) and rq[20:24] in (b"\0\0\0\3", b"\0\0\0\4"):
                return ("rpc-portmap", body[:24])
            return ("rpc", body)
    return ("raw", runner.mask_app(r))


def payload_of(script):
    f = script.frames[0]
    p = net.parse_frame(f)
    return p.app


def evaluate_custom(scripts, drivers):
    issues = []
    stats = {"frames": 0, "replies": 0, "silence": 0, "panics": 0, "monitor_evals": 0, "answered_payloads": 0,
             "classes": {}}
    for dname, driver in drivers:
        io = runner.run_impl(scripts, driver)
        mo = runner.run_model(scripts, io, ovf=(dname == "dev"))
        for si, s in enumerate(scripts):
            tcp = s.tag.startswith("tcp:")
            req = payload_of(s)
            masked = []
            for fi in range(len(s.frames)):
                a, b = io[si][fi], mo[si][fi]
                stats["frames"] += 1
                stats["replies" if a.kind == "R" else "silence" if a.kind == "N" else "panics"] += 1
                app = None
                if a.kind == "R":
                    pr = net.parse_frame(a.reply)
                    app = pr.app if (pr is not None and pr.app) else None
                masked.append((a.kind if a.kind == "P" else "ok", mask_app(req, app, tcp)))
                nf = lambda r: tuple(runner.mask_app(x) if isinstance(x, (bytes, bytearray)) else x
                                     for x in net.norm_frame(r))
                ra = ("R",) + nf(a.reply) if a.kind == "R" else (a.kind,)
                rb = ("R",) + nf(b.reply) if b.kind == "R" else (b.kind,)
                if ra != rb:
                    issues.append({"kind": "correspondence", "script": Script(s.cfg, [s.frames[fi]], s.tag), "frame": 0,
                                   "driver": dname, "impl": a.short(), "model": b.short()})
            stats["monitor_evals"] += 1
            cls = masked[0][1][0] if masked[0][1] else "silent"
            stats["classes"][cls] = stats["classes"].get(cls, 0) + 1
            if any(m[1] is not None for m in masked):
                stats["answered_payloads"] += 1
            for fi, m in enumerate(masked):
                if m != masked[0]:
                    issues.append({"kind": "monitor", "script": Script(s.cfg, [s.frames[0], s.frames[fi]], s.tag),
                                   "frame": 1, "driver": dname, "monitor": "C19-metamorphic",
                                   "impl": repr(m)[:300], "model": repr(masked[0])[:300]})
                    break
    return issues, stats
