(* Proofs/C18Table.v -- the converse of the identification obligation for the
   CURRENT tables: the compiled protocol matcher reports SSH (Gh0st) for a
   payload only if the payload starts with "SSH-2.0" or "SSH-1.99" ("Gh0st").

   Method (a small instance of the product check planned for C10, specialised to
   one id and a set of literal prefixes):
   - [safe] marks rows from which no row carrying [id] can be reached by byte
     symbols or by the end anchor; that it is closed under the transitions is
     CHECKED by computation ([safe_closed]), so how it was computed is irrelevant;
   - [guard] walks the trie of the literals from BASE_STATE and checks, for every
     byte value at every trie node, that a byte which continues no literal leads
     to a safe row, and that rows on the way do not carry [id] (nor does their
     end-anchor successor);
   - soundness of the two checks is proved once, for every table; the checks are
     decided by vm_compute on gen/Tables.v. *)
From MS Require Import Proofs.Tactics Proto Spec.AppView Spec.C18 Instance Proofs.C18 Proofs.C18Instance.

Definition has_id (t : smack) (id row : N) : bool := existsb (N.eqb id) (sm_ids t row).
(* the columns an input byte / the end of a datagram can select *)
Definition cols (t : smack) : list N := sm_sym t CHAR_ANCHOR_END :: firstn 256 (sm_c2s t).
Definition safeb (safe : list bool) (row : N) : bool := nth (N.to_nat row) safe false.
Definition fin_id (t : smack) (id row : N) : bool :=
  has_id t id row || has_id t id (sm_next t row (sm_sym t CHAR_ANCHOR_END)).

Definition safe_closed (t : smack) (id : N) (safe : list bool) : bool :=
  forallb (fun r => negb (safeb safe r) ||
                    (negb (has_id t id r) && forallb (fun c => safeb safe (sm_next t r c)) (cols t)))
          (map N.of_nat (seq 0 (length safe))).

(* one way to obtain a candidate: backward reachability, n rounds *)
Definition rows_of (t : smack) : list N := map N.of_nat (seq 0 (length (sm_trans t))).
Definition unsafe_step (t : smack) (u : list bool) : list bool :=
  map (fun r => safeb u r || existsb (fun c => safeb u (sm_next t r c)) (cols t)) (rows_of t).
Fixpoint iter {A} (n : nat) (f : A -> A) (x : A) : A :=
  match n with O => x | S k => iter k f (f x) end.
Definition compute_safe (t : smack) (id : N) (n : nat) : list bool :=
  map negb (iter n (unsafe_step t) (map (has_id t id) (rows_of t))).

Definition tails (b : N) (lits : list bytes) : list bytes :=
  flat_map (fun l => match l with x :: r => if x =? b then [r] else [] | [] => [] end) lits.
Definition done (lits : list bytes) : bool :=
  existsb (fun l => match l with [] => true | _ :: _ => false end) lits.
Definition bytes256 : list N := map N.of_nat (seq 0 256).

Fixpoint guard (fuel : nat) (t : smack) (id : N) (safe : list bool) (row : N) (lits : list bytes) : bool :=
  match fuel with
  | O => false
  | S f =>
    done lits ||
    (negb (fin_id t id row) &&
     forallb (fun b =>
                let row' := sm_next t row (sm_sym t (N.to_nat b)) in
                match tails b lits with
                | [] => safeb safe row'
                | ls => if sm_match_limit t <=? row' then done ls || negb (fin_id t id row')
                        else guard f t id safe row' ls
                end) bytes256)
  end.

Definition tbl_shape (t : smack) : bool :=
  forallb (forallb (fun x => x <? TWO24)) (sm_trans t) && (256 <=? length (sm_c2s t))%nat.

(* ---- soundness ---- *)
Section Sound.
Variables (t : smack) (id : N) (safe : list bool).
Hypothesis Hclosed : safe_closed t id safe = true.
Hypothesis Hshape : tbl_shape t = true.

Lemma safe_spec r : safeb safe r = true ->
  has_id t id r = false /\ forall c, In c (cols t) -> safeb safe (sm_next t r c) = true.
Proof.
  intros Hr. unfold safe_closed in Hclosed. rewrite forallb_forall in Hclosed.
  assert (Hin : In r (map N.of_nat (seq 0 (length safe)))).
  { unfold safeb in Hr. destruct (Nat.lt_ge_cases (N.to_nat r) (length safe)) as [Hlt | Hge].
    - apply in_map_iff. exists (N.to_nat r). split; [apply N2Nat.id | apply in_seq; lia].
    - rewrite nth_overflow in Hr by exact Hge. discriminate. }
  specialize (Hclosed r Hin). rewrite Hr in Hclosed. cbn [negb orb] in Hclosed.
  apply andb_true_iff in Hclosed. destruct Hclosed as [H1 H2].
  split; [apply negb_true_iff; exact H1 | rewrite forallb_forall in H2; exact H2].
Qed.

Lemma sym_in_cols b : b < 256 -> In (sm_sym t (N.to_nat b)) (cols t).
Proof.
  intros Hb. right. unfold sm_sym.
  apply andb_true_iff in Hshape. destruct Hshape as [_ Hl]. apply Nat.leb_le in Hl.
  assert (Hn : (N.to_nat b < 256)%nat) by lia.
  rewrite <- (firstn_skipn 256 (sm_c2s t)) at 1.
  rewrite app_nth1 by (rewrite firstn_length_le; lia).
  apply nth_In. rewrite firstn_length_le; lia.
Qed.

Lemma safe_fin r : safeb safe r = true -> fin_id t id r = false.
Proof.
  intros Hr. destruct (safe_spec r Hr) as [H1 H2]. unfold fin_id. rewrite H1. cbn [orb].
  apply (safe_spec _ (H2 _ (or_introl eq_refl))).
Qed.

Lemma safe_inner px : forall row n, safeb safe row = true -> bytes_ok px = true ->
  safeb safe (snd (inner_match t row px n)) = true.
Proof.
  induction px as [|b rest IH]; intros row n Hr Hok; [exact Hr|].
  cbn [bytes_ok forallb] in Hok. apply andb_true_iff in Hok. destruct Hok as [Hb Hrest].
  unfold byte_ok in Hb. apply N.ltb_lt in Hb.
  cbn [inner_match].
  pose proof (proj2 (safe_spec row Hr) _ (sym_in_cols b Hb)) as Hn.
  destruct (sm_match_limit t <=? sm_next t row (sm_sym t (N.to_nat b))); [exact Hn|].
  apply IH; assumption.
Qed.

Lemma tails_spec b lits r : In r (tails b lits) -> In (b :: r) lits.
Proof.
  unfold tails. rewrite in_flat_map. intros (l & Hl & Hr).
  destruct l as [|x l']; [destruct Hr|]. destruct (x =? b) eqn:Hx; [|destruct Hr].
  apply N.eqb_eq in Hx. subst x. destruct Hr as [<- | []]. exact Hl.
Qed.

Lemma done_spec lits : done lits = true -> In [] lits.
Proof.
  unfold done. rewrite existsb_exists. intros (l & Hl & H). destruct l; [exact Hl | discriminate].
Qed.

Lemma in_bytes256 b : b < 256 -> In b bytes256.
Proof.
  intros Hb. unfold bytes256. apply in_map_iff. exists (N.to_nat b).
  split; [apply N2Nat.id | apply in_seq; lia].
Qed.

Lemma guard_sound fuel : forall row lits px n,
  guard fuel t id safe row lits = true -> bytes_ok px = true ->
  fin_id t id (snd (inner_match t row px n)) = true ->
  exists l, In l lits /\ is_prefix l px = true.
Proof.
  induction fuel as [|f IH]; intros row lits px n Hg Hok Hfin; [discriminate|].
  cbn [guard] in Hg. apply orb_true_iff in Hg. destruct Hg as [Hd | Hg].
  { exists []. split; [apply done_spec; exact Hd | reflexivity]. }
  apply andb_true_iff in Hg. destruct Hg as [Hrow Hall]. apply negb_true_iff in Hrow.
  destruct px as [|b rest].
  { cbn [inner_match snd] in Hfin. congruence. }
  cbn [bytes_ok forallb] in Hok. apply andb_true_iff in Hok. destruct Hok as [Hb Hrest].
  unfold byte_ok in Hb. apply N.ltb_lt in Hb.
  rewrite forallb_forall in Hall. specialize (Hall b (in_bytes256 b Hb)). cbv zeta in Hall.
  cbn [inner_match] in Hfin.
  destruct (tails b lits) as [|l0 ls0] eqn:Ht.
  - (* no literal continues with b: the next row is safe, and so is every later one *)
    exfalso.
    destruct (sm_match_limit t <=? sm_next t row (sm_sym t (N.to_nat b))).
    + cbn [snd] in Hfin. rewrite (safe_fin _ Hall) in Hfin. discriminate.
    + rewrite (safe_fin _ (safe_inner rest _ (S n) Hall Hrest)) in Hfin. discriminate.
  - destruct (sm_match_limit t <=? sm_next t row (sm_sym t (N.to_nat b))).
    + cbn [snd] in Hfin. rewrite Hfin in Hall. cbn [negb] in Hall. rewrite orb_false_r in Hall.
      apply done_spec in Hall. rewrite <- Ht in Hall. apply tails_spec in Hall.
      exists [b]. split; [exact Hall|]. cbn [is_prefix]. rewrite N.eqb_refl. reflexivity.
    + destruct (IH _ _ rest (S n) Hall Hrest Hfin) as (l' & Hl' & Hp).
      rewrite <- Ht in Hl'. apply tails_spec in Hl'.
      exists (b :: l'). split; [exact Hl'|]. cbn [is_prefix]. rewrite N.eqb_refl. exact Hp.
Qed.

Lemma next_lt r c : sm_next t r c < TWO24.
Proof.
  apply andb_true_iff in Hshape. destruct Hshape as [Hall _].
  unfold sm_next.
  destruct (nth_in_or_default (N.to_nat r) (sm_trans t) []) as [Hin | ->].
  - rewrite forallb_forall in Hall. specialize (Hall _ Hin).
    destruct (nth_in_or_default (N.to_nat c) (nth (N.to_nat r) (sm_trans t) []) 0) as [Hin2 | ->].
    + rewrite forallb_forall in Hall. apply N.ltb_lt. exact (Hall _ Hin2).
    + reflexivity.
  - destruct (N.to_nat c); reflexivity.
Qed.

Lemma inner_lt px : forall row n, row < TWO24 -> snd (inner_match t row px n) < TWO24.
Proof.
  induction px as [|b rest IH]; intros row n Hr; [exact Hr|].
  cbn [inner_match]. destruct (sm_match_limit t <=? _); [apply next_lt | apply IH, next_lt].
Qed.

Lemma ids_last row : sm_count t row <> 0 ->
  has_id t (nth (N.to_nat (sm_count t row - 1)) (sm_ids t row) 0) row = true.
Proof.
  unfold sm_count, has_id. intros H. apply existsb_exists.
  exists (nth (N.to_nat (N.of_nat (length (sm_ids t row)) - 1)) (sm_ids t row) 0).
  split; [apply nth_In; lia | apply N.eqb_refl].
Qed.

Variable lits : list bytes.
Variable fuel : nat.
Hypothesis Hguard : guard fuel t id safe 0 lits = true.

Theorem first_id_only_if p :
  bytes_ok p = true ->
  fst (fst (search_next t BASE_STATE p)) = Some id ->
  exists l, In l lits /\ is_prefix l p = true.
Proof.
  intros Hok. unfold search_next.
  change (BASE_STATE mod TWO24) with 0. change (BASE_STATE / TWO24) with 0. cbv zeta.
  change (0 =? 0) with true. cbv iota.
  pose proof (guard_sound fuel 0 lits p 0%nat Hguard Hok) as HG.
  destruct (inner_match t 0 p 0) as [ii row'] eqn:Him. cbn [snd] in HG.
  destruct (sm_count t row' =? 0) eqn:Hc.
  - change (0 =? 0) with true. cbn. discriminate.
  - rewrite Hc. cbn [fst]. intros H. inversion H as [Hid]. apply HG.
    unfold fin_id. apply N.eqb_neq in Hc. pose proof (ids_last row' Hc) as Hl. rewrite Hid in Hl.
    rewrite Hl. reflexivity.
Qed.

Theorem udp_id_only_if p :
  bytes_ok p = true ->
  (let '(i, st, _) := search_next t BASE_STATE p in
   match i with Some i => Some i | None => fst (search_next_end t st) end) = Some id ->
  exists l, In l lits /\ is_prefix l p = true.
Proof.
  intros Hok.
  pose proof (first_id_only_if p Hok) as H1. revert H1. unfold search_next.
  change (BASE_STATE mod TWO24) with 0. change (BASE_STATE / TWO24) with 0. cbv zeta.
  change (0 =? 0) with true. cbv iota.
  pose proof (guard_sound fuel 0 lits p 0%nat Hguard Hok) as HG.
  pose proof (inner_lt p 0 0%nat eq_refl) as Hlt.
  destruct (inner_match t 0 p 0) as [ii row'] eqn:Him. cbn [snd] in HG, Hlt.
  destruct (sm_count t row' =? 0) eqn:Hc.
  - change (0 =? 0) with true. cbv iota. intros _. unfold search_next_end.
    rewrite (N.mod_small row' TWO24 Hlt), (N.div_small row' TWO24 Hlt).
    change (0 =? 255) with false. change (0 =? 0) with true. cbn [negb]. cbv iota zeta.
    destruct (sm_count t (sm_next t row' (sm_sym t CHAR_ANCHOR_END)) =? 0) eqn:Hc2; [discriminate|].
    cbn [fst]. intros H. inversion H as [Hid]. apply HG. unfold fin_id.
    apply N.eqb_neq in Hc2. pose proof (ids_last _ Hc2) as Hl. rewrite Hid in Hl. rewrite Hl.
    apply orb_true_r.
  - rewrite Hc. cbn [fst]. intros H1 H. exact (H1 H).
Qed.
End Sound.

(* ---- the current tables ---- *)
Definition cur_tbl : smack := e_proto_tbl the_env.
Definition ssh_safe : list bool := Eval vm_compute in compute_safe cur_tbl PROTO_SSH 12.
Definition ghost_safe : list bool := Eval vm_compute in compute_safe cur_tbl PROTO_GHOST 12.

Lemma cur_shape : tbl_shape cur_tbl = true.
Proof. vm_compute. reflexivity. Qed.
Lemma cur_ssh_closed : safe_closed cur_tbl PROTO_SSH ssh_safe = true.
Proof. vm_compute. reflexivity. Qed.
Lemma cur_ghost_closed : safe_closed cur_tbl PROTO_GHOST ghost_safe = true.
Proof. vm_compute. reflexivity. Qed.
Lemma cur_ssh_guard : guard 12 cur_tbl PROTO_SSH ssh_safe 0 [S_SSH_20; S_SSH_199] = true.
Proof. vm_compute. reflexivity. Qed.
Lemma cur_ghost_guard : guard 12 cur_tbl PROTO_GHOST ghost_safe 0 [S_GHOST] = true.
Proof. vm_compute. reflexivity. Qed.

Lemma tcp_first_id_fst E p : tcp_first_id E p = fst (fst (search_next (e_proto_tbl E) BASE_STATE p)).
Proof. unfold tcp_first_id. destruct (search_next _ _ _) as [[i st] n]. reflexivity. Qed.

Lemma ssh_lits l p : In l [S_SSH_20; S_SSH_199] -> is_prefix l p = true ->
  (is_prefix S_SSH_20 p || is_prefix S_SSH_199 p) = true.
Proof. intros [<- | [<- | []]] ->; [reflexivity | apply orb_true_r]. Qed.

Theorem current_ssh_iff p : bytes_ok p = true ->
  (tcp_first_id the_env p = Some PROTO_SSH <-> (is_prefix S_SSH_20 p || is_prefix S_SSH_199 p) = true) /\
  (udp_id the_env p = Some PROTO_SSH <-> (is_prefix S_SSH_20 p || is_prefix S_SSH_199 p) = true).
Proof.
  intros Hok.
  assert (Hif : (is_prefix S_SSH_20 p || is_prefix S_SSH_199 p) = true ->
                tcp_first_id the_env p = Some PROTO_SSH /\ udp_id the_env p = Some PROTO_SSH).
  { intros Hp. pose proof the_env_ident_ok as HI. unfold c18_ident_ok in HI.
    apply andb_true_iff in HI. destruct HI as [HI _]. apply andb_true_iff in HI. destruct HI as [H1 H2].
    apply orb_true_iff in Hp. destruct Hp as [Hp | Hp].
    - exact (prefix_identified_sound the_env _ _ p H1 Hp).
    - exact (prefix_identified_sound the_env _ _ p H2 Hp). }
  split; split; try (intros Hp; apply Hif; exact Hp).
  - rewrite tcp_first_id_fst. intros H.
    destruct (first_id_only_if cur_tbl PROTO_SSH ssh_safe cur_ssh_closed cur_shape _ 12%nat cur_ssh_guard p Hok H)
      as (l & Hl & Hp).
    exact (ssh_lits l p Hl Hp).
  - unfold udp_id. intros H.
    destruct (udp_id_only_if cur_tbl PROTO_SSH ssh_safe cur_ssh_closed cur_shape _ 12%nat cur_ssh_guard p Hok H)
      as (l & Hl & Hp).
    exact (ssh_lits l p Hl Hp).
Qed.

Theorem current_ghost_iff p : bytes_ok p = true ->
  (tcp_first_id the_env p = Some PROTO_GHOST <-> is_prefix S_GHOST p = true) /\
  (udp_id the_env p = Some PROTO_GHOST <-> is_prefix S_GHOST p = true).
Proof.
  intros Hok.
  assert (Hif : is_prefix S_GHOST p = true ->
                tcp_first_id the_env p = Some PROTO_GHOST /\ udp_id the_env p = Some PROTO_GHOST).
  { intros Hp. pose proof the_env_ident_ok as HI. unfold c18_ident_ok in HI.
    apply andb_true_iff in HI. destruct HI as [_ H3].
    exact (prefix_identified_sound the_env _ _ p H3 Hp). }
  split; split; try (intros Hp; apply Hif; exact Hp).
  - rewrite tcp_first_id_fst. intros H.
    destruct (first_id_only_if cur_tbl PROTO_GHOST ghost_safe cur_ghost_closed cur_shape _ 12%nat cur_ghost_guard p Hok H)
      as (l & [<- | []] & Hp). exact Hp.
  - unfold udp_id. intros H.
    destruct (udp_id_only_if cur_tbl PROTO_GHOST ghost_safe cur_ghost_closed cur_shape _ 12%nat cur_ghost_guard p Hok H)
      as (l & [<- | []] & Hp). exact Hp.
Qed.
