(* Proofs/C12Own.v -- the responder of protocol X is silent on messages that X marks as
   replies: ONC-RPC (datagram layout, record layout from a message boundary, and on the byte
   stream of a flow), SMB1 and SMB2 (reply flag).  DNS and STUN are in Proofs/C12.v. *)
From MS Require Import Proofs.Tactics Proofs.SmbSafe Proofs.SmbLen
     Smb Rpc Proto Spec.C12 Spec.C12x Spec.C19.

(* ====================================================================== *)
(*                                ONC-RPC                                  *)
(* ====================================================================== *)
Lemma acc4 v a b c d : a < 256 -> b < 256 -> c < 256 -> d < 256 ->
  acc (acc (acc (acc v a) b) c) d = (a * 256 + b) * 65536 + (c * 256 + d).
Proof. intros Ha Hb Hc Hd. unfold acc, wrap32. lia. Qed.

(* once the message type has been read it is never touched again *)
Lemma rpc_byte_frozen s b : 3 <= r_state s ->
  r_mtype (rpc_byte s b) = r_mtype s /\ 3 <= r_state (rpc_byte s b).
Proof.
  intros H. unfold rpc_byte, rd, upd, R_FRAG, R_XID, R_MTYPE, R_RPCVERS, R_PROG, R_PROGVERS, R_PROC,
    R_CFLAVOR, R_CLEN, R_CREDS, R_VFLAVOR, R_VLEN, R_VERIF, R_END in *.
  repeat match goal with
         | |- context [if ?c then _ else _] =>
             let E := fresh "E" in destruct c eqn:E; cbn [r_mtype r_state fst snd andb]
         | |- context [let '(_, _) := ?x in _] => destruct x eqn:?
         end; try (split; [reflexivity|lia]).
  all: exfalso; lia.
Qed.

Lemma rpc_parse_frozen data : forall s, 3 <= r_state s ->
  r_mtype (rpc_parse s data) = r_mtype s /\ 3 <= r_state (rpc_parse s data).
Proof.
  unfold rpc_parse. induction data as [|b t IH]; intros s H; [split; [reflexivity|exact H]|].
  cbn [fold_left]. destruct (rpc_byte_frozen s b H) as [H1 H2].
  destruct (IH _ H2) as [H3 H4]. split; [congruence|exact H4].
Qed.

Lemma rpc_parse_app s a b : rpc_parse s (a ++ b) = rpc_parse (rpc_parse s a) b.
Proof. unfold rpc_parse. apply fold_left_app. Qed.

Lemma bytes_ok_nth_lt (p : bytes) (i : nat) : bytes_ok p = true -> nth i p 0 < 256.
Proof. intros H. exact (u8_at_lt i p H). Qed.

(* datagram layout: the message type is the word at offset 4 *)
Lemma rpc_udp_mtype p : bytes_ok p = true -> (8 <= length p)%nat ->
  r_mtype (rpc_parse (rpc_new R_XID) p) = u32_at 4 p.
Proof.
  intros Hok Hl.
  destruct p as [|b0 [|b1 [|b2 [|b3 [|b4 [|b5 [|b6 [|b7 t]]]]]]]]; cbn [length] in Hl; try lia.
  change (b0 :: b1 :: b2 :: b3 :: b4 :: b5 :: b6 :: b7 :: t) with ([b0; b1; b2; b3; b4; b5; b6; b7] ++ t).
  rewrite rpc_parse_app.
  assert (Hs : rpc_parse (rpc_new R_XID) [b0; b1; b2; b3; b4; b5; b6; b7] =
               {| r_state := R_RPCVERS; r_cur_len := 0; r_data_len := 0;
                  r_xid := acc (acc (acc (acc 0 b0) b1) b2) b3; r_prog := 0; r_progvers := 0; r_proc := 0;
                  r_mtype := acc (acc (acc (acc 0 b4) b5) b6) b7 |}) by (cbv - [acc]; reflexivity).
  rewrite Hs.
  match goal with |- r_mtype (rpc_parse ?s0 t) = _ =>
    destruct (rpc_parse_frozen t s0) as [-> _]; [cbn [r_state]; unfold R_RPCVERS; lia|] end.
  cbn [r_mtype].
  pose proof (bytes_ok_nth_lt _ 4 Hok) as H4. pose proof (bytes_ok_nth_lt _ 5 Hok) as H5.
  pose proof (bytes_ok_nth_lt _ 6 Hok) as H6. pose proof (bytes_ok_nth_lt _ 7 Hok) as H7.
  cbn [nth app] in H4, H5, H6, H7.
  rewrite acc4 by assumption. reflexivity.
Qed.

(* record layout, parser at a message boundary: the word at offset 8 *)
Lemma rpc_tcp_mtype s p : r_state s = R_FRAG -> r_cur_len s = 0 ->
  bytes_ok p = true -> (12 <= length p)%nat ->
  r_mtype (rpc_parse s p) = u32_at 8 p.
Proof.
  intros Hst Hcur Hok Hl.
  destruct p as [|b0 [|b1 [|b2 [|b3 [|b4 [|b5 [|b6 [|b7 [|b8 [|b9 [|b10 [|b11 t]]]]]]]]]]]];
    cbn [length] in Hl; try lia.
  change (b0 :: b1 :: b2 :: b3 :: b4 :: b5 :: b6 :: b7 :: b8 :: b9 :: b10 :: b11 :: t)
    with ([b0; b1; b2; b3; b4; b5; b6; b7; b8; b9; b10; b11] ++ t).
  rewrite rpc_parse_app.
  destruct s as [st cur dl xid pg pv pc mt]. cbn [r_state r_cur_len] in Hst, Hcur. subst st cur.
  assert (Hs : rpc_parse {| r_state := R_FRAG; r_cur_len := 0; r_data_len := dl; r_xid := xid; r_prog := pg;
                            r_progvers := pv; r_proc := pc; r_mtype := mt |}
                 [b0; b1; b2; b3; b4; b5; b6; b7; b8; b9; b10; b11] =
               {| r_state := R_RPCVERS; r_cur_len := 0; r_data_len := dl;
                  r_xid := acc (acc (acc (acc xid b4) b5) b6) b7; r_prog := pg; r_progvers := pv; r_proc := pc;
                  r_mtype := acc (acc (acc (acc mt b8) b9) b10) b11 |}) by (cbv - [acc]; reflexivity).
  rewrite Hs.
  match goal with |- r_mtype (rpc_parse ?s0 t) = _ =>
    destruct (rpc_parse_frozen t s0) as [-> _]; [cbn [r_state]; unfold R_RPCVERS; lia|] end.
  cbn [r_mtype].
  pose proof (bytes_ok_nth_lt _ 8 Hok) as H4. pose proof (bytes_ok_nth_lt _ 9 Hok) as H5.
  pose proof (bytes_ok_nth_lt _ 10 Hok) as H6. pose proof (bytes_ok_nth_lt _ 11 Hok) as H7.
  cbn [nth app] in H4, H5, H6, H7.
  rewrite acc4 by assumption. reflexivity.
Qed.

(* ---- msg_type = REPLY is never answered ---- *)
Theorem rpc_udp_replies_unanswered ip port p :
  bytes_ok p = true -> rpc_reply_typed_udp p = true -> rpc_repl_udp ip port p = None.
Proof.
  intros Hok Ht. unfold rpc_reply_typed_udp in Ht. apply andb_true_iff in Ht. destruct Ht as [Hl Hm].
  unfold rpc_repl_udp. rewrite (rpc_udp_mtype p Hok ltac:(lia)).
  apply N.eqb_eq in Hm. rewrite Hm. change (1 =? 0) with false. rewrite andb_false_r. reflexivity.
Qed.

Theorem rpc_tcp_replies_unanswered s ip port p :
  r_state s = R_FRAG -> r_cur_len s = 0 ->
  bytes_ok p = true -> rpc_reply_typed_tcp p = true -> snd (rpc_repl_tcp s ip port p) = None.
Proof.
  intros Hst Hcur Hok Ht. unfold rpc_reply_typed_tcp in Ht. apply andb_true_iff in Ht. destruct Ht as [Hl Hm].
  unfold rpc_repl_tcp. rewrite (rpc_tcp_mtype s p Hst Hcur Hok ltac:(lia)).
  apply N.eqb_eq in Hm. rewrite Hm. change (1 =? 0) with false.
  destruct (r_state _ =? R_END); reflexivity.
Qed.

(* on the byte stream of a flow: [pre] = the bytes fed to the parser since it last started
   afresh, [data] = the segment now received.  If the message that [pre ++ data] begins is
   not a CALL, the segment is not answered, wherever the segment boundaries fall. *)
Theorem rpc_stream_noncall_unanswered pre data ip port :
  bytes_ok (pre ++ data) = true -> (12 <= length (pre ++ data))%nat -> u32_at 8 (pre ++ data) <> 0 ->
  snd (rpc_repl_tcp (rpc_parse (rpc_new R_FRAG) pre) ip port data) = None.
Proof.
  intros Hok Hl Hm. unfold rpc_repl_tcp. rewrite <- rpc_parse_app.
  rewrite (rpc_tcp_mtype (rpc_new R_FRAG) (pre ++ data) eq_refl eq_refl Hok Hl).
  apply N.eqb_neq in Hm. rewrite Hm. destruct (r_state _ =? R_END); reflexivity.
Qed.

(* an answer on an RPC flow is always an answer to a CALL: the message type word of the
   stream since the last message boundary is 0 *)
Theorem rpc_stream_answer_is_call pre data ip port r :
  bytes_ok (pre ++ data) = true ->
  snd (rpc_repl_tcp (rpc_parse (rpc_new R_FRAG) pre) ip port data) = Some r ->
  (12 <= length (pre ++ data))%nat -> u32_at 8 (pre ++ data) = 0.
Proof.
  intros Hok Hr Hl. destruct (N.eq_dec (u32_at 8 (pre ++ data)) 0) as [E|E]; [exact E|].
  rewrite (rpc_stream_noncall_unanswered pre data ip port Hok Hl E) in Hr. discriminate.
Qed.

(* ====================================================================== *)
(*                                  SMB                                    *)
(* ====================================================================== *)
Lemma read_ule_snd d b v next size width r :
  read_ule d b v next size width = Ok r -> snd r = d_when (d_inc d) next size.
Proof.
  unfold read_ule. destruct (64 <=? _); [discriminate|]. destruct (W64 <=? _); [discriminate|].
  intros H. inversion H. reflexivity.
Qed.

(* ---------- NetBIOS session layer ---------- *)
Section NBT.
Variable T : Type.
Variable t_new : T.
Variable t_byte : T -> N -> res T.

Lemma nbt_head b0 b1 b2 b3 :
  exists s, fold_res (nbt_byte T t_new t_byte) [b0; b1; b2; b3] (nbt_new T) = Ok s /\
            d_st (nb_d T s) = NB_END /\ nb_pay T s = None.
Proof. eexists. split; [cbv; reflexivity|]. split; reflexivity. Qed.

Lemma nbt_tail : forall l s s',
  d_st (nb_d T s) = NB_END ->
  fold_res (nbt_byte T t_new t_byte) l s = Ok s' ->
  (l = [] /\ s' = s) \/
  exists h, fold_res t_byte l (match nb_pay T s with Some p => p | None => t_new end) = Ok h /\
            nb_pay T s' = Some h.
Proof.
  induction l as [|b l IH]; intros s s' Hst H.
  - left. rewrite fold_res_nil in H. inversion H. auto.
  - right. rewrite fold_res_cons in H. rewrite fold_res_cons.
    unfold nbt_byte at 1 in H. rewrite Hst in H.
    change (NB_END =? NB_TYPE) with false in H. change (NB_END =? NB_RESERVED) with false in H.
    change (NB_END =? NB_LENGTH) with false in H. cbv iota in H.
    destruct (t_byte _ b) as [p'|q]; cbn [bind] in *; [|discriminate].
    destruct (IH (set_nb_pay T s (Some p')) s' Hst H) as [[-> ->] | (h & Hh & Hp)].
    + exists p'. split; reflexivity.
    + exists h. split; [exact Hh | exact Hp].
Qed.
End NBT.

(* ---------- SMB1 header: control flow of one byte ---------- *)
Definition h1_next (d : dis) : dis :=
  let st := d_st d in
  if st =? H1_START then d_when (d_inc d) H1_COMMAND 4
  else if st =? H1_COMMAND then d_next H1_STATUS
  else if st =? H1_STATUS then d_when (d_inc d) H1_FLAGS 4
  else if st =? H1_FLAGS then d_next H1_FLAGS2
  else if st =? H1_FLAGS2 then d_when (d_inc d) H1_PIDHIGH 2
  else if st =? H1_PIDHIGH then d_when (d_inc d) H1_SECURITYSIGNATURE 2
  else if st =? H1_SECURITYSIGNATURE then d_when (d_inc d) H1_RESERVED 8
  else if st =? H1_RESERVED then d_when (d_inc d) H1_TID 2
  else if st =? H1_TID then d_when (d_inc d) H1_PIDLOW 2
  else if st =? H1_PIDLOW then d_when (d_inc d) H1_UID 2
  else if st =? H1_UID then d_when (d_inc d) H1_MID 2
  else if st =? H1_MID then d_when (d_inc d) H1_END 2
  else d.

Ltac h1_unf :=
  cbn [set_h1_d set_h1_command set_h1_status set_h1_flags set_h1_flags2 set_h1_pid_high set_h1_tid
       set_h1_pid_low set_h1_uid set_h1_mid set_h1_pay
       h1_d h1_command h1_status h1_flags h1_flags2 h1_pid_high h1_tid h1_pid_low h1_uid h1_mid h1_pay
       fst snd bind] in *.

Lemma hdr1_ctl s b s' :
  hdr1_byte s b = Ok s' -> d_st (h1_d s) <? H1_END = true ->
  h1_d s' = h1_next (h1_d s) /\ h1_pay s' = h1_pay s /\
  h1_flags s' = (if d_st (h1_d s) =? H1_FLAGS then b else h1_flags s).
Proof.
  intros H Hlt. unfold hdr1_byte in H. unfold h1_next. cbv zeta in *.
  repeat match type of H with
         | (if ?c then _ else _) = _ =>
             let E := fresh "E" in destruct c eqn:E
         end;
    try (match type of H with
         | bind ?x _ = _ => let R := fresh "R" in destruct x as [[v d']|q] eqn:R; cbn [bind] in H;
                            [apply read_ule_snd in R; cbn [snd] in R; subst d'|discriminate]
         end);
    try discriminate;
    try (inversion H; subst s'; h1_unf;
         repeat match goal with
                | E : (_ =? _) = true |- _ => apply N.eqb_eq in E
                end;
         repeat match goal with
                | E : d_st (h1_d s) = _ |- _ => rewrite E in *
                end;
         split; [reflexivity|split; reflexivity]).
  (* the payload branch is excluded by the state bound *)
  exfalso. unfold H1_START, H1_COMMAND, H1_STATUS, H1_FLAGS, H1_FLAGS2, H1_PIDHIGH, H1_SECURITYSIGNATURE,
    H1_RESERVED, H1_TID, H1_PIDLOW, H1_UID, H1_MID, H1_END in *. lia.
Qed.

(* the control part of a run over bytes whose values do not matter *)
Fixpoint h1_safe (d : dis) (l : bytes) : bool :=
  match l with [] => true | _ :: t => (d_st d <? H1_END) && h1_safe (h1_next d) t end.
Fixpoint h1_run (d : dis) (l : bytes) : dis :=
  match l with [] => d | _ :: t => h1_run (h1_next d) t end.

Lemma hdr1_run : forall l s s',
  fold_res hdr1_byte l s = Ok s' -> h1_safe (h1_d s) l = true ->
  h1_d s' = h1_run (h1_d s) l /\ h1_pay s' = h1_pay s.
Proof.
  induction l as [|b l IH]; intros s s' H Hs.
  - rewrite fold_res_nil in H. inversion H. split; reflexivity.
  - rewrite fold_res_cons in H. destruct (hdr1_byte s b) as [x|q] eqn:E; cbn [bind] in H; [|discriminate].
    cbn [h1_safe] in Hs. apply andb_true_iff in Hs. destruct Hs as [H1 H2].
    destruct (hdr1_ctl _ _ _ E H1) as (D & P & _).
    rewrite <- D in H2. destruct (IH _ _ H H2) as (D' & P').
    cbn [h1_run]. rewrite D', D, P', P. split; reflexivity.
Qed.

(* after the flags byte: a reply-flagged message never gets a payload parser *)
Definition h1_replyflag (s : hdr1) : Prop :=
  h1_pay s = None /\ N.land (h1_flags s) 128 = 128 /\ H1_FLAGS2 <= d_st (h1_d s).

Lemma h1_next_mono d : H1_FLAGS2 <= d_st d -> H1_FLAGS2 <= d_st (h1_next d).
Proof.
  unfold h1_next, d_when, d_inc, d_next, H1_START, H1_COMMAND, H1_STATUS, H1_FLAGS, H1_FLAGS2, H1_PIDHIGH,
    H1_SECURITYSIGNATURE, H1_RESERVED, H1_TID, H1_PIDLOW, H1_UID, H1_MID, H1_END. cbv zeta. cbn [d_i d_st].
  intros H.
  repeat match goal with
         | |- context [if ?c then _ else _] => destruct c eqn:?; cbn [d_i d_st]
         end; lia.
Qed.

Lemma hdr1_replyflag_step s b s' : hdr1_byte s b = Ok s' -> h1_replyflag s -> h1_replyflag s'.
Proof.
  intros H (P & F & D). destruct (d_st (h1_d s) <? H1_END) eqn:Hlt.
  - destruct (hdr1_ctl _ _ _ H Hlt) as (D' & P' & F').
    assert ((d_st (h1_d s) =? H1_FLAGS) = false) as X by (unfold H1_FLAGS, H1_FLAGS2 in *; lia).
    rewrite X in F'. unfold h1_replyflag. rewrite D', P', F'.
    split; [exact P|]. split; [exact F|]. apply h1_next_mono, D.
  - unfold hdr1_byte in H. cbv zeta in H.
    unfold H1_START, H1_COMMAND, H1_STATUS, H1_FLAGS, H1_FLAGS2, H1_PIDHIGH, H1_SECURITYSIGNATURE,
      H1_RESERVED, H1_TID, H1_PIDLOW, H1_UID, H1_MID, H1_END in *.
    repeat match type of H with
           | (if ?c then _ else _) = _ => let E := fresh "E" in destruct c eqn:E; [exfalso; lia|]
           end.
    unfold hdr1_payload_byte in H. rewrite P in H. apply N.eqb_eq in F. rewrite F in H.
    inversion H; subst s'. split; [exact P|]. split; [apply N.eqb_eq, F|exact D].
Qed.

Lemma hdr1_replyflag_fold : forall l s s',
  fold_res hdr1_byte l s = Ok s' -> h1_replyflag s -> h1_replyflag s'.
Proof.
  induction l as [|b l IH]; intros s s' H I.
  - rewrite fold_res_nil in H. inversion H; subst. exact I.
  - rewrite fold_res_cons in H. destruct (hdr1_byte s b) as [x|q] eqn:E; cbn [bind] in H; [|discriminate].
    exact (IH _ _ H (hdr1_replyflag_step _ _ _ E I)).
Qed.

Lemma testbit_land x m : testbit x m = true -> m = 128 \/ m = 1 -> N.land x m = m.
Proof.
  unfold testbit. intros H [-> | ->]; apply negb_true_iff, N.eqb_neq in H.
  - change 128 with (2 ^ 7) in *. rewrite N.land_comm in *.
    pose proof (N.land_ones x 7). destruct (N.testbit x 7) eqn:T.
    + apply N.bits_inj. intros k. rewrite N.land_spec, N.pow2_bits_eqb.
      destruct (N.eqb_spec 7 k) as [<-|]; [rewrite T; reflexivity|reflexivity].
    + exfalso. apply H. apply N.bits_inj. intros k. rewrite N.land_spec, N.pow2_bits_eqb, N.bits_0.
      destruct (N.eqb_spec 7 k) as [<-|]; [rewrite T; reflexivity|reflexivity].
  - change 1 with (2 ^ 0) in *. rewrite N.land_comm in *.
    destruct (N.testbit x 0) eqn:T.
    + apply N.bits_inj. intros k. rewrite N.land_spec, N.pow2_bits_eqb.
      destruct (N.eqb_spec 0 k) as [<-|]; [rewrite T; reflexivity|reflexivity].
    + exfalso. apply H. apply N.bits_inj. intros k. rewrite N.land_spec, N.pow2_bits_eqb, N.bits_0.
      destruct (N.eqb_spec 0 k) as [<-|]; [rewrite T; reflexivity|reflexivity].
Qed.

(* SMB1: a message with the reply flag (0x80 of Flags) is never answered *)
Theorem smb1_replies_unanswered neg chal ft p o :
  smb1_reply_typed p = true -> smb1_repl neg chal ft p = Ok o -> o = None.
Proof.
  intros Ht H. unfold smb1_reply_typed in Ht.
  apply andb_true_iff in Ht. destruct Ht as [Ht Hbit]. apply andb_true_iff in Ht. destruct Ht as [Hl _].
  destruct p as [|n0 [|n1 [|n2 [|n3 [|m0 [|m1 [|m2 [|m3 [|c [|s0 [|s1 [|s2 [|s3 [|fl t]]]]]]]]]]]]]];
    cbn [length] in Hl; try lia.
  unfold u8_at in Hbit. cbn [nth] in Hbit.
  unfold smb1_repl, nbt_run in H.
  change (n0 :: n1 :: n2 :: n3 :: m0 :: m1 :: m2 :: m3 :: c :: s0 :: s1 :: s2 :: s3 :: fl :: t)
    with ([n0; n1; n2; n3] ++ ([m0; m1; m2; m3; c; s0; s1; s2; s3] ++ [fl] ++ t)) in H.
  rewrite fold_res_app in H.
  destruct (nbt_head hdr1 hdr1_new hdr1_byte n0 n1 n2 n3) as (s4 & E4 & Hst & Hp). rewrite E4 in H. cbn [bind] in H.
  destruct (fold_res _ _ s4) as [sf|q] eqn:Hf; cbn [bind] in H; [|discriminate].
  destruct (nbt_tail _ _ _ _ _ _ Hst Hf) as [[Hnil _] | (h & Hh & Hpay)]; [discriminate|].
  rewrite Hp in Hh.
  rewrite fold_res_app in Hh.
  destruct (fold_res hdr1_byte [m0; m1; m2; m3; c; s0; s1; s2; s3] hdr1_new) as [h9|q] eqn:H9; cbn [bind] in Hh; [|discriminate].
  destruct (hdr1_run _ _ _ H9 eq_refl) as (D9 & P9).
  rewrite fold_res_app in Hh.
  destruct (fold_res hdr1_byte [fl] h9) as [h10|q] eqn:H10; cbn [bind] in Hh; [|discriminate].
  rewrite fold_res_cons in H10.
  destruct (hdr1_byte h9 fl) as [x|q] eqn:E10; cbn [bind] in H10; [|discriminate].
  rewrite fold_res_nil in H10. inversion H10; subst x.
  assert (Hlt : d_st (h1_d h9) <? H1_END = true) by (rewrite D9; reflexivity).
  destruct (hdr1_ctl _ _ _ E10 Hlt) as (D10 & P10 & F10).
  rewrite D9 in D10, F10.
  assert (I10 : h1_replyflag h10).
  { unfold h1_replyflag. rewrite P10, P9, F10, D10. split; [reflexivity|].
    split; [|cbv; discriminate].
    change (d_st (h1_run (h1_d hdr1_new) [m0; m1; m2; m3; c; s0; s1; s2; s3]) =? H1_FLAGS) with true. cbv iota.
    apply testbit_land; [exact Hbit|left; reflexivity]. }
  pose proof (hdr1_replyflag_fold _ _ _ Hh I10) as (Pf & _ & _).
  unfold nbt_repl in H. rewrite Hpay in H. unfold hdr1_repl in H. rewrite Pf in H. inversion H. reflexivity.
Qed.

(* ---------- SMB2 header ---------- *)
Definition h2_next (d : dis) : dis :=
  let st := d_st d in
  if st =? H2_START then d_when (d_inc d) H2_STRUCTURESIZE 4
  else if st =? H2_STRUCTURESIZE then d_when (d_inc d) H2_CREDITSCHARGE 2
  else if st =? H2_CREDITSCHARGE then d_when (d_inc d) H2_STATUS 2
  else if st =? H2_STATUS then d_when (d_inc d) H2_COMMAND 4
  else if st =? H2_COMMAND then d_when (d_inc d) H2_CREDITSREQUESTED 2
  else if st =? H2_CREDITSREQUESTED then d_when (d_inc d) H2_FLAGS 2
  else if st =? H2_FLAGS then d_when (d_inc d) H2_NEXTCOMMAND 4
  else if st =? H2_NEXTCOMMAND then d_when (d_inc d) H2_MESSAGEID 4
  else if st =? H2_MESSAGEID then d_when (d_inc d) H2_ASYNCID 8
  else if st =? H2_ASYNCID then d_when (d_inc d) H2_SESSIONID 8
  else if st =? H2_SESSIONID then d_when (d_inc d) H2_SECURITYSIGNATURE 8
  else if st =? H2_SECURITYSIGNATURE then d_when (d_inc d) H2_END 16
  else d.

Ltac h2_unf :=
  cbn [set_h2_d set_h2_structure_size set_h2_credit_charge set_h2_status set_h2_command
       set_h2_credits_requested set_h2_flags set_h2_next_command set_h2_message_id set_h2_async_id
       set_h2_session_id set_h2_pay
       h2_d h2_structure_size h2_credit_charge h2_status h2_command h2_credits_requested h2_flags
       h2_next_command h2_message_id h2_async_id h2_session_id h2_pay fst snd bind] in *.

(* the low bit of a little-endian accumulator is the low bit of its first byte *)
Lemma read_ule32_parity d b v next r :
  read_ule32 d b v next = Ok r ->
  fst r mod 2 = (v + (if d_i d =? 0 then b else 0)) mod 2.
Proof.
  unfold read_ule32, read_ule. destruct (64 <=? 8 * d_i d) eqn:E64; [discriminate|].
  destruct (W64 <=? _); [discriminate|]. intros H. inversion H. cbn [fst]. clear H.
  rewrite N.shiftl_mul_pow2. destruct (d_i d =? 0) eqn:E0.
  - apply N.eqb_eq in E0. rewrite E0. change (2 ^ (8 * 0)) with 1. rewrite N.mul_1_r.
    unfold W64, W32. lia.
  - assert (Hp : 2 ^ (8 * d_i d) = 256 * 2 ^ (8 * (d_i d - 1))).
    { replace (8 * d_i d) with (8 + 8 * (d_i d - 1)) by lia. rewrite N.pow_add_r. reflexivity. }
    rewrite Hp. set (X := 2 ^ (8 * (d_i d - 1))). clearbody X.
    replace (b * (256 * X)) with (256 * (b * X)) by lia. set (Y := b * X). clearbody Y.
    unfold W64, W32. lia.
Qed.

Lemma hdr2_ctl s b s' :
  hdr2_byte s b = Ok s' -> d_st (h2_d s) <? H2_END = true ->
  h2_d s' = h2_next (h2_d s) /\ h2_pay s' = h2_pay s /\
  (if d_st (h2_d s) =? H2_FLAGS
   then h2_flags s' mod 2 = (h2_flags s + (if d_i (h2_d s) =? 0 then b else 0)) mod 2
   else h2_flags s' = h2_flags s).
Proof.
  intros H Hlt. unfold hdr2_byte in H. unfold h2_next. cbv zeta in *.
  destruct (d_st (h2_d s) =? H2_START) eqn:E0.
  { destruct (4 <=? _); [discriminate|]. inversion H; subst s'. h2_unf.
    apply N.eqb_eq in E0. rewrite E0. repeat split; reflexivity. }
  destruct (d_st (h2_d s) =? H2_STRUCTURESIZE) eqn:E1.
  { destruct (read_ule16 _ _ _ _) as [[v d']|q] eqn:R; cbn [bind] in H; [|discriminate].
    apply read_ule_snd in R. cbn [snd] in R. subst d'. inversion H; subst s'. h2_unf.
    apply N.eqb_eq in E1. rewrite E1. repeat split; reflexivity. }
  destruct (d_st (h2_d s) =? H2_CREDITSCHARGE) eqn:E2.
  { destruct (read_ule16 _ _ _ _) as [[v d']|q] eqn:R; cbn [bind] in H; [|discriminate].
    apply read_ule_snd in R. cbn [snd] in R. subst d'. inversion H; subst s'. h2_unf.
    apply N.eqb_eq in E2. rewrite E2. repeat split; reflexivity. }
  destruct (d_st (h2_d s) =? H2_STATUS) eqn:E3.
  { destruct (read_ule32 _ _ _ _) as [[v d']|q] eqn:R; cbn [bind] in H; [|discriminate].
    apply read_ule_snd in R. cbn [snd] in R. subst d'. inversion H; subst s'. h2_unf.
    apply N.eqb_eq in E3. rewrite E3. repeat split; reflexivity. }
  destruct (d_st (h2_d s) =? H2_COMMAND) eqn:E4.
  { destruct (read_ule16 _ _ _ _) as [[v d']|q] eqn:R; cbn [bind] in H; [|discriminate].
    apply read_ule_snd in R. cbn [snd] in R. subst d'. inversion H; subst s'. h2_unf.
    apply N.eqb_eq in E4. rewrite E4. repeat split; reflexivity. }
  destruct (d_st (h2_d s) =? H2_CREDITSREQUESTED) eqn:E5.
  { destruct (read_ule16 _ _ _ _) as [[v d']|q] eqn:R; cbn [bind] in H; [|discriminate].
    apply read_ule_snd in R. cbn [snd] in R. subst d'. inversion H; subst s'. h2_unf.
    apply N.eqb_eq in E5. rewrite E5. repeat split; reflexivity. }
  destruct (d_st (h2_d s) =? H2_FLAGS) eqn:E6.
  { destruct (read_ule32 _ _ _ _) as [[v d']|q] eqn:R; cbn [bind] in H; [|discriminate].
    pose proof (read_ule32_parity _ _ _ _ _ R) as Hpar. cbn [fst] in Hpar.
    apply read_ule_snd in R. cbn [snd] in R. subst d'. inversion H; subst s'. h2_unf.
    repeat split; try reflexivity. exact Hpar. }
  destruct (d_st (h2_d s) =? H2_NEXTCOMMAND) eqn:E7.
  { destruct (read_ule32 _ _ _ _) as [[v d']|q] eqn:R; cbn [bind] in H; [|discriminate].
    apply read_ule_snd in R. cbn [snd] in R. subst d'. inversion H; subst s'. h2_unf.
    repeat split; reflexivity. }
  destruct (d_st (h2_d s) =? H2_MESSAGEID) eqn:E8.
  { destruct (read_ule64 _ _ _ _) as [[v d']|q] eqn:R; cbn [bind] in H; [|discriminate].
    apply read_ule_snd in R. cbn [snd] in R. subst d'. inversion H; subst s'. h2_unf.
    repeat split; reflexivity. }
  destruct (d_st (h2_d s) =? H2_ASYNCID) eqn:E9.
  { destruct (read_ule64 _ _ _ _) as [[v d']|q] eqn:R; cbn [bind] in H; [|discriminate].
    apply read_ule_snd in R. cbn [snd] in R. subst d'. inversion H; subst s'. h2_unf.
    repeat split; reflexivity. }
  destruct (d_st (h2_d s) =? H2_SESSIONID) eqn:E10.
  { destruct (read_ule64 _ _ _ _) as [[v d']|q] eqn:R; cbn [bind] in H; [|discriminate].
    apply read_ule_snd in R. cbn [snd] in R. subst d'. inversion H; subst s'. h2_unf.
    repeat split; reflexivity. }
  destruct (d_st (h2_d s) =? H2_SECURITYSIGNATURE) eqn:E11.
  { destruct (16 <=? _); [discriminate|]. inversion H; subst s'. h2_unf. repeat split; reflexivity. }
  exfalso. unfold H2_START, H2_STRUCTURESIZE, H2_CREDITSCHARGE, H2_STATUS, H2_COMMAND, H2_CREDITSREQUESTED,
    H2_FLAGS, H2_NEXTCOMMAND, H2_MESSAGEID, H2_ASYNCID, H2_SESSIONID, H2_SECURITYSIGNATURE, H2_END in *. lia.
Qed.

Fixpoint h2_safe (d : dis) (l : bytes) : bool :=
  match l with
  | [] => true
  | _ :: t => (d_st d <? H2_END) && negb (d_st d =? H2_FLAGS) && h2_safe (h2_next d) t
  end.
Fixpoint h2_run (d : dis) (l : bytes) : dis :=
  match l with [] => d | _ :: t => h2_run (h2_next d) t end.

Lemma hdr2_run : forall l s s',
  fold_res hdr2_byte l s = Ok s' -> h2_safe (h2_d s) l = true ->
  h2_d s' = h2_run (h2_d s) l /\ h2_pay s' = h2_pay s /\ h2_flags s' = h2_flags s.
Proof.
  induction l as [|b l IH]; intros s s' H Hs.
  - rewrite fold_res_nil in H. inversion H. repeat split; reflexivity.
  - rewrite fold_res_cons in H. destruct (hdr2_byte s b) as [x|q] eqn:E; cbn [bind] in H; [|discriminate].
    cbn [h2_safe] in Hs. apply andb_true_iff in Hs. destruct Hs as [Hs H2].
    apply andb_true_iff in Hs. destruct Hs as [H1 Hnf]. apply negb_true_iff in Hnf.
    destruct (hdr2_ctl _ _ _ E H1) as (D & P & F). rewrite Hnf in F.
    rewrite <- D in H2. destruct (IH _ _ H H2) as (D' & P' & F').
    cbn [h2_run]. rewrite D', D, P', P, F', F. repeat split; reflexivity.
Qed.

Definition h2_replyflag (s : hdr2) : Prop :=
  h2_pay s = None /\ h2_flags s mod 2 = 1 /\ H2_FLAGS <= d_st (h2_d s) /\
  (d_st (h2_d s) = H2_FLAGS -> d_i (h2_d s) <> 0).

Lemma h2_next_mono d : H2_FLAGS <= d_st d -> (d_st d = H2_FLAGS -> d_i d <> 0) ->
  H2_FLAGS <= d_st (h2_next d) /\ (d_st (h2_next d) = H2_FLAGS -> d_i (h2_next d) <> 0).
Proof.
  unfold h2_next, d_when, d_inc, d_next, H2_START, H2_STRUCTURESIZE, H2_CREDITSCHARGE, H2_STATUS, H2_COMMAND,
    H2_CREDITSREQUESTED, H2_FLAGS, H2_NEXTCOMMAND, H2_MESSAGEID, H2_ASYNCID, H2_SESSIONID,
    H2_SECURITYSIGNATURE, H2_END. cbv zeta. cbn [d_i d_st].
  intros H H0.
  repeat match goal with
         | |- context [if ?c then _ else _] => destruct c eqn:?; cbn [d_i d_st]
         end; lia.
Qed.

Lemma hdr2_replyflag_step s b s' : hdr2_byte s b = Ok s' -> h2_replyflag s -> h2_replyflag s'.
Proof.
  intros H (P & F & D & D0). destruct (d_st (h2_d s) <? H2_END) eqn:Hlt.
  - destruct (hdr2_ctl _ _ _ H Hlt) as (D' & P' & F').
    destruct (h2_next_mono _ D D0) as [M1 M2].
    unfold h2_replyflag. rewrite D', P'. split; [exact P|]. split; [|split; assumption].
    destruct (d_st (h2_d s) =? H2_FLAGS) eqn:X.
    + apply N.eqb_eq in X. specialize (D0 X). apply N.eqb_neq in D0. rewrite D0 in F'.
      rewrite F', N.add_0_r. exact F.
    + rewrite F'. exact F.
  - unfold hdr2_byte in H. cbv zeta in H.
    unfold H2_START, H2_STRUCTURESIZE, H2_CREDITSCHARGE, H2_STATUS, H2_COMMAND, H2_CREDITSREQUESTED,
      H2_FLAGS, H2_NEXTCOMMAND, H2_MESSAGEID, H2_ASYNCID, H2_SESSIONID, H2_SECURITYSIGNATURE, H2_END in *.
    repeat match type of H with
           | (if ?c then _ else _) = _ => let E := fresh "E" in destruct c eqn:E; [exfalso; lia|]
           end.
    unfold hdr2_payload_byte in H. rewrite P in H.
    assert (N.land (h2_flags s) 1 = 1) as L.
    { change 1 with (N.ones 1) at 1. rewrite N.land_ones. exact F. }
    rewrite L in H. change (1 =? 1) with true in H. cbv iota in H.
    inversion H; subst s'. split; [exact P|]. split; [exact F|]. split; assumption.
Qed.

Lemma hdr2_replyflag_fold : forall l s s',
  fold_res hdr2_byte l s = Ok s' -> h2_replyflag s -> h2_replyflag s'.
Proof.
  induction l as [|b l IH]; intros s s' H I.
  - rewrite fold_res_nil in H. inversion H; subst. exact I.
  - rewrite fold_res_cons in H. destruct (hdr2_byte s b) as [x|q] eqn:E; cbn [bind] in H; [|discriminate].
    exact (IH _ _ H (hdr2_replyflag_step _ _ _ E I)).
Qed.

(* SMB2: a message with SMB2_FLAGS_SERVER_TO_REDIR (bit 0 of Flags) is never answered *)
Theorem smb2_replies_unanswered neg chal ft p o :
  smb2_reply_typed p = true -> smb2_repl neg chal ft p = Ok o -> o = None.
Proof.
  intros Ht H. unfold smb2_reply_typed in Ht.
  apply andb_true_iff in Ht. destruct Ht as [Ht Hbit]. apply andb_true_iff in Ht. destruct Ht as [Hl _].
  destruct p as [|n0 [|n1 [|n2 [|n3 [|a0 [|a1 [|a2 [|a3 [|a4 [|a5 [|a6 [|a7 [|a8 [|a9 [|a10 [|a11
                [|a12 [|a13 [|a14 [|a15 [|fl t]]]]]]]]]]]]]]]]]]]]];
    cbn [length] in Hl; try lia.
  unfold u8_at in Hbit. cbn [nth] in Hbit.
  unfold smb2_repl, nbt_run in H.
  change (n0 :: n1 :: n2 :: n3 :: a0 :: a1 :: a2 :: a3 :: a4 :: a5 :: a6 :: a7 :: a8 :: a9 :: a10 :: a11
             :: a12 :: a13 :: a14 :: a15 :: fl :: t)
    with ([n0; n1; n2; n3] ++
          ([a0; a1; a2; a3; a4; a5; a6; a7; a8; a9; a10; a11; a12; a13; a14; a15] ++ [fl] ++ t)) in H.
  rewrite fold_res_app in H.
  destruct (nbt_head hdr2 hdr2_new hdr2_byte n0 n1 n2 n3) as (s4 & E4 & Hst & Hp). rewrite E4 in H. cbn [bind] in H.
  destruct (fold_res _ _ s4) as [sf|q] eqn:Hf; cbn [bind] in H; [|discriminate].
  destruct (nbt_tail _ _ _ _ _ _ Hst Hf) as [[Hnil _] | (h & Hh & Hpay)]; [discriminate|].
  rewrite Hp in Hh.
  rewrite fold_res_app in Hh.
  destruct (fold_res hdr2_byte [a0; a1; a2; a3; a4; a5; a6; a7; a8; a9; a10; a11; a12; a13; a14; a15] hdr2_new)
    as [h16|q] eqn:H16; cbn [bind] in Hh; [|discriminate].
  destruct (hdr2_run _ _ _ H16 eq_refl) as (D16 & P16 & F16).
  clear H16. cbn [app] in Hh. rewrite fold_res_cons in Hh.
  destruct (hdr2_byte h16 fl) as [h17|q] eqn:E17; cbn [bind] in Hh; [|discriminate Hh].
  assert (Hlt : d_st (h2_d h16) <? H2_END = true) by (rewrite D16; reflexivity).
  destruct (hdr2_ctl _ _ _ E17 Hlt) as (D17 & P17 & F17).
  rewrite D16 in D17, F17.
  change (d_st (h2_run (h2_d hdr2_new) [a0; a1; a2; a3; a4; a5; a6; a7; a8; a9; a10; a11; a12; a13; a14; a15])
          =? H2_FLAGS) with true in F17.
  change (d_i (h2_run (h2_d hdr2_new) [a0; a1; a2; a3; a4; a5; a6; a7; a8; a9; a10; a11; a12; a13; a14; a15])
          =? 0) with true in F17.
  cbv iota in F17. rewrite F16 in F17. change (h2_flags hdr2_new) with 0 in F17. rewrite N.add_0_l in F17.
  assert (I17 : h2_replyflag h17).
  { unfold h2_replyflag. rewrite P17, P16, F17, D17. split; [reflexivity|].
    split; [|split; [cbv; discriminate|intros _; cbv; discriminate]].
    pose proof (testbit_land _ _ Hbit (or_intror eq_refl)) as L.
    change 1 with (N.ones 1) in L at 1. rewrite N.land_ones in L. exact L. }
  pose proof (hdr2_replyflag_fold _ _ _ Hh I17) as (Pf & _).
  unfold nbt_repl in H. rewrite Hpay in H. unfold hdr2_repl in H. rewrite Pf in H. inversion H. reflexivity.
Qed.
