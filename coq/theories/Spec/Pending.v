(* Spec/Pending.v -- the invariant of the per-flow prefix buffer of proto::repl: what a
   control block keeps while its protocol is unknown is a string of octets of at most
   PENDING_MAX bytes.  It holds of the empty table and is kept by every step (C01). *)
From MS Require Export Bytes Proto.

Definition pending_ok (tc : tcb) : Prop :=
  bytes_ok (t_pending tc) = true /\ lenN (t_pending tc) <= PENDING_MAX.

Definition table_pending_ok (tb : table) : Prop :=
  forall k tc, tbl_find k tb = Some tc -> pending_ok tc.
